(* Lemmas about model/Router.v against model/RouterSpec.v (property C02, and the untimed parts of C05). *)
From Coq Require Import List NArith ZArith Bool Arith Lia Sorted.
From Coq.Strings Require Import Byte.
From L4.model Require Import GoBase Router RouterSpec.
Import ListNotations.
Close Scope Z_scope.
Open Scope nat_scope.

Section Net.
Variable net : Type.
Variable now : net -> Z.
Variable set_dl : option Z -> net -> net.
Variable nread : nat -> net -> rres * net.
Variable npush : list byte -> net -> net.

Notation st := (st net).
Notation res := (res net).
Notation emit := (emit net now).
Notation arm := (arm net now set_dl).
Notation clear := (clear net now set_dl).
Notation prefetch := (prefetch net nread).
Notation read_full_st := (read_full_st net nread).
Notation chain := (chain net now nread npush).
Notation pass := (pass net now set_dl nread npush).
Notation loop := (loop net now set_dl nread npush).
Notation compile := (compile net now set_dl nread npush).


Lemma bind_ext (r : res) k k' : (forall s, k s = k' s) -> bind r k = bind r k'.
Proof. destruct r; cbn; auto. Qed.
Lemma bind_assoc (r : res) k k' : bind (bind r k) k' = bind r (fun s => bind (k s) k').
Proof. destruct r; reflexivity. Qed.
Lemma bind_cont (r : res) : bind r (fun s => Cont s) = r.
Proof. destruct r; reflexivity. Qed.

(* ------------------------------------------------------------ elementary facts about states *)
Lemma evs_emit e s : evs (emit e s) = evs s ++ [e].
Proof. unfold evs, Router.emit. cbn. rewrite map_app. reflexivity. Qed.
Lemma evs_clear s : evs (clear s) = evs s ++ [EClear].
Proof. unfold Router.clear. rewrite evs_emit. reflexivity. Qed.
Lemma evs_arm dl s : evs (arm dl s) = evs s ++ [EArm].
Proof. unfold Router.arm. rewrite evs_emit. reflexivity. Qed.
Lemma avail_emit e s : avail (emit e s) = avail s. Proof. reflexivity. Qed.
Lemma avail_clear s : avail (clear s) = avail s. Proof. reflexivity. Qed.
Lemma avail_arm dl s : avail (arm dl s) = avail s. Proof. reflexivity. Qed.
Lemma off_emit e s : off (emit e s) = off s. Proof. reflexivity. Qed.
Lemma off_clear s : off (clear s) = off s. Proof. reflexivity. Qed.
Lemma off_arm dl s : off (arm dl s) = off s. Proof. reflexivity. Qed.

Lemma prefetch_inl s s' : prefetch s = inl s' ->
  evs s' = evs s /\ off s' = off s /\ exists dta, avail s' = avail s ++ dta.
Proof.
  unfold Router.prefetch. destruct (MAXB <=? off s + length (avail s)); [discriminate|].
  destruct (nread CHUNK (nt s)) as [r n']. destruct r; try discriminate.
  intro H; inversion H; subst; cbn. repeat split; eauto.
Qed.
Lemma prefetch_inr s w s' : prefetch s = inr (w, s') ->
  evs s' = evs s /\ off s' = off s /\ avail s' = avail s.
Proof.
  unfold Router.prefetch. destruct (MAXB <=? off s + length (avail s)).
  - intro H; inversion H; subst; auto.
  - destruct (nread CHUNK (nt s)) as [r n']. destruct r; try discriminate; intro H; inversion H; subst; cbn; auto.
Qed.

Lemma read_full_st_evs k s r s' : read_full_st k s = (r, s') -> evs s' = evs s.
Proof.
  unfold Router.read_full_st. destruct (k <=? length (avail s)).
  - intro H; inversion H; subst; reflexivity.
  - destruct (net_read_full net nread (S k) (k - length (avail s)) (avail s) (nt s)) as [r0 n'].
    intro H; inversion H; subst; reflexivity.
Qed.

(* ------------------------------------------------------------ next is called in tail position only *)
Definition tail_ok (c : nat -> list route -> Z -> (st -> res) -> st -> res) : Prop :=
  forall d rs t next s, c d rs t next s = bind (c d rs t (fun s' => Cont s') s) next.

Lemma chain_bind sub d (Hsub : tail_ok sub) idx hs : forall next s,
  chain sub d idx hs next s = bind (chain sub d idx hs (fun s' => Cont s') s) next.
Proof.
  induction hs as [|h hs IH]; intros next s; cbn [Router.chain].
  - reflexivity.
  - destruct h.
    + reflexivity.
    + destruct (read_full_st k s) as [[dta|] s']; [apply IH|reflexivity].
    + reflexivity.
    + apply IH.
    + rewrite (Hsub (S d) rs timeout (Router.chain net now nread npush sub d idx hs next)).
      rewrite (Hsub (S d) rs timeout (Router.chain net now nread npush sub d idx hs (fun s' => Cont s'))).
      rewrite bind_assoc. apply bind_ext. intro s'. apply IH.
Qed.

Lemma pass_final_not_cont sub d rest : forall i lm lnm stt nm s r,
  pass sub d i rest lm lnm stt nm s = PFinal r -> is_cont r = false.
Proof.
  induction rest as [|[mss hs] rest IH]; intros i lm lnm stt nm s r; cbn [Router.pass]; [discriminate|].
  destruct (leo i lm); [apply IH|].
  destruct (is_no (stt i) && leo i lnm); [apply IH|].
  destruct (anymatch mss (avail s)).
  - destruct (chain sub d i hs (fun st' => Cont st') _) eqn:E; try (intro H; inversion H; subst; reflexivity).
    apply IH.
  - apply IH.
  - destruct nm; [apply IH|discriminate].
  - intro H; inversion H; reflexivity.
  - intro H; inversion H; reflexivity.
Qed.

Lemma loop_bind sub d rs dl next g : forall lm lnm stt nm s,
  loop sub d rs dl next g lm lnm stt nm s = bind (loop sub d rs dl (fun s' => Cont s') g lm lnm stt nm s) next.
Proof.
  induction g as [|g IH]; intros; cbn [Router.loop]; [reflexivity|].
  destruct (if nm then prefetch (arm dl s) else inl (arm dl s)) as [s'|[w s']]; [|reflexivity].
  destruct (pass sub d 0 rs lm lnm stt nm s') as [r|lm' lnm' stt' s''] eqn:EP.
  { apply pass_final_not_cont in EP. destruct r; try reflexivity. discriminate. }
  destruct (match lm' with Some j => S j =? length rs | None => length rs =? 0 end); [reflexivity|].
  destruct (undecided (length rs) lm' stt'); [apply IH|reflexivity].
Qed.

Lemma compile_tail fuel : tail_ok (compile fuel).
Proof.
  induction fuel as [|f IH]; intros d rs t next s; cbn [Router.compile]; [reflexivity|].
  apply loop_bind.
Qed.

Lemma compile_bind fuel d rs t next s :
  compile fuel d rs t next s = bind (compile fuel d rs t (fun s' => Cont s') s) next.
Proof. apply compile_tail. Qed.

(* ------------------------------------------------------------ projections *)
Lemma proj_app d a b : proj d (a ++ b) = proj d a ++ proj d b.
Proof. apply filter_app. Qed.
Lemma min_depth_app d a b : min_depth d a -> min_depth d b -> min_depth d (a ++ b).
Proof. intros; apply Forall_app; auto. Qed.
Lemma min_depth_nil d : min_depth d []. Proof. constructor. Qed.
Lemma min_depth_S d l : min_depth (S d) l -> min_depth d l.
Proof. intro H. eapply Forall_impl; [|exact H]. intros e; cbn beta. destruct (ev_depth e); [lia|auto]. Qed.
Lemma proj_min_depth d l : min_depth (S d) l -> proj d l = [].
Proof.
  induction 1 as [|e l He _ IH]; [reflexivity|]. cbn. unfold at_level. destruct (ev_depth e) as [d'|].
  - destruct (d' =? d) eqn:E; [apply Nat.eqb_eq in E; lia|exact IH].
  - exact IH.
Qed.
Lemma count_fb_app d a b : count_fb d (a ++ b) = count_fb d a + count_fb d b.
Proof. unfold count_fb. rewrite filter_app, app_length. reflexivity. Qed.
Lemma count_fb_min_depth d l : min_depth (S d) l -> count_fb d l = 0.
Proof.
  induction 1 as [|e l He _ IH]; [reflexivity|]. unfold count_fb in *. cbn.
  destruct e as [| |d' i b|d' i x|d' b|d' i b|d' i b|d' w|d' i|d' i]; cbn in *; try exact IH.
  destruct (d' =? d) eqn:E; [apply Nat.eqb_eq in E; lia|exact IH].
Qed.

Definition ext_ok (c : nat -> list route -> Z -> (st -> res) -> st -> res) : Prop :=
  forall d rs t s, exists own, evs (res_st (c d rs t (fun s' => Cont s') s)) = evs s ++ own /\ min_depth d own.

Section Level.
Variable sub : nat -> list route -> Z -> (st -> res) -> st -> res.
Hypothesis sub_tail : tail_ok sub.
Hypothesis sub_ext : ext_ok sub.
Variable stable : Prop.
Variable rs : list route.
Variable d : nat.
Hypothesis Hstable : stable -> stable_routes rs.
Notation good := (good stable rs d).

Ltac md := repeat first [apply min_depth_nil | apply min_depth_app | (constructor; [cbn; lia|]) | (constructor; [cbn; exact I|])].

Lemma chain_spec idx hs : forall s,
  exists own, evs (res_st (chain sub d idx hs (fun s' => Cont s') s)) = evs s ++ own /\ min_depth d own /\ count_fb d own = 0 /\
    (if is_cont (chain sub d idx hs (fun s' => Cont s') s)
     then forall kk, good (Some idx) kk -> good (Some idx) (proj d own ++ kk)
     else good (Some idx) (proj d own)).
Proof.
  induction hs as [|h hs IH]; intro s; cbn [Router.chain].
  - exists []. rewrite app_nil_r. cbn. repeat split; auto. constructor.
  - destruct h.
    + exists []. rewrite app_nil_r. cbn. repeat split; auto; constructor.
    + destruct (read_full_st k s) as [[dta|] s'] eqn:ER; apply read_full_st_evs in ER.
      * destruct (IH (emit (ERead d idx dta) s')) as (own & He & Hm & Hc & Hg).
        exists (ERead d idx dta :: own). rewrite He, evs_emit, ER, <- app_assoc. cbn [app].
        split; [reflexivity|]. split; [constructor; [cbn; lia|exact Hm]|]. split; [exact Hc|].
        cbn [proj filter at_level ev_depth]. rewrite Nat.eqb_refl.
        destruct (is_cont _); [intros kk Hk; cbn [app]; apply g_read; apply Hg; exact Hk|apply g_read; exact Hg].
      * exists [EHErr d idx]. cbn [res_st is_cont]. rewrite evs_emit, ER. split; [reflexivity|]. split; [md|]. split; [reflexivity|].
        cbn [proj filter at_level ev_depth]. rewrite Nat.eqb_refl. apply g_herr.
    + exists [EHErr d idx]. cbn [res_st is_cont]. rewrite evs_emit. split; [reflexivity|]. split; [md|]. split; [reflexivity|].
      cbn [proj filter at_level ev_depth]. rewrite Nat.eqb_refl. apply g_herr.
    + exact (IH _).
    + rewrite (sub_tail (S d) rs0 timeout). destruct (sub_ext (S d) rs0 timeout s) as (own1 & He1 & Hm1).
      destruct (sub (S d) rs0 timeout (fun s' => Cont s') s) as [s1|s1|s1|s1] eqn:ES; cbn [bind]; cbn [res_st] in He1.
      2: { destruct (IH s1) as (own & He & Hm & Hc & Hg). exists (own1 ++ own).
           rewrite He, He1, <- app_assoc. split; [reflexivity|]. split; [apply min_depth_app; [apply min_depth_S; exact Hm1|exact Hm]|].
           rewrite count_fb_app, (count_fb_min_depth _ _ Hm1), proj_app, (proj_min_depth _ _ Hm1). cbn [app]. split; [exact Hc|exact Hg]. }
      all: exists own1; cbn [res_st is_cont]; split; [exact He1|]; split; [apply min_depth_S; exact Hm1|];
           rewrite (count_fb_min_depth _ _ Hm1), (proj_min_depth _ _ Hm1); split; [reflexivity|constructor].
Qed.

(* ---- the cache invariant (DESIGN appendix A) ---- *)
Definition InvA (lm : option nat) (pos : nat) (stt : stmap) (b : list byte) : Prop :=
  forall i mss, lto lm i = true -> i < pos -> nth_mss rs i = Some mss ->
    (stt i = Some SNo /\ anymatch mss b = No) \/ (stt i = Some SMore /\ anymatch mss b = More).
Definition InvB (lm lnm : option nat) (stt : stmap) (b : list byte) : Prop :=
  forall i mss, lto lm i = true -> leo i lnm = true -> stt i = Some SNo -> nth_mss rs i = Some mss ->
    exists p q, b = p ++ q /\ anymatch mss p = No.

Lemma leo_lto i o : leo i o = true -> lto o i = false.
Proof. destruct o as [j|]; cbn; [|discriminate]. intro H. apply Nat.leb_le in H. apply Nat.ltb_ge. exact H. Qed.
Lemma nleo_lto i o : leo i o = false -> lto o i = true.
Proof. destruct o as [j|]; cbn; [|reflexivity]. intro H. apply Nat.leb_gt in H. apply Nat.ltb_lt. exact H. Qed.
Lemma setst_same stt i v : setst stt i v i = Some v.
Proof. unfold setst. rewrite Nat.eqb_refl. reflexivity. Qed.
Lemma setst_other stt i v j : j <> i -> setst stt i v j = stt j.
Proof. unfold setst. intro H. apply Nat.eqb_neq in H. rewrite H. reflexivity. Qed.

Lemma undecided_true n lm stt i : i < n -> lto lm i = true -> is_more (stt i) = true -> undecided n lm stt = true.
Proof.
  intros Hi Hl Hm. unfold undecided. apply existsb_exists. exists i. split; [apply in_seq; lia|]. rewrite Hl, Hm. reflexivity.
Qed.
Lemma undecided_false n lm stt i : undecided n lm stt = false -> i < n -> lto lm i = true -> is_more (stt i) = false.
Proof.
  intros Hu Hi Hl. destruct (is_more (stt i)) eqn:E; [|reflexivity].
  rewrite (undecided_true n lm stt i Hi Hl E) in Hu. discriminate.
Qed.

Lemma nth_mss_lt i mss : nth_mss rs i = Some mss -> i < length rs.
Proof. unfold nth_mss. destruct (nth_error rs i) eqn:E; [|discriminate]. intros _. apply nth_error_Some. congruence. Qed.
Lemma nth_mss_mid pre mss hs rest : rs = pre ++ Route mss hs :: rest -> nth_mss rs (length pre) = Some mss.
Proof. intro H. unfold nth_mss. rewrite H, nth_error_app2, Nat.sub_diag by lia. reflexivity. Qed.
Lemma nth_mss_stable i mss : stable -> nth_mss rs i = Some mss -> no_stable (anymatch mss).
Proof.
  intros Hs H. unfold nth_mss in H. destruct (nth_error rs i) as [r|] eqn:E; [|discriminate]. inversion H; subst.
  apply (Hstable Hs). eapply nth_error_In; exact E.
Qed.

Lemma InvB_valid lm lnm stt b i mss : stable -> InvB lm lnm stt b ->
  lto lm i = true -> leo i lnm = true -> stt i = Some SNo -> nth_mss rs i = Some mss -> anymatch mss b = No.
Proof.
  intros Hs HB Hl Hn Hst Hm. destruct (HB i mss Hl Hn Hst Hm) as (p & q & -> & Hp).
  apply (nth_mss_stable i mss Hs Hm). exact Hp.
Qed.

Definition pass_post (lm : option nat) (s : st) (pr : passres net) : Prop :=
  match pr with
  | PFinal r => exists own, evs (res_st r) = evs s ++ own /\ min_depth d own /\ count_fb d own = 0 /\ good lm (proj d own)
  | PState lm' lnm' stt' s' => exists own, evs s' = evs s ++ own /\ min_depth d own /\ count_fb d own = 0 /\
       (forall kk, good lm' kk -> good lm (proj d own ++ kk)) /\
       (stable -> InvB lm' lnm' stt' (avail s')) /\
       (undecided (length rs) lm' stt' = false -> stable ->
          forall i mss, lto lm' i = true -> nth_mss rs i = Some mss -> anymatch mss (avail s') = No)
  end.

Lemma pass_post_prepend lm lm1 s s1 pr pre1 :
  evs s1 = evs s ++ pre1 -> min_depth d pre1 -> count_fb d pre1 = 0 ->
  (forall kk, good lm1 kk -> good lm (proj d pre1 ++ kk)) ->
  pass_post lm1 s1 pr -> pass_post lm s pr.
Proof.
  intros He Hm Hc Hg. destruct pr as [r|lm' lnm' stt' s']; cbn [pass_post].
  - intros (own & He' & Hm' & Hc' & Hg'). exists (pre1 ++ own). rewrite He', He, <- app_assoc.
    split; [reflexivity|]. split; [apply min_depth_app; assumption|]. rewrite count_fb_app, Hc, Hc', proj_app.
    split; [reflexivity|]. apply Hg. exact Hg'.
  - intros (own & He' & Hm' & Hc' & Hg' & HB & HU). exists (pre1 ++ own). rewrite He', He, <- app_assoc.
    split; [reflexivity|]. split; [apply min_depth_app; assumption|]. rewrite count_fb_app, Hc, Hc', proj_app.
    split; [reflexivity|]. split; [|split; assumption].
    intros kk Hk. rewrite <- app_assoc. apply Hg. apply Hg'. exact Hk.
Qed.

Lemma pass_spec : forall rest pre i lm lnm stt nm s,
  rs = pre ++ rest -> length pre = i ->
  (stable -> InvA lm i stt (avail s)) -> (stable -> InvB lm lnm stt (avail s)) ->
  pass_post lm s (pass sub d i rest lm lnm stt nm s).
Proof.
  induction rest as [|[mss hs] rest IH]; intros pre i lm lnm stt nm s Hrs Hlen HA HB; cbn [Router.pass].
  - (* end of the route list *)
    cbn [pass_post]. exists []. rewrite app_nil_r. split; [reflexivity|]. split; [apply min_depth_nil|]. split; [reflexivity|].
    split; [intros kk Hk; exact Hk|]. split; [exact HB|].
    intros Hu Hs j mssj Hl Hj. rewrite app_nil_r in Hrs. subst pre.
    destruct (HA Hs j mssj Hl) as [[_ H]|[H _]]; [rewrite <- Hlen; eapply nth_mss_lt; exact Hj|exact Hj|exact H|].
    pose proof (undecided_false _ _ _ j Hu (nth_mss_lt _ _ Hj) Hl) as Hf. rewrite H in Hf. discriminate.
  - assert (Hmss : nth_mss rs i = Some mss) by (rewrite <- Hlen; eapply nth_mss_mid; exact Hrs).
    assert (Hrs' : rs = (pre ++ [Route mss hs]) ++ rest) by (rewrite <- app_assoc; exact Hrs).
    assert (Hlen' : length (pre ++ [Route mss hs]) = S i) by (rewrite app_length; cbn; lia).
    destruct (leo i lm) eqn:Elm.
    { (* i <= lastMatchedRouteIdx *)
      apply (IH _ (S i) lm lnm stt nm s Hrs' Hlen'); [|exact HB].
      intros Hs j mssj Hl Hj Hm. assert (j <> i) by (intro; subst j; rewrite (leo_lto _ _ Elm) in Hl; discriminate).
      apply (HA Hs j mssj Hl); [lia|exact Hm]. }
    apply nleo_lto in Elm.
    destruct (is_no (stt i) && leo i lnm) eqn:Ec.
    { (* cached routeNotMatched *)
      apply andb_true_iff in Ec. destruct Ec as [Eno Elnm].
      assert (Hst : stt i = Some SNo) by (destruct (stt i) as [[]|]; try discriminate; reflexivity).
      assert (Hno : stable -> anymatch mss (avail s) = No) by (intro Hs; eapply InvB_valid; eauto).
      apply (pass_post_prepend lm lm s (emit (ESkip d i (avail s)) s) _ [ESkip d i (avail s)]).
      - apply evs_emit.
      - md.
      - reflexivity.
      - intros kk Hk. cbn [proj filter at_level ev_depth]. rewrite Nat.eqb_refl. cbn [app]. eapply g_skip; eauto.
      - apply (IH _ (S i) lm lnm stt nm _ Hrs' Hlen'); [|exact HB].
        intros Hs j mssj Hl Hj Hm. destruct (Nat.eq_dec j i) as [->|Hne].
        + left. rewrite Hmss in Hm. inversion Hm; subst. split; [exact Hst|apply Hno; exact Hs].
        + apply (HA Hs j mssj Hl); [lia|exact Hm]. }
    clear Ec.
    destruct (anymatch mss (avail s)) eqn:Ev.
    + (* matched *)
      set (s1 := emit (ERun d i (avail s)) (clear s)).
      assert (Hs1 : evs s1 = evs s ++ [EClear; ERun d i (avail s)]).
      { unfold s1. rewrite evs_emit, evs_clear, <- app_assoc. reflexivity. }
      assert (Hrun : forall l, good (Some i) l -> good lm (ERun d i (avail s) :: l)).
      { intros l Hl. eapply g_run; eauto.
        intros Hs j mssj Hlj Hji Hmj. destruct (HA Hs j mssj Hlj Hji Hmj) as [[_ H]|[_ H]]; rewrite H; discriminate. }
      destruct (chain_spec i hs s1) as (ownc & Hec & Hmc & Hcc & Hgc).
      destruct (chain sub d i hs (fun st' => Cont st') s1) as [s2|s2|s2|s2] eqn:Ech; cbn [is_cont res_st] in *.
      2: { (* handlers were not terminal: go on with the next route on the connection they left *)
        apply (pass_post_prepend lm (Some i) s (emit (ENext d i (avail s2)) s2) _ (([EClear; ERun d i (avail s)] ++ ownc) ++ [ENext d i (avail s2)])).
        - rewrite evs_emit, Hec, Hs1, <- !app_assoc. reflexivity.
        - apply min_depth_app; [apply min_depth_app; [md|exact Hmc]|md].
        - rewrite !count_fb_app, Hcc. reflexivity.
        - intros kk Hk. rewrite !proj_app. cbn [proj filter at_level ev_depth]. rewrite !Nat.eqb_refl. cbn [app]. rewrite <- app_assoc.
          apply Hrun. apply Hgc. cbn [app]. apply g_next. exact Hk.
        - apply (IH _ (S i) (Some i) (Some i) (setst stt i SYes) nm (emit (ENext d i (avail s2)) s2) Hrs' Hlen').
          + intros _ j mssj Hl Hj _. cbn in Hl. apply Nat.ltb_lt in Hl. lia.
          + intros _ j mssj Hl Hj _ _. cbn in Hl, Hj. apply Nat.ltb_lt in Hl. apply Nat.leb_le in Hj. lia. }
      all: cbn [pass_post res_st]; exists ([EClear; ERun d i (avail s)] ++ ownc); rewrite Hec, Hs1, <- app_assoc;
        (split; [reflexivity|]); (split; [apply min_depth_app; [md|exact Hmc]|]); rewrite count_fb_app, Hcc;
        (split; [reflexivity|]); rewrite proj_app; cbn [proj filter at_level ev_depth]; rewrite Nat.eqb_refl; cbn [app];
        apply Hrun; exact Hgc.
    + (* not matched *)
      apply (IH _ (S i) lm lnm (setst stt i SNo) nm s Hrs' Hlen').
      * intros Hs j mssj Hl Hj Hm. destruct (Nat.eq_dec j i) as [->|Hne].
        -- left. rewrite setst_same. rewrite Hmss in Hm. inversion Hm; subst. auto.
        -- rewrite setst_other by exact Hne. apply (HA Hs j mssj Hl); [lia|exact Hm].
      * intros Hs j mssj Hl Hj Hst Hm. destruct (Nat.eq_dec j i) as [->|Hne].
        -- rewrite Hmss in Hm. inversion Hm; subst. exists (avail s), []. rewrite app_nil_r. auto.
        -- rewrite setst_other in Hst by exact Hne. apply (HB Hs j mssj Hl Hj Hst Hm).
    + (* needs more data *)
      assert (HB' : stable -> InvB lm (Some i) (setst stt i SMore) (avail s)).
      { intros Hs j mssj Hl Hj Hst Hm. destruct (Nat.eq_dec j i) as [->|Hne].
        - rewrite setst_same in Hst. discriminate.
        - rewrite setst_other in Hst by exact Hne. cbn in Hj. apply Nat.leb_le in Hj.
          destruct (HA Hs j mssj Hl ltac:(lia) Hm) as [[_ H]|[H _]]; [|rewrite H in Hst; discriminate].
          exists (avail s), []. rewrite app_nil_r. auto. }
      destruct nm.
      * apply (IH _ (S i) lm (Some i) (setst stt i SMore) true s Hrs' Hlen'); [|exact HB'].
        intros Hs j mssj Hl Hj Hm. destruct (Nat.eq_dec j i) as [->|Hne].
        -- right. rewrite setst_same. rewrite Hmss in Hm. inversion Hm; subst. auto.
        -- rewrite setst_other by exact Hne. apply (HA Hs j mssj Hl); [lia|exact Hm].
      * (* first pass: break to force a prefetch *)
        cbn [pass_post]. exists []. rewrite app_nil_r. split; [reflexivity|]. split; [apply min_depth_nil|]. split; [reflexivity|].
        split; [intros kk Hk; exact Hk|]. split; [exact HB'|].
        intros Hu. rewrite (undecided_true _ lm _ i (nth_mss_lt _ _ Hmss) Elm) in Hu; [discriminate|].
        rewrite setst_same. reflexivity.
    + (* matcher error *)
      cbn [pass_post res_st]. exists [EDrop d DMatchErr]. rewrite evs_emit. split; [reflexivity|]. split; [md|]. split; [reflexivity|].
      cbn [proj filter at_level ev_depth]. rewrite Nat.eqb_refl. apply g_drop.
    + (* matcher panic *)
      cbn [pass_post res_st]. exists [EPanic d i]. rewrite evs_emit. split; [reflexivity|]. split; [md|]. split; [reflexivity|].
      cbn [proj filter at_level ev_depth]. rewrite Nat.eqb_refl. apply g_panic; [exact Elm|eapply nth_mss_lt; exact Hmss].
Qed.

Lemma InvB_app lm lnm stt b dta : InvB lm lnm stt b -> InvB lm lnm stt (b ++ dta).
Proof.
  intros HB j mssj Hl Hj Hst Hm. destruct (HB j mssj Hl Hj Hst Hm) as (p & q & -> & Hp).
  exists p, (q ++ dta). rewrite app_assoc. auto.
Qed.

(* what one invocation does, seen from its start state: [own] is everything it appended *)
Definition loop_post (lm : option nat) (s : st) (r : res) : Prop :=
  exists own, evs (res_st r) = evs s ++ own /\ min_depth d own /\ good lm (proj d own) /\
    count_fb d own = (if is_cont r then 1 else 0) /\
    (is_cont r = true -> exists own', own = own' ++ [EFallback d (avail (res_st r))]).

Lemma loop_spec dl g : forall lm lnm stt nm s,
  (stable -> InvB lm lnm stt (avail s)) ->
  loop_post lm s (loop sub d rs dl (fun s' => Cont s') g lm lnm stt nm s).
Proof.
  induction g as [|g IH]; intros lm lnm stt nm s HB; cbn [Router.loop].
  { exists []. rewrite app_nil_r. cbn. repeat split; auto; try constructor. discriminate. }
  set (sa := arm dl s).
  assert (Hsa : evs sa = evs s ++ [EArm]) by apply evs_arm.
  destruct (if nm then prefetch sa else inl sa) as [s'|[w s']] eqn:Epf.
  2: { (* prefetch failed: log and drop *)
    destruct nm; [|discriminate]. apply prefetch_inr in Epf. destruct Epf as (He & _ & _).
    exists [EArm; EDrop d w]. cbn [res_st is_cont]. rewrite evs_emit, He, Hsa, <- app_assoc.
    split; [reflexivity|]. split; [md|]. cbn [proj filter at_level ev_depth]. rewrite Nat.eqb_refl.
    split; [apply g_drop|]. split; [reflexivity|discriminate]. }
  assert (Hs' : evs s' = evs s ++ [EArm] /\ exists dta, avail s' = avail s ++ dta).
  { destruct nm.
    - apply prefetch_inl in Epf. destruct Epf as (He & _ & dta & Hd). rewrite He, Hsa. split; [reflexivity|]. exists dta. exact Hd.
    - inversion Epf; subst s'. split; [exact Hsa|]. exists []. rewrite app_nil_r. reflexivity. }
  destruct Hs' as (Hes' & dta & Hav).
  assert (HB' : stable -> InvB lm lnm stt (avail s')) by (intro Hs; rewrite Hav; apply InvB_app; apply HB; exact Hs).
  pose proof (pass_spec rs [] 0 lm lnm stt nm s' eq_refl eq_refl) as HP.
  assert (HA0 : stable -> InvA lm 0 stt (avail s')) by (intros _ j mssj _ Hj; lia).
  specialize (HP HA0 HB').
  destruct (pass sub d 0 rs lm lnm stt nm s') as [r|lm' lnm' stt' s''] eqn:Epass; cbn [pass_post] in HP.
  { destruct HP as (own & He & Hm & Hc & Hg). apply pass_final_not_cont in Epass.
    exists ([EArm] ++ own). rewrite He, Hes', <- app_assoc. split; [reflexivity|]. split; [apply min_depth_app; [md|exact Hm]|].
    rewrite proj_app, count_fb_app, Hc, Epass. cbn [proj filter at_level ev_depth app]. split; [exact Hg|]. split; [reflexivity|discriminate]. }
  destruct HP as (own & He & Hm & Hc & Hg & HBn & HU).
  destruct (match lm' with Some j => S j =? length rs | None => length rs =? 0 end) eqn:Eexit.
  { (* the last route has matched (or there is no route): call next *)
    set (s3 := if last_exit_clears && match lm' with None => true | Some _ => false end then clear s'' else s'').
    assert (Hs3 : exists c, evs s3 = evs s'' ++ c /\ min_depth d c /\ proj d c = [] /\ count_fb d c = 0 /\ avail s3 = avail s'').
    { unfold s3. destruct (last_exit_clears && _).
      - exists [EClear]. rewrite evs_clear. repeat split; auto. md.
      - exists []. rewrite app_nil_r. repeat split; auto. md. }
    destruct Hs3 as (c & Hec & Hmc & Hpc & Hcc & Hac).
    exists ([EArm] ++ own ++ c ++ [EFallback d (avail s3)]). cbn [res_st is_cont]. rewrite evs_emit, Hec, He, Hes', <- !app_assoc.
    split; [reflexivity|]. split; [repeat apply min_depth_app; try assumption; md|].
    rewrite !proj_app, !count_fb_app, Hc, Hcc, Hpc. cbn [proj filter at_level ev_depth app count_fb is_fb length]. rewrite Nat.eqb_refl. cbn [length].
    split; [|split; [lia|intros _; exists ([EArm] ++ own ++ c); rewrite <- !app_assoc; reflexivity]].
    apply Hg. apply g_fb. intros _ j mssj Hl Hj. exfalso. apply nth_mss_lt in Hj.
    destruct lm' as [j0|]; cbn in Hl; [apply Nat.eqb_eq in Eexit; apply Nat.ltb_lt in Hl; lia|apply Nat.eqb_eq in Eexit; lia]. }
  destruct (undecided (length rs) lm' stt') eqn:Eund.
  { (* some route above the last matched one is undecided: goto loop *)
    destruct (IH lm' lnm' stt' true s'' HBn) as (own2 & He2 & Hm2 & Hg2 & Hc2 & Hl2).
    exists ([EArm] ++ own ++ own2). rewrite He2, He, Hes', <- !app_assoc.
    split; [reflexivity|]. split; [repeat apply min_depth_app; try assumption; md|].
    rewrite !proj_app, !count_fb_app, Hc, Hc2. cbn [proj filter at_level ev_depth app count_fb is_fb length filter].
    split; [apply Hg; exact Hg2|]. split; [reflexivity|].
    intro Hc'. destruct (Hl2 Hc') as (o' & ->). exists ([EArm] ++ own ++ o'). rewrite <- !app_assoc. reflexivity. }
  (* every remaining route is decided as not matching: clear the deadline, call next *)
  exists ([EArm] ++ own ++ [EClear; EFallback d (avail (clear s''))]). cbn [res_st is_cont].
  rewrite evs_emit, evs_clear, He, Hes', <- !app_assoc.
  split; [reflexivity|]. split; [repeat apply min_depth_app; try assumption; md|].
  rewrite !proj_app, !count_fb_app, Hc. cbn [proj filter at_level ev_depth app count_fb is_fb length]. rewrite Nat.eqb_refl. cbn [length].
  split; [|split; [lia|intros _; exists ([EArm] ++ own ++ [EClear]); rewrite <- !app_assoc; reflexivity]].
  apply Hg. apply g_fb. intros Hs j mssj Hl Hj. rewrite avail_clear. apply (HU eq_refl Hs j mssj Hl Hj).
Qed.
End Level.

(* ------------------------------------------------------------ Compile *)
Lemma compile_ext fuel : ext_ok (compile fuel).
Proof.
  induction fuel as [|f IH]; intros d rs t s; cbn [Router.compile].
  - exists []. rewrite app_nil_r. split; [reflexivity|constructor].
  - destruct (loop_spec (compile f) (compile_tail f) IH False rs d (fun H : False => match H with end)
                (now (nt s) + t)%Z (S f) None None (st0) false s) as (own & He & Hm & _).
    + intros [].
    + exists own. split; assumption.
Qed.

(* one invocation of Compile with the identity continuation (compile_bind: any other continuation
   is run afterwards on the state it ends in) *)
Lemma compile_spec (stable : Prop) fuel d rs t s :
  (stable -> stable_routes rs) ->
  loop_post stable rs d None s (compile fuel d rs t (fun s' => Cont s') s).
Proof.
  intro Hst. destruct fuel as [|f]; cbn [Router.compile].
  - exists []. rewrite app_nil_r. cbn. repeat split; auto; try constructor. discriminate.
  - apply (loop_spec (compile f) (compile_tail f) (compile_ext f) stable rs d Hst).
    intros _ j mssj _ _ H. discriminate.
Qed.

(* ------------------------------------------------------------ consequences of [good] *)
Section Good.
Variable stable : Prop.
Variable rs : list route.
Variable d : nat.
Notation good := (good stable rs d).

Lemma lto_trans lm j i : lto lm j = true -> j < i -> lto lm i = true.
Proof. destruct lm as [k|]; cbn; [|reflexivity]. intros H Hi. apply Nat.ltb_lt in H. apply Nat.ltb_lt. lia. Qed.

Lemma good_run_matched lm l : good lm l -> forall i b, In (ERun d i b) l ->
  exists mss, nth_mss rs i = Some mss /\ anymatch mss b = Yes.
Proof.
  induction 1; intros i0 b0 Hin; cbn in Hin; try (destruct Hin as [Hin|Hin]; [try discriminate|]); try contradiction; eauto.
  inversion Hin; subst. eauto.
Qed.

Lemma good_skip_sound lm l : good lm l -> stable -> forall i b, In (ESkip d i b) l ->
  exists mss, nth_mss rs i = Some mss /\ anymatch mss b = No.
Proof.
  induction 1; intros Hs i0 b0 Hin; cbn in Hin; try (destruct Hin as [Hin|Hin]; [try discriminate|]); try contradiction; eauto.
  inversion Hin; subst. eauto.
Qed.

Lemma run_idxs_cons_run j b l : run_idxs d (ERun d j b :: l) = j :: run_idxs d l.
Proof. unfold run_idxs. cbn. rewrite Nat.eqb_refl. reflexivity. Qed.

Lemma good_runs_sorted lm l : good lm l ->
  Forall (fun i => lto lm i = true) (run_idxs d l) /\ StronglySorted lt (run_idxs d l).
Proof.
  induction 1; try (cbn; split; constructor); try exact IHgood.
  rewrite run_idxs_cons_run. destruct IHgood as [IH1 IH2]. split.
  - constructor; [assumption|]. eapply Forall_impl; [|exact IH1]. cbn. intros a Ha. apply Nat.ltb_lt in Ha. eapply lto_trans; eauto.
  - constructor; [exact IH2|]. eapply Forall_impl; [|exact IH1]. cbn. intros a Ha. apply Nat.ltb_lt in Ha. exact Ha.
Qed.

Notation last_run := (last_run d).
Lemma good_not_skipped lm pre : forall j b post, good lm (pre ++ ERun d j b :: post) -> stable ->
  forall i mss, lto (last_run lm pre) i = true -> i < j -> nth_mss rs i = Some mss -> anymatch mss b <> Yes.
Proof.
  revert lm. induction pre as [|e pre IH]; intros lm j b post Hg Hs i mss Hl Hij Hm; cbn [app] in Hg.
  - cbn in Hl. inversion Hg; subst. eauto.
  - inversion Hg; subst; cbn [last_run fold_left] in Hl; try rewrite Nat.eqb_refl in Hl;
      try (eapply IH; eauto; fail);
      try (destruct pre; discriminate).
Qed.

Lemma good_fb_last lm l : good lm l -> forall b, In (EFallback d b) l ->
  (exists l', l = l' ++ [EFallback d b]) /\
  (stable -> forall i mss, lto (last_run lm l) i = true -> nth_mss rs i = Some mss -> anymatch mss b = No).
Proof.
  induction 1; intros b0 Hin; cbn in Hin; try (destruct Hin as [Hin|Hin]; [try discriminate|]); try contradiction.
  - destruct (IHgood b0 Hin) as [[l' ->] HH2]. split; [exists (ESkip d i b :: l'); reflexivity|exact HH2].
  - destruct (IHgood b0 Hin) as [[l' ->] HH2]. split; [exists (ERun d j b :: l'); reflexivity|].
    cbn [last_run fold_left]. rewrite Nat.eqb_refl. exact HH2.
  - destruct (IHgood b0 Hin) as [[l' ->] HH2]. split; [exists (ERead d i x :: l'); reflexivity|exact HH2].
  - destruct (IHgood b0 Hin) as [[l' ->] HH2]. split; [exists (ENext d i b :: l'); reflexivity|exact HH2].
  - inversion Hin; subst. split; [exists []; reflexivity|]. cbn. assumption.
Qed.

Lemma good_drop_last lm l : good lm l -> forall w, In (EDrop d w) l ->
  (exists l', l = l' ++ [EDrop d w]) /\ count_fb d l = 0.
Proof.
  induction 1; intros w0 Hin; cbn in Hin; try (destruct Hin as [Hin|Hin]; [try discriminate|]); try contradiction.
  - destruct (IHgood w0 Hin) as [[l' ->] HH2]. split; [exists (ESkip d i b :: l'); reflexivity|exact HH2].
  - destruct (IHgood w0 Hin) as [[l' ->] HH2]. split; [exists (ERun d j b :: l'); reflexivity|exact HH2].
  - destruct (IHgood w0 Hin) as [[l' ->] HH2]. split; [exists (ERead d i x :: l'); reflexivity|exact HH2].
  - destruct (IHgood w0 Hin) as [[l' ->] HH2]. split; [exists (ENext d i b :: l'); reflexivity|exact HH2].
  - inversion Hin; subst. split; [exists []; reflexivity|reflexivity].
Qed.
End Good.

(* projection does not lose events of depth d *)
Lemma in_proj d e l : at_level d e = true -> In e l -> In e (proj d l).
Proof. intros H Hin. apply filter_In. auto. Qed.
Lemma run_idxs_proj d l : run_idxs d (proj d l) = run_idxs d l.
Proof.
  unfold run_idxs, proj. f_equal. induction l as [|e l IH]; [reflexivity|]. cbn.
  destruct e; cbn; try exact IH; destruct (depth =? d) eqn:E; cbn; rewrite ?E; try rewrite IH; reflexivity.
Qed.
Lemma count_fb_proj d l : count_fb d (proj d l) = count_fb d l.
Proof.
  unfold count_fb, proj. f_equal. induction l as [|e l IH]; [reflexivity|]. cbn.
  destruct e; cbn; try exact IH; destruct (depth =? d) eqn:E; cbn; rewrite ?E; try rewrite IH; reflexivity.
Qed.
Lemma last_run_proj d lm l : last_run d lm (proj d l) = last_run d lm l.
Proof.
  revert lm. induction l as [|e l IH]; intro lm; [reflexivity|]. unfold proj in *. cbn [filter].
  destruct e; cbn [at_level ev_depth last_run fold_left]; try apply IH;
    destruct (depth =? d) eqn:E; cbn [last_run fold_left]; rewrite ?E; apply IH.
Qed.

(* ------------------------------------------------------------ how an invocation moves between its routes *)
Lemma is_prefix_refl (b : list byte) : is_prefix b b.
Proof. exists []. rewrite app_nil_r. reflexivity. Qed.
Lemma is_prefix_app (p b x : list byte) : is_prefix p b -> is_prefix p (b ++ x).
Proof. intros [q ->]. exists (q ++ x). rewrite app_assoc. reflexivity. Qed.

Section FlowLevel.
Variable sub : nat -> list route -> Z -> (st -> res) -> st -> res.
Hypothesis sub_tail : tail_ok sub.
Hypothesis sub_ext : ext_ok sub.
Variable d : nat.
Notation flow := (flow d).

Lemma lto_of_nleo i o : leo i o = false -> lto o i = true.
Proof. destruct o as [j|]; cbn; [|reflexivity]. intro H. apply Nat.leb_gt in H. apply Nat.ltb_lt. exact H. Qed.

Lemma chain_flow idx hs : forall s,
  exists own, evs (res_st (chain sub d idx hs (fun s' => Cont s') s)) = evs s ++ own /\
    (if is_cont (chain sub d idx hs (fun s' => Cont s') s)
     then forall kk, flow (MIn idx) kk -> flow (MIn idx) (proj d own ++ kk)
     else flow (MIn idx) (proj d own)).
Proof.
  induction hs as [|h hs IH]; intro s; cbn [Router.chain].
  - exists []. rewrite app_nil_r. cbn. auto.
  - destruct h.
    + exists []. rewrite app_nil_r. cbn. split; [reflexivity|constructor].
    + destruct (read_full_st k s) as [[dta|] s'] eqn:ER; apply read_full_st_evs in ER.
      * destruct (IH (emit (ERead d idx dta) s')) as (own & He & Hg).
        exists (ERead d idx dta :: own). rewrite He, evs_emit, ER, <- app_assoc. split; [reflexivity|].
        cbn [proj filter at_level ev_depth]. rewrite Nat.eqb_refl.
        destruct (is_cont _); [intros kk Hk; cbn [app]; apply f_read; apply Hg; exact Hk|apply f_read; exact Hg].
      * exists [EHErr d idx]. cbn [res_st is_cont]. rewrite evs_emit, ER. split; [reflexivity|].
        cbn [proj filter at_level ev_depth]. rewrite Nat.eqb_refl. apply f_herr.
    + exists [EHErr d idx]. cbn [res_st is_cont]. rewrite evs_emit. split; [reflexivity|].
      cbn [proj filter at_level ev_depth]. rewrite Nat.eqb_refl. apply f_herr.
    + exact (IH _).
    + rewrite (sub_tail (S d) rs timeout). destruct (sub_ext (S d) rs timeout s) as (own1 & He1 & Hm1).
      destruct (sub (S d) rs timeout (fun s' => Cont s') s) as [s1|s1|s1|s1] eqn:ES; cbn [bind]; cbn [res_st] in He1.
      2: { destruct (IH s1) as (own & He & Hg). exists (own1 ++ own). rewrite He, He1, <- app_assoc. split; [reflexivity|].
           rewrite proj_app, (proj_min_depth _ _ Hm1). exact Hg. }
      all: exists own1; cbn [res_st is_cont]; split; [exact He1|]; rewrite (proj_min_depth _ _ Hm1); constructor.
Qed.

Definition pass_flow_post (lm : option nat) (p : list byte) (s : st) (pr : passres net) : Prop :=
  match pr with
  | PFinal r => exists own, evs (res_st r) = evs s ++ own /\ flow (MOut lm p) (proj d own)
  | PState lm' _ _ s' => exists own p', evs s' = evs s ++ own /\ is_prefix p' (avail s') /\
                           (forall kk, flow (MOut lm' p') kk -> flow (MOut lm p) (proj d own ++ kk))
  end.

Lemma pass_flow_prepend lm p lm1 p1 s s1 pr pre1 :
  evs s1 = evs s ++ pre1 ->
  (forall kk, flow (MOut lm1 p1) kk -> flow (MOut lm p) (proj d pre1 ++ kk)) ->
  pass_flow_post lm1 p1 s1 pr -> pass_flow_post lm p s pr.
Proof.
  intros He Hg. destruct pr as [r|lm' lnm' stt' s']; cbn [pass_flow_post].
  - intros (own & He' & Hg'). exists (pre1 ++ own). rewrite He', He, <- app_assoc. split; [reflexivity|].
    rewrite proj_app. apply Hg. exact Hg'.
  - intros (own & p' & He' & Hp & Hg'). exists (pre1 ++ own), p'. rewrite He', He, <- app_assoc. split; [reflexivity|]. split; [exact Hp|].
    intros kk Hk. rewrite proj_app, <- app_assoc. apply Hg. apply Hg'. exact Hk.
Qed.

Lemma pass_flow : forall rest i lm lnm stt nm s p, is_prefix p (avail s) ->
  pass_flow_post lm p s (pass sub d i rest lm lnm stt nm s).
Proof.
  induction rest as [|[mss hs] rest IH]; intros i lm lnm stt nm s p Hp; cbn [Router.pass].
  - exists [], p. rewrite app_nil_r. auto.
  - destruct (leo i lm) eqn:Elm; [apply IH; exact Hp|]. apply lto_of_nleo in Elm.
    destruct (is_no (stt i) && leo i lnm).
    { apply (pass_flow_prepend lm p lm p s (emit (ESkip d i (avail s)) s) _ [ESkip d i (avail s)]); [apply evs_emit| |apply IH; exact Hp].
      intros kk Hk. cbn [proj filter at_level ev_depth]. rewrite Nat.eqb_refl. cbn [app]. apply f_skip; assumption. }
    destruct (anymatch mss (avail s)).
    + set (s1 := emit (ERun d i (avail s)) (clear s)).
      assert (Hs1 : evs s1 = evs s ++ [EClear; ERun d i (avail s)]) by (unfold s1; rewrite evs_emit, evs_clear, <- app_assoc; reflexivity).
      destruct (chain_flow i hs s1) as (ownc & Hec & Hgc).
      destruct (chain sub d i hs (fun st' => Cont st') s1) as [s2|s2|s2|s2] eqn:Ech; cbn [is_cont res_st] in *.
      2: { apply (pass_flow_prepend lm p (Some i) (avail s2) s (emit (ENext d i (avail s2)) s2) _ (([EClear; ERun d i (avail s)] ++ ownc) ++ [ENext d i (avail s2)])).
           - rewrite evs_emit, Hec, Hs1, <- !app_assoc. reflexivity.
           - intros kk Hk. rewrite !proj_app. cbn [proj filter at_level ev_depth]. rewrite !Nat.eqb_refl. cbn [app]. rewrite <- app_assoc.
             apply f_run; [exact Elm|exact Hp|]. apply Hgc. cbn [app]. apply f_next. exact Hk.
           - apply IH. apply is_prefix_refl. }
      all: cbn [pass_flow_post res_st]; exists ([EClear; ERun d i (avail s)] ++ ownc); rewrite Hec, Hs1, <- app_assoc;
        (split; [reflexivity|]); rewrite proj_app; cbn [proj filter at_level ev_depth]; rewrite Nat.eqb_refl; cbn [app];
        apply f_run; [exact Elm|exact Hp|exact Hgc].
    + apply IH; exact Hp.
    + destruct nm; [apply IH; exact Hp|]. exists [], p. rewrite app_nil_r. auto.
    + cbn [pass_flow_post res_st]. exists [EDrop d DMatchErr]. rewrite evs_emit. split; [reflexivity|].
      cbn [proj filter at_level ev_depth]. rewrite Nat.eqb_refl. apply f_drop.
    + cbn [pass_flow_post res_st]. exists [EPanic d i]. rewrite evs_emit. split; [reflexivity|].
      cbn [proj filter at_level ev_depth]. rewrite Nat.eqb_refl. apply f_panic.
Qed.

Lemma loop_flow rs dl g : forall lm lnm stt nm s p, is_prefix p (avail s) ->
  exists own, evs (res_st (loop sub d rs dl (fun s' => Cont s') g lm lnm stt nm s)) = evs s ++ own /\ flow (MOut lm p) (proj d own).
Proof.
  induction g as [|g IH]; intros lm lnm stt nm s p Hp; cbn [Router.loop].
  { exists []. rewrite app_nil_r. split; [reflexivity|constructor]. }
  destruct (if nm then prefetch (arm dl s) else inl (arm dl s)) as [s'|[w s']] eqn:Epf.
  2: { destruct nm; [|discriminate]. apply prefetch_inr in Epf. destruct Epf as (He & _ & _).
       exists [EArm; EDrop d w]. cbn [res_st]. rewrite evs_emit, He, evs_arm, <- app_assoc. split; [reflexivity|].
       cbn [proj filter at_level ev_depth]. rewrite Nat.eqb_refl. apply f_drop. }
  assert (Hs' : evs s' = evs s ++ [EArm] /\ is_prefix p (avail s')).
  { destruct nm.
    - apply prefetch_inl in Epf. destruct Epf as (He & _ & dta & Hd). rewrite He, evs_arm, Hd. split; [reflexivity|]. apply is_prefix_app. exact Hp.
    - inversion Epf; subst s'. rewrite evs_arm. auto. }
  destruct Hs' as (Hes' & Hp').
  pose proof (pass_flow rs 0 lm lnm stt nm s' p Hp') as HP.
  destruct (pass sub d 0 rs lm lnm stt nm s') as [r|lm' lnm' stt' s'']; cbn [pass_flow_post] in HP.
  { destruct HP as (own & He & Hg). exists ([EArm] ++ own). rewrite He, Hes', <- app_assoc. split; [reflexivity|]. rewrite proj_app. exact Hg. }
  destruct HP as (own & p' & He & Hpp & Hg).
  destruct (match lm' with Some j => S j =? length rs | None => length rs =? 0 end).
  { set (s3 := if last_exit_clears && match lm' with None => true | Some _ => false end then clear s'' else s'').
    assert (Hs3 : exists c, evs s3 = evs s'' ++ c /\ proj d c = [] /\ avail s3 = avail s'').
    { unfold s3. destruct (last_exit_clears && _); [exists [EClear]; rewrite evs_clear; auto|exists []; rewrite app_nil_r; auto]. }
    destruct Hs3 as (c & Hec & Hpc & Hac).
    exists ([EArm] ++ own ++ c ++ [EFallback d (avail s3)]). cbn [res_st]. rewrite evs_emit, Hec, He, Hes', <- !app_assoc. split; [reflexivity|].
    rewrite !proj_app, Hpc. cbn [proj filter at_level ev_depth app]. rewrite Nat.eqb_refl. apply Hg. apply f_fb. rewrite Hac. exact Hpp. }
  destruct (undecided (length rs) lm' stt').
  { destruct (IH lm' lnm' stt' true s'' p' Hpp) as (own2 & He2 & Hg2).
    exists ([EArm] ++ own ++ own2). rewrite He2, He, Hes', <- !app_assoc. split; [reflexivity|].
    rewrite !proj_app. cbn [proj filter at_level ev_depth app]. apply Hg. exact Hg2. }
  exists ([EArm] ++ own ++ [EClear; EFallback d (avail (clear s''))]). cbn [res_st]. rewrite evs_emit, evs_clear, He, Hes', <- !app_assoc. split; [reflexivity|].
  rewrite !proj_app. cbn [proj filter at_level ev_depth app]. rewrite Nat.eqb_refl. apply Hg. apply f_fb. exact Hpp.
Qed.
End FlowLevel.

Lemma compile_flow fuel d rs t s :
  exists own, evs (res_st (compile fuel d rs t (fun s' => Cont s') s)) = evs s ++ own /\ flow d (MOut None (avail s)) (proj d own).
Proof.
  destruct fuel as [|f]; cbn [Router.compile].
  - exists []. rewrite app_nil_r. split; [reflexivity|constructor].
  - apply (loop_flow (compile f) (compile_tail f) (compile_ext f)). apply is_prefix_refl.
Qed.

(* consequences of [flow] *)
Section FlowFacts.
Variable d : nat.
Notation flow := (flow d).

Lemma flow_after_next pre : forall m i b post, flow m (pre ++ ENext d i b :: post) -> flow (MOut (Some i) b) post.
Proof.
  induction pre as [|e pre IH]; intros m i b post H; cbn [app] in H.
  - inversion H; subst. assumption.
  - inversion H; subst; try (eapply IH; eassumption); destruct pre; discriminate.
Qed.

Lemma flow_after_run pre : forall m i b post, flow m (pre ++ ERun d i b :: post) -> flow (MIn i) post.
Proof.
  induction pre as [|e pre IH]; intros m i b post H; cbn [app] in H.
  - inversion H; subst. assumption.
  - inversion H; subst; try (eapply IH; eassumption); destruct pre; discriminate.
Qed.

Lemma flow_out_head i p e l : flow (MOut (Some i) p) (e :: l) -> next_ok d i p e.
Proof.
  intro H. inversion H; subst; cbn; auto.
  - match goal with Hl : lto (Some i) _ = true |- _ => cbn in Hl; apply Nat.ltb_lt in Hl end. auto.
  - match goal with Hl : lto (Some i) _ = true |- _ => cbn in Hl; apply Nat.ltb_lt in Hl end. auto.
Qed.

Lemma flow_in_chain m l : flow m l -> forall i, m = MIn i -> (forall b, ~ In (ENext d i b) l) -> Forall (in_chain_ev d i) l.
Proof.
  induction 1; intros i0 Hm Hn; try discriminate; inversion Hm; subst.
  - constructor.
  - constructor; [cbn; auto|]. apply IHflow; [reflexivity|]. intros b Hin. apply (Hn b). right. exact Hin.
  - constructor; [cbn; auto|constructor].
  - exfalso. apply (Hn b). left. reflexivity.
Qed.
End FlowFacts.

(* ------------------------------------------------------------ the matching buffer stays bounded (C05) *)
Definition BUFB : nat := MAXB - 1 + CHUNK.
Definition buf_ok (s : st) : Prop := off s + length (avail s) <= BUFB.
Definition ev_buf_ok (e : ev) : Prop :=
  match e with ERun _ _ b | EFallback _ b | ESkip _ _ b | ENext _ _ b => length b <= BUFB | _ => True end.

Section Buffer.
Hypothesis maxb_pos : 1 <= MAXB.
Hypothesis H_len : forall m n dta n', nread m n = (RData dta, n') -> length dta <= m.

Lemma buf_ok_prefetch s s' : buf_ok s -> prefetch s = inl s' -> buf_ok s'.
Proof.
  unfold Router.prefetch, buf_ok, BUFB. intros Hok. destruct (MAXB <=? off s + length (avail s)) eqn:E; [discriminate|].
  apply Nat.leb_gt in E. destruct (nread CHUNK (nt s)) as [r n'] eqn:ER. destruct r; try discriminate.
  intro H; inversion H; subst; cbn [off avail]. rewrite app_length. pose proof (H_len _ _ _ _ ER). lia.
Qed.
Lemma buf_ok_prefetch_fail s w s' : buf_ok s -> prefetch s = inr (w, s') -> buf_ok s'.
Proof. intros Hok H. apply prefetch_inr in H. destruct H as (_ & Ho & Ha). unfold buf_ok. rewrite Ho, Ha. exact Hok. Qed.
Lemma buf_ok_read_full k s r s' : buf_ok s -> read_full_st k s = (r, s') -> buf_ok s'.
Proof.
  unfold Router.read_full_st, buf_ok. intro Hok. destruct (k <=? length (avail s)) eqn:E.
  - apply Nat.leb_le in E. intro H; inversion H; subst; cbn [off avail]. rewrite skipn_length. destruct (k =? length (avail s)); lia.
  - destruct (net_read_full net nread (S k) (k - length (avail s)) (avail s) (nt s)) as [r0 n'].
    intro H; inversion H; subst; cbn [off avail length]. lia.
Qed.

Definition buf_ext_ok (c : nat -> list route -> Z -> (st -> res) -> st -> res) : Prop :=
  forall d rs t s, buf_ok s -> exists own, evs (res_st (c d rs t (fun s' => Cont s') s)) = evs s ++ own /\ Forall ev_buf_ok own /\
                                           buf_ok (res_st (c d rs t (fun s' => Cont s') s)).

Section Level.
Variable sub : nat -> list route -> Z -> (st -> res) -> st -> res.
Hypothesis sub_tail : tail_ok sub.
Hypothesis sub_buf : buf_ext_ok sub.
Variable d : nat.

Lemma chain_buf idx hs : forall s, buf_ok s ->
  exists own, evs (res_st (chain sub d idx hs (fun s' => Cont s') s)) = evs s ++ own /\ Forall ev_buf_ok own /\
              buf_ok (res_st (chain sub d idx hs (fun s' => Cont s') s)).
Proof.
  induction hs as [|h hs IH]; intros s Hok; cbn [Router.chain].
  - exists []. rewrite app_nil_r. auto.
  - destruct h.
    + exists []. rewrite app_nil_r. auto.
    + destruct (read_full_st k s) as [[dta|] s'] eqn:ER; pose proof (buf_ok_read_full _ _ _ _ Hok ER) as Hok'; apply read_full_st_evs in ER.
      * destruct (IH (emit (ERead d idx dta) s') Hok') as (own & He & Hf & Hb).
        exists (ERead d idx dta :: own). rewrite He, evs_emit, ER, <- app_assoc. repeat split; auto. constructor; [exact I|exact Hf].
      * exists [EHErr d idx]. cbn [res_st]. rewrite evs_emit, ER. repeat split; auto. repeat constructor.
    + exists [EHErr d idx]. cbn [res_st]. rewrite evs_emit. repeat split; auto. repeat constructor.
    + apply (IH {| off := 0; avail := []; nt := npush (avail s) (nt s); tr := tr s |}). unfold buf_ok. cbn [off avail length]. lia.
    + rewrite (sub_tail (S d) rs timeout). destruct (sub_buf (S d) rs timeout s Hok) as (own1 & He1 & Hf1 & Hb1).
      destruct (sub (S d) rs timeout (fun s' => Cont s') s) as [s1|s1|s1|s1] eqn:ES; cbn [bind]; cbn [res_st] in He1, Hb1.
      2: { destruct (IH s1 Hb1) as (own & He & Hf & Hb). exists (own1 ++ own). rewrite He, He1, <- app_assoc.
           repeat split; auto. apply Forall_app; auto. }
      all: exists own1; cbn [res_st]; auto.
Qed.

Definition pass_buf_post (s : st) (pr : passres net) : Prop :=
  match pr with
  | PFinal r => exists own, evs (res_st r) = evs s ++ own /\ Forall ev_buf_ok own /\ buf_ok (res_st r)
  | PState _ _ _ s' => exists own, evs s' = evs s ++ own /\ Forall ev_buf_ok own /\ buf_ok s'
  end.

Lemma pass_buf_prepend s s1 pr pre1 : evs s1 = evs s ++ pre1 -> Forall ev_buf_ok pre1 -> pass_buf_post s1 pr -> pass_buf_post s pr.
Proof.
  intros He Hf. destruct pr as [r|? ? ? s']; cbn [pass_buf_post]; intros (own & He' & Hf' & Hb');
    exists (pre1 ++ own); rewrite He', He, <- app_assoc; repeat split; auto; apply Forall_app; auto.
Qed.

Lemma buf_ok_avail s : buf_ok s -> length (avail s) <= BUFB.
Proof. unfold buf_ok. lia. Qed.

Lemma pass_buf : forall rest i lm lnm stt nm s, buf_ok s -> pass_buf_post s (pass sub d i rest lm lnm stt nm s).
Proof.
  induction rest as [|[mss hs] rest IH]; intros i lm lnm stt nm s Hok; cbn [Router.pass].
  - exists []. rewrite app_nil_r. auto.
  - destruct (leo i lm); [apply IH; exact Hok|].
    destruct (is_no (stt i) && leo i lnm).
    { apply (pass_buf_prepend s (emit (ESkip d i (avail s)) s) _ [ESkip d i (avail s)]); [apply evs_emit| |apply IH; exact Hok].
      constructor; [apply buf_ok_avail; exact Hok|constructor]. }
    destruct (anymatch mss (avail s)).
    + set (s1 := emit (ERun d i (avail s)) (clear s)).
      assert (Hs1 : evs s1 = evs s ++ [EClear; ERun d i (avail s)]) by (unfold s1; rewrite evs_emit, evs_clear, <- app_assoc; reflexivity).
      assert (Hf1 : Forall ev_buf_ok [EClear; ERun d i (avail s)]) by (constructor; [exact I|constructor; [apply buf_ok_avail; exact Hok|constructor]]).
      destruct (chain_buf i hs s1 Hok) as (ownc & Hec & Hfc & Hbc).
      destruct (chain sub d i hs (fun st' => Cont st') s1) as [s2|s2|s2|s2] eqn:Ech; cbn [res_st] in Hec, Hbc.
      2: { apply (pass_buf_prepend s (emit (ENext d i (avail s2)) s2) _ (([EClear; ERun d i (avail s)] ++ ownc) ++ [ENext d i (avail s2)]));
             [rewrite evs_emit, Hec, Hs1, <- !app_assoc; reflexivity| |apply IH; exact Hbc].
           apply Forall_app; split; [apply Forall_app; auto|]. constructor; [apply buf_ok_avail; exact Hbc|constructor]. }
      all: cbn [pass_buf_post res_st]; exists ([EClear; ERun d i (avail s)] ++ ownc); rewrite Hec, Hs1, <- app_assoc; repeat split; auto; apply Forall_app; auto.
    + apply IH; exact Hok.
    + destruct nm; [apply IH; exact Hok|]. exists []. rewrite app_nil_r. auto.
    + cbn [pass_buf_post res_st]. exists [EDrop d DMatchErr]. rewrite evs_emit. repeat split; auto. repeat constructor.
    + cbn [pass_buf_post res_st]. exists [EPanic d i]. rewrite evs_emit. repeat split; auto. repeat constructor.
Qed.

Lemma loop_buf rs dl g : forall lm lnm stt nm s, buf_ok s ->
  exists own, evs (res_st (loop sub d rs dl (fun s' => Cont s') g lm lnm stt nm s)) = evs s ++ own /\ Forall ev_buf_ok own /\
              buf_ok (res_st (loop sub d rs dl (fun s' => Cont s') g lm lnm stt nm s)).
Proof.
  induction g as [|g IH]; intros lm lnm stt nm s Hok; cbn [Router.loop].
  { exists []. rewrite app_nil_r. auto. }
  assert (Hoka : buf_ok (arm dl s)) by exact Hok.
  destruct (if nm then prefetch (arm dl s) else inl (arm dl s)) as [s'|[w s']] eqn:Epf.
  2: { destruct nm; [|discriminate]. pose proof (buf_ok_prefetch_fail _ _ _ Hoka Epf) as Hok'. apply prefetch_inr in Epf. destruct Epf as (He & _ & _).
       exists [EArm; EDrop d w]. cbn [res_st]. rewrite evs_emit, He, evs_arm, <- app_assoc. repeat split; auto. repeat constructor. }
  assert (Hs' : evs s' = evs s ++ [EArm] /\ buf_ok s').
  { destruct nm.
    - pose proof (buf_ok_prefetch _ _ Hoka Epf) as Hok'. apply prefetch_inl in Epf. destruct Epf as (He & _). rewrite He, evs_arm. auto.
    - inversion Epf; subst s'. rewrite evs_arm. auto. }
  destruct Hs' as (Hes' & Hok').
  pose proof (pass_buf rs 0 lm lnm stt nm s' Hok') as HP.
  destruct (pass sub d 0 rs lm lnm stt nm s') as [r|lm' lnm' stt' s'']; cbn [pass_buf_post] in HP; destruct HP as (own & He & Hf & Hb).
  { exists ([EArm] ++ own). rewrite He, Hes', <- app_assoc. repeat split; auto. constructor; [exact I|exact Hf]. }
  destruct (match lm' with Some j => S j =? length rs | None => length rs =? 0 end).
  { set (s3 := if last_exit_clears && match lm' with None => true | Some _ => false end then clear s'' else s'').
    assert (Hs3 : exists c, evs s3 = evs s'' ++ c /\ Forall ev_buf_ok c /\ buf_ok s3).
    { unfold s3. destruct (last_exit_clears && _); [exists [EClear]; rewrite evs_clear; repeat split; auto; repeat constructor|exists []; rewrite app_nil_r; auto]. }
    destruct Hs3 as (c & Hec & Hfc & Hb3).
    exists ([EArm] ++ own ++ c ++ [EFallback d (avail s3)]). cbn [res_st]. rewrite evs_emit, Hec, He, Hes', <- !app_assoc.
    repeat split; auto. constructor; [exact I|]. apply Forall_app; split; [exact Hf|]. apply Forall_app; split; [exact Hfc|].
    constructor; [apply buf_ok_avail; exact Hb3|constructor]. }
  destruct (undecided (length rs) lm' stt').
  { destruct (IH lm' lnm' stt' true s'' Hb) as (own2 & He2 & Hf2 & Hb2).
    exists ([EArm] ++ own ++ own2). rewrite He2, He, Hes', <- !app_assoc. repeat split; auto. constructor; [exact I|]. apply Forall_app; auto. }
  exists ([EArm] ++ own ++ [EClear; EFallback d (avail (clear s''))]). cbn [res_st]. rewrite evs_emit, evs_clear, He, Hes', <- !app_assoc.
  repeat split; auto. constructor; [exact I|]. apply Forall_app; split; [exact Hf|].
  constructor; [exact I|constructor; [apply buf_ok_avail; exact Hb|constructor]].
Qed.
End Level.

Lemma compile_buf fuel : buf_ext_ok (compile fuel).
Proof.
  induction fuel as [|f IH]; intros d rs t s Hok; cbn [Router.compile].
  - exists []. rewrite app_nil_r. auto.
  - apply (loop_buf (compile f) (compile_tail f) IH); exact Hok.
Qed.
End Buffer.

(* ------------------------------------------------------------ deadline cleared before handlers; a drop ends everything (C05) *)
Lemma armed_after_step a l : armed_after a l = fold_left armed_step l a.
Proof. revert a. induction l as [|e l IH]; intro a; [reflexivity|]. destruct e; cbn; apply IH. Qed.
Lemma armed_after_app a A B : armed_after a (A ++ B) = armed_after (armed_after a A) B.
Proof. rewrite !armed_after_step, fold_left_app. reflexivity. Qed.
Lemma hu_app a A B : hu a A -> hu (armed_after a A) B -> hu a (A ++ B).
Proof.
  revert a. induction A as [|e A IH]; intros a HA HB; [exact HB|]. cbn [app hu] in *. destruct HA as [H1 H2].
  split; [exact H1|]. apply IH; [exact H2|]. destruct e; exact HB.
Qed.
Lemma nodrops_app A B : nodrops A -> nodrops B -> nodrops (A ++ B).
Proof. intros HA HB e Hin. apply in_app_or in Hin. destruct Hin; auto. Qed.
Lemma drop_last_app A B : nodrops A -> drop_last B -> drop_last (A ++ B).
Proof.
  induction A as [|e A IH]; intros HA HB; [exact HB|]. cbn [app drop_last]. split.
  - intro H. rewrite (HA e (or_introl eq_refl)) in H. discriminate.
  - apply IH; [intros e' Hin; apply HA; right; exact Hin|exact HB].
Qed.
Lemma nodrops_drop_last A : nodrops A -> drop_last A.
Proof. intro H. rewrite <- (app_nil_r A). apply drop_last_app; [exact H|exact I]. Qed.

Section Shape.
Hypothesis Hflag : last_exit_clears = true.

Definition w_post (a : bool) (s : st) (r : res) : Prop :=
  exists own, evs (res_st r) = evs s ++ own /\ hu a own /\ drop_last own /\
              (is_cont r = true -> armed_after a own = false /\ nodrops own).
Definition sub_w_ok (c : nat -> list route -> Z -> (st -> res) -> st -> res) : Prop :=
  forall d rs t s a, w_post a s (c d rs t (fun s' => Cont s') s).

Section Level.
Variable sub : nat -> list route -> Z -> (st -> res) -> st -> res.
Hypothesis sub_tail : tail_ok sub.
Hypothesis sub_w : sub_w_ok sub.
Variable d : nat.

Ltac nd := let e := fresh in let H := fresh in intros e H; cbn in H; repeat (destruct H as [<-|H]; [reflexivity|]); contradiction.

Lemma chain_w idx hs : forall s, w_post false s (chain sub d idx hs (fun s' => Cont s') s).
Proof.
  induction hs as [|h hs IH]; intro s; cbn [Router.chain].
  - exists []. rewrite app_nil_r. cbn. repeat split; auto. nd.
  - destruct h.
    + exists []. rewrite app_nil_r. cbn. repeat split; auto; discriminate.
    + destruct (read_full_st k s) as [[dta|] s'] eqn:ER; apply read_full_st_evs in ER.
      * destruct (IH (emit (ERead d idx dta) s')) as (own & He & Hh & Hd & Hc).
        exists (ERead d idx dta :: own). rewrite He, evs_emit, ER, <- app_assoc. split; [reflexivity|].
        split; [cbn; split; [discriminate|exact Hh]|]. split; [cbn; split; [discriminate|exact Hd]|].
        intro Hcont. destruct (Hc Hcont) as [H1 H2]. split; [exact H1|]. intros e [<-|Hin]; [reflexivity|apply H2; exact Hin].
      * exists [EHErr d idx]. cbn [res_st is_cont]. rewrite evs_emit, ER. split; [reflexivity|]. cbn. repeat split; auto; discriminate.
    + exists [EHErr d idx]. cbn [res_st is_cont]. rewrite evs_emit. split; [reflexivity|]. cbn. repeat split; auto; discriminate.
    + exact (IH _).
    + rewrite (sub_tail (S d) rs timeout). destruct (sub_w (S d) rs timeout s false) as (own1 & He1 & Hh1 & Hd1 & Hc1).
      destruct (sub (S d) rs timeout (fun s' => Cont s') s) as [s1|s1|s1|s1] eqn:ES; cbn [bind]; cbn [res_st is_cont] in *.
      2: { destruct (Hc1 eq_refl) as [Ha1 Hn1]. destruct (IH s1) as (own & He & Hh & Hd & Hc).
           exists (own1 ++ own). rewrite He, He1, <- app_assoc. split; [reflexivity|].
           split; [apply hu_app; [exact Hh1|rewrite Ha1; exact Hh]|]. split; [apply drop_last_app; assumption|].
           intro Hcont. destruct (Hc Hcont) as [H1 H2]. rewrite armed_after_app, Ha1. split; [exact H1|apply nodrops_app; assumption]. }
      all: exists own1; repeat split; auto; discriminate.
Qed.

Definition pass_w_post (a : bool) (lm : option nat) (s : st) (pr : passres net) : Prop :=
  match pr with
  | PFinal r => exists own, evs (res_st r) = evs s ++ own /\ hu a own /\ drop_last own
  | PState lm' _ _ s' => exists own, evs s' = evs s ++ own /\ hu a own /\ nodrops own /\
                           (armed_after a own = false \/ (lm' = lm /\ armed_after a own = a))
  end.

Lemma pass_w : forall rest i lm lnm stt nm s a, pass_w_post a lm s (pass sub d i rest lm lnm stt nm s).
Proof.
  induction rest as [|[mss hs] rest IH]; intros i lm lnm stt nm s a; cbn [Router.pass].
  - exists []. rewrite app_nil_r. cbn. repeat split; auto. nd.
  - destruct (leo i lm); [apply IH|].
    destruct (is_no (stt i) && leo i lnm).
    { specialize (IH (S i) lm lnm stt nm (emit (ESkip d i (avail s)) s) a).
      destruct (pass sub d (S i) rest lm lnm stt nm _) as [r|lm' lnm' stt' s']; cbn [pass_w_post] in *.
      - destruct IH as (own & He & Hh & Hd). exists (ESkip d i (avail s) :: own). rewrite He, evs_emit, <- app_assoc.
        split; [reflexivity|]. split; [cbn; split; [discriminate|exact Hh]|]. cbn. split; [discriminate|exact Hd].
      - destruct IH as (own & He & Hh & Hn & Ha). exists (ESkip d i (avail s) :: own). rewrite He, evs_emit, <- app_assoc.
        split; [reflexivity|]. split; [cbn; split; [discriminate|exact Hh]|].
        split; [intros e [<-|Hin]; [reflexivity|apply Hn; exact Hin]|exact Ha]. }
    destruct (anymatch mss (avail s)).
    + set (s1 := emit (ERun d i (avail s)) (clear s)).
      assert (Hs1 : evs s1 = evs s ++ [EClear; ERun d i (avail s)]) by (unfold s1; rewrite evs_emit, evs_clear, <- app_assoc; reflexivity).
      destruct (chain_w i hs s1) as (ownc & Hec & Hhc & Hdc & Hcc).
      assert (Hhead : hu a ([EClear; ERun d i (avail s)] ++ ownc)).
      { cbn. split; [discriminate|]. split; [reflexivity|exact Hhc]. }
      destruct (chain sub d i hs (fun st' => Cont st') s1) as [s2|s2|s2|s2] eqn:Ech; cbn [res_st is_cont] in *.
      2: { destruct (Hcc eq_refl) as [Hac Hnc].
           specialize (IH (S i) (Some i) (Some i) (setst stt i SYes) nm (emit (ENext d i (avail s2)) s2) false).
           assert (Hhead2 : hu a (([EClear; ERun d i (avail s)] ++ ownc) ++ [ENext d i (avail s2)])).
           { apply hu_app; [exact Hhead|]. cbn. split; [discriminate|exact I]. }
           assert (Hac2 : armed_after a (([EClear; ERun d i (avail s)] ++ ownc) ++ [ENext d i (avail s2)]) = false).
           { rewrite !armed_after_app. cbn [armed_after]. exact Hac. }
           assert (Hnc2 : nodrops (([EClear; ERun d i (avail s)] ++ ownc) ++ [ENext d i (avail s2)])).
           { apply nodrops_app; [apply nodrops_app; [nd|exact Hnc]|nd]. }
           destruct (pass sub d (S i) rest (Some i) (Some i) (setst stt i SYes) nm (emit (ENext d i (avail s2)) s2)) as [r|lm' lnm' stt' s']; cbn [pass_w_post] in *.
           - destruct IH as (own & He & Hh & Hd). exists ((([EClear; ERun d i (avail s)] ++ ownc) ++ [ENext d i (avail s2)]) ++ own).
             split; [rewrite He, evs_emit, Hec, Hs1, <- !app_assoc; reflexivity|].
             split; [apply hu_app; [exact Hhead2|rewrite Hac2; exact Hh]|].
             apply drop_last_app; [exact Hnc2|exact Hd].
           - destruct IH as (own & He & Hh & Hn & Ha). exists ((([EClear; ERun d i (avail s)] ++ ownc) ++ [ENext d i (avail s2)]) ++ own).
             split; [rewrite He, evs_emit, Hec, Hs1, <- !app_assoc; reflexivity|].
             split; [apply hu_app; [exact Hhead2|rewrite Hac2; exact Hh]|].
             split; [apply nodrops_app; [exact Hnc2|exact Hn]|].
             left. rewrite armed_after_app, Hac2. destruct Ha as [Ha|[_ Ha]]; exact Ha. }
      all: cbn [pass_w_post res_st]; exists ([EClear; ERun d i (avail s)] ++ ownc); rewrite Hec, Hs1, <- app_assoc;
        (split; [reflexivity|]); (split; [exact Hhead|]); cbn; (split; [discriminate|]); (split; [discriminate|exact Hdc]).
    + apply IH.
    + destruct nm; [apply IH|]. exists []. rewrite app_nil_r. cbn. repeat split; auto. nd.
    + cbn [pass_w_post res_st]. exists [EDrop d DMatchErr]. rewrite evs_emit. cbn. repeat split; auto; discriminate.
    + cbn [pass_w_post res_st]. exists [EPanic d i]. rewrite evs_emit. cbn. repeat split; auto; discriminate.
Qed.

Definition not_exit (n : nat) (lm : option nat) : Prop := match lm with Some j => (S j =? n) = false | None => True end.

Lemma loop_w rs dl g : forall lm lnm stt nm s a, not_exit (length rs) lm ->
  w_post a s (loop sub d rs dl (fun s' => Cont s') g lm lnm stt nm s).
Proof.
  induction g as [|g IH]; intros lm lnm stt nm s a HP; cbn [Router.loop].
  { exists []. rewrite app_nil_r. cbn. repeat split; auto; discriminate. }
  destruct (if nm then prefetch (arm dl s) else inl (arm dl s)) as [s'|[w s']] eqn:Epf.
  2: { destruct nm; [|discriminate]. apply prefetch_inr in Epf. destruct Epf as (He & _ & _).
       exists [EArm; EDrop d w]. cbn [res_st is_cont]. rewrite evs_emit, He, evs_arm, <- app_assoc. split; [reflexivity|].
       cbn. repeat split; auto; discriminate. }
  assert (Hes' : evs s' = evs s ++ [EArm]).
  { destruct nm; [apply prefetch_inl in Epf; destruct Epf as (He & _); rewrite He|inversion Epf; subst s']; apply evs_arm. }
  pose proof (pass_w rs 0 lm lnm stt nm s' true) as HPs.
  destruct (pass sub d 0 rs lm lnm stt nm s') as [r|lm' lnm' stt' s''] eqn:Epass; cbn [pass_w_post] in HPs.
  { destruct HPs as (own & He & Hh & Hd). apply pass_final_not_cont in Epass.
    exists (EArm :: own). rewrite He, Hes', <- app_assoc. split; [reflexivity|].
    split; [cbn; split; [discriminate|exact Hh]|]. split; [cbn; split; [discriminate|exact Hd]|]. rewrite Epass. discriminate. }
  destruct HPs as (own & He & Hh & Hn & Ha).
  destruct (match lm' with Some j => S j =? length rs | None => length rs =? 0 end) eqn:Eexit.
  { set (s3 := if last_exit_clears && match lm' with None => true | Some _ => false end then clear s'' else s'').
    assert (Hs3 : exists c, evs s3 = evs s'' ++ c /\ (c = [] \/ c = [EClear]) /\ armed_after (armed_after true own) c = false).
    { unfold s3. destruct Ha as [Ha|[-> Ha]].
      - destruct (last_exit_clears && _); [exists [EClear]; rewrite evs_clear; auto|exists []; rewrite app_nil_r; auto].
      - destruct lm as [j|]; [unfold not_exit in HP; rewrite HP in Eexit; discriminate|]. rewrite Hflag. cbn [andb]. exists [EClear]. rewrite evs_clear. rewrite Ha. auto. }
    destruct Hs3 as (c & Hec & Hc & Hac).
    exists ((EArm :: own) ++ c ++ [EFallback d (avail s3)]). cbn [res_st is_cont]. rewrite evs_emit, Hec, He, Hes', <- !app_assoc. split; [reflexivity|].
    assert (Hnc : nodrops c) by (destruct Hc as [->| ->]; nd).
    assert (Hhc : forall b, hu b c) by (intro b; destruct Hc as [->| ->]; cbn; auto; split; [discriminate|exact I]).
    split; [apply hu_app; [cbn; split; [discriminate|exact Hh]|apply hu_app; [apply Hhc|]]|].
    { cbn [armed_after] in *. rewrite Hac. cbn. auto. }
    assert (Hnall : nodrops ((EArm :: own) ++ c ++ [EFallback d (avail s3)])).
    { apply nodrops_app; [intros e [<-|Hin]; [reflexivity|apply Hn; exact Hin]|apply nodrops_app; [exact Hnc|nd]]. }
    split; [apply nodrops_drop_last; exact Hnall|]. intros _. split; [|exact Hnall].
    rewrite !armed_after_app. cbn [armed_after] in *. rewrite Hac. reflexivity. }
  assert (HP' : not_exit (length rs) lm') by (destruct lm'; cbn; auto).
  destruct (undecided (length rs) lm' stt').
  { destruct (IH lm' lnm' stt' true s'' (armed_after true own) HP') as (own2 & He2 & Hh2 & Hd2 & Hc2).
    exists ((EArm :: own) ++ own2). rewrite He2, He, Hes', <- !app_assoc. split; [reflexivity|].
    assert (Hn1 : nodrops (EArm :: own)) by (intros e [<-|Hin]; [reflexivity|apply Hn; exact Hin]).
    split; [apply hu_app; [cbn; split; [discriminate|exact Hh]|exact Hh2]|]. split; [apply drop_last_app; assumption|].
    intro Hcont. destruct (Hc2 Hcont) as [H1 H2]. rewrite armed_after_app. split; [exact H1|apply nodrops_app; assumption]. }
  exists ((EArm :: own) ++ [EClear; EFallback d (avail (clear s''))]). cbn [res_st is_cont]. rewrite evs_emit, evs_clear, He, Hes', <- !app_assoc. split; [reflexivity|].
  assert (Hnall : nodrops ((EArm :: own) ++ [EClear; EFallback d (avail (clear s''))])).
  { apply nodrops_app; [intros e [<-|Hin]; [reflexivity|apply Hn; exact Hin]|nd]. }
  split; [apply hu_app; [cbn; split; [discriminate|exact Hh]|cbn; auto]|]. { split; [discriminate|]. split; [reflexivity|exact I]. }
  split; [apply nodrops_drop_last; exact Hnall|]. intros _. split; [|exact Hnall]. rewrite armed_after_app. reflexivity.
Qed.
End Level.

Lemma compile_w fuel : sub_w_ok (compile fuel).
Proof.
  induction fuel as [|f IH]; intros d rs t s a; cbn [Router.compile].
  - exists []. rewrite app_nil_r. cbn. repeat split; auto; discriminate.
  - apply (loop_w (compile f) (compile_tail f) IH). exact I.
Qed.
End Shape.

(* ------------------------------------------------------------ property C02, as stated in props/C02.v *)
Section Top.
Variables (fuel d : nat) (rs : list route) (t : Z) (s : st).
Let r := compile fuel d rs t (fun s' => Cont s') s.
Let own := own_evs s r.

Lemma own_spec (stable : Prop) : (stable -> stable_routes rs) ->
  evs (res_st r) = evs s ++ own /\ min_depth d own /\ good stable rs d None (proj d own) /\
  count_fb d own = (if is_cont r then 1 else 0) /\
  (is_cont r = true -> exists own', own = own' ++ [EFallback d (avail (res_st r))]).
Proof.
  intro Hst. destruct (compile_spec stable fuel d rs t s Hst) as (o & He & Hrest).
  assert (own = o) as ->; [|split; [exact He|exact Hrest]].
  unfold own, own_evs, r. rewrite He. rewrite skipn_app, skipn_all, Nat.sub_diag. reflexivity.
Qed.

Lemma no_stable_hyp : False -> stable_routes rs. Proof. intros []. Qed.

Lemma c02_runs_only_if_matched i b : In (ERun d i b) own ->
  exists mss, nth_mss rs i = Some mss /\ anymatch mss b = Yes.
Proof.
  intro Hin. destruct (own_spec False no_stable_hyp) as (_ & _ & Hg & _).
  eapply good_run_matched; [exact Hg|]. apply in_proj; [cbn; apply Nat.eqb_refl|exact Hin].
Qed.

Lemma c02_runs_in_order_no_repeat : StronglySorted lt (run_idxs d own).
Proof.
  destruct (own_spec False no_stable_hyp) as (_ & _ & Hg & _).
  rewrite <- run_idxs_proj. eapply good_runs_sorted. exact Hg.
Qed.

Lemma proj_split pre e post : at_level d e = true -> proj d (pre ++ e :: post) = proj d pre ++ e :: proj d post.
Proof. intro H. rewrite proj_app. cbn [proj filter]. rewrite H. reflexivity. Qed.

Lemma c02_decided_match_not_skipped pre j b post : stable_routes rs -> own = pre ++ ERun d j b :: post ->
  forall i mss, lto (last_run d None pre) i = true -> i < j -> nth_mss rs i = Some mss -> anymatch mss b <> Yes.
Proof.
  intros Hst Ho i mss Hl Hij Hm. destruct (own_spec True (fun _ => Hst)) as (_ & _ & Hg & _).
  rewrite Ho, proj_split in Hg by (cbn; apply Nat.eqb_refl).
  eapply good_not_skipped; [exact Hg|exact I|rewrite last_run_proj; exact Hl|exact Hij|exact Hm].
Qed.

Lemma c02_cache_sound i b : stable_routes rs -> In (ESkip d i b) own ->
  exists mss, nth_mss rs i = Some mss /\ anymatch mss b = No.
Proof.
  intros Hst Hin. destruct (own_spec True (fun _ => Hst)) as (_ & _ & Hg & _).
  eapply good_skip_sound; [exact Hg|exact I|]. apply in_proj; [cbn; apply Nat.eqb_refl|exact Hin].
Qed.

Lemma c02_first_match_when_decided pre j b post : stable_routes rs -> own = pre ++ ERun d j b :: post ->
  (forall i mss, lto (last_run d None pre) i = true -> i < j -> nth_mss rs i = Some mss -> decided (anymatch mss b)) ->
  (exists mss, nth_mss rs j = Some mss /\ anymatch mss b = Yes) /\
  (forall i mss, lto (last_run d None pre) i = true -> i < j -> nth_mss rs i = Some mss -> anymatch mss b = No).
Proof.
  intros Hst Ho Hdec. split.
  - apply c02_runs_only_if_matched. rewrite Ho. apply in_or_app. right. left. reflexivity.
  - intros i mss Hl Hij Hm. destruct (Hdec i mss Hl Hij Hm) as [H|H]; [|exact H].
    exfalso. eapply c02_decided_match_not_skipped; eauto.
Qed.

Lemma c02_fallback_count : count_fb d own = (if is_cont r then 1 else 0).
Proof. destruct (own_spec False no_stable_hyp) as (_ & _ & _ & Hc & _). exact Hc. Qed.

Lemma c02_fallback_is_last : is_cont r = true -> exists own', own = own' ++ [EFallback d (avail (res_st r))].
Proof. destruct (own_spec False no_stable_hyp) as (_ & _ & _ & _ & Hl). exact Hl. Qed.

Lemma c02_fallback_all_no b : stable_routes rs -> In (EFallback d b) own ->
  forall i mss, lto (last_run d None own) i = true -> nth_mss rs i = Some mss -> anymatch mss b = No.
Proof.
  intros Hst Hin. destruct (own_spec True (fun _ => Hst)) as (_ & _ & Hg & _).
  destruct (good_fb_last True rs d None _ Hg b) as [_ H]; [apply in_proj; [cbn; apply Nat.eqb_refl|exact Hin]|].
  intros i mss Hl Hm. apply (H I i mss); [rewrite last_run_proj; exact Hl|exact Hm].
Qed.

Lemma c02_never_after_drop w : In (EDrop d w) own ->
  is_cont r = false /\ count_fb d own = 0 /\ exists l', proj d own = l' ++ [EDrop d w].
Proof.
  intro Hin. destruct (own_spec False no_stable_hyp) as (_ & _ & Hg & Hc & _).
  destruct (good_drop_last False rs d None _ Hg w) as [Hl H0]; [apply in_proj; [cbn; apply Nat.eqb_refl|exact Hin]|].
  rewrite count_fb_proj in H0. split; [|split; [exact H0|exact Hl]].
  rewrite H0 in Hc. destruct (is_cont r); [discriminate|reflexivity].
Qed.
Lemma own_flow : flow d (MOut None (avail s)) (proj d own).
Proof.
  destruct (compile_flow fuel d rs t s) as (o & He & Hf).
  assert (own = o) as ->; [|exact Hf]. unfold own, own_evs, r. rewrite He, skipn_app, skipn_all, Nat.sub_diag. reflexivity.
Qed.

(* after a route's handlers handed the connection on (they were not terminal), the next thing the invocation
   does at its depth concerns a LATER route (run, or cached skip), or is the fallback, and sees the bytes the
   handlers left, extended by what was prefetched since; or the connection is dropped *)
Lemma c02_nonterminal_continues_trace pre i b2 post : own = pre ++ ENext d i b2 :: post ->
  match proj d post with [] => True | e :: _ => next_ok d i b2 e end.
Proof.
  intro Ho. pose proof own_flow as Hf. rewrite Ho, proj_split in Hf by (cbn; apply Nat.eqb_refl).
  apply flow_after_next in Hf. destruct (proj d post) as [|e l]; [exact I|]. eapply flow_out_head. exact Hf.
Qed.

Lemma last_in_tail {A} (pre : list A) e post own' x : pre ++ e :: post = own' ++ [x] -> e <> x -> In x post.
Proof.
  intros H Hne. destruct post as [|z post0].
  - apply app_inj_tail in H. destruct H as [_ H]. contradiction.
  - destruct (@exists_last A (z :: post0)) as (post' & y & Hy); [discriminate|]. rewrite Hy in *.
    rewrite app_comm_cons, app_assoc in H. apply app_inj_tail in H. destruct H as [_ ->]. apply in_or_app. right. left. reflexivity.
Qed.

(* after a route whose handlers did not hand the connection on (a terminal handler, a failing handler, or
   something below them that ended the connection) nothing else runs: every later event of the invocation at
   its depth is a read or an error of that very route, and the connection is not handed on *)
Lemma c02_terminal_stops_trace pre i b post : own = pre ++ ERun d i b :: post ->
  (forall b2, ~ In (ENext d i b2) post) ->
  Forall (in_chain_ev d i) (proj d post) /\ is_cont r = false.
Proof.
  intros Ho Hn. pose proof own_flow as Hf. rewrite Ho, proj_split in Hf by (cbn; apply Nat.eqb_refl).
  apply flow_after_run in Hf.
  assert (HF : Forall (in_chain_ev d i) (proj d post)).
  { eapply flow_in_chain; [exact Hf|reflexivity|]. intros b2 Hin. apply (Hn b2). apply filter_In in Hin. apply Hin. }
  split; [exact HF|]. destruct (is_cont r) eqn:E; [|reflexivity]. exfalso.
  destruct (c02_fallback_is_last E) as (own' & Hl). fold own in Hl. rewrite Ho in Hl.
  apply last_in_tail in Hl; [|discriminate].
  rewrite Forall_forall in HF. apply (HF (EFallback d (avail (res_st r)))).
  apply in_proj; [cbn; apply Nat.eqb_refl|exact Hl].
Qed.
End Top.

Lemma own_evs_eq (s : st) (r : res) own : evs (res_st r) = evs s ++ own -> own_evs s r = own.
Proof. intro H. unfold own_evs. rewrite H, skipn_app, skipn_all, Nat.sub_diag. reflexivity. Qed.

(* C05: the matching buffer never holds more than MaxMatchingBytes - 1 + prefetchChunkSize bytes *)
Lemma c05_buffer_bounded fuel d rs t s :
  1 <= MAXB -> (forall m n dta n', nread m n = (RData dta, n') -> length dta <= m) -> buf_ok s ->
  buf_ok (res_st (compile fuel d rs t (fun s' => Cont s') s)) /\
  Forall ev_buf_ok (own_evs s (compile fuel d rs t (fun s' => Cont s') s)).
Proof.
  intros H1 Hlen Hok. destruct (compile_buf H1 Hlen fuel d rs t s Hok) as (own & He & Hf & Hb).
  rewrite (own_evs_eq _ _ _ He). auto.
Qed.

(* C05: handlers and fallbacks start with the deadline cleared; a drop is the last event of the whole run *)
Lemma c05_shape fuel d rs t s a : last_exit_clears = true ->
  hu a (own_evs s (compile fuel d rs t (fun s' => Cont s') s)) /\
  drop_last (own_evs s (compile fuel d rs t (fun s' => Cont s') s)) /\
  (is_cont (compile fuel d rs t (fun s' => Cont s') s) = true ->
     armed_after a (own_evs s (compile fuel d rs t (fun s' => Cont s') s)) = false /\
     nodrops (own_evs s (compile fuel d rs t (fun s' => Cont s') s))).
Proof.
  intro Hf. destruct (compile_w Hf fuel d rs t s a) as (own & He & Hh & Hd & Hc).
  rewrite (own_evs_eq _ _ _ He). auto.
Qed.

Lemma hu_split a l : hu a l -> forall pre e post, l = pre ++ e :: post -> is_hev e = true -> armed_after a pre = false.
Proof.
  revert a. induction l as [|x l IH]; intros a H pre e post Hl He.
  - destruct pre; discriminate.
  - destruct pre as [|y pre]; cbn [app] in Hl; inversion Hl; subst.
    + cbn. apply H. exact He.
    + destruct H as [_ H]. rewrite armed_after_step. cbn [fold_left]. rewrite <- armed_after_step. eapply IH; eauto.
Qed.
Lemma drop_last_split l : drop_last l -> forall pre e post, l = pre ++ e :: post -> is_anydrop e = true -> post = [].
Proof.
  induction l as [|x l IH]; intros H pre e post Hl He.
  - destruct pre; discriminate.
  - destruct pre as [|y pre]; cbn [app] in Hl; inversion Hl; subst.
    + apply H. exact He.
    + destruct H as [_ H]. eapply IH; eauto.
Qed.

(* C05, in the form stated in props/C05.v *)
Lemma c05_deadline_cleared_before_handlers fuel d rs t s a pre e post : last_exit_clears = true ->
  own_evs s (compile fuel d rs t (fun s' => Cont s') s) = pre ++ e :: post -> is_hev e = true ->
  armed_after a pre = false.
Proof. intros Hf Ho He. destruct (c05_shape fuel d rs t s a Hf) as (Hh & _). eapply hu_split; eauto. Qed.

Lemma c05_drop_ends_everything fuel d rs t s pre e post : last_exit_clears = true ->
  own_evs s (compile fuel d rs t (fun s' => Cont s') s) = pre ++ e :: post -> is_anydrop e = true ->
  post = [] /\ is_cont (compile fuel d rs t (fun s' => Cont s') s) = false.
Proof.
  intros Hf Ho He. destruct (c05_shape fuel d rs t s false Hf) as (_ & Hd & Hc). split; [eapply drop_last_split; eauto|].
  destruct (is_cont _) eqn:E; [|reflexivity]. destruct (Hc eq_refl) as [_ Hn].
  rewrite (Hn e) in He; [discriminate|]. rewrite Ho. apply in_or_app. right. left. reflexivity.
Qed.

(* the continuation is applied exactly once, to the state the invocation ends in, iff the fallback ran *)
Lemma c02_next_once fuel d rs t next s :
  compile fuel d rs t next s = bind (compile fuel d rs t (fun s' => Cont s') s) next.
Proof. apply compile_bind. Qed.

(* after a non-terminal route the pass goes on with route i+1 on the state the handlers left *)
Lemma c02_nonterminal_continues sub d i mss hs rest lm lnm stt nm s s2 :
  leo i lm = false -> is_no (stt i) && leo i lnm = false ->
  anymatch mss (avail s) = Yes ->
  chain sub d i hs (fun st' => Cont st') (emit (ERun d i (avail s)) (clear s)) = Cont s2 ->
  pass sub d i (Route mss hs :: rest) lm lnm stt nm s
  = pass sub d (S i) rest (Some i) (Some i) (setst stt i SYes) nm (emit (ENext d i (avail s2)) s2).
Proof. intros H1 H2 H3 H4. cbn [Router.pass]. rewrite H1, H2, H3, H4. reflexivity. Qed.

(* after a terminal route (or a handler error) nothing else happens: the pass, the loop and the
   invocation end with exactly the state the handlers returned in *)
Lemma c02_terminal_stops_pass sub d i mss hs rest lm lnm stt nm s r :
  leo i lm = false -> is_no (stt i) && leo i lnm = false ->
  anymatch mss (avail s) = Yes ->
  chain sub d i hs (fun st' => Cont st') (emit (ERun d i (avail s)) (clear s)) = r -> is_cont r = false ->
  pass sub d i (Route mss hs :: rest) lm lnm stt nm s = PFinal r.
Proof. intros H1 H2 H3 H4 H5. cbn [Router.pass]. rewrite H1, H2, H3, H4. destruct r; try reflexivity. discriminate. Qed.

Lemma c02_terminal_stops_loop sub d rs dl next g lm lnm stt (nm : bool) s s' r :
  (if nm then prefetch (arm dl s) else (inl (arm dl s) : st + dropwhy * st)) = inl s' ->
  pass sub d 0 rs lm lnm stt nm s' = PFinal r ->
  loop sub d rs dl next (S g) lm lnm stt nm s = r.
Proof. intros H1 H2. cbn [Router.loop]. rewrite H1, H2. reflexivity. Qed.
End Net.

(* ------------------------------------------------------------ the hypotheses are satisfiable *)
Lemma thr_no_stable k v : no_stable (thr k v).
Proof.
  intros p q. unfold thr. destruct (length p <? k) eqn:E; [discriminate|].
  intro Hv. rewrite app_length. apply Nat.ltb_ge in E.
  destruct (length p + length q <? k) eqn:E'; [apply Nat.ltb_lt in E'; lia|exact Hv].
Qed.

Lemma single_prim_stable f : no_stable f -> no_stable (anymatch [[MPrim f]]).
Proof.
  intros Hf p q. cbn. destruct (f p) eqn:E; try discriminate. intros _. rewrite (Hf p q E). reflexivity.
Qed.

Definition ex_routes : list route :=
  [ Route [[MPrim (thr 1 No)]] [HTerm];           (* decided No on the second pass: its cached verdict is used on the third *)
    Route [[MPrim (thr 5 Yes)]] [HCons 2];        (* undecided for two passes, then matches; not terminal *)
    Route [[MPrim (thr 4 Yes)]] [HTerm] ].        (* terminal *)

Lemma ex_routes_stable : stable_routes ex_routes.
Proof.
  intros r [<-|[<-|[<-|[]]]]; cbn [route_mss]; apply single_prim_stable; apply thr_no_stable.
Qed.
