(* Lemmas about model/MatchOpenVpn.v. *)
From Coq Require Import List NArith ZArith Bool Arith Lia.
From Coq.Strings Require Import Byte.
From L4.gen Require Import Consts.
From L4.model Require Import GoBase CodecOpenVpn MatchOpenVpn.
From L4.proofs Require Import GoBaseProofs CodecOpenVpnProofs.
Import ListNotations.

(* ---- ReadAtLeast into a buffer one byte larger than the minimum ---- *)
Lemma ral_some m (r buf rest : list byte) : read_at_least (m + 1) m r = Some (buf, rest) ->
  (m <= length r)%nat /\ buf = firstn (m + 1) r /\ ((length buf = m /\ buf = r) \/ (length buf = m + 1)%nat).
Proof.
  unfold read_at_least. destruct (Nat.ltb_spec (length r) m) as [H|H]; [discriminate|]. intro E. inversion E; subst; clear E.
  split; [exact H|]. split; [reflexivity|].
  destruct (Nat.eq_dec (length r) m) as [Em|Em].
  - left. rewrite firstn_all2 by lia. split; [exact Em|reflexivity].
  - right. rewrite firstn_length. lia.
Qed.

Lemma ral_app m (r s buf rest : list byte) : read_at_least (m + 1) m r = Some (buf, rest) -> s <> [] ->
  exists buf' rest', read_at_least (m + 1) m (r ++ s) = Some (buf', rest') /\ (length buf' = m + 1)%nat /\
                     ((m < length buf)%nat -> buf' = buf).
Proof.
  intros E Hs. destruct (ral_some _ _ _ _ E) as [Hm [Eb Hc]].
  unfold read_at_least. rewrite app_length.
  destruct (Nat.ltb_spec (length r + length s) m) as [H|H]; [lia|].
  eexists. eexists. split; [reflexivity|]. split.
  - rewrite firstn_length, app_length. destruct s; [contradiction|cbn [length]; lia].
  - intro Hl. subst buf. rewrite firstn_length in Hl. rewrite firstn_app_le by lia. reflexivity.
Qed.

Lemma ral_none_app m (r : list byte) : read_at_least (m + 1) m r = None -> (length r < m)%nat.
Proof. unfold read_at_least. destruct (Nat.ltb_spec (length r) m); [auto|discriminate]. Qed.

Section OvpnProofs.
  Variable hmac : nat -> list byte -> list byte -> list byte.
  Variable aes_ctr : list byte -> list byte -> list byte -> list byte.
  Variable now : Z.
  Notation omatch := (ovpn_match hmac aes_ctr now).

  (* ---- the digest search does not depend on where it starts (lastDigest) ---- *)
  Definition good (val : nat -> bres) (hl d : nat) : bool :=
    (hl =? digest_size d)%nat && match val d with BTrue => true | _ => false end.
  Definition no_panic_val (val : nat -> bres) : Prop := forall d, val d <> BPanic.

  Lemma try_digests_spec val skip hl : no_panic_val val -> forall ds,
    fst (try_digests val skip hl ds) =
      if existsb (fun d => negb (match skip with Some s => Nat.eqb d s | None => false end) && good val hl d) ds then BTrue else BFalse.
  Proof.
    intros Hv ds. induction ds as [|d r IH]; [reflexivity|]. cbn [try_digests existsb]. unfold good at 1.
    destruct (negb _); cbn [andb orb]; [|exact IH].
    destruct (hl =? digest_size d)%nat; cbn [andb orb]; [|exact IH].
    destruct (val d) eqn:E; cbn [orb fst]; [reflexivity|exact IH|exfalso; exact (Hv d E)].
  Qed.

  Lemma authenticate_spec val kl ad dg hm : no_panic_val val -> ld_ok dg ->
    fst (authenticate val kl ad dg hm) =
      if (length hm =? 0)%nat then BFalse else if negb kl then BFalse else
      match ad with
      | Some d => if good val (length hm) d then BTrue else BFalse
      | None => if existsb (good val (length hm)) (seq 0 (length auth_digests)) then BTrue else BFalse
      end.
  Proof.
    intros Hv Hld. unfold authenticate. destruct (length hm =? 0)%nat; [reflexivity|]. destruct (negb kl); [reflexivity|].
    destruct ad as [d|].
    - unfold good. destruct (length hm =? digest_size d)%nat; cbn [andb]; [|reflexivity].
      destruct (val d) eqn:E; try reflexivity. exfalso; exact (Hv d E).
    - destruct dg as [d0|].
      + cbn [ld_ok] in Hld.
        assert (Hin : In d0 (seq 0 (length auth_digests))) by (apply in_seq; lia).
        destruct (existsb (good val (length hm)) (seq 0 (length auth_digests))) eqn:Eex.
        * apply existsb_exists in Eex. destruct Eex as [d [Hd Hg]].
          destruct (good val (length hm) d0) eqn:Eg0.
          -- unfold good in Eg0. apply andb_true_iff in Eg0. destruct Eg0 as [Es Ev]. rewrite Es.
             destruct (val d0); try discriminate. reflexivity.
          -- assert (Hne : d <> d0) by (intro; subst; congruence).
             assert (F : match (if (length hm =? digest_size d0)%nat then val d0 else BFalse) with BTrue => False | BPanic => False | BFalse => True end).
             { unfold good in Eg0. destruct (length hm =? digest_size d0)%nat; [|exact I]. cbn [andb] in Eg0.
               destruct (val d0) eqn:E; try discriminate; [exact I|exact (Hv d0 E)]. }
             destruct (if (length hm =? digest_size d0)%nat then val d0 else BFalse); try contradiction.
             rewrite try_digests_spec by exact Hv.
             replace (existsb _ _) with true; [reflexivity|]. symmetry. apply existsb_exists. exists d. split; [exact Hd|].
             apply andb_true_iff. split; [|exact Hg]. apply negb_true_iff. apply Nat.eqb_neq. exact Hne.
        * assert (Hall : forall d, In d (seq 0 (length auth_digests)) -> good val (length hm) d = false).
          { intros d Hd. destruct (good val (length hm) d) eqn:Eg; [|reflexivity].
            assert (existsb (good val (length hm)) (seq 0 (length auth_digests)) = true) by (apply existsb_exists; exists d; auto). congruence. }
          pose proof (Hall d0 Hin) as Eg0.
          assert (F : (if (length hm =? digest_size d0)%nat then val d0 else BFalse) = BFalse).
          { unfold good in Eg0. destruct (length hm =? digest_size d0)%nat; [|reflexivity]. cbn [andb] in Eg0.
            destruct (val d0) eqn:E; try discriminate; [reflexivity|exfalso; exact (Hv d0 E)]. }
          rewrite F. rewrite try_digests_spec by exact Hv.
          replace (existsb _ _) with false; [reflexivity|]. symmetry. apply not_true_iff_false. intro Hex.
          apply existsb_exists in Hex. destruct Hex as [d [Hd Hg]]. apply andb_true_iff in Hg. destruct Hg as [_ Hg].
          rewrite (Hall d Hd) in Hg. discriminate.
      + rewrite try_digests_spec by exact Hv.
        replace (existsb (fun d => negb false && good val (length hm) d) (seq 0 (length auth_digests)))
          with (existsb (good val (length hm)) (seq 0 (length auth_digests))); [reflexivity|].
        apply existsb_ext_in || (induction (seq 0 (length auth_digests)) as [|x l IHl]; [reflexivity|cbn; rewrite IHl; reflexivity]).
  Qed.

  Lemma authenticate_indep val kl ad dg1 dg2 hm : no_panic_val val -> ld_ok dg1 -> ld_ok dg2 ->
    fst (authenticate val kl ad dg1 hm) = fst (authenticate val kl ad dg2 hm).
  Proof. intros Hv H1 H2. rewrite !authenticate_spec by assumption. reflexivity. Qed.

  (* ---- key selectors never panic on keys of the provisioned lengths ---- *)
  Lemma quarter_ok sk q : length (k_bytes sk) = 256%nat \/ length (k_bytes sk) = 128%nat ->
    exists b, quarter sk q = Some b /\ length b = 64%nat.
  Proof.
    intro H. unfold quarter. change sz_key with 256%nat. change sz_key_half with 128%nat. change sz_key_quarter with 64%nat.
    assert (Hq : (q mod 4 < 4)%nat) by (apply Nat.mod_upper_bound; lia).
    assert (Hq2 : (q mod 4 mod 2 < 2)%nat) by (apply Nat.mod_upper_bound; lia).
    destruct H as [H|H]; rewrite H; cbn [Nat.ltb Nat.leb].
    - eexists. split; [apply slice_ok; lia|]. rewrite sl_length by lia. lia.
    - eexists. split; [apply slice_ok; lia|]. rewrite sl_length by lia. lia.
  Qed.

  Lemma key_of_ok sk q size : length (k_bytes sk) = 256%nat \/ length (k_bytes sk) = 128%nat ->
    exists k, key_of (quarter sk q) size = Some k.
  Proof.
    intro H. destruct (quarter_ok sk q H) as [b [E Hb]]. rewrite E. unfold key_of. change sz_key_quarter with 64%nat.
    eexists. apply slice_ok; lia.
  Qed.

  Lemma selectors_ok sk size : length (k_bytes sk) = 256%nat \/ length (k_bytes sk) = 128%nat ->
    client_auth_key sk size <> None /\ server_auth_key sk size <> None /\ client_decrypt_key sk size <> None /\
    server_decrypt_key sk size <> None.
  Proof.
    intro H. unfold client_auth_key, server_auth_key, client_decrypt_key, server_decrypt_key, client_encrypt_key.
    repeat split.
    - destruct (k_inverse sk || k_bidi sk); [destruct (key_of_ok sk 1 size H) as [k E]|destruct (key_of_ok sk 3 size H) as [k E]]; rewrite E; discriminate.
    - destruct (k_inverse sk && negb (k_bidi sk)); [destruct (key_of_ok sk 3 size H) as [k E]|destruct (key_of_ok sk 1 size H) as [k E]]; rewrite E; discriminate.
    - destruct (k_inverse sk); [destruct (key_of_ok sk 2 size H) as [k E]|destruct (key_of_ok sk 0 size H) as [k E]]; rewrite E; discriminate.
    - destruct (k_inverse sk); [destruct (key_of_ok sk 0 size H) as [k E]|destruct (key_of_ok sk 2 size H) as [k E]]; rewrite E; discriminate.
  Qed.

  Lemma validate_server_no_panic sk pl ex : length (k_bytes sk) = 256%nat \/ length (k_bytes sk) = 128%nat ->
    no_panic_val (fun d => validate_on_server hmac d sk pl ex).
  Proof.
    intros H d. unfold validate_on_server. destruct (selectors_ok sk (digest_size d) H) as [H1 _].
    destruct (client_auth_key sk (digest_size d)); [destruct (bytes_eqb _ _); discriminate|contradiction].
  Qed.
  Lemma validate_client_no_panic sk pl ex : length (k_bytes sk) = 256%nat \/ length (k_bytes sk) = 128%nat ->
    no_panic_val (fun d => validate_on_client hmac d sk pl ex).
  Proof.
    intros H d. unfold validate_on_client. destruct (selectors_ok sk (digest_size d) H) as [_ [H1 _]].
    destruct (server_auth_key sk (digest_size d)); [destruct (bytes_eqb _ _); discriminate|contradiction].
  Qed.

  (* ---- auth_match: verdict independent of lastDigest ---- *)
  Lemma auth_match_indep c ld1 ld2 m : cfg_wf c -> ld_ok ld1 -> ld_ok ld2 ->
    fst (auth_match hmac now c ld1 m) = fst (auth_match hmac now c ld2 m).
  Proof.
    intros [Hg _] H1 H2. unfold auth_match. destruct (_ && _); [|reflexivity]. destruct (ign_crypto c); [reflexivity|].
    destruct (gk_auth c) as [sk|]; [|reflexivity]. cbn [key_len_ok] in Hg.
    apply authenticate_indep; try assumption. apply validate_server_no_panic. left. exact Hg.
  Qed.

  Lemma try_v2_indep c ld1 ld2 body h : cfg_wf c -> ld_ok ld1 -> ld_ok ld2 ->
    fst (try_v2 hmac aes_ctr now c ld1 body h) = fst (try_v2 hmac aes_ctr now c ld2 body h).
  Proof.
    intros Hc H1 H2. unfold try_v2.
    destruct (if acc_plain c then _ else BFalse); try reflexivity.
    assert (E : fst (if acc_auth c then match auth_from_headless body h with ROk m => auth_match hmac now c ld1 m | RErr _ => (BFalse, ld1) | RPanic => (BPanic, ld1) end else (BFalse, ld1)) =
                fst (if acc_auth c then match auth_from_headless body h with ROk m => auth_match hmac now c ld2 m | RErr _ => (BFalse, ld2) | RPanic => (BPanic, ld2) end else (BFalse, ld2))).
    { destruct (acc_auth c); [|reflexivity]. destruct (auth_from_headless body h); try reflexivity. apply auth_match_indep; assumption. }
    destruct (if acc_auth c then match auth_from_headless body h with ROk m => auth_match hmac now c ld1 m | RErr _ => (BFalse, ld1) | RPanic => (BPanic, ld1) end else (BFalse, ld1)) as [r1 d1].
    destruct (if acc_auth c then match auth_from_headless body h with ROk m => auth_match hmac now c ld2 m | RErr _ => (BFalse, ld2) | RPanic => (BPanic, ld2) end else (BFalse, ld2)) as [r2 d2].
    cbn [fst] in E. subst r2. destruct r1; try reflexivity.
    destruct (if acc_crypt c then _ else BFalse); reflexivity.
  Qed.

  Lemma try_v3_indep c ld1 ld2 body h : fst (try_v3 hmac aes_ctr now c ld1 body h) = fst (try_v3 hmac aes_ctr now c ld2 body h).
  Proof. unfold try_v3. destruct (crypt2_from_headless body h); try reflexivity. destruct (crypt2_match _ _ _ _ _); reflexivity. Qed.

  Theorem verdict_indep_of_lastDigest c ld1 ld2 tcp p : cfg_wf c -> ld_ok ld1 -> ld_ok ld2 ->
    fst (omatch c ld1 tcp p) = fst (omatch c ld2 tcp p).
  Proof.
    intros Hc H1 H2. unfold ovpn_match.
    destruct (if tcp then _ else _) as [[[l r1]|]|]; try reflexivity.
    destruct (read_full sz_hdr r1) as [[hb r2]|]; [|reflexivity].
    destruct (header_from_bytes hb) as [h| |]; try reflexivity.
    destruct (0 <? keyid h)%N; [reflexivity|].
    destruct ((opcode h =? op_v2)%N && _).
    - destruct tcp.
      + destruct (auth_max <? l)%nat; [reflexivity|]. destruct (read_at_least _ _ r2) as [[buf rest]|]; [|reflexivity].
        destruct (_ <? length buf)%nat; [reflexivity|]. apply try_v2_indep; assumption.
      + destruct (read_at_least _ _ r2) as [[buf rest]|]; [|reflexivity].
        destruct (_ || _); [reflexivity|]. apply try_v2_indep; assumption.
    - destruct ((opcode h =? op_v3)%N && _); [|reflexivity].
      destruct tcp.
      + destruct (l <? crypt2_min)%nat; [reflexivity|]. destruct (read_at_least _ _ r2) as [[buf rest]|]; [|reflexivity].
        destruct (_ <? length buf)%nat; [reflexivity|]. apply try_v3_indep.
      + destruct (read_at_least _ _ r2) as [[buf rest]|]; [|reflexivity].
        destruct (_ || _); [reflexivity|]. apply try_v3_indep.
  Qed.

  (* the new lastDigest is again a table index (or unchanged): the invariant ld_ok is preserved *)
  Lemma try_digests_ld val skip hl ds : ld_ok skip -> Forall (fun d => (d < length auth_digests)%nat) ds ->
    ld_ok (snd (try_digests val skip hl ds)).
  Proof.
    intros Hs Hds. induction Hds as [|d r Hd Hr IH]; [exact Hs|]. cbn [try_digests].
    destruct (negb _ && _); [|exact IH]. destruct (val d); [exact Hd|exact IH|exact Hs].
  Qed.

  (* ---- C06 (TCP stream form) ---- *)
  Theorem ovpn_tcp_no_stable c ld : no_stable (fun p => fst (omatch c ld true p)).
  Proof.
    intros p s H. destruct s as [|x s]; [rewrite app_nil_r; exact H|].
    unfold ovpn_match in *.
    destruct (read_full sz_len p) as [[lb r1]|] eqn:E1; [|discriminate].
    rewrite (read_full_app _ _ (x :: s) _ _ E1).
    set (l := N.to_nat (be_N lb)) in *.
    destruct ((l <? plain_total)%nat || (crypt2_max <? l)%nat); [reflexivity|].
    destruct (read_full sz_hdr r1) as [[hb r2]|] eqn:E2; [|discriminate].
    rewrite (read_full_app _ _ (x :: s) _ _ E2).
    destruct (header_from_bytes hb) as [h| |]; try exact H.
    destruct (0 <? keyid h)%N; [reflexivity|].
    destruct ((opcode h =? op_v2)%N && _).
    - destruct (auth_max <? l)%nat; [reflexivity|].
      destruct (read_at_least (l - sz_hdr + 1) (l - sz_hdr) r2) as [[buf rest]|] eqn:E3; [|discriminate].
      destruct (ral_app _ _ (x :: s) _ _ E3) as [buf' [rest' [E3' [Hl' Hsame]]]]; [discriminate|].
      rewrite E3'. replace (l - sz_hdr <? length buf')%nat with true by (symmetry; apply Nat.ltb_lt; lia). reflexivity.
    - destruct ((opcode h =? op_v3)%N && _); [|reflexivity].
      destruct (l <? crypt2_min)%nat; [reflexivity|].
      destruct (read_at_least (l - sz_hdr + 1) (l - sz_hdr) r2) as [[buf rest]|] eqn:E3; [|discriminate].
      destruct (ral_app _ _ (x :: s) _ _ E3) as [buf' [rest' [E3' [Hl' Hsame]]]]; [discriminate|].
      rewrite E3'. replace (l - sz_hdr <? length buf')%nat with true by (symmetry; apply Nat.ltb_lt; lia). reflexivity.
  Qed.

  Theorem ovpn_tcp_yes_not_rejected c ld : yes_not_rejected_on_prefix (fun p => fst (omatch c ld true p)).
  Proof.
    intros w p s Hw Hy Hno. subst w. pose proof (ovpn_tcp_no_stable c ld p s Hno) as H. cbv beta in *. congruence.
  Qed.

  (* a Yes on a TCP stream means: exactly one frame, of the announced length *)
  Theorem ovpn_tcp_yes_exact c ld w : fst (omatch c ld true w) = Yes ->
    exists lb hb body, w = lb ++ hb ++ body /\ length lb = 2%nat /\ length hb = 1%nat /\
      N.to_nat (be_N lb) = (1 + length body)%nat /\ (plain_total <= 1 + length body <= crypt2_max)%nat.
  Proof.
    unfold ovpn_match. intro H.
    destruct (read_full sz_len w) as [[lb r1]|] eqn:E1; [|discriminate].
    set (l := N.to_nat (be_N lb)) in *.
    destruct ((l <? plain_total)%nat || (crypt2_max <? l)%nat) eqn:Eg; [discriminate|].
    apply orb_false_iff in Eg. destruct Eg as [G1 G2]. apply Nat.ltb_ge in G1. apply Nat.ltb_ge in G2.
    destruct (read_full sz_hdr r1) as [[hb r2]|] eqn:E2; [|discriminate].
    apply read_full_some in E1. destruct E1 as [Ew Hlb]. apply read_full_some in E2. destruct E2 as [Er Hhb].
    assert (K : forall buf rest, read_at_least (l - sz_hdr + 1) (l - sz_hdr) r2 = Some (buf, rest) -> (l - sz_hdr <? length buf)%nat = false ->
                exists lb hb body, w = lb ++ hb ++ body /\ length lb = 2%nat /\ length hb = 1%nat /\ N.to_nat (be_N lb) = (1 + length body)%nat /\ (plain_total <= 1 + length body <= crypt2_max)%nat).
    { intros buf rest E3 E4. apply Nat.ltb_ge in E4. destruct (ral_some _ _ _ _ E3) as [Hm [_ [[Hb1 Hb2]|Hb]]]; [|lia].
      exists lb, hb, r2. change (N.to_nat (be_N lb)) with l. subst w r1 buf. change sz_hdr with 1%nat in *. change plain_total with 14%nat in *.
      repeat split; try assumption; lia. }
    destruct (header_from_bytes hb) as [h| |]; try discriminate.
    destruct (0 <? keyid h)%N; [discriminate|].
    destruct ((opcode h =? op_v2)%N && _).
    - destruct (auth_max <? l)%nat; [discriminate|].
      destruct (read_at_least (l - sz_hdr + 1) (l - sz_hdr) r2) as [[buf rest]|] eqn:E3; [|discriminate].
      destruct (l - sz_hdr <? length buf)%nat eqn:E4; [discriminate|]. apply (K buf rest); [reflexivity|exact E4].
    - destruct ((opcode h =? op_v3)%N && _); [|discriminate].
      destruct (l <? crypt2_min)%nat; [discriminate|].
      destruct (read_at_least (l - sz_hdr + 1) (l - sz_hdr) r2) as [[buf rest]|] eqn:E3; [|discriminate].
      destruct (l - sz_hdr <? length buf)%nat eqn:E4; [discriminate|]. apply (K buf rest); [reflexivity|exact E4].
  Qed.

  (* ---- C04: no panic, bounded allocation ---- *)
  Lemma authenticate_no_panic val kl ad dg hm : no_panic_val val -> ld_ok dg -> fst (authenticate val kl ad dg hm) <> BPanic.
  Proof.
    intros Hv Hd. rewrite authenticate_spec by assumption.
    destruct (length hm =? 0)%nat; [discriminate|]. destruct (negb kl); [discriminate|].
    destruct ad; [destruct (good _ _ _)|destruct (existsb _ _)]; discriminate.
  Qed.

  Lemma band_no_panic x b : x <> BPanic -> band x b <> BPanic.
  Proof. destruct x; cbn; try congruence; destruct b; discriminate. Qed.

  Lemma crypt_decrypt_auth_no_panic m sk : length (k_bytes sk) = 256%nat -> crypt_decrypt_auth hmac aes_ctr m sk <> BPanic.
  Proof.
    intro Hk. unfold crypt_decrypt_auth. sizes. change (Nat.min cipher_block 32) with 16%nat.
    destruct (Nat.eqb_spec (length (c_enc m)) (1 + 4)) as [He|He]; cbn [negb]; [|discriminate].
    destruct (Nat.eqb_spec (length (c_hmac m)) 32) as [Hh|Hh]; cbn [negb]; [|discriminate].
    destruct (selectors_ok sk cipher_key (or_introl Hk)) as [_ [_ [_ Hs]]].
    destruct (server_decrypt_key sk cipher_key) as [key|]; [|contradiction].
    rewrite slice_ok by lia.
    unfold crypt_from_bytes_crypt. set (pl := aes_ctr key _ _).
    destruct (Nat.eqb_spec (length pl) (length (c_enc m))) as [Hp|Hp]; cbn [negb]; [|discriminate].
    destruct (index_ok pl 0) as [Ei _]; [lia|]. rewrite Ei. sizes. rewrite slice_ok by lia.
    apply band_no_panic. apply authenticate_no_panic; [|unfold ld_ok, digest_default, auth_digests; cbn [length]; lia].
    apply validate_server_no_panic. left. exact Hk.
  Qed.

  Lemma auth_match_no_panic c ld m : cfg_wf c -> ld_ok ld -> fst (auth_match hmac now c ld m) <> BPanic.
  Proof.
    intros [Hg _] Hl. unfold auth_match. destruct (_ && _); [|discriminate]. destruct (ign_crypto c); [discriminate|].
    destruct (gk_auth c) as [sk|]; [|discriminate]. cbn [key_len_ok] in Hg.
    apply authenticate_no_panic; [|exact Hl]. apply validate_server_no_panic. left. exact Hg.
  Qed.

  Lemma try_v2_no_panic c ld body h : cfg_wf c -> ld_ok ld -> fst (try_v2 hmac aes_ctr now c ld body h) <> Panic.
  Proof.
    intros Hc Hl. unfold try_v2.
    assert (P1 : (if acc_plain c then match plain_from_headless body h with ROk m => if plain_match (p_sid m) (p_prev m) (p_pid m) then BTrue else BFalse
                                     | RErr _ => BFalse | RPanic => BPanic end else BFalse) <> BPanic).
    { destruct (acc_plain c); [|discriminate]. pose proof (plain_headless_no_panic body h).
      destruct (plain_from_headless body h); try discriminate; [destruct (plain_match _ _ _); discriminate|contradiction]. }
    destruct (if acc_plain c then _ else BFalse); try discriminate; [|contradiction].
    assert (P2 : fst (if acc_auth c then match auth_from_headless body h with ROk m => auth_match hmac now c ld m | RErr _ => (BFalse, ld) | RPanic => (BPanic, ld) end else (BFalse, ld)) <> BPanic).
    { destruct (acc_auth c); [|discriminate]. pose proof (auth_headless_no_panic body h).
      destruct (auth_from_headless body h); try discriminate; [apply auth_match_no_panic; assumption|contradiction]. }
    destruct (if acc_auth c then _ else (BFalse, ld)) as [r d]. cbn [fst] in P2. destruct r; try discriminate; [|contradiction].
    assert (P3 : (if acc_crypt c then match crypt_from_headless body h with ROk m => crypt_match hmac aes_ctr now c m | RErr _ => BFalse | RPanic => BPanic end else BFalse) <> BPanic).
    { destruct (acc_crypt c); [|discriminate]. pose proof (crypt_headless_no_panic body h).
      destruct (crypt_from_headless body h) as [m| |]; try discriminate; [|contradiction].
      unfold crypt_match. destruct (_ && _); [|discriminate]. destruct (ign_crypto c); [discriminate|].
      destruct Hc as [_ [Hg _]]. destruct (gk_crypt c) as [sk|]; [|discriminate]. apply crypt_decrypt_auth_no_panic. exact Hg. }
    destruct (if acc_crypt c then _ else BFalse); try discriminate. contradiction.
  Qed.

  Lemma wk_decrypt_auth_ok w sk r kb : length (k_bytes sk) = 128%nat -> wk_decrypt_auth hmac aes_ctr w sk = (r, kb) ->
    r <> BPanic /\ (r = BTrue -> length kb = 256%nat).
  Proof.
    intros Hk. unfold wk_decrypt_auth. sizes. change (Nat.min cipher_block 32) with 16%nat.
    destruct ((length (w_enc w) <? 256)%nat || (1024 - 2 - 32 <? length (w_enc w))%nat) eqn:Eg; [intro E; inversion E; split; [discriminate|discriminate]|].
    apply orb_false_iff in Eg. destruct Eg as [G1 _]. apply Nat.ltb_ge in G1.
    destruct (Nat.eqb_spec (length (w_hmac w)) 32) as [Hh|Hh]; cbn [negb]; [|intro E; inversion E; split; discriminate].
    destruct (selectors_ok sk cipher_key (or_intror Hk)) as [_ [_ [Hs _]]].
    destruct (client_decrypt_key sk cipher_key) as [key|]; [|contradiction].
    rewrite slice_ok by lia. set (pl := aes_ctr key _ _).
    destruct (Nat.eqb_spec (length pl) (length (w_enc w))) as [Hp|Hp]; cbn [negb]; [|intro E; inversion E; split; discriminate].
    rewrite slice_ok by lia. intro E. inversion E; subst; clear E. split.
    - apply authenticate_no_panic; [|unfold ld_ok, digest_default, auth_digests; cbn [length]; lia]. apply validate_client_no_panic. right. exact Hk.
    - intros _. rewrite sl_length by lia. reflexivity.
  Qed.

  Lemma find_ck_in cks w ck : find_ck cks w = Some ck -> In ck cks.
  Proof. induction cks as [|x r IH]; [discriminate|]. cbn [find_ck]. destruct (_ && _); [intro E; inversion E; left; reflexivity|intro E; right; exact (IH E)]. Qed.

  Lemma try_v3_no_panic c ld body h : cfg_wf c -> fst (try_v3 hmac aes_ctr now c ld body h) <> Panic.
  Proof.
    intros [_ [_ [Hs [Hcks _]]]]. unfold try_v3. pose proof (crypt2_headless_no_panic body h).
    destruct (crypt2_from_headless body h) as [m| |]; try discriminate; [|contradiction].
    assert (P : crypt2_match hmac aes_ctr now c m <> BPanic).
    { unfold crypt2_match. destruct (negb _); [discriminate|]. destruct (ign_crypto c); [discriminate|].
      destruct (client_keys c) as [|ck0 cks0] eqn:Ecks.
      - destruct (server_key c) as [sk|]; [|discriminate]. cbn [key_len_ok] in Hs.
        destruct (wk_decrypt_auth hmac aes_ctr (r_wk m) sk) as [r kb] eqn:Ew.
        destruct (wk_decrypt_auth_ok _ _ _ _ Hs Ew) as [Hr Hkb]. destruct r; try assumption.
        apply crypt_decrypt_auth_no_panic. cbn [k_bytes]. apply Hkb. reflexivity.
      - destruct (find_ck (ck0 :: cks0) (r_wk m)) as [ck|] eqn:Ef; [|discriminate].
        apply crypt_decrypt_auth_no_panic. apply find_ck_in in Ef. rewrite Forall_forall in Hcks. apply (Hcks ck). exact Ef. }
    destruct (crypt2_match hmac aes_ctr now c m); try discriminate. contradiction.
  Qed.

  Theorem ovpn_never_panics c ld tcp : cfg_wf c -> ld_ok ld -> never_panics (fun p => fst (omatch c ld tcp p)).
  Proof.
    intros Hc Hl p. unfold ovpn_match.
    destruct (if tcp then _ else _) as [[[l r1]|]|]; try discriminate.
    destruct (read_full sz_hdr r1) as [[hb r2]|] eqn:E; [|discriminate].
    apply read_full_some in E. destruct E as [_ Hhb].
    pose proof (header_no_panic hb). destruct (header_from_bytes hb) as [h| |]; try discriminate; [|contradiction].
    destruct (0 <? keyid h)%N; [discriminate|].
    destruct ((opcode h =? op_v2)%N && _).
    - destruct tcp.
      + destruct (auth_max <? l)%nat; [discriminate|]. destruct (read_at_least _ _ r2) as [[buf rest]|]; [|discriminate].
        destruct (_ <? length buf)%nat; [discriminate|]. apply try_v2_no_panic; assumption.
      + destruct (read_at_least _ _ r2) as [[buf rest]|]; [|discriminate].
        destruct (_ || _); [discriminate|]. apply try_v2_no_panic; assumption.
    - destruct ((opcode h =? op_v3)%N && _); [|discriminate].
      destruct tcp.
      + destruct (l <? crypt2_min)%nat; [discriminate|]. destruct (read_at_least _ _ r2) as [[buf rest]|]; [|discriminate].
        destruct (_ <? length buf)%nat; [discriminate|]. apply try_v3_no_panic; assumption.
      + destruct (read_at_least _ _ r2) as [[buf rest]|]; [|discriminate].
        destruct (_ || _); [discriminate|]. apply try_v3_no_panic; assumption.
  Qed.

  Theorem ovpn_never_fails c ld tcp p : cfg_wf c -> ld_ok ld -> fst (omatch c ld tcp p) <> Fail.
  Proof.
    intros Hc Hl. unfold ovpn_match.
    destruct (if tcp then _ else _) as [[[l r1]|]|]; try discriminate.
    destruct (read_full sz_hdr r1) as [[hb r2]|]; [|discriminate].
    destruct (header_from_bytes hb) as [h| |]; try discriminate.
    destruct (0 <? keyid h)%N; [discriminate|].
    assert (V2 : forall b, fst (try_v2 hmac aes_ctr now c ld b h) <> Fail).
    { intro b. unfold try_v2. destruct (if acc_plain c then _ else BFalse); try discriminate.
      destruct (if acc_auth c then _ else (BFalse, ld)) as [r d]. destruct r; try discriminate.
      destruct (if acc_crypt c then _ else BFalse); discriminate. }
    assert (V3 : forall b, fst (try_v3 hmac aes_ctr now c ld b h) <> Fail).
    { intro b. unfold try_v3. destruct (crypt2_from_headless b h); try discriminate. destruct (crypt2_match _ _ _ _ _); discriminate. }
    destruct ((opcode h =? op_v2)%N && _).
    - destruct tcp.
      + destruct (auth_max <? l)%nat; [discriminate|]. destruct (read_at_least _ _ r2) as [[buf rest]|]; [|discriminate].
        destruct (_ <? length buf)%nat; [discriminate|]. apply V2.
      + destruct (read_at_least _ _ r2) as [[buf rest]|]; [|discriminate]. destruct (_ || _); [discriminate|]. apply V2.
    - destruct ((opcode h =? op_v3)%N && _); [|discriminate].
      destruct tcp.
      + destruct (l <? crypt2_min)%nat; [discriminate|]. destruct (read_at_least _ _ r2) as [[buf rest]|]; [|discriminate].
        destruct (_ <? length buf)%nat; [discriminate|]. apply V3.
      + destruct (read_at_least _ _ r2) as [[buf rest]|]; [|discriminate]. destruct (_ || _); [discriminate|]. apply V3.
  Qed.

  Lemma ovpn_alloc_bound tcp p : (Z.of_N (ovpn_alloc tcp p) <= 16 * layer4_MaxMatchingBytes)%Z.
  Proof.
    unfold ovpn_alloc, lN. change layer4_MaxMatchingBytes with 8192%Z. sizes. destruct tcp.
    - destruct (read_full 2 p) as [[lb r]|]; [|cbn; lia].
      destruct (Nat.ltb_spec 1078 (N.to_nat (be_N lb))); lia.
    - lia.
  Qed.

  (* ---- C14: the decision logic on a complete message ---- *)
  Lemma read_full_exact' (a b : list byte) n : length a = n -> read_full n (a ++ b) = Some (a, b).
  Proof.
    intro H. subst n. unfold read_full. rewrite app_length.
    replace (length a + length b <? length a)%nat with false by (symmetry; apply Nat.ltb_ge; lia).
    rewrite firstn_app_le, firstn_all, skipn_app_le, skipn_all by lia. reflexivity.
  Qed.

  (* TCP: two-byte length, header byte, body; nothing after it *)
  Theorem ovpn_tcp_framed c ld lb hb body h :
    length lb = 2%nat -> length hb = 1%nat -> be_N lb = N.of_nat (1 + length body) -> header_from_bytes hb = ROk h ->
    omatch c ld true (lb ++ hb ++ body) =
      let l := (1 + length body)%nat in
      if (l <? plain_total)%nat || (crypt2_max <? l)%nat then (No, ld) else
      if (0 <? keyid h)%N then (No, ld) else
      if (opcode h =? op_v2)%N && (acc_plain c || acc_auth c || acc_crypt c) then
        (if (auth_max <? l)%nat then (No, ld) else try_v2 hmac aes_ctr now c ld body h)
      else if (opcode h =? op_v3)%N && acc_crypt2 c then
        (if (l <? crypt2_min)%nat then (No, ld) else try_v3 hmac aes_ctr now c ld body h)
      else (No, ld).
  Proof.
    intros Hlb Hhb Hbe Hh. unfold ovpn_match. rewrite (read_full_exact' lb (hb ++ body) sz_len Hlb).
    rewrite Hbe, Nat2N.id. cbv zeta. destruct (_ || _); [reflexivity|].
    rewrite (read_full_exact' hb body sz_hdr Hhb). rewrite Hh. destruct (0 <? keyid h)%N; [reflexivity|].
    change sz_hdr with 1%nat. replace (1 + length body - 1)%nat with (length body) by lia.
    assert (R : read_at_least (length body + 1) (length body) body = Some (body, [])).
    { unfold read_at_least. rewrite Nat.ltb_irrefl. rewrite firstn_all2, skipn_all2 by lia. reflexivity. }
    rewrite R. rewrite Nat.ltb_irrefl. reflexivity.
  Qed.

  (* UDP: header byte, body (the datagram) *)
  Theorem ovpn_udp_framed c ld hb body h :
    length hb = 1%nat -> header_from_bytes hb = ROk h -> (1 <= length body)%nat ->
    omatch c ld false (hb ++ body) =
      if (0 <? keyid h)%N then (No, ld) else
      if (opcode h =? op_v2)%N && (acc_plain c || acc_auth c || acc_crypt c) then
        (if (length body <? plain_hl)%nat || (auth_max_hl <? length body)%nat then (No, ld) else try_v2 hmac aes_ctr now c ld body h)
      else if (opcode h =? op_v3)%N && acc_crypt2 c then
        (if (length body <? crypt2_min_hl)%nat || (crypt2_max_hl <? length body)%nat then (No, ld) else try_v3 hmac aes_ctr now c ld body h)
      else (No, ld).
  Proof.
    intros Hhb Hh Hb. unfold ovpn_match. rewrite (read_full_exact' hb body sz_hdr Hhb). rewrite Hh.
    destruct (0 <? keyid h)%N; [reflexivity|].
    unfold read_at_least. replace (length body <? 1)%nat with false by (symmetry; apply Nat.ltb_ge; lia).
    destruct ((opcode h =? op_v2)%N && _).
    - rewrite firstn_length. sizes.
      destruct (Nat.le_gt_cases (length body) 86) as [L|L].
      + rewrite firstn_all2 by lia. replace (Nat.min (85 + 1) (length body)) with (length body) by lia. reflexivity.
      + replace (Nat.min (85 + 1) (length body)) with 86%nat by lia.
        replace ((86 <? 13)%nat || (85 <? 86)%nat) with true by reflexivity.
        replace ((length body <? 13)%nat || (85 <? length body)%nat) with true; [reflexivity|].
        symmetry. apply orb_true_iff. right. apply Nat.ltb_lt. lia.
    - destruct ((opcode h =? op_v3)%N && _); [|reflexivity]. rewrite firstn_length. sizes.
      destruct (Nat.le_gt_cases (length body) 1078) as [L|L].
      + rewrite firstn_all2 by lia. replace (Nat.min (1077 + 1) (length body)) with (length body) by lia. reflexivity.
      + replace (Nat.min (1077 + 1) (length body)) with 1078%nat by lia.
        replace ((1078 <? 343)%nat || (1077 <? 1078)%nat) with true by reflexivity.
        replace ((length body <? 343)%nat || (1077 <? length body)%nat) with true; [reflexivity|].
        symmetry. apply orb_true_iff. right. apply Nat.ltb_lt. lia.
  Qed.

  (* the three attempts on a V2 body: Yes iff some enabled mode parses the body and its rules hold *)
  Theorem try_v2_iff c ld body h : cfg_wf c -> ld_ok ld ->
    (fst (try_v2 hmac aes_ctr now c ld body h) = Yes <->
       (acc_plain c = true /\ exists m, plain_from_headless body h = ROk m /\ plain_match (p_sid m) (p_prev m) (p_pid m) = true) \/
       (acc_auth c = true /\ exists m, auth_from_headless body h = ROk m /\ fst (auth_match hmac now c ld m) = BTrue) \/
       (acc_crypt c = true /\ exists m, crypt_from_headless body h = ROk m /\ crypt_match hmac aes_ctr now c m = BTrue)).
  Proof.
    intros Hc Hl. unfold try_v2.
    set (rp := if acc_plain c then _ else BFalse).
    set (ra := if acc_auth c then _ else (BFalse, ld)).
    set (rc := if acc_crypt c then _ else BFalse).
    assert (Np : rp <> BPanic).
    { unfold rp. destruct (acc_plain c); [|discriminate]. pose proof (plain_headless_no_panic body h).
      destruct (plain_from_headless body h); try discriminate; [destruct (plain_match _ _ _); discriminate|contradiction]. }
    assert (Na : fst ra <> BPanic).
    { unfold ra. destruct (acc_auth c); [|discriminate]. pose proof (auth_headless_no_panic body h).
      destruct (auth_from_headless body h); try discriminate; [apply auth_match_no_panic; assumption|contradiction]. }
    assert (Nc : rc <> BPanic).
    { unfold rc. destruct (acc_crypt c); [|discriminate]. pose proof (crypt_headless_no_panic body h).
      destruct (crypt_from_headless body h) as [m| |]; try discriminate; [|contradiction].
      unfold crypt_match. destruct (_ && _); [|discriminate]. destruct (ign_crypto c); [discriminate|].
      destruct Hc as [_ [Hg _]]. destruct (gk_crypt c) as [sk|]; [|discriminate]. apply crypt_decrypt_auth_no_panic. exact Hg. }
    assert (Ep : rp = BTrue <-> acc_plain c = true /\ exists m, plain_from_headless body h = ROk m /\ plain_match (p_sid m) (p_prev m) (p_pid m) = true).
    { unfold rp. destruct (acc_plain c).
      - destruct (plain_from_headless body h) as [m| |].
        + destruct (plain_match (p_sid m) (p_prev m) (p_pid m)) eqn:E.
          * split; [intros _; split; [reflexivity|exists m; auto]|reflexivity].
          * split; [discriminate|]. intros [_ [m' [E1 E2]]]. inversion E1; subst. congruence.
        + split; [discriminate|]. intros [_ [m' [E1 _]]]. discriminate.
        + split; [discriminate|]. intros [_ [m' [E1 _]]]. discriminate.
      - split; [discriminate|]. intros [E _]. discriminate. }
    assert (Ea : fst ra = BTrue <-> acc_auth c = true /\ exists m, auth_from_headless body h = ROk m /\ fst (auth_match hmac now c ld m) = BTrue).
    { unfold ra. destruct (acc_auth c).
      - destruct (auth_from_headless body h) as [m| |].
        + split; [intro E; split; [reflexivity|exists m; auto]|]. intros [_ [m' [E1 E2]]]. inversion E1; subst. exact E2.
        + split; [discriminate|]. intros [_ [m' [E1 _]]]. discriminate.
        + split; [discriminate|]. intros [_ [m' [E1 _]]]. discriminate.
      - split; [discriminate|]. intros [E _]. discriminate. }
    assert (Ec : rc = BTrue <-> acc_crypt c = true /\ exists m, crypt_from_headless body h = ROk m /\ crypt_match hmac aes_ctr now c m = BTrue).
    { unfold rc. destruct (acc_crypt c).
      - destruct (crypt_from_headless body h) as [m| |].
        + split; [intro E; split; [reflexivity|exists m; auto]|]. intros [_ [m' [E1 E2]]]. inversion E1; subst. exact E2.
        + split; [discriminate|]. intros [_ [m' [E1 _]]]. discriminate.
        + split; [discriminate|]. intros [_ [m' [E1 _]]]. discriminate.
      - split; [discriminate|]. intros [E _]. discriminate. }
    rewrite <- Ep, <- Ea, <- Ec. clearbody rp ra rc. clear Ep Ea Ec.
    destruct rp; [|destruct ra as [r d]; cbn [fst] in *; destruct r; [|destruct rc|]|]; cbn [fst];
      try contradiction; split; try discriminate; auto;
      try (intros [E|[E|E]]; discriminate).
  Qed.

  Theorem try_v3_iff c ld body h : cfg_wf c ->
    (fst (try_v3 hmac aes_ctr now c ld body h) = Yes <->
       exists m, crypt2_from_headless body h = ROk m /\ crypt2_match hmac aes_ctr now c m = BTrue).
  Proof.
    intros Hc. unfold try_v3. destruct (crypt2_from_headless body h) as [m| |].
    - destruct (crypt2_match hmac aes_ctr now c m) eqn:E; cbn [fst].
      + split; [intros _; exists m; auto|reflexivity].
      + split; [discriminate|]. intros [m' [E1 E2]]. inversion E1; subst. congruence.
      + split; [discriminate|]. intros [m' [E1 E2]]. inversion E1; subst. congruence.
    - split; [discriminate|]. intros [m' [E1 _]]. discriminate.
    - split; [discriminate|]. intros [m' [E1 _]]. discriminate.
  Qed.
End OvpnProofs.
