(* C15 - the leaf equations: for each modelled module, the model of its UnmarshalCaddyfile
   applied to the documented form of a configuration record yields the record's JSON; and the
   instantiation of the structural theorem with them. *)
From Coq Require Import List ZArith NArith Bool String Ascii Lia.
From L4.gen Require Import Consts.
From L4.model Require Import Caddyfile CaddyfileLeaves.
From L4.proofs Require Import CaddyfileProofs.
Import ListNotations.
Open Scope string_scope.
Open Scope list_scope.

(* ------------------------------------------------------------------ rendered option blocks *)
Lemma opt_lines_mk L : opt_lines (map mkline L) = Some L.
Proof.
  unfold opt_lines. induction L as [|[k a] L IH]; [reflexivity|].
  cbn [map traverse mkline opt_line fst snd]. rewrite IH. reflexivity.
Qed.

Lemma block_lines_blockL name fs : block_lines (blockL name [] fs) = Some (render fs).
Proof.
  unfold blockL, block. destruct (map mkline (render fs)) eqn:E.
  - destruct (render fs); [reflexivity|discriminate].
  - cbn [block_lines]. rewrite <- E. apply opt_lines_mk.
Qed.

Lemma occurrences_app k a b : occurrences k (a ++ b) = occurrences k a ++ occurrences k b.
Proof. unfold occurrences. now rewrite filter_app, map_app. Qed.

Lemma occurrences_field k k' occs :
  occurrences k (map (pair k') occs) = if k' =? k then occs else [].
Proof.
  unfold occurrences. induction occs as [|o occs IH]; cbn [map filter fst].
  - now destruct (k' =? k).
  - destruct (k' =? k) eqn:E; cbn [map snd]; rewrite IH; reflexivity.
Qed.

Fixpoint field_lookup (k : string) (fs : list field) : list (list string) :=
  match fs with
  | [] => []
  | (k', occs) :: r => (if k' =? k then occs else []) ++ field_lookup k r
  end.
Lemma occurrences_render k fs : occurrences k (render fs) = field_lookup k fs.
Proof.
  induction fs as [|[k' occs] fs IH]; [reflexivity|].
  unfold render in *. cbn [flat_map fst snd field_lookup]. now rewrite occurrences_app, occurrences_field, IH.
Qed.

Lemma known_app ks a b : known ks (a ++ b) = known ks a && known ks b.
Proof. unfold known. apply forallb_app. Qed.
Lemma known_render ks fs :
  forallb (fun f => existsb (String.eqb (fst f)) ks) fs = true -> known ks (render fs) = true.
Proof.
  induction fs as [|[k occs] fs IH]; intro H; [reflexivity|].
  cbn [forallb fst] in H. apply andb_true_iff in H. destruct H as [H1 H2].
  unfold render in *. cbn [flat_map fst snd]. rewrite known_app, (IH H2), andb_true_r.
  unfold known. apply forallb_forall. intros x Hx. apply in_map_iff in Hx. destruct Hx as (o & <- & _). exact H1.
Qed.

Lemma multi_occ_if k L a : occurrences k L = occ_if a -> multi k L = Some a.
Proof. unfold multi. intros ->. destruct a; [reflexivity|]. cbn. now rewrite app_nil_r. Qed.
Lemma once_occ_if k L a : occurrences k L = occ_if a ->
  once k L = Some (match a with [] => None | _ => Some a end).
Proof. unfold once. intros ->. destruct a; reflexivity. Qed.
Lemma once1_occ_opt k L o : occurrences k L = occ_opt o -> once1 k L = Some o.
Proof. unfold once1, once. intros ->. destruct o; reflexivity. Qed.
Lemma flag_occ_flag k L b : occurrences k L = occ_flag b -> flag k L = Some b.
Proof. unfold flag, once. intros ->. destruct b; reflexivity. Qed.
Lemma multi1_occ_each k L l : occurrences k L = occ_each l -> multi1 k L = Some l.
Proof.
  unfold multi1. intros ->. unfold occ_each. induction l; [reflexivity|].
  cbn [map traverse]. now rewrite IHl.
Qed.

Ltac occ := rewrite occurrences_render; cbn [field_lookup String.eqb Ascii.eqb Bool.eqb]; cbv iota;
            rewrite ?app_nil_r; cbn [List.app]; reflexivity.

(* ------------------------------------------------------------------ value lemmas *)
Lemma expand_priv_ranges rs : forallb range_ok rs = true ->
  expand_priv (map range_word rs) = flat_map range_json rs.
Proof.
  induction rs as [|r rs IH]; intro H; [reflexivity|].
  cbn [forallb] in H. apply andb_true_iff in H. destruct H as [H1 H2].
  unfold expand_priv in *. cbn [map flat_map]. rewrite (IH H2). f_equal.
  destruct r as [|s]; [reflexivity|]. cbn in *. apply negb_true_iff in H1. now rewrite H1.
Qed.

Lemma traverse_uint bits ns : forallb (nbits_ok bits) ns = true ->
  traverse (parse_uint bits) (map print_N ns) = Some ns.
Proof.
  intro H. rewrite (traverse_map _ print_N (fun n => n)); [now rewrite map_id|].
  apply forallb_Forall in H. eapply Forall_impl; [|exact H]. intros n. apply parse_uint_print.
Qed.

Lemma o_strs_map_nil {A} (f : A -> string) l : o_strs (map f l) = match l with [] => None | _ => o_strs (map f l) end.
Proof. destruct l; reflexivity. Qed.

Lemma omap_dur o : odur_ok o = true -> omap parse_duration (odur_words o) = Some (option_map dur_ns o).
Proof. destruct o as [d|]; [|reflexivity]. cbn. intro H. now rewrite parse_print_dur. Qed.
Lemma omap_int o : oint32_ok o = true -> omap (parse_int 32) (oz_words o) = Some o.
Proof. destruct o as [z|]; [|reflexivity]. cbn. intro H. now rewrite parse_int_print. Qed.
Lemma append_nil_r s : (s ++ "")%string = s.
Proof. induction s; cbn; congruence. Qed.
Lemma parse_rate_word r : rate_ok r = true -> parse_rate (rate_word r) = Some (rate_json r).
Proof.
  destruct r as [n|ip frac]; cbn [rate_ok]; intro H.
  - unfold parse_rate. cbn [rate_word rate_json]. rewrite <- (append_nil_r (print_N n)) at 1.
    unfold print_N at 1. rewrite span_digits_uint by exact I. fold (print_N n). now rewrite parse_print_N.
  - repeat (apply andb_true_iff in H; destruct H as [H ?]).
    unfold parse_rate. cbn [rate_word rate_json]. unfold print_N at 1.
    rewrite span_digits_uint by reflexivity. fold (print_N ip).
    cbn [Ascii.eqb Bool.eqb]. cbv iota. rewrite parse_print_N. cbn [obind].
    rewrite String.eqb_refl, H. match goal with Hx : last_nonzero _ = true |- _ => rewrite Hx end. reflexivity.
Qed.
Lemma omap_rate o : orate_ok o = true -> omap parse_rate (orate_words o) = Some (option_map rate_json o).
Proof. destruct o as [r|]; [|reflexivity]. cbn. intro H. now rewrite parse_rate_word. Qed.
Lemma oj_rate_json o : oj_rate (option_map rate_json o) = or_json o.
Proof. destruct o; reflexivity. Qed.
Lemma oz_dur o : oz (option_map dur_ns o) = od_ns o.
Proof. destruct o; reflexivity. Qed.
Lemma oz_N o : oz (option_map Z.of_N o) = on_ o.
Proof. destruct o; reflexivity. Qed.

(* ------------------------------------------------------------------ matchers *)
Lemma socks4_eq cmds nets ports : mleaf_ok (MSocks4 cmds nets ports) = true ->
  parse_socks4 (mleaf_seg (MSocks4 cmds nets ports)) = Some (mleaf_json (MSocks4 cmds nets ports)).
Proof.
  cbn [mleaf_ok]. intro H. apply andb_true_iff in H. destruct H as [Hn Hp].
  unfold parse_socks4. cbn [mleaf_seg]. rewrite block_lines_blockL. cbn [obind].
  rewrite known_render by reflexivity.
  rewrite (multi_occ_if "commands" _ cmds) by occ.
  rewrite (multi_occ_if "networks" _ (map range_word nets)) by occ.
  rewrite (multi_occ_if "ports" _ (map print_N ports)) by occ.
  cbn [obind]. rewrite (traverse_uint 16 _ Hp). cbn [obind]. now rewrite expand_priv_ranges.
Qed.

Lemma socks5m_eq auth : mleaf_ok (MSocks5 auth) = true ->
  parse_socks5m (mleaf_seg (MSocks5 auth)) = Some (mleaf_json (MSocks5 auth)).
Proof.
  cbn [mleaf_ok]. intro H. unfold parse_socks5m. cbn [mleaf_seg]. rewrite block_lines_blockL. cbn [obind].
  rewrite known_render by reflexivity.
  rewrite (multi_occ_if "auth_methods" _ (map print_N auth)) by occ.
  cbn [obind]. now rewrite (traverse_uint 8 _ H).
Qed.

Lemma regexp_eq pat count : mleaf_ok (MRegexp pat count) = true ->
  parse_regexp (mleaf_seg (MRegexp pat count)) = Some (mleaf_json (MRegexp pat count)).
Proof.
  cbn [mleaf_ok]. intro H. destruct count as [n|]; cbn [mleaf_seg parse_regexp mleaf_json on_]; [|reflexivity].
  now rewrite parse_uint_print.
Qed.

Lemma clock_eq f tz : mleaf_ok (MClock f tz) = true ->
  parse_clock (mleaf_seg (MClock f tz)) = Some (mleaf_json (MClock f tz)).
Proof.
  cbn [mleaf_ok]. intro H.
  destruct f as [a b|k t|k t]; destruct tz as [z|]; cbn [mleaf_seg opt_words List.app parse_clock obind mleaf_json os];
    unfold clock_first_second.
  1,2: unfold clock_kw in H; apply negb_true_iff in H; repeat (apply orb_false_iff in H; destruct H as [H ?]);
       repeat match goal with E : (_ =? _) = false |- _ => rewrite E; clear E end; reflexivity.
  all: destruct k; reflexivity.
Qed.

Lemma wireguard_eq zero : mleaf_ok (MWireguard zero) = true ->
  parse_wireguard (mleaf_seg (MWireguard zero)) = Some (mleaf_json (MWireguard zero)).
Proof.
  cbn [mleaf_ok]. intro H. destruct zero as [n|]; cbn [mleaf_seg parse_wireguard mleaf_json on_]; [|reflexivity].
  now rewrite parse_uint_print.
Qed.

Lemma winbox_eq modes user : mleaf_ok (MWinbox modes user) = true ->
  parse_winbox (mleaf_seg (MWinbox modes user)) = Some (mleaf_json (MWinbox modes user)).
Proof.
  cbn [mleaf_ok]. intro H. unfold parse_winbox. cbn [mleaf_seg]. rewrite block_lines_blockL. cbn [obind].
  rewrite known_render by reflexivity.
  rewrite (once_occ_if "modes" _ modes) by occ.
  rewrite (once1_occ_opt "username" _ (key_sel false user)) by occ.
  rewrite (once1_occ_opt "username_regexp" _ (key_sel true user)) by occ.
  cbn [obind].
  destruct modes as [|m1 [|m2 [|m3 ms]]]; [| | |discriminate H];
    destruct user as [[[] v]|]; reflexivity.
Qed.

Lemma ranges_eq name rs : forallb range_ok rs && negb (is_nil rs) = true ->
  parse_ranges (Seg (name :: map range_word rs) false []) = Some (JObj (omit [("ranges", o_strs (flat_map range_json rs))])).
Proof.
  intro H. apply andb_true_iff in H. destruct H as [H1 H2].
  destruct rs as [|r rs]; [discriminate|]. cbn [map parse_ranges].
  change (range_word r :: map range_word rs) with (map range_word (r :: rs)). now rewrite expand_priv_ranges.
Qed.

Ltac occs := rewrite !occurrences_render; cbn [field_lookup String.eqb Ascii.eqb Bool.eqb]; cbv iota;
             rewrite ?app_nil_r; cbn [List.app].

Lemma rdp_eq f : mleaf_ok (MRdp f) = true -> parse_rdp (mleaf_seg (MRdp f)) = Some (mleaf_json (MRdp f)).
Proof.
  cbn [mleaf_ok]. intro H. unfold parse_rdp. cbn [mleaf_seg]. rewrite block_lines_blockL. cbn [obind].
  destruct f as [|re v|ips ports|re v].
  - reflexivity.
  - destruct re; rewrite known_render by reflexivity.
    + rewrite (once1_occ_opt "cookie_hash" _ None) by occ.
      rewrite (once1_occ_opt "cookie_hash_regexp" _ (Some v)) by occ.
      rewrite (multi_occ_if "cookie_ip" _ []) by occ. rewrite (multi_occ_if "cookie_port" _ []) by occ.
      rewrite (once1_occ_opt "custom_info" _ None) by occ. rewrite (once1_occ_opt "custom_info_regexp" _ None) by occ.
      cbn [obind traverse]. occs. reflexivity.
    + rewrite (once1_occ_opt "cookie_hash" _ (Some v)) by occ.
      rewrite (once1_occ_opt "cookie_hash_regexp" _ None) by occ.
      rewrite (multi_occ_if "cookie_ip" _ []) by occ. rewrite (multi_occ_if "cookie_port" _ []) by occ.
      rewrite (once1_occ_opt "custom_info" _ None) by occ. rewrite (once1_occ_opt "custom_info_regexp" _ None) by occ.
      cbn [obind traverse]. occs. reflexivity.
  - apply andb_true_iff in H. destruct H as [Hi Hp]. rewrite known_render by reflexivity.
    rewrite (once1_occ_opt "cookie_hash" _ None) by occ.
    rewrite (once1_occ_opt "cookie_hash_regexp" _ None) by occ.
    rewrite (multi_occ_if "cookie_ip" _ (map range_word ips)) by occ.
    rewrite (multi_occ_if "cookie_port" _ (map print_N ports)) by occ.
    rewrite (once1_occ_opt "custom_info" _ None) by occ. rewrite (once1_occ_opt "custom_info_regexp" _ None) by occ.
    cbn [obind]. rewrite (traverse_uint 16 _ Hp). cbn [obind is_some andb orb]. rewrite !andb_false_r. cbn [orb].
    rewrite expand_priv_ranges by exact Hi. reflexivity.
  - destruct re; rewrite known_render by reflexivity.
    + rewrite (once1_occ_opt "cookie_hash" _ None) by occ.
      rewrite (once1_occ_opt "cookie_hash_regexp" _ None) by occ.
      rewrite (multi_occ_if "cookie_ip" _ []) by occ. rewrite (multi_occ_if "cookie_port" _ []) by occ.
      rewrite (once1_occ_opt "custom_info" _ None) by occ. rewrite (once1_occ_opt "custom_info_regexp" _ (Some v)) by occ.
      cbn [obind traverse]. occs. reflexivity.
    + rewrite (once1_occ_opt "cookie_hash" _ None) by occ.
      rewrite (once1_occ_opt "cookie_hash_regexp" _ None) by occ.
      rewrite (multi_occ_if "cookie_ip" _ []) by occ. rewrite (multi_occ_if "cookie_port" _ []) by occ.
      rewrite (once1_occ_opt "custom_info" _ (Some v)) by occ. rewrite (once1_occ_opt "custom_info_regexp" _ None) by occ.
      cbn [obind traverse]. occs. reflexivity.
Qed.

Lemma key_sel_excl o : is_some (key_sel false o) && is_some (key_sel true o) = false.
Proof. destruct o as [[[] v]|]; reflexivity. Qed.
Lemma key_sel_val f o : os (key_sel f o) = key_val f o.
Proof. destruct o as [[[] v]|]; destruct f; reflexivity. Qed.

Lemma openvpn_eq c : mleaf_ok (MOpenvpn c) = true ->
  parse_openvpn (mleaf_seg (MOpenvpn c)) = Some (mleaf_json (MOpenvpn c)).
Proof.
  destruct c as [modes ic it gk ad dir sk cks ckfs]. cbn [mleaf_ok ov_modes]. intro H.
  unfold parse_openvpn. cbn [mleaf_seg]. rewrite block_lines_blockL. cbn [obind].
  cbn [ov_modes ov_ignore_crypto ov_ignore_timestamp ov_group_key ov_auth_digest ov_direction ov_server_key
       ov_client_keys ov_client_key_files].
  rewrite known_render by reflexivity.
  rewrite (once_occ_if "modes" _ modes) by occ. cbn [obind].
  assert (Hm : forall (k : list string -> option json),
            (ms <- match match modes with [] => None | _ :: _ => Some modes end with
                   | None => Some [] | Some [] => None
                   | Some l => if (Datatypes.length l <=? 4)%nat then Some l else None end ;; k ms) = k modes).
  { intro k. destruct modes; [reflexivity|]. now rewrite H. }
  rewrite Hm. clear Hm.
  rewrite (flag_occ_flag "ignore_crypto" _ ic) by occ.
  rewrite (flag_occ_flag "ignore_timestamp" _ it) by occ.
  rewrite (once1_occ_opt "group_key" _ (key_sel false gk)) by occ.
  rewrite (once1_occ_opt "group_key_file" _ (key_sel true gk)) by occ.
  rewrite (once1_occ_opt "auth_digest" _ ad) by occ.
  rewrite (once1_occ_opt "group_key_direction" _ dir) by occ.
  rewrite (once1_occ_opt "server_key" _ (key_sel false sk)) by occ.
  rewrite (once1_occ_opt "server_key_file" _ (key_sel true sk)) by occ.
  rewrite (multi1_occ_each "client_key" _ cks) by occ.
  rewrite (multi1_occ_each "client_key_file" _ ckfs) by occ.
  cbn [obind]. rewrite !key_sel_excl. cbn [orb]. rewrite !key_sel_val. reflexivity.
Qed.

(* dns: rule lines in their order, then the two flags *)
Lemma dns_rule_parse r : dns_rule_ok r = true ->
  parse_dns_rule (dns_rule_line r) = Some (Some (dr_deny r, dns_rule_json r)).
Proof.
  destruct r as [deny re name ty cl]. unfold dns_rule_ok, dns_rule_line, dns_rule_json, parse_dns_rule.
  cbn [dr_deny dr_regexp dr_name dr_type dr_class fst snd]. intro H.
  assert (Hs : forall o, ostar_ok o = true -> nostar (star o) = os o).
  { intros [v|] Ho.
    - unfold ostar_ok in Ho. apply negb_true_iff in Ho. unfold nostar, star, os. now rewrite Ho.
    - unfold nostar, star, os. now rewrite String.eqb_refl. }
  apply andb_true_iff in H. destruct H as [Hn H].
  destruct ty as [t|].
  - apply andb_true_iff in H. destruct H as [Ht Hc].
    destruct cl as [c|]; destruct deny, re; cbn [String.append String.eqb Ascii.eqb Bool.eqb obind fst snd]; cbv iota;
      rewrite ?(Hs name Hn), ?(Hs t Ht), ?(Hs c Hc); destruct t; try destruct c; reflexivity.
  - destruct cl; [discriminate|].
    destruct deny, re; cbn [String.append String.eqb Ascii.eqb Bool.eqb obind fst snd]; cbv iota;
      rewrite ?(Hs name Hn); reflexivity.
Qed.

Lemma dns_rule_key r :
  let k := fst (dns_rule_line r) in
  existsb (String.eqb k) ["allow"; "allow_regexp"; "deny"; "deny_regexp"] = true /\
  (k =? "default_deny") = false /\ (k =? "prefer_allow") = false.
Proof. destruct r as [[] [] ? ? ?]; cbn; repeat split. Qed.

Lemma occurrences_rules k rules : (k = "default_deny" \/ k = "prefer_allow") ->
  occurrences k (map dns_rule_line rules) = [].
Proof.
  intro Hk. unfold occurrences. induction rules as [|r rules IH]; [reflexivity|].
  cbn [map filter]. destruct (dns_rule_key r) as (_ & K1 & K2). cbv zeta in K1, K2.
  destruct Hk as [-> | ->]; rewrite ?K1, ?K2; exact IH.
Qed.

Lemma somes_rules rules : Forall (fun r => dns_rule_ok r = true) rules ->
  forall tail, traverse parse_dns_rule tail = Some (map (fun _ => None) tail) ->
  exists rs, traverse parse_dns_rule (map dns_rule_line rules ++ tail) = Some rs /\
             somes rs = map (fun r => (dr_deny r, dns_rule_json r)) rules.
Proof.
  induction 1 as [|r rules Hr _ IH]; intros tail Ht.
  - exists (map (fun _ => None) tail). split; [exact Ht|]. clear. induction tail; cbn; auto.
  - destruct (IH tail Ht) as (rs & E & S). exists (Some (dr_deny r, dns_rule_json r) :: rs).
    cbn [map List.app traverse]. rewrite (dns_rule_parse r Hr), E. split; [reflexivity|]. cbn [somes map]. now rewrite S.
Qed.

Lemma filter_map_fst {A} (f : A -> bool) (g : A -> json) l :
  map snd (filter fst (map (fun r => (f r, g r)) l)) = map g (filter f l) /\
  map snd (filter (fun r => negb (fst r)) (map (fun r => (f r, g r)) l)) = map g (filter (fun r => negb (f r)) l).
Proof.
  induction l as [|a l [I1 I2]]; [split; reflexivity|].
  cbn [map filter fst]. destruct (f a); cbn [negb map snd]; rewrite I1, I2; split; reflexivity.
Qed.

Lemma dns_eq rules dd pa : mleaf_ok (MDns rules dd pa) = true ->
  parse_dns (mleaf_seg (MDns rules dd pa)) = Some (mleaf_json (MDns rules dd pa)).
Proof.
  cbn [mleaf_ok]. intro H. apply forallb_Forall in H.
  set (flags := render [("default_deny", occ_flag dd); ("prefer_allow", occ_flag pa)]).
  assert (E : forall hb, parse_dns (Seg ["dns"] hb (map mkline (map dns_rule_line rules ++ flags))) =
              Some (mleaf_json (MDns rules dd pa))).
  { intro hb. unfold parse_dns. cbn [block_lines]. rewrite opt_lines_mk. cbn [obind].
    rewrite known_app. replace (known _ flags) with true by (symmetry; apply known_render; reflexivity).
    rewrite andb_true_r.
    replace (known _ (map dns_rule_line rules)) with true.
    2:{ symmetry. unfold known. apply forallb_forall. intros l Hl. apply in_map_iff in Hl. destruct Hl as (r & <- & _).
        destruct (dns_rule_key r) as (K & _ & _). cbv zeta in K.
        apply existsb_exists in K. destruct K as (x & Hx & Ex). apply existsb_exists. exists x. split; [|exact Ex].
        cbn in Hx |- *. intuition. }
    destruct (somes_rules rules H flags) as (rs & Ers & Ss).
    { subst flags. destruct dd, pa; reflexivity. }
    rewrite Ers. cbn [obind].
    unfold flag, once. rewrite !occurrences_app, !occurrences_rules by auto. cbn [List.app].
    subst flags. occs. rewrite Ss.
    destruct (filter_map_fst dr_deny dns_rule_json rules) as [F1 F2]. rewrite F1, F2.
    destruct dd, pa; reflexivity. }
  cbn [mleaf_seg]. fold flags. unfold block. destruct (map mkline _) eqn:Em.
  - exact (E false).
  - exact (E true).
Qed.

(* ---- tls / quic matchers: sets of tls.handshake_match matchers *)
Lemma parse_neg_word_ok nr : neg_range_ok nr = true ->
  parse_neg_word (neg_word nr) = (fst nr, range_json (snd nr)).
Proof.
  destruct nr as [neg [|s]]; unfold neg_range_ok, neg_word; cbn [fst snd range_word range_json].
  - intros _. destruct neg; reflexivity.
  - intro H. apply andb_true_iff in H. destruct H as [H1 H2]. apply negb_true_iff in H1.
    destruct s as [|c r]; [discriminate|]. cbn [no_bang] in H2. apply negb_true_iff in H2.
    destruct neg.
    + unfold parse_neg_word. cbn [Ascii.eqb Bool.eqb fst snd]. cbv iota. cbn [fst snd]. now rewrite H1.
    + unfold parse_neg_word. destruct r as [|c2 r]; [|rewrite H2]; cbn [fst snd]; now rewrite H1.
Qed.

Lemma neg_words_split (rs : list (bool * range)) :
  let ps := map (fun nr : bool * range => (fst nr, range_json (snd nr))) rs in
  flat_map snd (filter (fun p => negb (fst p)) ps) =
    flat_map (fun nr : bool * range => range_json (snd nr)) (filter (fun nr => negb (fst nr)) rs) /\
  flat_map snd (filter fst ps) = flat_map (fun nr : bool * range => range_json (snd nr)) (filter fst rs).
Proof.
  induction rs as [|[neg r] rs [I1 I2]]; [split; reflexivity|].
  cbn [map filter fst snd] in *. destruct neg; cbn [negb flat_map fst snd]; rewrite I1, I2; split; reflexivity.
Qed.

Lemma neg_words_map rs : forallb neg_range_ok rs = true ->
  map parse_neg_word (map neg_word rs) = map (fun nr : bool * range => (fst nr, range_json (snd nr))) rs.
Proof.
  intro H. rewrite map_map. apply map_ext_in. intros a Ha. apply parse_neg_word_ok.
  rewrite forallb_forall in H. now apply H.
Qed.

Lemma tlsm_eq t : tlsm_ok t = true -> parse_tlsm (tlsm_name t) (tlsm_seg t) = Some (tlsm_json t).
Proof.
  destruct t as [l|l|rs|rs]; cbn [tlsm_ok]; intro H.
  - destruct l; [discriminate|reflexivity].
  - destruct l; [discriminate|reflexivity].
  - apply andb_true_iff in H. destruct H as [Hn Hall]. destruct rs as [|nr rs]; [discriminate|].
    unfold tlsm_seg, tlsm_name, parse_tlsm. cbn [map String.eqb Ascii.eqb Bool.eqb orb]. cbv iota.
    change (parse_neg_word (neg_word nr) :: map parse_neg_word (map neg_word rs))
      with (map parse_neg_word (map neg_word (nr :: rs))).
    rewrite (neg_words_map _ Hall).
    destruct (neg_words_split (nr :: rs)) as [E1 E2]. cbv zeta in E1, E2. rewrite E1, E2. reflexivity.
  - apply andb_true_iff in H. destruct H as [Hn Hall]. destruct rs as [|r rs]; [discriminate|].
    unfold tlsm_seg, tlsm_name, parse_tlsm. cbn [map String.eqb Ascii.eqb Bool.eqb orb]. cbv iota.
    change (range_word r :: map range_word rs) with (map range_word (r :: rs)).
    now rewrite expand_priv_ranges.
Qed.

Lemma tlsm_seg_name t : seg_name (tlsm_seg t) = tlsm_name t.
Proof. reflexivity. Qed.

Lemma dedup_first_id l : forall seen,
  (forall e, In e l -> existsb (String.eqb (seg_name e)) seen = false) ->
  has_dup (map seg_name l) = false -> dedup_first seen l = l.
Proof.
  induction l as [|e l IH]; intros seen Hs Hd; [reflexivity|].
  cbn [map has_dup] in Hd. apply orb_false_iff in Hd. destruct Hd as [He Hd].
  cbn [dedup_first]. rewrite (Hs e (or_introl eq_refl)). f_equal. apply IH; [|exact Hd].
  intros e' Hin. cbn [existsb]. rewrite (Hs e' (or_intror Hin)), orb_false_r.
  destruct (String.eqb (seg_name e') (seg_name e)) eqn:E; [|reflexivity].
  apply String.eqb_eq in E. exfalso.
  assert (existsb (String.eqb (seg_name e)) (map seg_name l) = true) as C; [|congruence].
  apply existsb_exists. exists (seg_name e'). split; [now apply in_map|]. rewrite E. apply String.eqb_refl.
Qed.

Lemma set_seg_shape w il es : exists args hb body, set_seg w il es = Seg (w :: args) hb body.
Proof.
  unfold set_seg. destruct il; [|now eexists _, _, _].
  destruct es as [|[ws hb body] [|? ?]]; now eexists _, _, _.
Qed.

Section FlatSet.
  Context {T : Type}.
  Variables (tname : T -> string) (tseg : T -> seg) (tjson : T -> json).
  Variable leafp : string -> seg -> option json.
  Hypothesis shape : forall t, exists args hb body, tseg t = Seg (tname t :: args) hb body.

  Lemma flat_seg_name t : seg_name (tseg t) = tname t.
  Proof. destruct (shape t) as (a & hb & b & E). now rewrite E. Qed.

  Lemma flat_set_eq w il subs :
    Forall (fun t => leafp (tname t) (tseg t) = Some (tjson t)) subs ->
    has_dup (map tname subs) = false ->
    parse_flat_set leafp (set_seg w il (map tseg subs)) =
    Some (sort_kv (map (fun t => (tname t, tjson t)) subs)).
  Proof.
    intros Hall Hd.
    assert (Htr : traverse (fun en => j <- leafp (seg_name en) en ;; Some (seg_name en, j)) (map tseg subs) =
                  Some (map (fun t => (tname t, tjson t)) subs)).
    { apply traverse_map. eapply Forall_impl; [|exact Hall].
      intros t Ht. cbv beta. rewrite flat_seg_name, Ht. reflexivity. }
    assert (Hblock : parse_flat_set leafp (Seg [w] true (map tseg subs)) =
                     Some (sort_kv (map (fun t => (tname t, tjson t)) subs))).
    { unfold parse_flat_set. rewrite dedup_first_id.
      - rewrite Htr. reflexivity.
      - intros; reflexivity.
      - rewrite map_map. rewrite (map_ext _ tname) by apply flat_seg_name. exact Hd. }
    unfold set_seg. destruct il; [|exact Hblock].
    destruct subs as [|t [|t2 subs]]; [exact Hblock| |cbn [map] in *; destruct (tseg t); exact Hblock].
    cbn [map] in *. destruct (shape t) as (a & hb & b & E). rewrite E in *.
    unfold parse_flat_set. cbn [dedup_first existsb]. rewrite Htr. reflexivity.
  Qed.
End FlatSet.

Lemma tlsm_shape t : exists args hb body, tlsm_seg t = Seg (tlsm_name t :: args) hb body.
Proof. unfold tlsm_seg. now eexists _, _, _. Qed.

Lemma tls_set_eq w il subs : negb (has_dup (map tlsm_name subs)) && forallb tlsm_ok subs = true ->
  parse_flat_set parse_tlsm (set_seg w il (map tlsm_seg subs)) =
  Some (sort_kv (map (fun t => (tlsm_name t, tlsm_json t)) subs)).
Proof.
  intro H. apply andb_true_iff in H. destruct H as [Hd Hall]. apply negb_true_iff in Hd.
  apply (flat_set_eq tlsm_name tlsm_seg tlsm_json parse_tlsm tlsm_shape); [|exact Hd].
  apply forallb_Forall in Hall. eapply Forall_impl; [|exact Hall]. intros t. apply tlsm_eq.
Qed.

Lemma tls_eq quic il subs : mleaf_ok (MTls quic il subs) = true ->
  parse_tls (mleaf_seg (MTls quic il subs)) = Some (mleaf_json (MTls quic il subs)).
Proof.
  cbn [mleaf_ok]. intro H. unfold parse_tls. cbn [mleaf_seg mleaf_json]. now rewrite tls_set_eq.
Qed.

(* ---- http matcher: a set of request matchers (host / path / method / not over them) *)
Lemma hsimple_shape (h : hsimple) : exists args hb body, hsimple_seg h = Seg (hk_name (fst h) :: args) hb body.
Proof. unfold hsimple_seg. now eexists _, _, _. Qed.
Lemma hsimple_eq h : hsimple_ok h = true -> parse_hsimple (hk_name (fst h)) (hsimple_seg h) = Some (hsimple_json h).
Proof.
  destruct h as [k vals]. unfold hsimple_ok. cbn [fst snd]. intro H.
  destruct vals; [discriminate|]. destruct k; reflexivity.
Qed.
Lemma httpm_shape m : exists args hb body, httpm_seg m = Seg (httpm_name m :: args) hb body.
Proof. destruct m; [apply hsimple_shape|apply set_seg_shape]. Qed.
Lemma httpm_eq m : httpm_ok m = true -> parse_httpm (httpm_name m) (httpm_seg m) = Some (httpm_json m).
Proof.
  destruct m as [h|il inner]; cbn [httpm_ok httpm_name httpm_seg httpm_json]; intro H.
  - unfold parse_httpm. replace (hk_name (fst h) =? "not") with false by (destruct h as [[] ?]; reflexivity).
    now apply hsimple_eq.
  - apply andb_true_iff in H. destruct H as [Hd Hall]. apply negb_true_iff in Hd.
    unfold parse_httpm. cbn [String.eqb Ascii.eqb Bool.eqb]. cbv iota.
    rewrite (flat_set_eq (fun h : hsimple => hk_name (fst h)) hsimple_seg hsimple_json parse_hsimple hsimple_shape);
      [reflexivity| |exact Hd].
    apply forallb_Forall in Hall. eapply Forall_impl; [|exact Hall]. intros h. apply hsimple_eq.
Qed.
Lemma http_eq il subs : mleaf_ok (MHttp il subs) = true ->
  parse_http (mleaf_seg (MHttp il subs)) = Some (mleaf_json (MHttp il subs)).
Proof.
  cbn [mleaf_ok]. intro H. apply andb_true_iff in H. destruct H as [Hd Hall]. apply negb_true_iff in Hd.
  unfold parse_http. cbn [mleaf_seg mleaf_json].
  rewrite (flat_set_eq httpm_name httpm_seg httpm_json parse_httpm httpm_shape); [reflexivity| |exact Hd].
  apply forallb_Forall in Hall. eapply Forall_impl; [|exact Hall]. intros m. apply httpm_eq.
Qed.

Definition mleaf_proved (m : mleaf) : bool := mleaf_ok m.

Lemma mleaf_eq_proved x : mleaf_proved x = true ->
  mleaf_parse (mleaf_name x) (mleaf_seg x) = Some (mleaf_json x).
Proof.
  destruct x; unfold mleaf_proved; intro H; try reflexivity.
  - destruct quic; now apply tls_eq.
  - now apply http_eq.
  - now apply socks4_eq.
  - now apply socks5m_eq.
  - now apply regexp_eq.
  - now apply clock_eq.
  - now apply wireguard_eq.
  - now apply winbox_eq.
  - apply (ranges_eq "remote_ip"). exact H.
  - apply (ranges_eq "local_ip"). exact H.
  - now apply dns_eq.
  - now apply rdp_eq.
  - now apply openvpn_eq.
Qed.

(* ------------------------------------------------------------------ handlers *)
Lemma pp_handler_eq allow timeout : hleaf_ok (HProxyProtocol allow timeout) = true ->
  parse_pp_handler (hleaf_seg (HProxyProtocol allow timeout)) = Some (hleaf_json (HProxyProtocol allow timeout)).
Proof.
  cbn [hleaf_ok]. intro H. apply andb_true_iff in H. destruct H as [Ha Ht].
  unfold parse_pp_handler. cbn [hleaf_seg]. rewrite block_lines_blockL. cbn [obind].
  rewrite known_render by reflexivity.
  rewrite (multi_occ_if "allow" _ (map range_word allow)) by occ.
  rewrite (once1_occ_opt "timeout" _ (odur_words timeout)) by occ.
  cbn [obind]. rewrite (omap_dur _ Ht). cbn [obind]. now rewrite oz_dur, expand_priv_ranges.
Qed.

Lemma throttle_eq l a b c d : hleaf_ok (HThrottle l a b c d) = true ->
  parse_throttle (hleaf_seg (HThrottle l a b c d)) = Some (hleaf_json (HThrottle l a b c d)).
Proof.
  cbn [hleaf_ok]. intro H. repeat (apply andb_true_iff in H; destruct H as [H ?]).
  unfold parse_throttle. cbn [hleaf_seg]. rewrite block_lines_blockL. cbn [obind].
  rewrite known_render by reflexivity.
  rewrite (once1_occ_opt "latency" _ (odur_words l)) by occ. cbn [obind]. rewrite omap_dur by assumption. cbn [obind].
  rewrite (once1_occ_opt "read_burst_size" _ (oz_words a)) by occ. cbn [obind]. rewrite omap_int by assumption. cbn [obind].
  rewrite (once1_occ_opt "read_bytes_per_second" _ (orate_words b)) by occ. cbn [obind]. rewrite omap_rate by assumption. cbn [obind].
  rewrite (once1_occ_opt "total_read_burst_size" _ (oz_words c)) by occ. cbn [obind]. rewrite omap_int by assumption. cbn [obind].
  rewrite (once1_occ_opt "total_read_bytes_per_second" _ (orate_words d)) by occ. cbn [obind]. rewrite omap_rate by assumption. cbn [obind].
  now rewrite !oz_dur, !oj_rate_json.
Qed.

(* credentials: pairs written into a map; with distinct users the map is the list itself *)
Lemma pairs_flat creds : pairs (flat_map (fun c : string * string => [fst c; snd c]) creds) = Some creds.
Proof. induction creds as [|[u p] creds IH]; [reflexivity|]. cbn [flat_map List.app pairs fst snd]. now rewrite IH. Qed.

Lemma map_put_fresh k v m : existsb (String.eqb k) (map fst m) = false -> map_put k v m = m ++ [(k, v)].
Proof.
  induction m as [|[k' v'] m IH]; intro H; [reflexivity|].
  cbn [map fst existsb] in H. apply orb_false_iff in H. destruct H as [H1 H2].
  cbn [map_put List.app]. rewrite H1. now rewrite IH.
Qed.

Lemma to_map_distinct creds : has_dup (map fst creds) = false -> to_map creds = creds.
Proof.
  unfold to_map.
  assert (G : forall acc, has_dup (map fst (acc ++ creds)) = false ->
            fold_left (fun m kv => map_put (fst kv) (snd kv) m) creds acc = acc ++ creds).
  { induction creds as [|[k v] creds IH]; intros acc H; [now rewrite app_nil_r|].
    cbn [fold_left fst snd]. rewrite map_put_fresh.
    - rewrite IH; rewrite <- app_assoc; [reflexivity|exact H].
    - rewrite map_app in H. cbn [map fst] in H. clear IH.
      induction acc as [|[k' v'] acc IHa]; [reflexivity|].
      cbn [map fst List.app has_dup existsb] in *. apply orb_false_iff in H. destruct H as [H1 H2].
      rewrite (IHa H2), orb_false_r. rewrite existsb_app in H1. apply orb_false_iff in H1. destruct H1 as [_ H1].
      cbn [existsb] in H1. apply orb_false_iff in H1. destruct H1 as [H1 _].
      rewrite String.eqb_sym. exact H1. }
  intro H. apply (G [] H).
Qed.

Lemma socks5h_eq bind cmds creds : hleaf_ok (HSocks5 bind cmds creds) = true ->
  parse_socks5h (hleaf_seg (HSocks5 bind cmds creds)) = Some (hleaf_json (HSocks5 bind cmds creds)).
Proof.
  cbn [hleaf_ok]. intro H. apply negb_true_iff in H.
  unfold parse_socks5h. cbn [hleaf_seg]. rewrite block_lines_blockL. cbn [obind].
  rewrite known_render by reflexivity.
  rewrite (once1_occ_opt "bind_ip" _ bind) by occ.
  rewrite (multi_occ_if "commands" _ cmds) by occ. cbn [obind].
  replace (occurrences "credentials" _) with (occ_if (flat_map (fun c : string * string => [fst c; snd c]) creds)) by (symmetry; occ).
  destruct creds as [|[u p] creds]; [reflexivity|].
  cbn [flat_map List.app occ_if fst snd traverse].
  change (u :: p :: flat_map (fun c : string * string => [fst c; snd c]) creds)
    with (flat_map (fun c : string * string => [fst c; snd c]) ((u, p) :: creds)).
  rewrite pairs_flat. cbn [obind List.concat]. rewrite app_nil_r, (to_map_distinct _ H). reflexivity.
Qed.

(* ---- proxy *)
Lemma policy_eq p : policy_ok p = true -> parse_policy (policy_words p) = Some (policy_json p).
Proof.
  destruct p as [| | | | |[n|]]; try reflexivity. cbn [policy_ok]. intro H.
  unfold parse_policy, policy_words, policy_name.
  cbn [String.eqb Ascii.eqb Bool.eqb orb]. cbv iota. rewrite parse_int_print by exact H. reflexivity.
Qed.

Lemma uptls_none_lookup k : field_lookup k [] = [].
Proof. reflexivity. Qed.

Lemma trust_pool_eq certs : negb (is_nil certs) = true ->
  parse_trust_pool (Seg ["tls_trust_pool"; "inline"] true [mkline ("trust_der", certs)]) = Some (trust_json certs).
Proof.
  intro H. unfold parse_trust_pool. cbn [String.eqb Ascii.eqb Bool.eqb]. cbv iota.
  change [mkline ("trust_der", certs)] with (map mkline [("trust_der", certs)]). rewrite opt_lines_mk.
  cbn [obind known forallb fst existsb String.eqb Ascii.eqb Bool.eqb orb andb]. cbv iota.
  unfold occurrences. cbn [filter fst String.eqb Ascii.eqb Bool.eqb map snd List.concat]. cbv iota.
  cbn [map snd List.concat]. rewrite app_nil_r. destruct certs; [discriminate|reflexivity].
Qed.

Lemma filter_lines_key_early key L :
  forallb (fun l => negb (fst l =? key)) L = true ->
  filter (fun s => seg_name s =? key) (map mkline L) = [] /\
  filter (fun s => negb (seg_name s =? key)) (map mkline L) = map mkline L.
Proof.
  induction L as [|[k a] L IH]; intro H; [split; reflexivity|].
  cbn [forallb fst] in H. apply andb_true_iff in H. destruct H as [H1 H2]. destruct (IH H2) as [I1 I2].
  apply negb_true_iff in H1.
  assert (Hu : (seg_name (mkline (k, a)) =? key) = false) by (unfold mkline; cbn [seg_name seg_words fst snd]; exact H1).
  cbn [map filter]. rewrite Hu. cbn [negb]. rewrite I1, I2. split; reflexivity.
Qed.
Lemma forallb_render_early (p : string -> bool) fs :
  forallb (fun f => p (fst f)) fs = true -> forallb (fun l => p (fst l)) (render fs) = true.
Proof.
  induction fs as [|[k occs] fs IH]; intro H; [reflexivity|].
  cbn [forallb fst] in H. apply andb_true_iff in H. destruct H as [H1 H2].
  unfold render in *. cbn [flat_map fst snd]. rewrite forallb_app, (IH H2), andb_true_r.
  apply forallb_forall. intros x Hx. apply in_map_iff in Hx. destruct Hx as (o & <- & _). exact H1.
Qed.

Lemma upstream_eq u : upstream_ok u = true -> parse_upstream (upstream_seg u) = Some (upstream_json u).
Proof.
  destruct u as [args dial mc tls]. unfold upstream_ok. cbn [up_args up_dial up_max_conns up_tls].
  intro H. repeat (apply andb_true_iff in H; destruct H as [H ?]). apply negb_true_iff in H.
  unfold upstream_seg. cbn [up_args up_tls].
  set (body := map mkline _ ++ _).
  assert (E : forall hb, parse_upstream (Seg ("upstream" :: args) hb body) = Some (upstream_json (Upstream args dial mc tls))).
  { intro hb. subst body. unfold parse_upstream. rewrite !filter_app.
    unfold upstream_fields, upstream_json, uptls_json.
    cbn [up_args up_dial up_max_conns up_tls option_map].
    destruct tls as [t|].
    - destruct t as [ins sn re to cu ep ca tr]. unfold uptls_ok in *.
      cbn [ut_timeout ut_client_auth ut_renegotiation ut_trust] in *.
      repeat match goal with Hx : _ && _ = true |- _ => apply andb_true_iff in Hx; destruct Hx as [Hx ?] end.
      unfold uptls_fields, uptls_trust_seg.
      cbn [ut_insecure ut_server_name ut_renegotiation ut_timeout ut_curves ut_except_ports ut_client_auth ut_trust List.app].
      match goal with |- context [map mkline (render ?F)] => set (fs := F) end.
      destruct (filter_lines_key_early "tls_trust_pool" (render fs)) as [F1 F2].
      { apply (forallb_render_early (fun k => negb (k =? "tls_trust_pool"))). reflexivity. }
      rewrite F1, F2. cbn [List.app].
      assert (Htp : exists tpj,
                (match filter (fun s => seg_name s =? "tls_trust_pool")
                         match tr with Some certs => [Seg ["tls_trust_pool"; "inline"] true [mkline ("trust_der", certs)]] | None => [] end with
                 | [] => Some None | [t] => option_map Some (parse_trust_pool t) | _ => None end = Some tpj) /\
                tpj = option_map trust_json tr /\
                filter (fun s => negb (seg_name s =? "tls_trust_pool"))
                  match tr with Some certs => [Seg ["tls_trust_pool"; "inline"] true [mkline ("trust_der", certs)]] | None => [] end = []).
      { destruct tr as [certs|].
        - exists (Some (trust_json certs)). cbn [filter seg_name seg_words String.eqb Ascii.eqb Bool.eqb negb option_map].
          rewrite trust_pool_eq by assumption. repeat split.
        - exists None. repeat split. }
      destruct Htp as (tpj & Htp1 & Htp2 & Htp3). rewrite Htp3, app_nil_r, opt_lines_mk. cbn [obind].
      subst fs. rewrite known_render by reflexivity. rewrite Htp1. cbn [obind].
      rewrite (multi_occ_if "dial" _ dial) by occ.
      rewrite (once1_occ_opt "max_connections" _ (oz_words mc)) by occ. cbn [obind].
      rewrite omap_int by assumption. cbn [obind].
      unfold parse_uptls.
      rewrite (flag_occ_flag "tls" _ true) by occ.
      rewrite (once_occ_if "tls_client_auth" _ ca) by occ.
      rewrite (multi_occ_if "tls_curves" _ cu) by occ.
      rewrite (multi_occ_if "tls_except_ports" _ ep) by occ.
      rewrite (flag_occ_flag "tls_insecure_skip_verify" _ ins) by occ.
      rewrite (once1_occ_opt "tls_renegotiation" _ re) by occ.
      rewrite (once1_occ_opt "tls_server_name" _ sn) by occ.
      rewrite (once1_occ_opt "tls_timeout" _ (odur_words to)) by occ.
      cbn [obind]. rewrite omap_dur by assumption. cbn [obind orb].
      assert (Hre : match re with Some v => if (v =? "never") || (v =? "once") || (v =? "freely") then Some tt else None | None => Some tt end = Some tt).
      { destruct re as [v|]; [|reflexivity].
        match goal with Hx : (_ || _ || _) = true |- _ => now rewrite Hx end. }
      subst tpj.
      destruct ca as [|c1 [|c2 [|c3 ca]]]; cbn [obind]; try (cbn in *; discriminate);
        rewrite Hre; cbn [obind]; rewrite oz_dur;
        (destruct (args ++ dial) eqn:Ead; [discriminate H|]); reflexivity.
    - cbn [List.app]. rewrite app_nil_r.
      match goal with |- context [map mkline (render ?F)] => set (fs := F) end.
      destruct (filter_lines_key_early "tls_trust_pool" (render fs)) as [F1 F2].
      { apply (forallb_render_early (fun k => negb (k =? "tls_trust_pool"))). reflexivity. }
      rewrite F1, F2. rewrite opt_lines_mk. cbn [obind]. subst fs.
      rewrite known_render by reflexivity. cbn [obind].
      rewrite (multi_occ_if "dial" _ dial) by occ.
      rewrite (once1_occ_opt "max_connections" _ (oz_words mc)) by occ. cbn [obind].
      rewrite omap_int by assumption. cbn [obind].
      unfold parse_uptls.
      rewrite (flag_occ_flag "tls" _ false) by occ.
      rewrite (once_occ_if "tls_client_auth" _ []) by occ.
      rewrite (multi_occ_if "tls_curves" _ []) by occ.
      rewrite (multi_occ_if "tls_except_ports" _ []) by occ.
      rewrite (flag_occ_flag "tls_insecure_skip_verify" _ false) by occ.
      rewrite (once1_occ_opt "tls_renegotiation" _ None) by occ.
      rewrite (once1_occ_opt "tls_server_name" _ None) by occ.
      rewrite (once1_occ_opt "tls_timeout" _ None) by occ.
      cbn [obind omap]. rewrite !occurrences_render. cbn [field_lookup String.eqb Ascii.eqb Bool.eqb List.app]. cbv iota.
      rewrite ?app_nil_r. cbn [is_nil negb orb is_some].
      destruct (args ++ dial) eqn:Ead; [discriminate H|]. reflexivity. }
  unfold block. destruct body; [exact (E false)|exact (E true)].
Qed.

Definition is_upstream (s : seg) : bool := seg_name s =? "upstream".
Lemma filter_lines_not_upstream L :
  forallb (fun l => negb (fst l =? "upstream")) L = true ->
  filter is_upstream (map mkline L) = [] /\
  filter (fun s => negb (is_upstream s)) (map mkline L) = map mkline L.
Proof.
  induction L as [|[k a] L IH]; intro H; [split; reflexivity|].
  cbn [forallb fst] in H. apply andb_true_iff in H. destruct H as [H1 H2]. destruct (IH H2) as [I1 I2].
  apply negb_true_iff in H1.
  assert (Hu : is_upstream (mkline (k, a)) = false) by (unfold is_upstream, mkline; cbn [seg_name seg_words fst snd]; exact H1).
  cbn [map filter]. rewrite Hu. cbn [negb]. rewrite I1, I2. split; reflexivity.
Qed.
Lemma forallb_render (p : string -> bool) fs :
  forallb (fun f => p (fst f)) fs = true -> forallb (fun l => p (fst l)) (render fs) = true.
Proof.
  induction fs as [|[k occs] fs IH]; intro H; [reflexivity|].
  cbn [forallb fst] in H. apply andb_true_iff in H. destruct H as [H1 H2].
  unfold render in *. cbn [flat_map fst snd]. rewrite forallb_app, (IH H2), andb_true_r.
  apply forallb_forall. intros x Hx. apply in_map_iff in Hx. destruct Hx as (o & <- & _). exact H1.
Qed.
Lemma upstream_seg_name u : seg_name (upstream_seg u) = "upstream".
Proof. unfold upstream_seg, block. now destruct (_ ++ _). Qed.
Lemma filter_upstreams ups :
  filter is_upstream (map upstream_seg ups) = map upstream_seg ups /\
  filter (fun s => negb (is_upstream s)) (map upstream_seg ups) = [].
Proof.
  induction ups as [|u ups [I1 I2]]; [split; reflexivity|].
  assert (Hu : is_upstream (upstream_seg u) = true) by (unfold is_upstream; now rewrite upstream_seg_name).
  cbn [map filter]. rewrite Hu. cbn [negb]. now rewrite I1, I2.
Qed.

Lemma once_occ_one k L (o : option (list string)) :
  occurrences k L = match o with Some w => [w] | None => [] end -> once k L = Some o.
Proof. unfold once. intros ->. destruct o; reflexivity. Qed.
Lemma is_some_map {A B} (f : A -> B) o : is_some (option_map f o) = is_some o.
Proof. destruct o; reflexivity. Qed.

Lemma proxy_eq c : hleaf_ok (HProxy c) = true -> parse_proxy (hleaf_seg (HProxy c)) = Some (hleaf_json (HProxy c)).
Proof.
  destruct c as [args ups hi hp ht fd mf uc pol td ti pp]. cbn [hleaf_ok].
  cbn [px_upstreams px_health_interval px_health_port px_health_timeout px_fail_duration px_max_fails
       px_unhealthy_count px_policy px_try_duration px_try_interval].
  intro H. repeat (apply andb_true_iff in H; destruct H as [H ?]).
  cbn [hleaf_seg px_args px_upstreams].
  set (fs := proxy_fields _).
  assert (E : forall hb, parse_proxy (Seg ("proxy" :: args) hb (map mkline (render fs) ++ map upstream_seg ups)) =
              Some (hleaf_json (HProxy (Proxy args ups hi hp ht fd mf uc pol td ti pp)))).
  { intro hb. unfold parse_proxy.
    change (fun s : seg => seg_name s =? "upstream") with is_upstream.
    change (fun s : seg => negb (seg_name s =? "upstream")) with (fun s : seg => negb (is_upstream s)).
    rewrite !filter_app.
    destruct (filter_lines_not_upstream (render fs)) as [F1 F2].
    { apply (forallb_render (fun k => negb (k =? "upstream"))). reflexivity. }
    destruct (filter_upstreams ups) as [F3 F4]. rewrite F1, F2, F3, F4, app_nil_r. cbn [List.app].
    rewrite opt_lines_mk. cbn [obind]. subst fs. unfold proxy_fields.
    cbn [px_health_interval px_health_port px_health_timeout px_fail_duration px_max_fails
         px_unhealthy_count px_policy px_try_duration px_try_interval px_proxy_protocol].
    rewrite known_render by reflexivity.
    rewrite (traverse_map _ upstream_seg upstream_json).
    2:{ apply forallb_Forall in H. eapply Forall_impl; [|exact H]. intros u. apply upstream_eq. }
    cbn [obind].
    rewrite (once1_occ_opt "health_interval" _ (odur_words hi)) by occ. cbn [obind]. rewrite omap_dur by assumption. cbn [obind].
    rewrite (once1_occ_opt "health_port" _ (oz_words hp)) by occ. cbn [obind]. rewrite omap_int by assumption. cbn [obind].
    rewrite (once1_occ_opt "health_timeout" _ (odur_words ht)) by occ. cbn [obind]. rewrite omap_dur by assumption. cbn [obind].
    rewrite (once1_occ_opt "fail_duration" _ (odur_words fd)) by occ. cbn [obind]. rewrite omap_dur by assumption. cbn [obind].
    rewrite (once1_occ_opt "max_fails" _ (oz_words mf)) by occ. cbn [obind]. rewrite omap_int by assumption. cbn [obind].
    rewrite (once1_occ_opt "unhealthy_connection_count" _ (oz_words uc)) by occ. cbn [obind]. rewrite omap_int by assumption. cbn [obind].
    rewrite (once_occ_one "lb_policy" _ (option_map policy_words pol)) by (destruct pol; occ). cbn [obind].
    replace (omap parse_policy (option_map policy_words pol)) with (Some (option_map policy_json pol)).
    2:{ destruct pol as [p|]; [|reflexivity]. cbn [option_map omap]. rewrite policy_eq by assumption. reflexivity. }
    cbn [obind].
    rewrite (once1_occ_opt "lb_try_duration" _ (odur_words td)) by occ. cbn [obind]. rewrite omap_dur by assumption. cbn [obind].
    rewrite (once1_occ_opt "lb_try_interval" _ (odur_words ti)) by occ. cbn [obind]. rewrite omap_dur by assumption. cbn [obind].
    rewrite (once1_occ_opt "proxy_protocol" _ pp) by occ. cbn [obind].
    unfold odur_words, oz_words. rewrite !is_some_map, !oz_dur.
    cbn [hleaf_json px_args px_upstreams px_health_interval px_health_port px_health_timeout px_fail_duration px_max_fails
         px_unhealthy_count px_policy px_try_duration px_try_interval px_proxy_protocol].
    reflexivity. }
  unfold block. destruct (map mkline (render fs) ++ map upstream_seg ups) eqn:Eb.
  - exact (E false).
  - exact (E true).
Qed.

(* ---- tls handler *)
Lemma filter_lines_key key L :
  forallb (fun l => negb (fst l =? key)) L = true ->
  filter (fun s => seg_name s =? key) (map mkline L) = [] /\
  filter (fun s => negb (seg_name s =? key)) (map mkline L) = map mkline L.
Proof.
  induction L as [|[k a] L IH]; intro H; [split; reflexivity|].
  cbn [forallb fst] in H. apply andb_true_iff in H. destruct H as [H1 H2]. destruct (IH H2) as [I1 I2].
  apply negb_true_iff in H1.
  assert (Hu : (seg_name (mkline (k, a)) =? key) = false) by (unfold mkline; cbn [seg_name seg_words fst snd]; exact H1).
  cbn [map filter]. rewrite Hu. cbn [negb]. rewrite I1, I2. split; reflexivity.
Qed.

Lemma set_seg_name' w il es : seg_name (set_seg w il es) = w.
Proof. destruct (set_seg_shape w il es) as (a & hb & b & E). now rewrite E. Qed.

(* repeated list options append: the occurrences of an appending option, each with at least one
   argument, yield the concatenation of their arguments in line order *)
Lemma multi_occ_lines k L (ls : list (list string)) :
  occurrences k L = ls -> forallb (fun l => negb (is_nil l)) ls = true -> multi k L = Some (List.concat ls).
Proof.
  unfold multi. intros -> H.
  replace (existsb is_nil ls) with false; [reflexivity|].
  symmetry. induction ls as [|l ls IH]; [reflexivity|].
  cbn [forallb existsb] in *. apply andb_true_iff in H. destruct H as [H1 H2].
  apply negb_true_iff in H1. now rewrite H1, IH.
Qed.

Lemma cert_sel_eq cs :
  forallb (fun l => negb (is_nil l)) (cs_all_tags cs) && forallb (fun l => negb (is_nil l)) (cs_any_tag cs) &&
  forallb (fun l => negb (is_nil l)) (cs_serials cs) && forallb (fun l => negb (is_nil l)) (cs_orgs cs) = true ->
  parse_cert_sel (blockL "cert_selection" [] (cert_sel_fields cs)) = Some (cert_sel_json cs).
Proof.
  destruct cs as [al an sn so]. cbn [cs_all_tags cs_any_tag cs_serials cs_orgs]. intro H.
  repeat (apply andb_true_iff in H; destruct H as [H ?]).
  unfold parse_cert_sel. rewrite block_lines_blockL. cbn [obind]. unfold cert_sel_fields.
  cbn [cs_all_tags cs_any_tag cs_serials cs_orgs].
  rewrite known_render by reflexivity.
  rewrite (multi_occ_lines "all_tags" _ al) by (try occ; assumption).
  rewrite (multi_occ_lines "any_tag" _ an) by (try occ; assumption).
  rewrite (multi_occ_lines "serial_number" _ (map (map print_N) sn)).
  2: occ.
  2:{ clear - H1. induction sn as [|l sn IH]; [reflexivity|]. cbn [map forallb] in *.
      apply andb_true_iff in H1. destruct H1 as [A B]. rewrite (IH B), andb_true_r. now destruct l. }
  rewrite (multi_occ_lines "subject_organization" _ so) by (try occ; assumption).
  cbn [obind]. rewrite <- concat_map.
  rewrite (traverse_map _ print_N (fun n => n)); [|apply Forall_forall; intros; apply parse_print_N].
  rewrite map_id. reflexivity.
Qed.

Lemma filter_lines_pred (p : string -> bool) L :
  forallb (fun l => negb (p (fst l))) L = true ->
  filter (fun s => p (seg_name s)) (map mkline L) = [] /\
  filter (fun s => negb (p (seg_name s))) (map mkline L) = map mkline L.
Proof.
  induction L as [|[k a] L IH]; intro H; [split; reflexivity|].
  cbn [forallb fst] in H. apply andb_true_iff in H. destruct H as [H1 H2]. destruct (IH H2) as [I1 I2].
  apply negb_true_iff in H1.
  assert (Hu : p (seg_name (mkline (k, a))) = false) by (unfold mkline; cbn [seg_name seg_words fst snd]; exact H1).
  cbn [map filter]. rewrite Hu. cbn [negb]. rewrite I1, I2. split; reflexivity.
Qed.

Lemma blockL_name n fs : seg_name (blockL n [] fs) = n.
Proof. unfold blockL, block. now destruct (map mkline (render fs)). Qed.

Lemma conn_policy_eq c : conn_policy_ok c = true -> parse_conn_policy (conn_policy_seg c) = Some (conn_policy_json c).
Proof.
  destruct c as [alpn ci cu ds dr fs sl pr mt csel]. unfold conn_policy_ok. cbn [cp_protocols cp_match cp_cert_sel]. intro H.
  apply andb_true_iff in H. destruct H as [H Hm]. apply andb_true_iff in H. destruct H as [Hp Hcs].
  unfold conn_policy_seg, parse_conn_policy.
  set (c := ConnPolicy alpn ci cu ds dr fs sl pr mt csel).
  set (fsd := conn_policy_fields c).
  change is_cp_match with (fun s => (fun n => n =? "match") (seg_name s)).
  change is_cp_cert_sel with (fun s => (fun n => n =? "cert_selection") (seg_name s)).
  rewrite !filter_app.
  destruct (filter_lines_pred (fun n => n =? "match") (render fsd)) as [F1 _].
  { apply (forallb_render (fun k => negb (k =? "match"))). reflexivity. }
  destruct (filter_lines_pred (fun n => n =? "cert_selection") (render fsd)) as [F2 _].
  { apply (forallb_render (fun k => negb (k =? "cert_selection"))). reflexivity. }
  destruct (filter_lines_pred (fun n => (n =? "match") || (n =? "cert_selection")) (render fsd)) as [_ F3].
  { apply (forallb_render (fun k => negb ((k =? "match") || (k =? "cert_selection")))). reflexivity. }
  cbv beta in F1, F2, F3 |- *. rewrite F1, F2, F3. cbn [List.app].
  (* the cert_selection and match segments *)
  assert (Hc : cp_cert_sel_seg c = match csel with Some cs => [blockL "cert_selection" [] (cert_sel_fields cs)] | None => [] end)
    by reflexivity.
  assert (Hmm : cp_match_seg c = match mt with Some (il, subs) => [set_seg "match" il (map tlsm_seg subs)] | None => [] end)
    by reflexivity.
  rewrite Hc, Hmm. clear Hc Hmm.
  replace (filter (fun s => seg_name s =? "match") match csel with Some cs => [blockL "cert_selection" [] (cert_sel_fields cs)] | None => [] end)
    with (@nil seg) by (destruct csel; [cbn [filter]; rewrite blockL_name|]; reflexivity).
  replace (filter (fun s => seg_name s =? "cert_selection") match mt with Some (il, subs) => [set_seg "match" il (map tlsm_seg subs)] | None => [] end)
    with (@nil seg) by (destruct mt as [[il subs]|]; [cbn [filter]; rewrite set_seg_name'|]; reflexivity).
  replace (filter (fun s => seg_name s =? "match") match mt with Some (il, subs) => [set_seg "match" il (map tlsm_seg subs)] | None => [] end)
    with (match mt with Some (il, subs) => [set_seg "match" il (map tlsm_seg subs)] | None => [] end)
    by (destruct mt as [[il subs]|]; [cbn [filter]; rewrite set_seg_name'|]; reflexivity).
  replace (filter (fun s => seg_name s =? "cert_selection") match csel with Some cs => [blockL "cert_selection" [] (cert_sel_fields cs)] | None => [] end)
    with (match csel with Some cs => [blockL "cert_selection" [] (cert_sel_fields cs)] | None => [] end)
    by (destruct csel; [cbn [filter]; rewrite blockL_name|]; reflexivity).
  replace (filter (fun s => negb ((seg_name s =? "match") || (seg_name s =? "cert_selection")))
             match csel with Some cs => [blockL "cert_selection" [] (cert_sel_fields cs)] | None => [] end)
    with (@nil seg) by (destruct csel; [cbn [filter]; rewrite blockL_name|]; reflexivity).
  replace (filter (fun s => negb ((seg_name s =? "match") || (seg_name s =? "cert_selection")))
             match mt with Some (il, subs) => [set_seg "match" il (map tlsm_seg subs)] | None => [] end)
    with (@nil seg) by (destruct mt as [[il subs]|]; [cbn [filter]; rewrite set_seg_name'|]; reflexivity).
  rewrite !app_nil_r. cbn [List.app]. rewrite opt_lines_mk. cbn [obind].
  subst fsd c. unfold conn_policy_fields.
  cbn [cp_alpn cp_ciphers cp_curves cp_default_sni cp_drop cp_fallback_sni cp_secrets_log cp_protocols].
  rewrite known_render by reflexivity.
  assert (Hmj : match (match mt with Some (il, subs) => [set_seg "match" il (map tlsm_seg subs)] | None => [] end) with
                | [] => Some None
                | [m] => option_map Some (parse_flat_set parse_tlsm m)
                | _ => None end =
                Some (match mt with Some (_, subs) => Some (sort_kv (map (fun t => (tlsm_name t, tlsm_json t)) subs)) | None => None end)).
  { destruct mt as [[il subs]|]; [|reflexivity]. now rewrite tls_set_eq. }
  assert (Hcj : match (match csel with Some cs => [blockL "cert_selection" [] (cert_sel_fields cs)] | None => [] end) with
                | [] => Some None
                | [x] => option_map Some (parse_cert_sel x)
                | _ => None end = Some (option_map cert_sel_json csel)).
  { destruct csel as [cs|]; [|reflexivity]. now rewrite cert_sel_eq. }
  rewrite Hmj, Hcj. cbn [obind].
  rewrite (multi_occ_if "alpn" _ alpn) by occ.
  rewrite (multi_occ_if "ciphers" _ ci) by occ.
  rewrite (multi_occ_if "curves" _ cu) by occ.
  rewrite (once1_occ_opt "default_sni" _ ds) by occ.
  rewrite (flag_occ_flag "drop" _ dr) by occ.
  rewrite (once1_occ_opt "fallback_sni" _ fs) by occ.
  rewrite (once1_occ_opt "insecure_secrets_log" _ sl) by occ.
  rewrite (once_occ_if "protocols" _ pr) by occ.
  cbn [obind]. unfold conn_policy_json.
  cbn [cp_alpn cp_ciphers cp_curves cp_default_sni cp_drop cp_fallback_sni cp_secrets_log cp_protocols cp_match cp_cert_sel].
  destruct pr as [|p1 [|p2 [|p3 pr]]]; [| | |discriminate Hp]; cbn [obind]; destruct mt as [[il subs]|]; reflexivity.
Qed.

Lemma conn_policy_seg_name c : seg_name (conn_policy_seg c) = "connection_policy".
Proof. reflexivity. Qed.

Lemma tls_handler_eq cps : hleaf_ok (HTls cps) = true ->
  parse_tls_handler (hleaf_seg (HTls cps)) = Some (hleaf_json (HTls cps)).
Proof.
  cbn [hleaf_ok]. intro H.
  assert (E : forall hb, parse_tls_handler (Seg ["tls"] hb (map conn_policy_seg cps)) = Some (hleaf_json (HTls cps))).
  { intro hb. unfold parse_tls_handler.
    replace (forallb (fun s => seg_name s =? "connection_policy") (map conn_policy_seg cps)) with true
      by (clear; induction cps; cbn; auto).
    rewrite (traverse_map _ conn_policy_seg conn_policy_json); [reflexivity|].
    apply forallb_Forall in H. eapply Forall_impl; [|exact H]. intros c. apply conn_policy_eq. }
  cbn [hleaf_seg]. unfold block. destruct (map conn_policy_seg cps) eqn:Em.
  - exact (E false).
  - exact (E true).
Qed.

Definition hleaf_proved (h : hleaf) : bool := hleaf_ok h.

Lemma hleaf_eq_proved x : hleaf_proved x = true ->
  hleaf_parse (hleaf_name x) (hleaf_seg x) = Some (hleaf_json x).
Proof.
  destruct x; unfold hleaf_proved; intro H.
  - now apply tls_handler_eq.
  - reflexivity.
  - now apply pp_handler_eq.
  - now apply throttle_eq.
  - now apply socks5h_eq.
  - now apply proxy_eq.
Qed.

(* ------------------------------------------------------------------ shapes of the printed leaves *)
Lemma block_shape name args ls : forallb seg_wf ls = true ->
  exists hb body, block name args ls = Seg (name :: args) hb body /\ seg_wf (block name args ls) = true.
Proof.
  intro H. unfold block. destruct ls as [|l ls]; eexists _, _; split; try reflexivity. cbn [seg_wf]. exact H.
Qed.
Lemma mklines_wf L : forallb seg_wf (map mkline L) = true.
Proof. induction L as [|[k a] L IH]; [reflexivity|]. cbn [map forallb mkline seg_wf fst snd]. exact IH. Qed.
Lemma blockL_shape name args fs :
  exists hb body, blockL name args fs = Seg (name :: args) hb body /\ seg_wf (blockL name args fs) = true.
Proof. apply block_shape, mklines_wf. Qed.

Lemma set_seg_shape_wf w il es : forallb seg_wf es = true ->
  exists args hb body, set_seg w il es = Seg (w :: args) hb body /\ seg_wf (set_seg w il es) = true.
Proof.
  intro H. destruct (set_seg_shape w il es) as (a & hb & b & E). exists a, hb, b. split; [exact E|].
  now apply set_seg_wf.
Qed.
Lemma tlsm_segs_wf subs : forallb seg_wf (map tlsm_seg subs) = true.
Proof. induction subs as [|t subs IH]; [reflexivity|]. cbn [map forallb]. now rewrite IH. Qed.

Lemma mleaf_shape_wf x :
  exists args hb body, mleaf_seg x = Seg (mleaf_name x :: args) hb body /\ seg_wf (mleaf_seg x) = true.
Proof.
  destruct x; cbn [mleaf_seg mleaf_name];
    try (eexists _, _, _; split; reflexivity);
    try (match goal with |- context [blockL ?n [] ?f] =>
           destruct (blockL_shape n [] f) as (hb & body & E & W); exists [], hb, body; split; assumption end).
  - (* tls / quic *)
    destruct (set_seg_shape_wf (if quic then "quic" else "tls") il (map tlsm_seg subs) (tlsm_segs_wf subs))
      as (a & hb & b & E & W). now exists a, hb, b.
  - (* http *)
    destruct (set_seg_shape_wf "http" il (map httpm_seg subs)) as (a & hb & b & E & W); [|now exists a, hb, b].
    clear. induction subs as [|m subs IH]; [reflexivity|]. cbn [map forallb]. rewrite IH, andb_true_r.
    destruct m as [h|il inner]; [reflexivity|]. cbn [httpm_seg].
    destruct (set_seg_shape_wf "not" il (map hsimple_seg inner)) as (? & ? & ? & _ & W); [|exact W].
    clear. induction inner; [reflexivity|]. cbn [map forallb]. now rewrite IHinner.
  - (* dns *)
    match goal with |- context [block "dns" [] (map mkline ?L)] =>
      destruct (block_shape "dns" [] (map mkline L) (mklines_wf L)) as (hb & body & E & W) end.
    exists [], hb, body. split; assumption.
Qed.

Lemma upstream_seg_wf u : seg_wf (upstream_seg u) = true.
Proof.
  unfold upstream_seg. match goal with |- context [block _ _ ?ls] =>
    destruct (block_shape "upstream" (up_args u) ls) as (? & ? & _ & W); [|exact W] end.
  rewrite forallb_app, mklines_wf. cbn [andb]. destruct (up_tls u) as [t|]; [|reflexivity].
  unfold uptls_trust_seg. now destruct (ut_trust t).
Qed.

Lemma hleaf_shape_wf x :
  exists args hb body, hleaf_seg x = Seg (hleaf_name x :: args) hb body /\ seg_wf (hleaf_seg x) = true.
Proof.
  destruct x; cbn [hleaf_seg hleaf_name];
    try (eexists _, _, _; split; reflexivity);
    try (match goal with |- context [blockL ?n [] ?f] =>
           destruct (blockL_shape n [] f) as (hb & body & E & W); exists [], hb, body; split; assumption end).
  - (* tls handler *)
    destruct (block_shape "tls" [] (map conn_policy_seg cps)) as (hb & body & E & W); [|now exists [], hb, body].
    clear. induction cps as [|c cps IH]; [reflexivity|]. cbn [map forallb]. rewrite IH, andb_true_r.
    unfold conn_policy_seg. cbn [seg_wf]. rewrite !forallb_app, mklines_wf. cbn [andb].
    apply andb_true_iff. split.
    { unfold cp_cert_sel_seg. destruct (cp_cert_sel c) as [cs|]; [|reflexivity]. cbn [forallb]. rewrite andb_true_r.
      destruct (blockL_shape "cert_selection" [] (cert_sel_fields cs)) as (? & ? & _ & W). exact W. }
    unfold cp_match_seg. destruct (cp_match c) as [[il subs]|]; [|reflexivity].
    cbn [forallb]. rewrite andb_true_r. apply set_seg_wf, tlsm_segs_wf.
  - destruct (block_shape "proxy" (px_args c) (map mkline (render (proxy_fields c)) ++ map upstream_seg (px_upstreams c)))
      as (hb & body & E & W).
    + rewrite forallb_app, mklines_wf. cbn [andb]. induction (px_upstreams c); [reflexivity|].
      cbn [map forallb]. now rewrite upstream_seg_wf.
    + exists (px_args c), hb, body. split; assumption.
Qed.

Lemma mleaf_not_not x : mleaf_name x <> "not".
Proof. destruct x; cbn [mleaf_name]; try destruct quic; discriminate. Qed.
Lemma hleaf_not_struct x : hleaf_name x <> "tee" /\ hleaf_name x <> "subroute".
Proof. destruct x; split; discriminate. Qed.
Lemma hleaf_obj x : exists l, hleaf_json x = JObj l.
Proof. destruct x; eexists; reflexivity. Qed.

(* ------------------------------------------------------------------ the instantiated theorems *)
Definition config_ok_proved : configT -> bool := config_ok mleaf hleaf mleaf_name mleaf_proved hleaf_proved.
Definition rblock_ok_proved : rblockT -> bool := rblock_ok mleaf hleaf mleaf_name mleaf_proved hleaf_proved.

Theorem adapt_structural_l4 cfg : config_ok_proved cfg = true -> adapt_l4 (print_l4 cfg) = Some (to_json_l4 cfg).
Proof.
  apply (adapt_structural_gen mleaf hleaf mleaf_name mleaf_seg mleaf_json hleaf_name hleaf_seg hleaf_json
           mleaf_proved hleaf_proved mleaf_parse hleaf_parse).
  - exact mleaf_eq_proved.
  - intro x. destruct (mleaf_shape_wf x) as (a & hb & b & E & _). now exists a, hb, b.
  - exact mleaf_not_not.
  - intro x. destruct (mleaf_shape_wf x) as (a & hb & b & _ & W). exact W.
  - exact hleaf_eq_proved.
  - intro x. destruct (hleaf_shape_wf x) as (a & hb & b & E & _). now exists a, hb, b.
  - exact hleaf_not_struct.
  - exact hleaf_obj.
  - intro x. destruct (hleaf_shape_wf x) as (a & hb & b & _ & W). exact W.
Qed.

Theorem adapt_lw_structural_l4 rb others sites :
  rblock_ok_proved rb = true -> forallb seg_wf others = true -> forallb seg_wf sites = true ->
  forallb (fun s => negb (is_layer4 s)) others = true ->
  adapt_lw_l4 (print_lw_l4 rb others sites) = Some [lw_json_l4 rb].
Proof.
  apply (adapt_lw_structural_gen mleaf hleaf mleaf_name mleaf_seg mleaf_json hleaf_name hleaf_seg hleaf_json
           mleaf_proved hleaf_proved mleaf_parse hleaf_parse).
  - exact mleaf_eq_proved.
  - intro x. destruct (mleaf_shape_wf x) as (a & hb & b & E & _). now exists a, hb, b.
  - exact mleaf_not_not.
  - intro x. destruct (mleaf_shape_wf x) as (a & hb & b & _ & W). exact W.
  - exact hleaf_eq_proved.
  - intro x. destruct (hleaf_shape_wf x) as (a & hb & b & E & _). now exists a, hb, b.
  - exact hleaf_not_struct.
  - exact hleaf_obj.
  - intro x. destruct (hleaf_shape_wf x) as (a & hb & b & _ & W). exact W.
Qed.

Lemma adapt_deterministic_l4 ts j1 j2 : adapt_l4 ts = Some j1 -> adapt_l4 ts = Some j2 -> j1 = j2.
Proof. intros H1 H2. rewrite H1 in H2. now inversion H2. Qed.

(* two printings of configurations with the same stated JSON adapt to the same JSON *)
Lemma adapt_respects_json c1 c2 : config_ok_proved c1 = true -> config_ok_proved c2 = true ->
  to_json_l4 c1 = to_json_l4 c2 -> adapt_l4 (print_l4 c1) = adapt_l4 (print_l4 c2).
Proof. intros H1 H2 E. now rewrite (adapt_structural_l4 _ H1), (adapt_structural_l4 _ H2), E. Qed.

(* ------------------------------------------------------------------ server numbering across global blocks *)
Definition server_json_l4 : serverT -> json := server_json mleaf hleaf mleaf_name mleaf_json hleaf_name hleaf_json.

(* parseLayer4 merges the global "layer4" blocks in source order: the i-th server of the file (counting
   through the blocks in order) is the one stated under "srv<i>" *)
Theorem server_numbering_l4 (c : configT) i s :
  config_ok_proved c = true -> nth_error (List.concat c) i = Some s ->
  exists j, adapt_l4 (print_l4 c) = Some j /\ adapted_server j (N.of_nat i) = Some (server_json_l4 s).
Proof.
  intros Hok Hn. exists (to_json_l4 c). split; [now apply adapt_structural_l4|].
  unfold to_json_l4, to_json. apply adapted_server_numbered.
  fold server_json_l4. rewrite nth_error_map, Hn. reflexivity.
Qed.

(* how the servers are grouped into global blocks does not matter, only their order *)
Theorem blocks_merge_l4 (c1 c2 : configT) :
  config_ok_proved c1 = true -> config_ok_proved c2 = true -> List.concat c1 = List.concat c2 ->
  adapt_l4 (print_l4 c1) = adapt_l4 (print_l4 c2).
Proof.
  intros H1 H2 E. rewrite (adapt_structural_l4 _ H1), (adapt_structural_l4 _ H2).
  unfold to_json_l4, to_json. now rewrite E.
Qed.
