(* Lemmas about model/Conn.v (layer4/connection.go as a layer of a reader stack). *)
From Coq Require Import List ZArith NArith Bool Arith Lia.
From Coq.Strings Require Import Byte.
From L4.gen Require Import Consts.
From L4.model Require Import Conn.
Import ListNotations.
Local Open Scope nat_scope.

(* ---------------------------------------------------------------- constants *)
Lemma consts_ok : (1 <= layer4_prefetchChunkSize <= layer4_MaxMatchingBytes)%Z.
Proof. unfold layer4_prefetchChunkSize, layer4_MaxMatchingBytes. lia. Qed.

Lemma MAXn_Z : Z.of_nat MAXn = layer4_MaxMatchingBytes.
Proof. unfold MAXn. apply Z2Nat.id. pose proof consts_ok. lia. Qed.
Lemma CHUNKn_Z : Z.of_nat CHUNKn = layer4_prefetchChunkSize.
Proof. unfold CHUNKn. apply Z2Nat.id. pose proof consts_ok. lia. Qed.
Lemma CHUNKn_pos : 1 <= CHUNKn.
Proof. pose proof CHUNKn_Z. pose proof consts_ok. lia. Qed.
Lemma CHUNKn_le_MAXn : CHUNKn <= MAXn.
Proof. pose proof CHUNKn_Z. pose proof MAXn_Z. pose proof consts_ok. lia. Qed.

(* ---------------------------------------------------------------- lists *)
Lemma skipn_app_le {A} (n : nat) (a b : list A) : n <= length a -> skipn n (a ++ b) = skipn n a ++ b.
Proof.
  intros H. rewrite skipn_app. replace (n - length a) with 0 by lia. reflexivity.
Qed.

Lemma firstn_skipn_len {A} (n : nat) (v : list A) : skipn (length (firstn n v)) v = skipn n v.
Proof.
  rewrite firstn_length. destruct (Nat.le_ge_cases n (length v)) as [H|H].
  - rewrite Nat.min_l by lia. reflexivity.
  - rewrite Nat.min_r by lia. rewrite !skipn_all2 by lia. reflexivity.
Qed.

Lemma skipn_skipn_add {A} (a b : nat) (l : list A) : skipn a (skipn b l) = skipn (b + a) l.
Proof.
  revert l. induction b as [|b IH]; intros l; cbn [skipn plus].
  - reflexivity.
  - destruct l as [|x l]; [ now rewrite skipn_nil | apply IH ].
Qed.

Lemma xf_run_app emit h a b : xf_run emit h (a ++ b) = xf_run emit h a ++ xf_run emit (h ++ a) b.
Proof.
  revert h. induction a as [|x a IH]; intros h; cbn [xf_run app].
  - now rewrite app_nil_r.
  - rewrite IH, <- !app_assoc. reflexivity.
Qed.

Ltac fin := repeat split; intros; subst; try congruence; cbn [length app] in *; try lia; auto.

(* ---------------------------------------------------------------- the socket *)
Lemma net_read_spec pending n orc d e p' o' :
  net_read pending n orc = ((d, e), p', o') ->
  pending = d ++ p' /\ length d <= n /\ (e <> ENil -> d = []) /\ (e = EEOF -> pending = []) /\
  (e = ENil -> 0 < n -> pending <> [] -> d <> []).
Proof.
  unfold net_read. intros H.
  assert (Hmain : (match pending with
     | [] => (([], EEOF), [], orc)
     | _ =>
       let m := Nat.min n (length pending) in
       if (m =? 0)%nat then (([], ENil), pending, orc)
       else
         let '(k, o') := match orc with Take k :: o' => (Nat.min (Nat.max 1 k) m, o') | _ => (m, []) end in
         ((firstn k pending, ENil), skipn k pending, o')
     end) = ((d, e), p', o') ->
     pending = d ++ p' /\ length d <= n /\ (e <> ENil -> d = []) /\ (e = EEOF -> pending = []) /\
     (e = ENil -> 0 < n -> pending <> [] -> d <> [])).
  { clear H. intros H. destruct pending as [|x p].
    - inversion H; subst. fin.
    - remember (x :: p) as pd eqn:Hpd. cbv zeta in H.
      destruct (Nat.min n (length pd) =? 0)%nat eqn:Hm.
      + inversion H; subst d e p' o'. apply Nat.eqb_eq in Hm. repeat split; intros; try congruence; try (cbn [length]; lia).
        subst pd. cbn [length] in Hm. lia.
      + apply Nat.eqb_neq in Hm.
        assert (Hk : forall k, 1 <= k <= Nat.min n (length pd) ->
                     forall oo, ((firstn k pd, ENil), skipn k pd, oo) = ((d, e), p', o') ->
                     pd = d ++ p' /\ length d <= n /\ (e <> ENil -> d = []) /\ (e = EEOF -> pd = []) /\
                     (e = ENil -> 0 < n -> pd <> [] -> d <> [])).
        { intros k Hk oo E. inversion E; subst d e p' o'. repeat split.
          - symmetry. apply firstn_skipn.
          - rewrite firstn_length. lia.
          - intros C. now contradiction C.
          - discriminate.
          - intros _ _ _ C. apply (f_equal (@length _)) in C. rewrite firstn_length in C. cbn [length] in C. lia. }
        destruct orc as [|[k|] o2].
        * apply (Hk (Nat.min n (length pd)) ltac:(lia) _ H).
        * apply (Hk (Nat.min (Nat.max 1 k) (Nat.min n (length pd))) ltac:(lia) _ H).
        * apply (Hk (Nat.min n (length pd)) ltac:(lia) _ H). }
  destruct orc as [|[k|] o2].
  - apply Hmain, H.
  - apply Hmain, H.
  - inversion H; subst. fin.
Qed.

(* ---------------------------------------------------------------- invariants of a stack *)
(* no Connection of the stack is in matching mode (handlers run outside matching) *)
Fixpoint notm (r : rd) : Prop :=
  match r with
  | Net _ => True
  | L4 c i => matching c = false /\ notm i
  | Bufio _ _ i | TeeW i _ | Thr _ i | Xf _ _ _ _ i => notm i
  end.

(* cx.offset <= len(cx.buf) in every Connection of the stack *)
Fixpoint wfr (r : rd) : Prop :=
  match r with
  | Net _ => True
  | L4 c i => offset c <= length (buf c) /\ wfr i
  | Bufio _ _ i | TeeW i _ | Thr _ i | Xf _ _ _ _ i => wfr i
  end.

Ltac inv H := inversion H; subst; clear H.

(* every layer returns at most len(p) bytes, and data or an error, never both *)
Lemma read_basic : forall r n orc d e r' o',
  read r n orc = ((d, e), r', o') -> length d <= n /\ (e <> ENil -> d = []).
Proof.
  induction r as [p | c i IH | held sz i IH | i IH sink | burst i IH | emit hist out xsz i IH];
    intros n orc d e r' o' H; cbn [read] in H.
  - destruct (net_read p n orc) as [[[d0 e0] p0] o0] eqn:E. inv H.
    apply net_read_spec in E. tauto.
  - destruct (matching c && ((length (buf c) =? 0) || (length (buf c) =? offset c)))%bool.
    { inv H. split; [cbn; lia | reflexivity]. }
    destruct ((0 <? length (buf c)) && (offset c <? length (buf c)))%bool.
    { destruct (negb (matching c) && (offset c + length (firstn n (skipn (offset c) (buf c))) =? length (buf c)))%bool;
        inv H; (split; [ rewrite firstn_length; lia | intros C; now contradiction C ]). }
    destruct (read i n orc) as [[[d0 e0] i0] o0] eqn:E. inv H. eapply IH; eauto.
  - destruct (n =? 0)%nat. { inv H. split; [cbn; lia | reflexivity]. }
    destruct held as [|h held].
    + destruct (sz <=? n)%nat.
      * destruct (read i n orc) as [[[d0 e0] i0] o0] eqn:E. inv H. eapply IH; eauto.
      * destruct (read i sz orc) as [[[d0 e0] i0] o0] eqn:E.
        destruct d0 as [|x d0].
        -- inv H. split; [cbn; lia | reflexivity].
        -- inv H. split; [ rewrite firstn_length; lia | intros C; now contradiction C ].
    + inv H. split; [ rewrite firstn_length; lia | intros C; now contradiction C ].
  - destruct (read i n orc) as [[[d0 e0] i0] o0] eqn:E. inv H. eapply IH; eauto.
  - destruct (read i (Nat.min n burst) orc) as [[[d0 e0] i0] o0] eqn:E. inv H.
    apply IH in E. split; [lia | tauto].
  - destruct out as [|x out].
    + destruct (read i xsz orc) as [[[d0 e0] i0] o0] eqn:E.
      destruct d0 as [|y d0].
      * inv H. split; [cbn; lia | reflexivity].
      * inv H. split; [ rewrite firstn_length; lia | intros C; now contradiction C ].
    + inv H. split; [ rewrite firstn_length; lia | intros C; now contradiction C ].
Qed.

Lemma read_data_xor_err r n orc d e r' o' :
  read r n orc = ((d, e), r', o') -> e <> ENil -> d = [].
Proof. intros H. apply read_basic in H. tauto. Qed.

(* ---------------------------------------------------------------- read_stream *)
(* Outside matching a Read that returns d leaves exactly the rest of the stream; EOF is only
   reported when nothing is left. *)
Lemma read_stream : forall r n orc d e r' o',
  notm r -> wfr r ->
  read r n orc = ((d, e), r', o') ->
  stream_of r = d ++ stream_of r' /\ notm r' /\ wfr r' /\ (e = EEOF -> stream_of r = []).
Proof.
  induction r as [p | c i IH | held sz i IH | i IH sink | burst i IH | emit hist out xsz i IH];
    intros n orc d e r' o' Hm Hw H; cbn [read] in H.
  - destruct (net_read p n orc) as [[[d0 e0] p0] o0] eqn:E. inv H.
    apply net_read_spec in E. cbn. repeat split; try tauto.
  - cbn [notm wfr] in Hm, Hw. destruct Hm as [Hm Hmi]. destruct Hw as [Hw Hwi].
    rewrite Hm in H. cbn [andb negb] in H.
    destruct ((0 <? length (buf c)) && (offset c <? length (buf c)))%bool eqn:Hc.
    + apply andb_prop in Hc. destruct Hc as [H0 H1].
      apply Nat.ltb_lt in H0, H1.
      set (v := skipn (offset c) (buf c)) in *.
      assert (Hlen : length v = length (buf c) - offset c) by (unfold v; now rewrite skipn_length).
      destruct (offset c + length (firstn n v) =? length (buf c))%nat eqn:Hd.
      * inv H. apply Nat.eqb_eq in Hd. rewrite firstn_length in Hd.
        cbn [stream_of notm wfr buf offset matching length skipn].
        assert (Hall : firstn n v = v) by (apply firstn_all2; lia).
        rewrite Hall. cbn [app]. repeat split; auto; try discriminate; try lia.
      * inv H. cbn [stream_of notm wfr buf offset matching].
        apply Nat.eqb_neq in Hd. rewrite firstn_length in Hd |- *.
        repeat split; auto; try discriminate; try lia.
        pose proof (firstn_skipn_len n v) as E. rewrite firstn_length in E.
        assert (Hv : v = firstn n v ++ skipn (offset c + Nat.min n (length v)) (buf c)).
        { replace (skipn (offset c + Nat.min n (length v)) (buf c)) with (skipn (Nat.min n (length v)) v)
            by (unfold v; apply skipn_skipn_add).
          rewrite E. symmetry. apply firstn_skipn. }
        change (skipn (offset c) (buf c)) with v.
        rewrite app_assoc. f_equal. exact Hv.
    + destruct (read i n orc) as [[[d0 e0] i0] o0] eqn:E. inv H.
      destruct (IH _ _ _ _ _ _ Hmi Hwi E) as (Hs & Hm' & Hw' & He).
      assert (Hv : skipn (offset c) (buf c) = []).
      { apply skipn_all2. apply andb_false_iff in Hc.
        destruct Hc as [Hc|Hc]; apply Nat.ltb_ge in Hc; lia. }
      cbn [stream_of notm wfr]. rewrite Hv. cbn [app].
      repeat split; auto.
  - cbn [notm wfr] in Hm, Hw.
    destruct (n =? 0)%nat. { inv H. cbn. repeat split; auto; discriminate. }
    destruct held as [|h held].
    + destruct (sz <=? n)%nat.
      * destruct (read i n orc) as [[[d0 e0] i0] o0] eqn:E. inv H.
        destruct (IH _ _ _ _ _ _ Hm Hw E) as (Hs & Hm' & Hw' & He).
        cbn [stream_of notm wfr app]. repeat split; auto.
      * destruct (read i sz orc) as [[[d0 e0] i0] o0] eqn:E.
        destruct (IH _ _ _ _ _ _ Hm Hw E) as (Hs & Hm' & Hw' & He).
        destruct d0 as [|x d0].
        -- inv H. cbn [stream_of notm wfr app]. repeat split; auto.
        -- inv H. cbn [stream_of notm wfr]. repeat split; auto; try discriminate.
           cbn [app] in Hs |- *. rewrite Hs. rewrite app_assoc.
           rewrite (firstn_skipn n (x :: d0)). reflexivity.
    + inv H. cbn [stream_of notm wfr]. repeat split; auto; try discriminate.
      rewrite app_assoc. f_equal. symmetry. apply firstn_skipn.
  - cbn [notm wfr] in Hm, Hw.
    destruct (read i n orc) as [[[d0 e0] i0] o0] eqn:E. inv H.
    destruct (IH _ _ _ _ _ _ Hm Hw E) as (Hs & Hm' & Hw' & He).
    cbn [stream_of notm wfr]. repeat split; auto.
  - cbn [notm wfr] in Hm, Hw.
    destruct (read i (Nat.min n burst) orc) as [[[d0 e0] i0] o0] eqn:E. inv H.
    destruct (IH _ _ _ _ _ _ Hm Hw E) as (Hs & Hm' & Hw' & He).
    cbn [stream_of notm wfr]. repeat split; auto.
  - cbn [notm wfr] in Hm, Hw.
    destruct out as [|x out].
    + destruct (read i xsz orc) as [[[d0 e0] i0] o0] eqn:E.
      destruct (IH _ _ _ _ _ _ Hm Hw E) as (Hs & Hm' & Hw' & He).
      destruct d0 as [|y d0].
      * inv H. cbn [stream_of notm wfr app] in *. rewrite Hs. repeat split; auto.
        intros C. rewrite (He C) in Hs. rewrite <- Hs. reflexivity.
      * inv H. cbn [stream_of notm wfr]. repeat split; auto; try discriminate.
        cbn [app]. rewrite Hs, xf_run_app, app_assoc. f_equal.
        symmetry. apply firstn_skipn.
    + inv H. cbn [stream_of notm wfr]. repeat split; auto; try discriminate.
      rewrite app_assoc. f_equal. symmetry. apply firstn_skipn.
Qed.

(* a handler performing any sequence of reads obtains a prefix of the stream, and all of it if
   it reads until EOF *)
Lemma reads_stream : forall ns r orc ds e r' o',
  notm r -> wfr r ->
  reads r ns orc = (ds, e, r', o') ->
  stream_of r = ds ++ stream_of r' /\ notm r' /\ wfr r' /\ (e = EEOF -> stream_of r' = []).
Proof.
  induction ns as [|n ns IH]; intros r orc ds e r' o' Hm Hw H; cbn [reads] in H.
  - inv H. cbn [app]. repeat split; auto; discriminate.
  - destruct (read r n orc) as [[[d e1] r1] o1] eqn:E.
    destruct (read_stream _ _ _ _ _ _ _ Hm Hw E) as (Hs & Hm1 & Hw1 & He1).
    pose proof (read_data_xor_err _ _ _ _ _ _ _ E) as Hx.
    destruct e1.
    + destruct (reads r1 ns o1) as [[[ds2 e2] r2] o2] eqn:E2. inv H.
      destruct (IH _ _ _ _ _ _ Hm1 Hw1 E2) as (Hs2 & Hm2 & Hw2 & He2).
      rewrite Hs, Hs2, app_assoc. repeat split; auto.
    + inv H. repeat split; auto. intros _. rewrite (He1 eq_refl) in Hs.
      rewrite (Hx ltac:(discriminate)) in Hs. cbn [app] in Hs. now rewrite <- Hs.
    + inv H. repeat split; auto; discriminate.
    + inv H. repeat split; auto; discriminate.
    + inv H. repeat split; auto; discriminate.
Qed.

Lemma reads_to_eof r ns orc ds r' o' :
  notm r -> wfr r -> reads r ns orc = (ds, EEOF, r', o') -> ds = stream_of r.
Proof.
  intros Hm Hw H. destruct (reads_stream _ _ _ _ _ _ _ Hm Hw H) as (Hs & _ & _ & He).
  rewrite Hs, (He eq_refl), app_nil_r. reflexivity.
Qed.

(* ---------------------------------------------------------------- matching mode is a view *)
Definition view (c : cstate) : list byte := skipn (offset c) (buf c).

(* what a matcher observes, as a function of the prefetched bytes alone *)
Fixpoint spec_ops (ops : list mop) (v : list byte) : list obs :=
  match ops with
  | [] => []
  | MRead n :: ops' =>
      match v with
      | [] => ORead [] EConsumed :: spec_ops ops' v
      | _ => ORead (firstn n v) ENil :: spec_ops ops' (skipn n v)
      end
  | MPeek :: ops' => OPeek (Some v) :: spec_ops ops' v
  end.

Fixpoint spec_matcher (m : matcher) (v : list byte) {struct m} : list obs :=
  match m with
  | MPlain ops => spec_ops ops v
  | MNot ss => spec_sets ss v
  end
with spec_sets (ss : msets) (v : list byte) {struct ss} : list obs :=
  match ss with
  | SNil => []
  | SCons s ss' => spec_set s v ++ spec_sets ss' v
  end
with spec_set (ms : mset) (v : list byte) {struct ms} : list obs :=
  match ms with
  | MNil => []
  | MCons m ms' => spec_matcher m v ++ spec_set ms' v
  end.

Lemma read_matching c inner n orc :
  matching c = true -> offset c <= length (buf c) ->
  read (L4 c inner) n orc =
    match view c with
    | [] => (([], EConsumed), L4 c inner, orc)
    | _ => ((firstn n (view c), ENil),
            L4 (mkC (buf c) (bcap c) (offset c + length (firstn n (view c))) (frozen c) true) inner, orc)
    end.
Proof.
  intros Hm Hw. cbn [read]. rewrite Hm. cbn [andb negb]. unfold view.
  assert (Hl : length (skipn (offset c) (buf c)) = length (buf c) - offset c) by apply skipn_length.
  destruct ((length (buf c) =? 0) || (length (buf c) =? offset c))%bool eqn:Hc.
  - assert (Hv : skipn (offset c) (buf c) = []).
    { apply skipn_all2. apply orb_prop in Hc. destruct Hc as [Hc|Hc]; apply Nat.eqb_eq in Hc; lia. }
    rewrite Hv. reflexivity.
  - apply orb_false_iff in Hc. destruct Hc as [H0 H1]. apply Nat.eqb_neq in H0, H1.
    assert (Hlt : ((0 <? length (buf c)) && (offset c <? length (buf c)))%bool = true).
    { apply andb_true_intro. split; apply Nat.ltb_lt; lia. }
    rewrite Hlt.
    destruct (skipn (offset c) (buf c)) as [|x v] eqn:Hv.
    + cbn [length] in Hl. lia.
    + cbn [negb andb]. reflexivity.
Qed.

Lemma run_ops_matching : forall ops c inner orc,
  matching c = true -> offset c <= length (buf c) ->
  exists c', run_ops ops (L4 c inner) orc = (spec_ops ops (view c), L4 c' inner, orc) /\
    buf c' = buf c /\ bcap c' = bcap c /\ frozen c' = frozen c /\ matching c' = true /\
    offset c <= offset c' <= length (buf c).
Proof.
  induction ops as [|op ops IH]; intros c inner orc Hm Hw.
  - exists c. cbn. repeat split; auto; lia.
  - destruct op as [n|].
    + cbn [run_ops spec_ops]. rewrite (read_matching _ _ _ _ Hm Hw).
      destruct (view c) as [|x v] eqn:Hv.
      * destruct (IH c inner orc Hm Hw) as (c' & E & R). rewrite E, Hv.
        exists c'. split; [reflexivity | exact R].
      * set (d := firstn n (x :: v)).
        set (c2 := mkC (buf c) (bcap c) (offset c + length d) (frozen c) true).
        assert (Hl : length (view c) = length (buf c) - offset c) by apply skipn_length.
        assert (Hd : length d <= length (view c)).
        { unfold d. rewrite Hv, firstn_length. lia. }
        assert (Hw2 : offset c2 <= length (buf c2)) by (cbn; lia).
        destruct (IH c2 inner orc eq_refl Hw2) as (c' & E & Hb & Hcap & Hf & Hmm & Ho).
        rewrite E.
        assert (Hview : view c2 = skipn n (x :: v)).
        { unfold view, c2. cbn [buf offset]. rewrite <- skipn_skipn_add. fold (view c). rewrite Hv.
          unfold d. apply firstn_skipn_len. }
        rewrite Hview. exists c'. unfold c2 in *. cbn [buf bcap frozen offset] in *. repeat split; auto; lia.
    + cbn [run_ops spec_ops]. destruct (IH c inner orc Hm Hw) as (c' & E & R). rewrite E.
      exists c'. split; [| exact R].
      cbn [matching_bytes]. replace (offset c <=? length (buf c)) with true by (symmetry; apply Nat.leb_le; lia).
      reflexivity.
Qed.

Scheme matcher_mut := Induction for matcher Sort Prop
  with msets_mut := Induction for msets Sort Prop
  with mset_mut := Induction for mset Sort Prop.
Combined Scheme matcher_mutind from matcher_mut, msets_mut, mset_mut.

(* the state MatcherSet.Match leaves behind: everything as before, frozenOffset = offset *)
Definition rewound (c : cstate) : cstate := mkC (buf c) (bcap c) (offset c) (offset c) false.

Lemma matching_tree :
  (forall m c inner orc, matching c = true -> frozen c = offset c -> offset c <= length (buf c) ->
     exists c', run_matcher m (L4 c inner) orc = (spec_matcher m (view c), L4 c' inner, orc) /\
       buf c' = buf c /\ bcap c' = bcap c /\ frozen c' = offset c) /\
  (forall ss c inner orc, offset c <= length (buf c) ->
     exists c', run_sets ss (L4 c inner) orc = (spec_sets ss (view c), L4 c' inner, orc) /\
       (c' = c \/ c' = rewound c)) /\
  (forall ms c inner orc, offset c <= length (buf c) ->
     exists c', run_set ms (L4 c inner) orc = (spec_set ms (view c), L4 c' inner, orc) /\
       (c' = c \/ c' = rewound c) /\ (ms <> MNil -> c' = rewound c)).
Proof.
  apply matcher_mutind.
  - (* MPlain *) intros ops c inner orc Hm Hf Hw. cbn [run_matcher spec_matcher].
    destruct (run_ops_matching ops c inner orc Hm Hw) as (c' & E & Hb & Hc & Hfr & _ & _).
    exists c'. rewrite E. repeat split; auto. congruence.
  - (* MNot *) intros ss IH c inner orc Hm Hf Hw. cbn [run_matcher spec_matcher].
    destruct (IH c inner orc Hw) as (c' & E & [Hc|Hc]); exists c'; rewrite E; subst c'; cbn; auto.
  - (* SNil *) intros c inner orc Hw. exists c. cbn. auto.
  - (* SCons *) intros s IHs ss IHss c inner orc Hw. cbn [run_sets spec_sets].
    destruct (IHs c inner orc Hw) as (c1 & E1 & Hc1 & _). rewrite E1.
    assert (Hw1 : offset c1 <= length (buf c1)) by (destruct Hc1; subst c1; cbn; auto).
    assert (Hv1 : view c1 = view c) by (destruct Hc1; subst c1; reflexivity).
    destruct (IHss c1 inner orc Hw1) as (c2 & E2 & Hc2). rewrite E2, Hv1.
    exists c2. split; [reflexivity|].
    destruct Hc1, Hc2; subst; auto.
  - (* MNil *) intros c inner orc Hw. exists c. cbn. repeat split; auto. congruence.
  - (* MCons *) intros m IHm ms IHms c inner orc Hw. cbn [run_set spec_set freeze].
    destruct (IHm (freeze_c c) inner orc eq_refl eq_refl Hw) as (c1 & E1 & Hb & Hcap & Hfr).
    rewrite E1. cbn [unfreeze].
    assert (Hu : unfreeze_c c1 = rewound c).
    { unfold unfreeze_c, rewound. cbn [buf bcap offset frozen freeze_c] in *. rewrite Hb, Hcap, Hfr. reflexivity. }
    rewrite Hu.
    destruct (IHms (rewound c) inner orc Hw) as (c2 & E2 & Hc2 & _). rewrite E2.
    exists c2. change (view (freeze_c c)) with (view c). change (view (rewound c)) with (view c).
    split; [reflexivity|].
    assert (c2 = rewound c) by (destruct Hc2; subst; reflexivity).
    subst c2. auto.
Qed.

(* MatcherSet.Match on a Connection: observations are a function of the prefetched bytes, the
   reader below and the schedule are untouched, the cursor is restored *)
Lemma run_set_view ms c inner orc :
  offset c <= length (buf c) ->
  exists c', run_set ms (L4 c inner) orc = (spec_set ms (view c), L4 c' inner, orc) /\
    (c' = c \/ c' = rewound c).
Proof.
  intros Hw. destruct matching_tree as (_ & _ & H).
  destruct (H ms c inner orc Hw) as (c' & E & Hc & _). eauto.
Qed.

Lemma run_sets_view ss c inner orc :
  offset c <= length (buf c) ->
  exists c', run_sets ss (L4 c inner) orc = (spec_sets ss (view c), L4 c' inner, orc) /\
    (c' = c \/ c' = rewound c).
Proof. intros Hw. destruct matching_tree as (_ & H & _). apply H, Hw. Qed.

Lemma rewound_stream c inner : stream_of (L4 (rewound c) inner) = stream_of (L4 c inner).
Proof. reflexivity. Qed.

(* ---------------------------------------------------------------- prefetch *)
Lemma prefetch_spec c i newcap orc e r' o' :
  notm i -> wfr i ->
  prefetch (L4 c i) newcap orc = (e, r', o') ->
  exists c' i' d, r' = L4 c' i' /\ buf c' = buf c ++ d /\ length d <= CHUNKn /\
    offset c' = offset c /\ frozen c' = frozen c /\ matching c' = matching c /\
    stream_of i = d ++ stream_of i' /\ notm i' /\ wfr i' /\
    (MAXn <= length (buf c) -> d = [] /\ e = EFull /\ i' = i /\ o' = orc) /\
    (length (buf c) < MAXn -> e <> EFull) /\
    (length (buf c) <= bcap c -> length (buf c') <= bcap c').
Proof.
  intros Hm Hw H. cbn [prefetch] in H.
  destruct (length (buf c) <? MAXn) eqn:Hlt.
  - apply Nat.ltb_lt in Hlt.
    destruct (read i CHUNKn orc) as [[[d e0] i0] o0] eqn:E.
    destruct (read_stream _ _ _ _ _ _ _ Hm Hw E) as (Hs & Hm' & Hw' & He).
    destruct (read_basic _ _ _ _ _ _ _ E) as (Hlen & Hx).
    assert (Hne : e0 <> EFull).
    { clear -E. intros C. subst e0. revert orc d i0 o0 E.
      generalize CHUNKn as n.
      induction i as [p | c i IH | held sz i IH | i IH sink | burst i IH | emit hist out xsz i IH];
        intros n orc d i0 o0 E; cbn [read] in E.
      - unfold net_read in E. destruct orc as [|[k|] o2]; destruct p as [|x p]; try discriminate;
          try (destruct (Nat.min n (length (x :: p)) =? 0); discriminate).
      - destruct (matching c && ((length (buf c) =? 0) || (length (buf c) =? offset c)))%bool; [discriminate|].
        destruct ((0 <? length (buf c)) && (offset c <? length (buf c)))%bool.
        + destruct (negb (matching c) && (offset c + length (firstn n (skipn (offset c) (buf c))) =? length (buf c)))%bool; discriminate.
        + destruct (read i n orc) as [[[d1 e1] i1] o1] eqn:E1. inv E. eapply IH; eauto.
      - destruct (n =? 0); [discriminate|]. destruct held.
        + destruct (sz <=? n).
          * destruct (read i n orc) as [[[d1 e1] i1] o1] eqn:E1. inv E. eapply IH; eauto.
          * destruct (read i sz orc) as [[[d1 e1] i1] o1] eqn:E1. destruct d1; inv E. eapply IH; eauto.
        + discriminate.
      - destruct (read i n orc) as [[[d1 e1] i1] o1] eqn:E1. inv E. eapply IH; eauto.
      - destruct (read i (Nat.min n burst) orc) as [[[d1 e1] i1] o1] eqn:E1. inv E. eapply IH; eauto.
      - destruct out.
        + destruct (read i xsz orc) as [[[d1 e1] i1] o1] eqn:E1. destruct d1; inv E. eapply IH; eauto.
        + discriminate. }
    destruct (CHUNKn <=? bcap c - length (buf c)) eqn:Hfree.
    + inv H. apply Nat.leb_le in Hfree.
      eexists _, i0, d. cbn [buf bcap offset frozen matching].
      repeat split; auto; intros; cbn [buf bcap offset frozen matching]; try rewrite app_length; try lia.
    + inv H.
      eexists _, i0, d. cbn [buf bcap offset frozen matching].
      repeat split; auto; intros; cbn [buf bcap offset frozen matching]; try rewrite app_length; try lia.
      destruct (length (buf c) + length d <=? bcap c) eqn:Hc; [apply Nat.leb_le in Hc|]; lia.
  - apply Nat.ltb_ge in Hlt. inv H.
    exists c, i, []. rewrite app_nil_r. cbn [length app].
    repeat split; auto; try lia.
Qed.

Lemma prefetch_preserves_stream c i newcap orc e r' o' :
  notm i -> wfr i -> offset c <= length (buf c) ->
  prefetch (L4 c i) newcap orc = (e, r', o') ->
  stream_of r' = stream_of (L4 c i) /\ wfr r' /\ (matching c = false -> notm r').
Proof.
  intros Hm Hw Ho H.
  destruct (prefetch_spec _ _ _ _ _ _ _ Hm Hw H)
    as (c' & i' & d & -> & Hb & Hl & Hoff & Hfr & Hmt & Hs & Hm' & Hw' & _).
  cbn [stream_of wfr notm]. rewrite Hb, Hoff, Hs, skipn_app_le, app_assoc by lia.
  repeat split; auto.
  - rewrite app_length. lia.
  - congruence.
Qed.

(* len(buf) <= MaxMatchingBytes - 1 + prefetchChunkSize, whatever the schedule *)
Lemma prefetch_buffer_bound c i newcap orc e c' i' o' :
  notm i -> wfr i ->
  prefetch (L4 c i) newcap orc = (e, L4 c' i', o') ->
  (Z.of_nat (length (buf c')) <=
   Z.max (Z.of_nat (length (buf c))) (layer4_MaxMatchingBytes - 1 + layer4_prefetchChunkSize))%Z.
Proof.
  intros Hm Hw H.
  destruct (prefetch_spec _ _ _ _ _ _ _ Hm Hw H)
    as (c2 & i2 & d & E & Hb & Hl & _ & _ & _ & _ & _ & _ & Hfull & _).
  inv E. rewrite Hb, app_length.
  pose proof MAXn_Z. pose proof CHUNKn_Z. pose proof consts_ok.
  destruct (Nat.le_gt_cases MAXn (length (buf c))) as [Hge|Hlt].
  - destruct (Hfull Hge) as (-> & _). cbn [length]. lia.
  - lia.
Qed.

(* ---------------------------------------------------------------- Wrap *)
Lemma wrap_stream c conn : stream_of (wrap c conn) = stream_of conn.
Proof. reflexivity. Qed.

Lemma wrap_inv c conn : matching c = false -> notm conn -> wfr conn -> notm (wrap c conn) /\ wfr (wrap c conn).
Proof. intros. cbn. auto. Qed.

(* ---------------------------------------------------------------- TeeReader *)
(* bytes already copied to the pipe ++ bytes still to come through the tee: constant *)
Fixpoint tee_total (r : rd) : option (list byte) :=
  match r with
  | TeeW i s => Some (s ++ stream_of i)
  | L4 _ i | Bufio _ _ i | Thr _ i | Xf _ _ _ _ i => tee_total i
  | Net _ => None
  end.

Fixpoint top_sink (r : rd) : option (list byte) :=
  match r with
  | TeeW _ s => Some s
  | L4 _ i | Bufio _ _ i | Thr _ i | Xf _ _ _ _ i => top_sink i
  | Net _ => None
  end.

(* only Connections, bufio readers and throttles above the first TeeReader *)
Fixpoint plain_above_tee (r : rd) : Prop :=
  match r with
  | TeeW _ _ => True
  | L4 _ i | Bufio _ _ i | Thr _ i => plain_above_tee i
  | Xf _ _ _ _ _ | Net _ => False
  end.

Lemma read_tee_total : forall r n orc d e r' o',
  notm r -> wfr r -> read r n orc = ((d, e), r', o') ->
  tee_total r' = tee_total r /\ (plain_above_tee r -> plain_above_tee r').
Proof.
  induction r as [p | c i IH | held sz i IH | i IH sink | burst i IH | emit hist out xsz i IH];
    intros n orc d e r' o' Hm Hw H; cbn [read] in H.
  - destruct (net_read p n orc) as [[[d0 e0] p0] o0]. inv H. cbn. auto.
  - cbn [notm wfr] in Hm, Hw. destruct Hm as [Hm Hmi]. destruct Hw as [Hw Hwi].
    destruct (matching c && ((length (buf c) =? 0) || (length (buf c) =? offset c)))%bool. { inv H. auto. }
    destruct ((0 <? length (buf c)) && (offset c <? length (buf c)))%bool.
    { destruct (negb (matching c) && (offset c + length (firstn n (skipn (offset c) (buf c))) =? length (buf c)))%bool;
        inv H; cbn; auto. }
    destruct (read i n orc) as [[[d0 e0] i0] o0] eqn:E. inv H. cbn. eapply IH; eauto.
  - cbn [notm wfr] in Hm, Hw.
    destruct (n =? 0). { inv H. auto. }
    destruct held.
    + destruct (sz <=? n).
      * destruct (read i n orc) as [[[d0 e0] i0] o0] eqn:E. inv H. cbn. eapply IH; eauto.
      * destruct (read i sz orc) as [[[d0 e0] i0] o0] eqn:E. destruct d0; inv H; cbn; eapply IH; eauto.
    + inv H. cbn. auto.
  - cbn [notm wfr] in Hm, Hw.
    destruct (read i n orc) as [[[d0 e0] i0] o0] eqn:E. inv H.
    destruct (read_stream _ _ _ _ _ _ _ Hm Hw E) as (Hs & _).
    cbn. rewrite Hs, app_assoc. auto.
  - cbn [notm wfr] in Hm, Hw.
    destruct (read i (Nat.min n burst) orc) as [[[d0 e0] i0] o0] eqn:E. inv H. cbn. eapply IH; eauto.
  - cbn [notm wfr] in Hm, Hw. destruct out.
    + destruct (read i xsz orc) as [[[d0 e0] i0] o0] eqn:E. destruct d0; inv H; cbn; split; try tauto; eapply IH; eauto.
    + inv H. cbn. auto.
Qed.

Lemma reads_tee_total : forall ns r orc ds e r' o',
  notm r -> wfr r -> reads r ns orc = (ds, e, r', o') ->
  tee_total r' = tee_total r /\ (plain_above_tee r -> plain_above_tee r').
Proof.
  induction ns as [|n ns IH]; intros r orc ds e r' o' Hm Hw H; cbn [reads] in H.
  - inv H. auto.
  - destruct (read r n orc) as [[[d e1] r1] o1] eqn:E.
    destruct (read_stream _ _ _ _ _ _ _ Hm Hw E) as (_ & Hm1 & Hw1 & _).
    destruct (read_tee_total _ _ _ _ _ _ _ Hm Hw E) as (Ht & Hp).
    destruct e1; try (inv H; auto; fail).
    destruct (reads r1 ns o1) as [[[ds2 e2] r2] o2] eqn:E2. inv H.
    destruct (IH _ _ _ _ _ _ Hm1 Hw1 E2) as (Ht2 & Hp2). split; [congruence | auto].
Qed.

(* once the main chain has drained its reader, the pipe has received exactly tee_total *)
Lemma drained_sink : forall r, plain_above_tee r -> stream_of r = [] -> top_sink r = tee_total r.
Proof.
  induction r as [p | c i IH | held sz i IH | i IH sink | burst i IH | emit hist out xsz i IH];
    cbn [plain_above_tee stream_of top_sink tee_total]; intros Hp Hs; try contradiction.
  - apply app_eq_nil in Hs. apply IH; tauto.
  - apply app_eq_nil in Hs. apply IH; tauto.
  - rewrite Hs, app_nil_r. reflexivity.
  - auto.
Qed.

(* ---------------------------------------------------------------- determinism of matching (C06, Connection level) *)
Lemma run_set_deterministic ms c1 i1 o1 c2 i2 o2 :
  offset c1 <= length (buf c1) -> offset c2 <= length (buf c2) -> view c1 = view c2 ->
  fst (fst (run_set ms (L4 c1 i1) o1)) = fst (fst (run_set ms (L4 c2 i2) o2)).
Proof.
  intros H1 H2 Hv.
  destruct (run_set_view ms c1 i1 o1 H1) as (c1' & E1 & _).
  destruct (run_set_view ms c2 i2 o2 H2) as (c2' & E2 & _).
  rewrite E1, E2. cbn [fst]. now rewrite Hv.
Qed.

Lemma run_set_repeatable ms c i orc :
  offset c <= length (buf c) ->
  exists obs c1 c2, run_set ms (L4 c i) orc = (obs, L4 c1 i, orc) /\
    run_set ms (L4 c1 i) orc = (obs, L4 c2 i, orc) /\
    stream_of (L4 c2 i) = stream_of (L4 c i).
Proof.
  intros Hw. destruct (run_set_view ms c i orc Hw) as (c1 & E1 & Hc1).
  assert (Hw1 : offset c1 <= length (buf c1)) by (destruct Hc1; subst; cbn; auto).
  assert (Hv1 : view c1 = view c) by (destruct Hc1; subst; reflexivity).
  destruct (run_set_view ms c1 i orc Hw1) as (c2 & E2 & Hc2).
  exists (spec_set ms (view c)), c1, c2. rewrite E1, E2, Hv1. repeat split; auto.
  destruct Hc1, Hc2; subst; reflexivity.
Qed.

(* the bytes still in the socket are untouched by matching *)
Lemma run_sets_network ss c i orc :
  offset c <= length (buf c) ->
  exists obs c', run_sets ss (L4 c i) orc = (obs, L4 c' i, orc) /\
    net_pending (L4 c' i) = net_pending (L4 c i) /\ stream_of (L4 c' i) = stream_of (L4 c i).
Proof.
  intros Hw. destruct (run_sets_view ss c i orc Hw) as (c' & E & Hc).
  exists (spec_sets ss (view c)), c'. split; [exact E|]. split; [reflexivity|].
  destruct Hc; subst; reflexivity.
Qed.

Lemma prefetch_tee_total c i nc orc e r' o' :
  notm i -> wfr i -> prefetch (L4 c i) nc orc = (e, r', o') ->
  tee_total r' = tee_total (L4 c i) /\ (plain_above_tee (L4 c i) -> plain_above_tee r').
Proof.
  intros Hm Hw H. cbn [prefetch] in H.
  destruct (length (buf c) <? MAXn).
  - destruct (read i CHUNKn orc) as [[[d e0] i0] o0] eqn:E.
    destruct (read_tee_total _ _ _ _ _ _ _ Hm Hw E) as (Ht & Hp).
    destruct (CHUNKn <=? bcap c - length (buf c)); inv H; cbn [tee_total plain_above_tee]; auto.
  - inv H. auto.
Qed.

(* ---------------------------------------------------------------- the reachable-state invariant *)
(* offset <= len(buf) in every Connection of a stack ([wfr]) is preserved by everything the real
   code does with a Connection: Read outside matching (read_stream), prefetch
   (prefetch_preserves_stream), Wrap (wrap_inv) and MatcherSet.Match / MatcherSets.AnyMatch with
   any nesting of `not` (below).  freeze/unfreeze are only ever called in those patterns, so a
   state with offset > len(buf) -- in which a matching-mode Read would fall through to the
   socket -- is unreachable; the lock-step generator stays inside these patterns. *)
Lemma run_set_wf ms c i orc seen r' o' :
  offset c <= length (buf c) -> wfr i ->
  run_set ms (L4 c i) orc = (seen, r', o') -> wfr r'.
Proof.
  intros Hw Hwi H. destruct (run_set_view ms c i orc Hw) as (c' & E & Hc).
  rewrite E in H. inv H. destruct Hc; subst c'; cbn; auto.
Qed.

Lemma run_sets_wf ss c i orc seen r' o' :
  offset c <= length (buf c) -> wfr i ->
  run_sets ss (L4 c i) orc = (seen, r', o') -> wfr r'.
Proof.
  intros Hw Hwi H. destruct (run_sets_view ss c i orc Hw) as (c' & E & Hc).
  rewrite E in H. inv H. destruct Hc; subst c'; cbn; auto.
Qed.
