(* round_robin over a sequence of selections: the run visits exactly the available positions, in
   order, none skipped and none repeated; two visits less than one pool length apart are to
   different upstreams (every available upstream once per cycle).  No uint32 wrap assumed. *)
From Coq Require Import List ZArith NArith Bool Lia Arith Sorted.
From L4.model Require Import Select.
From L4.proofs Require Import SelectProofs.
Import ListNotations.
Open Scope Z_scope.

(* m successive selections: (chosen index, counter afterwards) *)
Fixpoint rr_run (pool : list upstream) (robin : Z) (m : nat) : list (nat * Z) :=
  match m with
  | O => []
  | S m' =>
      match round_robin pool robin with
      | (Sel i, r') => (i, r') :: rr_run pool r' m'
      | _ => []
      end
  end.

Definition last_pos (robin : Z) (run : list (nat * Z)) : Z := last (map snd run) robin.

Lemma last_nonempty_default {A} (l : list A) : forall y d d', last (y :: l) d = last (y :: l) d'.
Proof. induction l as [|z r IH]; intros y d d'; [reflexivity|]. change (last (z :: r) d = last (z :: r) d'). apply IH. Qed.

Lemma last_cons_default {A} (l : list A) : forall x d, last (x :: l) d = last l x.
Proof.
  destruct l as [|y r]; intros x d; [reflexivity|].
  change (last (y :: r) d = last (y :: r) x). apply last_nonempty_default.
Qed.

Lemma rr_run_spec pool : forall m robin,
  (exists u, In u pool /\ available u = true) ->
  0 <= robin -> robin + (Z.of_nat m + 1) * Z.of_nat (length pool) < two32 ->
  let run := rr_run pool robin m in
  length run = m /\
  robin <= last_pos robin run <= robin + Z.of_nat m * Z.of_nat (length pool) /\
  (forall i r, In (i, r) run -> robin < r /\ i = Z.to_nat (r mod Z.of_nat (length pool)) /\ avail_pos pool r = true) /\
  (forall p, robin < p <= last_pos robin run -> avail_pos pool p = true -> In p (map snd run)) /\
  StronglySorted Z.lt (map snd run).
Proof.
  induction m as [|m IH]; intros robin Hex Hr Hw; cbn zeta.
  - cbn [rr_run length map]. unfold last_pos. cbn [map last]. split; [reflexivity|]. split; [lia|].
    split; [intros i r []|]. split; [intros p Hp; lia|constructor].
  - set (n := Z.of_nat (length pool)) in *.
    assert (Hn : 0 < n).
    { destruct Hex as (u & Hin & _). destruct pool; [destruct Hin|]. unfold n. cbn [length]. lia. }
    assert (Hw1 : robin + n < two32) by nia.
    destruct (round_robin_complete pool robin Hr Hw1 Hex) as (i & r' & Hsel).
    destruct (round_robin_next pool robin i r' Hr Hw1 Hsel) as (Hrange & Hi & Hav & Hbetween).
    fold n in Hrange, Hi.
    cbn [rr_run]. rewrite Hsel.
    assert (Hw' : r' + (Z.of_nat m + 1) * n < two32) by nia.
    specialize (IH r' Hex ltac:(lia) Hw'). cbn zeta in IH. fold n in IH.
    destruct IH as (Hlen & Hlast & Hall & Hcov & Hsort).
    assert (Hlp : last_pos robin ((i, r') :: rr_run pool r' m) = last_pos r' (rr_run pool r' m)).
    { unfold last_pos. cbn [map snd]. apply last_cons_default. }
    rewrite Hlp.
    split; [cbn [length]; rewrite Hlen; reflexivity|].
    split; [nia|].
    split.
    { intros j r [Heq|Hin]; [inversion Heq; subst; split; [lia|split; [reflexivity|exact Hav]]|].
      destruct (Hall j r Hin) as (H1 & H2 & H3). split; [lia|split; assumption]. }
    split.
    { intros p Hp Hpa. cbn [map snd]. destruct (Z.lt_trichotomy p r') as [Hlt|[Heq|Hgt]].
      - rewrite Hbetween in Hpa by lia. discriminate.
      - left. symmetry. exact Heq.
      - right. apply Hcov; [lia|exact Hpa]. }
    cbn [map snd]. constructor; [exact Hsort|].
    apply Forall_forall. intros r Hin. apply in_map_iff in Hin. destruct Hin as ([j r0] & Heq & Hin). cbn in Heq. subst r0.
    destruct (Hall j r Hin) as (H1 & _). exact H1.
Qed.

(* two visits whose counters are less than one pool length apart hit different upstreams *)
Lemma rr_distinct_within_cycle (pool : list upstream) i1 r1 i2 r2 :
  0 < Z.of_nat (length pool) -> 0 <= r1 -> r1 < r2 < r1 + Z.of_nat (length pool) ->
  i1 = Z.to_nat (r1 mod Z.of_nat (length pool)) -> i2 = Z.to_nat (r2 mod Z.of_nat (length pool)) -> i1 <> i2.
Proof.
  set (n := Z.of_nat (length pool)). intros Hn Hr1 Hr H1 H2 Heq. subst i1 i2.
  assert (Hm1 := Z.mod_pos_bound r1 n Hn). assert (Hm2 := Z.mod_pos_bound r2 n Hn).
  apply Z2Nat.inj in Heq; [|lia|lia].
  assert (Hd : (r2 - r1) mod n = 0) by (rewrite Zminus_mod, Heq, Z.sub_diag; apply Z.mod_0_l; lia).
  rewrite Z.mod_small in Hd by lia. lia.
Qed.

(* and a visit exactly one pool length later is to the same upstream: the cycle *)
Lemma rr_same_after_cycle (pool : list upstream) r :
  0 < Z.of_nat (length pool) ->
  avail_pos pool (r + Z.of_nat (length pool)) = avail_pos pool r /\
  (r + Z.of_nat (length pool)) mod Z.of_nat (length pool) = r mod Z.of_nat (length pool).
Proof.
  intro Hn. assert (H : (r + Z.of_nat (length pool)) mod Z.of_nat (length pool) = r mod Z.of_nat (length pool)).
  { rewrite <- (Z.mul_1_l (Z.of_nat (length pool))) at 1. apply Z.mod_add. lia. }
  split; [unfold avail_pos; rewrite H; reflexivity|exact H].
Qed.
