(* C15 - lemmas about model/Caddyfile.v: numbers and durations print/parse, the token stream
   of a segment tree parses back to the tree, and the structural theorem: the model of
   layer4/caddyfile.go applied to the printed configuration yields the configuration's JSON,
   for every nesting depth, given the leaf equations. *)
From Coq Require Import List ZArith NArith Bool String Ascii Lia DecimalString DecimalN Decimal.
From L4.model Require Import Caddyfile.
Import ListNotations.
Open Scope string_scope.
Open Scope list_scope.

(* ------------------------------------------------------------------ generic helpers *)
Lemma traverse_map {A B C} (f : B -> option C) (g : A -> B) (h : A -> C) (l : list A) :
  Forall (fun a => f (g a) = Some (h a)) l -> traverse f (map g l) = Some (map h l).
Proof.
  induction 1 as [|a l Ha _ IH]; [reflexivity|].
  cbn [map traverse]. rewrite Ha, IH. reflexivity.
Qed.

Lemma traverse_all {A C} (f : A -> option C) (h : A -> C) (l : list A) :
  Forall (fun a => f a = Some (h a)) l -> traverse f l = Some (map h l).
Proof.
  induction 1 as [|a l Ha _ IH]; [reflexivity|].
  cbn [map traverse]. rewrite Ha, IH. reflexivity.
Qed.

Lemma traverse_app {A B} (f : A -> option B) (l1 l2 : list A) r1 r2 :
  traverse f l1 = Some r1 -> traverse f l2 = Some r2 -> traverse f (l1 ++ l2) = Some (r1 ++ r2).
Proof.
  revert r1. induction l1 as [|a l1 IH]; intros r1 H1 H2.
  - cbn in H1. inversion H1. exact H2.
  - cbn [traverse List.app] in *. destruct (f a); [|discriminate].
    destruct (traverse f l1) eqn:E; [|discriminate]. inversion H1; subst.
    rewrite (IH l eq_refl H2). reflexivity.
Qed.

Lemma forallb_Forall {A} (p : A -> bool) l : forallb p l = true -> Forall (fun a => p a = true) l.
Proof. intro H. apply Forall_forall. now apply forallb_forall. Qed.

(* ------------------------------------------------------------------ decimal numbers *)
Lemma print_N_nonempty n : print_N n <> EmptyString.
Proof.
  unfold print_N. intro H.
  pose proof (NilEmpty.usu (N.to_uint n)) as U. rewrite H in U. cbn in U. inversion U as [E].
  pose proof (DecimalN.Unsigned.of_to n) as O. rewrite <- E in O. cbn in O. subst n. discriminate E.
Qed.

Lemma parse_print_N n : parse_N (print_N n) = Some n.
Proof.
  unfold parse_N. destruct (print_N n) eqn:E; [now apply print_N_nonempty in E|].
  rewrite <- E. unfold print_N. rewrite NilEmpty.usu. cbn. now rewrite DecimalN.Unsigned.of_to.
Qed.

Lemma parse_uint_print bits n : (n <? 2 ^ bits)%N = true -> parse_uint bits (print_N n) = Some n.
Proof. intro H. unfold parse_uint. rewrite parse_print_N. cbn. now rewrite H. Qed.

Lemma span_digits_uint d s :
  (match s with EmptyString => True | String c _ => is_digit c = false end) ->
  span_digits (NilEmpty.string_of_uint d ++ s)%string = (NilEmpty.string_of_uint d, s).
Proof.
  intro Hs. induction d; cbn [NilEmpty.string_of_uint String.append span_digits];
    try (change (is_digit _) with true; cbv iota; rewrite IHd; reflexivity).
  destruct s as [|c r]; [reflexivity|]. cbn [span_digits]. now rewrite Hs.
Qed.

Lemma first_digit n : exists c r, print_N n = String c r /\ is_digit c = true.
Proof.
  pose proof (print_N_nonempty n) as H. unfold print_N in *.
  destruct (N.to_uint n); cbn in *; try congruence; eexists _, _; split; reflexivity.
Qed.

Lemma parse_int_print z : (- 2147483648 <=? z)%Z && (z <? 2147483648)%Z = true ->
  parse_int 32 (print_Z z) = Some z.
Proof.
  intro H. apply andb_true_iff in H. destruct H as [H1 H2].
  apply Z.leb_le in H1. apply Z.ltb_lt in H2.
  assert (Hnn : forall n, (n < 2147483648)%N -> parse_int 32 (print_N n) = Some (Z.of_N n)).
  { intros n Hn. destruct (first_digit n) as (c & r & E & D). unfold parse_int. rewrite E.
    destruct (Ascii.eqb c "-") eqn:E1; [apply Ascii.eqb_eq in E1; subst c; discriminate D|].
    destruct (Ascii.eqb c "+") eqn:E2; [apply Ascii.eqb_eq in E2; subst c; discriminate D|].
    rewrite <- E, parse_print_N. cbn [obind].
    change (2 ^ (32 - 1))%N with 2147483648%N.
    destruct (N.ltb_spec n 2147483648); [reflexivity|lia]. }
  destruct z as [|p|p].
  - exact (Hnn 0%N eq_refl).
  - cbn [print_Z Z.to_N]. rewrite (Hnn (Npos p)); [reflexivity|lia].
  - cbn [print_Z]. unfold parse_int. cbn [Ascii.eqb Bool.eqb]. cbv iota.
    rewrite parse_print_N. cbn [obind]. change (2 ^ (32 - 1))%N with 2147483648%N.
    destruct (N.leb_spec (Npos p) 2147483648); [reflexivity|lia].
Qed.

Lemma parse_print_dur d : dur_ok d = true -> parse_duration (print_dur d) = Some (dur_ns d).
Proof.
  unfold dur_ok, parse_duration, print_dur, dur_ns, print_N. intro H.
  rewrite span_digits_uint by (destruct (du d); reflexivity).
  fold (print_N (dn d)). rewrite parse_print_N. cbn [obind].
  replace (parse_unit (unit_str (du d))) with (Some (du d)) by (destruct (du d); reflexivity).
  cbn [obind]. now rewrite H.
Qed.

(* ------------------------------------------------------------------ tokens <-> segments *)
Section SegInd.
  Variable P : seg -> Prop.
  Hypothesis H : forall ws hb body, Forall P body -> P (Seg ws hb body).
  Fixpoint seg_ind' (s : seg) : P s :=
    match s with
    | Seg ws hb body =>
        H ws hb body ((fix go (l : list seg) : Forall P l :=
                         match l with
                         | [] => Forall_nil _
                         | x :: r => Forall_cons _ (seg_ind' x) (go r)
                         end) body)
    end.
End SegInd.

Lemma take_words_map ws r :
  (match r with W _ :: _ => False | _ => True end) -> take_words (map W ws ++ r) = (ws, r).
Proof.
  intro Hr. induction ws as [|w ws IH]; cbn [map List.app take_words].
  - destruct r as [|[s| | |] r']; try reflexivity. contradiction.
  - now rewrite IH.
Qed.

(* continuation form: if the tokens [k] that follow parse to [l'] leaving [rest], then the
   printed segment followed by [k] parses to the segment followed by [l'] *)
Definition parses (k : list tok) (l' : list seg) (rest : list tok) : Prop :=
  forall f, (List.length k < f)%nat -> parse_segs f k = Some (l', rest).

Lemma parses_rb k : parses (RB :: k) [] (RB :: k).
Proof. intros f Hf. destruct f; [cbn in Hf; lia|reflexivity]. Qed.
Lemma parses_nil : parses [] [] [].
Proof. intros f Hf. destruct f; [cbn in Hf; lia|reflexivity]. Qed.

Lemma print_seg_parses s : seg_wf s = true ->
  forall k l' rest, parses k l' rest -> parses (print_seg s ++ k) (s :: l') rest.
Proof.
  induction s as [ws hb body IH] using seg_ind'. intro Hwf.
  cbn [seg_wf] in Hwf. apply andb_true_iff in Hwf. destruct Hwf as [Hwf Hbody].
  apply andb_true_iff in Hwf. destruct Hwf as [Hws Hhb].
  assert (Hblock : forall k l' rest, parses k l' rest ->
            parses (flat_map print_seg body ++ k) (body ++ l') rest).
  { clear Hws Hhb. induction IH as [|b body Hb _ IHb]; intros k l' rest Hk; [exact Hk|].
    cbn [forallb] in Hbody. apply andb_true_iff in Hbody. destruct Hbody as [Hb1 Hb2].
    cbn [flat_map]. rewrite <- app_assoc. cbn [List.app]. apply (Hb Hb1). now apply IHb. }
  intros k l' rest Hk f Hf.
  cbn [print_seg] in *. destruct hb.
  - (* block *)
    rewrite <- app_assoc in *. cbn [List.app] in *. rewrite <- app_assoc in *. cbn [List.app] in *.
    destruct f as [|f]; [cbn in Hf; lia|].
    assert (Hlen : (List.length (flat_map print_seg body ++ RB :: NL :: k) < f)%nat).
    { rewrite app_length in Hf. cbn [List.length] in Hf. lia. }
    assert (Hk2 : (List.length k < f)%nat).
    { rewrite app_length in Hlen. cbn [List.length] in Hlen. lia. }
    pose proof (Hblock (RB :: NL :: k) [] (RB :: NL :: k) (parses_rb _) f Hlen) as Hb.
    rewrite app_nil_r in Hb.
    destruct ws as [|w ws].
    + cbn [map List.app parse_segs take_words]. rewrite Hb, (Hk f Hk2). reflexivity.
    + cbn [map List.app parse_segs]. change (W w :: map W ws ++ LB :: NL :: flat_map print_seg body ++ RB :: NL :: k)
        with (map W (w :: ws) ++ LB :: NL :: flat_map print_seg body ++ RB :: NL :: k).
      rewrite take_words_map by exact I. rewrite Hb, (Hk f Hk2). reflexivity.
  - (* plain line *)
    destruct body; [|discriminate Hhb]. destruct ws as [|w ws]; [discriminate Hws|].
    rewrite <- app_assoc in *. cbn [List.app] in *.
    destruct f as [|f]; [cbn in Hf; lia|].
    assert (Hk2 : (List.length k < f)%nat).
    { cbn [map List.app List.length] in Hf. rewrite app_length in Hf. cbn [List.length] in Hf. lia. }
    cbn [map List.app parse_segs].
    change (W w :: map W ws ++ NL :: k) with (map W (w :: ws) ++ NL :: k).
    rewrite take_words_map by exact I. rewrite (Hk f Hk2). reflexivity.
Qed.

Lemma print_segs_parses l : forallb seg_wf l = true ->
  forall k l' rest, parses k l' rest -> parses (print_segs l ++ k) (l ++ l') rest.
Proof.
  induction l as [|s l IH]; intros Hwf k l' rest Hk; [exact Hk|].
  cbn [forallb] in Hwf. apply andb_true_iff in Hwf. destruct Hwf as [H1 H2].
  unfold print_segs. cbn [flat_map]. rewrite <- app_assoc. cbn [List.app].
  apply print_seg_parses; [exact H1|]. now apply IH.
Qed.

Theorem parse_file_print l : forallb seg_wf l = true -> parse_file (print_segs l) = Some l.
Proof.
  intro Hwf. unfold parse_file.
  pose proof (print_segs_parses l Hwf [] [] [] parses_nil (S (List.length (print_segs l)))) as H.
  rewrite !app_nil_r in H. rewrite H; [reflexivity|lia].
Qed.

(* ------------------------------------------------------------------ sorting, association lists *)
Lemma sort_kv_single {V} k (v : V) : sort_kv [(k, v)] = [(k, v)].
Proof. reflexivity. Qed.

Lemma has_dup_map_false_assoc {A V} (key : A -> string) (val : A -> V) (l : list A) (a : A) :
  In a l -> has_dup (map key l) = false -> assoc (key a) (map (fun x => (key x, val x)) l) = Some (val a).
Proof.
  induction l as [|x l IH]; intros Hin Hd; [contradiction|].
  cbn [map has_dup] in Hd. apply orb_false_iff in Hd. destruct Hd as [Hx Hd].
  cbn [map assoc]. destruct Hin as [->|Hin].
  - now rewrite String.eqb_refl.
  - destruct (String.eqb (key a) (key x)) eqn:E; [|now apply IH].
    exfalso. apply String.eqb_eq in E.
    assert (existsb (String.eqb (key x)) (map key l) = true) as C; [|congruence].
    apply existsb_exists. exists (key a). split; [now apply in_map|]. rewrite E. apply String.eqb_refl.
Qed.

(* ------------------------------------------------------------------ the structural theorem *)
Section Structural.
  Variables mleaf hleaf : Type.
  Variable mleaf_name : mleaf -> string.
  Variable mleaf_seg : mleaf -> seg.
  Variable mleaf_json : mleaf -> json.
  Variable hleaf_name : hleaf -> string.
  Variable hleaf_seg : hleaf -> seg.
  Variable hleaf_json : hleaf -> json.
  Variable mleaf_ok : mleaf -> bool.
  Variable hleaf_ok : hleaf -> bool.
  Variable mleaf_parse : string -> seg -> option json.
  Variable hleaf_parse : string -> seg -> option json.

  (* the leaf equations and the shape of a leaf's segment *)
  Hypothesis mleaf_eq : forall x, mleaf_ok x = true ->
    mleaf_parse (mleaf_name x) (mleaf_seg x) = Some (mleaf_json x).
  Hypothesis mleaf_shape : forall x, exists args hb body, mleaf_seg x = Seg (mleaf_name x :: args) hb body.
  Hypothesis mleaf_not_not : forall x, mleaf_name x <> "not".
  Hypothesis mleaf_wf : forall x, seg_wf (mleaf_seg x) = true.
  Hypothesis hleaf_eq : forall x, hleaf_ok x = true ->
    hleaf_parse (hleaf_name x) (hleaf_seg x) = Some (hleaf_json x).
  Hypothesis hleaf_shape : forall x, exists args hb body, hleaf_seg x = Seg (hleaf_name x :: args) hb body.
  Hypothesis hleaf_not_struct : forall x, hleaf_name x <> "tee" /\ hleaf_name x <> "subroute".
  Hypothesis hleaf_obj : forall x, exists l, hleaf_json x = JObj l.
  Hypothesis hleaf_wf : forall x, seg_wf (hleaf_seg x) = true.

  Notation matcherT := (matcher mleaf).
  Notation handlerT := (handler mleaf hleaf).
  Notation msetT := (mset mleaf).
  Let mname := matcher_name mleaf mleaf_name.
  Let mseg := matcher_seg mleaf mleaf_seg.
  Let mjson := matcher_json mleaf mleaf_name mleaf_json.
  Let mok := matcher_ok mleaf mleaf_name mleaf_ok.
  Let hseg := handler_seg mleaf hleaf mleaf_seg hleaf_seg.
  Let hjson := handler_json mleaf hleaf mleaf_name mleaf_json hleaf_name hleaf_json.
  Let hok := handler_ok mleaf hleaf mleaf_name mleaf_ok hleaf_ok.
  Let pmset := parse_mset mleaf_parse.
  Let phandler := parse_handler mleaf_parse hleaf_parse.

  (* ---- induction principles for the nested types *)
  Section MatcherInd.
    Variable P : matcherT -> Prop.
    Hypothesis Hleaf : forall x, P (MLeaf x).
    Hypothesis Hnot : forall il ms, Forall P ms -> P (MNot il ms).
    Fixpoint matcher_ind' (m : matcherT) : P m :=
      match m with
      | MLeaf x => Hleaf x
      | MNot il ms =>
          Hnot il ms ((fix go (l : list matcherT) : Forall P l :=
                         match l with
                         | [] => Forall_nil _
                         | x :: r => Forall_cons _ (matcher_ind' x) (go r)
                         end) ms)
      end.
  End MatcherInd.

  Section HandlerInd.
    Variable P : handlerT -> Prop.
    Hypothesis Hleaf : forall x, P (HLeaf x).
    Hypothesis Htee : forall hs, Forall P hs -> P (HTee hs).
    Hypothesis Hsub : forall mt sets routes,
      Forall (fun r => Forall P (snd r)) routes -> P (HSubroute mt sets routes).
    Fixpoint handler_ind' (h : handlerT) : P h :=
      match h with
      | HLeaf x => Hleaf x
      | HTee hs =>
          Htee hs ((fix go (l : list handlerT) : Forall P l :=
                      match l with
                      | [] => Forall_nil _
                      | x :: r => Forall_cons _ (handler_ind' x) (go r)
                      end) hs)
      | HSubroute mt sets routes =>
          Hsub mt sets routes
            ((fix gor (l : list (list string * list handlerT)) : Forall (fun r => Forall P (snd r)) l :=
                match l with
                | [] => Forall_nil _
                | (refs, hs) :: r =>
                    Forall_cons (refs, hs)
                      ((fix go (l : list handlerT) : Forall P l :=
                          match l with
                          | [] => Forall_nil _
                          | x :: r => Forall_cons _ (handler_ind' x) (go r)
                          end) hs)
                      (gor r)
                end) routes)
      end.
  End HandlerInd.

  (* ---- matchers *)
  (* one entry of a matcher set, as both branches of parse_mset treat it *)
  Definition pmatcher (e : seg) : option json :=
    if seg_name e =? "not" then option_map not_json (pmset e) else mleaf_parse (seg_name e) e.

  Lemma pmset_inline w a rest hb body :
    pmset (Seg (w :: a :: rest) hb body) =
    (j <- pmatcher (Seg (a :: rest) hb body) ;; Some [(a, j)]).
  Proof.
    unfold pmatcher, pmset. cbn [seg_name seg_words]. cbn [parse_mset tl].
    destruct (a =? "not"); reflexivity.
  Qed.

  Lemma pmset_block w hb body :
    pmset (Seg [w] hb body) =
    if has_dup (map seg_name body) then None else
    (ms <- traverse (fun e => j <- pmatcher e ;; Some (seg_name e, j)) body ;; Some (sort_kv ms)).
  Proof. reflexivity. Qed.

  Lemma set_seg_name w il entries : seg_name (set_seg w il entries) = w.
  Proof.
    unfold set_seg. destruct il; [|reflexivity].
    destruct entries as [|[ws hb body] [|? ?]]; reflexivity.
  Qed.

  Lemma mseg_name m : seg_name (mseg m) = mname m.
  Proof.
    destruct m as [x|il ms]; cbn.
    - destruct (mleaf_shape x) as (args & hb & body & E). now rewrite E.
    - apply set_seg_name.
  Qed.

  Lemma mseg_shape m : exists args hb body, mseg m = Seg (mname m :: args) hb body.
  Proof.
    destruct m as [x|il ms].
    - apply mleaf_shape.
    - cbn. unfold set_seg. destruct il; [|now eexists _, _, _].
      destruct (map _ ms) as [|[ws hb body] [|? ?]]; now eexists _, _, _.
  Qed.

  (* the printed set parses to the sorted (name, json) list *)
  Lemma pmset_set_seg w il (ms : list matcherT) :
    Forall (fun m => pmatcher (mseg m) = Some (mjson m)) ms ->
    has_dup (map mname ms) = false ->
    pmset (set_seg w il (map mseg ms)) = Some (sort_kv (map (fun m => (mname m, mjson m)) ms)).
  Proof.
    intros Hall Hdup.
    assert (Hblock : pmset (Seg [w] true (map mseg ms)) =
                     Some (sort_kv (map (fun m => (mname m, mjson m)) ms))).
    { rewrite pmset_block. rewrite map_map.
      rewrite (map_ext _ mname) by (intro; apply mseg_name). rewrite Hdup.
      rewrite (traverse_map _ mseg (fun m => (mname m, mjson m))); [reflexivity|].
      eapply Forall_impl; [|exact Hall]. cbv beta. intros m Hm. rewrite Hm. cbn [obind].
      now rewrite mseg_name. }
    unfold set_seg. destruct il; [|exact Hblock].
    destruct ms as [|m [|m2 ms]]; [exact Hblock| |cbn [map] in *; destruct (mseg m); exact Hblock].
    cbn [map]. destruct (mseg_shape m) as (args & hb & body & E). rewrite E.
    rewrite pmset_inline. rewrite <- E. inversion Hall as [|? ? Hm _]; subst. rewrite Hm. reflexivity.
  Qed.

  Lemma matcher_correct m : mok m = true -> pmatcher (mseg m) = Some (mjson m).
  Proof.
    induction m as [x|il ms IH] using matcher_ind'; intro Hok.
    - unfold pmatcher. rewrite mseg_name. cbn.
      destruct (mleaf_name x =? "not") eqn:E; [apply String.eqb_eq in E; now apply mleaf_not_not in E|].
      now apply mleaf_eq.
    - cbn in Hok. apply andb_true_iff in Hok. destruct Hok as [Hd Hall].
      apply negb_true_iff in Hd.
      unfold pmatcher. rewrite mseg_name. cbn [mname matcher_name]. cbn [String.eqb Ascii.eqb Bool.eqb].
      cbv iota. cbn [mseg matcher_seg]. fold mseg.
      rewrite (pmset_set_seg "not" il ms); [reflexivity| |exact Hd].
      apply forallb_Forall in Hall. rewrite Forall_forall in *. intros m Hin. apply IH; [exact Hin|].
      now apply Hall.
  Qed.

  Lemma mset_correct (s : msetT) : mset_ok mleaf mleaf_name mleaf_ok s = true ->
    let seg := mset_seg mleaf mleaf_seg s in
    seg_name seg = fst (fst s) /\ mset_nonempty seg = true /\
    pmset seg = Some (match mset_json mleaf mleaf_name mleaf_json (snd s) with JObj l => l | _ => [] end).
  Proof.
    destruct s as [[n il] ms]. cbn [mset_ok mset_seg fst snd]. intro Hok.
    repeat (apply andb_true_iff in Hok; destruct Hok as [Hok ?]).
    split; [apply set_seg_name|]. split.
    - destruct ms as [|m ms]; [discriminate|]. unfold set_seg. cbn [map].
      fold mseg. destruct il; [|reflexivity]. destruct ms; [|cbn [map]; destruct (mseg m); reflexivity].
      cbn [map]. destruct (mseg_shape m) as (args & hb & body & E). now rewrite E.
    - fold mseg. rewrite pmset_set_seg; [reflexivity| |now apply negb_true_iff].
      match goal with H : forallb _ ms = true |- _ => apply forallb_Forall in H; rename H into Hall end.
      eapply Forall_impl; [|exact Hall]. intros m. apply matcher_correct.
  Qed.

  (* ---- route blocks: ParseCaddyfileNestedRoutes *)
  Notation routeT := (list string * list handlerT)%type.
  Let lookup := lookup_set mleaf mleaf_name mleaf_json.
  Let msetseg := mset_seg mleaf mleaf_seg.
  Let msetok := mset_ok mleaf mleaf_name mleaf_ok.

  Definition block_body (mt : option dur) (sets : list msetT) (routes : list routeT) : list seg :=
    mt_segs mt ++ map msetseg sets ++ map (route_seg mleaf hleaf mleaf_seg hleaf_seg) routes.
  Definition block_entries (mt : option dur) (sets : list msetT) (routes : list routeT) : list entry :=
    (match mt with Some d => [ETimeout (dur_ns d)] | None => [] end) ++
    map (fun s => EMset (fst (fst s)) (msetseg s)) sets ++
    map (fun r => ERoute (fst r) (map hjson (snd r))) routes.
  Definition block_routes_json (sets : list msetT) (routes : list routeT) : list json :=
    map (fun r => route_json (map (lookup sets) (fst r)) (map hjson (snd r))) routes.

  Lemma is_mset_name_first n : is_mset_name n = true -> exists c r, n = String "@" (String c r).
  Proof.
    destruct n as [|a [|c r]]; try discriminate.
    - cbn. destruct a as [[] [] [] [] [] [] [] []]; discriminate.
    - cbn. intro H. exists c, r.
      destruct a as [[] [] [] [] [] [] [] []]; try discriminate. reflexivity.
  Qed.

  Lemma entries_correct mt sets routes :
    mt_ok mt = true -> forallb msetok sets = true ->
    Forall (fun r : routeT => Forall (fun h => phandler (hseg h) = Some (hjson h)) (snd r)) routes ->
    traverse (parse_entry phandler) (block_body mt sets routes) = Some (block_entries mt sets routes).
  Proof.
    intros Hmt Hsets Hroutes. unfold block_body, block_entries.
    apply traverse_app; [|apply traverse_app].
    - destruct mt as [d|]; [|reflexivity]. cbn [mt_segs traverse parse_entry].
      cbn [is_mset_name String.eqb Ascii.eqb Bool.eqb]. cbv iota.
      rewrite parse_print_dur by exact Hmt. reflexivity.
    - apply traverse_map. apply forallb_Forall in Hsets. eapply Forall_impl; [|exact Hsets].
      intros s Hs. destruct (mset_correct s Hs) as (Hn & _ & _).
      fold msetseg in Hn. destruct (msetseg s) as [ws hb body] eqn:E.
      destruct s as [[n il] ms]. cbn [fst snd] in *.
      unfold seg_name in Hn. cbn [seg_words] in Hn. destruct ws as [|w args]; cbn in Hn.
      + subst n. cbn in Hs. discriminate Hs.
      + subst w. cbn [parse_entry].
        replace (is_mset_name n) with true; [reflexivity|].
        cbn in Hs. repeat (apply andb_true_iff in Hs; destruct Hs as [Hs ?]). now rewrite Hs.
    - apply traverse_map. eapply Forall_impl; [|exact Hroutes].
      intros [refs hs] Hr. cbn [fst snd route_seg parse_entry] in *.
      cbn [is_mset_name String.eqb Ascii.eqb Bool.eqb]. cbv iota.
      fold hseg. rewrite (traverse_map _ hseg hjson _ Hr). reflexivity.
  Qed.

  Lemma entry_msets_app a b : entry_msets (a ++ b) = entry_msets a ++ entry_msets b.
  Proof. induction a as [|[] a IH]; cbn; rewrite ?IH; reflexivity. Qed.
  Lemma entry_timeouts_app a b : entry_timeouts (a ++ b) = entry_timeouts a ++ entry_timeouts b.
  Proof. induction a as [|[] a IH]; cbn; rewrite ?IH; reflexivity. Qed.
  Lemma entry_routes_app a b : entry_routes (a ++ b) = entry_routes a ++ entry_routes b.
  Proof. induction a as [|[] a IH]; cbn; rewrite ?IH; reflexivity. Qed.

  Lemma em_msets {A} (f : A -> string) (g : A -> seg) l :
    entry_msets (map (fun s => EMset (f s) (g s)) l) = map (fun s => (f s, g s)) l.
  Proof. induction l; cbn; congruence. Qed.
  Lemma em_routes {A} (f : A -> list string) (g : A -> list json) l :
    entry_msets (map (fun s => ERoute (f s) (g s)) l) = [].
  Proof. induction l; cbn; congruence. Qed.
  Lemma et_msets {A} (f : A -> string) (g : A -> seg) l :
    entry_timeouts (map (fun s => EMset (f s) (g s)) l) = [].
  Proof. induction l; cbn; congruence. Qed.
  Lemma et_routes {A} (f : A -> list string) (g : A -> list json) l :
    entry_timeouts (map (fun s => ERoute (f s) (g s)) l) = [].
  Proof. induction l; cbn; congruence. Qed.
  Lemma er_msets {A} (f : A -> string) (g : A -> seg) l :
    entry_routes (map (fun s => EMset (f s) (g s)) l) = [].
  Proof. induction l; cbn; congruence. Qed.
  Lemma er_routes {A} (f : A -> list string) (g : A -> list json) l :
    entry_routes (map (fun s => ERoute (f s) (g s)) l) = map (fun s => (f s, g s)) l.
  Proof. induction l; cbn; congruence. Qed.

  Lemma block_entries_msets mt sets routes :
    entry_msets (block_entries mt sets routes) = map (fun s => (fst (fst s), msetseg s)) sets.
  Proof.
    unfold block_entries. rewrite !entry_msets_app, em_msets, em_routes, app_nil_r.
    destruct mt; reflexivity.
  Qed.
  Lemma block_entries_timeouts mt sets routes :
    entry_timeouts (block_entries mt sets routes) = match mt with Some d => [dur_ns d] | None => [] end.
  Proof.
    unfold block_entries. rewrite !entry_timeouts_app, et_msets, et_routes.
    destruct mt; reflexivity.
  Qed.
  Lemma block_entries_routes mt sets routes :
    entry_routes (block_entries mt sets routes) = map (fun r : routeT => (fst r, map hjson (snd r))) routes.
  Proof.
    unfold block_entries. rewrite !entry_routes_app, er_msets, er_routes.
    destruct mt; reflexivity.
  Qed.

  Definition sets_res (sets : list msetT) : list (string * json) :=
    map (fun s => (fst (fst s), mset_json mleaf mleaf_name mleaf_json (snd s))) sets.

  Lemma lookup_found sets ref :
    existsb (String.eqb ref) (set_names mleaf sets) = true ->
    assoc ref (sets_res sets) = Some (lookup sets ref).
  Proof.
    intro H. unfold lookup, lookup_set, sets_res, set_names in *.
    induction sets as [|[[n il] ms] sets IH]; [discriminate|].
    cbn [map existsb assoc fst snd] in *. destruct (String.eqb ref n); [reflexivity|].
    cbn [orb] in H. exact (IH H).
  Qed.

  Lemma assemble_correct mt sets routes :
    has_dup (set_names mleaf sets) = false -> forallb msetok sets = true ->
    forallb (fun r : routeT => refs_ok mleaf sets (fst r)) routes = true ->
    assemble mleaf_parse (block_entries mt sets routes) = Some (block_routes_json sets routes, mt_ns mt).
  Proof.
    intros Hdup Hsets Hrefs. unfold assemble.
    rewrite block_entries_msets, block_entries_timeouts, block_entries_routes.
    rewrite map_map. cbn [fst]. fold (set_names mleaf sets). rewrite Hdup.
    replace (match match mt with Some d => [dur_ns d] | None => [] end with
             | [] => Some 0%Z | [z] => Some z | _ :: _ :: _ => None end) with (Some (mt_ns mt))
      by (destruct mt; reflexivity).
    cbn [obind].
    rewrite (traverse_map _ (fun s : msetT => (fst (fst s), msetseg s))
               (fun s => (fst (fst s), mset_json mleaf mleaf_name mleaf_json (snd s)))).
    2:{ apply forallb_Forall in Hsets. eapply Forall_impl; [|exact Hsets]. intros s Hs.
        destruct (mset_correct s Hs) as (_ & Hne & Hp). fold msetseg in Hne, Hp.
        rewrite Hne. fold pmset. rewrite Hp. reflexivity. }
    cbn [obind]. fold (sets_res sets).
    rewrite (traverse_map _ (fun r : routeT => (fst r, map hjson (snd r)))
               (fun r => route_json (map (lookup sets) (fst r)) (map hjson (snd r)))); [reflexivity|].
    apply forallb_Forall in Hrefs. eapply Forall_impl; [|exact Hrefs]. intros [refs hs] Hr.
    cbn [fst snd] in *.
    rewrite (traverse_all _ (lookup sets)).
    - reflexivity.
    - unfold refs_ok in Hr. apply forallb_Forall in Hr. eapply Forall_impl; [|exact Hr].
      intros ref. apply lookup_found.
  Qed.

  (* ---- handlers *)
  Lemma set_inline_obj key name l : set_inline key name (JObj l) = Some (set_inline_t key name (JObj l)).
  Proof. reflexivity. Qed.

  Definition routes_ok (sets : list msetT) (routes : list routeT) : bool :=
    forallb (fun r => match r with (refs, hs) => refs_ok mleaf sets refs && forallb hok hs end) routes.

  Lemma routes_ok_split sets routes : routes_ok sets routes = true ->
    forallb (fun r : routeT => refs_ok mleaf sets (fst r)) routes = true /\
    Forall (fun r : routeT => Forall (fun h => hok h = true) (snd r)) routes.
  Proof.
    unfold routes_ok. induction routes as [|[refs hs] routes IH]; intro H; [split; [reflexivity|constructor]|].
    cbn [forallb] in H. apply andb_true_iff in H. destruct H as [H1 H2].
    apply andb_true_iff in H1. destruct H1 as [H1 H3]. destruct (IH H2) as [I1 I2].
    split; [cbn [forallb fst]; now rewrite H1, I1|]. constructor; [now apply forallb_Forall|exact I2].
  Qed.

  Lemma block_steps mt sets routes :
    mt_ok mt = true -> has_dup (set_names mleaf sets) = false -> forallb msetok sets = true ->
    routes_ok sets routes = true ->
    Forall (fun r : routeT => Forall (fun h => hok h = true -> phandler (hseg h) = Some (hjson h)) (snd r)) routes ->
    traverse (parse_entry phandler) (block_body mt sets routes) = Some (block_entries mt sets routes) /\
    assemble mleaf_parse (block_entries mt sets routes) = Some (block_routes_json sets routes, mt_ns mt).
  Proof.
    intros Hmt Hdup Hsets Hroutes IH. destruct (routes_ok_split _ _ Hroutes) as [Hrefs Hhs].
    split; [|now apply assemble_correct].
    apply entries_correct; [exact Hmt|exact Hsets|].
    clear Hroutes Hrefs. induction routes as [|r routes IHr]; constructor.
    - inversion IH; subst. inversion Hhs; subst. rewrite Forall_forall in *. intros h Hin. auto.
    - inversion IH; subst. inversion Hhs; subst. auto.
  Qed.

  Lemma block_correct mt sets routes :
    mt_ok mt = true -> has_dup (set_names mleaf sets) = false -> forallb msetok sets = true ->
    routes_ok sets routes = true ->
    Forall (fun r : routeT => Forall (fun h => hok h = true -> phandler (hseg h) = Some (hjson h)) (snd r)) routes ->
    parse_rblock mleaf_parse hleaf_parse (block_body mt sets routes) =
    Some (block_routes_json sets routes, mt_ns mt).
  Proof.
    intros Hmt Hdup Hsets Hroutes IH. destruct (block_steps mt sets routes Hmt Hdup Hsets Hroutes IH) as [E1 E2].
    unfold parse_rblock. fold phandler. rewrite E1. cbn [obind]. exact E2.
  Qed.

  Lemma block_routes_json_eq sets routes :
    block_routes_json sets routes =
    routes_json mleaf hleaf mleaf_name mleaf_json hleaf_name hleaf_json sets routes.
  Proof. unfold block_routes_json, routes_json. apply map_ext. intros [refs hs]. reflexivity. Qed.

  Lemma handler_correct h : hok h = true -> phandler (hseg h) = Some (hjson h).
  Proof.
    induction h as [x|hs IH|mt sets routes IH] using handler_ind'; intro Hok.
    - cbn [hseg handler_seg hjson handler_json]. destruct (hleaf_shape x) as (args & hb & body & E).
      rewrite E. unfold phandler. cbn [parse_handler]. rewrite <- E.
      destruct (hleaf_not_struct x) as [N1 N2].
      apply String.eqb_neq in N1, N2. rewrite N1, N2.
      rewrite (hleaf_eq x Hok). cbn [obind]. destruct (hleaf_obj x) as [l El]. rewrite El. reflexivity.
    - cbn [hseg handler_seg hjson handler_json]. unfold phandler. cbn [parse_handler String.eqb Ascii.eqb Bool.eqb].
      cbv iota. fold phandler. fold hseg. fold hjson.
      rewrite (traverse_map _ hseg hjson).
      + reflexivity.
      + cbn in Hok. apply forallb_Forall in Hok. rewrite Forall_forall in *. intros h Hin. apply IH; auto.
    - cbn [hok handler_ok] in Hok.
      repeat (apply andb_true_iff in Hok; destruct Hok as [Hok ?]).
      match goal with H : negb _ = true |- _ => apply negb_true_iff in H end.
      cbn [hseg handler_seg hjson handler_json]. unfold phandler. cbn [parse_handler String.eqb Ascii.eqb Bool.eqb].
      cbv iota. fold phandler. fold hseg. fold hjson.
      change (traverse (parse_entry phandler) _) with
        (traverse (parse_entry phandler) (block_body mt sets routes)).
      destruct (block_steps mt sets routes) as [E1 E2]; auto.
      rewrite E1. cbn [obind]. rewrite E2. cbn [obind fst snd]. rewrite block_routes_json_eq. reflexivity.
  Qed.

  (* ---- route blocks of servers / listener wrappers *)
  Lemma rblock_correct (b : rblock mleaf hleaf) : rblock_ok mleaf hleaf mleaf_name mleaf_ok hleaf_ok b = true ->
    parse_rblock mleaf_parse hleaf_parse (rblock_segs mleaf hleaf mleaf_seg hleaf_seg b) =
    Some (routes_json mleaf hleaf mleaf_name mleaf_json hleaf_name hleaf_json (rb_sets _ _ b) (rb_routes _ _ b),
          mt_ns (rb_mt _ _ b)).
  Proof.
    destruct b as [mt sets routes]. unfold rblock_ok. cbn [rb_mt rb_sets rb_routes]. intro Hok.
    repeat (apply andb_true_iff in Hok; destruct Hok as [Hok ?]).
    match goal with H : negb _ = true |- _ => apply negb_true_iff in H end.
    change (rblock_segs mleaf hleaf mleaf_seg hleaf_seg (RBlock mt sets routes)) with (block_body mt sets routes).
    rewrite block_correct; auto.
    - rewrite block_routes_json_eq. reflexivity.
    - match goal with H : forallb _ routes = true |- _ => rename H into Hr end.
      revert Hr. generalize sets at 1. intros sets0 Hr.
      induction routes as [|[refs hs] routes IHr]; constructor.
      + cbn [snd]. apply Forall_forall. intros h _. apply handler_correct.
      + cbn [forallb] in Hr. apply andb_true_iff in Hr. apply IHr. apply Hr.
  Qed.

  (* ---- printed segments are well-formed *)
  Lemma set_seg_wf w il entries : forallb seg_wf entries = true -> seg_wf (set_seg w il entries) = true.
  Proof.
    intro H. unfold set_seg.
    assert (Hb : seg_wf (Seg [w] true entries) = true) by (cbn; exact H).
    destruct il; [|exact Hb]. destruct entries as [|[ws hb body] [|? ?]]; try exact Hb.
    cbn [forallb] in H. rewrite andb_true_r in H. cbn [seg_wf] in *.
    apply andb_true_iff in H. destruct H as [H H3]. apply andb_true_iff in H. destruct H as [_ H2].
    now rewrite H2, H3.
  Qed.

  Lemma forallb_map_true {A B} (p : B -> bool) (g : A -> B) l :
    Forall (fun a => p (g a) = true) l -> forallb p (map g l) = true.
  Proof. induction 1; cbn; [reflexivity|]. now rewrite H, IHForall. Qed.

  Lemma mseg_wf m : seg_wf (mseg m) = true.
  Proof.
    induction m as [x|il ms IH] using matcher_ind'; [apply mleaf_wf|].
    cbn [mseg matcher_seg]. apply set_seg_wf. now apply forallb_map_true.
  Qed.

  Lemma msetseg_wf s : seg_wf (msetseg s) = true.
  Proof.
    destruct s as [[n il] ms]. cbn. apply set_seg_wf. apply forallb_map_true.
    apply Forall_forall. intros m _. apply mseg_wf.
  Qed.

  Lemma block_body_wf mt sets routes :
    Forall (fun r : routeT => Forall (fun h => seg_wf (hseg h) = true) (snd r)) routes ->
    forallb seg_wf (block_body mt sets routes) = true.
  Proof.
    intro H. unfold block_body. rewrite !forallb_app. apply andb_true_iff; split; [|apply andb_true_iff; split].
    - destruct mt; reflexivity.
    - apply forallb_map_true. apply Forall_forall. intros s _. apply msetseg_wf.
    - apply forallb_map_true. eapply Forall_impl; [|exact H]. intros [refs hs] Hr.
      cbn [route_seg seg_wf snd] in *. fold hseg. now apply forallb_map_true.
  Qed.

  Lemma hseg_wf h : seg_wf (hseg h) = true.
  Proof.
    induction h as [x|hs IH|mt sets routes IH] using handler_ind'; [apply hleaf_wf| |].
    - cbn [hseg handler_seg seg_wf]. fold hseg. now apply forallb_map_true.
    - cbn [hseg handler_seg]. fold hseg.
      change (seg_wf (Seg ["subroute"] true (block_body mt sets routes)) = true).
      cbn [seg_wf]. now apply block_body_wf.
  Qed.

  Lemma rblock_segs_wf (b : rblock mleaf hleaf) :
    forallb seg_wf (rblock_segs mleaf hleaf mleaf_seg hleaf_seg b) = true.
  Proof.
    destruct b as [mt sets routes].
    change (forallb seg_wf (block_body mt sets routes) = true). apply block_body_wf.
    apply Forall_forall. intros r _. apply Forall_forall. intros h _. apply hseg_wf.
  Qed.

  (* ---- servers, the layer4 app, the whole file *)
  Notation serverT := (server mleaf hleaf).
  Let sseg := server_seg mleaf hleaf mleaf_seg hleaf_seg.
  Let sjson := server_json mleaf hleaf mleaf_name mleaf_json hleaf_name hleaf_json.
  Let sok := server_ok mleaf hleaf mleaf_name mleaf_ok hleaf_ok.

  Lemma server_correct (s : serverT) : sok s = true ->
    parse_server mleaf_parse hleaf_parse (sseg s) = Some (sjson s).
  Proof.
    destruct s as [listen b]. unfold sok, server_ok. cbn [sv_listen sv_block]. intro Hok.
    destruct listen as [|a listen]; [discriminate|].
    unfold sseg, server_seg, parse_server. cbn [sv_listen sv_block].
    rewrite (rblock_correct b Hok). reflexivity.
  Qed.

  Theorem adapt_structural_gen (c : config mleaf hleaf) :
    config_ok mleaf hleaf mleaf_name mleaf_ok hleaf_ok c = true ->
    adapt mleaf_parse hleaf_parse (print_caddyfile mleaf hleaf mleaf_seg hleaf_seg c) =
    Some (to_json mleaf hleaf mleaf_name mleaf_json hleaf_name hleaf_json c).
  Proof.
    intro Hok. unfold adapt, print_caddyfile.
    assert (Hwf : forallb seg_wf [config_seg mleaf hleaf mleaf_seg hleaf_seg c] = true).
    { cbn [forallb]. rewrite andb_true_r. unfold config_seg. cbn [seg_wf].
      apply forallb_map_true. apply Forall_forall. intros servers _. cbn [seg_wf].
      apply forallb_map_true. apply Forall_forall. intros s _.
      unfold server_seg. cbn [seg_wf]. rewrite rblock_segs_wf. now destruct (sv_listen _ _ s). }
    pose proof (parse_file_print _ Hwf) as Hp. unfold print_segs in Hp. cbn [flat_map] in Hp.
    rewrite app_nil_r in Hp. rewrite Hp. cbn [obind].
    unfold config_ok in Hok. destruct c as [|b bs]; [discriminate|].
    unfold config_seg. cbn [map]. unfold parse_layer4_blocks.
    change (Seg ["layer4"] true (map (server_seg mleaf hleaf mleaf_seg hleaf_seg) b)
              :: map (fun servers => Seg ["layer4"] true (map (server_seg mleaf hleaf mleaf_seg hleaf_seg) servers)) bs)
      with (map (fun servers => Seg ["layer4"] true (map sseg servers)) (b :: bs)).
    rewrite (traverse_map _ (fun servers => Seg ["layer4"] true (map sseg servers)) (map sjson)).
    - cbn [obind]. unfold to_json. rewrite concat_map. reflexivity.
    - apply forallb_Forall in Hok. eapply Forall_impl; [|exact Hok]. intros servers Hs. cbv beta.
      apply traverse_map. apply forallb_Forall in Hs. eapply Forall_impl; [|exact Hs].
      intros s. apply server_correct.
  Qed.

  (* the listener-wrapper form *)
  Theorem adapt_lw_structural_gen (b : rblock mleaf hleaf) (others sites : list seg) :
    rblock_ok mleaf hleaf mleaf_name mleaf_ok hleaf_ok b = true ->
    forallb seg_wf others = true -> forallb seg_wf sites = true ->
    forallb (fun s => negb (is_layer4 s)) others = true ->
    adapt_lw mleaf_parse hleaf_parse (print_caddyfile_lw mleaf hleaf mleaf_seg hleaf_seg b others sites) =
    Some [lw_json mleaf hleaf mleaf_name mleaf_json hleaf_name hleaf_json b].
  Proof.
    intros Hok Ho Hs Hn. unfold adapt_lw, print_caddyfile_lw.
    rewrite parse_file_print.
    2:{ unfold lw_file_segs. cbn [forallb seg_wf]. rewrite rblock_segs_wf, Ho, Hs. reflexivity. }
    cbn [obind]. unfold lw_file_segs. cbn [filter is_layer4 seg_name seg_words String.eqb Ascii.eqb Bool.eqb].
    replace (filter is_layer4 others) with (@nil seg).
    2:{ clear - Hn. induction others as [|o others IH]; [reflexivity|].
        cbn [forallb filter] in *. apply andb_true_iff in Hn. destruct Hn as [H1 H2].
        apply negb_true_iff in H1. rewrite H1. now apply IH. }
    cbn [traverse parse_lw]. rewrite (rblock_correct b Hok). reflexivity.
  Qed.
End Structural.

(* ------------------------------------------------------------------ array-shaped matchers: JSON round trip *)
(* MatchNot.UnmarshalJSON decodes the array into []caddy.ModuleMap (a Go map per element: keys
   sorted on output, raw values kept), MarshalJSON encodes that slice. *)
Definition module_map_of (j : json) : option (list (string * json)) :=
  match j with JObj l => Some (sort_kv l) | _ => None end.
Definition not_unmarshal (j : json) : option (list (list (string * json))) :=
  match j with JArr l => traverse module_map_of l | _ => None end.
Definition not_marshal (sets : list (list (string * json))) : json := JArr (map JObj sets).

Fixpoint keys_sorted {V} (l : list (string * V)) : bool :=
  match l with
  | [] => true
  | (k, _) :: r => match r with [] => true | (k', _) :: _ => String.ltb k k' end && keys_sorted r
  end.

Lemma ltb_leb a b : String.ltb a b = true -> String.leb a b = true.
Proof. unfold String.ltb, String.leb. destruct (String.compare a b); congruence. Qed.

Lemma sort_kv_sorted {V} (l : list (string * V)) : keys_sorted l = true -> sort_kv l = l.
Proof.
  induction l as [|[k v] l IH]; intro H; [reflexivity|].
  cbn [keys_sorted] in H. apply andb_true_iff in H. destruct H as [H1 H2].
  cbn [sort_kv]. rewrite (IH H2). destruct l as [|[k' v'] l]; [reflexivity|].
  cbn [insert_kv]. now rewrite (ltb_leb _ _ H1).
Qed.

Definition sets_json_wf (j : json) : bool :=
  match j with
  | JArr l => forallb (fun e => match e with JObj m => keys_sorted m | _ => false end) l
  | _ => false
  end.

Theorem not_json_roundtrip j : sets_json_wf j = true ->
  exists sets, not_unmarshal j = Some sets /\ not_marshal sets = j.
Proof.
  destruct j as [| | | |l| |]; try discriminate. cbn [sets_json_wf]. intro H.
  induction l as [|e l IH].
  - exists []. split; reflexivity.
  - cbn [forallb] in H. apply andb_true_iff in H. destruct H as [H1 H2].
    destruct (IH H2) as (sets & U & M). destruct e as [| | | | |m|]; try discriminate.
    exists (m :: sets). cbn [not_unmarshal traverse module_map_of] in *.
    rewrite (sort_kv_sorted _ H1), U. split; [reflexivity|].
    unfold not_marshal in *. cbn [map]. now inversion M.
Qed.

Theorem not_struct_roundtrip sets : forallb keys_sorted sets = true ->
  not_unmarshal (not_marshal sets) = Some sets.
Proof.
  intro H. unfold not_marshal, not_unmarshal. rewrite (traverse_map _ JObj (fun s => s)); [now rewrite map_id|].
  apply forallb_Forall in H. eapply Forall_impl; [|exact H]. intros s Hs. cbn. now rewrite sort_kv_sorted.
Qed.

(* MatchTLS / MatchQUIC: UnmarshalJSON decodes the object into a caddy.ModuleMap, MarshalJSON encodes
   the map; MatchHTTP: caddyhttp.RawMatcherSets = []caddy.ModuleMap, the same encoding as "not" *)
Definition tls_unmarshal (j : json) : option (list (string * json)) := module_map_of j.
Definition tls_marshal (m : list (string * json)) : json := JObj m.
Definition http_unmarshal := not_unmarshal.
Definition http_marshal := not_marshal.

Theorem tls_json_roundtrip j :
  match j with JObj m => keys_sorted m | _ => false end = true ->
  exists m, tls_unmarshal j = Some m /\ tls_marshal m = j.
Proof.
  destruct j as [| | | | |m|]; try discriminate. intro H. exists m.
  unfold tls_unmarshal, module_map_of. now rewrite sort_kv_sorted.
Qed.
Theorem tls_struct_roundtrip m : keys_sorted m = true -> tls_unmarshal (tls_marshal m) = Some m.
Proof. intro H. unfold tls_unmarshal, tls_marshal, module_map_of. now rewrite sort_kv_sorted. Qed.

(* ------------------------------------------------------------------ server numbering *)
Lemma leb_refl s : String.leb s s = true.
Proof. destruct (String.leb_total s s); assumption. Qed.

Lemma assoc_insert_kv {V} k k' (v : V) l :
  assoc k (insert_kv k' v l) = if String.eqb k k' then Some v else assoc k l.
Proof.
  induction l as [|[k2 v2] l IH]; [reflexivity|].
  cbn [insert_kv]. destruct (String.leb k' k2) eqn:L; [reflexivity|].
  cbn [assoc]. rewrite IH. destruct (String.eqb k k') eqn:E1; [|reflexivity].
  destruct (String.eqb k k2) eqn:E2; [|reflexivity].
  apply String.eqb_eq in E1, E2. subst k' k2. rewrite leb_refl in L. discriminate.
Qed.

Lemma assoc_sort_kv {V} k (l : list (string * V)) : assoc k (sort_kv l) = assoc k l.
Proof.
  induction l as [|[k' v] l IH]; [reflexivity|].
  cbn [sort_kv assoc]. now rewrite assoc_insert_kv, IH.
Qed.

Lemma print_N_inj a b : print_N a = print_N b -> a = b.
Proof. intro H. pose proof (parse_print_N a) as Pa. rewrite H, parse_print_N in Pa. now inversion Pa. Qed.

Lemma assoc_number_servers (l : list json) : forall start i,
  assoc ("srv" ++ print_N (start + N.of_nat i))%string (number_servers start l) = nth_error l i.
Proof.
  induction l as [|s l IH]; intros start i; [now destruct i|].
  cbn [number_servers assoc]. destruct i as [|i].
  - cbn [N.of_nat nth_error]. rewrite N.add_0_r, String.eqb_refl. reflexivity.
  - cbn [nth_error].
    destruct (String.eqb ("srv" ++ print_N (start + N.of_nat (S i))) ("srv" ++ print_N start)) eqn:E.
    + apply String.eqb_eq in E. cbn [String.append] in E. inversion E as [E']. apply print_N_inj in E'. lia.
    + rewrite <- (IH (start + 1)%N i). do 3 f_equal. lia.
Qed.

Definition jget (k : string) (j : json) : option json := match j with JObj l => assoc k l | _ => None end.
(* the server object the adapted configuration holds under "srv<i>" *)
Definition adapted_server (j : json) (i : N) : option json :=
  a <- jget "apps" j ;; l <- jget "layer4" a ;; s <- jget "servers" l ;; jget ("srv" ++ print_N i)%string s.

Lemma adapted_server_numbered (servers : list json) i s :
  nth_error servers i = Some s ->
  adapted_server (JObj [("apps", JObj [("layer4",
     JObj (omit [("servers", o_obj (sort_kv (number_servers 0 servers)))]))])]) (N.of_nat i) = Some s.
Proof.
  intro H. pose proof (assoc_number_servers servers 0 i) as A. rewrite N.add_0_l, H in A.
  rewrite <- assoc_sort_kv in A. unfold adapted_server. cbn [jget assoc String.eqb Ascii.eqb Bool.eqb obind].
  destruct (sort_kv (number_servers 0 servers)) eqn:E; [discriminate A|].
  cbn [o_obj omit jget assoc String.eqb Ascii.eqb Bool.eqb obind]. exact A.
Qed.
