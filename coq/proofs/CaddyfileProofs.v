(* C15 - lemmas about model/Caddyfile.v: numbers and durations print/parse, the token stream
   of a segment tree parses back to the tree, and the structural theorem: the model of
   layer4/caddyfile.go applied to the printed configuration yields the configuration's JSON,
   for every nesting depth, given the leaf equations. *)
From Coq Require Import List ZArith NArith Bool String Ascii Lia DecimalString DecimalN Decimal.
From L4.model Require Import Caddyfile.
Import ListNotations.
Open Scope string_scope.
Open Scope list_scope.

(* ------------------------------------------------------------------ generic helpers *)
Lemma traverse_map {A B C} (f : B -> option C) (g : A -> B) (h : A -> C) (l : list A) :
  Forall (fun a => f (g a) = Some (h a)) l -> traverse f (map g l) = Some (map h l).
Proof.
  induction 1 as [|a l Ha _ IH]; [reflexivity|].
  cbn [map traverse]. rewrite Ha, IH. reflexivity.
Qed.

Lemma traverse_app {A B} (f : A -> option B) (l1 l2 : list A) r1 r2 :
  traverse f l1 = Some r1 -> traverse f l2 = Some r2 -> traverse f (l1 ++ l2) = Some (r1 ++ r2).
Proof.
  revert r1. induction l1 as [|a l1 IH]; intros r1 H1 H2.
  - cbn in H1. inversion H1. exact H2.
  - cbn [traverse app] in *. destruct (f a); [|discriminate].
    destruct (traverse f l1) eqn:E; [|discriminate]. inversion H1; subst.
    rewrite (IH l eq_refl H2). reflexivity.
Qed.

Lemma forallb_Forall {A} (p : A -> bool) l : forallb p l = true -> Forall (fun a => p a = true) l.
Proof. intro H. apply Forall_forall. now apply forallb_forall. Qed.

(* ------------------------------------------------------------------ decimal numbers *)
Lemma print_N_nonempty n : print_N n <> EmptyString.
Proof.
  unfold print_N. intro H.
  pose proof (NilEmpty.usu (N.to_uint n)) as U. rewrite H in U. cbn in U. inversion U as [E].
  pose proof (DecimalN.Unsigned.of_to n) as O. rewrite <- E in O. cbn in O. subst n. discriminate E.
Qed.

Lemma parse_print_N n : parse_N (print_N n) = Some n.
Proof.
  unfold parse_N. destruct (print_N n) eqn:E; [now apply print_N_nonempty in E|].
  rewrite <- E. unfold print_N. rewrite NilEmpty.usu. cbn. now rewrite DecimalN.Unsigned.of_to.
Qed.

Lemma parse_uint_print bits n : (n <? 2 ^ bits)%N = true -> parse_uint bits (print_N n) = Some n.
Proof. intro H. unfold parse_uint. rewrite parse_print_N. cbn. now rewrite H. Qed.

Lemma span_digits_uint d s :
  (match s with EmptyString => True | String c _ => is_digit c = false end) ->
  span_digits (NilEmpty.string_of_uint d ++ s)%string = (NilEmpty.string_of_uint d, s).
Proof.
  intro Hs. induction d; cbn [NilEmpty.string_of_uint append span_digits];
    try (change (is_digit _) with true; cbv iota; rewrite IHd; reflexivity).
  destruct s as [|c r]; [reflexivity|]. cbn [span_digits]. now rewrite Hs.
Qed.

Lemma first_digit n : exists c r, print_N n = String c r /\ is_digit c = true.
Proof.
  pose proof (print_N_nonempty n) as H. unfold print_N in *.
  destruct (N.to_uint n); cbn in *; try congruence; eexists _, _; split; reflexivity.
Qed.

Lemma parse_int_print z : (- 2147483648 <=? z)%Z && (z <? 2147483648)%Z = true ->
  parse_int 32 (print_Z z) = Some z.
Proof.
  intro H. apply andb_true_iff in H. destruct H as [H1 H2].
  apply Z.leb_le in H1. apply Z.ltb_lt in H2.
  assert (Hnn : forall n, (n < 2147483648)%N -> parse_int 32 (print_N n) = Some (Z.of_N n)).
  { intros n Hn. destruct (first_digit n) as (c & r & E & D). unfold parse_int. rewrite E.
    destruct (Ascii.eqb c "-") eqn:E1; [apply Ascii.eqb_eq in E1; subst c; discriminate D|].
    destruct (Ascii.eqb c "+") eqn:E2; [apply Ascii.eqb_eq in E2; subst c; discriminate D|].
    rewrite <- E, parse_print_N. cbn [obind].
    change (2 ^ (32 - 1))%N with 2147483648%N.
    destruct (N.ltb_spec n 2147483648); [reflexivity|lia]. }
  destruct z as [|p|p].
  - exact (Hnn 0%N eq_refl).
  - cbn [print_Z Z.to_N]. rewrite (Hnn (Npos p)); [reflexivity|lia].
  - cbn [print_Z]. unfold parse_int. cbn [Ascii.eqb Bool.eqb]. cbv iota.
    rewrite parse_print_N. cbn [obind]. change (2 ^ (32 - 1))%N with 2147483648%N.
    destruct (N.leb_spec (Npos p) 2147483648); [reflexivity|lia].
Qed.

Lemma parse_print_dur d : dur_ok d = true -> parse_duration (print_dur d) = Some (dur_ns d).
Proof.
  unfold dur_ok, parse_duration, print_dur, dur_ns, print_N. intro H.
  rewrite span_digits_uint by (destruct (du d); reflexivity).
  fold (print_N (dn d)). rewrite parse_print_N. cbn [obind].
  replace (parse_unit (unit_str (du d))) with (Some (du d)) by (destruct (du d); reflexivity).
  cbn [obind]. now rewrite H.
Qed.

(* ------------------------------------------------------------------ tokens <-> segments *)
Section SegInd.
  Variable P : seg -> Prop.
  Hypothesis H : forall ws hb body, Forall P body -> P (Seg ws hb body).
  Fixpoint seg_ind' (s : seg) : P s :=
    match s with
    | Seg ws hb body =>
        H ws hb body ((fix go (l : list seg) : Forall P l :=
                         match l with
                         | [] => Forall_nil _
                         | x :: r => Forall_cons _ (seg_ind' x) (go r)
                         end) body)
    end.
End SegInd.

Lemma take_words_map ws r :
  (match r with W _ :: _ => False | _ => True end) -> take_words (map W ws ++ r) = (ws, r).
Proof.
  intro Hr. induction ws as [|w ws IH]; cbn [map app take_words].
  - destruct r as [|[s| | |] r']; try reflexivity. contradiction.
  - now rewrite IH.
Qed.

(* continuation form: if the tokens [k] that follow parse to [l'] leaving [rest], then the
   printed segment followed by [k] parses to the segment followed by [l'] *)
Definition parses (k : list tok) (l' : list seg) (rest : list tok) : Prop :=
  forall f, (List.length k < f)%nat -> parse_segs f k = Some (l', rest).

Lemma parses_rb k : parses (RB :: k) [] (RB :: k).
Proof. intros f Hf. destruct f; [cbn in Hf; lia|reflexivity]. Qed.
Lemma parses_nil : parses [] [] [].
Proof. intros f Hf. destruct f; [cbn in Hf; lia|reflexivity]. Qed.

Lemma print_seg_parses s : seg_wf s = true ->
  forall k l' rest, parses k l' rest -> parses (print_seg s ++ k) (s :: l') rest.
Proof.
  induction s as [ws hb body IH] using seg_ind'. intro Hwf.
  cbn [seg_wf] in Hwf. apply andb_true_iff in Hwf. destruct Hwf as [Hwf Hbody].
  apply andb_true_iff in Hwf. destruct Hwf as [Hws Hhb].
  assert (Hblock : forall k l' rest, parses k l' rest ->
            parses (flat_map print_seg body ++ k) (body ++ l') rest).
  { clear Hws Hhb. induction IH as [|b body Hb _ IHb]; intros k l' rest Hk; [exact Hk|].
    cbn [forallb] in Hbody. apply andb_true_iff in Hbody. destruct Hbody as [Hb1 Hb2].
    cbn [flat_map]. rewrite <- app_assoc. cbn [app]. apply (Hb Hb1). now apply IHb. }
  intros k l' rest Hk f Hf.
  cbn [print_seg] in *. destruct hb.
  - (* block *)
    rewrite <- app_assoc in *. cbn [app] in *. rewrite <- app_assoc in *. cbn [app] in *.
    destruct f as [|f]; [cbn in Hf; lia|].
    assert (Hlen : (List.length (flat_map print_seg body ++ RB :: NL :: k) < f)%nat).
    { rewrite app_length in Hf. cbn [List.length] in Hf. lia. }
    assert (Hk2 : (List.length k < f)%nat).
    { rewrite app_length in Hlen. cbn [List.length] in Hlen. lia. }
    pose proof (Hblock (RB :: NL :: k) [] (RB :: NL :: k) (parses_rb _) f Hlen) as Hb.
    rewrite app_nil_r in Hb.
    destruct ws as [|w ws].
    + cbn [map app parse_segs take_words]. rewrite Hb, (Hk f Hk2). reflexivity.
    + cbn [map app parse_segs]. change (W w :: map W ws ++ LB :: NL :: flat_map print_seg body ++ RB :: NL :: k)
        with (map W (w :: ws) ++ LB :: NL :: flat_map print_seg body ++ RB :: NL :: k).
      rewrite take_words_map by exact I. rewrite Hb, (Hk f Hk2). reflexivity.
  - (* plain line *)
    destruct body; [|discriminate Hhb]. destruct ws as [|w ws]; [discriminate Hws|].
    rewrite <- app_assoc in *. cbn [app] in *.
    destruct f as [|f]; [cbn in Hf; lia|].
    assert (Hk2 : (List.length k < f)%nat).
    { cbn [map app List.length] in Hf. rewrite app_length in Hf. cbn [List.length] in Hf. lia. }
    cbn [map app parse_segs].
    change (W w :: map W ws ++ NL :: k) with (map W (w :: ws) ++ NL :: k).
    rewrite take_words_map by exact I. rewrite (Hk f Hk2). reflexivity.
Qed.

Lemma print_segs_parses l : forallb seg_wf l = true ->
  forall k l' rest, parses k l' rest -> parses (print_segs l ++ k) (l ++ l') rest.
Proof.
  induction l as [|s l IH]; intros Hwf k l' rest Hk; [exact Hk|].
  cbn [forallb] in Hwf. apply andb_true_iff in Hwf. destruct Hwf as [H1 H2].
  unfold print_segs. cbn [flat_map]. rewrite <- app_assoc. cbn [app].
  apply print_seg_parses; [exact H1|]. now apply IH.
Qed.

Theorem parse_file_print l : forallb seg_wf l = true -> parse_file (print_segs l) = Some l.
Proof.
  intro Hwf. unfold parse_file.
  pose proof (print_segs_parses l Hwf [] [] [] parses_nil (S (List.length (print_segs l)))) as H.
  rewrite !app_nil_r in H. rewrite H; [reflexivity|lia].
Qed.
