(* Lemmas about model/MatchDns.v: TCP framing is No-stable and never rejects a fragment of a matching
   message, the rule loop equals its specification, the matcher accepts exactly framed well-formed queries
   that pass the rule table, allocation bound, QUIC gate facts. *)
From Coq Require Import List NArith ZArith Bool Arith Lia.
From Coq.Strings Require Import Byte.
From L4.gen Require Import Consts Shape.
From L4.model Require Import GoBase MatchDns.
From L4.proofs Require Import GoBaseProofs.
Import ListNotations.

Lemma read_full_1_none_nil (r : list byte) : read_full 1 r = None -> r = [].
Proof. intro H. apply read_full_none in H. destruct r; [reflexivity|cbn in H; lia]. Qed.

Lemma read_full_1_app_cons (r s : list byte) : s <> [] -> exists x, read_full 1 (r ++ s) = Some x.
Proof.
  intro Hs. destruct (read_full 1 (r ++ s)) eqn:E; [eexists; reflexivity|].
  apply read_full_none in E. rewrite app_length in E. destruct s; [contradiction|cbn in E; lia].
Qed.

(* the bounds the source compares message sizes with are the protocol's: a DNS message may be up to 65535 bytes on either
   transport (EDNS0 lifts the 512-byte limit of RFC 1035 for UDP; the matcher cannot know the negotiated size) *)
Lemma dns_limits_src : l4dns_tcp_size_limit = 65535%Z /\ l4dns_udp_size_limit = 65535%Z.
Proof. split; reflexivity. Qed.
Lemma dns_limits_ok : dns_tcp_limit = dns_max_msg /\ dns_udp_limit = dns_max_msg.
Proof.
  unfold dns_tcp_limit, dns_udp_limit, dns_max_msg. destruct dns_limits_src as [A B]. rewrite A, B.
  rewrite <- Z_N_nat. change (Z.to_N 65535) with 65535%N. split; reflexivity.
Qed.

Section DnsProofs.
  Variable unpack : list byte -> option dnsmsg.
  Variable re_match : list byte -> list byte -> bool.
  Notation dmatch := (dns_match unpack re_match).

  (* the model has no panicking operation at all: every slice is behind a read that delivered the bytes *)
  Lemma dns_decide_cases c buf n : dns_decide unpack re_match c buf n = Yes \/ dns_decide unpack re_match c buf n = No.
  Proof.
    unfold dns_decide. destruct (unpack buf); [|right; reflexivity].
    destruct (negb _); [right; reflexivity|]. destruct (_ || _); [right; reflexivity|].
    destruct (has_rules c); [destruct (questions_loop _ _ _)|]; auto.
  Qed.

  Lemma dns_never_panics c tcp : never_panics (dmatch c tcp).
  Proof.
    intros p. unfold dns_match. destruct tcp.
    - destruct (read_full 2 p) as [[lb r1]|]; [|discriminate]. destruct (_ || _); [discriminate|].
      destruct (read_full _ r1) as [[buf r2]|]; [|discriminate]. destruct (read_full 1 r2); [discriminate|].
      destruct (dns_decide_cases c buf (N.to_nat (be_N lb))) as [E|E]; rewrite E; discriminate.
    - destruct (read_at_least _ _ p) as [[a b]|]; [|discriminate]. destruct (_ <? _)%nat; [discriminate|].
      destruct (dns_decide_cases c p (u16 (length p))) as [E|E]; rewrite E; discriminate.
  Qed.

  Lemma dns_never_fails c tcp p : dmatch c tcp p <> Fail.
  Proof.
    unfold dns_match. destruct tcp.
    - destruct (read_full 2 p) as [[lb r1]|]; [|discriminate]. destruct (_ || _); [discriminate|].
      destruct (read_full _ r1) as [[buf r2]|]; [|discriminate]. destruct (read_full 1 r2); [discriminate|].
      destruct (dns_decide_cases c buf (N.to_nat (be_N lb))) as [E|E]; rewrite E; discriminate.
    - destruct (read_at_least _ _ p) as [[a b]|]; [|discriminate]. destruct (_ <? _)%nat; [discriminate|].
      destruct (dns_decide_cases c p (u16 (length p))) as [E|E]; rewrite E; discriminate.
  Qed.

  (* ---- C06, TCP form ---- *)
  Lemma dns_tcp_no_stable c : no_stable (dmatch c true).
  Proof.
    intros p s H. destruct s as [|x s]; [rewrite app_nil_r; exact H|].
    unfold dns_match in *.
    destruct (read_full 2 p) as [[lb r1]|] eqn:E1; [|discriminate].
    rewrite (read_full_app _ _ (x :: s) _ _ E1).
    destruct (_ || _); [reflexivity|].
    destruct (read_full (N.to_nat (be_N lb)) r1) as [[buf r2]|] eqn:E2; [|discriminate].
    rewrite (read_full_app _ _ (x :: s) _ _ E2).
    destruct (read_full_1_app_cons r2 (x :: s)) as [y Hy]; [discriminate|]. rewrite Hy. reflexivity.
  Qed.

  Lemma dns_tcp_yes_exact c w : dmatch c true w = Yes ->
    exists lb buf, w = lb ++ buf /\ length lb = 2%nat /\ length buf = N.to_nat (be_N lb) /\
                   (dns_hdr <= length buf <= dns_max_msg)%nat /\ dns_decide unpack re_match c buf (length buf) = Yes.
  Proof.
    unfold dns_match. rewrite (proj1 dns_limits_ok). intro H.
    destruct (read_full 2 w) as [[lb r1]|] eqn:E1; [|discriminate].
    destruct ((_ <? _)%nat || (_ <? _)%nat) eqn:Eg; [discriminate|].
    destruct (read_full (N.to_nat (be_N lb)) r1) as [[buf r2]|] eqn:E2; [|discriminate].
    destruct (read_full 1 r2) eqn:E3; [discriminate|].
    apply read_full_1_none_nil in E3. subst r2.
    apply read_full_some in E1. destruct E1 as [Ew Hl]. apply read_full_some in E2. destruct E2 as [Er Hb].
    rewrite app_nil_r in Er. subst r1. exists lb, buf.
    apply orb_false_iff in Eg. destruct Eg as [G1 G2]. apply Nat.ltb_ge in G1. apply Nat.ltb_ge in G2.
    rewrite Hb. repeat split; try assumption; lia.
  Qed.

  Lemma dns_tcp_yes_not_rejected c : yes_not_rejected_on_prefix (dmatch c true).
  Proof.
    intros w p s Hw Hy Hno. subst w. destruct s as [|x s]; [rewrite app_nil_r in Hy; congruence|].
    pose proof (dns_tcp_no_stable c p (x :: s) Hno) as H. congruence.
  Qed.

  (* a proper prefix of a matching stream is answered More *)
  Lemma dns_tcp_prefix_more c p s : s <> [] -> dmatch c true (p ++ s) = Yes -> dmatch c true p = More.
  Proof.
    intros Hs Hy. destruct (dns_tcp_yes_exact _ _ Hy) as [lb [buf [Ew [Hl [Hb [_ _]]]]]].
    assert (Hlen : (length p < 2 + length buf)%nat).
    { assert (E : length (p ++ s) = length (lb ++ buf)) by (rewrite Ew; reflexivity). rewrite !app_length in E.
      destruct s; [contradiction|cbn in E; lia]. }
    unfold dns_match. destruct (read_full 2 p) as [[lb' r1]|] eqn:E1; [|reflexivity].
    pose proof (read_full_app _ _ s _ _ E1) as E1'. rewrite Ew in E1'.
    assert (E0 : read_full 2 (lb ++ buf) = Some (lb, buf)).
    { unfold read_full. rewrite app_length, Hl. cbn [Nat.ltb Nat.leb Nat.add]. rewrite <- Hl.
      rewrite firstn_app_le, firstn_all, skipn_app_le, skipn_all by lia. reflexivity. }
    rewrite E0 in E1'. inversion E1'; subst lb'. 
    pose proof (dns_tcp_yes_exact _ _ Hy) as _.
    unfold dns_match in Hy. rewrite Ew, E0 in Hy.
    destruct (_ || _); [discriminate|].
    apply read_full_some in E1. destruct E1 as [Ep Hl2].
    destruct (read_full (N.to_nat (be_N lb)) r1) as [[b2 r2]|] eqn:E2; [|reflexivity].
    apply read_full_some in E2. destruct E2 as [Er Hb2]. subst p r1. rewrite !app_length in Hlen. lia.
  Qed.

  (* anything after a complete frame is answered No (RFC 1035 4.2.2 allows several messages on one connection; the matcher
     deliberately treats a second message or garbage as "not DNS"), whatever the frame contains *)
  Lemma dns_tcp_trailing_no c (lb msg t : list byte) : length lb = 2%nat -> be_N lb = N.of_nat (length msg) -> t <> [] ->
    dmatch c true (lb ++ msg ++ t) = No.
  Proof.
    intros Hl Hb Ht. unfold dns_match.
    assert (E1 : read_full 2 (lb ++ msg ++ t) = Some (lb, msg ++ t)).
    { unfold read_full. rewrite app_length, Hl. cbn [Nat.ltb Nat.leb Nat.add]. rewrite <- Hl.
      rewrite firstn_app_le, firstn_all, skipn_app_le, skipn_all by lia. reflexivity. }
    rewrite E1, Hb, Nat2N.id. destruct (_ || _); [reflexivity|].
    assert (E2 : read_full (length msg) (msg ++ t) = Some (msg, t)).
    { unfold read_full. rewrite app_length. replace (length msg + length t <? length msg)%nat with false by (symmetry; apply Nat.ltb_ge; lia).
      rewrite firstn_app_le, firstn_all, skipn_app_le, skipn_all by lia. reflexivity. }
    rewrite E2. destruct (read_full 1 t) eqn:E3; [reflexivity|]. apply read_full_1_none_nil in E3. contradiction.
  Qed.

  (* ---- the rule table equals its specification ---- *)
  Lemma questions_loop_spec c qs : has_rules c = true ->
    questions_loop re_match c qs = forallb (question_spec re_match c) qs.
  Proof.
    intro Hr. induction qs as [|q qs IH]; [reflexivity|].
    cbn [questions_loop forallb]. unfold question_spec at 1.
    destruct (q_class q) as [cls|]; [|reflexivity]. destruct (q_type q) as [typ|]; [|reflexivity].
    unfold has_rules in Hr. rewrite <- IH.
    destruct (allow c) as [|a al] eqn:Ea; destruct (deny c) as [|d dl] eqn:Ed; cbn [nel negb andb orb] in *; try discriminate.
    - (* only deny *) remember (rules_match re_match (d :: dl) cls typ (lower_ascii (q_name q))) as D. cbn [rules_match].
      destruct D; cbn [negb andb orb]; [reflexivity|]. destruct (default_deny c); reflexivity.
    - (* only allow *) remember (rules_match re_match (a :: al) cls typ (lower_ascii (q_name q))) as A. cbn [rules_match].
      destruct A; cbn [negb andb orb]; reflexivity.
    - (* both *) remember (rules_match re_match (d :: dl) cls typ (lower_ascii (q_name q))) as D.
      remember (rules_match re_match (a :: al) cls typ (lower_ascii (q_name q))) as A.
      destruct D; destruct A; cbn [negb andb orb]; try reflexivity; destruct (prefer_allow c); destruct (default_deny c); reflexivity.
  Qed.

  (* the rules see the name only through its lower-case form *)
  Lemma question_spec_case_insensitive c n1 n2 cl ty : lower_ascii n1 = lower_ascii n2 ->
    question_spec re_match c {| q_name := n1; q_class := cl; q_type := ty |} =
    question_spec re_match c {| q_name := n2; q_class := cl; q_type := ty |}.
  Proof. intro H. unfold question_spec. cbn [q_name q_class q_type]. rewrite H. reflexivity. Qed.

  (* ---- C14: reference = "the framed bytes are a well-formed standard query whose questions pass the table" ---- *)
  Definition dns_ref (c : dcfg) (msg : list byte) : Prop :=
    exists m, unpack msg = Some m /\ d_len m = length msg /\ d_questions m <> [] /\ d_response m = false /\
              d_rcode m = 0%N /\ d_zero m = false /\ filter_spec re_match c (d_questions m) = true.

  Lemma dns_decide_iff_ref c buf : dns_decide unpack re_match c buf (length buf) = Yes <-> dns_ref c buf.
  Proof.
    unfold dns_decide, dns_ref, filter_spec. split.
    - destruct (unpack buf) as [m|]; [|discriminate]. destruct (Nat.eqb_spec (d_len m) (length buf)) as [El|El]; cbn [negb]; [|discriminate].
      destruct (length (d_questions m) =? 0)%nat eqn:Eq; cbn [orb]; [discriminate|].
      destruct (d_response m) eqn:Er; cbn [orb]; [discriminate|].
      destruct (N.eqb_spec (d_rcode m) 0) as [Ec|Ec]; cbn [negb orb]; [|discriminate].
      destruct (d_zero m) eqn:Ez; [discriminate|]. intro H. exists m.
      repeat split; try assumption; try reflexivity.
      + intro E. rewrite E in Eq. discriminate.
      + destruct (has_rules c) eqn:Eh; [|reflexivity]. rewrite <- questions_loop_spec by exact Eh.
        destruct (questions_loop _ _ _); [reflexivity|discriminate].
    - intros [m [Eu [El [Eq [Er [Ec [Ez Hf]]]]]]]. rewrite Eu, El, Nat.eqb_refl. cbn [negb].
      destruct (d_questions m) as [|q0 qs0] eqn:Eqs; [contradiction|]. cbn [length Nat.eqb orb]. rewrite Er, Ec, Ez. cbn [N.eqb negb orb].
      destruct (has_rules c) eqn:Eh; [|reflexivity]. rewrite questions_loop_spec by exact Eh. rewrite Hf. reflexivity.
  Qed.

  Lemma read_full_exact (a b : list byte) : read_full (length a) (a ++ b) = Some (a, b).
  Proof.
    unfold read_full. rewrite app_length. replace (length a + length b <? length a)%nat with false by (symmetry; apply Nat.ltb_ge; lia).
    rewrite firstn_app_le, firstn_all, skipn_app_le, skipn_all by lia. reflexivity.
  Qed.

  (* TCP: the RFC 1035 4.2.2 frame (two-byte big-endian length, then the message, nothing after it) *)
  Theorem dns_tcp_match_iff_ref c msg lb :
    length lb = 2%nat -> be_N lb = N.of_nat (length msg) ->
    (dmatch c true (lb ++ msg) = Yes <-> (dns_hdr <= length msg <= dns_max_msg)%nat /\ dns_ref c msg).
  Proof.
    intros Hl Hb. unfold dns_match. rewrite (proj1 dns_limits_ok). rewrite <- Hl at 1. rewrite read_full_exact. rewrite Hb, Nat2N.id.
    destruct ((length msg <? dns_hdr)%nat || (dns_max_msg <? length msg)%nat) eqn:Eg.
    - split; [discriminate|]. intros [[G1 G2] _]. apply orb_true_iff in Eg. destruct Eg as [G|G]; apply Nat.ltb_lt in G; lia.
    - apply orb_false_iff in Eg. destruct Eg as [G1 G2]. apply Nat.ltb_ge in G1. apply Nat.ltb_ge in G2.
      rewrite <- (app_nil_r msg) at 2. rewrite read_full_exact. cbn [read_full length Nat.ltb Nat.leb].
      rewrite dns_decide_iff_ref. split; [intro H; split; [lia|exact H]|intros [_ H]; exact H].
  Qed.

  (* UDP: the datagram is the message *)
  Theorem dns_udp_match_iff_ref c msg :
    (dmatch c false msg = Yes <-> (dns_hdr <= length msg <= dns_max_msg)%nat /\ dns_ref c msg).
  Proof.
    unfold dns_match, read_at_least. rewrite (proj2 dns_limits_ok).
    destruct (Nat.ltb_spec (length msg) dns_hdr) as [G1|G1]; [split; [discriminate|intros [[? ?] _]; lia]|].
    destruct (Nat.ltb_spec dns_max_msg (length msg)) as [G2|G2]; [split; [discriminate|intros [[? ?] _]; lia]|].
    replace (u16 (length msg)) with (length msg).
    2:{ unfold u16. rewrite N.mod_small; [rewrite Nat2N.id; reflexivity|]. unfold dns_max_msg in G2. lia. }
    rewrite dns_decide_iff_ref. split; [intro H; split; [lia|exact H]|intros [_ H]; exact H].
  Qed.

  (* ---- C04: allocation ---- *)
  Lemma dns_alloc_bound tcp p : (Z.of_nat (length p) <= layer4_MaxMatchingBytes)%Z ->
    (Z.of_N (dns_alloc tcp p) <= 16 * layer4_MaxMatchingBytes)%Z.
  Proof.
    intro H. unfold dns_alloc. change layer4_MaxMatchingBytes with 8192%Z in *. destruct tcp.
    - destruct (read_full 2 p) as [[lb r]|] eqn:E; [|lia]. apply read_full_some in E. destruct E as [_ Hl].
      pose proof (CodecLen := Hl). assert (Hb : (be_N lb < 65536)%N).
      { destruct lb as [|a [|b [|c r']]]; try discriminate. unfold be_N. cbn [fold_left].
        pose proof (Byte.to_N_bounded a). pose proof (Byte.to_N_bounded b). unfold bN. lia. }
      lia.
    - change dns_hdr with 12%nat. change dns_min_msg with 512%nat. lia.
  Qed.
End DnsProofs.

(* ---- QUIC gate ---- *)
Lemma quic_gate_non_udp p : quic_gate false p = GNo.
Proof. reflexivity. Qed.

Lemma quic_gate_pass udp p pkt : quic_gate udp p = GPass pkt ->
  udp = true /\ (quic_min <= length pkt <= quic_max)%nat /\ pkt = firstn (length pkt) p /\
  exists b, nth_error p 0 = Some b /\ N.land (bN b) 192 = 192%N.
Proof.
  unfold quic_gate. destruct udp; cbn [negb]; [|discriminate].
  unfold read_at_least. destruct (Nat.ltb_spec (length p) 1) as [H0|H0]; [discriminate|].
  destruct p as [|b p']; [cbn in H0; lia|]. cbn [firstn skipn].
  change (Z.to_N l4quic_QUICMagicBitValue) with 64%N. change (Z.to_N l4quic_QUICLongHeaderBitValue) with 128%N.
  destruct (N.eqb_spec (N.land (bN b) 64) 0) as [E1|E1]; [discriminate|].
  destruct (N.eqb_spec (N.land (bN b) 128) 0) as [E2|E2]; [discriminate|].
  destruct (Nat.ltb_spec (length p') 1) as [H1|H1]; [discriminate|].
  change quic_max with 1452%nat. change quic_min with 1200%nat.
  pose proof (firstn_le_length 1452 p') as H4. pose proof (firstn_firstn p' (length (firstn 1452 p')) 1452) as H5.
  remember (firstn 1452 p') as rest eqn:Hrest.
  destruct (Nat.ltb_spec (length rest) (1200 - 1)) as [H2|H2]; cbn [orb]; [discriminate|].
  destruct (Nat.eqb_spec (length rest) 1452) as [H3|H3]; [discriminate|].
  intro H. injection H as H. subst pkt. split; [reflexivity|].
  cbn [length]. split; [lia|]. split.
  - cbn [firstn]. f_equal. rewrite firstn_all in H5. replace (Nat.min (length rest) 1452) with (length rest) in H5 by lia. exact H5.
  - exists b. split; [reflexivity|].
    assert (Hb : (bN b < 256)%N) by (unfold bN; pose proof (Byte.to_N_bounded b); lia).
    assert (K : forall n, (n < 256)%N -> N.land n 64 <> 0%N -> N.land n 128 <> 0%N -> N.land n 192 = 192%N).
    { intros n Hn. rewrite <- (N2Nat.id n). assert (Hn' : (N.to_nat n < 256)%nat) by lia. revert Hn'. generalize (N.to_nat n). clear.
      intros k Hk. assert (G : forallb (fun k => (N.land (N.of_nat k) 64 =? 0)%N || (N.land (N.of_nat k) 128 =? 0)%N || (N.land (N.of_nat k) 192 =? 192)%N) (seq 0 256) = true) by (vm_compute; reflexivity).
      rewrite forallb_forall in G. specialize (G k). intros A B. assert (Hin : In k (seq 0 256)) by (apply in_seq; lia). specialize (G Hin).
      apply orb_true_iff in G. destruct G as [G|G]; [apply orb_true_iff in G; destruct G as [G|G]; apply N.eqb_eq in G; contradiction|apply N.eqb_eq in G; exact G]. }
    apply K; assumption.
Qed.

Lemma quic_alloc_bound : (Z.of_N quic_alloc <= 16 * layer4_MaxMatchingBytes)%Z.
Proof. vm_compute. discriminate. Qed.
