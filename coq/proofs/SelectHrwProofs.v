(* ip_hash: the HRW choice is the first maximal-hash available upstream; it is therefore a
   function of the client address and the available members only, and it is kept when other
   upstreams leave the pool (C10). *)
From Coq Require Import List ZArith NArith Bool Lia Arith.
From Coq.Strings Require Import Byte.
From L4 Require Import Hex.
From L4.model Require Import Select.
From L4.proofs Require Import SelectProofs.
Import ListNotations.
Open Scope N_scope.

Section HRWStab.
  Variable hashf : list byte -> N.
  Variable s : list byte.
  Definition hs (u : upstream) : N := hashf (uname u ++ s).

  (* the same loop over a plain list, tracking the chosen upstream itself *)
  Fixpoint best_u (l : list upstream) (cur : option upstream) (hi : N) : option upstream :=
    match l with
    | [] => cur
    | u :: r =>
        if available u then
          if (match cur with Some _ => false | None => true end) || (hi <? hs u)
          then best_u r (Some u) (hs u) else best_u r cur hi
        else best_u r cur hi
    end.

  Lemma best_u_keep l : forall c hi,
    (forall v, In v l -> available v = true -> hs v <= hi) -> best_u l (Some c) hi = Some c.
  Proof.
    induction l as [|v r IH]; intros c hi H; cbn [best_u]; [reflexivity|].
    destruct (available v) eqn:E.
    - cbn [orb]. assert (hs v <= hi) by (apply H; [left; reflexivity|exact E]).
      replace (hi <? hs v) with false by (symmetry; apply N.ltb_ge; assumption).
      apply IH. intros w Hw. apply H. right. exact Hw.
    - apply IH. intros w Hw. apply H. right. exact Hw.
  Qed.

  Definition chosen (l : list upstream) (u : upstream) (cur : option upstream) (hi : N) : Prop :=
    exists l1 l2, l = l1 ++ u :: l2 /\ available u = true /\ (cur = None \/ hi < hs u) /\
      (forall v, In v l1 -> available v = true -> hs v < hs u) /\
      (forall v, In v l2 -> available v = true -> hs v <= hs u).

  Lemma best_u_char l : forall cur hi u,
    best_u l cur hi = Some u ->
    (cur = Some u /\ forall v, In v l -> available v = true -> hs v <= hi) \/ chosen l u cur hi.
  Proof.
    induction l as [|v r IH]; intros cur hi u H; cbn [best_u] in H.
    - left. split; [exact H|]. intros v [].
    - destruct (available v) eqn:E.
      + destruct ((match cur with Some _ => false | None => true end) || (hi <? hs v)) eqn:C.
        * assert (Hrep : cur = None \/ hi < hs v).
          { apply orb_true_iff in C. destruct C as [C|C]; [left; destruct cur; [discriminate|reflexivity]|right; apply N.ltb_lt; exact C]. }
          apply IH in H. destruct H as [[Hc Hall]|(l1 & l2 & Hl & Ha & Hgt & H1 & H2)].
          -- inversion Hc; subst u. right. exists [], r. split; [reflexivity|]. split; [exact E|]. split; [exact Hrep|].
             split; [intros w []|exact Hall].
          -- right. exists (v :: l1), l2. split; [rewrite Hl; reflexivity|]. split; [exact Ha|].
             destruct Hgt as [Hgt|Hgt]; [discriminate|].
             split; [destruct Hrep as [Hn|Hlt]; [left; exact Hn|right; lia]|].
             split; [|exact H2]. intros w [Hw|Hw] Haw; [subst w; exact Hgt|apply H1; assumption].
        * apply orb_false_iff in C. destruct C as [C1 C2]. apply N.ltb_ge in C2.
          destruct cur as [c|]; [|discriminate].
          apply IH in H. destruct H as [[Hc Hall]|(l1 & l2 & Hl & Ha & Hgt & H1 & H2)].
          -- left. split; [exact Hc|]. intros w [Hw|Hw] Haw; [subst w; exact C2|apply Hall; assumption].
          -- right. exists (v :: l1), l2. split; [rewrite Hl; reflexivity|]. split; [exact Ha|].
             destruct Hgt as [Hgt|Hgt]; [discriminate|].
             split; [right; exact Hgt|]. split; [|exact H2].
             intros w [Hw|Hw] Haw; [subst w; lia|apply H1; assumption].
      + apply IH in H. destruct H as [[Hc Hall]|(l1 & l2 & Hl & Ha & Hgt & H1 & H2)].
        * left. split; [exact Hc|]. intros w [Hw|Hw] Haw; [subst w; congruence|apply Hall; assumption].
        * right. exists (v :: l1), l2. split; [rewrite Hl; reflexivity|]. split; [exact Ha|]. split; [exact Hgt|].
          split; [|exact H2]. intros w [Hw|Hw] Haw; [subst w; congruence|apply H1; assumption].
  Qed.

  Lemma best_u_of_chosen u l2 : forall l1 cur hi,
    available u = true -> (cur = None \/ hi < hs u) ->
    (forall v, In v l1 -> available v = true -> hs v < hs u) ->
    (forall v, In v l2 -> available v = true -> hs v <= hs u) ->
    best_u (l1 ++ u :: l2) cur hi = Some u.
  Proof.
    induction l1 as [|v r IH]; intros cur hi Ha Hgt H1 H2; cbn [app best_u].
    - rewrite Ha. replace ((match cur with Some _ => false | None => true end) || (hi <? hs u)) with true.
      + apply best_u_keep. exact H2.
      + symmetry. apply orb_true_iff. destruct Hgt as [Hn|Hlt]; [left; subst; reflexivity|right; apply N.ltb_lt; exact Hlt].
    - assert (H1' : forall w, In w r -> available w = true -> hs w < hs u) by (intros w Hw; apply H1; right; exact Hw).
      destruct (available v) eqn:E.
      + destruct ((match cur with Some _ => false | None => true end) || (hi <? hs v)).
        * apply IH; [exact Ha|right; apply H1; [left; reflexivity|exact E]|exact H1'|exact H2].
        * apply IH; assumption.
      + apply IH; assumption.
  Qed.

  Lemma best_u_stable l u keep :
    best_u l None 0 = Some u -> keep u = true -> best_u (filter keep l) None 0 = Some u.
  Proof.
    intros H Hk. apply best_u_char in H. destruct H as [[Hc _]|(l1 & l2 & Hl & Ha & Hgt & H1 & H2)]; [discriminate|].
    subst l. rewrite filter_app. cbn [filter]. rewrite Hk.
    apply best_u_of_chosen; [exact Ha|left; reflexivity| |].
    - intros v Hv. apply filter_In in Hv. apply H1. tauto.
    - intros v Hv. apply filter_In in Hv. apply H2. tauto.
  Qed.

  Lemma best_u_avail_only l : best_u l None 0 = best_u (filter available l) None 0.
  Proof.
    generalize (@None upstream) 0. induction l as [|v r IH]; intros cur hi; cbn [best_u filter]; [reflexivity|].
    destruct (available v) eqn:E; [|apply IH]. cbn [best_u]. rewrite E.
    destruct ((match cur with Some _ => false | None => true end) || (hi <? hs v)); apply IH.
  Qed.

  (* link with the index-returning loop of the model *)
  Definition sel_u (pool : list upstream) (c : sel) : option upstream :=
    match c with Sel i => nth_error pool i | _ => None end.
  Definition sel_ok (pool : list upstream) (c : sel) : Prop :=
    c = Nil \/ exists i u, c = Sel i /\ nth_error pool i = Some u.

  Lemma hrw_go_best pool l : forall cur hi,
    wf_idx pool l -> sel_ok pool cur ->
    sel_ok pool (hrw_go hashf l s cur hi) /\
    sel_u pool (hrw_go hashf l s cur hi) = best_u (map snd l) (sel_u pool cur) hi.
  Proof.
    induction l as [|[j v] r IH]; intros cur hi Hwf Hok; cbn [hrw_go map snd best_u]; [split; [exact Hok|reflexivity]|].
    assert (Hwf' : wf_idx pool r) by (eapply wf_tail; exact Hwf).
    assert (Hv : nth_error pool j = Some v) by (apply Hwf; left; reflexivity).
    assert (Hsame : (match cur with Sel _ => false | _ => true end) = (match sel_u pool cur with Some _ => false | None => true end)).
    { destruct Hok as [->|(i & u & -> & Hu)]; cbn; [reflexivity|rewrite Hu; reflexivity]. }
    destruct (available v) eqn:E; [|apply IH; assumption].
    rewrite Hsame. fold (hs v).
    destruct ((match sel_u pool cur with Some _ => false | None => true end) || (hi <? hs v)).
    - specialize (IH (Sel j) (hs v) Hwf'). cbn [sel_u] in IH. rewrite Hv in IH. apply IH.
      right. exists j, v. split; [reflexivity|exact Hv].
    - apply IH; assumption.
  Qed.

  Lemma map_snd_indexed (pool : list upstream) : map snd (indexed pool) = pool.
  Proof.
    unfold indexed. generalize 0%nat. induction pool as [|u r IH]; intro k; cbn; [reflexivity|]. rewrite IH. reflexivity.
  Qed.

  Lemma hrw_best pool : sel_ok pool (hrw hashf pool s) /\ sel_u pool (hrw hashf pool s) = best_u pool None 0.
  Proof.
    unfold hrw. destruct (hrw_go_best pool (indexed pool) Nil 0 (wf_indexed pool)) as [H1 H2]; [left; reflexivity|].
    split; [exact H1|]. rewrite H2, map_snd_indexed. reflexivity.
  Qed.

  Theorem hrw_stable_under_removal pool i u keep :
    hrw hashf pool s = Sel i -> nth_error pool i = Some u -> keep u = true ->
    exists j, hrw hashf (filter keep pool) s = Sel j /\ nth_error (filter keep pool) j = Some u.
  Proof.
    intros H Hu Hk. destruct (hrw_best pool) as [_ Hb]. rewrite H in Hb. cbn [sel_u] in Hb. rewrite Hu in Hb.
    symmetry in Hb. apply (best_u_stable pool u keep) in Hb; [|exact Hk].
    destruct (hrw_best (filter keep pool)) as [Hok Hb']. rewrite Hb in Hb'.
    destruct Hok as [Hn|(j & w & Hj & Hw)]; [rewrite Hn in Hb'; discriminate|].
    exists j. split; [exact Hj|]. rewrite Hj in Hb'. exact Hb'.
  Qed.

  Theorem hrw_depends_on_available_only pool :
    sel_u pool (hrw hashf pool s) = sel_u (filter available pool) (hrw hashf (filter available pool) s).
  Proof.
    destruct (hrw_best pool) as [_ H1]. destruct (hrw_best (filter available pool)) as [_ H2].
    rewrite H1, H2. apply best_u_avail_only.
  Qed.
End HRWStab.
