(* Proofs about MatchWinbox.Match, part 3: it accepts exactly the wire encodings (of at most
   MessageAuthBytesMax bytes) of well-formed auth messages that pass the configured filters. *)
From Coq Require Import List NArith ZArith Bool Arith Lia.
From Coq.Strings Require Import Byte.
From L4.gen Require Import Consts.
From L4.model Require Import GoBase CodecBase CodecWinbox.
From L4.proofs Require Import GoBaseProofs CodecBaseProofs CodecWinboxProofs CodecWinboxCodecProofs.
Import ListNotations.
Local Open Scope nat_scope.

(* the filter options as the module documents them *)
Definition wb_passes (c : wb_cfg) (m : msg_auth) : Prop :=
  (if get_romon m then wc_romon c = true else wc_std c = true) /\
  (wc_user c <> [] -> wc_user c = get_username m) /\
  (wc_user c = [] -> forall f, wc_rx c = Some f -> f (get_username m) = true).

Lemma wb_filters_iff c m : wb_filters c m = Yes <-> wb_passes c m.
Proof.
  unfold wb_filters, wb_passes. destruct (get_romon m).
  - destruct (wc_romon c); cbn [negb]; [|split; [discriminate|intros (H & _); discriminate]].
    destruct (wc_user c) as [|u0 ur] eqn:Eu; cbn [length Nat.ltb Nat.leb Nat.eqb andb].
    + destruct (wc_rx c) as [f|]; [destruct (f (get_username m)) eqn:Ef; cbn [negb]|].
      * split; [intros _; repeat split; [intro H; contradiction|intros _ g Hg; inversion Hg; subst; exact Ef]|reflexivity].
      * split; [discriminate|]. intros (_ & _ & H). specialize (H eq_refl f eq_refl). congruence.
      * split; [intros _; repeat split; [intro H; contradiction|intros _ g Hg; discriminate]|reflexivity].
    + destruct (bytes_eqb (u0 :: ur) (get_username m)) eqn:Eb; cbn [negb].
      * apply bytes_eqb_eq in Eb. split; [intros _; repeat split; [intros _; exact Eb|intro H; discriminate]|reflexivity].
      * split; [discriminate|]. intros (_ & H & _). assert (u0 :: ur = get_username m) as E by (apply H; discriminate).
        apply bytes_eqb_eq in E. congruence.
  - destruct (wc_std c); cbn [negb]; [|split; [discriminate|intros (H & _); discriminate]].
    destruct (wc_user c) as [|u0 ur] eqn:Eu; cbn [length Nat.ltb Nat.leb Nat.eqb andb].
    + destruct (wc_rx c) as [f|]; [destruct (f (get_username m)) eqn:Ef; cbn [negb]|].
      * split; [intros _; repeat split; [intro H; contradiction|intros _ g Hg; inversion Hg; subst; exact Ef]|reflexivity].
      * split; [discriminate|]. intros (_ & _ & H). specialize (H eq_refl f eq_refl). congruence.
      * split; [intros _; repeat split; [intro H; contradiction|intros _ g Hg; discriminate]|reflexivity].
    + destruct (bytes_eqb (u0 :: ur) (get_username m)) eqn:Eb; cbn [negb].
      * apply bytes_eqb_eq in Eb. split; [intros _; repeat split; [intros _; exact Eb|intro H; discriminate]|reflexivity].
      * split; [discriminate|]. intros (_ & H & _). assert (u0 :: ur = get_username m) as E by (apply H; discriminate).
        apply bytes_eqb_eq in E. congruence.
Qed.

Lemma wb_filters_yes_no c m : wb_filters c m = Yes \/ wb_filters c m = No.
Proof. unfold wb_filters. repeat match goal with |- context [if ?e then _ else _] => destruct e end; tauto. Qed.

Lemma wb_match_yes_sound c b : wb_match c b = Yes ->
  exists m, auth_from_bytes b = Ok m /\ wb_filters c m = Yes /\ length b <= wb_auth_max.
Proof.
  unfold wb_match. destruct (read_full 2 b) as [[hdr r1]|] eqn:E1; [|discriminate].
  apply read_full_some in E1. destruct E1 as [Eb Lh].
  set (h0 := N.to_nat (bN (nth 0 hdr x00))). assert (Hh0 : h0 <= 255) by (unfold h0; pose proof (bN_lt (nth 0 hdr x00)); lia).
  destruct (_ || _); [discriminate|].
  set (l := if h0 =? wb_chunk_max then wb_auth_max - 2 else h0).
  assert (Hl : l <= wb_auth_max - 2) by (unfold l; destruct (h0 =? wb_chunk_max); [lia|change wb_auth_max with 293; lia]).
  destruct (read_at_least (l + 1) h0 r1) as [[got r2]|] eqn:Era; [|discriminate].
  apply read_at_least_some in Era. destruct Era as (Eg & _ & _).
  destruct (Nat.ltb_spec l (length got)) as [Hn|Hn]; [discriminate|].
  assert (Egot : got = r1).
  { subst got. rewrite firstn_length in Hn. apply firstn_all2. lia. }
  rewrite Egot, <- Eb.
  destruct (auth_from_bytes b) as [m| |] eqn:Ef.
  - intro Hf. exists m. repeat split; [exact Hf|]. subst b. rewrite app_length. subst got. rewrite firstn_length in Hn. change wb_auth_max with 293 in *. lia.
  - destruct (h0 =? wb_chunk_max); [|discriminate]. destruct (length r1 =? wb_chunk_max); [discriminate|].
    destruct (index r1 wb_chunk_max); [|discriminate]. destruct (_ && _ && _); discriminate.
  - discriminate.
Qed.

Lemma wb_match_complete c m : auth_wf m -> wb_filters c m = Yes -> length (auth_to_bytes m) <= wb_auth_max ->
  wb_match c (auth_to_bytes m) = Yes.
Proof.
  intros Hwf Hfil Hlen. pose proof (auth_from_to m Hwf) as Hft.
  unfold auth_to_bytes, auth_to_chunks in *. set (d := auth_payload m) in *.
  assert (Ld : length d = length (ma_user m) + 1 + wb_key_sz + 1).
  { destruct Hwf as (_ & Hk & _ & _). unfold d, auth_payload. rewrite !app_length. cbn [length]. lia. }
  assert (Hu : 1 <= length (ma_user m)) by (destruct Hwf as (_ & _ & Hne & _); destruct (ma_user m); [contradiction|cbn; lia]).
  assert (Hne : d <> []) by (intro E; rewrite E in Ld; cbn in Ld; lia).
  destruct (cut_spec (length d / wb_chunk_max + 1) true d Hne) as [Hg Hfm]; [lia|].
  set (cs := cut (length d / wb_chunk_max + 1) true d) in *.
  destruct cs as [|c1 cs']; [cbn in Hg; contradiction|]. cbn [good] in Hg. destruct Hg as (Ht & Hl1 & Hrest).
  destruct c1 as [bs ln ty]. cbn [ch_bytes ch_len ch_type] in *. subst ln ty.
  cbn [chunks_to_bytes flat_map ch_bytes ch_len ch_type] in *. fold (chunks_to_bytes cs') in *.
  set (X := chunks_to_bytes cs') in *.
  assert (Hb : 35 <= length bs <= 255 /\ (length bs < 255 -> X = [])).
  { destruct cs' as [|c2 cs2].
    - cbn [flat_map] in Hfm. rewrite app_nil_r in Hfm. subst bs. change wb_chunk_max with 255 in Hrest. change wb_key_sz with 32 in Ld. split; [lia|]. intros _. reflexivity.
    - destruct Hrest as [Hl2 _]. change wb_chunk_max with 255 in Hl2. split; [lia|]. lia. }
  destruct Hb as [Hb HX].
  set (lb := nb (N.of_nat (length bs))) in *.
  assert (HbN : N.to_nat (bN lb) = length bs) by (unfold lb; rewrite bN_nb by lia; apply Nat2N.id).
  set (b := (lb :: ty_of true :: bs) ++ X) in *.
  unfold wb_match.
  assert (E1 : read_full 2 b = Some ([lb; ty_of true], bs ++ X)) by reflexivity.
  rewrite E1. cbn [nth]. rewrite HbN.
  destruct (Nat.ltb_spec (length bs) (wb_auth_min - 2)) as [Hlt|_]; [change wb_auth_min with 37 in Hlt; lia|].
  change (ty_of true) with wb_type_auth. rewrite byte_eqb_refl. cbn [negb orb].
  set (l := if length bs =? wb_chunk_max then wb_auth_max - 2 else length bs).
  assert (Lb : length b = 2 + length bs + length X) by (unfold b; cbn [app length]; rewrite app_length; lia).
  assert (Hl : length (bs ++ X) <= l).
  { rewrite app_length. unfold l. destruct (Nat.eqb_spec (length bs) wb_chunk_max) as [E|E].
    - change wb_auth_max with 293 in *. lia.
    - change wb_chunk_max with 255 in E. rewrite HX by lia. cbn [length]. lia. }
  unfold read_at_least. destruct (Nat.ltb_spec (length (bs ++ X)) (length bs)) as [Hlt|_]; [rewrite app_length in Hlt; lia|].
  rewrite firstn_all2 by lia.
  destruct (Nat.ltb_spec l (length (bs ++ X))) as [Hlt|_]; [lia|].
  change ([lb; wb_type_auth] ++ bs ++ X) with b. rewrite Hft. exact Hfil.
Qed.

Theorem wb_match_iff_ref c b :
  wb_match c b = Yes <-> exists m, auth_wf m /\ wb_passes c m /\ b = auth_to_bytes m /\ length b <= wb_auth_max.
Proof.
  split.
  - intro H. destruct (wb_match_yes_sound c b H) as (m & Hf & Hp & Hl). exists m.
    split; [exact (auth_from_bytes_wf b m Hf)|]. split; [apply wb_filters_iff; exact Hp|]. split; [symmetry; exact (auth_to_from b m Hf)|exact Hl].
  - intros (m & Hwf & Hp & Hb & Hl). subst b. apply wb_match_complete; [exact Hwf|apply wb_filters_iff; exact Hp|exact Hl].
Qed.

(* the documented user-name grammar: starts and ends with an alphanumeric, inner characters also _ . # - @ *)
Definition doc_username_ok (u : list byte) : bool :=
  match u with
  | [] => false
  | a :: _ => is_alnum a && is_alnum (last u x00) && forallb is_inner u
  end.

Lemma alnum_inner b : is_alnum b = true -> is_inner b = true.
Proof. intro H. unfold is_inner. rewrite H. reflexivity. Qed.

(* the user-name expression of the code is the documented grammar *)
Theorem username_ok_iff_doc u : username_ok u = doc_username_ok u.
Proof.
  destruct u as [|a r]; [reflexivity|]. destruct r as [|b r'].
  - cbn [username_ok doc_username_ok last forallb]. destruct (is_alnum a) eqn:E; [rewrite (alnum_inner a E)|]; reflexivity.
  - set (r := b :: r').
    change (username_ok (a :: r)) with (is_alnum a && forallb is_inner (removelast r) && is_alnum (last r x00)).
    change (doc_username_ok (a :: r)) with (is_alnum a && is_alnum (last r x00) && (is_inner a && forallb is_inner r)).
    assert (Hf : forallb is_inner r = forallb is_inner (removelast r) && (is_inner (last r x00) && true)).
    { rewrite (app_removelast_last x00 (l := r)) at 1 by discriminate. rewrite forallb_app. reflexivity. }
    rewrite Hf.
    destruct (is_alnum a) eqn:Ea; [rewrite (alnum_inner a Ea)|reflexivity].
    destruct (is_alnum (last r x00)) eqn:El; [rewrite (alnum_inner _ El)|rewrite !andb_false_r; reflexivity].
    cbn [andb]. rewrite !andb_true_r. reflexivity.
Qed.
