(* Lemmas about model/CodecOpenVpn.v: the inverse laws of every FromBytes*/ToBytes pair, rejection of
   wrong lengths, absence of slice panics. *)
From Coq Require Import List NArith ZArith Bool Arith Lia.
From Coq.Strings Require Import Byte.
From L4.gen Require Import Consts.
From L4.model Require Import GoBase CodecOpenVpn.
From L4.proofs Require Import GoBaseProofs.
Import ListNotations.

(* ---- constants: the sizes as numbers (breaks when messages.go's const block changes) ---- *)
Ltac sizes :=
  change sz_len with 2%nat in *; change sz_hdr with 1%nat in *; change sz_pid with 4%nat in *;
  change sz_sid with 8%nat in *; change sz_ts with 4%nat in *; change sz_ack with 1%nat in *;
  change sz_mdtype with 1%nat in *; change sz_key with 256%nat in *; change crypt_hmac with 32%nat in *;
  change wk_max with 1024%nat in *; change wk_min with 290%nat in *;
  change plain_hl with 13%nat in *; change plain_total with 14%nat in *;
  change auth_max_hl with 85%nat in *; change auth_max with 86%nat in *;
  change auth_min_hl with 37%nat in *; change auth_min with 38%nat in *;
  change crypt_hl with 53%nat in *; change crypt_total with 54%nat in *;
  change crypt2_min_hl with 343%nat in *; change crypt2_min with 344%nat in *;
  change crypt2_max_hl with 1077%nat in *; change crypt2_max with 1078%nat in *;
  change (digest_size digest_default) with 32%nat in *.

Lemma consts_ok :
  plain_hl = 13%nat /\ plain_total = 14%nat /\ auth_min_hl = 37%nat /\ auth_max_hl = 85%nat /\ crypt_hl = 53%nat /\
  crypt2_min_hl = 343%nat /\ crypt2_max_hl = 1077%nat /\ wk_min = 290%nat /\ wk_max = 1024%nat /\
  op_v2 = 7%N /\ op_v3 = 10%N /\ keyid_mask = 7%N /\ op_shift = 3%N /\
  auth_digest_sizes = [16; 20; 28; 32; 36; 48; 64]%nat /\ digest_size digest_default = crypt_hmac.
Proof. vm_compute. repeat split. Qed.

(* ---- bytes and big-endian integers ---- *)
Lemma byte_of_bN b : byte_of (bN b) = b.
Proof. unfold byte_of, bN. rewrite Byte.of_to_N. reflexivity. Qed.

Lemma bN_lt b : (bN b < 256)%N.
Proof. unfold bN. pose proof (Byte.to_N_bounded b). lia. Qed.

Lemma bN_byte_of n : (n < 256)%N -> bN (byte_of n) = n.
Proof.
  intro Hn. unfold byte_of, bN. destruct (Byte.of_N n) as [b|] eqn:E.
  - apply Byte.to_of_N in E. exact E.
  - apply Byte.of_N_None_iff in E. lia.
Qed.

Lemma be_N_app l b : be_N (l ++ [b]) = (be_N l * 256 + bN b)%N.
Proof. unfold be_N. rewrite fold_left_app. reflexivity. Qed.

Lemma N_to_be_length w : forall v, length (N_to_be w v) = w.
Proof. induction w as [|w IH]; intro v; cbn [N_to_be]; [reflexivity|]. rewrite app_length, IH. cbn. lia. Qed.

Lemma N_to_be_S w v : N_to_be (S w) v = N_to_be w (v / 256)%N ++ [byte_of (v mod 256)%N].
Proof. reflexivity. Qed.

Lemma list_snoc {A} (l : list A) n : length l = S n -> exists l' x, l = l' ++ [x] /\ length l' = n.
Proof.
  intro H. destruct (@exists_last A l) as [l' [x Hx]]; [intro E; subst; discriminate|].
  exists l', x. split; [exact Hx|]. subst. rewrite app_length in H. cbn in H. lia.
Qed.

Lemma N_to_be_be_N w : forall l, length l = w -> N_to_be w (be_N l) = l.
Proof.
  induction w as [|w IH]; intros l Hl.
  - destruct l; [reflexivity|discriminate].
  - destruct (list_snoc l w Hl) as [l' [x [E Hl']]]. subst l. rewrite be_N_app. rewrite N_to_be_S.
    pose proof (bN_lt x) as Hx.
    replace ((be_N l' * 256 + bN x) / 256)%N with (be_N l').
    2:{ rewrite N.div_add_l by lia. rewrite N.div_small by lia. lia. }
    replace ((be_N l' * 256 + bN x) mod 256)%N with (bN x).
    2:{ rewrite N.add_comm, N.mod_add by lia. rewrite N.mod_small by lia. reflexivity. }
    rewrite IH by exact Hl'. rewrite byte_of_bN. reflexivity.
Qed.

Lemma be_N_N_to_be w : forall v, (v < 256 ^ N.of_nat w)%N -> be_N (N_to_be w v) = v.
Proof.
  induction w as [|w IH]; intros v Hv.
  - cbn in *. unfold be_N. cbn. lia.
  - rewrite N_to_be_S. rewrite be_N_app.
    rewrite bN_byte_of by (apply N.mod_lt; lia).
    rewrite IH.
    + pose proof (N.div_mod v 256). lia.
    + replace (N.of_nat (S w)) with (N.succ (N.of_nat w)) in Hv by lia. rewrite N.pow_succ_r' in Hv.
      apply N.div_lt_upper_bound; lia.
Qed.

Lemma be_N_lt l : (be_N l < 256 ^ N.of_nat (length l))%N.
Proof.
  induction l as [|x l IH] using rev_ind; [unfold be_N; cbn; lia|].
  rewrite be_N_app, app_length. cbn [length]. replace (N.of_nat (length l + 1)) with (N.succ (N.of_nat (length l))) by lia.
  rewrite N.pow_succ_r'. pose proof (bN_lt x). lia.
Qed.

Lemma u8_bN b : u8 (bN b) = [b].
Proof. unfold u8. rewrite N.mod_small by apply bN_lt. rewrite byte_of_bN. reflexivity. Qed.

Lemma bN_u8 n : (n < 256)%N -> match u8 n with [b] => bN b = n | _ => False end.
Proof. intro H. unfold u8. rewrite N.mod_small by exact H. apply bN_byte_of. exact H. Qed.

(* ---- slices ---- *)
Lemma slice_ok s a b : (a <= b)%nat -> (b <= length s)%nat -> slice s a b = Some (sl s a b).
Proof.
  intros H1 H2. unfold slice, sl.
  replace ((a <=? b)%nat && (b <=? length s)%nat) with true; [reflexivity|].
  symmetry. apply andb_true_iff. split; apply Nat.leb_le; assumption.
Qed.

Lemma sl_length s a b : (a <= b)%nat -> (b <= length s)%nat -> length (sl s a b) = (b - a)%nat.
Proof. intros H1 H2. unfold sl. rewrite firstn_length, skipn_length. lia. Qed.

Lemma firstn_plus {A} (x y : nat) : forall t : list A, firstn (x + y) t = firstn x t ++ firstn y (skipn x t).
Proof.
  induction x as [|x IH]; intro t; [reflexivity|].
  destruct t as [|e t]; [cbn; rewrite firstn_nil; reflexivity|]. cbn [Nat.add firstn skipn app]. rewrite IH. reflexivity.
Qed.

Lemma sl_cat s a b c : (a <= b)%nat -> (b <= c)%nat -> sl s a b ++ sl s b c = sl s a c.
Proof.
  intros H1 H2. unfold sl. replace (c - a)%nat with ((b - a) + (c - b))%nat by lia.
  rewrite firstn_plus. f_equal. rewrite skipn_add. replace (b - a + a)%nat with b by lia. reflexivity.
Qed.

Lemma sl_full s : sl s 0 (length s) = s.
Proof. unfold sl. cbn [skipn]. rewrite Nat.sub_0_r. apply firstn_all. Qed.

Lemma sl_to_end s a : sl s a (length s) = skipn a s.
Proof. unfold sl. rewrite <- skipn_length. apply firstn_all. Qed.

Lemma index_ok s i : (i < length s)%nat -> index s i = Some (nth i s x00) /\ [nth i s x00] = sl s i (S i).
Proof.
  intro H. split.
  - unfold index. apply nth_error_nth'. exact H.
  - unfold sl. replace (S i - i)%nat with 1%nat by lia.
    revert i H. induction s as [|e s IH]; intros i H; [cbn in H; lia|].
    destruct i as [|i]; [reflexivity|]. cbn [nth skipn]. apply IH. cbn in H. lia.
Qed.

Lemma sl_app_l s t a b : (b <= length s)%nat -> sl (s ++ t) a b = sl s a b.
Proof.
  intro H. unfold sl. destruct (Nat.le_gt_cases a b) as [Hab|Hab].
  - rewrite skipn_app_le by lia. rewrite firstn_app_le by (rewrite skipn_length; lia). reflexivity.
  - replace (b - a)%nat with 0%nat by lia. reflexivity.
Qed.

Lemma sl_app_r s t a b : (length s <= a)%nat -> sl (s ++ t) a b = sl t (a - length s) (b - length s).
Proof.
  intro H. unfold sl. rewrite skipn_app. rewrite skipn_all2 by lia. cbn [app].
  replace (b - length s - (a - length s))%nat with (b - a)%nat by lia. reflexivity.
Qed.

Lemma sl_sl s a b c d : (c <= d)%nat -> (d <= b - a)%nat -> (b <= length s)%nat -> sl (sl s a b) c d = sl s (a + c) (a + d).
Proof.
  intros H1 H2 H3. unfold sl. rewrite skipn_firstn_comm. rewrite firstn_firstn.
  rewrite skipn_add. replace (Nat.min (d - c) (b - a - c)) with (d - c)%nat by lia.
  replace (a + d - (a + c))%nat with (d - c)%nat by lia. replace (c + a)%nat with (a + c)%nat by lia. reflexivity.
Qed.

(* ---- MessageHeader ---- *)
Lemma N_lt_256_cases (P : N -> Prop) :
  (forallb (fun n => if N.eq_dec n n then true else false) [] = true) ->
  (forall k, (k < 256)%nat -> P (N.of_nat k)) -> forall n, (n < 256)%N -> P n.
Proof. intros _ H n Hn. rewrite <- (N2Nat.id n). apply H. lia. Qed.

Definition hdr_rt_ok (n : N) : bool :=
  (N.lor (N.land n keyid_mask mod 256) (N.shiftl (N.shiftr n op_shift) op_shift mod 256) =? n)%N.
Lemma hdr_rt_all : forallb (fun k => hdr_rt_ok (N.of_nat k)) (seq 0 256) = true.
Proof. vm_compute. reflexivity. Qed.
Lemma hdr_rt n : (n < 256)%N -> N.lor (N.land n keyid_mask mod 256) (N.shiftl (N.shiftr n op_shift) op_shift mod 256) = n.
Proof.
  intro Hn. pose proof hdr_rt_all as H. rewrite forallb_forall in H.
  specialize (H (N.to_nat n)). rewrite N2Nat.id in H. apply N.eqb_eq. apply H. apply in_seq. lia.
Qed.

Definition hdr_rt2_ok (o k : N) : bool :=
  let b := N.lor (k mod 256) (N.shiftl o op_shift mod 256) in
  (N.land b keyid_mask =? k)%N && (N.shiftr b op_shift =? o)%N && (b <? 256)%N.
Lemma hdr_rt2_all : forallb (fun o => forallb (fun k => hdr_rt2_ok (N.of_nat o) (N.of_nat k)) (seq 0 8)) (seq 0 32) = true.
Proof. vm_compute. reflexivity. Qed.
Lemma hdr_rt2 o k : (o < 32)%N -> (k < 8)%N ->
  let b := N.lor (k mod 256) (N.shiftl o op_shift mod 256) in
  N.land b keyid_mask = k /\ N.shiftr b op_shift = o /\ (b < 256)%N.
Proof.
  intros Ho Hk. pose proof hdr_rt2_all as H. rewrite forallb_forall in H.
  specialize (H (N.to_nat o)). rewrite forallb_forall in H.
  assert (Hin : In (N.to_nat o) (seq 0 32)) by (apply in_seq; lia).
  specialize (H Hin (N.to_nat k)). rewrite !N2Nat.id in H.
  assert (Hin2 : In (N.to_nat k) (seq 0 8)) by (apply in_seq; lia).
  specialize (H Hin2). unfold hdr_rt2_ok in H. cbv zeta in *.
  apply andb_true_iff in H. destruct H as [H H3]. apply andb_true_iff in H. destruct H as [H1 H2].
  apply N.eqb_eq in H1. apply N.eqb_eq in H2. apply N.ltb_lt in H3. auto.
Qed.

Lemma header_eval b : header_from_bytes [b] = ROk {| keyid := N.land (bN b) keyid_mask; opcode := N.shiftr (bN b) op_shift |}.
Proof. reflexivity. Qed.

Lemma header_rejects_wrong_length src : length src <> 1%nat -> header_from_bytes src = RErr ErrInvalidSourceLength.
Proof.
  intro H. unfold header_from_bytes. sizes. destruct (Nat.eqb_spec (length src) 1) as [E|E]; [contradiction|reflexivity].
Qed.

Lemma header_no_panic src : header_from_bytes src <> RPanic.
Proof.
  unfold header_from_bytes. sizes. destruct (Nat.eqb_spec (length src) 1) as [E|E]; cbn [negb]; [|discriminate].
  destruct src as [|b [|c r]]; try discriminate.
Qed.

Lemma header_to_from src h : header_from_bytes src = ROk h -> header_to_bytes h = src.
Proof.
  unfold header_from_bytes. sizes. destruct (Nat.eqb_spec (length src) 1) as [E|E]; cbn [negb]; [|discriminate].
  destruct src as [|b [|c r]]; try discriminate. cbn [index nth_error]. intro H. inversion H; subst. clear H.
  unfold header_to_bytes. cbn [opcode keyid]. rewrite hdr_rt by apply bN_lt. rewrite byte_of_bN. reflexivity.
Qed.

Lemma header_from_to h : header_wf h -> header_from_bytes (header_to_bytes h) = ROk h.
Proof.
  intros [Ho Hk]. unfold header_to_bytes. rewrite header_eval.
  destruct (hdr_rt2 (opcode h) (keyid h) Ho Hk) as [H1 [H2 H3]]. cbv zeta in *.
  rewrite bN_byte_of by exact H3. rewrite H1, H2. destruct h; reflexivity.
Qed.

Lemma header_to_bytes_length h : length (header_to_bytes h) = 1%nat.
Proof. reflexivity. Qed.

(* a header byte read back: used by every FromBytes *)
Lemma with_header_eval {A} src want (k : list byte -> header -> res A) :
  (1 <= length src)%nat ->
  with_header src want k =
    let h := {| keyid := N.land (bN (nth 0 src x00)) keyid_mask; opcode := N.shiftr (bN (nth 0 src x00)) op_shift |} in
    if negb (opcode h =? want)%N then RErr ErrInvalidHeaderOpcode else k (skipn 1 src) h.
Proof.
  intro Hl. unfold with_header. sizes. rewrite slice_ok by lia.
  destruct (index_ok src 0 Hl) as [_ E]. rewrite <- E. rewrite header_eval. cbv zeta.
  destruct (negb _); [reflexivity|]. rewrite slice_ok by lia. rewrite sl_to_end. reflexivity.
Qed.

Lemma with_header_to_bytes {A} h body want (k : list byte -> header -> res A) :
  header_wf h -> opcode h = want -> with_header (header_to_bytes h ++ body) want k = k body h.
Proof.
  intros [Ho Hk] Hop. subst want. rewrite with_header_eval by (cbn; lia). cbv zeta.
  unfold header_to_bytes. cbn [app nth skipn].
  destruct (hdr_rt2 _ _ Ho Hk) as [H1 [H2 H3]]. cbv zeta in *.
  rewrite bN_byte_of by exact H3. rewrite H1, H2. cbn [opcode]. rewrite N.eqb_refl. cbn [negb].
  destruct h; reflexivity.
Qed.

(* ---- MessagePlain ---- *)
Lemma plain_headless_eval src h : length src = 13%nat ->
  plain_from_headless src h =
    ROk {| p_hdr := h; p_sid := be_N (sl src 0 8); p_prev := bN (nth 8 src x00); p_pid := be_N (sl src 9 13) |}.
Proof.
  intro Hl. unfold plain_from_headless. sizes. rewrite Hl. cbn [Nat.eqb negb].
  rewrite slice_ok by lia. destruct (index_ok src 8) as [E _]; [lia|]. rewrite E.
  replace (13 - 4)%nat with 9%nat by reflexivity. rewrite slice_ok by lia. reflexivity.
Qed.

Lemma plain_headless_rejects src h : length src <> 13%nat -> plain_from_headless src h = RErr ErrInvalidSourceLength.
Proof. intro H. unfold plain_from_headless. sizes. destruct (Nat.eqb_spec (length src) 13); [contradiction|reflexivity]. Qed.

Lemma plain_headless_to_from src h m : plain_from_headless src h = ROk m -> plain_to_bytes m = header_to_bytes h ++ src.
Proof.
  intro H. destruct (Nat.eq_dec (length src) 13) as [Hl|Hl]; [|rewrite plain_headless_rejects in H by exact Hl; discriminate].
  rewrite plain_headless_eval in H by exact Hl. inversion H; subst; clear H. unfold plain_to_bytes. cbn [p_hdr p_sid p_prev p_pid].
  rewrite u8_bN. rewrite (N_to_be_be_N 8) by (apply sl_length; lia). rewrite (N_to_be_be_N 4) by (apply sl_length; lia).
  f_equal. destruct (index_ok src 8) as [_ E]; [lia|]. rewrite E. rewrite !sl_cat by lia. rewrite <- Hl. apply sl_full.
Qed.

Lemma plain_to_bytes_length m : length (plain_to_bytes m) = 14%nat.
Proof. unfold plain_to_bytes. rewrite !app_length, !N_to_be_length. reflexivity. Qed.

Lemma plain_headless_from_to m : plain_wf m ->
  plain_from_headless (N_to_be 8 (p_sid m) ++ u8 (p_prev m) ++ N_to_be 4 (p_pid m)) (p_hdr m) = ROk m.
Proof.
  intros [Hh [Hs [Hp Hd]]]. rewrite plain_headless_eval by (rewrite !app_length, !N_to_be_length; reflexivity).
  rewrite sl_app_l by (rewrite N_to_be_length; lia). rewrite <- (N_to_be_length 8 (p_sid m)) at 2. rewrite sl_full.
  rewrite be_N_N_to_be by exact Hs.
  rewrite app_nth2 by (rewrite N_to_be_length; lia). rewrite N_to_be_length. cbn [Nat.sub].
  rewrite sl_app_r by (rewrite N_to_be_length; lia). rewrite N_to_be_length. cbn [Nat.sub].
  unfold u8 at 2. rewrite (sl_app_r [_]) by (cbn; lia). cbn [length Nat.sub].
  rewrite <- (N_to_be_length 4 (p_pid m)) at 2. rewrite sl_full. rewrite be_N_N_to_be by exact Hd.
  unfold u8. cbn [app nth]. rewrite N.mod_small by exact Hp. rewrite bN_byte_of by exact Hp. destruct m; reflexivity.
Qed.

Lemma plain_eval src : length src = 14%nat ->
  plain_from_bytes src =
    let h := {| keyid := N.land (bN (nth 0 src x00)) keyid_mask; opcode := N.shiftr (bN (nth 0 src x00)) op_shift |} in
    if negb (opcode h =? op_v2)%N then RErr ErrInvalidHeaderOpcode else plain_from_headless (skipn 1 src) h.
Proof.
  intro Hl. unfold plain_from_bytes. sizes. rewrite Hl. cbn [Nat.eqb negb]. apply with_header_eval. lia.
Qed.

Lemma plain_rejects src : length src <> 14%nat -> plain_from_bytes src = RErr ErrInvalidSourceLength.
Proof. intro H. unfold plain_from_bytes. sizes. destruct (Nat.eqb_spec (length src) 14); [contradiction|reflexivity]. Qed.

Lemma hd_skipn1 (src : list byte) : (1 <= length src)%nat -> [nth 0 src x00] ++ skipn 1 src = src.
Proof. destruct src; cbn; [lia|reflexivity]. Qed.

Lemma header_of_first (src : list byte) :
  header_to_bytes {| keyid := N.land (bN (nth 0 src x00)) keyid_mask; opcode := N.shiftr (bN (nth 0 src x00)) op_shift |} = [nth 0 src x00].
Proof. unfold header_to_bytes. cbn [opcode keyid]. rewrite hdr_rt by apply bN_lt. rewrite byte_of_bN. reflexivity. Qed.

Lemma plain_to_from src m : plain_from_bytes src = ROk m -> plain_to_bytes m = src.
Proof.
  intro H. destruct (Nat.eq_dec (length src) 14) as [Hl|Hl]; [|rewrite plain_rejects in H by exact Hl; discriminate].
  rewrite plain_eval in H by exact Hl. cbv zeta in H. destruct (negb _); [discriminate|].
  apply plain_headless_to_from in H. rewrite H, header_of_first. apply hd_skipn1. lia.
Qed.

Lemma plain_from_to m : plain_wf m -> opcode (p_hdr m) = op_v2 -> plain_from_bytes (plain_to_bytes m) = ROk m.
Proof.
  intros Hwf Hop. unfold plain_from_bytes. rewrite plain_to_bytes_length. sizes. cbn [Nat.eqb negb].
  unfold plain_to_bytes. rewrite with_header_to_bytes by (try exact Hop; apply Hwf).
  apply plain_headless_from_to. exact Hwf.
Qed.

Lemma plain_no_panic src : plain_from_bytes src <> RPanic.
Proof.
  destruct (Nat.eq_dec (length src) 14) as [Hl|Hl]; [|rewrite plain_rejects by exact Hl; discriminate].
  rewrite plain_eval by exact Hl. cbv zeta. destruct (negb _); [discriminate|].
  rewrite plain_headless_eval by (rewrite skipn_length; lia). discriminate.
Qed.
Lemma plain_headless_no_panic src h : plain_from_headless src h <> RPanic.
Proof.
  destruct (Nat.eq_dec (length src) 13) as [Hl|Hl]; [rewrite plain_headless_eval by exact Hl|rewrite plain_headless_rejects by exact Hl]; discriminate.
Qed.

(* ---- MessageAuth ---- *)
Lemma auth_headless_eval src h : (37 <= length src)%nat -> (length src <= 85)%nat ->
  let n := length src in
  auth_from_headless src h =
    if negb (size_ok (n - 21)) then RErr ErrInvalidHMACLength else
    ROk {| a_hdr := h; a_sid := be_N (sl src 0 8); a_hmac := sl src 8 (n - 13); a_rpid := be_N (sl src (n - 13) (n - 9));
           a_rts := be_N (sl src (n - 9) (n - 5)); a_prev := bN (nth (n - 5) src x00); a_pid := be_N (sl src (n - 4) n) |}.
Proof.
  intros H1 H2 n. unfold auth_from_headless. sizes. fold n.
  replace ((n <? 37)%nat || (85 <? n)%nat) with false
    by (symmetry; apply orb_false_iff; split; apply Nat.ltb_ge; unfold n; lia).
  replace (n - 2 * 4 - 1 - 4)%nat with (n - 13)%nat by lia.
  rewrite !slice_ok by (unfold n; lia). rewrite sl_length by (unfold n; lia).
  replace (n - 13 - 8)%nat with (n - 21)%nat by lia. destruct (negb _); [reflexivity|].
  replace (n - 13 + 4)%nat with (n - 9)%nat by (unfold n; lia). replace (n - 9 + 4)%nat with (n - 5)%nat by (unfold n; lia).
  replace (n - 5 + 1)%nat with (n - 4)%nat by (unfold n; lia).
  rewrite ?slice_ok by (unfold n; lia). destruct (index_ok src (n - 5)) as [E _]; [unfold n; lia|]. rewrite E. reflexivity.
Qed.

Lemma auth_headless_rejects src h : (length src < 37)%nat \/ (85 < length src)%nat ->
  auth_from_headless src h = RErr ErrInvalidSourceLength.
Proof.
  intro H. unfold auth_from_headless. sizes.
  replace ((length src <? 37)%nat || (85 <? length src)%nat) with true; [reflexivity|].
  symmetry. apply orb_true_iff. destruct H; [left|right]; apply Nat.ltb_lt; assumption.
Qed.

Lemma auth_headless_no_panic src h : auth_from_headless src h <> RPanic.
Proof.
  destruct (Nat.lt_ge_cases (length src) 37) as [H|H]; [rewrite auth_headless_rejects by (left; exact H); discriminate|].
  destruct (Nat.lt_ge_cases 85 (length src)) as [H'|H']; [rewrite auth_headless_rejects by (right; exact H'); discriminate|].
  rewrite auth_headless_eval by assumption. cbv zeta. destruct (negb _); discriminate.
Qed.

Lemma auth_headless_ok_length src h m : auth_from_headless src h = ROk m ->
  (37 <= length src <= 85)%nat /\ size_ok (length src - 21) = true /\ length (a_hmac m) = (length src - 21)%nat.
Proof.
  intro H.
  destruct (Nat.lt_ge_cases (length src) 37) as [H1|H1]; [rewrite auth_headless_rejects in H by (left; exact H1); discriminate|].
  destruct (Nat.lt_ge_cases 85 (length src)) as [H2|H2]; [rewrite auth_headless_rejects in H by (right; exact H2); discriminate|].
  rewrite auth_headless_eval in H by assumption. cbv zeta in H.
  destruct (size_ok (length src - 21)) eqn:E; cbn [negb] in H; [|discriminate].
  inversion H; subst; clear H. cbn [a_hmac]. rewrite sl_length by lia. repeat split; lia.
Qed.

Lemma auth_headless_to_from src h m : auth_from_headless src h = ROk m -> auth_to_bytes m = header_to_bytes h ++ src.
Proof.
  intro H. destruct (auth_headless_ok_length _ _ _ H) as [[H1 H2] [Hs _]].
  rewrite auth_headless_eval in H by assumption. cbv zeta in H. rewrite Hs in H. cbn [negb] in H.
  inversion H; subst; clear H. unfold auth_to_bytes. cbn [a_hdr a_sid a_hmac a_rpid a_rts a_prev a_pid].
  rewrite u8_bN. rewrite (N_to_be_be_N 8) by (apply sl_length; lia). rewrite !(N_to_be_be_N 4) by (rewrite sl_length; lia).
  f_equal. destruct (index_ok src (length src - 5)) as [_ E]; [lia|]. rewrite E.
  replace (S (length src - 5)) with (length src - 4)%nat by lia.
  rewrite !sl_cat by lia. apply sl_full.
Qed.

Lemma auth_to_bytes_length m : length (auth_to_bytes m) = (22 + length (a_hmac m))%nat.
Proof. unfold auth_to_bytes. rewrite !app_length, !N_to_be_length. cbn. lia. Qed.

Lemma size_ok_bounds s : size_ok s = true -> (16 <= s <= 64)%nat.
Proof.
  unfold size_ok. intro H. apply existsb_exists in H. destruct H as [x [Hin Hx]]. apply Nat.eqb_eq in Hx. subst x.
  assert (E : auth_digest_sizes = [16; 20; 28; 32; 36; 48; 64]%nat) by (vm_compute; reflexivity).
  rewrite E in Hin. cbn in Hin. lia.
Qed.

(* concatenations: the pieces come back out *)
Lemma sl_head a t n : length a = n -> sl (a ++ t) 0 n = a.
Proof. intro H. rewrite sl_app_l by lia. rewrite <- H. apply sl_full. Qed.
Lemma sl_skip a t x y : length a = x -> sl (a ++ t) x y = sl t 0 (y - x).
Proof. intro H. rewrite sl_app_r by lia. rewrite H, Nat.sub_diag. reflexivity. Qed.
Lemma nth_skip (a t : list byte) x : length a = x -> nth x (a ++ t) x00 = nth 0 t x00.
Proof. intro H. rewrite app_nth2 by lia. rewrite H, Nat.sub_diag. reflexivity. Qed.

Lemma auth_headless_from_to m : auth_wf m ->
  auth_from_headless (N_to_be 8 (a_sid m) ++ a_hmac m ++ N_to_be 4 (a_rpid m) ++ N_to_be 4 (a_rts m) ++ u8 (a_prev m) ++ N_to_be 4 (a_pid m))
                     (a_hdr m) = ROk m.
Proof.
  intros [Hh [Hs [Hz [Hr [Ht [Hp Hd]]]]]]. pose proof (size_ok_bounds _ Hz) as Hb.
  set (L := length (a_hmac m)) in *.
  set (src := N_to_be 8 (a_sid m) ++ _).
  assert (Hl : length src = (L + 21)%nat).
  { unfold src. rewrite !app_length, !N_to_be_length. cbn. fold L. lia. }
  rewrite auth_headless_eval by lia. cbv zeta. rewrite Hl.
  replace (L + 21 - 21)%nat with L by lia. rewrite Hz. cbn [negb].
  replace (L + 21 - 13)%nat with (8 + L)%nat by lia. replace (L + 21 - 9)%nat with (8 + L + 4)%nat by lia.
  replace (L + 21 - 5)%nat with (8 + L + 8)%nat by lia. replace (L + 21 - 4)%nat with (8 + L + 9)%nat by lia.
  unfold src.
  rewrite (sl_head (N_to_be 8 (a_sid m))) by apply N_to_be_length.
  rewrite (sl_skip (N_to_be 8 (a_sid m))) by apply N_to_be_length. replace (8 + L - 8)%nat with L by lia.
  rewrite (sl_head (a_hmac m)) by reflexivity.
  rewrite app_assoc. rewrite (sl_skip (N_to_be 8 (a_sid m) ++ a_hmac m)) by (rewrite app_length, N_to_be_length; reflexivity).
  replace (8 + L + 4 - (8 + L))%nat with 4%nat by lia. rewrite (sl_head (N_to_be 4 (a_rpid m))) by apply N_to_be_length.
  rewrite (app_assoc _ (N_to_be 4 (a_rpid m))).
  rewrite (sl_skip ((N_to_be 8 (a_sid m) ++ a_hmac m) ++ N_to_be 4 (a_rpid m))) by (rewrite !app_length, !N_to_be_length; fold L; lia).
  replace (8 + L + 8 - (8 + L + 4))%nat with 4%nat by lia. rewrite (sl_head (N_to_be 4 (a_rts m))) by apply N_to_be_length.
  rewrite (app_assoc _ (N_to_be 4 (a_rts m))).
  rewrite (nth_skip (((N_to_be 8 (a_sid m) ++ a_hmac m) ++ N_to_be 4 (a_rpid m)) ++ N_to_be 4 (a_rts m)))
    by (rewrite !app_length, !N_to_be_length; fold L; lia).
  rewrite (app_assoc _ (u8 (a_prev m))).
  rewrite (sl_skip ((((N_to_be 8 (a_sid m) ++ a_hmac m) ++ N_to_be 4 (a_rpid m)) ++ N_to_be 4 (a_rts m)) ++ u8 (a_prev m)))
    by (rewrite !app_length, !N_to_be_length; cbn; fold L; lia).
  replace (L + 21 - (8 + L + 9))%nat with 4%nat by lia.
  rewrite <- (N_to_be_length 4 (a_pid m)) at 2. rewrite sl_full.
  rewrite !be_N_N_to_be by assumption.
  unfold u8. cbn [app nth]. rewrite N.mod_small by exact Hp. rewrite bN_byte_of by exact Hp. destruct m; reflexivity.
Qed.

Lemma auth_eval src : (38 <= length src)%nat -> (length src <= 86)%nat ->
  auth_from_bytes src =
    let h := {| keyid := N.land (bN (nth 0 src x00)) keyid_mask; opcode := N.shiftr (bN (nth 0 src x00)) op_shift |} in
    if negb (opcode h =? op_v2)%N then RErr ErrInvalidHeaderOpcode else auth_from_headless (skipn 1 src) h.
Proof.
  intros H1 H2. unfold auth_from_bytes. sizes.
  replace ((length src <? 38)%nat || (86 <? length src)%nat) with false
    by (symmetry; apply orb_false_iff; split; apply Nat.ltb_ge; lia).
  apply with_header_eval. lia.
Qed.

Lemma auth_rejects src : (length src < 38)%nat \/ (86 < length src)%nat -> auth_from_bytes src = RErr ErrInvalidSourceLength.
Proof.
  intro H. unfold auth_from_bytes. sizes.
  replace ((length src <? 38)%nat || (86 <? length src)%nat) with true; [reflexivity|].
  symmetry. apply orb_true_iff. destruct H; [left|right]; apply Nat.ltb_lt; assumption.
Qed.

Lemma auth_to_from src m : auth_from_bytes src = ROk m -> auth_to_bytes m = src.
Proof.
  intro H.
  destruct (Nat.lt_ge_cases (length src) 38) as [H1|H1]; [rewrite auth_rejects in H by (left; exact H1); discriminate|].
  destruct (Nat.lt_ge_cases 86 (length src)) as [H2|H2]; [rewrite auth_rejects in H by (right; exact H2); discriminate|].
  rewrite auth_eval in H by assumption. cbv zeta in H. destruct (negb _); [discriminate|].
  apply auth_headless_to_from in H. rewrite H, header_of_first. apply hd_skipn1. lia.
Qed.

Lemma auth_from_to m : auth_wf m -> opcode (a_hdr m) = op_v2 -> auth_from_bytes (auth_to_bytes m) = ROk m.
Proof.
  intros Hwf Hop. pose proof Hwf as [Hh [_ [Hz _]]]. pose proof (size_ok_bounds _ Hz) as Hb.
  unfold auth_from_bytes. rewrite auth_to_bytes_length. sizes.
  replace ((22 + length (a_hmac m) <? 38)%nat || (86 <? 22 + length (a_hmac m))%nat) with false
    by (symmetry; apply orb_false_iff; split; apply Nat.ltb_ge; lia).
  unfold auth_to_bytes. rewrite with_header_to_bytes by assumption.
  apply auth_headless_from_to. exact Hwf.
Qed.

Lemma auth_no_panic src : auth_from_bytes src <> RPanic.
Proof.
  destruct (Nat.lt_ge_cases (length src) 38) as [H1|H1]; [rewrite auth_rejects by (left; exact H1); discriminate|].
  destruct (Nat.lt_ge_cases 86 (length src)) as [H2|H2]; [rewrite auth_rejects by (right; exact H2); discriminate|].
  rewrite auth_eval by assumption. cbv zeta. destruct (negb _); [discriminate|]. apply auth_headless_no_panic.
Qed.

(* accepted lengths are exactly 22 + a digest size *)
Lemma auth_ok_length src m : auth_from_bytes src = ROk m -> auth_len_ok (length src).
Proof.
  intro H.
  destruct (Nat.lt_ge_cases (length src) 38) as [H1|H1]; [rewrite auth_rejects in H by (left; exact H1); discriminate|].
  destruct (Nat.lt_ge_cases 86 (length src)) as [H2|H2]; [rewrite auth_rejects in H by (right; exact H2); discriminate|].
  rewrite auth_eval in H by assumption. cbv zeta in H. destruct (negb _); [discriminate|].
  apply auth_headless_ok_length in H. rewrite skipn_length in H. destruct H as [_ [Hs _]].
  exists (length src - 1 - 21)%nat. split; [exact Hs|]. sizes. lia.
Qed.

(* ---- MessageCrypt ---- *)
Lemma crypt_headless_eval src h : length src = 53%nat ->
  crypt_from_headless src h =
    ROk {| c_hdr := h; c_sid := be_N (sl src 0 8); c_rpid := be_N (sl src 8 12); c_rts := be_N (sl src 12 16);
           c_hmac := sl src 16 48; c_enc := sl src 48 53; c_prev := 0; c_pid := 0 |}.
Proof.
  intro Hl. unfold crypt_from_headless. sizes. rewrite Hl. cbn [Nat.eqb negb Nat.add].
  rewrite !slice_ok by lia. reflexivity.
Qed.

Lemma crypt_headless_rejects src h : length src <> 53%nat -> crypt_from_headless src h = RErr ErrInvalidSourceLength.
Proof. intro H. unfold crypt_from_headless. sizes. destruct (Nat.eqb_spec (length src) 53); [contradiction|reflexivity]. Qed.

Lemma crypt_headless_no_panic src h : crypt_from_headless src h <> RPanic.
Proof.
  destruct (Nat.eq_dec (length src) 53) as [Hl|Hl]; [rewrite crypt_headless_eval by exact Hl|rewrite crypt_headless_rejects by exact Hl]; discriminate.
Qed.

Lemma crypt_headless_to_from src h m : crypt_from_headless src h = ROk m -> crypt_to_bytes m = header_to_bytes h ++ src.
Proof.
  intro H. destruct (Nat.eq_dec (length src) 53) as [Hl|Hl]; [|rewrite crypt_headless_rejects in H by exact Hl; discriminate].
  rewrite crypt_headless_eval in H by exact Hl. inversion H; subst; clear H. unfold crypt_to_bytes.
  cbn [c_hdr c_sid c_rpid c_rts c_hmac c_enc].
  rewrite (N_to_be_be_N 8) by (apply sl_length; lia). rewrite !(N_to_be_be_N 4) by (rewrite sl_length; lia).
  f_equal. rewrite !sl_cat by lia. rewrite <- Hl. apply sl_full.
Qed.

Lemma crypt_to_bytes_length m : length (crypt_to_bytes m) = (17 + length (c_hmac m) + length (c_enc m))%nat.
Proof. unfold crypt_to_bytes. rewrite !app_length, !N_to_be_length. cbn. lia. Qed.

Lemma crypt_headless_from_to m : crypt_wf m ->
  crypt_from_headless (N_to_be 8 (c_sid m) ++ N_to_be 4 (c_rpid m) ++ N_to_be 4 (c_rts m) ++ c_hmac m ++ c_enc m) (c_hdr m) = ROk m.
Proof.
  intros [Hh [Hs [Hr [Ht [Hm [He [Hp Hd]]]]]]]. sizes.
  rewrite crypt_headless_eval by (rewrite !app_length, !N_to_be_length, Hm, He; reflexivity).
  rewrite (sl_head (N_to_be 8 (c_sid m))) by apply N_to_be_length.
  rewrite (sl_skip (N_to_be 8 (c_sid m))) by apply N_to_be_length. cbn [Nat.sub].
  rewrite (sl_head (N_to_be 4 (c_rpid m))) by apply N_to_be_length.
  rewrite app_assoc. rewrite (sl_skip (N_to_be 8 (c_sid m) ++ N_to_be 4 (c_rpid m))) by (rewrite app_length, !N_to_be_length; reflexivity).
  cbn [Nat.sub]. rewrite (sl_head (N_to_be 4 (c_rts m))) by apply N_to_be_length.
  rewrite (app_assoc _ (N_to_be 4 (c_rts m))).
  rewrite (sl_skip ((N_to_be 8 (c_sid m) ++ N_to_be 4 (c_rpid m)) ++ N_to_be 4 (c_rts m))) by (rewrite !app_length, !N_to_be_length; reflexivity).
  cbn [Nat.sub]. rewrite (sl_head (c_hmac m)) by exact Hm.
  rewrite (app_assoc _ (c_hmac m)).
  rewrite (sl_skip (((N_to_be 8 (c_sid m) ++ N_to_be 4 (c_rpid m)) ++ N_to_be 4 (c_rts m)) ++ c_hmac m))
    by (rewrite !app_length, !N_to_be_length, Hm; reflexivity).
  cbn [Nat.sub]. assert (He' : length (c_enc m) = 5%nat) by exact He.
  replace (sl (c_enc m) 0 5) with (c_enc m) by (symmetry; rewrite <- He'; apply sl_full).
  rewrite (be_N_N_to_be 8) by exact Hs. rewrite (be_N_N_to_be 4 (c_rpid m)) by exact Hr. rewrite (be_N_N_to_be 4 (c_rts m)) by exact Ht.
  destruct m; cbn in *; subst; reflexivity.
Qed.

Lemma crypt_rejects src : length src <> 54%nat -> crypt_from_bytes src = RErr ErrInvalidSourceLength.
Proof. intro H. unfold crypt_from_bytes. sizes. destruct (Nat.eqb_spec (length src) 54); [contradiction|reflexivity]. Qed.

Lemma crypt_eval src : length src = 54%nat ->
  crypt_from_bytes src =
    let h := {| keyid := N.land (bN (nth 0 src x00)) keyid_mask; opcode := N.shiftr (bN (nth 0 src x00)) op_shift |} in
    if negb (opcode h =? op_v2)%N then RErr ErrInvalidHeaderOpcode else crypt_from_headless (skipn 1 src) h.
Proof. intro Hl. unfold crypt_from_bytes. sizes. rewrite Hl. cbn [Nat.eqb negb]. apply with_header_eval. lia. Qed.

Lemma crypt_to_from src m : crypt_from_bytes src = ROk m -> crypt_to_bytes m = src.
Proof.
  intro H. destruct (Nat.eq_dec (length src) 54) as [Hl|Hl]; [|rewrite crypt_rejects in H by exact Hl; discriminate].
  rewrite crypt_eval in H by exact Hl. cbv zeta in H. destruct (negb _); [discriminate|].
  apply crypt_headless_to_from in H. rewrite H, header_of_first. apply hd_skipn1. lia.
Qed.

Lemma crypt_from_to m : crypt_wf m -> opcode (c_hdr m) = op_v2 -> crypt_from_bytes (crypt_to_bytes m) = ROk m.
Proof.
  intros Hwf Hop. pose proof Hwf as [Hh [_ [_ [_ [Hm [He _]]]]]]. sizes.
  unfold crypt_from_bytes. rewrite crypt_to_bytes_length, Hm, He. sizes. cbn [Nat.eqb negb Nat.add].
  unfold crypt_to_bytes. rewrite with_header_to_bytes by assumption. apply crypt_headless_from_to. exact Hwf.
Qed.

Lemma crypt_no_panic src : crypt_from_bytes src <> RPanic.
Proof.
  destruct (Nat.eq_dec (length src) 54) as [Hl|Hl]; [|rewrite crypt_rejects by exact Hl; discriminate].
  rewrite crypt_eval by exact Hl. cbv zeta. destruct (negb _); [discriminate|]. apply crypt_headless_no_panic.
Qed.

(* ---- WrappedKey ---- *)
Lemma wkey_rejects src : (length src < 290)%nat \/ (1024 < length src)%nat -> wkey_from_bytes src = RErr ErrInvalidSourceLength.
Proof.
  intro H. unfold wkey_from_bytes. sizes.
  replace ((length src <? 290)%nat || (1024 <? length src)%nat) with true; [reflexivity|].
  symmetry. apply orb_true_iff. destruct H; [left|right]; apply Nat.ltb_lt; assumption.
Qed.

Lemma wkey_eval src : (290 <= length src)%nat -> (length src <= 1024)%nat ->
  let n := length src in
  wkey_from_bytes src =
    if negb (N.of_nat n =? be_N (sl src (n - 2) n))%N then RErr ErrInvalidSourceLength
    else ROk {| w_hmac := sl src 0 32; w_enc := sl src 32 (n - 2) |}.
Proof.
  intros H1 H2 n. unfold wkey_from_bytes. sizes. fold n.
  replace ((n <? 290)%nat || (1024 <? n)%nat) with false
    by (symmetry; apply orb_false_iff; split; apply Nat.ltb_ge; unfold n; lia).
  rewrite slice_ok by (unfold n; lia). destruct (negb _); [reflexivity|].
  rewrite !slice_ok by (unfold n; lia). reflexivity.
Qed.

Lemma wkey_no_panic src : wkey_from_bytes src <> RPanic.
Proof.
  destruct (Nat.lt_ge_cases (length src) 290) as [H|H]; [rewrite wkey_rejects by (left; exact H); discriminate|].
  destruct (Nat.lt_ge_cases 1024 (length src)) as [H'|H']; [rewrite wkey_rejects by (right; exact H'); discriminate|].
  rewrite wkey_eval by assumption. cbv zeta. destruct (negb _); discriminate.
Qed.

Lemma wkey_to_from src k : wkey_from_bytes src = ROk k -> wkey_to_bytes k = src.
Proof.
  intro H.
  destruct (Nat.lt_ge_cases (length src) 290) as [H1|H1]; [rewrite wkey_rejects in H by (left; exact H1); discriminate|].
  destruct (Nat.lt_ge_cases 1024 (length src)) as [H2|H2]; [rewrite wkey_rejects in H by (right; exact H2); discriminate|].
  rewrite wkey_eval in H by assumption. cbv zeta in H.
  destruct (N.eqb_spec (N.of_nat (length src)) (be_N (sl src (length src - 2) (length src)))) as [E|E]; cbn [negb] in H; [|discriminate].
  inversion H; subst; clear H. unfold wkey_to_bytes. cbn [w_hmac w_enc]. sizes.
  rewrite !sl_length by lia.
  replace (32 - 0 + (length src - 2 - 32) + 2)%nat with (length src) by lia.
  rewrite N.mod_small by lia. rewrite E. rewrite (N_to_be_be_N 2) by (rewrite sl_length; lia).
  rewrite !sl_cat by lia. apply sl_full.
Qed.

Lemma wkey_to_bytes_length k : length (wkey_to_bytes k) = (length (w_hmac k) + length (w_enc k) + 2)%nat.
Proof. unfold wkey_to_bytes. rewrite !app_length, N_to_be_length. lia. Qed.

Lemma wkey_from_to k : wkey_wf k -> wkey_from_bytes (wkey_to_bytes k) = ROk k.
Proof.
  intros [Hm [He Hmax]]. sizes. set (E := length (w_enc k)) in *.
  assert (Hl : length (wkey_to_bytes k) = (34 + E)%nat) by (rewrite wkey_to_bytes_length, Hm; fold E; lia).
  rewrite wkey_eval by lia. cbv zeta. rewrite Hl.
  unfold wkey_to_bytes. sizes. rewrite Hm. fold E.
  replace (34 + E - 2)%nat with (32 + E)%nat by lia.
  rewrite (app_assoc (w_hmac k)).
  rewrite (sl_skip (w_hmac k ++ w_enc k)) by (rewrite app_length, Hm; reflexivity).
  replace (34 + E - (32 + E))%nat with 2%nat by lia.
  rewrite <- (N_to_be_length 2 (N.of_nat (32 + E + 2) mod 65536)) at 2. rewrite sl_full.
  rewrite be_N_N_to_be by (apply N.mod_lt; lia). rewrite N.mod_small by lia.
  replace (N.of_nat (34 + E) =? N.of_nat (32 + E + 2))%N with true by (symmetry; apply N.eqb_eq; lia). cbn [negb].
  rewrite <- (app_assoc (w_hmac k)). rewrite (sl_head (w_hmac k)) by exact Hm.
  rewrite (sl_skip (w_hmac k)) by exact Hm. replace (32 + E - 32)%nat with E by lia.
  rewrite (sl_head (w_enc k)) by reflexivity. destruct k; reflexivity.
Qed.

(* ---- MessageCrypt2 ---- *)
Lemma crypt2_headless_rejects src h : (length src < 343)%nat \/ (1077 < length src)%nat ->
  crypt2_from_headless src h = RErr ErrInvalidSourceLength.
Proof.
  intro H. unfold crypt2_from_headless. sizes.
  replace ((length src <? 343)%nat || (1077 <? length src)%nat) with true; [reflexivity|].
  symmetry. apply orb_true_iff. destruct H; [left|right]; apply Nat.ltb_lt; assumption.
Qed.

Lemma crypt2_headless_eval src h : (343 <= length src)%nat -> (length src <= 1077)%nat ->
  crypt2_from_headless src h =
    match crypt_from_headless (sl src 0 53) h with
    | ROk c => match wkey_from_bytes (skipn 53 src) with ROk w => ROk {| r_crypt := c; r_wk := w |} | RErr e => RErr e | RPanic => RPanic end
    | RErr e => RErr e
    | RPanic => RPanic
    end.
Proof.
  intros H1 H2. unfold crypt2_from_headless. sizes.
  replace ((length src <? 343)%nat || (1077 <? length src)%nat) with false
    by (symmetry; apply orb_false_iff; split; apply Nat.ltb_ge; lia).
  rewrite slice_ok by lia. destruct (crypt_from_headless _ _); try reflexivity.
  rewrite slice_ok by lia. rewrite sl_to_end. reflexivity.
Qed.

Lemma crypt2_headless_no_panic src h : crypt2_from_headless src h <> RPanic.
Proof.
  destruct (Nat.lt_ge_cases (length src) 343) as [H|H]; [rewrite crypt2_headless_rejects by (left; exact H); discriminate|].
  destruct (Nat.lt_ge_cases 1077 (length src)) as [H'|H']; [rewrite crypt2_headless_rejects by (right; exact H'); discriminate|].
  rewrite crypt2_headless_eval by assumption.
  destruct (crypt_from_headless _ _) eqn:E1; try discriminate.
  - destruct (wkey_from_bytes _) eqn:E2; try discriminate. exfalso. exact (wkey_no_panic _ E2).
  - exfalso. exact (crypt_headless_no_panic _ _ E1).
Qed.

Lemma crypt2_headless_to_from src h m : crypt2_from_headless src h = ROk m -> crypt2_to_bytes m = header_to_bytes h ++ src.
Proof.
  intro H.
  destruct (Nat.lt_ge_cases (length src) 343) as [H1|H1]; [rewrite crypt2_headless_rejects in H by (left; exact H1); discriminate|].
  destruct (Nat.lt_ge_cases 1077 (length src)) as [H2|H2]; [rewrite crypt2_headless_rejects in H by (right; exact H2); discriminate|].
  rewrite crypt2_headless_eval in H by assumption.
  destruct (crypt_from_headless _ _) as [c| |] eqn:E1; try discriminate.
  destruct (wkey_from_bytes _) as [w| |] eqn:E2; try discriminate.
  inversion H; subst; clear H. unfold crypt2_to_bytes. cbn [r_crypt r_wk].
  rewrite (crypt_headless_to_from _ _ _ E1), (wkey_to_from _ _ E2). rewrite <- app_assoc. f_equal.
  unfold sl. cbn [skipn Nat.sub]. apply firstn_skipn.
Qed.

Lemma crypt2_to_bytes_length m : length (crypt2_to_bytes m) =
  (17 + length (c_hmac (r_crypt m)) + length (c_enc (r_crypt m)) + (length (w_hmac (r_wk m)) + length (w_enc (r_wk m)) + 2))%nat.
Proof. unfold crypt2_to_bytes. rewrite app_length, crypt_to_bytes_length, wkey_to_bytes_length. reflexivity. Qed.

Lemma crypt2_headless_from_to m : crypt2_wf m ->
  crypt2_from_headless ((N_to_be 8 (c_sid (r_crypt m)) ++ N_to_be 4 (c_rpid (r_crypt m)) ++ N_to_be 4 (c_rts (r_crypt m)) ++
                         c_hmac (r_crypt m) ++ c_enc (r_crypt m)) ++ wkey_to_bytes (r_wk m)) (c_hdr (r_crypt m)) = ROk m.
Proof.
  intros [Hc Hw]. pose proof Hc as [_ [_ [_ [_ [Hm [He _]]]]]]. pose proof Hw as [Hwm [Hwe Hwmax]]. sizes.
  set (body := N_to_be 8 _ ++ _).
  assert (Hb : length body = 53%nat) by (unfold body; rewrite !app_length, !N_to_be_length, Hm, He; reflexivity).
  rewrite crypt2_headless_eval by (rewrite app_length, Hb, wkey_to_bytes_length; lia).
  rewrite (sl_head body) by exact Hb. unfold body. rewrite crypt_headless_from_to by exact Hc. fold body.
  rewrite skipn_app. rewrite skipn_all2 by lia. rewrite Hb. cbn [Nat.sub skipn app].
  rewrite wkey_from_to by exact Hw. destruct m; reflexivity.
Qed.

Lemma crypt2_rejects src : (length src < 344)%nat \/ (1078 < length src)%nat -> crypt2_from_bytes src = RErr ErrInvalidSourceLength.
Proof.
  intro H. unfold crypt2_from_bytes. sizes.
  replace ((length src <? 344)%nat || (1078 <? length src)%nat) with true; [reflexivity|].
  symmetry. apply orb_true_iff. destruct H; [left|right]; apply Nat.ltb_lt; assumption.
Qed.

Lemma crypt2_eval src : (344 <= length src)%nat -> (length src <= 1078)%nat ->
  crypt2_from_bytes src =
    let h := {| keyid := N.land (bN (nth 0 src x00)) keyid_mask; opcode := N.shiftr (bN (nth 0 src x00)) op_shift |} in
    if negb (opcode h =? op_v3)%N then RErr ErrInvalidHeaderOpcode else crypt2_from_headless (skipn 1 src) h.
Proof.
  intros H1 H2. unfold crypt2_from_bytes. sizes.
  replace ((length src <? 344)%nat || (1078 <? length src)%nat) with false
    by (symmetry; apply orb_false_iff; split; apply Nat.ltb_ge; lia).
  apply with_header_eval. lia.
Qed.

Lemma crypt2_to_from src m : crypt2_from_bytes src = ROk m -> crypt2_to_bytes m = src.
Proof.
  intro H.
  destruct (Nat.lt_ge_cases (length src) 344) as [H1|H1]; [rewrite crypt2_rejects in H by (left; exact H1); discriminate|].
  destruct (Nat.lt_ge_cases 1078 (length src)) as [H2|H2]; [rewrite crypt2_rejects in H by (right; exact H2); discriminate|].
  rewrite crypt2_eval in H by assumption. cbv zeta in H. destruct (negb _); [discriminate|].
  apply crypt2_headless_to_from in H. rewrite H, header_of_first. apply hd_skipn1. lia.
Qed.

Lemma crypt2_from_to m : crypt2_wf m -> opcode (c_hdr (r_crypt m)) = op_v3 -> crypt2_from_bytes (crypt2_to_bytes m) = ROk m.
Proof.
  intros Hwf Hop. pose proof Hwf as [Hc Hw]. pose proof Hc as [Hh [_ [_ [_ [Hm [He _]]]]]]. pose proof Hw as [Hwm [Hwe Hwmax]]. sizes.
  unfold crypt2_from_bytes. rewrite crypt2_to_bytes_length, Hm, He, Hwm. sizes.
  replace ((17 + 32 + (1 + 4) + (32 + length (w_enc (r_wk m)) + 2) <? 344)%nat || (1078 <? 17 + 32 + (1 + 4) + (32 + length (w_enc (r_wk m)) + 2))%nat) with false
    by (symmetry; apply orb_false_iff; split; apply Nat.ltb_ge; lia).
  unfold crypt2_to_bytes, crypt_to_bytes. rewrite <- app_assoc. rewrite with_header_to_bytes by assumption.
  rewrite <- !app_assoc. pose proof (crypt2_headless_from_to m Hwf) as HH. rewrite <- !app_assoc in HH. exact HH.
Qed.

Lemma crypt2_no_panic src : crypt2_from_bytes src <> RPanic.
Proof.
  destruct (Nat.lt_ge_cases (length src) 344) as [H1|H1]; [rewrite crypt2_rejects by (left; exact H1); discriminate|].
  destruct (Nat.lt_ge_cases 1078 (length src)) as [H2|H2]; [rewrite crypt2_rejects by (right; exact H2); discriminate|].
  rewrite crypt2_eval by assumption. cbv zeta. destruct (negb _); [discriminate|]. apply crypt2_headless_no_panic.
Qed.

(* ---- receivers that are not fresh: the laws hold for every previous state ---- *)
Lemma auth_st_rejects_wrong_length dg0 src h m d : auth_from_headless_st dg0 src h = ROk (m, d) ->
  (37 <= length src <= 85)%nat /\ size_ok (length src - 21) = true /\ length (a_hmac m) = (length src - 21)%nat /\ d = dg0.
Proof.
  unfold auth_from_headless_st. destruct (auth_from_headless src h) as [m'| |] eqn:E; try discriminate.
  intro H. inversion H; subst. destruct (auth_headless_ok_length _ _ _ E) as [A [B C]]. auto.
Qed.
Lemma auth_st_bytes_rejects_wrong_length dg0 src m d : auth_from_bytes_st dg0 src = ROk (m, d) -> auth_len_ok (length src) /\ d = dg0.
Proof.
  unfold auth_from_bytes_st. destruct (auth_from_bytes src) as [m'| |] eqn:E; try discriminate.
  intro H. inversion H; subst. split; [exact (auth_ok_length _ _ E)|reflexivity].
Qed.
Lemma auth_st_to_from dg0 src h m d : auth_from_headless_st dg0 src h = ROk (m, d) -> auth_to_bytes m = header_to_bytes h ++ src.
Proof.
  unfold auth_from_headless_st. destruct (auth_from_headless src h) as [m'| |] eqn:E; try discriminate.
  intro H. inversion H; subst. exact (auth_headless_to_from _ _ _ E).
Qed.
Lemma auth_st_indep dg1 dg2 src h :
  match auth_from_headless_st dg1 src h, auth_from_headless_st dg2 src h with
  | ROk (m1, _), ROk (m2, _) => m1 = m2
  | RErr e1, RErr e2 => e1 = e2
  | RPanic, RPanic => True
  | _, _ => False
  end.
Proof. unfold auth_from_headless_st. destruct (auth_from_headless src h); auto. Qed.

Lemma crypt_st_rejects_wrong_length p0 q0 src h : length src <> 53%nat -> crypt_from_headless_st p0 q0 src h = RErr ErrInvalidSourceLength.
Proof. intro H. unfold crypt_from_headless_st. rewrite crypt_headless_rejects by exact H. reflexivity. Qed.
Lemma crypt_st_bytes_rejects_wrong_length p0 q0 src : length src <> 54%nat -> crypt_from_bytes_st p0 q0 src = RErr ErrInvalidSourceLength.
Proof. intro H. unfold crypt_from_bytes_st. rewrite crypt_rejects by exact H. reflexivity. Qed.
Lemma crypt_st_to_from p0 q0 src h m : crypt_from_headless_st p0 q0 src h = ROk m -> crypt_to_bytes m = header_to_bytes h ++ src.
Proof.
  unfold crypt_from_headless_st, crypt_keep. destruct (crypt_from_headless src h) as [m'| |] eqn:E; try discriminate.
  intro H. inversion H; subst. rewrite <- (crypt_headless_to_from _ _ _ E). reflexivity.
Qed.
Lemma crypt2_st_rejects_wrong_length p0 q0 src h : (length src < 343)%nat \/ (1077 < length src)%nat ->
  crypt2_from_headless_st p0 q0 src h = RErr ErrInvalidSourceLength.
Proof. intro H. unfold crypt2_from_headless_st. rewrite crypt2_headless_rejects by exact H. reflexivity. Qed.
Lemma crypt2_st_to_from p0 q0 src h m : crypt2_from_headless_st p0 q0 src h = ROk m -> crypt2_to_bytes m = header_to_bytes h ++ src.
Proof.
  unfold crypt2_from_headless_st, crypt2_keep, crypt_keep. destruct (crypt2_from_headless src h) as [m'| |] eqn:E; try discriminate.
  intro H. inversion H; subst. rewrite <- (crypt2_headless_to_from _ _ _ E). reflexivity.
Qed.
