(* Lemmas about model/GoBase.v shared by the matcher and codec proofs. *)
From Coq Require Import List NArith ZArith Bool Arith Lia.
From Coq.Strings Require Import Byte.
From L4.model Require Import GoBase.
Import ListNotations.

Lemma byte_eqb_eq a b : Byte.eqb a b = true <-> a = b.
Proof. split; [apply Byte.byte_dec_bl|apply Byte.byte_dec_lb]. Qed.

Lemma byte_eqb_refl a : Byte.eqb a a = true.
Proof. apply byte_eqb_eq. reflexivity. Qed.

Lemma bytes_eqb_eq a : forall b, bytes_eqb a b = true <-> a = b.
Proof.
  induction a as [|x a IH]; intros [|y b]; cbn; split; intro H; try reflexivity; try discriminate.
  - apply andb_true_iff in H. destruct H as [H1 H2]. apply byte_eqb_eq in H1. apply IH in H2. congruence.
  - inversion H; subst. rewrite byte_eqb_refl. cbn. apply IH. reflexivity.
Qed.

Lemma has_prefix_app s : forall pre t, has_prefix s pre = true -> has_prefix (s ++ t) pre = true.
Proof.
  induction s as [|y s IH]; intros [|x pre] t H; cbn in *; try reflexivity; try discriminate.
  apply andb_true_iff in H. destruct H as [H1 H2]. rewrite H1. cbn. apply IH. exact H2.
Qed.

Lemma has_prefix_spec s : forall pre, has_prefix s pre = true <-> exists t, s = pre ++ t.
Proof.
  induction s as [|y s IH]; intros [|x pre]; cbn; split; intro H.
  - exists []. reflexivity.
  - reflexivity.
  - discriminate.
  - destruct H as [t Ht]. discriminate.
  - exists (y :: s). reflexivity.
  - reflexivity.
  - apply andb_true_iff in H. destruct H as [H1 H2]. apply byte_eqb_eq in H1. apply IH in H2.
    destruct H2 as [t Ht]. exists t. subst. reflexivity.
  - destruct H as [t Ht]. inversion Ht; subst. rewrite byte_eqb_refl. cbn. apply IH. exists t. reflexivity.
Qed.

(* a mismatch on a long-enough prefix is permanent *)
Lemma has_prefix_false_app s pre t :
  (length pre <= length s)%nat -> has_prefix s pre = false -> has_prefix (s ++ t) pre = false.
Proof.
  revert pre. induction s as [|y s IH]; intros [|x pre] Hl H; cbn in *; try discriminate; try lia.
  destruct (Byte.eqb x y); cbn in *; [|reflexivity]. apply IH; [lia|exact H].
Qed.

Lemma firstn_app_le {A} (n : nat) (l1 l2 : list A) : (n <= length l1)%nat -> firstn n (l1 ++ l2) = firstn n l1.
Proof. intro Hle. rewrite firstn_app. replace (n - length l1)%nat with 0%nat by lia. cbn. apply app_nil_r. Qed.

Lemma skipn_app_le {A} (n : nat) (l1 l2 : list A) : (n <= length l1)%nat -> skipn n (l1 ++ l2) = skipn n l1 ++ l2.
Proof. intro Hle. rewrite skipn_app. replace (n - length l1)%nat with 0%nat by lia. reflexivity. Qed.

Lemma skipn_add {A} (a b : nat) (l : list A) : skipn a (skipn b l) = skipn (a + b) l.
Proof.
  revert l. induction b as [|b IH]; intro l; [rewrite Nat.add_0_r; reflexivity|].
  destruct l as [|x l]; [rewrite !skipn_nil; reflexivity|].
  replace (a + S b)%nat with (S (a + b)) by lia. cbn [skipn]. apply IH.
Qed.

Lemma read_full_some n p a r : read_full n p = Some (a, r) -> p = a ++ r /\ length a = n.
Proof.
  unfold read_full. destruct (Nat.ltb_spec (length p) n) as [Hlt1|Hge1]; [discriminate|].
  intro H; inversion H; subst. split; [symmetry; apply firstn_skipn|apply firstn_length_le; lia].
Qed.

Lemma read_full_app n p s a r : read_full n p = Some (a, r) -> read_full n (p ++ s) = Some (a, r ++ s).
Proof.
  unfold read_full. destruct (Nat.ltb_spec (length p) n) as [Hlt2|Hge2]; [discriminate|]. intro H; inversion H; subst.
  rewrite app_length. destruct (Nat.ltb_spec (length p + length s) n) as [Hlt3|Hge3]; [lia|].
  rewrite firstn_app_le, skipn_app_le by lia. reflexivity.
Qed.

Lemma read_full_none n p : read_full n p = None <-> (length p < n)%nat.
Proof. unfold read_full. destruct (Nat.ltb_spec (length p) n) as [Hlt4|Hge4]; split; intro; try discriminate; try lia; reflexivity. Qed.

Lemma read_at_least_app cap min p s a r :
  (cap <= length p)%nat -> read_at_least cap min p = Some (a, r) -> read_at_least cap min (p ++ s) = Some (a, r ++ s).
Proof.
  unfold read_at_least. intro Hc. destruct (Nat.ltb_spec (length p) min) as [Hlt5|Hge5]; [discriminate|]. intro H; inversion H; subst.
  rewrite app_length. destruct (Nat.ltb_spec (length p + length s) min) as [Hlt6|Hge6]; [lia|].
  rewrite firstn_app_le, skipn_app_le by lia. reflexivity.
Qed.

Lemma slice_some s a b r : slice s a b = Some r -> length r = (b - a)%nat.
Proof.
  unfold slice. destruct ((a <=? b)%nat && (b <=? length s)%nat) eqn:E; [|discriminate].
  apply andb_true_iff in E. destruct E as [E1 E2]. apply Nat.leb_le in E1. apply Nat.leb_le in E2.
  intro H; inversion H; subst. rewrite firstn_length, skipn_length. lia.
Qed.

Lemma slice_app s t a b r : slice s a b = Some r -> slice (s ++ t) a b = Some r.
Proof.
  unfold slice. destruct ((a <=? b)%nat && (b <=? length s)%nat) eqn:E; [|discriminate].
  apply andb_true_iff in E. destruct E as [E1 E2]. apply Nat.leb_le in E1. apply Nat.leb_le in E2.
  intro H; inversion H; subst. rewrite app_length.
  replace ((a <=? b)%nat && (b <=? length s + length t)%nat) with true
    by (symmetry; apply andb_true_iff; split; apply Nat.leb_le; lia).
  rewrite skipn_app_le by lia. rewrite firstn_app_le by (rewrite skipn_length; lia). reflexivity.
Qed.
