(* Lemmas about model/Relay.v (C03). *)
From Coq Require Import List Bool Arith Lia.
From Coq.Strings Require Import Byte.
From L4.gen Require Import Shape.
From L4.model Require Import Relay.
Import ListNotations.

(* ------------------------------------------------------------------------------------------ *)
(* dialPeers                                                                                   *)
Lemma dial_peers_cleanup : forall rs idx opened op cl,
  dial_peers rs idx opened = (op, cl, false) ->
  ~ In DialOkHeaderErr rs -> cl = op.
Proof.
  induction rs as [|r rs IH]; intros idx opened op cl H Hn; cbn in H.
  - inversion H.
  - destruct r.
    + eapply IH; eauto. intro; apply Hn; right; assumption.
    + inversion H; subst; reflexivity.
    + exfalso; apply Hn; left; reflexivity.
Qed.

Lemma dial_peers_ok_none_closed : forall rs idx opened op cl,
  dial_peers rs idx opened = (op, cl, true) -> cl = [] /\ length op = length opened + length rs.
Proof.
  induction rs as [|r rs IH]; intros idx opened op cl H; cbn in H.
  - inversion H; subst; cbn; split; [reflexivity|lia].
  - destruct r; try discriminate.
    apply IH in H. destruct H as [H1 H2]. split; [assumption|]. rewrite H2, app_length; cbn; lia.
Qed.

(* ------------------------------------------------------------------------------------------ *)
(* lists                                                                                       *)
Definition prefix (a b : list byte) : Prop := exists r, a ++ r = b.

Lemma prefix_refl : forall a, prefix a a.
Proof. intros; exists []; apply app_nil_r. Qed.
Lemma prefix_app_l : forall a b c, prefix (a ++ b) c -> prefix a c.
Proof. intros a b c [r H]; exists (b ++ r); rewrite app_assoc; assumption. Qed.
Lemma prefix_of_eq : forall a r b, a ++ r = b -> prefix a b.
Proof. intros; eexists; eassumption. Qed.

Lemma proj_app : forall i a b, proj i (a ++ b) = proj i a ++ proj i b.
Proof. intros; unfold proj; rewrite filter_app, map_app; reflexivity. Qed.
Lemma proj_tag_same : forall i l, proj i (tag i l) = l.
Proof.
  intros i l; unfold proj, tag. induction l as [|x l IH]; [reflexivity|].
  cbn. rewrite Nat.eqb_refl. cbn. rewrite IH; reflexivity.
Qed.
Lemma proj_tag_other : forall i j l, i <> j -> proj i (tag j l) = [].
Proof.
  intros i j l H; unfold proj, tag. induction l as [|x l IH]; [reflexivity|].
  cbn. destruct (Nat.eqb_spec j i); [congruence|]. exact IH.
Qed.
Lemma Forall_tag : forall i n l, i < n -> Forall (fun x : nat * byte => fst x < n) (tag i l).
Proof. intros i n l H; unfold tag. apply Forall_forall. intros x Hx. apply in_map_iff in Hx. destruct Hx as [b [<- _]]. exact H. Qed.

Lemma okk_spec : forall {A} k (l : list A), okk k l = true -> 1 <= k <= length l.
Proof. intros A k l H; unfold okk in H. apply andb_true_iff in H. destruct H as [H1 H2]. apply Nat.leb_le in H1, H2. lia. Qed.

Lemma upd_same : forall f i u, upd f i u i = u.
Proof. intros; unfold upd; rewrite Nat.eqb_refl; reflexivity. Qed.
Lemma upd_other : forall f i u j, j <> i -> upd f i u j = f j.
Proof. intros f i u j H; unfold upd. destruct (Nat.eqb_spec j i); [contradiction|reflexivity]. Qed.

(* ------------------------------------------------------------------------------------------ *)
(* the safety invariant                                                                        *)

Definition pend (pm : pumpst) (i : nat) : list byte :=
  match pm with PWrite chk j => if j <=? i then chk else [] | _ => [] end.
Definition pump_running (pm : pumpst) : bool := match pm with PRead | PWrite _ _ => true | _ => false end.
Definition hold (x : copyst) : list byte := match x with CHold chk => chk | _ => [] end.
Definition copy_done (x : copyst) : bool := match x with CDone => true | _ => false end.

Definition inv_up (c : cfg) (s : st) (i : nat) : Prop :=
  let u := ups s i in
  if pump_running (pump (px s))
  then u_log u ++ p2u u ++ pend (pump (px s)) i ++ c2p (cl s) ++ c_tosend (cl s) = c_total c
  else prefix (u_log u ++ p2u u) (c_total c) /\ (lossy (px s) = false -> u_log u ++ p2u u = c_total c).

Definition inv_down (c : cfg) (s : st) (i : nat) : Prop :=
  let u := ups s i in
  let got := proj i (c_log (cl s) ++ p2c (cl s)) in
  if copy_done (cp u)
  then prefix got (u_total c i) /\ (lossy (px s) = false -> got = u_total c i)
  else got ++ hold (cp u) ++ u2p u ++ u_tosend u = u_total c i.

Definition inv_uflags (c : cfg) (s : st) (i : nat) : Prop :=
  let u := ups s i in
  u2p_fin u = u_finned u /\ (u_finned u = true -> u_tosend u = []) /\ (u_rst u = true -> lossy (px s) = true) /\
  (u_sock u = SClosed -> lossy (px s) = true \/ cp u = CDone) /\
  (mainp (px s) <> MWait -> cp u = CDone).

Definition inv_cflags (s : st) : Prop :=
  c2p_fin (cl s) = c_finned (cl s) /\ (c_finned (cl s) = true -> c_tosend (cl s) = []) /\
  (c_rst (cl s) = true -> lossy (px s) = true).

Definition inv_tags (c : cfg) (s : st) : Prop := Forall (fun x => fst x < n_up c) (c_log (cl s) ++ p2c (cl s)).

Definition Inv (c : cfg) (s : st) : Prop :=
  (forall i, i < n_up c -> inv_up c s i /\ inv_down c s i /\ inv_uflags c s i) /\ inv_cflags s /\ inv_tags c s.

Lemma all_done_spec : forall n f, all_done n f = true -> forall i, i < n -> cp (f i) = CDone.
Proof.
  intros n f H i Hi. unfold all_done in H. rewrite forallb_forall in H.
  specialize (H i). assert (Hin : In i (seq 0 n)) by (apply in_seq; lia). specialize (H Hin).
  destruct (cp (f i)); try discriminate; reflexivity.
Qed.

Lemma inv_init : forall c, Inv c (init c).
Proof.
  intros c. unfold Inv, init. split; [|split].
  - intros i Hi. unfold inv_up, inv_down, inv_uflags, init_u. cbn.
    split; [apply firstn_skipn|]. split; [reflexivity|].
    repeat split; try discriminate; try congruence.
  - unfold inv_cflags; cbn. repeat split; discriminate.
  - unfold inv_tags; cbn. constructor.
Qed.

Ltac destr_st s := destruct s as [[ts cf c2 c2f crst pc pcf clog ceof ds] [pm ch mn ls] us].

Ltac split_andb :=
  repeat match goal with
  | H : _ && _ = true |- _ => apply andb_true_iff in H; destruct H
  | H : negb _ = true |- _ => apply negb_true_iff in H
  | H : (_ <? _) = true |- _ => apply Nat.ltb_lt in H
  | H : (_ <? _) = false |- _ => apply Nat.ltb_ge in H
  | H : okk _ _ = true |- _ => apply okk_spec in H
  end.

(* case analysis of one step: leaves one goal per way the step can succeed *)
Ltac step_cases H :=
  unfold step in H;
  repeat match type of H with
  | (if ?b then _ else _) = Some _ => let E := fresh "E" in destruct b eqn:E; [|try discriminate H]
  | (match ?x with _ => _ end) = Some _ => let E := fresh "E" in destruct x eqn:E; try discriminate H
  | _ => progress cbv zeta in H
  end;
  try discriminate H;
  match type of H with Some _ = Some _ => inversion H; subst; clear H end;
  split_andb.

Lemma app_firstn_skipn_mid : forall (a b : list byte) k rest, (a ++ firstn k b) ++ skipn k b ++ rest = a ++ b ++ rest.
Proof. intros. rewrite <- app_assoc. f_equal. rewrite app_assoc, firstn_skipn. reflexivity. Qed.

Ltac simp_proj := cbn [cl px ups c_tosend c_finned c2p c2p_fin c_rst p2c p2c_fin c_log c_eof d_sock pump chan mainp lossy
                       u_tosend u_finned u2p u2p_fin u_rst p2u p2u_fin u_log u_eof u_sock cp pump_running pend copy_done hold] in *.
Ltac prep := unfold Inv, inv_up, inv_down, inv_uflags, inv_cflags, inv_tags in *; simp_proj.
Ltac updcase j i := destruct (Nat.eq_dec j i) as [->|?]; [rewrite ?upd_same in *|rewrite ?upd_other in * by assumption]; simp_proj.
Ltac easy := solve [assumption | tauto | intuition (try congruence; try discriminate) ].
Lemma firstn_skipn_app : forall {A} k (l r : list A), firstn k l ++ skipn k l ++ r = l ++ r.
Proof. intros. rewrite app_assoc, firstn_skipn. reflexivity. Qed.
Ltac norm_lists := repeat rewrite <- app_assoc in *; repeat rewrite firstn_skipn_app in *; repeat rewrite firstn_skipn in *;
                   rewrite ?app_nil_r in *; rewrite ?app_nil_l in *.
Ltac split_ifs := repeat match goal with
  | H : context [if ?b then _ else _] |- _ => destruct b eqn:?
  | |- context [if ?b then _ else _] => destruct b eqn:? end.

Lemma wr_close_closed : forall x, wr_close x = SClosed -> x = SClosed.
Proof. destruct x; cbn; congruence. Qed.

Lemma inv_step : forall c s l s', Inv c s -> step c s l = Some s' -> Inv c s'.
Proof.
  intros c s l s' HI H. destr_st s. destruct HI as [HU [HC HT]].
  destruct l; step_cases H; prep.
  all: (split; [intros q Hq; pose proof (HU q Hq) as HUq; destruct HUq as (HA & HB & HF1 & HF2 & HF3 & HF4 & HF5);
                try match goal with |- context [upd _ ?i _ q] => updcase q i end; (split; [|split]) | split]).
  all: try easy.
  all: try (norm_lists; easy).
  all: try (split_ifs; norm_lists; easy).
  all: simp_proj.
  all: try (split_ifs; norm_lists; easy).
  - (* PumpRead, read error *)
    split; [eapply prefix_of_eq; rewrite <- app_assoc; exact HA|]. intros Hl. destruct HC as (_ & _ & HC3).
    rewrite HC3 in Hl by reflexivity. discriminate.
  - (* PumpRead, EOF *)
    destruct HC as (HC1 & HC2 & _). rewrite (HC2 (eq_sym HC1)) in HA. cbn [app] in HA. rewrite app_nil_r in HA.
    split; [rewrite HA; apply prefix_refl|intros _; exact HA].
  - (* PumpWrite, write error *)
    split; [eapply prefix_of_eq; rewrite <- app_assoc; exact HA|]. intros Hl.
    destruct (HU j E0) as (_ & _ & _ & _ & HF3j & _). rewrite HF3j in Hl by assumption. discriminate.
  - (* PumpWrite to j, seen from j *)
    rewrite Nat.leb_refl in HA. replace (S j <=? j) with false by (symmetry; apply Nat.leb_gt; lia).
    norm_lists. exact HA.
  - (* PumpWrite to j, seen from q <> j *)
    replace (S j <=? q) with (j <=? q) by (destruct (Nat.leb_spec j q); destruct (Nat.leb_spec (S j) q); try reflexivity; lia).
    exact HA.
  - (* PumpWrite past the last upstream *)
    replace (j <=? q) with false in HA by (symmetry; apply Nat.leb_gt; lia). exact HA.
  - (* PumpClose with CloseWrite *)
    repeat split; try tauto. intros Hw. apply HF4. apply wr_close_closed; assumption.
  - (* CopyRead, read error *)
    rewrite E0 in HB. simp_proj. split; [eapply prefix_of_eq; exact HB|]. intros Hl.
    apply orb_true_iff in E1. destruct E1 as [E1|E1].
    + rewrite HF3 in Hl by assumption. discriminate.
    + destruct (u_sock (us i)) eqn:Es; try discriminate. destruct HF4 as [HF4|HF4]; [reflexivity|congruence|congruence].
  - (* CopyRead, EOF *)
    rewrite E0 in HB. simp_proj. rewrite E2 in HB. rewrite HF2 in HB by congruence. norm_lists.
    split; [rewrite HB; apply prefix_refl|intros _; exact HB].
  - (* CopyRead, data *)
    rewrite E0 in HB. simp_proj. rewrite E2 in HB. rewrite firstn_skipn_app. exact HB.
  - (* CopyWrite, write error *)
    rewrite E0 in HB. simp_proj. split; [eapply prefix_of_eq; exact HB|]. intros Hl. destruct HC as (_ & _ & HC3).
    rewrite HC3 in Hl by reflexivity. discriminate.
  - (* CopyWrite, seen from i *)
    rewrite E0 in HB. simp_proj. rewrite (app_assoc clog), proj_app, proj_tag_same. norm_lists. exact HB.
  - (* CopyWrite, seen from q <> i *)
    rewrite (app_assoc clog), proj_app, proj_tag_other by assumption. rewrite app_nil_r. exact HB.
  - rewrite app_assoc. apply Forall_app. split; [exact HT|apply Forall_tag; assumption].
  - (* MainWait *)
    repeat split; try tauto. intros _. eapply all_done_spec; eassumption.
Qed.

Lemma exec_inv : forall c ls s s', Inv c s -> exec c s ls = Some s' -> Inv c s'.
Proof.
  intros c ls. induction ls as [|l r IH]; intros s s' HI H; cbn in H.
  - inversion H; subst; assumption.
  - destruct (step c s l) as [s1|] eqn:E; [|discriminate]. eapply IH; [|eassumption]. eapply inv_step; eassumption.
Qed.

Lemma reachable_inv : forall c s, reachable c s -> Inv c s.
Proof. intros c s [ls H]. eapply exec_inv; [apply inv_init|eassumption]. Qed.
