(* Lemmas about model/Relay.v (C03). *)
From Coq Require Import List Bool Arith Lia.
From Coq.Strings Require Import Byte.
From L4.gen Require Import Shape.
From L4.model Require Import Relay.
Import ListNotations.

(* ---- dialPeers ---- *)
Lemma dial_peers_cleanup : forall rs idx opened op cl,
  dial_peers rs idx opened = (op, cl, false) ->
  ~ In DialOkHeaderErr rs -> cl = op.
Proof.
  induction rs as [|r rs IH]; intros idx opened op cl H Hn; cbn in H.
  - inversion H.
  - destruct r.
    + eapply IH; eauto. intro; apply Hn; right; assumption.
    + inversion H; subst; reflexivity.
    + exfalso; apply Hn; left; reflexivity.
Qed.

Lemma dial_peers_ok_none_closed : forall rs idx opened op cl,
  dial_peers rs idx opened = (op, cl, true) -> cl = [] /\ length op = length opened + length rs.
Proof.
  induction rs as [|r rs IH]; intros idx opened op cl H; cbn in H.
  - inversion H; subst; cbn; split; [reflexivity|lia].
  - destruct r; try discriminate.
    apply IH in H. destruct H as [H1 H2]. split; [assumption|]. rewrite H2, app_length; cbn; lia.
Qed.
