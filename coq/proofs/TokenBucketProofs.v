(* Lemmas about model/TokenBucket.v (C17): the token-bucket ledger invariant, the bound on bytes
   pulled by any instant, the latency wait and stream identity. *)
From Coq Require Import List ZArith Bool Lia Arith.
From Coq.Strings Require Import Byte.
From L4.model Require Import TokenBucket.
Import ListNotations.
Open Scope Z_scope.

(* ------------------------------------------------------------------ one limiter *)
Lemma unit_pos L : limiter_ok L -> 0 < unit L.
Proof. intros (Hp & Hq & Hb). unfold unit, ns_per_s. lia. Qed.

(* ledger: R tokens were reserved so far, all at or after t0; J is the sum of the backward
   jumps of the reservation instants (an instant earlier than the previous one re-credits the
   interval between them: rate.go sets last = t) *)
Definition linv (L : limiter) (t0 J : Z) (st : lstate) (R : Z) : Prop :=
  tok st <= lburst L * unit L /\
  (R = 0 \/ (t0 <= last st /\ R * unit L + tok st <= lburst L * unit L + lp L * (last st - t0) + lp L * J)).

Lemma linv_init L t0 : linv L t0 0 (new_limiter L) 0.
Proof. split; [cbn; lia|left; reflexivity]. Qed.

Definition back_jump (st : lstate) (t : Z) : Z := if t <? last st then last st - t else 0.

Lemma back_jump_nonneg st t : 0 <= back_jump st t.
Proof. unfold back_jump. destruct (Z.ltb_spec t (last st)); lia. Qed.

Lemma advance_le L st t :
  limiter_ok L ->
  advance L st t <= lburst L * unit L /\ advance L st t <= tok st + lp L * (t + back_jump st t - last st).
Proof.
  intros (Hp & Hq & Hb). unfold advance, tokens_from_duration, back_jump.
  destruct (Z.ltb_spec t (last st)) as [Hc|Hc].
  - replace (t - t) with 0 by lia. replace (t + (last st - t) - last st) with 0 by lia.
    destruct (Z.leb_spec (lp L) 0) as [Hz|Hz];
      [destruct (Z.ltb_spec (lburst L * unit L) (tok st + 0)); lia|destruct (Z.ltb_spec (lburst L * unit L) (tok st + 0 * lp L)); lia].
  - destruct (Z.leb_spec (lp L) 0) as [Hz|Hz].
    + assert (lp L = 0) as -> by lia.
      destruct (Z.ltb_spec (lburst L * unit L) (tok st + 0)); lia.
    + destruct (Z.ltb_spec (lburst L * unit L) (tok st + (t - last st) * lp L)); lia.
Qed.

Lemma wait_n_nonneg L st t n st' d : wait_n L st t n = (st', WSleep d) -> 0 <= d.
Proof.
  unfold wait_n, reserve. destruct ((lburst L <? n) && negb (linf L)); [discriminate|].
  destruct (linf L).
  - cbn. intro H; inversion H; lia.
  - set (tk := advance L st t - n * unit L).
    set (w := if tk <? 0 then duration_from_tokens L (- tk) else 0).
    destruct ((n <=? lburst L) && (w <=? inf_duration)); cbn.
    + destruct (Z.leb_spec inf_duration w) as [Hw|Hw]; [discriminate|]. intro H; inversion H; subst d.
      unfold w, duration_from_tokens. destruct (Z.ltb_spec tk 0) as [Hn|Hn]; [|lia].
      destruct (Z.leb_spec (lp L) 0) as [Hz|Hz]; [unfold inf_duration; lia|]. apply Z.div_pos; lia.
    + discriminate.
Qed.

Lemma wait_n_step L t0 J st R t n st' r :
  limiter_ok L -> linf L = false -> linv L t0 J st R -> 0 <= J -> t0 <= t -> 0 <= n ->
  wait_n L st t n = (st', r) ->
  match r with
  | WErr => st' = st
  | WBlock => linv L t0 (J + back_jump st t) st' (R + n)
  | WSleep d => linv L t0 (J + back_jump st t) st' (R + n) /\
                (R + n) * unit L <= lburst L * unit L + lp L * (t + d - t0 + 1) + lp L * (J + back_jump st t)
  end.
Proof.
  intros Hok Hinf (Hcap & Hled) HJ Ht0 Hn. pose proof (unit_pos L Hok) as HU.
  destruct (advance_le L st t Hok) as [HA1 HA2]. destruct Hok as (Hp & Hq & Hb).
  pose proof (back_jump_nonneg st t) as Hbj. set (bj := back_jump st t) in *.
  unfold wait_n, reserve. rewrite Hinf. cbn [negb]. rewrite andb_true_r.
  destruct (Z.ltb_spec (lburst L) n) as [Hbn|Hbn]; [intro H; inversion H; reflexivity|].
  set (tk := advance L st t - n * unit L).
  set (w := if tk <? 0 then duration_from_tokens L (- tk) else 0).
  assert (Hnu : 0 <= n * unit L) by (apply Z.mul_nonneg_nonneg; lia).
  assert (Hinv' : linv L t0 (J + bj) {| tok := tk; last := t |} (R + n)).
  { clear w. subst tk. split; cbn [tok last]; [lia|]. right. split; [exact Ht0|].
    assert (Hnn : 0 <= lp L * (t - t0)) by (apply Z.mul_nonneg_nonneg; lia).
    assert (Hnj : 0 <= lp L * (J + bj)) by (apply Z.mul_nonneg_nonneg; lia).
    destruct Hled as [HR|[Ht0l Hl]]; [subst R; lia|lia]. }
  destruct ((n <=? lburst L) && (w <=? inf_duration)) eqn:Eok; cbn [negb].
  - destruct (Z.leb_spec inf_duration w) as [Hw|Hw]; intro H; inversion H; subst; [exact Hinv'|].
    split; [exact Hinv'|]. destruct Hinv' as [_ [HR|[_ Hl]]]; cbn [tok last] in *.
    + rewrite HR. unfold w in *.
      assert (Hw0 : 0 <= if tk <? 0 then duration_from_tokens L (- tk) else 0).
      { destruct (Z.ltb_spec tk 0); [|lia]. unfold duration_from_tokens.
        destruct (Z.leb_spec (lp L) 0); [unfold inf_duration; lia|apply Z.div_pos; lia]. }
      assert (0 <= lp L * (t + (if tk <? 0 then duration_from_tokens L (- tk) else 0) - t0 + 1)) by (apply Z.mul_nonneg_nonneg; lia).
      assert (0 <= lburst L * unit L) by (apply Z.mul_nonneg_nonneg; lia).
      assert (0 <= lp L * (J + bj)) by (apply Z.mul_nonneg_nonneg; lia). lia.
    + unfold w in *. destruct (Z.ltb_spec tk 0) as [Hneg|Hpos].
      * unfold duration_from_tokens in *. destruct (Z.leb_spec (lp L) 0) as [Hz|Hz]; [lia|].
        pose proof (Z.mul_succ_div_gt (- tk) (lp L) Hz) as Hdiv.
        assert (0 <= (- tk) / lp L) by (apply Z.div_pos; lia). nia.
      * nia.
  - intro H; inversion H; reflexivity.
Qed.

(* ------------------------------------------------------------------ traces *)
Definition limid_eqb (a b : limid) : bool :=
  match a, b with Total, Total => true | Local x, Local y => Nat.eqb x y | _, _ => false end.
Definition lim_of (h : handler) (id : limid) : option limiter :=
  match id with Total => htotal h | Local _ => hlocal h end.
Definition lim_state (w : world) (id : limid) : lstate :=
  match id with Total => wtotal w | Local c => wlocal w c end.
Definition sel (id : limid) : option nat := match id with Total => None | Local c => Some c end.

Definition res_n (id : limid) (e : ev) : Z :=
  match e with ERes id' _ n => if limid_eqb id' id then n else 0 | _ => 0 end.
Definition res_sum (id : limid) (tr : list ev) : Z := fold_right (fun e a => res_n id e + a) 0 tr.

(* total size of the backward jumps of the instants at which reservations reached limiter id *)
Definition back_n (id : limid) (e : ev) : Z :=
  match e with EBack id' j => if limid_eqb id' id then j else 0 | _ => 0 end.
Definition back_sum (id : limid) (tr : list ev) : Z := fold_right (fun e a => back_n id e + a) 0 tr.

Definition all_len (c : option nat) (e : ev) : Z :=
  match e with
  | EPull c' _ _ bytes _ => if match c with None => true | Some c0 => Nat.eqb c' c0 end then Z.of_nat (length bytes) else 0
  | _ => 0
  end.
Definition all_pulled (c : option nat) (tr : list ev) : Z := fold_right (fun e a => all_len c e + a) 0 tr.

Lemma res_sum_app id a b : res_sum id (a ++ b) = res_sum id a + res_sum id b.
Proof. unfold res_sum. induction a as [|x a IH]; cbn; [reflexivity|]. cbn in IH. rewrite IH. lia. Qed.
Lemma back_sum_app id a b : back_sum id (a ++ b) = back_sum id a + back_sum id b.
Proof. unfold back_sum. induction a as [|x a IH]; cbn; [reflexivity|]. cbn in IH. rewrite IH. lia. Qed.
Lemma pulled_app c T a b : pulled c T (a ++ b) = pulled c T a + pulled c T b.
Proof. unfold pulled. induction a as [|x a IH]; cbn; [reflexivity|]. cbn in IH. rewrite IH. lia. Qed.
Lemma all_pulled_app c a b : all_pulled c (a ++ b) = all_pulled c a + all_pulled c b.
Proof. unfold all_pulled. induction a as [|x a IH]; cbn; [reflexivity|]. cbn in IH. rewrite IH. lia. Qed.

Lemma pull_len_le c T e : 0 <= pull_len c T e <= all_len c e.
Proof.
  destruct e; cbn; try lia. destruct (t <=? T); cbn; [|destruct c; [destruct (Nat.eqb c0 n)|]; lia].
  destruct c; [destruct (Nat.eqb c0 n)|]; lia.
Qed.
Lemma pulled_le_all c T tr : 0 <= pulled c T tr <= all_pulled c tr.
Proof.
  unfold pulled, all_pulled. induction tr as [|e tr IH]; cbn; [lia|]. pose proof (pull_len_le c T e). lia.
Qed.

Lemma limid_eqb_refl id : limid_eqb id id = true.
Proof. destruct id; cbn; [reflexivity|apply Nat.eqb_refl]. Qed.

(* ------------------------------------------------------------------ lim_phase *)
Lemma back_ev_res id' id st t : res_sum id (back_ev id' st t) = 0.
Proof. unfold back_ev. destruct (t <? last st); reflexivity. Qed.
Lemma back_ev_pull id' c T st t : pulled c T (back_ev id' st t) = 0 /\ all_pulled c (back_ev id' st t) = 0.
Proof. unfold back_ev. destruct (t <? last st); split; reflexivity. Qed.
Lemma back_ev_sum id st t : back_sum id (back_ev id st t) = back_jump st t.
Proof. unfold back_ev, back_jump. destruct (t <? last st); cbn; rewrite ?limid_eqb_refl; lia. Qed.
Lemma back_ev_sum_other id' id st t : limid_eqb id' id = false -> back_sum id (back_ev id' st t) = 0.
Proof. intro H. unfold back_ev. destruct (t <? last st); cbn; rewrite ?H; reflexivity. Qed.

Lemma lim_phase_other Lo id' id st t batch st' r e :
  lim_phase Lo id' st t batch = (st', r, e) -> limid_eqb id' id = false -> res_sum id e = 0 /\ back_sum id e = 0.
Proof.
  unfold lim_phase. destruct Lo as [L|]; [|intro H; inversion H; split; reflexivity].
  destruct (wait_n L st t batch) as [s r0]. intros H Hne; inversion H; subst.
  rewrite res_sum_app, back_sum_app, back_ev_res, (back_ev_sum_other _ _ _ _ Hne).
  destruct r; cbn; rewrite ?Hne; split; reflexivity.
Qed.

Lemma lim_phase_nopull Lo id' st t batch st' r e c T :
  lim_phase Lo id' st t batch = (st', r, e) -> pulled c T e = 0 /\ all_pulled c e = 0.
Proof.
  unfold lim_phase. destruct Lo as [L|]; [|intro H; inversion H; split; reflexivity].
  destruct (wait_n L st t batch) as [s r0]. intros H; inversion H; subst.
  rewrite pulled_app, all_pulled_app. destruct (back_ev_pull id' c T st t) as [-> ->].
  destruct r; cbn; split; reflexivity.
Qed.

Lemma lim_phase_nonneg Lo id' st t batch st' d e :
  lim_phase Lo id' st t batch = (st', WSleep d, e) -> 0 <= d.
Proof.
  unfold lim_phase. destruct Lo as [L|]; [|intro H; inversion H; lia].
  destruct (wait_n L st t batch) as [s r0] eqn:E. intros H; inversion H; subst. eapply wait_n_nonneg; eauto.
Qed.

Lemma lim_phase_back_nonneg Lo id' id st t batch st' r e :
  lim_phase Lo id' st t batch = (st', r, e) -> 0 <= back_sum id e.
Proof.
  unfold lim_phase. destruct Lo as [L|]; [|intro H; inversion H; cbn; lia].
  destruct (wait_n L st t batch) as [s r0]. intros H; inversion H; subst.
  rewrite back_sum_app. assert (0 <= back_sum id (back_ev id' st t)).
  { unfold back_ev. destruct (Z.ltb_spec t (last st)); cbn; [|lia]. destruct (limid_eqb id' id); lia. }
  destruct r; cbn; lia.
Qed.

Lemma lim_phase_own L id t0 J st R t batch st' r e :
  lim_phase (Some L) id st t batch = (st', r, e) ->
  limiter_ok L -> linf L = false -> linv L t0 J st R -> 0 <= J -> t0 <= t -> 0 <= batch ->
  linv L t0 (J + back_sum id e) st' (R + res_sum id e) /\ 0 <= res_sum id e /\ 0 <= back_sum id e /\
  match r with
  | WSleep d => (R + res_sum id e) * unit L <= lburst L * unit L + lp L * (t + d - t0 + 1) + lp L * (J + back_sum id e)
  | _ => True
  end.
Proof.
  unfold lim_phase. destruct (wait_n L st t batch) as [s r0] eqn:E. intros H; inversion H; subst. clear H.
  intros Hok Hinf Hinv HJ Ht0 Hb.
  pose proof (wait_n_step L t0 J st R t batch st' r Hok Hinf Hinv HJ Ht0 Hb E) as Hs.
  pose proof (back_jump_nonneg st t) as Hbj.
  rewrite res_sum_app, back_sum_app, back_ev_res, back_ev_sum.
  destruct r; cbn [res_sum back_sum fold_right res_n back_n]; rewrite ?limid_eqb_refl.
  - subst st'. replace (R + (0 + 0)) with R by lia.
    split; [|split; [lia|split; [lia|exact I]]].
    destruct Hinv as [Hc Hl]. split; [exact Hc|]. destruct Hl as [HR|[Hl1 Hl2]]; [left; exact HR|right].
    split; [exact Hl1|]. destruct Hok as (Hp & _).
    assert (lp L * J <= lp L * (J + (back_jump st t + 0))) by (apply Z.mul_le_mono_nonneg_l; lia). lia.
  - replace (R + (0 + (batch + 0))) with (R + batch) by lia. replace (J + (back_jump st t + (0 + 0))) with (J + back_jump st t) by lia.
    split; [exact Hs|split; [lia|split; [lia|exact I]]].
  - replace (R + (0 + (batch + 0))) with (R + batch) by lia. replace (J + (back_jump st t + (0 + 0))) with (J + back_jump st t) by lia.
    destruct Hs as [H1 H2]. split; [exact H1|split; [lia|split; [lia|exact H2]]].
Qed.

(* ------------------------------------------------------------------ world invariant *)
Definition concerns (id : limid) (c : nat) : bool :=
  match id with Total => true | Local c0 => Nat.eqb c c0 end.

Definition WI (id : limid) (L : limiter) (t0 : Z) (w : world) (tr : list ev) : Prop :=
  linv L t0 (back_sum id tr) (lim_state w id) (res_sum id tr) /\ 0 <= res_sum id tr /\ 0 <= back_sum id tr /\
  all_pulled (sel id) tr <= res_sum id tr /\
  forall T, t0 <= T -> pulled (sel id) T tr * unit L <= lburst L * unit L + lp L * (T - t0 + 1) + lp L * back_sum id tr.

Lemma clip_range k hi : 0 <= hi -> 0 <= clip k 0 hi <= hi.
Proof. intro H. unfold clip. destruct (Z.ltb_spec k 0); [lia|]. destruct (Z.ltb_spec hi k); lia. Qed.
Lemma zmin_le a b : zmin a b <= a /\ zmin a b <= b.
Proof. unfold zmin. destruct (Z.ltb_spec b a); lia. Qed.
Lemma zmin_glb a b c : c <= a -> c <= b -> c <= zmin a b.
Proof. unfold zmin. destruct (Z.ltb_spec b a); lia. Qed.

Lemma firstn_len_le {A} (k : Z) (l : list A) : 0 <= k -> Z.of_nat (length (firstn (Z.to_nat k) l)) <= k.
Proof. intro H. pose proof (firstn_le_length (Z.to_nat k) l). lia. Qed.

Lemma upd_same {A} (f : nat -> A) c v : upd f c v c = v.
Proof. unfold upd. rewrite Nat.eqb_refl. reflexivity. Qed.
Lemma upd_other {A} (f : nat -> A) c v x : Nat.eqb x c = false -> upd f c v x = f x.
Proof. unfold upd. intros ->. reflexivity. Qed.

Lemma mul_bound U X Y : 0 < U -> X <= Y -> X * U <= Y * U.
Proof. intros. nia. Qed.

Lemma linv_weaken L t0 J J' st R : 0 <= lp L -> J <= J' -> linv L t0 J st R -> linv L t0 J' st R.
Proof.
  intros Hp HJ [Hc Hl]. split; [exact Hc|]. destruct Hl as [HR|[H1 H2]]; [left; exact HR|right]. split; [exact H1|].
  assert (lp L * J <= lp L * J') by (apply Z.mul_le_mono_nonneg_l; lia). lia.
Qed.

(* what one Read adds to the trace, seen from limiter id *)
Lemma read_step_inv h id L t0 t1 w o w' e tr :
  lim_of h id = Some L -> limiter_ok L -> linf L = false ->
  WI id L t0 w tr ->
  (concerns id (oc o) = true -> t0 <= t1) ->
  op_ok o -> 0 <= batch_size h (olen o) ->
  read_step h t1 w o = (w', e) ->
  WI id L t0 w' (tr ++ e).
Proof.
  intros Hlim Hok Hinf (Hinv & HR0 & HJ0 & Hall & Hbound) Ht0 (Holen & Hodel & Hj2 & Hj3) Hbatch.
  pose proof (unit_pos L Hok) as HU. pose proof Hok as (Hp & Hq & Hb).
  unfold read_step. set (batch := batch_size h (olen o)) in *. set (c := oc o) in *.
  destruct (lim_phase (htotal h) Total (wtotal w) t1 batch) as [[stT r1] e1] eqn:E1.
  pose proof (lim_phase_nopull _ _ _ _ _ _ _ _ (sel id) 0 E1) as [_ Hall1].
  assert (Hp1 : forall T, pulled (sel id) T e1 = 0) by (intro T; eapply lim_phase_nopull; eauto).
  pose proof (lim_phase_back_nonneg _ _ id _ _ _ _ _ _ E1) as HB1.
  set (R0 := res_sum id tr) in *. set (J0 := back_sum id tr) in *.
  (* phase 1 seen from id *)
  assert (Ph1 : linv L t0 (J0 + back_sum id e1) (match id with Total => stT | Local c0 => wlocal w c0 end) (R0 + res_sum id e1)
                /\ 0 <= res_sum id e1
                /\ (forall d1, r1 = WSleep d1 -> id = Total ->
                      (R0 + res_sum id e1) * unit L <= lburst L * unit L + lp L * (t1 + d1 - t0 + 1) + lp L * (J0 + back_sum id e1))).
  { destruct id as [|c0].
    - cbn in Hlim. rewrite Hlim in E1.
      pose proof (lim_phase_own L Total t0 J0 _ _ _ _ _ _ _ E1 Hok Hinf Hinv HJ0 (Ht0 eq_refl) Hbatch) as (A & B & _ & C).
      split; [exact A|split; [exact B|]]. intros d1 -> _. exact C.
    - destruct (lim_phase_other _ _ (Local c0) _ _ _ _ _ _ E1 eq_refl) as [-> ->].
      replace (R0 + 0) with R0 by lia. replace (J0 + 0) with J0 by lia.
      split; [exact Hinv|split; [lia|]]. intros; discriminate. }
  destruct Ph1 as (A1 & B1 & C1).
  (* every case ends with the same bookkeeping *)
  assert (Keep : forall T, t0 <= T -> forall dJ, 0 <= dJ ->
            pulled (sel id) T tr * unit L <= lburst L * unit L + lp L * (T - t0 + 1) + lp L * (J0 + dJ)).
  { intros T HT dJ HdJ. specialize (Hbound T HT).
    assert (lp L * J0 <= lp L * (J0 + dJ)) by (apply Z.mul_le_mono_nonneg_l; lia). lia. }
  destruct r1 as [| |d1].
  - intro H; inversion H; subst w' e. clear H.
    unfold WI. rewrite !res_sum_app, !back_sum_app, !all_pulled_app.
    cbn [res_sum back_sum all_pulled fold_right res_n back_n all_len]. rewrite Hall1. fold R0 J0.
    replace (R0 + (res_sum id e1 + (0 + 0))) with (R0 + res_sum id e1) by lia.
    replace (J0 + (back_sum id e1 + (0 + 0))) with (J0 + back_sum id e1) by lia.
    split; [destruct id; exact A1|split; [lia|split; [lia|split; [lia|]]]].
    intros T HT. rewrite !pulled_app, Hp1. cbn. specialize (Keep T HT _ HB1). lia.
  - intro H; inversion H; subst w' e. clear H.
    unfold WI. rewrite !res_sum_app, !back_sum_app, !all_pulled_app.
    cbn [res_sum back_sum all_pulled fold_right res_n back_n all_len]. rewrite Hall1. fold R0 J0.
    replace (R0 + (res_sum id e1 + (0 + 0))) with (R0 + res_sum id e1) by lia.
    replace (J0 + (back_sum id e1 + (0 + 0))) with (J0 + back_sum id e1) by lia.
    split; [destruct id; exact A1|split; [lia|split; [lia|split; [lia|]]]].
    intros T HT. rewrite !pulled_app, Hp1. cbn. specialize (Keep T HT _ HB1). lia.
  - pose proof (lim_phase_nonneg _ _ _ _ _ _ _ _ E1) as Hd1.
    set (t2 := t1 + d1 + oj2 o).
    destruct (lim_phase (hlocal h) (Local c) (wlocal w c) t2 batch) as [[stL r2] e2] eqn:E2.
    pose proof (lim_phase_nopull _ _ _ _ _ _ _ _ (sel id) 0 E2) as [_ Hall2].
    assert (Hp2 : forall T, pulled (sel id) T e2 = 0) by (intro T; eapply lim_phase_nopull; eauto).
    pose proof (lim_phase_back_nonneg _ _ id _ _ _ _ _ _ E2) as HB2.
    set (R2 := R0 + res_sum id e1 + res_sum id e2). set (J2 := J0 + back_sum id e1 + back_sum id e2).
    assert (Ph2 : linv L t0 J2 (lim_state {| wtotal := stT; wlocal := upd (wlocal w) c stL; winner := winner w |} id) R2
                  /\ 0 <= res_sum id e2
                  /\ (forall d2, r2 = WSleep d2 -> concerns id c = true ->
                        R2 * unit L <= lburst L * unit L + lp L * (t2 + d2 - t0 + 1) + lp L * J2)).
    { unfold R2, J2. destruct id as [|c0].
      - destruct (lim_phase_other _ _ Total _ _ _ _ _ _ E2 eq_refl) as [-> ->]. cbn [lim_state wtotal].
        replace (R0 + res_sum Total e1 + 0) with (R0 + res_sum Total e1) by lia.
        replace (J0 + back_sum Total e1 + 0) with (J0 + back_sum Total e1) by lia.
        split; [exact A1|split; [lia|]]. intros d2 -> _.
        pose proof (lim_phase_nonneg _ _ _ _ _ _ _ _ E2) as Hd2.
        specialize (C1 d1 eq_refl eq_refl).
        assert (lp L * (t1 + d1 - t0 + 1) <= lp L * (t2 + d2 - t0 + 1)) by (apply Z.mul_le_mono_nonneg_l; unfold t2; lia). lia.
      - cbn [lim_state wlocal]. destruct (Nat.eqb c0 c) eqn:Ec.
        + apply Nat.eqb_eq in Ec. subst c0. rewrite upd_same.
          cbn in Hlim. rewrite Hlim in E2.
          assert (Ht2 : t0 <= t2) by (unfold t2; cbn in Ht0; rewrite Nat.eqb_refl in Ht0; specialize (Ht0 eq_refl); lia).
          assert (HJ1 : 0 <= J0 + back_sum (Local c) e1) by lia.
          pose proof (lim_phase_own L (Local c) t0 _ _ _ _ _ _ _ _ E2 Hok Hinf A1 HJ1 Ht2 Hbatch) as (A2 & B2 & _ & C2).
          split; [exact A2|split; [exact B2|]]. intros d2 -> _. exact C2.
        + rewrite upd_other by exact Ec.
          assert (Hne : limid_eqb (Local c) (Local c0) = false) by (cbn; rewrite Nat.eqb_sym; exact Ec).
          destruct (lim_phase_other _ _ (Local c0) _ _ _ _ _ _ E2 Hne) as [-> ->].
          replace (R0 + res_sum (Local c0) e1 + 0) with (R0 + res_sum (Local c0) e1) by lia.
          replace (J0 + back_sum (Local c0) e1 + 0) with (J0 + back_sum (Local c0) e1) by lia.
          split; [exact A1|split; [lia|]]. intros d2 _ Hc. cbn in Hc. rewrite Nat.eqb_sym in Hc. congruence. }
    destruct Ph2 as (A2 & B2 & C2).
    assert (HJ2 : 0 <= back_sum id e1 + back_sum id e2) by lia.
    destruct r2 as [| |d2].
    + intro H; inversion H; subst w' e. clear H.
      unfold WI. rewrite !res_sum_app, !back_sum_app, !all_pulled_app.
      cbn [res_sum back_sum all_pulled fold_right res_n back_n all_len]. rewrite Hall1, Hall2. fold R0 J0.
      replace (R0 + (res_sum id e1 + (res_sum id e2 + (0 + 0)))) with R2 by (unfold R2; lia).
      replace (J0 + (back_sum id e1 + (back_sum id e2 + (0 + 0)))) with J2 by (unfold J2; lia).
      split; [exact A2|split; [unfold R2; lia|split; [unfold J2; lia|split; [unfold R2; lia|]]]].
      intros T HT. rewrite !pulled_app, Hp1, Hp2. cbn. specialize (Keep T HT _ HJ2). unfold J2. 
      replace (J0 + back_sum id e1 + back_sum id e2) with (J0 + (back_sum id e1 + back_sum id e2)) by lia. lia.
    + intro H; inversion H; subst w' e. clear H.
      unfold WI. rewrite !res_sum_app, !back_sum_app, !all_pulled_app.
      cbn [res_sum back_sum all_pulled fold_right res_n back_n all_len]. rewrite Hall1, Hall2. fold R0 J0.
      replace (R0 + (res_sum id e1 + (res_sum id e2 + (0 + 0)))) with R2 by (unfold R2; lia).
      replace (J0 + (back_sum id e1 + (back_sum id e2 + (0 + 0)))) with J2 by (unfold J2; lia).
      split; [exact A2|split; [unfold R2; lia|split; [unfold J2; lia|split; [unfold R2; lia|]]]].
      intros T HT. rewrite !pulled_app, Hp1, Hp2. cbn. specialize (Keep T HT _ HJ2). unfold J2.
      replace (J0 + back_sum id e1 + back_sum id e2) with (J0 + (back_sum id e1 + back_sum id e2)) by lia. lia.
    + pose proof (lim_phase_nonneg _ _ _ _ _ _ _ _ E2) as Hd2.
      set (t3 := t2 + d2 + oj3 o).
      set (rest := winner w c).
      set (k := clip (oavail o) 0 (zmin batch (Z.of_nat (length rest)))).
      set (bytes := firstn (Z.to_nat k) rest).
      intro H; inversion H; subst w' e. clear H.
      assert (Hk : 0 <= k <= batch).
      { unfold k. pose proof (zmin_le batch (Z.of_nat (length rest))) as Hzl.
        assert (Hz0 : 0 <= zmin batch (Z.of_nat (length rest))) by (apply zmin_glb; lia).
        pose proof (clip_range (oavail o) _ Hz0). lia. }
      assert (Hlen : Z.of_nat (length bytes) <= batch) by (pose proof (firstn_len_le k rest (proj1 Hk)); unfold bytes; lia).
      (* when the pull counts for id, id reserved batch in this call *)
      assert (Hres : concerns id c = true -> batch <= res_sum id e1 + res_sum id e2).
      { intro Hc. destruct id as [|c0].
        - cbn in Hlim. rewrite Hlim in E1. unfold lim_phase in E1.
          destruct (wait_n L (wtotal w) t1 batch) as [s r0]. inversion E1; subst.
          rewrite res_sum_app, back_ev_res. cbn. lia.
        - cbn in Hc. apply Nat.eqb_eq in Hc. subst c0. cbn in Hlim. rewrite Hlim in E2. unfold lim_phase in E2.
          destruct (wait_n L (wlocal w c) t2 batch) as [s r0]. inversion E2; subst.
          rewrite res_sum_app, back_ev_res. cbn. rewrite Nat.eqb_refl. lia. }
      assert (Hsel : all_len (sel id) (EPull c t3 batch bytes (oerr o)) = if concerns id c then Z.of_nat (length bytes) else 0).
      { destruct id; cbn; reflexivity. }
      unfold WI. rewrite !res_sum_app, !back_sum_app, !all_pulled_app.
      cbn [res_sum back_sum all_pulled fold_right res_n back_n]. rewrite Hall1, Hall2, Hsel. fold R0 J0.
      replace (R0 + (res_sum id e1 + (res_sum id e2 + (0 + 0)))) with R2 by (unfold R2; lia).
      replace (J0 + (back_sum id e1 + (back_sum id e2 + (0 + 0)))) with J2 by (unfold J2; lia).
      split; [exact A2|split; [unfold R2; lia|split; [unfold J2; lia|split]]].
      * unfold R2. destruct (concerns id c) eqn:Ec; [specialize (Hres eq_refl)|]; lia.
      * intros T HT. rewrite !pulled_app, Hp1, Hp2. cbn [pulled fold_right].
        pose proof (pull_len_le (sel id) T (EPull c t3 batch bytes (oerr o))) as Hpl. rewrite Hsel in Hpl.
        specialize (Keep T HT _ HJ2).
        replace (J0 + (back_sum id e1 + back_sum id e2)) with J2 in Keep by (unfold J2; lia).
        destruct (Z.leb_spec t3 T) as [HtT|HtT].
        -- destruct (concerns id c) eqn:Ec; [|lia].
           specialize (Hres eq_refl). specialize (C2 d2 eq_refl eq_refl).
           pose proof (pulled_le_all (sel id) T tr) as Hpa.
           assert (Hsum : pulled (sel id) T tr + (pull_len (sel id) T (EPull c t3 batch bytes (oerr o)) + 0) <= R2) by (unfold R2, R0; lia).
           apply (mul_bound (unit L)) in Hsum; [|exact HU].
           assert (lp L * (t2 + d2 - t0 + 1) <= lp L * (T - t0 + 1)) by (apply Z.mul_le_mono_nonneg_l; unfold t3 in HtT; lia).
           lia.
        -- assert (pull_len (sel id) T (EPull c t3 batch bytes (oerr o)) = 0) as ->.
           { cbn. destruct (Z.leb_spec t3 T); [lia|reflexivity]. }
           lia.
Qed.

(* ------------------------------------------------------------------ schedules *)
Definition handler_ok (h : handler) : Prop :=
  (forall L, htotal h = Some L -> limiter_ok L) /\ (forall L, hlocal h = Some L -> limiter_ok L).

Lemma batch_nonneg h len : handler_ok h -> 0 <= len -> 0 <= batch_size h len.
Proof.
  intros [HT HL] Hlen. unfold batch_size.
  assert (0 <= match htotal h with Some L => zmin len (lburst L) | None => len end) as H1.
  { destruct (htotal h) as [L|]; [|lia]. apply zmin_glb; [lia|apply (HT L eq_refl)]. }
  destruct (hlocal h) as [L|]; [|exact H1]. apply zmin_glb; [exact H1|apply (HL L eq_refl)].
Qed.

Lemma batch_le h len :
  batch_size h len <= len /\ (forall L, htotal h = Some L -> batch_size h len <= lburst L)
  /\ (forall L, hlocal h = Some L -> batch_size h len <= lburst L).
Proof.
  unfold batch_size. destruct (htotal h) as [LT|], (hlocal h) as [LL|]; repeat split; intros; try discriminate;
    repeat match goal with H : Some _ = Some _ |- _ => inversion H; subst; clear H end;
    try pose proof (zmin_le len (lburst LT));
    try pose proof (zmin_le (zmin len (lburst LT)) (lburst LL));
    try pose proof (zmin_le len (lburst LL));
    try pose proof (zmin_le len (lburst L));
    try pose proof (zmin_le (zmin len (lburst L)) (lburst LL));
    try pose proof (zmin_le (zmin len (lburst LT)) (lburst L)); lia.
Qed.

Definition reads_from (h : handler) (ss : list session) (id : limid) (t0 : Z) (ops : list op) : Prop :=
  forall o s rdy, In o ops -> nth_error ss (oc o) = Some s -> ready h s = Some rdy ->
                  concerns id (oc o) = true -> t0 <= rdy + odelay o.

Lemma run_inv h ss id L t0 :
  lim_of h id = Some L -> limiter_ok L -> linf L = false -> handler_ok h ->
  forall ops w tr, WI id L t0 w tr -> Forall op_ok ops -> reads_from h ss id t0 ops ->
    WI id L t0 (fst (fold_left (sched_step h ss) ops (w, tr))) (snd (fold_left (sched_step h ss) ops (w, tr))).
Proof.
  intros Hlim Hok Hinf Hh. induction ops as [|o ops IH]; intros w tr HWI Hops Hfrom; cbn [fold_left] in *; [exact HWI|].
  inversion Hops as [|? ? Ho Hops']; subst.
  assert (Hfrom' : reads_from h ss id t0 ops).
  { intros o' s rdy Hin. apply Hfrom. right; exact Hin. }
  unfold sched_step at 2 4.
  destruct (nth_error ss (oc o)) as [s|] eqn:Es; [|apply IH; auto].
  destruct (ready h s) as [rdy|] eqn:Er; [|apply IH; auto].
  cbn [fst snd] in *.
  destruct (read_step h (rdy + odelay o) w o) as [w' e] eqn:Ers.
  apply IH; auto.
  eapply read_step_inv; eauto.
  - intro Hc. eapply Hfrom; eauto. left; reflexivity.
  - apply batch_nonneg; [exact Hh|apply Ho].
Qed.

Lemma WI_init h ss id L t0 : lim_of h id = Some L -> limiter_ok L -> WI id L t0 (init_world h ss) [].
Proof.
  intros Hlim Hok. pose proof (unit_pos L Hok). destruct Hok as (Hp & Hq & Hb).
  split; [|split; [cbn; lia|split; [cbn; lia|split; [cbn; lia|]]]].
  - destruct id; cbn in *; rewrite Hlim; apply linv_init.
  - intros T HT. cbn. assert (0 <= lp L * (T - t0 + 1)) by (apply Z.mul_nonneg_nonneg; lia).
    assert (0 <= lburst L * unit L) by (apply Z.mul_nonneg_nonneg; lia). lia.
Qed.

(* the bound for every schedule, for the total limiter (id = Total) and for a connection's
   limiter (id = Local c): the only excess over burst + rate * (T - t0 + 1ns) is the rate times
   the backward jumps of the instants at which reservations reached the limiter *)
Lemma throttle_bound_any h ss ops id L t0 T :
  lim_of h id = Some L -> linf L = false -> handler_ok h -> Forall op_ok ops ->
  reads_from h ss id t0 ops -> t0 <= T ->
  pulled (sel id) T (snd (run h ss ops)) * unit L
  <= lburst L * unit L + lp L * (T - t0 + 1) + lp L * back_sum id (snd (run h ss ops)).
Proof.
  intros Hlim Hinf Hh Hops Hfrom HT.
  assert (Hok : limiter_ok L) by (destruct Hh as [HT' HL]; destruct id; cbn in Hlim; auto).
  pose proof (run_inv h ss id L t0 Hlim Hok Hinf Hh ops _ _ (WI_init h ss id L t0 Hlim Hok) Hops Hfrom) as (_ & _ & _ & _ & Hb).
  apply Hb. exact HT.
Qed.

Lemma clock_ordered_back_sum id tr : clock_ordered tr -> back_sum id tr = 0.
Proof.
  intro Hc. unfold back_sum. induction tr as [|e tr IH]; [reflexivity|]. cbn [fold_right].
  rewrite IH; [|intros i j Hin; apply (Hc i j); right; exact Hin].
  destruct e; cbn; try reflexivity. exfalso. apply (Hc id0 j). left; reflexivity.
Qed.

Lemma throttle_bound_gen h ss ops id L t0 T :
  lim_of h id = Some L -> linf L = false -> handler_ok h -> Forall op_ok ops ->
  reads_from h ss id t0 ops -> clock_ordered (snd (run h ss ops)) -> t0 <= T ->
  pulled (sel id) T (snd (run h ss ops)) * unit L <= lburst L * unit L + lp L * (T - t0 + 1).
Proof.
  intros Hlim Hinf Hh Hops Hfrom Hclk HT.
  pose proof (throttle_bound_any h ss ops id L t0 T Hlim Hinf Hh Hops Hfrom HT) as H.
  rewrite (clock_ordered_back_sum id _ Hclk) in H. lia.
Qed.

(* ------------------------------------------------------------------ Provision *)
Lemma provision_ok c h : 0 < rq c -> 0 < trq c -> provision c = Some h -> handler_ok h /\ hlatency h = latency c.
Proof.
  intros Hrq Htq. unfold provision.
  destruct (Z.ltb_spec (rp c) 0) as [H1|H1]; [discriminate|].
  destruct (Z.ltb_spec (trp c) 0) as [H2|H2]; [discriminate|].
  set (rb := if (0 <? rp c) && (rburst c =? 0) then default_burst (rp c) (rq c) else rburst c).
  set (tb := if (0 <? trp c) && (tburst c =? 0) then default_burst (trp c) (trq c) else tburst c).
  destruct (Z.ltb_spec rb 0) as [H3|H3]; [discriminate|].
  destruct (Z.ltb_spec tb 0) as [H4|H4]; [discriminate|].
  intro H; inversion H; subst h; clear H. split; [|reflexivity]. split; cbn; intros L HL.
  - destruct ((0 <? trp c) || (0 <? tb)); inversion HL; subst L. repeat split; cbn; lia.
  - destruct ((0 <? rp c) || (0 <? rb)); inversion HL; subst L. repeat split; cbn; lia.
Qed.

(* a configured rate always comes with a positive burst (default: int(rate) + 1) *)
Lemma provision_burst_pos c h L : 0 < rq c -> 0 < trq c -> provision c = Some h ->
  (hlocal h = Some L \/ htotal h = Some L) -> 0 < lp L -> 0 < lburst L.
Proof.
  intros Hrq Htq. unfold provision.
  destruct (Z.ltb_spec (rp c) 0) as [H1|H1]; [discriminate|].
  destruct (Z.ltb_spec (trp c) 0) as [H2|H2]; [discriminate|].
  set (rb := if (0 <? rp c) && (rburst c =? 0) then default_burst (rp c) (rq c) else rburst c).
  set (tb := if (0 <? trp c) && (tburst c =? 0) then default_burst (trp c) (trq c) else tburst c).
  destruct (Z.ltb_spec rb 0) as [H3|H3]; [discriminate|].
  destruct (Z.ltb_spec tb 0) as [H4|H4]; [discriminate|].
  intro H; inversion H; subst h; clear H. cbn.
  assert (Hdb : forall p q, 0 <= p -> 0 < q -> 0 < default_burst p q).
  { intros p q Hp Hq. unfold default_burst. pose proof (Z.div_pos p q Hp Hq). lia. }
  intros [HL|HL] Hpos.
  - destruct ((0 <? rp c) || (0 <? rb)); inversion HL; subst L; cbn in *.
    unfold rb in *. destruct (Z.ltb_spec 0 (rp c)); [|lia]. destruct (Z.eqb_spec (rburst c) 0); cbn in *; [apply Hdb; lia|lia].
  - destruct ((0 <? trp c) || (0 <? tb)); inversion HL; subst L; cbn in *.
    unfold tb in *. destruct (Z.ltb_spec 0 (trp c)); [|lia]. destruct (Z.eqb_spec (tburst c) 0); cbn in *; [apply Hdb; lia|lia].
Qed.

(* ------------------------------------------------------------------ every pull: who, when, how much *)
Lemma lim_phase_events Lo id st t batch st' r e x :
  lim_phase Lo id st t batch = (st', r, e) -> In x e -> (exists i j, x = EBack i j) \/ (exists i t n, x = ERes i t n).
Proof.
  unfold lim_phase. destruct Lo as [L|]; [|intro H; inversion H; intros []].
  destruct (wait_n L st t batch) as [s r0]. intro H; inversion H; subst. intro Hin.
  apply in_app_or in Hin. destruct Hin as [Hin|Hin].
  - unfold back_ev in Hin. destruct (t <? last st); [|destruct Hin]. destruct Hin as [<-|[]]. left; eauto.
  - destruct r; cbn in Hin; try tauto; destruct Hin as [<-|[]]; right; eauto.
Qed.

Lemma read_step_pull h t1 w o w' e c t b bs er :
  handler_ok h -> op_ok o -> read_step h t1 w o = (w', e) -> In (EPull c t b bs er) e ->
  c = oc o /\ t1 <= t /\ b = batch_size h (olen o) /\ Z.of_nat (length bs) <= b.
Proof.
  intros Hh (Holen & Hodel & Hj2 & Hj3). pose proof (batch_nonneg h (olen o) Hh Holen) as Hbatch.
  unfold read_step. set (batch := batch_size h (olen o)) in *.
  destruct (lim_phase (htotal h) Total (wtotal w) t1 batch) as [[stT r1] e1] eqn:E1.
  assert (N1 : ~ In (EPull c t b bs er) e1).
  { intro Hin. destruct (lim_phase_events _ _ _ _ _ _ _ _ _ E1 Hin) as [[i [j Hx]]|[i [t' [n Hx]]]]; discriminate. }
  destruct r1 as [| |d1].
  - intro H; inversion H; subst. intro Hin. apply in_app_or in Hin. destruct Hin as [Hin|[Hin|[]]]; [tauto|discriminate].
  - intro H; inversion H; subst. intro Hin. apply in_app_or in Hin. destruct Hin as [Hin|[Hin|[]]]; [tauto|discriminate].
  - pose proof (lim_phase_nonneg _ _ _ _ _ _ _ _ E1) as Hd1.
    destruct (lim_phase (hlocal h) (Local (oc o)) (wlocal w (oc o)) (t1 + d1 + oj2 o) batch) as [[stL r2] e2] eqn:E2.
    assert (N2 : ~ In (EPull c t b bs er) e2).
    { intro Hin. destruct (lim_phase_events _ _ _ _ _ _ _ _ _ E2 Hin) as [[i [j Hx]]|[i [t' [n Hx]]]]; discriminate. }
    destruct r2 as [| |d2].
    + intro H; inversion H; subst. intro Hin. apply in_app_or in Hin. destruct Hin as [Hin|Hin]; [tauto|].
      apply in_app_or in Hin. destruct Hin as [Hin|[Hin|[]]]; [tauto|discriminate].
    + intro H; inversion H; subst. intro Hin. apply in_app_or in Hin. destruct Hin as [Hin|Hin]; [tauto|].
      apply in_app_or in Hin. destruct Hin as [Hin|[Hin|[]]]; [tauto|discriminate].
    + pose proof (lim_phase_nonneg _ _ _ _ _ _ _ _ E2) as Hd2.
      intro H; inversion H; subst. intro Hin. apply in_app_or in Hin. destruct Hin as [Hin|Hin]; [tauto|].
      apply in_app_or in Hin. destruct Hin as [Hin|[Hin|[]]]; [tauto|]. inversion Hin; subst.
      repeat split; try lia.
      set (rest := winner w (oc o)).
      pose proof (zmin_le batch (Z.of_nat (length rest))) as Hzl.
      assert (Hz0 : 0 <= zmin batch (Z.of_nat (length rest))) by (apply zmin_glb; lia).
      pose proof (clip_range (oavail o) _ Hz0) as Hk.
      pose proof (firstn_len_le (clip (oavail o) 0 (zmin batch (Z.of_nat (length rest)))) rest (proj1 Hk)). lia.
Qed.

Lemma fold_pull h ss : handler_ok h -> forall ops acc c t b bs er, Forall op_ok ops ->
  In (EPull c t b bs er) (snd (fold_left (sched_step h ss) ops acc)) ->
  In (EPull c t b bs er) (snd acc) \/
  exists o s rdy, In o ops /\ c = oc o /\ nth_error ss c = Some s /\ ready h s = Some rdy /\
                  rdy + odelay o <= t /\ b = batch_size h (olen o) /\ Z.of_nat (length bs) <= b.
Proof.
  intro Hh. induction ops as [|o ops IH]; intros acc c t b bs er Hops Hin; cbn [fold_left] in Hin; [left; exact Hin|].
  inversion Hops as [|? ? Ho Hops']; subst.
  destruct (IH _ _ _ _ _ _ Hops' Hin) as [Hacc|(o' & s & rdy & Hio & Hrest)].
  - unfold sched_step in Hacc.
    destruct (nth_error ss (oc o)) as [s|] eqn:Es; [|left; exact Hacc].
    destruct (ready h s) as [rdy|] eqn:Er; [|left; exact Hacc].
    destruct (read_step h (rdy + odelay o) (fst acc) o) as [w' e] eqn:Ers. cbn [snd] in Hacc.
    apply in_app_or in Hacc. destruct Hacc as [Hacc|Hacc]; [left; exact Hacc|right].
    destruct (read_step_pull _ _ _ _ _ _ _ _ _ _ _ Hh Ho Ers Hacc) as (-> & Ht & Hb & Hl).
    exists o, s, rdy. repeat split; auto. left; reflexivity.
  - right. exists o', s, rdy. split; [right; exact Hio|exact Hrest].
Qed.

Lemma ready_after h s rdy : session_ok s -> ready h s = Some rdy -> sstart s + Z.max 0 (hlatency h) <= rdy.
Proof.
  intros [Hs Hj]. unfold ready. destruct (Z.ltb_spec 0 (hlatency h)) as [Hl|Hl].
  - destruct (scancel s); [discriminate|]. intro H; inversion H; lia.
  - intro H; inversion H; lia.
Qed.

(* Handle: no byte is pulled from a connection before its latency has passed; connections
   cancelled during the wait are never read; every inner Read is for at most batch bytes *)
Lemma first_read_after_latency_gen h ss ops c t b bs er :
  handler_ok h -> Forall op_ok ops -> Forall session_ok ss ->
  In (EPull c t b bs er) (snd (run h ss ops)) ->
  exists s, nth_error ss c = Some s /\ (0 < hlatency h -> scancel s = false) /\
            sstart s + Z.max 0 (hlatency h) <= t.
Proof.
  intros Hh Hops Hss Hin. unfold run in Hin.
  destruct (fold_pull h ss Hh ops _ _ _ _ _ _ Hops Hin) as [[]|(o & s & rdy & Hio & -> & Hs & Hr & Ht & _)].
  exists s. split; [exact Hs|]. split.
  - intro Hl. unfold ready in Hr. destruct (Z.ltb_spec 0 (hlatency h)) as [Hl'|Hl']; [|lia]. destruct (scancel s); [discriminate|reflexivity].
  - assert (session_ok s) as Hsok by (eapply Forall_forall; [exact Hss|eapply nth_error_In; eauto]).
    pose proof (ready_after h s rdy Hsok Hr). assert (0 <= odelay o) by (eapply Forall_forall in Hops; [apply Hops|exact Hio]). lia.
Qed.

Lemma read_within_batch_gen h ss ops c t b bs er :
  handler_ok h -> Forall op_ok ops -> In (EPull c t b bs er) (snd (run h ss ops)) ->
  Z.of_nat (length bs) <= b /\ (forall L, htotal h = Some L -> b <= lburst L) /\ (forall L, hlocal h = Some L -> b <= lburst L).
Proof.
  intros Hh Hops Hin. unfold run in Hin.
  destruct (fold_pull h ss Hh ops _ _ _ _ _ _ Hops Hin) as [[]|(o & s & rdy & Hio & -> & Hs & Hr & Ht & -> & Hl)].
  split; [exact Hl|]. pose proof (batch_le h (olen o)) as (_ & A & B). split; assumption.
Qed.

(* ------------------------------------------------------------------ stream identity *)
Lemma stream_of_app c a b : stream_of c (a ++ b) = stream_of c a ++ stream_of c b.
Proof.
  induction a as [|x a IH]; cbn; [reflexivity|]. destruct x; try exact IH.
  destruct (Nat.eqb c0 c); [rewrite IH, app_assoc; reflexivity|exact IH].
Qed.

Lemma lim_phase_stream Lo id st t batch st' r e c :
  lim_phase Lo id st t batch = (st', r, e) -> stream_of c e = [].
Proof.
  unfold lim_phase. destruct Lo as [L|]; [|intro H; inversion H; reflexivity].
  destruct (wait_n L st t batch) as [s r0]. intro H; inversion H; subst.
  rewrite stream_of_app. unfold back_ev. destruct (t <? last st); destruct r; reflexivity.
Qed.

Lemma read_step_stream h t1 w o w' e c :
  read_step h t1 w o = (w', e) -> stream_of c e ++ winner w' c = winner w c.
Proof.
  unfold read_step.
  destruct (lim_phase (htotal h) Total (wtotal w) t1 (batch_size h (olen o))) as [[stT r1] e1] eqn:E1.
  pose proof (lim_phase_stream _ _ _ _ _ _ _ _ c E1) as S1.
  destruct r1 as [| |d1].
  - intro H; inversion H; subst. rewrite stream_of_app, S1. reflexivity.
  - intro H; inversion H; subst. rewrite stream_of_app, S1. reflexivity.
  - destruct (lim_phase (hlocal h) (Local (oc o)) (wlocal w (oc o)) (t1 + d1 + oj2 o) (batch_size h (olen o))) as [[stL r2] e2] eqn:E2.
    pose proof (lim_phase_stream _ _ _ _ _ _ _ _ c E2) as S2.
    destruct r2 as [| |d2]; intro H; inversion H; subst; rewrite !stream_of_app, S1, S2; cbn [app stream_of winner]; try reflexivity.
    destruct (Nat.eqb (oc o) c) eqn:Ec.
    + apply Nat.eqb_eq in Ec. subst c. rewrite upd_same, app_nil_r. apply firstn_skipn.
    + rewrite upd_other by (rewrite Nat.eqb_sym; exact Ec). reflexivity.
Qed.

Lemma fold_stream h ss c : forall ops acc,
  stream_of c (snd (fold_left (sched_step h ss) ops acc)) ++ winner (fst (fold_left (sched_step h ss) ops acc)) c
  = stream_of c (snd acc) ++ winner (fst acc) c.
Proof.
  induction ops as [|o ops IH]; intro acc; cbn [fold_left]; [reflexivity|]. rewrite IH.
  unfold sched_step. destruct (nth_error ss (oc o)) as [s|]; [|reflexivity].
  destruct (ready h s) as [rdy|]; [|reflexivity].
  destruct (read_step h (rdy + odelay o) (fst acc) o) as [w' e] eqn:Ers. cbn [fst snd].
  rewrite stream_of_app, <- app_assoc, (read_step_stream _ _ _ _ _ _ c Ers). reflexivity.
Qed.

(* what the next handler received from connection c, followed by what the inner connection
   still holds, is the inner connection's byte stream: nothing lost, duplicated or reordered *)
Lemma throttle_identity_gen h ss ops c s :
  nth_error ss c = Some s ->
  stream_of c (snd (run h ss ops)) ++ winner (fst (run h ss ops)) c = sdata s.
Proof. intro Hs. unfold run. rewrite fold_stream. cbn. rewrite Hs. reflexivity. Qed.

(* ------------------------------------------------------------------ statements used by props/C17.v *)
(* t0 is at or before every Read call on connection c (e.g. the instant of its first Read) *)
Definition conn_reads_from (h : handler) (ss : list session) (c : nat) (t0 : Z) (ops : list op) : Prop :=
  forall o s rdy, In o ops -> oc o = c -> nth_error ss c = Some s -> ready h s = Some rdy -> t0 <= rdy + odelay o.
(* t0 is at or before every Read call on any connection of the handler *)
Definition all_reads_from (h : handler) (ss : list session) (t0 : Z) (ops : list op) : Prop :=
  forall o s rdy, In o ops -> nth_error ss (oc o) = Some s -> ready h s = Some rdy -> t0 <= rdy + odelay o.

Lemma throttle_bound_conn cfg h ss ops c L t0 T :
  0 < rq cfg -> 0 < trq cfg -> provision cfg = Some h ->
  hlocal h = Some L -> linf L = false ->
  Forall op_ok ops -> clock_ordered (snd (run h ss ops)) ->
  conn_reads_from h ss c t0 ops -> t0 <= T ->
  pulled (Some c) T (snd (run h ss ops)) * unit L <= lburst L * unit L + lp L * (T - t0 + 1).
Proof.
  intros Hrq Htq Hprov HL Hinf Hops Hclk Hfrom HT.
  destruct (provision_ok cfg h Hrq Htq Hprov) as [Hh _].
  apply (throttle_bound_gen h ss ops (Local c) L t0 T HL Hinf Hh Hops); auto.
  intros o s rdy Hin Hs Hr Hc. cbn in Hc. apply Nat.eqb_eq in Hc. eapply Hfrom; eauto. rewrite <- Hc. exact Hs.
Qed.

Lemma throttle_bound_total cfg h ss ops L t0 T :
  0 < rq cfg -> 0 < trq cfg -> provision cfg = Some h ->
  htotal h = Some L -> linf L = false ->
  Forall op_ok ops -> clock_ordered (snd (run h ss ops)) ->
  all_reads_from h ss t0 ops -> t0 <= T ->
  pulled None T (snd (run h ss ops)) * unit L <= lburst L * unit L + lp L * (T - t0 + 1).
Proof.
  intros Hrq Htq Hprov HL Hinf Hops Hclk Hfrom HT.
  destruct (provision_ok cfg h Hrq Htq Hprov) as [Hh _].
  apply (throttle_bound_gen h ss ops Total L t0 T HL Hinf Hh Hops); auto.
  intros o s rdy Hin Hs Hr _. eapply Hfrom; eauto.
Qed.

(* the same without any assumption on the order in which reservations reach the limiters *)
Lemma throttle_bound_conn_any cfg h ss ops c L t0 T :
  0 < rq cfg -> 0 < trq cfg -> provision cfg = Some h ->
  hlocal h = Some L -> linf L = false ->
  Forall op_ok ops -> conn_reads_from h ss c t0 ops -> t0 <= T ->
  pulled (Some c) T (snd (run h ss ops)) * unit L
  <= lburst L * unit L + lp L * (T - t0 + 1) + lp L * back_sum (Local c) (snd (run h ss ops)).
Proof.
  intros Hrq Htq Hprov HL Hinf Hops Hfrom HT.
  destruct (provision_ok cfg h Hrq Htq Hprov) as [Hh _].
  apply (throttle_bound_any h ss ops (Local c) L t0 T HL Hinf Hh Hops); auto.
  intros o s rdy Hin Hs Hr Hc. cbn in Hc. apply Nat.eqb_eq in Hc. eapply Hfrom; eauto. rewrite <- Hc. exact Hs.
Qed.

Lemma throttle_bound_total_any cfg h ss ops L t0 T :
  0 < rq cfg -> 0 < trq cfg -> provision cfg = Some h ->
  htotal h = Some L -> linf L = false ->
  Forall op_ok ops -> all_reads_from h ss t0 ops -> t0 <= T ->
  pulled None T (snd (run h ss ops)) * unit L
  <= lburst L * unit L + lp L * (T - t0 + 1) + lp L * back_sum Total (snd (run h ss ops)).
Proof.
  intros Hrq Htq Hprov HL Hinf Hops Hfrom HT.
  destruct (provision_ok cfg h Hrq Htq Hprov) as [Hh _].
  apply (throttle_bound_any h ss ops Total L t0 T HL Hinf Hh Hops); auto.
  intros o s rdy Hin Hs Hr _. eapply Hfrom; eauto.
Qed.

Lemma first_read_after_latency cfg h ss ops c t b bs er :
  0 < rq cfg -> 0 < trq cfg -> provision cfg = Some h ->
  Forall op_ok ops -> Forall session_ok ss ->
  In (EPull c t b bs er) (snd (run h ss ops)) ->
  exists s, nth_error ss c = Some s /\ (0 < latency cfg -> scancel s = false) /\
            sstart s + Z.max 0 (latency cfg) <= t.
Proof.
  intros Hrq Htq Hprov Hops Hss Hin. destruct (provision_ok cfg h Hrq Htq Hprov) as [Hh Hl]. rewrite <- Hl.
  eapply first_read_after_latency_gen; eauto.
Qed.

Lemma read_within_batch cfg h ss ops c t b bs er :
  0 < rq cfg -> 0 < trq cfg -> provision cfg = Some h -> Forall op_ok ops ->
  In (EPull c t b bs er) (snd (run h ss ops)) ->
  Z.of_nat (length bs) <= b /\ (forall L, htotal h = Some L -> b <= lburst L) /\ (forall L, hlocal h = Some L -> b <= lburst L).
Proof.
  intros Hrq Htq Hprov Hops Hin. destruct (provision_ok cfg h Hrq Htq Hprov) as [Hh _].
  eapply read_within_batch_gen; eauto.
Qed.

Lemma clock_ordered_dec tr : existsb is_back tr = false -> clock_ordered tr.
Proof.
  intros H id j Hin. assert (existsb is_back tr = true); [|congruence].
  apply existsb_exists. exists (EBack id j). split; [exact Hin|reflexivity].
Qed.

(* the truncation of durationFromTokens makes the bound hold with one nanosecond of slack only:
   at limits above one token per nanosecond two tokens can be had at the same instant *)
Lemma exact_bound_needs_slack :
  exists L st1 st2 d1 d2,
    limiter_ok L /\ linf L = false /\
    wait_n L (new_limiter L) 0 1 = (st1, WSleep d1) /\ wait_n L st1 0 1 = (st2, WSleep d2) /\
    d1 = 0 /\ d2 = 0 /\ lburst L = 1.
Proof.
  exists {| lp := 1500000000; lq := 1; lburst := 1; linf := false |}.
  eexists. eexists. exists 0, 0. repeat split; try (cbn; lia); vm_compute; reflexivity.
Qed.

(* ------------------------------------------------------------------ prefetched bytes in front *)
(* the buffered bytes are handed out completely before any Read reaches the throttled conn, and
   never more than were buffered *)
Lemma cx_plan_buffer lens : forall b, 0 <= b -> Forall (fun l => 0 <= l) lens ->
  0 <= from_buffer (cx_plan b lens) <= b /\
  (forall pre l post, cx_plan b lens = pre ++ inr l :: post -> from_buffer pre = b /\ from_buffer post = 0).
Proof.
  induction lens as [|l lens IH]; intros b Hb Hl; cbn [cx_plan].
  - split; [cbn; lia|]. intros pre l post H. destruct pre; discriminate.
  - inversion Hl as [|? ? Hl0 Hl']; subst.
    destruct (Z.ltb_spec 0 b) as [Hpos|Hz].
    + cbn zeta. pose proof (zmin_le l b) as [Hm1 Hm2]. assert (0 <= zmin l b) by (apply zmin_glb; lia).
      destruct (IH (b - zmin l b) ltac:(lia) Hl') as [Hs Hsplit]. split; [cbn [from_buffer fold_right]; unfold from_buffer in Hs; lia|].
      intros pre l' post H'. destruct pre as [|x pre]; [discriminate|]. cbn in H'. injection H' as Hx Hrest. subst x.
      destruct (Hsplit pre l' post Hrest) as [A B]. split; [cbn [from_buffer fold_right]; unfold from_buffer in A; lia|exact B].
    + assert (b = 0) as -> by lia. destruct (IH 0 ltac:(lia) Hl') as [Hs Hsplit].
      split; [cbn [from_buffer fold_right]; unfold from_buffer in Hs; lia|].
      intros pre l' post H'. destruct pre as [|x pre].
      * cbn in H'. injection H' as Hx Hrest. subst. split; [reflexivity|]. unfold from_buffer in *. lia.
      * cbn in H'. injection H' as Hx Hrest. subst x. destruct (Hsplit pre l' post Hrest) as [A B].
        split; [cbn [from_buffer fold_right]; unfold from_buffer in A; exact A|exact B].
Qed.

(* ------------------------------------------------------------------ chains of throttle handlers *)
Lemma ready_time_ge h t w o trdy batch :
  0 <= oj2 o -> ready_time h t w o = Some (trdy, batch) -> t <= trdy /\ batch = batch_size h (olen o).
Proof.
  intros Hj. unfold ready_time.
  destruct (lim_phase (htotal h) Total (wtotal w) t (batch_size h (olen o))) as [[s1 r1] e1] eqn:E1.
  destruct r1 as [| |d1]; try discriminate.
  pose proof (lim_phase_nonneg _ _ _ _ _ _ _ _ E1) as Hd1.
  destruct (lim_phase (hlocal h) (Local (oc o)) (wlocal w (oc o)) (t + d1 + oj2 o) (batch_size h (olen o))) as [[s2 r2] e2] eqn:E2.
  destruct r2 as [| |d2]; try discriminate.
  pose proof (lim_phase_nonneg _ _ _ _ _ _ _ _ E2) as Hd2.
  intro H; inversion H; subst. split; [lia|reflexivity].
Qed.

(* a stage whose limiters let the Read through records the bytes at the instant trdy + oj3 *)
Lemma read_step_pull_time h t w o j trdy batch w' e c tt b bs er :
  ready_time h t w o = Some (trdy, batch) -> read_step h t w (set_j3 o j) = (w', e) ->
  In (EPull c tt b bs er) e -> tt = trdy + j.
Proof.
  unfold ready_time, read_step. cbn [set_j3 oc olen oj2 oj3 oavail oerr].
  destruct (lim_phase (htotal h) Total (wtotal w) t (batch_size h (olen o))) as [[s1 r1] e1] eqn:E1.
  destruct r1 as [| |d1]; try discriminate.
  destruct (lim_phase (hlocal h) (Local (oc o)) (wlocal w (oc o)) (t + d1 + oj2 o) (batch_size h (olen o))) as [[s2 r2] e2] eqn:E2.
  destruct r2 as [| |d2]; try discriminate.
  intro H; inversion H; subst. intro H2; inversion H2; subst. intro Hin.
  apply in_app_or in Hin. destruct Hin as [Hin|Hin].
  { destruct (lim_phase_events _ _ _ _ _ _ _ _ _ E1 Hin) as [[i [jj Hx]]|[i [t' [n Hx]]]]; discriminate. }
  apply in_app_or in Hin. destruct Hin as [Hin|[Hin|[]]].
  { destruct (lim_phase_events _ _ _ _ _ _ _ _ _ E2 Hin) as [[i [jj Hx]]|[i [t' [n Hx]]]]; discriminate. }
  inversion Hin; subst. reflexivity.
Qed.

(* every stage of a chain keeps its own ledger invariant for each of its finite limiters *)
Definition stage_ok (t0 : Z) (s : stage) : Prop :=
  match s with (h, w, tr) =>
    handler_ok h /\ forall id L, lim_of h id = Some L -> linf L = false -> WI id L t0 w tr
  end.

Lemma stage_step t0 h w tr t o w' e :
  stage_ok t0 (h, w, tr) -> op_ok o -> t0 <= t -> read_step h t w o = (w', e) -> stage_ok t0 (h, w', tr ++ e).
Proof.
  intros [Hh HW] Ho Ht Hr. split; [exact Hh|]. intros id L Hlim Hinf.
  assert (Hok : limiter_ok L) by (destruct Hh as [HT HL]; destruct id; cbn in Hlim; auto).
  eapply read_step_inv; eauto. apply batch_nonneg; [exact Hh|apply Ho].
Qed.

Lemma chain_read_ok t0 : forall ss t o jraw ss' tp,
  chain_read ss t o jraw = (ss', tp) -> op_ok o -> 0 <= jraw -> t0 <= t ->
  Forall (stage_ok t0) ss ->
  Forall (stage_ok t0) ss' /\ t <= tp /\ map (fun s => fst (fst s)) ss' = map (fun s => fst (fst s)) ss.
Proof.
  induction ss as [|[[h w] tr] rest IH]; intros t o jraw ss' tp H Ho Hj Ht Hall; cbn [chain_read] in H.
  - inversion H; subst. split; [constructor|split; [lia|reflexivity]].
  - inversion Hall as [|? ? Hs Hrest]; subst. pose proof Ho as (Holen & Hodel & Hj2 & Hj3).
    destruct (ready_time h t w o) as [[trdy batch]|] eqn:Er.
    + destruct (ready_time_ge _ _ _ _ _ _ Hj2 Er) as [Hge Hb].
      destruct (chain_read rest trdy (set_len o batch) jraw) as [rest' tpull] eqn:Ec.
      destruct (read_step h t w (set_j3 o (tpull - trdy))) as [w' e] eqn:Ers. inversion H; subst ss' tp.
      assert (Hob : op_ok (set_len o batch)).
      { unfold op_ok; cbn. repeat split; try assumption. subst batch. apply batch_nonneg; [apply Hs|exact Holen]. }
      destruct (IH _ _ _ _ _ Ec Hob Hj ltac:(lia) Hrest) as (A & B & C).
      split; [|split; [lia|cbn [map fst]; rewrite C; reflexivity]].
      constructor; [|exact A].
      apply (stage_step t0 h w tr t (set_j3 o (tpull - trdy)) w' e Hs); [unfold op_ok; cbn; repeat split; (assumption || lia)|exact Ht|exact Ers].
    + destruct (read_step h t w o) as [w' e] eqn:Ers. inversion H; subst ss' tp.
      split; [|split; [lia|reflexivity]]. constructor; [|exact Hrest]. exact (stage_step t0 h w tr t o w' e Hs Ho Ht Ers).
Qed.

Definition read_ok (t0 : Z) (r : Z * op * Z) : Prop :=
  match r with (t, o, j) => t0 <= t /\ op_ok o /\ 0 <= j end.

Lemma chain_run_ok t0 reads : forall ss, Forall (read_ok t0) reads -> Forall (stage_ok t0) ss ->
  Forall (stage_ok t0) (chain_run ss reads) /\
  map (fun s => fst (fst s)) (chain_run ss reads) = map (fun s => fst (fst s)) ss.
Proof.
  induction reads as [|[[t o] j] reads IH]; intros ss Hr Hs; cbn [chain_run fold_left]; [split; [exact Hs|reflexivity]|].
  inversion Hr as [|? ? Hrd Hr']; subst. cbn in Hrd. destruct Hrd as (Ht & Ho & Hj).
  destruct (chain_read ss t o j) as [ss' tp] eqn:Ec. cbn [fst].
  destruct (chain_read_ok t0 _ _ _ _ _ _ Ec Ho Hj Ht Hs) as (A & _ & C).
  destruct (IH ss' Hr' A) as (A' & C'). split; [exact A'|]. unfold chain_run in C'. rewrite C', C. reflexivity.
Qed.

Lemma chain_init_ok t0 hs sess : Forall handler_ok hs -> Forall (stage_ok t0) (chain_init hs sess).
Proof.
  intro H. unfold chain_init. induction H as [|h hs Hh Hhs IH]; cbn; constructor; [|exact IH].
  split; [exact Hh|]. intros id L Hlim Hinf. apply WI_init; [exact Hlim|].
  destruct Hh as [HT HL]; destruct id; cbn in Hlim; auto.
Qed.

(* the chain's output respects every stage's bound: whatever the other throttle handlers of the
   chain do, the bytes that passed stage (h, tr) by any instant T stay within that handler's burst
   + rate * (T - t0 + 1ns) (+ rate * backward clock jumps), per connection (id = Local c) and for
   its total limiter (id = Total); the handlers of the chain stay in place *)
Lemma chain_bound hs sess reads t0 :
  Forall handler_ok hs -> Forall (read_ok t0) reads ->
  map (fun s => fst (fst s)) (chain_run (chain_init hs sess) reads) = hs /\
  forall h w tr id L T, In (h, w, tr) (chain_run (chain_init hs sess) reads) ->
    lim_of h id = Some L -> linf L = false -> t0 <= T ->
    pulled (sel id) T tr * unit L <= lburst L * unit L + lp L * (T - t0 + 1) + lp L * back_sum id tr.
Proof.
  intros Hhs Hreads.
  destruct (chain_run_ok t0 reads (chain_init hs sess) Hreads (chain_init_ok t0 hs sess Hhs)) as [A C].
  split.
  - rewrite C. unfold chain_init. rewrite map_map. cbn. apply map_id.
  - intros h w tr id L T Hin Hlim Hinf HT.
    assert (Hs : stage_ok t0 (h, w, tr)) by (eapply Forall_forall in A; eauto).
    destruct Hs as [_ HW]. destruct (HW id L Hlim Hinf) as (_ & _ & _ & _ & Hb). apply Hb. exact HT.
Qed.
