(* Lemmas about model/TokenBucket.v (C17): the token-bucket ledger invariant, the bound on bytes
   pulled by any instant, the latency wait and stream identity. *)
From Coq Require Import List ZArith Bool Lia Arith.
From Coq.Strings Require Import Byte.
From L4.model Require Import TokenBucket.
Import ListNotations.
Open Scope Z_scope.

(* ------------------------------------------------------------------ one limiter *)
Lemma unit_pos L : limiter_ok L -> 0 < unit L.
Proof. intros (Hp & Hq & Hb). unfold unit, ns_per_s. lia. Qed.

(* ledger: R tokens were reserved so far; all reservations happened at or after t0 *)
Definition linv (L : limiter) (t0 : Z) (st : lstate) (R : Z) : Prop :=
  tok st <= lburst L * unit L /\
  (R = 0 \/ (t0 <= last st /\ R * unit L + tok st <= lburst L * unit L + lp L * (last st - t0))).

Lemma linv_init L t0 : linv L t0 (new_limiter L) 0.
Proof. split; [cbn; lia|left; reflexivity]. Qed.

Lemma advance_le L st t :
  limiter_ok L -> last st <= t ->
  advance L st t <= lburst L * unit L /\ advance L st t <= tok st + lp L * (t - last st).
Proof.
  intros (Hp & Hq & Hb) Hlt. unfold advance, tokens_from_duration.
  destruct (Z.ltb_spec t (last st)) as [Hc|Hc]; [lia|].
  destruct (Z.leb_spec (lp L) 0) as [Hz|Hz].
  - assert (lp L = 0) as -> by lia.
    destruct (Z.ltb_spec (lburst L * unit L) (tok st + 0)); lia.
  - destruct (Z.ltb_spec (lburst L * unit L) (tok st + (t - last st) * lp L)); lia.
Qed.

Lemma wait_n_nonneg L st t n st' d : wait_n L st t n = (st', WSleep d) -> 0 <= d.
Proof.
  unfold wait_n, reserve. destruct ((lburst L <? n) && negb (linf L)); [discriminate|].
  destruct (linf L).
  - cbn. destruct (inf_duration <=? 0) eqn:E; [discriminate|]. intro H; inversion H; lia.
  - set (tk := advance L st t - n * unit L).
    set (w := if tk <? 0 then duration_from_tokens L (- tk) else 0).
    destruct ((n <=? lburst L) && (w <=? inf_duration)); cbn.
    + destruct (Z.leb_spec inf_duration w); [discriminate|]. intro H; inversion H; subst d.
      unfold w, duration_from_tokens. destruct (Z.ltb_spec tk 0) as [Hn|Hn]; [|lia].
      destruct (Z.leb_spec (lp L) 0); [unfold inf_duration; lia|]. apply Z.div_pos; lia.
    + discriminate.
Qed.

Lemma wait_n_step L t0 st R t n st' r :
  limiter_ok L -> linf L = false -> linv L t0 st R -> last st <= t -> t0 <= t -> 0 <= n ->
  wait_n L st t n = (st', r) ->
  match r with
  | WErr => st' = st
  | WBlock => linv L t0 st' (R + n)
  | WSleep d => linv L t0 st' (R + n) /\ (R + n) * unit L <= lburst L * unit L + lp L * (t + d - t0 + 1)
  end.
Proof.
  intros Hok Hinf (Hcap & Hled) Hlast Ht0 Hn. pose proof (unit_pos L Hok) as HU.
  destruct (advance_le L st t Hok Hlast) as [HA1 HA2]. destruct Hok as (Hp & Hq & Hb).
  unfold wait_n, reserve. rewrite Hinf. cbn [negb]. rewrite andb_true_r.
  destruct (Z.ltb_spec (lburst L) n) as [Hbn|Hbn]; [intro H; inversion H; reflexivity|].
  set (tk := advance L st t - n * unit L).
  set (w := if tk <? 0 then duration_from_tokens L (- tk) else 0).
  assert (Hnu : 0 <= n * unit L) by (apply Z.mul_nonneg_nonneg; lia).
  assert (Hinv' : linv L t0 {| tok := tk; last := t |} (R + n)).
  { split; cbn [tok last]; [unfold tk; lia|]. right. split; [exact Ht0|]. unfold tk.
    destruct Hled as [HR|[Ht0l Hl]]; [subst R; nia|nia]. }
  destruct ((n <=? lburst L) && (w <=? inf_duration)) eqn:Eok; cbn [negb].
  - destruct (Z.leb_spec inf_duration w) as [Hw|Hw]; intro H; inversion H; subst; [exact Hinv'|].
    split; [exact Hinv'|]. destruct Hinv' as [_ [HR|[_ Hl]]]; cbn [tok last] in *.
    + assert (R = 0 /\ n = 0) as [-> ->] by lia. cbn. unfold w in *.
      assert (0 <= if tk <? 0 then duration_from_tokens L (- tk) else 0).
      { destruct (Z.ltb_spec tk 0); [|lia]. unfold duration_from_tokens.
        destruct (Z.leb_spec (lp L) 0); [unfold inf_duration; lia|apply Z.div_pos; lia]. }
      nia.
    + unfold w in *. destruct (Z.ltb_spec tk 0) as [Hneg|Hpos].
      * unfold duration_from_tokens in *. destruct (Z.leb_spec (lp L) 0) as [Hz|Hz]; [lia|].
        pose proof (Z.mul_succ_div_gt (- tk) (lp L) Hz) as Hdiv.
        assert (0 <= (- tk) / lp L) by (apply Z.div_pos; lia). nia.
      * nia.
  - intro H; inversion H; reflexivity.
Qed.

(* ------------------------------------------------------------------ traces *)
Definition limid_eqb (a b : limid) : bool :=
  match a, b with Total, Total => true | Local x, Local y => Nat.eqb x y | _, _ => false end.
Definition lim_of (h : handler) (id : limid) : option limiter :=
  match id with Total => htotal h | Local _ => hlocal h end.
Definition lim_state (w : world) (id : limid) : lstate :=
  match id with Total => wtotal w | Local c => wlocal w c end.
Definition sel (id : limid) : option nat := match id with Total => None | Local c => Some c end.

Definition res_n (id : limid) (e : ev) : Z :=
  match e with ERes id' _ n => if limid_eqb id' id then n else 0 | _ => 0 end.
Definition res_sum (id : limid) (tr : list ev) : Z := fold_right (fun e a => res_n id e + a) 0 tr.

Definition all_len (c : option nat) (e : ev) : Z :=
  match e with
  | EPull c' _ _ bytes => if match c with None => true | Some c0 => Nat.eqb c' c0 end then Z.of_nat (length bytes) else 0
  | _ => 0
  end.
Definition all_pulled (c : option nat) (tr : list ev) : Z := fold_right (fun e a => all_len c e + a) 0 tr.

Lemma res_sum_app id a b : res_sum id (a ++ b) = res_sum id a + res_sum id b.
Proof. unfold res_sum. induction a as [|x a IH]; cbn; [reflexivity|]. cbn in IH. rewrite IH. lia. Qed.
Lemma pulled_app c T a b : pulled c T (a ++ b) = pulled c T a + pulled c T b.
Proof. unfold pulled. induction a as [|x a IH]; cbn; [reflexivity|]. cbn in IH. rewrite IH. lia. Qed.
Lemma all_pulled_app c a b : all_pulled c (a ++ b) = all_pulled c a + all_pulled c b.
Proof. unfold all_pulled. induction a as [|x a IH]; cbn; [reflexivity|]. cbn in IH. rewrite IH. lia. Qed.

Lemma pull_len_le c T e : 0 <= pull_len c T e <= all_len c e.
Proof.
  destruct e; cbn; try lia. destruct (t <=? T); cbn; [|destruct c; [destruct (Nat.eqb c0 n)|]; lia].
  destruct c; [destruct (Nat.eqb c0 n)|]; lia.
Qed.
Lemma pulled_le_all c T tr : 0 <= pulled c T tr <= all_pulled c tr.
Proof.
  unfold pulled, all_pulled. induction tr as [|e tr IH]; cbn; [lia|]. pose proof (pull_len_le c T e). lia.
Qed.

(* ------------------------------------------------------------------ lim_phase *)
Lemma back_ev_res id' id st t : res_sum id (back_ev id' st t) = 0.
Proof. unfold back_ev. destruct (t <? last st); reflexivity. Qed.
Lemma back_ev_pull id' c T st t : pulled c T (back_ev id' st t) = 0 /\ all_pulled c (back_ev id' st t) = 0.
Proof. unfold back_ev. destruct (t <? last st); split; reflexivity. Qed.

Lemma lim_phase_other Lo id' id st t batch st' r e :
  lim_phase Lo id' st t batch = (st', r, e) -> limid_eqb id' id = false -> res_sum id e = 0.
Proof.
  unfold lim_phase. destruct Lo as [L|]; [|intro H; inversion H; reflexivity].
  destruct (wait_n L st t batch) as [s r0]. intros H Hne; inversion H; subst.
  rewrite res_sum_app, back_ev_res. destruct r; cbn; rewrite ?Hne; reflexivity.
Qed.

Lemma lim_phase_nopull Lo id' st t batch st' r e c T :
  lim_phase Lo id' st t batch = (st', r, e) -> pulled c T e = 0 /\ all_pulled c e = 0.
Proof.
  unfold lim_phase. destruct Lo as [L|]; [|intro H; inversion H; split; reflexivity].
  destruct (wait_n L st t batch) as [s r0]. intros H; inversion H; subst.
  rewrite pulled_app, all_pulled_app. destruct (back_ev_pull id' c T st t) as [-> ->].
  destruct r; cbn; split; reflexivity.
Qed.

Lemma lim_phase_nonneg Lo id' st t batch st' d e :
  lim_phase Lo id' st t batch = (st', WSleep d, e) -> 0 <= d.
Proof.
  unfold lim_phase. destruct Lo as [L|]; [|intro H; inversion H; lia].
  destruct (wait_n L st t batch) as [s r0] eqn:E. intros H; inversion H; subst. eapply wait_n_nonneg; eauto.
Qed.

Lemma limid_eqb_refl id : limid_eqb id id = true.
Proof. destruct id; cbn; [reflexivity|apply Nat.eqb_refl]. Qed.

Lemma lim_phase_own L id t0 st R t batch st' r e :
  lim_phase (Some L) id st t batch = (st', r, e) ->
  limiter_ok L -> linf L = false -> linv L t0 st R -> t0 <= t -> 0 <= batch ->
  (forall i, ~ In (EBack i) e) ->
  linv L t0 st' (R + res_sum id e) /\ 0 <= res_sum id e /\
  match r with
  | WSleep d => (R + res_sum id e) * unit L <= lburst L * unit L + lp L * (t + d - t0 + 1)
  | _ => True
  end.
Proof.
  unfold lim_phase. destruct (wait_n L st t batch) as [s r0] eqn:E. intros H; inversion H; subst. clear H.
  intros Hok Hinf Hinv Ht0 Hb Hnb.
  assert (Hlast : last st <= t).
  { unfold back_ev in Hnb. destruct (Z.ltb_spec t (last st)) as [Hc|Hc]; [|lia].
    exfalso. apply (Hnb id). cbn. left; reflexivity. }
  pose proof (wait_n_step L t0 st R t batch st' r Hok Hinf Hinv Hlast Ht0 Hb E) as Hs.
  rewrite res_sum_app, back_ev_res.
  destruct r; cbn [res_sum fold_right res_n]; rewrite ?limid_eqb_refl.
  - subst st'. replace (R + (0 + 0)) with R by lia. repeat split; try lia; apply Hinv.
  - replace (R + (0 + (batch + 0))) with (R + batch) by lia. repeat split; try lia; apply Hs.
  - replace (R + (0 + (batch + 0))) with (R + batch) by lia. destruct Hs as [H1 H2]. repeat split; try lia; try apply H1. exact H2.
Qed.

(* ------------------------------------------------------------------ world invariant *)
Definition concerns (id : limid) (c : nat) : bool :=
  match id with Total => true | Local c0 => Nat.eqb c c0 end.

Definition WI (id : limid) (L : limiter) (t0 : Z) (w : world) (tr : list ev) : Prop :=
  linv L t0 (lim_state w id) (res_sum id tr) /\ 0 <= res_sum id tr /\
  all_pulled (sel id) tr <= res_sum id tr /\
  forall T, t0 <= T -> pulled (sel id) T tr * unit L <= lburst L * unit L + lp L * (T - t0 + 1).

Lemma clip_range k hi : 0 <= hi -> 0 <= clip k 0 hi <= hi.
Proof. intro H. unfold clip. destruct (Z.ltb_spec k 0); [lia|]. destruct (Z.ltb_spec hi k); lia. Qed.
Lemma zmin_le a b : zmin a b <= a /\ zmin a b <= b.
Proof. unfold zmin. destruct (Z.ltb_spec b a); lia. Qed.
Lemma zmin_glb a b c : c <= a -> c <= b -> c <= zmin a b.
Proof. unfold zmin. destruct (Z.ltb_spec b a); lia. Qed.

Lemma firstn_len_le {A} (k : Z) (l : list A) : 0 <= k -> Z.of_nat (length (firstn (Z.to_nat k) l)) <= k.
Proof. intro H. pose proof (firstn_le_length (Z.to_nat k) l). lia. Qed.

Lemma upd_same {A} (f : nat -> A) c v : upd f c v c = v.
Proof. unfold upd. rewrite Nat.eqb_refl. reflexivity. Qed.
Lemma upd_other {A} (f : nat -> A) c v x : Nat.eqb x c = false -> upd f c v x = f x.
Proof. unfold upd. intros ->. reflexivity. Qed.

Lemma in_app_not {A} (P : A -> Prop) (a b : list A) :
  (forall x, In x (a ++ b) -> P x) -> (forall x, In x a -> P x) /\ (forall x, In x b -> P x).
Proof. intro H. split; intros x Hx; apply H; apply in_or_app; auto. Qed.

Lemma mul_bound U X Y : 0 < U -> X <= Y -> X * U <= Y * U.
Proof. intros. nia. Qed.

Lemma read_step_inv h id L t0 t1 w o w' e tr :
  lim_of h id = Some L -> limiter_ok L -> linf L = false ->
  WI id L t0 w tr ->
  (concerns id (oc o) = true -> t0 <= t1) ->
  op_ok o -> 0 <= batch_size h (olen o) ->
  (forall i, ~ In (EBack i) e) ->
  read_step h t1 w o = (w', e) ->
  WI id L t0 w' (tr ++ e).
Proof.
  intros Hlim Hok Hinf (Hinv & HR0 & Hall & Hbound) Ht0 (Holen & Hodel & Hj2 & Hj3) Hbatch Hnb.
  pose proof (unit_pos L Hok) as HU. pose proof Hok as (Hp & Hq & Hb).
  unfold read_step. set (batch := batch_size h (olen o)) in *. set (c := oc o) in *.
  destruct (lim_phase (htotal h) Total (wtotal w) t1 batch) as [[stT r1] e1] eqn:E1.
  pose proof (lim_phase_nopull _ _ _ _ _ _ _ _ (sel id) 0 E1) as [_ Hall1].
  assert (Hp1 : forall T, pulled (sel id) T e1 = 0) by (intro T; eapply lim_phase_nopull; eauto).
  (* facts about phase 1 with respect to id *)
  assert (Ph1 : forall e', (forall i, ~ In (EBack i) (e1 ++ e')) ->
            linv L t0 (match id with Total => stT | Local c0 => wlocal w c0 end) (res_sum id tr + res_sum id e1)
            /\ 0 <= res_sum id e1
            /\ (forall d1, r1 = WSleep d1 -> id = Total ->
                  (res_sum id tr + res_sum id e1) * unit L <= lburst L * unit L + lp L * (t1 + d1 - t0 + 1))).
  { intros e' Hnb'. destruct id as [|c0].
    - cbn in Hlim. rewrite Hlim in E1.
      assert (Hnb1 : forall i, ~ In (EBack i) e1) by (intros i Hi; apply (Hnb' i); apply in_or_app; auto).
      pose proof (lim_phase_own L Total t0 _ _ _ _ _ _ _ E1 Hok Hinf Hinv (Ht0 eq_refl) Hbatch Hnb1) as (A & B & C).
      repeat split; [apply A|apply A|exact B|]. intros d1 -> _. exact C.
    - rewrite (lim_phase_other _ _ (Local c0) _ _ _ _ _ _ E1 eq_refl).
      replace (res_sum (Local c0) tr + 0) with (res_sum (Local c0) tr) by lia.
      repeat split; [apply Hinv|apply Hinv|lia|]. intros; discriminate. }
  destruct r1 as [| |d1].
  - (* total limiter error *)
    intro H; inversion H; subst w' e. clear H.
    destruct (Ph1 [EErr c] Hnb) as (A & B & _).
    unfold WI. rewrite !res_sum_app, !all_pulled_app. cbn [res_sum all_pulled fold_right res_n all_len].
    rewrite Hall1. repeat split.
    + destruct id; cbn [lim_state wtotal wlocal]; replace (res_sum _ e1 + (0 + 0)) with (res_sum _ e1) by lia; exact A.
    + lia.
    + lia.
    + intros T HT. rewrite !pulled_app, Hp1. cbn. specialize (Hbound T HT). lia.
  - intro H; inversion H; subst w' e. clear H.
    destruct (Ph1 [EBlock c] Hnb) as (A & B & _).
    unfold WI. rewrite !res_sum_app, !all_pulled_app. cbn [res_sum all_pulled fold_right res_n all_len].
    rewrite Hall1. repeat split.
    + destruct id; cbn [lim_state wtotal wlocal]; replace (res_sum _ e1 + (0 + 0)) with (res_sum _ e1) by lia; exact A.
    + lia.
    + lia.
    + intros T HT. rewrite !pulled_app, Hp1. cbn. specialize (Hbound T HT). lia.
  - pose proof (lim_phase_nonneg _ _ _ _ _ _ _ _ E1) as Hd1.
    set (t2 := t1 + d1 + oj2 o).
    destruct (lim_phase (hlocal h) (Local c) (wlocal w c) t2 batch) as [[stL r2] e2] eqn:E2.
    pose proof (lim_phase_nopull _ _ _ _ _ _ _ _ (sel id) 0 E2) as [_ Hall2].
    assert (Hp2 : forall T, pulled (sel id) T e2 = 0) by (intro T; eapply lim_phase_nopull; eauto).
    assert (Ph2 : forall e', (forall i, ~ In (EBack i) (e1 ++ e2 ++ e')) ->
              linv L t0 (lim_state {| wtotal := stT; wlocal := upd (wlocal w) c stL; winner := winner w |} id)
                   (res_sum id tr + res_sum id e1 + res_sum id e2)
              /\ 0 <= res_sum id e1 /\ 0 <= res_sum id e2
              /\ (forall d2, r2 = WSleep d2 -> concerns id c = true ->
                    (res_sum id tr + res_sum id e1 + res_sum id e2) * unit L
                    <= lburst L * unit L + lp L * (t2 + d2 - t0 + 1))).
    { intros e' Hnb'.
      assert (Hnb1 : forall i, ~ In (EBack i) (e1 ++ e2 ++ e')) by exact Hnb'.
      destruct (Ph1 (e2 ++ e') Hnb1) as (A & B & C).
      destruct id as [|c0].
      - rewrite (lim_phase_other _ _ Total _ _ _ _ _ _ E2 eq_refl). cbn [lim_state wtotal].
        replace (res_sum Total tr + res_sum Total e1 + 0) with (res_sum Total tr + res_sum Total e1) by lia.
        repeat split; [apply A|apply A|exact B|lia|]. intros d2 -> _.
        pose proof (lim_phase_nonneg _ _ _ _ _ _ _ _ E2) as Hd2.
        specialize (C d1 eq_refl eq_refl). unfold t2. nia.
      - cbn [lim_state wlocal]. destruct (Nat.eqb c0 c) eqn:Ec.
        + apply Nat.eqb_eq in Ec. subst c0. rewrite upd_same.
          cbn in Hlim. rewrite Hlim in E2.
          assert (Hnb2 : forall i, ~ In (EBack i) e2).
          { intros i Hi. apply (Hnb' i). apply in_or_app; right. apply in_or_app; auto. }
          assert (Ht2 : t0 <= t2) by (unfold t2; cbn in Ht0; rewrite Nat.eqb_refl in Ht0; specialize (Ht0 eq_refl); lia).
          pose proof (lim_phase_own L (Local c) t0 _ _ _ _ _ _ _ E2 Hok Hinf A Ht2 Hbatch Hnb2) as (A2 & B2 & C2).
          repeat split; [apply A2|apply A2|exact B|exact B2|]. intros d2 -> _. exact C2.
        + rewrite upd_other by exact Ec.
          assert (Hne : limid_eqb (Local c) (Local c0) = false) by (cbn; rewrite Nat.eqb_sym; exact Ec).
          rewrite (lim_phase_other _ _ (Local c0) _ _ _ _ _ _ E2 Hne).
          replace (res_sum (Local c0) tr + res_sum (Local c0) e1 + 0) with (res_sum (Local c0) tr + res_sum (Local c0) e1) by lia.
          repeat split; [apply A|apply A|exact B|lia|]. intros d2 _ Hc. cbn in Hc. rewrite Nat.eqb_sym in Hc. congruence. }
    destruct r2 as [| |d2].
    + intro H; inversion H; subst w' e. clear H.
      destruct (Ph2 [EErr c] Hnb) as (A & B1 & B2 & _).
      unfold WI. rewrite !res_sum_app, !all_pulled_app. cbn [res_sum all_pulled fold_right res_n all_len].
      rewrite Hall1, Hall2. repeat split.
      * replace (res_sum id tr + (res_sum id e1 + (res_sum id e2 + (0 + 0)))) with (res_sum id tr + res_sum id e1 + res_sum id e2) by lia. exact A.
      * lia.
      * lia.
      * intros T HT. rewrite !pulled_app, Hp1, Hp2. cbn. specialize (Hbound T HT). lia.
    + intro H; inversion H; subst w' e. clear H.
      destruct (Ph2 [EBlock c] Hnb) as (A & B1 & B2 & _).
      unfold WI. rewrite !res_sum_app, !all_pulled_app. cbn [res_sum all_pulled fold_right res_n all_len].
      rewrite Hall1, Hall2. repeat split.
      * replace (res_sum id tr + (res_sum id e1 + (res_sum id e2 + (0 + 0)))) with (res_sum id tr + res_sum id e1 + res_sum id e2) by lia. exact A.
      * lia.
      * lia.
      * intros T HT. rewrite !pulled_app, Hp1, Hp2. cbn. specialize (Hbound T HT). lia.
    + pose proof (lim_phase_nonneg _ _ _ _ _ _ _ _ E2) as Hd2.
      set (t3 := t2 + d2 + oj3 o).
      set (rest := winner w c).
      set (k := clip (oavail o) 0 (zmin batch (Z.of_nat (length rest)))).
      set (bytes := firstn (Z.to_nat k) rest).
      intro H; inversion H; subst w' e. clear H.
      destruct (Ph2 [EPull c t3 batch bytes] Hnb) as (A & B1 & B2 & C).
      assert (Hk : 0 <= k <= batch).
      { unfold k. pose proof (zmin_le batch (Z.of_nat (length rest))).
        assert (0 <= zmin batch (Z.of_nat (length rest))) by (apply zmin_glb; lia).
        pose proof (clip_range (oavail o) _ H0). lia. }
      assert (Hlen : Z.of_nat (length bytes) <= batch) by (pose proof (firstn_len_le k rest (proj1 Hk)); unfold bytes; lia).
      (* when the pull counts for id, id reserved batch in this call *)
      assert (Hres : concerns id c = true -> batch <= res_sum id e1 + res_sum id e2).
      { intro Hc. destruct id as [|c0].
        - cbn in Hlim. rewrite Hlim in E1. unfold lim_phase in E1.
          destruct (wait_n L (wtotal w) t1 batch) as [s r0]. inversion E1; subst.
          rewrite res_sum_app, back_ev_res. cbn. lia.
        - cbn in Hc. apply Nat.eqb_eq in Hc. subst c0. cbn in Hlim. rewrite Hlim in E2. unfold lim_phase in E2.
          destruct (wait_n L (wlocal w c) t2 batch) as [s r0]. inversion E2; subst.
          rewrite res_sum_app, back_ev_res. cbn. rewrite Nat.eqb_refl. lia. }
      assert (Hsel : all_len (sel id) (EPull c t3 batch bytes) = if concerns id c then Z.of_nat (length bytes) else 0).
      { destruct id; cbn; reflexivity. }
      unfold WI. rewrite !res_sum_app, !all_pulled_app. cbn [res_sum all_pulled fold_right res_n].
      rewrite Hall1, Hall2, Hsel. repeat split.
      * replace (res_sum id tr + (res_sum id e1 + (res_sum id e2 + (0 + 0)))) with (res_sum id tr + res_sum id e1 + res_sum id e2) by lia. exact A.
      * lia.
      * destruct (concerns id c) eqn:Ec; [specialize (Hres eq_refl)|]; lia.
      * intros T HT. rewrite !pulled_app, Hp1, Hp2. cbn [pulled fold_right].
        pose proof (pull_len_le (sel id) T (EPull c t3 batch bytes)) as Hpl. rewrite Hsel in Hpl.
        specialize (Hbound T HT).
        destruct (Z.leb_spec t3 T) as [HtT|HtT].
        -- destruct (concerns id c) eqn:Ec; [|lia].
           specialize (Hres eq_refl). specialize (C d2 eq_refl eq_refl).
           pose proof (pulled_le_all (sel id) T tr) as Hpa.
           assert (Hsum : pulled (sel id) T tr + (pull_len (sel id) T (EPull c t3 batch bytes) + 0)
                          <= res_sum id tr + res_sum id e1 + res_sum id e2) by lia.
           apply (mul_bound (unit L)) in Hsum; [|exact HU].
           assert (lp L * (t2 + d2 - t0 + 1) <= lp L * (T - t0 + 1)) by (apply Z.mul_le_mono_nonneg_l; unfold t3 in HtT; lia).
           lia.
        -- assert (pull_len (sel id) T (EPull c t3 batch bytes) = 0) as ->.
           { cbn. destruct (Z.leb_spec t3 T); [lia|reflexivity]. }
           lia.
Qed.
