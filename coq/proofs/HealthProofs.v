(* Lemmas about model/Health.v (C11). *)
From Coq Require Import List ZArith Bool Lia Arith.
From L4.gen Require Import Shape.
From L4.model Require Import Select Health.
Import ListNotations.
Open Scope Z_scope.

(* ------------------------------------------------------------------------------------------ *)
(* updz / addz                                                                                 *)

Lemma updz_same : forall f i v, updz f i v i = v.
Proof. intros; unfold updz; rewrite Nat.eqb_refl; reflexivity. Qed.
Lemma updz_other : forall f i v j, j <> i -> updz f i v j = f j.
Proof. intros f i v j H; unfold updz. destruct (Nat.eqb_spec j i); [contradiction|reflexivity]. Qed.
Lemma addz_same : forall f i d, addz f i d i = f i + d.
Proof. intros; unfold addz; apply updz_same. Qed.
Lemma addz_other : forall f i d j, j <> i -> addz f i d j = f j.
Proof. intros; unfold addz; apply updz_other; assumption. Qed.

(* ------------------------------------------------------------------------------------------ *)
(* the forgetters                                                                              *)

Definition cnt (p : nat) (l : list (Z * nat)) : Z :=
  Z.of_nat (length (filter (fun dp => Nat.eqb (snd dp) p) l)).

Lemma cnt_nil : forall p, cnt p [] = 0.
Proof. reflexivity. Qed.
Lemma cnt_cons : forall p d q l, cnt p ((d, q) :: l) = (if Nat.eqb q p then 1 else 0) + cnt p l.
Proof.
  intros; unfold cnt; cbn [filter snd]. destruct (Nat.eqb q p); cbn [length]; lia.
Qed.
Lemma cnt_app : forall p l1 l2, cnt p (l1 ++ l2) = cnt p l1 + cnt p l2.
Proof. intros; unfold cnt; rewrite filter_app, app_length; lia. Qed.
Lemma cnt_nonneg : forall p l, 0 <= cnt p l.
Proof. intros; unfold cnt; lia. Qed.

Definition later (t : Z) (dp : Z * nat) : bool := t <? fst dp.

Lemma later_leb : forall t d (q : nat), later t (d, q) = negb (d <=? t).
Proof. intros; unfold later; cbn [fst]. destruct (Z.ltb_spec t d); destruct (Z.leb_spec d t); try reflexivity; lia. Qed.

Lemma fire_spec : forall t pend f,
  fst (fire t pend f) = filter (later t) pend /\
  forall p, snd (fire t pend f) p = f p - (cnt p pend - cnt p (filter (later t) pend)).
Proof.
  induction pend as [|[d q] r IH]; intros f.
  - cbn [fire filter fst snd]. split; [reflexivity|intros; rewrite !cnt_nil; lia].
  - cbn [fire]. destruct (fire t r f) as [r' f'] eqn:E.
    specialize (IH f). rewrite E in IH. cbn [fst snd] in IH. destruct IH as [IH1 IH2].
    cbn [filter]. rewrite later_leb.
    destruct (d <=? t); cbn [negb fst snd].
    + split; [assumption|]. intros p. rewrite cnt_cons.
      destruct (Nat.eqb_spec q p) as [->|Hne].
      * rewrite addz_same, IH2. lia.
      * rewrite addz_other by congruence. rewrite IH2. lia.
    + split; [rewrite IH1; reflexivity|]. intros p. rewrite !cnt_cons, IH2. lia.
Qed.

Lemma filter_later_mono : forall t1 t2 l, t1 <= t2 -> filter (later t2) (filter (later t1) l) = filter (later t2) l.
Proof.
  intros t1 t2 l H. induction l as [|[d q] r IH]; [reflexivity|].
  cbn [filter]. rewrite !later_leb.
  destruct (Z.leb_spec d t1); destruct (Z.leb_spec d t2); cbn [negb filter]; rewrite ?later_leb; try lia.
  - apply IH.
  - destruct (Z.leb_spec d t2); [|lia]. cbn [negb]. apply IH.
  - destruct (Z.leb_spec d t2); [lia|]. cbn [negb]. rewrite IH; reflexivity.
Qed.

(* every forgetter the history has started *)
Definition timers (c : hcfg) (h : list tev) : list (Z * nat) :=
  if counting c then
    flat_map (fun te => match te with (t', DialFail p) => [(t' + fail_duration c, p)] | _ => [] end) h
  else [].

Lemma timers_app : forall c h1 h2, timers c (h1 ++ h2) = timers c h1 ++ timers c h2.
Proof. intros; unfold timers; destruct (counting c); [apply flat_map_app|reflexivity]. Qed.

Definition last_time (h : list tev) (lo : Z) : Z := last (map fst h) lo.

Lemma last_time_snoc : forall h lo t e, last_time (h ++ [(t, e)]) lo = t.
Proof. intros; unfold last_time; rewrite map_app; cbn. apply last_last. Qed.

Lemma last_default_irrel : forall (l : list Z) a d1 d2, last (a :: l) d1 = last (a :: l) d2.
Proof.
  induction l as [|b l IH]; intros a d1 d2; [reflexivity|].
  change (last (a :: b :: l) d1) with (last (b :: l) d1). change (last (a :: b :: l) d2) with (last (b :: l) d2). apply IH.
Qed.
Lemma last_cons_default : forall (l : list Z) t lo, last (t :: l) lo = last l t.
Proof.
  intros [|a l] t lo; [reflexivity|]. change (last (t :: a :: l) lo) with (last (a :: l) lo). apply last_default_irrel.
Qed.

(* sortedness in snoc form *)
Lemma sortedb_app : forall h1 h2 lo,
  sortedb (h1 ++ h2) lo = sortedb h1 lo && sortedb h2 (last_time h1 lo).
Proof.
  induction h1 as [|[t e] r IH]; intros h2 lo.
  - reflexivity.
  - cbn [app sortedb]. rewrite IH. unfold last_time. cbn [map fst].
    rewrite last_cons_default. rewrite andb_assoc; reflexivity.
Qed.

(* invariant: the sleeping forgetters are exactly the started ones that end after the last event,
   and fails counts them *)
Definition hinv (c : hcfg) (h : list tev) (lo : Z) (s : hst) : Prop :=
  h_pending s = filter (later (last_time h lo)) (timers c h) /\
  forall p, h_fails s p = cnt p (h_pending s).

Lemma advance_pending : forall t s, h_pending (advance t s) = filter (later t) (h_pending s).
Proof.
  intros t s; unfold advance. destruct (fire t (h_pending s) (h_fails s)) as [pd f] eqn:E.
  pose proof (fire_spec t (h_pending s) (h_fails s)) as [H _]. rewrite E in H. cbn in *. assumption.
Qed.
Lemma advance_fails : forall t s p,
  h_fails (advance t s) p = h_fails s p - (cnt p (h_pending s) - cnt p (filter (later t) (h_pending s))).
Proof.
  intros t s p; unfold advance. destruct (fire t (h_pending s) (h_fails s)) as [pd f] eqn:E.
  pose proof (fire_spec t (h_pending s) (h_fails s)) as [_ H]. rewrite E in H. cbn in *. apply H.
Qed.
Lemma advance_unhealthy : forall t s, h_unhealthy (advance t s) = h_unhealthy s.
Proof. intros; unfold advance; destruct (fire _ _ _); reflexivity. Qed.
Lemma advance_conns : forall t s, h_conns (advance t s) = h_conns s.
Proof. intros; unfold advance; destruct (fire _ _ _); reflexivity. Qed.
Lemma advance_open : forall t s, h_open (advance t s) = h_open s.
Proof. intros; unfold advance; destruct (fire _ _ _); reflexivity. Qed.

Lemma hinv_advance : forall c h lo s t,
  hinv c h lo s -> last_time h lo <= t ->
  h_pending (advance t s) = filter (later t) (timers c h) /\
  forall p, h_fails (advance t s) p = cnt p (h_pending (advance t s)).
Proof.
  intros c h lo s t [H1 H2] Hle. split.
  - rewrite advance_pending, H1. apply filter_later_mono; assumption.
  - intros p. rewrite advance_fails, advance_pending, H2. lia.
Qed.

Lemma hinv_step : forall c h lo s t e,
  0 <= fail_duration c ->
  hinv c h lo s -> last_time h lo <= t ->
  hinv c (h ++ [(t, e)]) lo (apply_ev c s (t, e)).
Proof.
  intros c h lo s t e HD Hinv Hle.
  destruct (hinv_advance c h lo s t Hinv Hle) as [A1 A2].
  unfold hinv. rewrite last_time_snoc, timers_app, filter_app.
  unfold apply_ev.
  assert (Hnil : forall e', (match e' with DialFail _ => False | _ => True end) -> timers c [(t, e')] = []).
  { intros e' He; unfold timers; destruct (counting c); [|reflexivity]. destruct e'; cbn; try reflexivity; contradiction. }
  destruct e as [p|u|u|p ok].
  - destruct (counting c) eqn:Hc.
    + cbn [h_pending h_fails].
      assert (Hpos : 0 < fail_duration c).
      { unfold counting in Hc. apply andb_true_iff in Hc. destruct Hc as [_ Hc].
        apply negb_true_iff in Hc. apply Z.eqb_neq in Hc. lia. }
      assert (Ht : filter (later t) (timers c [(t, DialFail p)]) = [(t + fail_duration c, p)]).
      { unfold timers; rewrite Hc; cbn. unfold later; cbn [fst]. destruct (Z.ltb_spec t (t + fail_duration c)); [reflexivity|lia]. }
      rewrite Ht. split; [rewrite A1; reflexivity|].
      intros q. rewrite cnt_app, cnt_cons, cnt_nil.
      destruct (Nat.eqb_spec p q) as [->|Hne].
      * rewrite addz_same, A2. lia.
      * rewrite addz_other by congruence. rewrite A2. lia.
    + assert (Ht : timers c [(t, DialFail p)] = []) by (unfold timers; rewrite Hc; reflexivity).
      rewrite Ht; cbn [filter]; rewrite app_nil_r. split; assumption.
  - rewrite Hnil by exact I. cbn [filter h_pending h_fails]. rewrite app_nil_r. split; assumption.
  - rewrite Hnil by exact I. cbn [filter h_pending h_fails]. rewrite app_nil_r. split; assumption.
  - rewrite Hnil by exact I. cbn [filter h_pending h_fails]. rewrite app_nil_r. split; assumption.
Qed.

Lemma run_hist_snoc : forall c h e, run_hist c (h ++ [e]) = apply_ev c (run_hist c h) e.
Proof. intros; unfold run_hist; rewrite fold_left_app; reflexivity. Qed.

Lemma hinv_run : forall c h lo,
  0 <= fail_duration c -> sortedb h lo = true -> hinv c h lo (run_hist c h).
Proof.
  intros c h lo HD. induction h as [|[t e] h IH] using rev_ind; intros Hs.
  - unfold hinv, run_hist, timers; cbn. destruct (counting c); split; intros; reflexivity.
  - rewrite sortedb_app in Hs. apply andb_true_iff in Hs. destruct Hs as [Hs1 Hs2].
    cbn [sortedb] in Hs2. rewrite andb_true_r in Hs2. apply Z.leb_le in Hs2.
    rewrite run_hist_snoc. apply hinv_step; auto.
Qed.

Lemma last_time_le : forall h lo t, lo <= t -> times_le h t -> last_time h lo <= t.
Proof.
  intros h lo t Hlo Hall. unfold last_time.
  assert (H : forall l d, d <= t -> Forall (fun x => x <= t) l -> last l d <= t).
  { induction l as [|x l IHl]; intros d Hd Hf; [assumption|]. inversion Hf; subst. cbn [last].
    destruct l; [assumption|]. apply IHl; assumption. }
  apply H; [assumption|]. unfold times_le in Hall. rewrite Forall_forall in *. intros x Hx.
  apply in_map_iff in Hx. destruct Hx as [te [<- Hin]]. apply Hall; assumption.
Qed.

(* the number of pending timers of p that end after t = failures of p in the window (t - D, t] *)
Lemma cnt_timers_window : forall c h t p,
  times_le h t -> cnt p (filter (later t) (timers c h)) = window_count c h t p.
Proof.
  intros c h t p Hall. unfold window_count, timers. destruct (counting c); [|reflexivity].
  unfold cnt. f_equal. induction h as [|[t' e] r IH]; [reflexivity|].
  inversion Hall as [|? ? Ht' Hr]; subst. cbn [fst] in Ht'. specialize (IH Hr).
  cbn [flat_map filter]. destruct e as [q|u|u|q ok]; cbn [app]; try exact IH.
  cbn [filter]. unfold later at 1. cbn [fst snd].
  destruct (Z.ltb_spec t (t' + fail_duration c)); destruct (Z.ltb_spec (t - fail_duration c) t'); try lia;
    destruct (Z.leb_spec t' t); try lia; cbn [filter snd andb].
  - destruct (Nat.eqb q p); cbn [length andb]; rewrite ?IH; reflexivity.
  - rewrite andb_false_r. exact IH.
Qed.

Theorem fails_is_window_count : forall c h lo t p,
  0 <= fail_duration c -> sortedb h lo = true -> lo <= t -> times_le h t ->
  h_fails (state_at c h t) p = window_count c h t p /\ 0 <= h_fails (state_at c h t) p.
Proof.
  intros c h lo t p HD Hs Hlo Hall.
  pose proof (hinv_run c h lo HD Hs) as Hinv.
  destruct (hinv_advance c h lo _ t Hinv (last_time_le h lo t Hlo Hall)) as [A1 A2].
  unfold state_at. rewrite A2, A1. rewrite cnt_timers_window by assumption.
  split; [reflexivity|]. unfold window_count. destruct (counting c); lia.
Qed.

(* nothing but the window matters: once every failure is older than fail_duration the count is 0 *)
Lemma window_count_expired : forall c h t p,
  (forall t' q, In (t', DialFail q) h -> t' + fail_duration c <= t) -> window_count c h t p = 0.
Proof.
  intros c h t p H. unfold window_count. destruct (counting c); [|reflexivity].
  replace (filter _ h) with (@nil tev); [reflexivity|]. symmetry.
  induction h as [|[t' e] r IH]; [reflexivity|]. cbn [filter].
  destruct e as [q|u|u|q ok]; try (apply IH; intros; eapply H; right; eassumption).
  assert (t' + fail_duration c <= t) by (eapply H; left; reflexivity).
  destruct (Z.ltb_spec (t - fail_duration c) t'); [lia|]. rewrite andb_false_r. cbn [andb].
  apply IH; intros; eapply H; right; eassumption.
Qed.

(* ------------------------------------------------------------------------------------------ *)
(* availability                                                                                *)

Lemma forallb_map : forall {A B} (f : A -> B) (g : B -> bool) l, forallb g (map f l) = forallb (fun x => g (f x)) l.
Proof. induction l; cbn; [reflexivity|]. rewrite IHl; reflexivity. Qed.
Lemma existsb_map : forall {A B} (f : A -> B) (g : B -> bool) l, existsb g (map f l) = existsb (fun x => g (f x)) l.
Proof. induction l; cbn; [reflexivity|]. rewrite IHl; reflexivity. Qed.

Theorem avail_iff : forall c s u,
  avail c s u = true <->
  (forall p, In p (peers_of c u) -> h_unhealthy s p = 0) /\
  (0 < max_fails c -> forall p, In p (peers_of c u) -> h_fails s p < max_fails c) /\
  (nth u (max_conns c) 0 = 0 \/ forall p, In p (peers_of c u) -> h_conns s p < nth u (max_conns c) 0).
Proof.
  intros c s u. unfold avail, available, healthy, full, to_upstream, peer_healthy.
  cbn [Select.peers Select.maxConns Select.maxFails].
  rewrite !andb_true_iff, negb_true_iff, !forallb_map, existsb_map.
  cbn [Select.unhealthy Select.fails Select.numConns].
  split.
  - intros [[H1 H2] H3]. repeat split.
    + intros p Hp. rewrite forallb_forall in H1. apply Z.eqb_eq. apply H1; assumption.
    + intros Hpos p Hp. destruct (Z.ltb_spec 0 (max_fails c)); [|lia].
      rewrite forallb_forall in H2. apply Z.ltb_lt. apply H2; assumption.
    + destruct (Z.eqb_spec (nth u (max_conns c) 0) 0); [left; assumption|right].
      intros p Hp.
      destruct (Z.ltb_spec (h_conns s p) (nth u (max_conns c) 0)); [assumption|].
      assert (existsb (fun x => nth u (max_conns c) 0 <=? h_conns s x) (peers_of c u) = true).
      { apply existsb_exists. exists p. split; [assumption|]. apply Z.leb_le. assumption. }
      congruence.
  - intros [H1 [H2 H3]]. repeat split.
    + apply forallb_forall. intros p Hp. apply Z.eqb_eq. apply H1; assumption.
    + destruct (Z.ltb_spec 0 (max_fails c)); [|reflexivity].
      apply forallb_forall. intros p Hp. apply Z.ltb_lt. apply H2; assumption.
    + destruct (Z.eqb_spec (nth u (max_conns c) 0) 0); [reflexivity|].
      destruct H3 as [H3|H3]; [contradiction|].
      destruct (existsb (fun x => nth u (max_conns c) 0 <=? h_conns s x) (peers_of c u)) eqn:E; [|reflexivity].
      apply existsb_exists in E. destruct E as [p [Hp Hle]]. apply Z.leb_le in Hle. specialize (H3 p Hp). lia.
Qed.

(* ------------------------------------------------------------------------------------------ *)
(* active checks                                                                               *)

Definition enc (o : option bool) : Z := match o with Some false => 1 | _ => 0 end.

Lemma set_healthy_enc : forall o ok, set_healthy (enc o) ok = enc (Some ok).
Proof. intros [[|]|] [|]; reflexivity. Qed.

Lemma active_marks_gen : forall c h s p cur,
  h_unhealthy s p = enc cur ->
  h_unhealthy (fold_left (apply_ev c) h s) p = enc (last_probe h p cur).
Proof.
  intros c h. induction h as [|[t e] r IH]; intros s p cur Hs; [assumption|].
  cbn [fold_left last_probe]. destruct e as [q|u|u|q ok]; try (apply IH).
  - unfold apply_ev. destruct (counting c); cbn [h_unhealthy]; rewrite ?advance_unhealthy; assumption.
  - unfold apply_ev. cbn [h_unhealthy]. rewrite advance_unhealthy; assumption.
  - unfold apply_ev. cbn [h_unhealthy]. rewrite advance_unhealthy; assumption.
  - unfold apply_ev. cbn [h_unhealthy]. rewrite advance_unhealthy.
    destruct (Nat.eqb_spec q p) as [->|Hne].
    + rewrite updz_same, Hs. apply set_healthy_enc.
    + rewrite updz_other by congruence. assumption.
Qed.

Theorem active_marks : forall c h t p,
  h_unhealthy (state_at c h t) p =
  match last_probe h p None with Some false => 1 | _ => 0 end.
Proof.
  intros. unfold state_at. rewrite advance_unhealthy. unfold run_hist.
  rewrite (active_marks_gen c h hinit p None); reflexivity.
Qed.

(* ------------------------------------------------------------------------------------------ *)
(* the retry loop                                                                              *)

Definition att_ok (a : att) : bool := match a with (ADialOk, _, _) => true | _ => false end.
Definition att_d (a : att) : Z := snd (fst a).
Definition att_j (a : att) : Z := snd a.
Definition att_kind (a : att) : attempt := fst (fst a).

Definition err_of (o : option Z) : Z := match o with Some e => e | None => err_no_upstreams end.

Definition upd_err (a : attempt) (pe : option Z) : option Z :=
  match a with
  | ANoUpstream => match pe with None => Some err_no_upstreams | s => s end
  | ADialErr e => Some e
  | ADialOk => pe
  end.

Lemma handle_loop_unfold : forall td ti start now pe a d j r,
  handle_loop td ti start now pe ((a, d, j) :: r) =
  if att_ok (a, d, j) then ([now], Proxied)
  else if (now + d - start) >=? td then ([now], Failed (err_of (upd_err a pe)))
  else let '(ts, o) := handle_loop td ti start (now + d + ti + j) (upd_err a pe) r in (now :: ts, o).
Proof. intros. destruct a; reflexivity. Qed.

Lemma last_error_cons : forall a r pe, last_error (a :: r) pe = last_error r (upd_err a pe).
Proof. intros [|e|] r pe; reflexivity. Qed.

Lemma handle_loop_nonempty : forall td ti start a r now pe ts o,
  handle_loop td ti start now pe (a :: r) = (ts, o) ->
  exists ts', ts = now :: ts' /\ (length ts' <= length r)%nat.
Proof.
  intros td ti start a r. revert a. induction r as [|b r IH]; intros [[a d] j] now pe ts o H; rewrite handle_loop_unfold in H.
  - destruct (att_ok (a, d, j)); [inversion H; subst; exists []; split; [reflexivity|cbn; lia]|].
    destruct (now + d - start >=? td); [inversion H; subst; exists []; split; [reflexivity|cbn; lia]|].
    cbn in H. inversion H; subst. exists []. split; [reflexivity|cbn; lia].
  - destruct (att_ok (a, d, j)); [inversion H; subst; exists []; split; [reflexivity|cbn; lia]|].
    destruct (now + d - start >=? td); [inversion H; subst; exists []; split; [reflexivity|cbn; lia]|].
    destruct (handle_loop td ti start (now + d + ti + j) (upd_err a pe) (b :: r)) as [ts' o'] eqn:E.
    inversion H; subst. destruct (IH _ _ _ _ _ E) as [ts2 [-> Hl]]. exists ((now + d + ti + j) :: ts2).
    split; [reflexivity|cbn [length]; lia].
Qed.

(* attempt k was made at [nth k ts 0]; it was followed by another one iff it failed while
   elapsed < try_duration, and the next one starts try_interval (+ slack) later *)
Lemma handle_loop_schedule : forall td ti start atts now pe ts o,
  handle_loop td ti start now pe atts = (ts, o) ->
  forall k, (S k < length ts)%nat ->
    let a := nth k atts (ADialOk, 0, 0) in
    att_ok a = false /\ nth k ts 0 + att_d a - start < td /\
    nth (S k) ts 0 = nth k ts 0 + att_d a + ti + att_j a.
Proof.
  intros td ti start atts. induction atts as [|[[a d] j] r IH]; intros now pe ts o H k Hk.
  - cbn in H. inversion H; subst. cbn in Hk. lia.
  - rewrite handle_loop_unfold in H.
    destruct (att_ok (a, d, j)) eqn:Eok; [inversion H; subst; cbn in Hk; lia|].
    destruct (Z.geb_spec (now + d - start) td) as [Hge|Hlt]; [inversion H; subst; cbn in Hk; lia|].
    destruct (handle_loop td ti start (now + d + ti + j) (upd_err a pe) r) as [ts' o'] eqn:E.
    inversion H; subst. cbn [length] in Hk.
    destruct k as [|k].
    + cbn [nth]. unfold att_d, att_j. cbn [fst snd]. split; [assumption|]. split; [lia|].
      destruct r as [|b r]; [cbn in E; inversion E; subst; cbn in Hk; lia|].
      destruct (handle_loop_nonempty _ _ _ _ _ _ _ _ _ E) as [ts2 [-> _]]. reflexivity.
    + cbn [nth]. apply (IH _ _ _ _ E). lia.
Qed.

Lemma handle_loop_failed : forall td ti start atts now pe ts o e,
  handle_loop td ti start now pe atts = (ts, o) -> o = Failed e ->
  let m := length ts in let a := nth (m - 1) atts (ADialOk, 0, 0) in
  (1 <= m <= length atts)%nat /\ att_ok a = false /\ td <= nth (m - 1) ts 0 + att_d a - start /\
  e = err_of (last_error (map att_kind (firstn m atts)) pe).
Proof.
  intros td ti start atts. induction atts as [|[[a d] j] r IH]; intros now pe ts o e H Ho.
  - cbn in H. inversion H; subst. discriminate.
  - rewrite handle_loop_unfold in H.
    destruct (att_ok (a, d, j)) eqn:Eok; [inversion H; subst; discriminate|].
    destruct (Z.geb_spec (now + d - start) td) as [Hge|Hlt].
    + inversion H; subst. inversion H2; subst. cbn [length Nat.sub nth firstn map]. unfold att_d. cbn [fst snd att_kind].
      rewrite last_error_cons. cbn [last_error]. repeat split; try assumption; try lia.
    + destruct (handle_loop td ti start (now + d + ti + j) (upd_err a pe) r) as [ts' o'] eqn:E.
      inversion H; subst. destruct (IH _ _ _ _ _ E eq_refl) as [Hm [J1 [J2 J3]]].
      cbn [length]. replace (S (length ts') - 1)%nat with (S (length ts' - 1)) by lia.
      cbn [nth firstn map]. rewrite last_error_cons. cbn [att_kind fst]. repeat split; try assumption; try lia.
Qed.

Lemma handle_loop_proxied : forall td ti start atts now pe ts,
  handle_loop td ti start now pe atts = (ts, Proxied) ->
  (1 <= length ts <= length atts)%nat /\
  att_ok (nth (length ts - 1) atts (ANoUpstream, 0, 0)) = true /\
  forall k, (k < length ts - 1)%nat -> att_ok (nth k atts (ADialOk, 0, 0)) = false.
Proof.
  intros td ti start atts. induction atts as [|[[a d] j] r IH]; intros now pe ts H.
  - cbn in H. inversion H.
  - rewrite handle_loop_unfold in H.
    destruct (att_ok (a, d, j)) eqn:Eok.
    + inversion H; subst. cbn [length Nat.sub nth]. split; [lia|]. split; [assumption|]. intros k Hk; lia.
    + destruct (Z.geb_spec (now + d - start) td) as [Hge|Hlt]; [inversion H|].
      destruct (handle_loop td ti start (now + d + ti + j) (upd_err a pe) r) as [ts' o'] eqn:E.
      inversion H; subst. destruct (IH _ _ _ E) as [Hm [K1 K2]].
      cbn [length]. replace (S (length ts') - 1)%nat with (S (length ts' - 1)) by lia. cbn [nth].
      repeat split; try assumption; try lia.
      intros k Hk. destruct k as [|k]; [assumption|]. cbn [nth]. apply K2. lia.
Qed.

Lemma handle_first_attempt : forall td ti start a r ts o,
  handle td ti start (a :: r) = (ts, o) -> nth 0 ts 0 = start.
Proof.
  intros. unfold handle in H. destruct (handle_loop_nonempty _ _ _ _ _ _ _ _ _ H) as [ts' [-> _]]. reflexivity.
Qed.

(* with no slack the attempts are at start, start + ti, start + 2 ti, ... *)
Lemma handle_loop_ideal : forall td ti start atts now pe ts o,
  Forall (fun a => att_d a = 0 /\ att_j a = 0) atts ->
  handle_loop td ti start now pe atts = (ts, o) ->
  forall k, (k < length ts)%nat -> nth k ts 0 = now + Z.of_nat k * ti.
Proof.
  intros td ti start atts. induction atts as [|[[a d] j] r IH]; intros now pe ts o Hf H k Hk.
  - cbn in H. inversion H; subst. cbn in Hk. lia.
  - inversion Hf as [|? ? [Hd Hj] Hr]; subst. unfold att_d, att_j in Hd, Hj. cbn in Hd, Hj. subst d j.
    cbn [handle_loop] in H.
    assert (Hcont : forall pe', (if now + 0 - start >=? td then ([now], Failed (err_of pe'))
                    else let '(ts0, o0) := handle_loop td ti start (now + 0 + ti + 0) pe' r in (now :: ts0, o0)) = (ts, o) ->
                    nth k ts 0 = now + Z.of_nat k * ti).
    { intros pe' H'. destruct (now + 0 - start >=? td).
      - inversion H'; subst. cbn in Hk. assert (k = 0)%nat by lia. subst. cbn. lia.
      - destruct (handle_loop td ti start (now + 0 + ti + 0) pe' r) as [ts' o'] eqn:E. inversion H'; subst.
        destruct k as [|k]; [cbn; lia|]. cbn [nth]. rewrite (IH _ _ _ _ Hr E k) by (cbn in Hk; lia). lia. }
    destruct a.
    + apply (Hcont (match pe with Some _ => pe | None => Some err_no_upstreams end)).
      unfold err_of. exact H.
    + apply (Hcont (Some e)). exact H.
    + inversion H; subst. cbn in Hk. assert (k = 0)%nat by lia. subst. cbn. lia.
Qed.

(* ------------------------------------------------------------------------------------------ *)
(* connection limits                                                                           *)

Lemma count_all_spec : forall ps f d p, NoDup ps ->
  count_all f ps d p = if in_dec Nat.eq_dec p ps then f p + d else f p.
Proof.
  unfold count_all. induction ps as [|q r IH]; intros f d p Hnd; [reflexivity|].
  inversion Hnd as [|? ? Hq Hr]; subst. cbn [fold_left]. rewrite IH by assumption.
  destruct (in_dec Nat.eq_dec p r) as [Hin|Hnin]; destruct (in_dec Nat.eq_dec p (q :: r)) as [Hin2|Hnin2].
  - destruct (Nat.eq_dec p q) as [->|Hne]; [contradiction|]. rewrite addz_other by assumption. reflexivity.
  - exfalso; apply Hnin2; right; assumption.
  - destruct Hin2 as [->|Hin2]; [|contradiction]. rewrite addz_same. reflexivity.
  - rewrite addz_other; [reflexivity|]. intro; subst; apply Hnin2; left; reflexivity.
Qed.

(* each peer belongs to one upstream, once *)
Definition topo_ok (c : hcfg) : Prop := NoDup (concat (topo c)).

Lemma nodup_app_r : forall (l1 l2 : list nat), NoDup (l1 ++ l2) -> NoDup l2.
Proof. induction l1 as [|a l1 IH]; intros l2 H; [assumption|]. cbn in H. inversion H; subst. apply IH; assumption. Qed.

Lemma nodup_concat_nth : forall (l : list (list nat)) u, NoDup (concat l) -> NoDup (nth u l []).
Proof.
  induction l as [|x l IH]; intros u H.
  - destruct u; constructor.
  - cbn in H. pose proof (nodup_app_r _ _ H) as H2. destruct u as [|u]; cbn.
    + clear IH H2. induction x as [|a x IHx]; [constructor|]. cbn in H. inversion H; subst. constructor.
      * intro Hin. apply H2. apply in_or_app; left; assumption.
      * apply IHx; assumption.
    + apply IH; assumption.
Qed.

Lemma nodup_concat_disjoint : forall (l : list (list nat)) u v p,
  NoDup (concat l) -> (u < length l)%nat -> (v < length l)%nat -> In p (nth u l []) -> In p (nth v l []) -> u = v.
Proof.
  induction l as [|x l IH]; intros u v p H Hu Hv Hpu Hpv; [cbn in Hu; lia|].
  cbn in H.
  assert (Hdisj : forall q, In q x -> In q (concat l) -> False).
  { clear -H. induction x as [|a x IHx]; intros q Hq Hc; [contradiction|]. cbn in H. inversion H; subst.
    destruct Hq as [->|Hq]; [apply H2; apply in_or_app; right; assumption|]. eapply IHx; eauto. }
  assert (Hin : forall w, (w < length l)%nat -> In p (nth w l []) -> In p (concat l)).
  { intros w Hw Hp. apply in_concat. exists (nth w l []). split; [apply nth_In; assumption|assumption]. }
  destruct u as [|u]; destruct v as [|v]; cbn in *; try reflexivity.
  - exfalso. eapply Hdisj; eauto. apply (Hin v); [lia|assumption].
  - exfalso. eapply Hdisj; eauto. apply (Hin u); [lia|assumption].
  - f_equal. apply (IH u v p); try assumption; try lia. apply nodup_app_r in H; assumption.
Qed.

(* invariant: the counter of every peer equals the number of open connections of its upstream *)
Definition cinv (c : hcfg) (s : hst) : Prop :=
  forall u, (u < length (topo c))%nat -> 0 <= h_open s u /\ forall p, In p (peers_of c u) -> h_conns s p = h_open s u.

Lemma cinv_advance : forall c s t, cinv c s -> cinv c (advance t s).
Proof. intros c s t H u Hu. rewrite advance_open, advance_conns. apply H; assumption. Qed.

Lemma max_conns_inv : forall c h s,
  conns_counted = true -> topo_ok c ->
  cinv c s -> admitted c s h ->
  (forall u, (u < length (topo c))%nat -> 0 < nth u (max_conns c) 0 -> h_open s u <= nth u (max_conns c) 0) ->
  let s' := fold_left (apply_ev c) h s in
  cinv c s' /\ forall u, (u < length (topo c))%nat -> 0 < nth u (max_conns c) 0 -> h_open s' u <= nth u (max_conns c) 0.
Proof.
  intros c h. induction h as [|[t e] r IH]; intros s Hcc Htopo Hinv Hadm Hmax; [cbn; split; assumption|].
  cbn [fold_left]. cbn [admitted] in Hadm. destruct Hadm as [He Hr].
  apply IH; try assumption.
  - (* cinv preserved *)
    pose proof (cinv_advance c s t Hinv) as Ha.
    unfold apply_ev. destruct e as [p|u|u|p ok].
    + destruct (counting c); intros v Hv; cbn [h_open h_conns]; apply Ha; assumption.
    + rewrite Hcc. intros v Hv. cbn [h_open h_conns]. destruct He as [_ [Hu _]].
      destruct (Ha v Hv) as [A1 A2].
      destruct (Nat.eq_dec v u) as [->|Hne].
      * rewrite addz_same. split; [lia|]. intros p Hp.
        rewrite count_all_spec by (apply nodup_concat_nth; exact Htopo).
        destruct (in_dec Nat.eq_dec p (peers_of c u)); [|contradiction]. rewrite A2 by assumption. reflexivity.
      * rewrite addz_other by assumption. split; [assumption|]. intros p Hp.
        rewrite count_all_spec by (apply nodup_concat_nth; exact Htopo).
        destruct (in_dec Nat.eq_dec p (peers_of c u)) as [Hin|Hnin].
        -- exfalso. apply Hne. unfold peers_of in *. eapply nodup_concat_disjoint; eauto.
        -- apply A2; assumption.
    + rewrite Hcc. intros v Hv. cbn [h_open h_conns].
      destruct (Ha v Hv) as [A1 A2].
      destruct (Nat.eq_dec v u) as [->|Hne].
      * rewrite addz_same. rewrite advance_open. split; [lia|]. intros p Hp.
        rewrite count_all_spec by (apply nodup_concat_nth; exact Htopo).
        destruct (in_dec Nat.eq_dec p (peers_of c u)); [|contradiction]. rewrite A2 by assumption. rewrite advance_open. reflexivity.
      * rewrite addz_other by assumption. split; [assumption|]. intros p Hp.
        rewrite count_all_spec by (apply nodup_concat_nth; exact Htopo).
        destruct (in_dec Nat.eq_dec p (peers_of c u)) as [Hin|Hnin].
        -- destruct (Nat.lt_ge_cases u (length (topo c))) as [Hu|Hu].
           ++ exfalso. apply Hne. unfold peers_of in *. eapply nodup_concat_disjoint; eauto.
           ++ unfold peers_of in Hin. rewrite nth_overflow in Hin by assumption. contradiction.
        -- apply A2; assumption.
    + intros v Hv; cbn [h_open h_conns]; apply Ha; assumption.
  - (* the limit *)
    unfold apply_ev. destruct e as [p|u|u|p ok].
    + destruct (counting c); intros v Hv Hm; cbn [h_open]; rewrite ?advance_open; apply Hmax; assumption.
    + intros v Hv Hm. cbn [h_open]. rewrite advance_open.
      destruct (Nat.eq_dec v u) as [->|Hne].
      * rewrite addz_same. destruct He as [Hav [Hu Hne]].
        apply avail_iff in Hav. destruct Hav as [_ [_ [H0|Hlt]]]; [lia|].
        destruct (peers_of c u) as [|p ps] eqn:Ep; [contradiction|].
        specialize (Hlt p (or_introl eq_refl)). rewrite advance_conns in Hlt.
        destruct (Hinv u Hu) as [_ A2]. rewrite A2 in Hlt by (rewrite Ep; left; reflexivity). lia.
      * rewrite addz_other by assumption. apply Hmax; assumption.
    + intros v Hv Hm. cbn [h_open]. rewrite advance_open.
      destruct (Nat.eq_dec v u) as [->|Hne].
      * rewrite addz_same. specialize (Hmax u Hv Hm). lia.
      * rewrite addz_other by assumption. apply Hmax; assumption.
    + intros v Hv Hm; cbn [h_open]; rewrite advance_open; apply Hmax; assumption.
Qed.

Theorem max_conns_respected : forall c h u,
  conns_counted = true -> topo_ok c -> admitted c hinit h ->
  (u < length (topo c))%nat -> 0 < nth u (max_conns c) 0 ->
  h_open (run_hist c h) u <= nth u (max_conns c) 0.
Proof.
  intros c h u Hcc Htopo Hadm Hu Hm.
  assert (Hi : cinv c hinit) by (intros v Hv; cbn; split; [lia|reflexivity]).
  destruct (max_conns_inv c h hinit Hcc Htopo Hi Hadm) as [_ H].
  - intros v Hv Hmv. cbn. lia.
  - apply H; assumption.
Qed.

(* without counting, two connections are admitted to an upstream limited to one *)
Definition cfg_one : hcfg := mkH false 0 0 [[0%nat]; [1%nat]] [1; 0].
Definition hist_two : list tev := [(0, Open 0); (50, Open 0)].

Theorem max_conns_exceeded_when_uncounted :
  conns_counted = false ->
  topo_ok cfg_one /\ admitted cfg_one hinit hist_two /\ h_open (run_hist cfg_one hist_two) 0%nat = 2 /\ nth 0 (max_conns cfg_one) 0 = 1.
Proof.
  intros H. split; [|split; [|split]].
  - unfold topo_ok; cbn. repeat constructor; cbn; intuition congruence.
  - unfold hist_two, admitted, apply_ev. rewrite H. vm_compute. repeat split; try discriminate; try lia.
  - unfold run_hist, hist_two, fold_left, apply_ev. rewrite H. vm_compute. reflexivity.
  - reflexivity.
Qed.

Lemma effective_limit_spec : forall passive_on ucc raw,
  (raw <> 0 -> effective_max_conns passive_on ucc raw = raw) /\
  (0 < ucc -> effective_max_conns true ucc 0 = ucc) /\
  effective_max_conns false ucc 0 = 0.
Proof.
  intros passive_on ucc raw. unfold effective_max_conns. repeat split.
  - intros H. destruct (Z.eqb_spec raw 0); [contradiction|reflexivity].
  - intros H. cbn. destruct (Z.ltb_spec 0 ucc); [reflexivity|lia].
Qed.
