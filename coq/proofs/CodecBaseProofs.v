(* Lemmas about model/CodecBase.v and the integer encodings of model/GoBase.v used by the codec proofs. *)
From Coq Require Import List NArith ZArith Bool Arith Lia.
From Coq.Strings Require Import Byte.
From L4.model Require Import GoBase CodecBase.
From L4.proofs Require Import GoBaseProofs.
Import ListNotations.

Lemma bN_lt (b : byte) : (bN b < 256)%N.
Proof. unfold bN. pose proof (Byte.to_N_bounded b). lia. Qed.

Lemma nb_bN (b : byte) : nb (bN b) = b.
Proof. unfold nb, bN. rewrite Byte.of_to_N. reflexivity. Qed.

Lemma bN_nb (n : N) : (n < 256)%N -> bN (nb n) = n.
Proof.
  intro H. unfold nb, bN. destruct (Byte.of_N n) as [b|] eqn:E.
  - apply Byte.to_of_N. exact E.
  - apply Byte.of_N_None_iff in E. lia.
Qed.

Lemma N_to_le_S w v : N_to_le (S w) v = nb (v mod 256) :: N_to_le w (v / 256).
Proof. reflexivity. Qed.
Lemma N_to_be_S w v : N_to_be (S w) v = N_to_be w (v / 256) ++ [nb (v mod 256)].
Proof. reflexivity. Qed.

Lemma N_to_le_length w : forall v, length (N_to_le w v) = w.
Proof. induction w as [|w IH]; intro v; cbn [N_to_le length]; [reflexivity|]. rewrite IH. reflexivity. Qed.

Lemma N_to_be_length w : forall v, length (N_to_be w v) = w.
Proof. induction w as [|w IH]; intro v; cbn [N_to_be]; [reflexivity|]. rewrite app_length, IH. cbn. lia. Qed.

Lemma le_N_lt (l : list byte) : (le_N l < 256 ^ N.of_nat (length l))%N.
Proof.
  induction l as [|b r IH]; [cbn; lia|].
  cbn [le_N length]. rewrite Nat2N.inj_succ, N.pow_succ_r'. pose proof (bN_lt b). lia.
Qed.

Lemma N_to_le_le_N (l : list byte) : N_to_le (length l) (le_N l) = l.
Proof.
  induction l as [|b r IH]; [reflexivity|].
  cbn [length le_N]. rewrite N_to_le_S. pose proof (bN_lt b) as Hb.
  replace ((bN b + 256 * le_N r) mod 256)%N with (bN b).
  2:{ rewrite (N.mul_comm 256), N.mod_add by lia. symmetry. apply N.mod_small. exact Hb. }
  replace ((bN b + 256 * le_N r) / 256)%N with (le_N r).
  2:{ rewrite (N.mul_comm 256), N.div_add by lia. rewrite (N.div_small (bN b)) by exact Hb. lia. }
  rewrite nb_bN, IH. reflexivity.
Qed.

Lemma le_N_N_to_le w : forall v, (v < 256 ^ N.of_nat w)%N -> le_N (N_to_le w v) = v.
Proof.
  induction w as [|w IH]; intros v Hv.
  - cbn in *. lia.
  - rewrite N_to_le_S. cbn [le_N]. rewrite bN_nb by (apply N.mod_lt; lia).
    rewrite IH.
    + pose proof (N.div_mod v 256). lia.
    + rewrite Nat2N.inj_succ, N.pow_succ_r' in Hv. apply N.div_lt_upper_bound; lia.
Qed.

Lemma be_N_app l b : be_N (l ++ [b]) = (be_N l * 256 + bN b)%N.
Proof. unfold be_N. rewrite fold_left_app. reflexivity. Qed.

Lemma be_N_lt (l : list byte) : (be_N l < 256 ^ N.of_nat (length l))%N.
Proof.
  induction l as [|b r IH] using rev_ind; [cbn; lia|].
  rewrite be_N_app, app_length. cbn [length]. rewrite Nat.add_1_r, Nat2N.inj_succ, N.pow_succ_r'.
  pose proof (bN_lt b). lia.
Qed.

Lemma N_to_be_be_N (l : list byte) : N_to_be (length l) (be_N l) = l.
Proof.
  induction l as [|b r IH] using rev_ind; [reflexivity|].
  rewrite app_length. cbn [length]. rewrite Nat.add_1_r. rewrite N_to_be_S. rewrite be_N_app.
  pose proof (bN_lt b) as Hb.
  replace ((be_N r * 256 + bN b) mod 256)%N with (bN b).
  2:{ rewrite N.add_comm, N.mod_add by lia. symmetry. apply N.mod_small. exact Hb. }
  replace ((be_N r * 256 + bN b) / 256)%N with (be_N r).
  2:{ rewrite N.div_add_l by lia. rewrite (N.div_small (bN b)) by exact Hb. lia. }
  rewrite nb_bN, IH. reflexivity.
Qed.

Lemma be_N_N_to_be w : forall v, (v < 256 ^ N.of_nat w)%N -> be_N (N_to_be w v) = v.
Proof.
  induction w as [|w IH]; intros v Hv.
  - cbn in *. lia.
  - rewrite N_to_be_S. rewrite be_N_app. rewrite bN_nb by (apply N.mod_lt; lia).
    rewrite IH.
    + pose proof (N.div_mod v 256). lia.
    + rewrite Nat2N.inj_succ, N.pow_succ_r' in Hv. apply N.div_lt_upper_bound; lia.
Qed.

(* reading n bytes off the front of  a ++ r  when a has exactly n bytes *)
Lemma read_full_exact n a r : length a = n -> read_full n (a ++ r) = Some (a, r).
Proof.
  intro H. unfold read_full. rewrite app_length.
  destruct (Nat.ltb_spec (length a + length r) n) as [Hlt|Hge]; [lia|].
  rewrite firstn_app_le, skipn_app_le by lia. subst n. rewrite firstn_all, skipn_all. reflexivity.
Qed.

Lemma read_full_length n p a r : read_full n p = Some (a, r) -> length p = n + length r.
Proof. intro H. apply read_full_some in H. destruct H as [H1 H2]. subst p. rewrite app_length. lia. Qed.

Lemma has_prefix_refl_app a b : has_prefix (a ++ b) a = true.
Proof. apply has_prefix_spec. exists b. reflexivity. Qed.
