(* MatchRDP.Match against the wire definition, payload part 2: the routing element, per kind (none,
   cookie "Cookie: mstshash=", custom info, routing token with "Cookie: msts=") with the filter options. *)
From Coq Require Import List NArith ZArith Bool Arith Lia.
From Coq.Strings Require Import Byte.
From L4.gen Require Import Consts.
From L4.model Require Import GoBase CodecBase CodecRdp.
From L4.proofs Require Import GoBaseProofs CodecBaseProofs CodecRdpCodecProofs CodecRdpMatchProofs CodecRdpRefProofs CodecRdpDecideProofs.
Import ListNotations.
Local Open Scope nat_scope.

Definition nocr (b : byte) : bool := negb (Byte.eqb b CR).

(* ---- where the first CR LF is ---- *)
Lemma find_crlf_nocr s : forall i, forallb nocr s = true -> find_crlf i s = 0.
Proof.
  induction s as [|b r IH]; intros i H; [reflexivity|]. cbn [forallb] in H. apply andb_true_iff in H. destruct H as [H1 H2].
  cbn [find_crlf]. unfold nocr in H1. apply negb_true_iff in H1. rewrite H1. apply IH. exact H2.
Qed.

Lemma find_crlf_skip_nocr pre s : forall i, forallb nocr pre = true -> find_crlf i (pre ++ s) = find_crlf (i + length pre) s.
Proof.
  induction pre as [|b r IH]; intros i H; [cbn [app length]; rewrite Nat.add_0_r; reflexivity|].
  cbn [forallb] in H. apply andb_true_iff in H. destruct H as [H1 H2]. unfold nocr in H1. apply negb_true_iff in H1.
  cbn [app find_crlf length]. rewrite H1. rewrite (IH (S i) H2). f_equal. lia.
Qed.

Lemma find_crlf_term i t : find_crlf i (CR :: LF :: t) = i + 2.
Proof. cbn [find_crlf]. rewrite !byte_eqb_refl. reflexivity. Qed.

(* a routing element "text CR LF" whose text has no CR: the first CR LF of the payload is its end *)
Lemma find_crlf_element body tail : forallb nocr body = true ->
  find_crlf 0 ((body ++ [CR; LF]) ++ tail) = length (body ++ [CR; LF]).
Proof.
  intro H. rewrite <- app_assoc. rewrite find_crlf_skip_nocr by exact H. cbn [app]. rewrite find_crlf_term, app_length. cbn [length]. lia.
Qed.

Lemma rdp_match_frame_iff c R tail : find_crlf 0 (R ++ tail) = length R -> 1 <= length (R ++ tail) <= 248 ->
  (rdp_match c (rdp_frame (R ++ tail)) = Yes <->
   routing_accepts c (ref_x224 (11 + length (R ++ tail))) R = true /\ exists t, wf_tail t /\ tail = enc_tail t).
Proof.
  intros Hs Hl. rewrite (rdp_match_framed c _ Hl). rewrite rdp_decide_iff. rewrite Hs.
  rewrite firstn_app_le, firstn_all by lia. rewrite skipn_app_le, skipn_all by lia. cbn [app]. rewrite tail_decide_iff. tauto.
Qed.

(* ---- the filter families ---- *)
Definition cfg_hash (c : rdp_cfg) : list byte := firstn (zn l4rdp_RDPCookieHashBytesMax) (rc_hash c).
Definition cfg_info (c : rdp_cfg) : list byte := firstn (zn l4rdp_RDPCustomInfoBytesMax) (rc_info c).
Definition hash_filter (c : rdp_cfg) : bool := (0 <? length (cfg_hash c)) || is_some (rc_hash_rx c).
Definition ipport_filter (c : rdp_cfg) : bool :=
  match rc_ips c with [] => false | _ => true end || match rc_ports c with [] => false | _ => true end.
Definition info_filter (c : rdp_cfg) : bool := (0 <? length (cfg_info c)) || is_some (rc_info_rx c).
Definition text_pass (want : list byte) (rx : option (list byte -> bool)) (s : list byte) : bool :=
  negb ((0 <? length want) && negb (bytes_eqb want s)) && opt_rx rx s.

Lemma text_pass_unfiltered want rx s : (0 <? length want) || is_some rx = false -> text_pass want rx s = true.
Proof.
  intro H. apply orb_false_iff in H. destruct H as [H1 H2]. unfold text_pass. rewrite H1. destruct rx; [discriminate|]. reflexivity.
Qed.

(* ---- no routing element ---- *)
Lemma routing_accepts_none c x : routing_accepts c x [] = negb (hash_filter c) && negb (ipport_filter c) && negb (info_filter c).
Proof.
  unfold routing_accepts, rdp_routing, cookie_valid, token_valid, custom_valid. cbn [length].
  change (0 <? zn l4rdp_RDPCookieBytesMin) with true. change (0 <? token_min) with true. change (0 <? zn l4rdp_RDPCustomBytesMin) with true.
  cbv beta iota. fold (cfg_hash c). fold (cfg_info c). fold (hash_filter c). fold (ipport_filter c). fold (info_filter c).
  cbn [negb andb orb]. destruct (hash_filter c); [reflexivity|]. destruct (ipport_filter c); [reflexivity|]. destruct (info_filter c); reflexivity.
Qed.

(* ---- cookie ---- *)
Definition enc_cookie (hash : list byte) : list byte := (cookie_prefix ++ hash) ++ [CR; LF].

Lemma cookie_prefix_facts : length cookie_prefix = 17 /\ forallb nocr cookie_prefix = true /\
  zn l4rdp_RDPCookieBytesMin = 20 /\ zn l4rdp_RDPCookieBytesMax = 248 /\ token_min = 11 /\ zn l4rdp_RDPCustomBytesMin = 3 /\ zn l4rdp_RDPCustomBytesMax = 248.
Proof. vm_compute. repeat split. Qed.

Lemma slice_mid (a m b : list byte) : slice ((a ++ m) ++ b) (length a) (length a + length m) = Some m.
Proof.
  rewrite slice_skip by (rewrite !app_length; lia). rewrite <- app_assoc, skipn_app_le, skipn_all by lia. cbn [app].
  rewrite slice_prefix by (rewrite app_length; lia). rewrite firstn_app_le, firstn_all by lia. reflexivity.
Qed.

Lemma routing_accepts_cookie c x hash : hash <> [] -> length (enc_cookie hash) <= 248 ->
  routing_accepts c x (enc_cookie hash) = text_pass (cfg_hash c) (rc_hash_rx c) hash && negb (ipport_filter c) && negb (info_filter c).
Proof.
  intros Hne Hl. destruct cookie_prefix_facts as (Lp & _ & Cmin & Cmax & _).
  assert (Lh : 1 <= length hash) by (destruct hash; [contradiction|cbn; lia]).
  assert (LR : length (enc_cookie hash) = 17 + length hash + 2) by (unfold enc_cookie; rewrite !app_length, Lp; reflexivity).
  unfold routing_accepts, rdp_routing. fold (cfg_hash c). fold (cfg_info c).
  assert (Ecv : cookie_valid c (cfg_hash c) (enc_cookie hash) (length (enc_cookie hash)) = Ok (text_pass (cfg_hash c) (rc_hash_rx c) hash)).
  { unfold cookie_valid. rewrite Cmin, Cmax. destruct (Nat.ltb_spec (length (enc_cookie hash)) 20); [lia|].
    rewrite slice_prefix, firstn_all by lia. destruct (Nat.ltb_spec 248 (length (enc_cookie hash))); [lia|].
    assert (Hp : has_prefix (enc_cookie hash) cookie_prefix = true) by (unfold enc_cookie; rewrite <- !app_assoc; apply has_prefix_refl_app).
    rewrite Hp. cbn [negb orb]. rewrite Lp.
    replace (length (enc_cookie hash) - 17 - 2) with (length hash) by lia.
    unfold enc_cookie. rewrite <- Lp. rewrite slice_mid. unfold text_pass.
    destruct ((0 <? length (cfg_hash c)) && negb (bytes_eqb (cfg_hash c) hash)); cbn [negb andb]; [reflexivity|].
    destruct (opt_rx (rc_hash_rx c) hash); reflexivity. }
  rewrite Ecv. fold (hash_filter c). fold (ipport_filter c). fold (info_filter c).
  destruct (text_pass (cfg_hash c) (rc_hash_rx c) hash) eqn:Etp; cbn [negb andb orb].
  - destruct (ipport_filter c); [reflexivity|]. destruct (info_filter c); [reflexivity|].
    rewrite andb_false_r. reflexivity.
  - destruct (hash_filter c) eqn:Ehf; [reflexivity|]. unfold hash_filter in Ehf. rewrite (text_pass_unfiltered _ _ hash Ehf) in Etp. discriminate.
Qed.

(* ---- custom info ---- *)
Definition enc_custom (info : list byte) : list byte := info ++ [CR; LF].

Lemma token_version_first b t : token_from_bytes b = Ok t -> tk_version t = bN (nth 0 b x00).
Proof.
  unfold token_from_bytes. intro H. do 8 rf H. inversion H; subst; clear H. cbn [tk_version].
  destruct a as [|v [|]]; cbn [length] in *; try lia. cbn [app nth]. unfold be_N. cbn [fold_left]. lia.
Qed.

Lemma routing_accepts_custom c x info : info <> [] -> length (enc_custom info) <= 248 ->
  has_prefix info cookie_prefix = false -> nth 0 info x00 <> x03 ->
  routing_accepts c x (enc_custom info) = negb (hash_filter c) && negb (ipport_filter c) && text_pass (cfg_info c) (rc_info_rx c) info.
Proof.
  intros Hne Hl Hnp Hv. destruct cookie_prefix_facts as (Lp & _ & Cmin & Cmax & Tmin & Umin & Umax).
  assert (Li : 1 <= length info) by (destruct info; [contradiction|cbn; lia]).
  assert (LR : length (enc_custom info) = length info + 2) by (unfold enc_custom; rewrite app_length; reflexivity).
  set (R := enc_custom info) in *.
  unfold routing_accepts, rdp_routing. fold (cfg_hash c). fold (cfg_info c).
  assert (Ecv : cookie_valid c (cfg_hash c) R (length R) = Ok false).
  { unfold cookie_valid. rewrite Cmin, Cmax. destruct (Nat.ltb_spec (length R) 20); [reflexivity|].
    rewrite slice_prefix, firstn_all by lia. destruct (Nat.ltb_spec 248 (length R)); [lia|].
    assert (Hp : has_prefix R cookie_prefix = false).
    { unfold R, enc_custom. apply has_prefix_false_app; [rewrite Lp; lia|exact Hnp]. }
    rewrite Hp. reflexivity. }
  assert (Etv : token_valid c x R (length R) = Ok false).
  { unfold token_valid. rewrite Tmin. destruct (Nat.ltb_spec (length R) 11) as [|H11]; [reflexivity|].
    rewrite slice_prefix, firstn_all by lia.
    destruct (token_accepts_length R) as (t & Et & _); [rewrite Tmin; lia|]. rewrite Et.
    rewrite (token_version_first R t Et).
    assert (Hn0 : nth 0 R x00 = nth 0 info x00) by (unfold R, enc_custom; destruct info; [contradiction|reflexivity]).
    rewrite Hn0. change (Z.to_N l4rdp_RDPTokenVersion) with 3%N.
    destruct (N.eqb_spec (bN (nth 0 info x00)) 3) as [E|E]; [|reflexivity].
    exfalso. apply Hv. rewrite <- (nb_bN (nth 0 info x00)), E. reflexivity. }
  assert (Euv : custom_valid c (cfg_info c) R (length R) = Ok (text_pass (cfg_info c) (rc_info_rx c) info)).
  { unfold custom_valid. rewrite Umin, Umax. destruct (Nat.ltb_spec (length R) 3); [lia|].
    rewrite slice_prefix, firstn_all by lia. destruct (Nat.ltb_spec 248 (length R)); [lia|].
    rewrite slice_prefix by lia. replace (length R - 2) with (length info) by lia.
    unfold R, enc_custom. rewrite firstn_app_le, firstn_all by lia. unfold text_pass.
    destruct ((0 <? length (cfg_info c)) && negb (bytes_eqb (cfg_info c) info)); cbn [negb andb]; [reflexivity|].
    destruct (opt_rx (rc_info_rx c) info); reflexivity. }
  rewrite Ecv. fold (hash_filter c). fold (ipport_filter c). fold (info_filter c). cbn [negb andb orb].
  destruct (hash_filter c); [reflexivity|]. rewrite Etv. cbn [negb andb orb].
  destruct (ipport_filter c); [reflexivity|]. rewrite Euv. cbn [negb andb].
  destruct (text_pass (cfg_info c) (rc_info_rx c) info) eqn:Etp; cbn [negb andb].
  - rewrite andb_false_r. reflexivity.
  - destruct (info_filter c) eqn:Eif; [reflexivity|]. unfold info_filter in Eif. rewrite (text_pass_unfiltered _ _ info Eif) in Etp. discriminate.
Qed.

Ltac blia := change (@length Byte.byte) with (@length byte) in *; lia.

(* ---- routing token carrying "Cookie: msts=<ip>.<port>.0000" ---- *)
Definition dot : byte := zb l4rdp_RDPTokenOptionalCookieSeparator.
Definition rsv0 : list byte := l4rdp_RDPTokenOptionalCookieReserved.
Definition token_text (ipd portd : list byte) : list byte := token_prefix ++ ipd ++ [dot] ++ portd ++ [dot] ++ rsv0.
Definition enc_token_opt (opt : list byte) : list byte :=
  let len := N.of_nat (11 + length opt) in
  [x03; x00] ++ N_to_be 2 len ++ [nb (len - 5)] ++ [xe0; x00; x00; x00; x00; x00] ++ opt.
Definition enc_token (ipd portd : list byte) : list byte := enc_token_opt (token_text ipd portd ++ [CR; LF]).

(* the address and port a cookie stands for: the decimal numbers with their bytes reversed *)
Definition token_ip (ipd : list byte) : N := be_N (N_to_le 4 (dec_value ipd)).
Definition token_port (portd : list byte) : N := be_N (N_to_le 2 (dec_value portd)).
Definition token_pass (c : rdp_cfg) (ipd portd : list byte) : bool :=
  match rc_ips c with [] => true | ps => existsb (pfx_contains (token_ip ipd)) ps end &&
  match rc_ports c with [] => true | ps => existsb (N.eqb (token_port portd)) ps end.
Definition digits_ok (d : list byte) (limit : N) : bool :=
  negb (length d =? 0) && forallb is_digit d && (dec_value d <? limit)%N.

Definition nodot (b : byte) : bool := negb (Byte.eqb b dot).

Lemma digit_facts b : is_digit b = true -> nodot b = true /\ nocr b = true.
Proof.
  unfold is_digit, nodot, nocr. intro H. apply andb_true_iff in H. destruct H as [H1 _]. apply N.leb_le in H1. split.
  - destruct (Byte.eqb b dot) eqn:E; [|reflexivity]. apply byte_eqb_eq in E. subst b. vm_compute in H1. exfalso. apply H1. reflexivity.
  - destruct (Byte.eqb b CR) eqn:E; [|reflexivity]. apply byte_eqb_eq in E. subst b. vm_compute in H1. exfalso. apply H1. reflexivity.
Qed.

Lemma digits_forall d : forallb is_digit d = true -> forallb nodot d = true /\ forallb nocr d = true.
Proof.
  induction d as [|b r IH]; [split; reflexivity|]. cbn [forallb]. intro H. apply andb_true_iff in H. destruct H as [H1 H2].
  destruct (digit_facts b H1) as [D1 D2]. destruct (IH H2) as [I1 I2]. rewrite D1, D2, I1, I2. split; reflexivity.
Qed.

Lemma split_on_nodot a : forallb nodot a = true -> split_on dot a = [a].
Proof.
  induction a as [|b r IH]; [reflexivity|]. cbn [forallb]. intro H. apply andb_true_iff in H. destruct H as [H1 H2].
  cbn [split_on]. rewrite (IH H2). unfold nodot in H1. apply negb_true_iff in H1. rewrite H1. reflexivity.
Qed.

Lemma split_on_cons_nodot a r : forallb nodot a = true -> split_on dot (a ++ dot :: r) = a :: split_on dot r.
Proof.
  induction a as [|b a' IH]; intro H.
  - cbn [app split_on]. rewrite byte_eqb_refl. destruct (split_on dot r) as [|h t] eqn:E; [|reflexivity].
    exfalso. clear -E. destruct r as [|y r']; cbn [split_on] in E; [discriminate|]. destruct (split_on dot r'); [discriminate|]. destruct (Byte.eqb y dot); discriminate.
  - cbn [forallb] in H. apply andb_true_iff in H. destruct H as [H1 H2]. cbn [app split_on]. rewrite (IH H2).
    unfold nodot in H1. apply negb_true_iff in H1. rewrite H1. reflexivity.
Qed.

Lemma token_consts : length token_prefix = 13 /\ forallb nocr token_prefix = true /\ length rsv0 = 4 /\ forallb nodot rsv0 = true /\ forallb nocr rsv0 = true /\
  nocr dot = true /\ Z.to_N l4rdp_RDPTokenOptionalCookieBytesMin = 23%N /\ Z.to_N l4rdp_RDPTokenOptionalCookieBytesMax = 36%N /\
  Z.to_N l4rdp_RDPTokenVersion = 3%N /\ Z.to_N l4rdp_RDPTokenReserved = 0%N.
Proof. vm_compute. repeat split. Qed.

Lemma token_text_length ipd portd : length (token_text ipd portd) = 19 + length ipd + length portd.
Proof. destruct token_consts as (Lp & _ & Lr & _). unfold token_text. rewrite !app_length. cbn [length]. rewrite Lp, Lr. blia. Qed.

Lemma enc_token_opt_codec opt : length opt <= 200 ->
  enc_token_opt opt = token_to_bytes {| tk_version := 3; tk_reserved := 0; tk_length := N.of_nat (11 + length opt); tk_li := N.of_nat (11 + length opt) - 5;
                                        tk_typecredit := 224; tk_dstref := 0; tk_srcref := 0; tk_classopts := 0; tk_optional := opt |}.
Proof.
  intro H. unfold enc_token_opt, token_to_bytes. cbn [tk_version tk_reserved tk_length tk_li tk_typecredit tk_dstref tk_srcref tk_classopts tk_optional].
  cbv zeta. replace (N_to_be 1 (N.of_nat (11 + length opt) - 5)) with [nb (N.of_nat (11 + length opt) - 5)].
  2:{ cbn [N_to_be app]. rewrite N.mod_small by blia. reflexivity. }
  reflexivity.
Qed.

Lemma enc_token_opt_length opt : length (enc_token_opt opt) = 11 + length opt.
Proof. unfold enc_token_opt. cbv zeta. rewrite !app_length, N_to_be_length. cbn [length]. reflexivity. Qed.

Lemma routing_accepts_token c x ipd portd :
  x_typecredit x = 224%N -> x_dstref x = 0%N -> x_srcref x = 0%N -> x_classopts x = 0%N ->
  digits_ok ipd two32 = true -> digits_ok portd two16 = true -> 4 <= length ipd + length portd <= 17 ->
  routing_accepts c x (enc_token ipd portd) = negb (hash_filter c) && token_pass c ipd portd && negb (info_filter c).
Proof.
  intros Xt Xd Xs Xc Hip Hport Hn.
  destruct cookie_prefix_facts as (Lcp & _ & Cmin & Cmax & Tmin & _).
  destruct token_consts as (Lp & _ & Lr & Nr & _ & _ & Omin & Omax & Tv & Tr).
  unfold digits_ok in Hip, Hport.
  apply andb_true_iff in Hip; destruct Hip as [Hip Hipv]; apply andb_true_iff in Hip; destruct Hip as [Hipn Hipd].
  apply andb_true_iff in Hport; destruct Hport as [Hport Hportv]; apply andb_true_iff in Hport; destruct Hport as [Hportn Hportd].
  apply negb_true_iff, Nat.eqb_neq in Hipn. apply negb_true_iff, Nat.eqb_neq in Hportn.
  destruct (digits_forall ipd Hipd) as [Dip _]. destruct (digits_forall portd Hportd) as [Dport _].
  set (text := token_text ipd portd). set (opt := text ++ [CR; LF]).
  assert (Lt : length text = 19 + length ipd + length portd) by apply token_text_length.
  assert (Lo : length opt = length text + 2) by (unfold opt; rewrite app_length; reflexivity).
  set (R := enc_token ipd portd). assert (LR : length R = 11 + length opt) by apply enc_token_opt_length.
  unfold routing_accepts, rdp_routing. fold (cfg_hash c). fold (cfg_info c).
  assert (Ecv : cookie_valid c (cfg_hash c) R (length R) = Ok false).
  { unfold cookie_valid. rewrite Cmin, Cmax. destruct (Nat.ltb_spec (length R) 20); [blia|].
    rewrite slice_prefix, firstn_all by blia. destruct (Nat.ltb_spec 248 (length R)); [blia|].
    assert (Hp : has_prefix R cookie_prefix = false) by (unfold R, enc_token, enc_token_opt; vm_compute cookie_prefix; reflexivity).
    rewrite Hp. reflexivity. }
  assert (Etv : token_valid c x R (length R) = Ok (token_pass c ipd portd)).
  { unfold token_valid. rewrite Tmin. destruct (Nat.ltb_spec (length R) 11); [blia|].
    rewrite slice_prefix, firstn_all by blia. unfold R, enc_token. fold text. fold opt.
    rewrite (enc_token_opt_codec opt) by blia. rewrite token_from_to.
    2:{ unfold token_wf. cbn [tk_version tk_reserved tk_length tk_li tk_typecredit tk_dstref tk_srcref tk_classopts]. unfold two8, two16. repeat split; blia. }
    cbn [tk_version tk_reserved tk_length tk_li tk_typecredit tk_dstref tk_srcref tk_classopts tk_optional].
    rewrite Tv, Tr, Xt, Xd, Xs, Xc. rewrite <- (enc_token_opt_codec opt) by blia. rewrite !enc_token_opt_length.
    rewrite !N.eqb_refl. rewrite (sub16_small (N.of_nat (11 + length opt)) 5) by blia.
    rewrite (N.mod_small (N.of_nat (11 + length opt) - 5) two8) by (unfold two8; blia). rewrite N.eqb_refl. cbn [negb orb].
    change (N.of_nat 11) with 11%N. rewrite (sub16_small (N.of_nat (11 + length opt)) 11) by blia.
    replace (N.of_nat (11 + length opt) - 11)%N with (N.of_nat (length opt)) by blia.
    destruct (N.eqb_spec (N.of_nat (length opt)) 0) as [E|_]; [blia|].
    rewrite (sub16_small (N.of_nat (length opt)) 2) by blia. rewrite Omin, Omax.
    destruct (N.ltb_spec (N.of_nat (length opt) - 2) 23); [blia|]. destruct (N.ltb_spec 36 (N.of_nat (length opt) - 2)); [blia|]. cbn [orb].
    replace (N.to_nat (N.of_nat (length opt) - 2)) with (length text) by blia.
    rewrite slice_prefix by blia. unfold opt. rewrite firstn_app_le, firstn_all by blia.
    assert (Hp : has_prefix text token_prefix = true) by (unfold text, token_text; apply has_prefix_refl_app). rewrite Hp. cbn [negb].
    rewrite Lp. assert (Es : slice text 13 (length text) = Some (ipd ++ [dot] ++ portd ++ [dot] ++ rsv0)).
    { unfold slice. rewrite Lt. destruct (Nat.leb_spec 13 (19 + length ipd + length portd)); [|blia]. rewrite Nat.leb_refl. cbn [andb]. f_equal.
      unfold text, token_text. rewrite <- Lp, skipn_app_le, skipn_all by blia. cbn [app]. apply firstn_all2.
      rewrite !app_length. cbn [length]. rewrite !app_length. cbn [length]. rewrite Lr. blia. }
    rewrite Es. fold dot. cbn [app]. rewrite (split_on_cons_nodot ipd _ Dip). rewrite (split_on_cons_nodot portd _ Dport). rewrite (split_on_nodot rsv0 Nr).
    assert (Er : bytes_eqb rsv0 l4rdp_RDPTokenOptionalCookieReserved = true) by (apply bytes_eqb_eq; reflexivity). rewrite Er. cbn [negb].
    unfold parse_uint. destruct ipd as [|i0 ipd']; [cbn in Hipn; blia|]. rewrite Hipd, Hipv.
    destruct portd as [|p0 portd']; [cbn in Hportn; blia|]. rewrite Hportd, Hportv.
    unfold token_pass, token_ip, token_port.
    destruct (match rc_ips c with [] => true | _ :: _ => _ end); cbn [negb andb]; [|reflexivity].
    destruct (match rc_ports c with [] => true | _ :: _ => _ end); reflexivity. }
  rewrite Ecv. fold (hash_filter c). fold (ipport_filter c). fold (info_filter c). cbn [negb andb orb].
  destruct (hash_filter c); [reflexivity|]. rewrite Etv. cbn [negb andb].
  destruct (token_pass c ipd portd) eqn:Etp; cbn [negb andb orb].
  - destruct (info_filter c); [reflexivity|]. rewrite andb_false_r. reflexivity.
  - destruct (ipport_filter c) eqn:Eif; [reflexivity|]. exfalso. unfold ipport_filter in Eif. unfold token_pass in Etp.
    destruct (rc_ips c); [|discriminate]. destruct (rc_ports c); discriminate.
Qed.

Lemma nb_nocr n : (n < 256)%N -> n <> 13%N -> nocr (nb n) = true.
Proof.
  intros H1 H2. unfold nocr. destruct (Byte.eqb (nb n) CR) eqn:E; [|reflexivity].
  apply byte_eqb_eq in E. apply (f_equal bN) in E. rewrite bN_nb in E by exact H1. vm_compute in E. contradiction.
Qed.

(* the token element is text without CR followed by CR LF *)
Lemma enc_token_element ipd portd : digits_ok ipd two32 = true -> digits_ok portd two16 = true -> 4 <= length ipd + length portd <= 17 ->
  exists body, enc_token ipd portd = body ++ [CR; LF] /\ forallb nocr body = true.
Proof.
  intros Hip Hport Hn. destruct token_consts as (Lp & Np & Lr & _ & Nrc & Ndot & _).
  unfold digits_ok in Hip, Hport.
  apply andb_true_iff in Hip; destruct Hip as [Hip _]; apply andb_true_iff in Hip; destruct Hip as [_ Hipd].
  apply andb_true_iff in Hport; destruct Hport as [Hport _]; apply andb_true_iff in Hport; destruct Hport as [_ Hportd].
  destruct (digits_forall ipd Hipd) as [_ Cip]. destruct (digits_forall portd Hportd) as [_ Cport].
  pose proof (token_text_length ipd portd) as Lt.
  set (len := N.of_nat (11 + length (token_text ipd portd ++ [CR; LF]))).
  exists ([x03; x00] ++ N_to_be 2 len ++ [nb (len - 5)] ++ [xe0; x00; x00; x00; x00; x00] ++ token_text ipd portd). split.
  - unfold enc_token, enc_token_opt. cbv zeta. fold len. rewrite <- !app_assoc. reflexivity.
  - assert (Ll : (36 <= len <= 49)%N) by (unfold len; rewrite app_length; cbn [length]; blia).
    rewrite !forallb_app. unfold token_text. rewrite !forallb_app. rewrite Np, Cip, Cport, Nrc. cbn [forallb]. rewrite Ndot. cbn [andb].
    assert (H2 : forallb nocr (N_to_be 2 len) = true).
    { rewrite !N_to_be_S. cbn [N_to_be app forallb]. rewrite (N.div_small len 256) by blia. rewrite (N.mod_small len 256) by blia.
      change (0 mod 256)%N with 0%N. rewrite (nb_nocr 0), (nb_nocr len) by blia. reflexivity. }
    assert (H3 : nocr (nb (len - 5)) = true) by (apply nb_nocr; blia).
    rewrite H2, H3. reflexivity.
Qed.

(* ---- the filter options as propositions ---- *)
Definition text_passes (want : list byte) (rx : option (list byte -> bool)) (s : list byte) : Prop :=
  (want = [] \/ want = s) /\ (forall f, rx = Some f -> f s = true).
Definition no_hash_filter (c : rdp_cfg) : Prop := cfg_hash c = [] /\ rc_hash_rx c = None.
Definition no_ipport_filter (c : rdp_cfg) : Prop := rc_ips c = [] /\ rc_ports c = [].
Definition no_info_filter (c : rdp_cfg) : Prop := cfg_info c = [] /\ rc_info_rx c = None.
Definition token_passes (c : rdp_cfg) (ipd portd : list byte) : Prop :=
  (rc_ips c = [] \/ exists p, In p (rc_ips c) /\ pfx_contains (token_ip ipd) p = true) /\
  (rc_ports c = [] \/ In (token_port portd) (rc_ports c)).

Lemma text_pass_iff want rx s : text_pass want rx s = true <-> text_passes want rx s.
Proof.
  unfold text_pass, text_passes. destruct want as [|w0 wr].
  - cbn [length Nat.ltb Nat.leb andb negb]. destruct rx as [f|]; cbn [opt_rx].
    + split; [intro H; split; [left; reflexivity|intros g Hg; inversion Hg; subst; exact H]|intros [_ H]; apply H; reflexivity].
    + split; [intros _; split; [left; reflexivity|intros g Hg; discriminate]|reflexivity].
  - cbn [length Nat.ltb Nat.leb andb]. destruct (bytes_eqb (w0 :: wr) s) eqn:E; cbn [negb andb].
    + apply bytes_eqb_eq in E. destruct rx as [f|]; cbn [opt_rx].
      * split; [intro H; split; [right; exact E|intros g Hg; inversion Hg; subst; exact H]|intros [_ H]; apply H; reflexivity].
      * split; [intros _; split; [right; exact E|intros g Hg; discriminate]|reflexivity].
    + split; [discriminate|]. intros [[H|H] _]; [discriminate|]. apply bytes_eqb_eq in H. congruence.
Qed.

Lemma is_some_false {A} (o : option A) : is_some o = false <-> o = None.
Proof. destruct o; cbn; split; congruence. Qed.
Lemma len_pos_false {A} (l : list A) : (0 <? length l) = false <-> l = [].
Proof. destruct l; cbn; split; congruence. Qed.

Lemma hash_filter_iff c : hash_filter c = false <-> no_hash_filter c.
Proof. unfold hash_filter, no_hash_filter. rewrite orb_false_iff, len_pos_false, is_some_false. tauto. Qed.
Lemma info_filter_iff c : info_filter c = false <-> no_info_filter c.
Proof. unfold info_filter, no_info_filter. rewrite orb_false_iff, len_pos_false, is_some_false. tauto. Qed.
Lemma ipport_filter_iff c : ipport_filter c = false <-> no_ipport_filter c.
Proof. unfold ipport_filter, no_ipport_filter. destruct (rc_ips c), (rc_ports c); cbn; split; try tauto; try discriminate; intros [? ?]; discriminate. Qed.

Lemma token_pass_iff c ipd portd : token_pass c ipd portd = true <-> token_passes c ipd portd.
Proof.
  unfold token_pass, token_passes. rewrite andb_true_iff.
  assert (H1 : match rc_ips c with [] => true | ps => existsb (pfx_contains (token_ip ipd)) ps end = true <->
               (rc_ips c = [] \/ exists p, In p (rc_ips c) /\ pfx_contains (token_ip ipd) p = true)).
  { destruct (rc_ips c) as [|p0 ps]; [split; [left; reflexivity|reflexivity]|]. rewrite existsb_exists. split; [intro H; right; exact H|intros [H|H]; [discriminate|exact H]]. }
  assert (H2 : match rc_ports c with [] => true | ps => existsb (N.eqb (token_port portd)) ps end = true <->
               (rc_ports c = [] \/ In (token_port portd) (rc_ports c))).
  { destruct (rc_ports c) as [|p0 ps]; [split; [left; reflexivity|reflexivity]|]. rewrite existsb_exists. split.
    - intros (y & Hy & E). apply N.eqb_eq in E. subst y. right. exact Hy.
    - intros [H|H]; [discriminate|]. exists (token_port portd). split; [exact H|apply N.eqb_refl]. }
  rewrite H1, H2. tauto.
Qed.

Definition tail_ref (tail : list byte) : Prop := exists t, wf_tail t /\ tail = enc_tail t.

Ltac split_bools H := repeat (apply andb_true_iff in H; let H' := fresh "Hb" in destruct H as [H H']).

(* ---- MatchRDP.Match = Yes per kind of routing element; what follows it is any byte string ---- *)
Theorem rdp_none_iff c tail : find_crlf 0 tail = 0 -> 1 <= length tail <= 248 ->
  (rdp_match c (rdp_frame tail) = Yes <-> no_hash_filter c /\ no_ipport_filter c /\ no_info_filter c /\ tail_ref tail).
Proof.
  intros Hs Hl. pose proof (rdp_match_frame_iff c [] tail Hs Hl) as H. cbn [app] in H. rewrite H, routing_accepts_none.
  rewrite !andb_true_iff, !negb_true_iff, hash_filter_iff, ipport_filter_iff, info_filter_iff. unfold tail_ref. tauto.
Qed.

Theorem rdp_cookie_iff c hash tail : hash <> [] -> forallb nocr hash = true -> length (enc_cookie hash ++ tail) <= 248 ->
  (rdp_match c (rdp_frame (enc_cookie hash ++ tail)) = Yes <->
   text_passes (cfg_hash c) (rc_hash_rx c) hash /\ no_ipport_filter c /\ no_info_filter c /\ tail_ref tail).
Proof.
  intros Hne Hcr Hl. destruct cookie_prefix_facts as (_ & Ncp & _).
  assert (Hs : find_crlf 0 (enc_cookie hash ++ tail) = length (enc_cookie hash)).
  { unfold enc_cookie. apply find_crlf_element. rewrite forallb_app, Ncp, Hcr. reflexivity. }
  assert (Hl2 : 1 <= length (enc_cookie hash ++ tail) <= 248) by (split; [rewrite app_length; unfold enc_cookie; rewrite !app_length; cbn [length]; lia|exact Hl]).
  rewrite (rdp_match_frame_iff c _ tail Hs Hl2). rewrite routing_accepts_cookie by (try assumption; rewrite app_length in Hl; lia).
  rewrite !andb_true_iff, !negb_true_iff, text_pass_iff, ipport_filter_iff, info_filter_iff. unfold tail_ref. tauto.
Qed.

Theorem rdp_custom_iff c info tail : info <> [] -> forallb nocr info = true -> length (enc_custom info ++ tail) <= 248 ->
  has_prefix info cookie_prefix = false -> nth 0 info x00 <> x03 ->
  (rdp_match c (rdp_frame (enc_custom info ++ tail)) = Yes <->
   no_hash_filter c /\ no_ipport_filter c /\ text_passes (cfg_info c) (rc_info_rx c) info /\ tail_ref tail).
Proof.
  intros Hne Hcr Hl Hnp Hv.
  assert (Hs : find_crlf 0 (enc_custom info ++ tail) = length (enc_custom info)) by (unfold enc_custom; apply find_crlf_element; exact Hcr).
  assert (Hl2 : 1 <= length (enc_custom info ++ tail) <= 248) by (split; [rewrite app_length; unfold enc_custom; rewrite app_length; cbn [length]; lia|exact Hl]).
  rewrite (rdp_match_frame_iff c _ tail Hs Hl2). rewrite routing_accepts_custom by (try assumption; rewrite app_length in Hl; lia).
  rewrite !andb_true_iff, !negb_true_iff, text_pass_iff, hash_filter_iff, ipport_filter_iff. unfold tail_ref. tauto.
Qed.

Theorem rdp_token_iff c ipd portd tail :
  digits_ok ipd two32 = true -> digits_ok portd two16 = true -> 4 <= length ipd + length portd <= 17 -> length tail <= 199 ->
  (rdp_match c (rdp_frame (enc_token ipd portd ++ tail)) = Yes <->
   no_hash_filter c /\ token_passes c ipd portd /\ no_info_filter c /\ tail_ref tail).
Proof.
  intros Hip Hport Hn Ht. destruct (enc_token_element ipd portd Hip Hport Hn) as (body & Eb & Nb).
  assert (LR : length (enc_token ipd portd) = 32 + length ipd + length portd).
  { unfold enc_token. rewrite enc_token_opt_length, app_length, token_text_length. cbn [length]. lia. }
  assert (Hs : find_crlf 0 (enc_token ipd portd ++ tail) = length (enc_token ipd portd)) by (rewrite Eb; apply find_crlf_element; exact Nb).
  assert (Hl2 : 1 <= length (enc_token ipd portd ++ tail) <= 248) by (rewrite app_length, LR; lia).
  rewrite (rdp_match_frame_iff c _ tail Hs Hl2). rewrite routing_accepts_token by (try assumption; reflexivity).
  rewrite !andb_true_iff, !negb_true_iff, token_pass_iff, hash_filter_iff, info_filter_iff. unfold tail_ref. tauto.
Qed.
