(* Lemmas about model/Socks5.v (C16): outbound actions happen only after authentication with a
   configured credential and only for a command the configuration enables. *)
From Coq Require Import List ZArith NArith Bool Arith Lia.
From Coq.Strings Require Import Byte.
From L4 Require Import Hex.
From L4.model Require Import GoBase Socks5.
From L4.proofs Require Import GoBaseProofs.
Import ListNotations.

Definition quiet (ev : event) : Prop := outbound ev = false /\ is_resolve ev = false.

Lemma quiet_out b : quiet (Out b). Proof. split; reflexivity. Qed.
Lemma quiet_auth u p : quiet (AuthOK u p). Proof. split; reflexivity. Qed.

Ltac quiet_list :=
  repeat match goal with
         | H : In _ (_ :: _) |- _ => destruct H as [<-|H]
         | H : In _ [] |- _ => destruct H
         end; try apply quiet_out; try apply quiet_auth.

(* ------------------------------------------------------------------ authentication *)
Lemma userpass_quiet store inp evs r : userpass store inp = (evs, r) -> forall ev, In ev evs -> quiet ev.
Proof.
  unfold userpass. intros H ev Hin.
  destruct inp as [|ver [|ulen r1]]; try (inversion H; subst; quiet_list; fail).
  destruct (negb (zb ver =? 1)%Z); [inversion H; subst; quiet_list; fail|].
  destruct (read_full (nat_of_byte ulen) r1) as [[user r2]|]; [|inversion H; subst; quiet_list; fail].
  destruct r2 as [|plen r3]; [inversion H; subst; quiet_list; fail|].
  destruct (read_full (nat_of_byte plen) r3) as [[pass r4]|]; [|inversion H; subst; quiet_list; fail].
  destruct (valid store user pass); inversion H; subst; quiet_list.
Qed.

Lemma userpass_ok store inp evs rest :
  userpass store inp = (evs, Some rest) -> exists u p, In (AuthOK u p) evs /\ valid store u p = true.
Proof.
  unfold userpass. intro H.
  destruct inp as [|ver [|ulen r1]]; try discriminate.
  destruct (negb (zb ver =? 1)%Z); [discriminate|].
  destruct (read_full (nat_of_byte ulen) r1) as [[user r2]|]; [|discriminate].
  destruct r2 as [|plen r3]; [discriminate|].
  destruct (read_full (nat_of_byte plen) r3) as [[pass r4]|]; [|discriminate].
  destruct (valid store user pass) eqn:Ev; inversion H; subst.
  exists user, pass. split; [cbn; auto|exact Ev].
Qed.

Lemma select_auth_in auths methods a : select_auth auths methods = Some a -> In a auths.
Proof.
  induction auths as [|x r IH]; cbn; [discriminate|].
  destruct (existsb (fun m => (zb m =? code x)%Z) methods); intro H; [inversion H; auto|right; auto].
Qed.

Lemma negotiate_quiet srv inp evs r : negotiate srv inp = (evs, r) -> forall ev, In ev evs -> quiet ev.
Proof.
  unfold negotiate. intros H ev Hin.
  destruct inp as [|ver [|nm r2]]; try (inversion H; subst; quiet_list; fail).
  destruct (read_full (nat_of_byte nm) r2) as [[methods r3]|]; [|inversion H; subst; quiet_list; fail].
  destruct (negb (zb ver =? 5)%Z); [inversion H; subst; quiet_list; fail|].
  destruct (select_auth (sauth srv) methods) as [[|store]|]; try (inversion H; subst; quiet_list; fail).
  eapply userpass_quiet; eauto.
Qed.

(* a completed negotiation either used a configured NoAuth authenticator or validated a
   username/password against a configured store *)
Lemma negotiate_ok srv inp evs rest :
  negotiate srv inp = (evs, Some rest) ->
  In NoAuth (sauth srv) \/
  exists store u p, In (UserPass store) (sauth srv) /\ In (AuthOK u p) evs /\ valid store u p = true.
Proof.
  unfold negotiate. intro H.
  destruct inp as [|ver [|nm r2]]; try discriminate.
  destruct (read_full (nat_of_byte nm) r2) as [[methods r3]|]; [|discriminate].
  destruct (negb (zb ver =? 5)%Z); [discriminate|].
  destruct (select_auth (sauth srv) methods) as [[|store]|] eqn:Es; try discriminate.
  - left. eapply select_auth_in; eauto.
  - right. destruct (userpass_ok _ _ _ _ H) as (u & p & Hin & Hv).
    exists store, u, p. split; [eapply select_auth_in; eauto|auto].
Qed.

(* ------------------------------------------------------------------ requests *)
Definition permitted (srv : server) (ev : event) : Prop :=
  match ev with
  | Dial _ _ => allow (srule srv) 1 = true
  | ListenUDP _ _ => allow (srule srv) 3 = true
  | _ => True
  end.

Lemma dispatch_permitted srv e cmd ip port rest evs fin :
  dispatch srv e cmd ip port rest = (evs, fin) -> forall ev, In ev evs -> permitted srv ev.
Proof.
  unfold dispatch. intros H ev Hin.
  destruct (allow (srule srv) cmd) eqn:Ea; cbn [negb] in H.
  - destruct (Z.eqb_spec cmd 1) as [->|N1].
    + destruct (dial e ip port); inversion H; subst; cbn in Hin;
        repeat destruct Hin as [<-|Hin]; try destruct Hin; cbn; auto.
    + destruct (Z.eqb_spec cmd 2) as [->|N2].
      * inversion H; subst. destruct Hin as [<-|[]]. exact I.
      * assert (cmd = 3%Z) as ->.
        { unfold allow in Ea. destruct (Z.eqb_spec cmd 1); [contradiction|]. destruct (Z.eqb_spec cmd 2); [contradiction|].
          destruct (Z.eqb_spec cmd 3); [assumption|discriminate]. }
        destruct (listen_udp e); inversion H; subst; cbn in Hin;
          repeat destruct Hin as [<-|Hin]; try destruct Hin; cbn; auto.
  - inversion H; subst. destruct Hin as [<-|[]]. exact I.
Qed.

Lemma request_permitted srv e inp evs fin :
  request srv e inp = (evs, fin) -> forall ev, In ev evs -> permitted srv ev.
Proof.
  unfold request. intros H ev Hin.
  destruct inp as [|ver [|cmdb r1]]; try (inversion H; subst; destruct Hin; fail).
  destruct (negb (zb ver =? 5)%Z); [inversion H; subst; destruct Hin|].
  destruct r1 as [|rsv [|atyp r2]]; try (inversion H; subst; destruct Hin; fail).
  destruct (zb atyp =? 1)%Z.
  { destruct (read_full 6 r2) as [[a r3]|]; [|inversion H; subst; destruct Hin].
    destruct (negb (known_cmd (zb cmdb))); [inversion H; subst; destruct Hin as [<-|[]]; exact I|].
    eapply dispatch_permitted; eauto. }
  destruct (zb atyp =? 4)%Z.
  { destruct (read_full 18 r2) as [[a r3]|]; [|inversion H; subst; destruct Hin].
    destruct (negb (known_cmd (zb cmdb))); [inversion H; subst; destruct Hin as [<-|[]]; exact I|].
    eapply dispatch_permitted; eauto. }
  destruct (zb atyp =? 3)%Z; [|inversion H; subst; destruct Hin as [<-|[]]; exact I].
  destruct r2 as [|dl r2']; [inversion H; subst; destruct Hin|].
  destruct (read_full (nat_of_byte dl + 2) r2') as [[a r3]|]; [|inversion H; subst; destruct Hin].
  destruct (negb (known_cmd (zb cmdb))); [inversion H; subst; destruct Hin as [<-|[]]; exact I|].
  destruct (firstn (nat_of_byte dl) a) as [|f0 fq] eqn:Ef.
  - eapply dispatch_permitted; eauto.
  - destruct (resolve e (f0 :: fq)) as [ip|].
    + destruct (dispatch srv e (zb cmdb) ip (port_of (skipn (nat_of_byte dl) a)) r3) as [ev2 fin2] eqn:Ed.
      inversion H; subst. destruct Hin as [<-|Hin]; [exact I|]. eapply dispatch_permitted; eauto.
    + inversion H; subst. repeat destruct Hin as [<-|Hin]; try destruct Hin; exact I.
Qed.

(* ------------------------------------------------------------------ Provision *)
Section Prov.
  Variable repl : bytes -> bytes.
  Variable upper : bytes -> bytes.

  Definition cmd_name (cmd : Z) : bytes :=
    if (cmd =? 1)%Z then s_CONNECT else if (cmd =? 2)%Z then s_BIND else s_ASSOCIATE.

  (* the configuration enables command code cmd (1 CONNECT, 2 BIND, 3 ASSOCIATE) *)
  Definition cmd_enabled (c : config) (cmd : Z) : Prop :=
    (commands c = [] /\ (cmd = 1 \/ cmd = 3)%Z) \/
    ((cmd = 1 \/ cmd = 2 \/ cmd = 3)%Z /\ exists s, In s (commands c) /\ upper (repl s) = cmd_name cmd).

  (* (u, p) is a username/password of the configuration (after placeholder replacement) *)
  Definition configured_cred (c : config) (u p : bytes) : Prop :=
    u <> [] /\ exists k v, In (k, v) (credentials c) /\ repl k = u /\ repl v = p.

  Definition rule_from (cs : list bytes) (r : rule) (cmd : Z) : Prop :=
    allow r cmd = true \/ ((cmd = 1 \/ cmd = 2 \/ cmd = 3)%Z /\ exists s, In s cs /\ upper (repl s) = cmd_name cmd).

  Lemma cmds_rule_sound cs : forall r0 r cmd,
    cmds_rule repl upper cs r0 = Some r -> allow r cmd = true -> rule_from cs r0 cmd.
  Proof.
    induction cs as [|c cs IH]; intros r0 r cmd H Ha; cbn in H.
    - inversion H; subst. left; exact Ha.
    - destruct (bytes_eqb (upper (repl c)) s_CONNECT) eqn:E1; [|destruct (bytes_eqb (upper (repl c)) s_ASSOCIATE) eqn:E2;
        [|destruct (bytes_eqb (upper (repl c)) s_BIND) eqn:E3; [|discriminate]]].
      + apply bytes_eqb_eq in E1. destruct (IH _ _ _ H Ha) as [Hal|[Hc [s [Hin Hs]]]].
        * unfold allow in Hal; cbn in Hal. destruct (Z.eqb_spec cmd 1) as [->|N1].
          -- right. split; [auto|]. exists c. split; [left; reflexivity|exact E1].
          -- left. unfold allow. destruct (Z.eqb_spec cmd 1); [contradiction|exact Hal].
        * right. split; [exact Hc|]. exists s. split; [right; exact Hin|exact Hs].
      + apply bytes_eqb_eq in E2. destruct (IH _ _ _ H Ha) as [Hal|[Hc [s [Hin Hs]]]].
        * unfold allow in Hal; cbn in Hal. destruct (Z.eqb_spec cmd 1) as [->|N1]; [left; exact Hal|].
          destruct (Z.eqb_spec cmd 2) as [->|N2]; [left; exact Hal|].
          destruct (Z.eqb_spec cmd 3) as [->|N3]; [|discriminate].
          right. split; [auto|]. exists c. split; [left; reflexivity|exact E2].
        * right. split; [exact Hc|]. exists s. split; [right; exact Hin|exact Hs].
      + apply bytes_eqb_eq in E3. destruct (IH _ _ _ H Ha) as [Hal|[Hc [s [Hin Hs]]]].
        * unfold allow in Hal; cbn in Hal. destruct (Z.eqb_spec cmd 1) as [->|N1]; [left; exact Hal|].
          destruct (Z.eqb_spec cmd 2) as [->|N2].
          -- right. split; [auto|]. exists c. split; [left; reflexivity|exact E3].
          -- left. unfold allow. destruct (Z.eqb_spec cmd 1); [contradiction|]. destruct (Z.eqb_spec cmd 2); [contradiction|exact Hal].
        * right. split; [exact Hc|]. exists s. split; [right; exact Hin|exact Hs].
  Qed.

  Lemma provision_rule c srv cmd :
    provision repl upper c = Some srv -> allow (srule srv) cmd = true -> cmd_enabled c cmd.
  Proof.
    unfold provision. destruct (commands c) as [|c0 cs] eqn:Ec.
    - intro H; inversion H; subst; cbn. unfold allow; cbn. intro Ha. left. split; [exact Ec|].
      destruct (Z.eqb_spec cmd 1); [auto|]. destruct (Z.eqb_spec cmd 2); [discriminate|]. destruct (Z.eqb_spec cmd 3); [auto|discriminate].
    - destruct (cmds_rule repl upper (c0 :: cs) _) as [r|] eqn:Er; [|discriminate].
      intro H; inversion H; subst; cbn. intro Ha.
      destruct (cmds_rule_sound _ _ _ _ Er Ha) as [Hal|Hr]; [|right; rewrite Ec; exact Hr].
      unfold allow in Hal; cbn in Hal. destruct (cmd =? 1)%Z, (cmd =? 2)%Z, (cmd =? 3)%Z; discriminate.
  Qed.

  Definition store_ok (c : config) (m : list (bytes * bytes)) : Prop :=
    forall u p, In (u, p) m -> configured_cred c u p.

  Lemma cred_fold_ok c : forall l m, (forall kv, In kv l -> In kv (credentials c)) -> store_ok c m ->
    store_ok c (fold_left (cred_step repl) l m).
  Proof.
    induction l as [|[k v] l IH]; intros m Hsub Hm; cbn [fold_left]; [exact Hm|].
    apply IH; [intros kv Hkv; apply Hsub; right; exact Hkv|].
    unfold cred_step; cbn [fst snd]. destruct (Nat.ltb_spec 0 (length (repl k))) as [Hl|Hl]; [|exact Hm].
    intros u p [Heq|Hin]; [|apply Hm; exact Hin]. inversion Heq; subst. split.
    - intro Hnil. rewrite Hnil in Hl. cbn in Hl. lia.
    - exists k, v. split; [apply Hsub; left; reflexivity|split; reflexivity].
  Qed.

  Lemma assoc_in k m v : assoc k m = Some v -> In (k, v) m.
  Proof.
    induction m as [|[k' v'] m IH]; cbn; [discriminate|].
    destruct (bytes_eqb k k') eqn:E; intro H.
    - apply bytes_eqb_eq in E. inversion H; subst. left; reflexivity.
    - right. apply IH. exact H.
  Qed.

  Lemma valid_configured c m u p : store_ok c m -> valid m u p = true -> configured_cred c u p.
  Proof.
    unfold valid. intros Hm H. destruct (assoc u m) as [p'|] eqn:Ea; [|discriminate].
    apply bytes_eqb_eq in H. subst p'. apply Hm. apply assoc_in. exact Ea.
  Qed.

  Lemma provision_auth c srv :
    provision repl upper c = Some srv ->
    (credentials c = [] /\ sauth srv = [NoAuth]) \/
    (credentials c <> [] /\ exists m, sauth srv = [UserPass m] /\ store_ok c m).
  Proof.
    unfold provision.
    destruct (match commands c with [] => _ | _ => _ end) as [r|]; [|discriminate].
    intro H; inversion H; subst; cbn [sauth]. destruct (credentials c) as [|kv l] eqn:Ec.
    - left. split; reflexivity.
    - right. split; [discriminate|]. exists (fold_left (cred_step repl) (kv :: l) []). split; [reflexivity|].
      apply cred_fold_ok; [intros kv' Hk; rewrite Ec; exact Hk|intros u p []].
  Qed.

  (* ---------------------------------------------------------------- the property *)
  Lemma split_after_quiet (l1 l2 pre post : list event) ev :
    (forall x, In x l1 -> outbound x = false) -> outbound ev = true ->
    l1 ++ l2 = pre ++ ev :: post -> exists pre2, pre = l1 ++ pre2 /\ l2 = pre2 ++ ev :: post.
  Proof.
    revert pre. induction l1 as [|x l1 IH]; intros pre Hq Hev Heq; cbn in *.
    - exists pre. split; [reflexivity|exact Heq].
    - destruct pre as [|y pre]; cbn in Heq; inversion Heq; subst.
      + rewrite (Hq ev (or_introl eq_refl)) in Hev. discriminate.
      + destruct (IH pre) as [pre2 [Hp1 Hp2]]; auto. exists pre2. split; [rewrite Hp1; reflexivity|exact Hp2].
  Qed.

  Lemma no_outbound_unless_authorised c srv e inp evs fin pre ev post :
    provision repl upper c = Some srv ->
    serve srv e inp = (evs, fin) -> evs = pre ++ ev :: post -> outbound ev = true ->
    (credentials c <> [] -> exists u p, In (AuthOK u p) pre /\ configured_cred c u p) /\
    (forall ip port, ev = Dial ip port -> cmd_enabled c 1) /\
    (forall ip port, ev = ListenUDP ip port -> cmd_enabled c 3).
  Proof.
    intros Hprov Hserve Hevs0 Hout. subst evs. unfold serve in Hserve.
    destruct (negotiate srv inp) as [ev1 [rest|]] eqn:En.
    - destruct (request srv e rest) as [ev2 fin2] eqn:Er. injection Hserve as Hevs Hfin.
      pose proof (negotiate_quiet _ _ _ _ En) as Hq.
      destruct (split_after_quiet ev1 ev2 pre post ev (fun x Hx => proj1 (Hq x Hx)) Hout Hevs) as [pre2 [Hpre Hev2]].
      assert (Hperm : permitted srv ev).
      { eapply request_permitted; [exact Er|]. rewrite Hev2. apply in_or_app; right; left; reflexivity. }
      split; [|split].
      + intro Hc. destruct (provision_auth c srv Hprov) as [[Hnil _]|[_ [m [Hm Hok]]]]; [contradiction|].
        destruct (negotiate_ok _ _ _ _ En) as [Hno|(store & u & p & Hin & Hau & Hv)].
        * rewrite Hm in Hno. destruct Hno as [Hno|[]]; discriminate.
        * rewrite Hm in Hin. destruct Hin as [Hin|[]]. inversion Hin; subst store.
          exists u, p. split; [rewrite Hpre; apply in_or_app; left; exact Hau|]. eapply valid_configured; eauto.
      + intros ip port ->. cbn in Hperm. eapply provision_rule; eauto.
      + intros ip port ->. cbn in Hperm. eapply provision_rule; eauto.
    - injection Hserve as Hevs Hfin. exfalso.
      pose proof (negotiate_quiet _ _ _ _ En ev) as Hq.
      assert (In ev ev1) as Hin by (rewrite Hevs; apply in_or_app; right; left; reflexivity).
      rewrite (proj1 (Hq Hin)) in Hout. discriminate.
  Qed.

  (* a name is looked up only after the same authentication *)
  Lemma resolve_only_after_auth c srv e inp evs fin pre fqdn post :
    provision repl upper c = Some srv ->
    serve srv e inp = (evs, fin) -> evs = pre ++ Resolve fqdn :: post ->
    credentials c <> [] -> exists u p, In (AuthOK u p) pre /\ configured_cred c u p.
  Proof.
    intros Hprov Hserve Hevs0 Hc. subst evs. unfold serve in Hserve.
    destruct (negotiate srv inp) as [ev1 [rest|]] eqn:En.
    - destruct (request srv e rest) as [ev2 fin2] eqn:Er. injection Hserve as Hevs Hfin.
      pose proof (negotiate_quiet _ _ _ _ En) as Hq.
      assert (Hsp : exists pre2, pre = ev1 ++ pre2).
      { clear - Hq Hevs. revert pre Hevs. induction ev1 as [|x l IH]; intros pre Hevs; cbn in *; [eauto|].
        destruct pre as [|y pre]; cbn in Hevs; inversion Hevs; subst.
        - destruct (Hq (Resolve fqdn) (or_introl eq_refl)) as [_ Hr]. discriminate.
        - destruct (IH (fun x Hx => Hq x (or_intror Hx)) pre H1) as [pre2 ->]. eauto. }
      destruct Hsp as [pre2 ->].
      destruct (provision_auth c srv Hprov) as [[Hnil _]|[_ [m [Hm Hok]]]]; [contradiction|].
      destruct (negotiate_ok _ _ _ _ En) as [Hno|(store & u & p & Hin & Hau & Hv)].
      + rewrite Hm in Hno. destruct Hno as [Hno|[]]; discriminate.
      + rewrite Hm in Hin. destruct Hin as [Hin|[]]. inversion Hin; subst store.
        exists u, p. split; [apply in_or_app; left; exact Hau|]. eapply valid_configured; eauto.
    - injection Hserve as Hevs Hfin. exfalso.
      destruct (negotiate_quiet _ _ _ _ En (Resolve fqdn)) as [_ Hr]; [rewrite Hevs; apply in_or_app; right; left; reflexivity|discriminate].
  Qed.
End Prov.

(* ------------------------------------------------------------------ refusals *)
(* the replies by which the server refuses: no acceptable method, authentication failure,
   not allowed by the rule set, command not supported, address type not supported *)
Definition refusal (b : bytes) : Prop :=
  b = [x05; xff] \/ b = [x01; x01] \/ b = reply_fail x02 \/ b = reply_fail x07 \/ b = reply_fail x08.

Definition no_outbound (evs : list event) : Prop := forall ev, In ev evs -> outbound ev = false.
Definition no_refusal (evs : list event) : Prop := forall b, In (Out b) evs -> ~ refusal b.

Ltac in_cases H :=
  cbn in H; repeat match type of H with _ \/ _ => destruct H as [H|H] | False => destruct H end.

Ltac solve_no_outbound := let ev := fresh "ev" in let H := fresh "H" in
  intros ev H; in_cases H; subst; reflexivity.
Ltac solve_no_refusal := let b := fresh "b" in let H := fresh "H" in let R := fresh "R" in
  intros b H R; in_cases H; try discriminate; inversion H; subst;
  unfold refusal, reply_fail, reply_ok in R; repeat destruct R as [R|R]; try discriminate;
  match goal with v : bool |- _ => destruct v; discriminate end.

Lemma dispatch_shape srv e cmd ip port rest evs fin :
  dispatch srv e cmd ip port rest = (evs, fin) -> no_outbound evs \/ no_refusal evs.
Proof.
  unfold dispatch. intro H.
  destruct (negb (allow (srule srv) cmd)); [inversion H; subst; left; solve_no_outbound|].
  destruct (cmd =? 1)%Z.
  { right. destruct (dial e ip port) as [v6| | |]; inversion H; subst; solve_no_refusal. }
  destruct (cmd =? 2)%Z; [inversion H; subst; left; solve_no_outbound|].
  right. destruct (listen_udp e) as [v6|]; inversion H; subst; solve_no_refusal.
Qed.

Lemma request_shape srv e inp evs fin :
  request srv e inp = (evs, fin) -> no_outbound evs \/ no_refusal evs.
Proof.
  unfold request. intro H.
  destruct inp as [|ver [|cmdb r1]]; try (inversion H; subst; left; solve_no_outbound).
  destruct (negb (zb ver =? 5)%Z); [inversion H; subst; left; solve_no_outbound|].
  destruct r1 as [|rsv [|atyp r2]]; try (inversion H; subst; left; solve_no_outbound).
  destruct (zb atyp =? 1)%Z.
  { destruct (read_full 6 r2) as [[a r3]|]; [|inversion H; subst; left; solve_no_outbound].
    destruct (negb (known_cmd (zb cmdb))); [inversion H; subst; left; solve_no_outbound|].
    eapply dispatch_shape; eauto. }
  destruct (zb atyp =? 4)%Z.
  { destruct (read_full 18 r2) as [[a r3]|]; [|inversion H; subst; left; solve_no_outbound].
    destruct (negb (known_cmd (zb cmdb))); [inversion H; subst; left; solve_no_outbound|].
    eapply dispatch_shape; eauto. }
  destruct (zb atyp =? 3)%Z; [|inversion H; subst; left; solve_no_outbound].
  destruct r2 as [|dl r2']; [inversion H; subst; left; solve_no_outbound|].
  destruct (read_full (nat_of_byte dl + 2) r2') as [[a r3]|]; [|inversion H; subst; left; solve_no_outbound].
  destruct (negb (known_cmd (zb cmdb))); [inversion H; subst; left; solve_no_outbound|].
  destruct (firstn (nat_of_byte dl) a) as [|f0 fq] eqn:Ef.
  - eapply dispatch_shape; eauto.
  - destruct (resolve e (f0 :: fq)) as [ip|].
    + destruct (dispatch srv e (zb cmdb) ip (port_of (skipn (nat_of_byte dl) a)) r3) as [ev2 fin2] eqn:Ed.
      inversion H; subst. destruct (dispatch_shape _ _ _ _ _ _ _ _ Ed) as [Hn|Hn].
      * left. intros ev [<-|Hin]; [reflexivity|apply Hn; exact Hin].
      * right. intros b [Hb|Hin]; [discriminate|apply Hn; exact Hin].
    + inversion H; subst. left; solve_no_outbound.
Qed.

Lemma userpass_some_no_refusal store inp evs rest : userpass store inp = (evs, Some rest) -> no_refusal evs.
Proof.
  unfold userpass. intro H.
  destruct inp as [|ver [|ulen r1]]; try discriminate.
  destruct (negb (zb ver =? 1)%Z); [discriminate|].
  destruct (read_full (nat_of_byte ulen) r1) as [[user r2]|]; [|discriminate].
  destruct r2 as [|plen r3]; [discriminate|].
  destruct (read_full (nat_of_byte plen) r3) as [[pass r4]|]; [|discriminate].
  destruct (valid store user pass) eqn:Ev; inversion H; subst.
  intros b Hb R. in_cases Hb; try discriminate; inversion Hb; subst; unfold refusal, reply_fail in R;
    repeat destruct R as [R|R]; discriminate.
Qed.

Lemma negotiate_some_no_refusal srv inp evs rest : negotiate srv inp = (evs, Some rest) -> no_refusal evs.
Proof.
  unfold negotiate. intro H.
  destruct inp as [|ver [|nm r2]]; try discriminate.
  destruct (read_full (nat_of_byte nm) r2) as [[methods r3]|]; [|discriminate].
  destruct (negb (zb ver =? 5)%Z); [discriminate|].
  destruct (select_auth (sauth srv) methods) as [[|store]|] eqn:Es; try discriminate.
  - inversion H; subst. intros b Hb R. in_cases Hb; try discriminate; inversion Hb; subst; unfold refusal, reply_fail in R;
      repeat destruct R as [R|R]; discriminate.
  - eapply userpass_some_no_refusal; eauto.
Qed.

(* a session in which the server sent one of its refusals contains no outbound action *)
Lemma refused_has_no_outbound srv e inp evs fin b :
  serve srv e inp = (evs, fin) -> In (Out b) evs -> refusal b -> no_outbound evs.
Proof.
  unfold serve. intros H Hin R.
  destruct (negotiate srv inp) as [ev1 [rest|]] eqn:En.
  - destruct (request srv e rest) as [ev2 fin2] eqn:Er. injection H as Hevs Hfin. subst evs.
    pose proof (negotiate_quiet _ _ _ _ En) as Hq.
    apply in_app_or in Hin. destruct Hin as [Hin|Hin].
    + exfalso. exact (negotiate_some_no_refusal _ _ _ _ En b Hin R).
    + destruct (request_shape _ _ _ _ _ Er) as [Hn|Hn]; [|exfalso; exact (Hn b Hin R)].
      intros ev Hev. apply in_app_or in Hev. destruct Hev as [Hev|Hev]; [apply (Hq ev Hev)|apply Hn; exact Hev].
  - injection H as Hevs Hfin. subst evs. intros ev Hev. apply (negotiate_quiet _ _ _ _ En ev Hev).
Qed.

(* relaying happens only after the corresponding outbound action *)
Lemma dispatch_relay srv e cmd ip port rest evs fin :
  dispatch srv e cmd ip port rest = (evs, fin) ->
  match fin with
  | EProxy r => In (Dial ip port) evs /\ r = rest
  | EAssoc => exists dip, In (ListenUDP dip port) evs
  | _ => True
  end.
Proof.
  unfold dispatch. intro H.
  destruct (negb (allow (srule srv) cmd)); [inversion H; subst; exact I|].
  destruct (cmd =? 1)%Z.
  { destruct (dial e ip port); inversion H; subst; cbn; auto. }
  destruct (cmd =? 2)%Z; [inversion H; subst; exact I|].
  destruct (listen_udp e); inversion H; subst; cbn; eauto.
Qed.

Lemma relay_needs_outbound srv e inp evs fin :
  serve srv e inp = (evs, fin) ->
  match fin with
  | EProxy _ => exists ip port, In (Dial ip port) evs
  | EAssoc => exists ip port, In (ListenUDP ip port) evs
  | _ => True
  end.
Proof.
  unfold serve. intro H.
  destruct (negotiate srv inp) as [ev1 [rest|]] eqn:En; [|injection H as _ <-; exact I].
  destruct (request srv e rest) as [ev2 fin2] eqn:Er. injection H as Hevs Hfin. subst evs fin2.
  assert (Hreq : match fin with EProxy _ => exists ip port, In (Dial ip port) ev2 | EAssoc => exists ip port, In (ListenUDP ip port) ev2 | _ => True end).
  { clear En. unfold request in Er.
    destruct rest as [|ver [|cmdb r1]]; try (inversion Er; subst; exact I).
    destruct (negb (zb ver =? 5)%Z); [inversion Er; subst; exact I|].
    destruct r1 as [|rsv [|atyp r2]]; try (inversion Er; subst; exact I).
    destruct (zb atyp =? 1)%Z.
    { destruct (read_full 6 r2) as [[a r3]|]; [|inversion Er; subst; exact I].
      destruct (negb (known_cmd (zb cmdb))); [inversion Er; subst; exact I|].
      pose proof (dispatch_relay _ _ _ _ _ _ _ _ Er) as Hd. destruct fin; auto; [destruct Hd; eauto|destruct Hd; eauto]. }
    destruct (zb atyp =? 4)%Z.
    { destruct (read_full 18 r2) as [[a r3]|]; [|inversion Er; subst; exact I].
      destruct (negb (known_cmd (zb cmdb))); [inversion Er; subst; exact I|].
      pose proof (dispatch_relay _ _ _ _ _ _ _ _ Er) as Hd. destruct fin; auto; [destruct Hd; eauto|destruct Hd; eauto]. }
    destruct (zb atyp =? 3)%Z; [|inversion Er; subst; exact I].
    destruct r2 as [|dl r2']; [inversion Er; subst; exact I|].
    destruct (read_full (nat_of_byte dl + 2) r2') as [[a r3]|]; [|inversion Er; subst; exact I].
    destruct (negb (known_cmd (zb cmdb))); [inversion Er; subst; exact I|].
    destruct (firstn (nat_of_byte dl) a) as [|f0 fq] eqn:Ef.
    - pose proof (dispatch_relay _ _ _ _ _ _ _ _ Er) as Hd. destruct fin; auto; [destruct Hd; eauto|destruct Hd; eauto].
    - destruct (resolve e (f0 :: fq)) as [ip|]; [|inversion Er; subst; exact I].
      destruct (dispatch srv e (zb cmdb) ip (port_of (skipn (nat_of_byte dl) a)) r3) as [ev3 fin3] eqn:Ed.
      inversion Er; subst. pose proof (dispatch_relay _ _ _ _ _ _ _ _ Ed) as Hd.
      destruct fin; auto; [destruct Hd; exists ip; eexists; right; eauto|destruct Hd as [dip Hd]; exists dip; eexists; right; exact Hd]. }
  destruct fin; auto.
  - destruct Hreq as (ip & port & Hin). exists ip, port. apply in_or_app; right; exact Hin.
  - destruct Hreq as (ip & port & Hin). exists ip, port. apply in_or_app; right; exact Hin.
Qed.

(* ------------------------------------------------------------------ no fallback to "no authentication" *)
Lemma userpass_first_out store inp evs r : userpass store inp = (evs, r) -> exists tl, evs = Out [x05; x02] :: tl /\ ~ In (Out [x05; x00]) tl.
Proof.
  unfold userpass. intro H.
  destruct inp as [|ver [|ulen r1]]; try (inversion H; subst; eexists; split; [reflexivity|intros []]).
  destruct (negb (zb ver =? 1)%Z); [inversion H; subst; eexists; split; [reflexivity|intros []]|].
  destruct (read_full (nat_of_byte ulen) r1) as [[user r2]|]; [|inversion H; subst; eexists; split; [reflexivity|intros []]].
  destruct r2 as [|plen r3]; [inversion H; subst; eexists; split; [reflexivity|intros []]|].
  destruct (read_full (nat_of_byte plen) r3) as [[pass r4]|]; [|inversion H; subst; eexists; split; [reflexivity|intros []]].
  destruct (valid store user pass); inversion H; subst; eexists; (split; [reflexivity|]); intro Hin; in_cases Hin; discriminate.
Qed.

(* when any credential entry is configured (even one that Provision drops), the server never
   selects "no authentication": the method reply 05 00 is never sent *)
Lemma no_noauth_when_credentials (repl upper : bytes -> bytes) c srv inp evs r :
  provision repl upper c = Some srv -> credentials c <> [] ->
  negotiate srv inp = (evs, r) -> ~ In (Out [x05; x00]) evs.
Proof.
  intros Hprov Hc. destruct (provision_auth repl upper c srv Hprov) as [[Hnil _]|[_ [m [Hm _]]]]; [contradiction|].
  unfold negotiate. rewrite Hm. intro H.
  destruct inp as [|ver [|nm r2]]; try (inversion H; subst; intros []).
  destruct (read_full (nat_of_byte nm) r2) as [[methods r3]|]; [|inversion H; subst; intros []].
  destruct (negb (zb ver =? 5)%Z); [inversion H; subst; intros []|].
  cbn [select_auth] in H. destruct (existsb _ methods).
  - destruct (userpass_first_out _ _ _ _ H) as [tl [-> Hn]]. intros [Heq|Hin]; [discriminate|contradiction].
  - inversion H; subst. intro Hin. in_cases Hin. discriminate.
Qed.

(* ------------------------------------------------------------------ how the request phase ends *)
(* either nothing is written (truncated message or wrong version: the connection is just closed),
   or the last thing written is a failure reply and nothing is relayed, or it is a success reply *)
Lemma dispatch_ends srv e cmd ip port rest evs fin :
  dispatch srv e cmd ip port rest = (evs, fin) ->
  (exists pre c, evs = pre ++ [Out (reply_fail c)] /\ (fin = EErr \/ fin = EDone)) \/
  (exists pre v6, evs = pre ++ [Out (reply_ok v6)] /\ ((exists r, fin = EProxy r) \/ fin = EAssoc)).
Proof.
  unfold dispatch. intro H.
  destruct (negb (allow (srule srv) cmd)); [inversion H; subst; left; exists [], x02; auto|].
  destruct (cmd =? 1)%Z.
  { destruct (dial e ip port) as [v6| | |]; inversion H; subst.
    - right. exists [Dial ip port], v6. split; [reflexivity|left; eauto].
    - left. exists [Dial ip port], x05. auto.
    - left. exists [Dial ip port], x03. auto.
    - left. exists [Dial ip port], x04. auto. }
  destruct (cmd =? 2)%Z; [inversion H; subst; left; exists [], x07; auto|].
  destruct (listen_udp e) as [v6|]; inversion H; subst.
  - right. exists [ListenUDP (pin_source (client_ip e) ip) port], v6. auto.
  - left. exists [ListenUDP (pin_source (client_ip e) ip) port], x01. auto.
Qed.

Lemma request_ends srv e inp evs fin :
  request srv e inp = (evs, fin) ->
  (evs = [] /\ fin = EErr) \/
  (exists pre c, evs = pre ++ [Out (reply_fail c)] /\ (fin = EErr \/ fin = EDone)) \/
  (exists pre v6, evs = pre ++ [Out (reply_ok v6)] /\ ((exists r, fin = EProxy r) \/ fin = EAssoc)).
Proof.
  unfold request. intro H.
  destruct inp as [|ver [|cmdb r1]]; try (inversion H; subst; left; auto; fail).
  destruct (negb (zb ver =? 5)%Z); [inversion H; subst; left; auto|].
  destruct r1 as [|rsv [|atyp r2]]; try (inversion H; subst; left; auto; fail).
  destruct (zb atyp =? 1)%Z.
  { destruct (read_full 6 r2) as [[a r3]|]; [|inversion H; subst; left; auto].
    destruct (negb (known_cmd (zb cmdb))); [inversion H; subst; right; left; exists [], x07; auto|].
    right. eapply dispatch_ends; eauto. }
  destruct (zb atyp =? 4)%Z.
  { destruct (read_full 18 r2) as [[a r3]|]; [|inversion H; subst; left; auto].
    destruct (negb (known_cmd (zb cmdb))); [inversion H; subst; right; left; exists [], x07; auto|].
    right. eapply dispatch_ends; eauto. }
  destruct (zb atyp =? 3)%Z; [|inversion H; subst; right; left; exists [], x08; auto].
  destruct r2 as [|dl r2']; [inversion H; subst; left; auto|].
  destruct (read_full (nat_of_byte dl + 2) r2') as [[a r3]|]; [|inversion H; subst; left; auto].
  destruct (negb (known_cmd (zb cmdb))); [inversion H; subst; right; left; exists [], x07; auto|].
  destruct (firstn (nat_of_byte dl) a) as [|f0 fq] eqn:Ef.
  - right. eapply dispatch_ends; eauto.
  - destruct (resolve e (f0 :: fq)) as [ip|].
    + destruct (dispatch srv e (zb cmdb) ip (port_of (skipn (nat_of_byte dl) a)) r3) as [ev2 fin2] eqn:Ed.
      inversion H; subst. right.
      destruct (dispatch_ends _ _ _ _ _ _ _ _ Ed) as [(pre & c & -> & Hf)|(pre & v6 & -> & Hf)].
      * left. exists (Resolve (f0 :: fq) :: pre), c. auto.
      * right. exists (Resolve (f0 :: fq) :: pre), v6. auto.
    + inversion H; subst. right; left. exists [Resolve (f0 :: fq)], x04. auto.
Qed.

(* after a completed negotiation, a complete request (version 5, assigned address type, whole
   address) for a command the rule set does not allow is answered with a failure reply *)
Lemma disallowed_is_answered srv e ver cmdb rsv a p1 p2 rest evs fin :
  zb ver = 5%Z -> allow (srule srv) (zb cmdb) = false ->
  request srv e (ver :: cmdb :: rsv :: x01 :: a ++ [p1; p2] ++ rest) = (evs, fin) -> length a = 4%nat ->
  exists c, evs = [Out (reply_fail c)] /\ fin = EErr /\ (c = x02 \/ c = x07).
Proof.
  intros Hv Ha H Hl. unfold request in H. rewrite Hv in H. cbn [Z.eqb negb Pos.eqb] in H.
  change (zb x01 =? 1)%Z with true in H. cbn iota in H.
  assert (Hrf : read_full 6 (a ++ [p1; p2] ++ rest) = Some (a ++ [p1; p2], rest)).
  { unfold read_full. rewrite !app_length, Hl. cbn [length Nat.add Nat.ltb Nat.leb].
    replace (a ++ [p1; p2] ++ rest) with ((a ++ [p1; p2]) ++ rest) by (rewrite <- app_assoc; reflexivity).
    rewrite firstn_app, skipn_app, app_length, Hl. cbn [length Nat.add Nat.sub].
    rewrite firstn_all2 by (rewrite app_length, Hl; cbn; lia).
    rewrite skipn_all2 by (rewrite app_length, Hl; cbn; lia). cbn. rewrite app_nil_r. reflexivity. }
  rewrite Hrf in H.
  destruct (known_cmd (zb cmdb)); cbn [negb] in H.
  - unfold dispatch in H. rewrite Ha in H. cbn [negb] in H. inversion H; subst. exists x02. auto.
  - inversion H; subst. exists x07. auto.
Qed.

(* ------------------------------------------------------------------ the UDP relay is pinned to one source address *)
Definition good_ip (ip : bytes) : Prop := ip <> [] /\ ip_unspecified ip = false.

Lemma pin_source_good cip ip : good_ip cip -> good_ip (pin_source (Some cip) ip).
Proof.
  intros [Hne Hun]. unfold pin_source.
  destruct (length ip =? 0)%nat eqn:El; cbn [negb andb].
  - destruct (length cip =? 0)%nat eqn:Ec; cbn [orb].
    + apply Nat.eqb_eq in Ec. destruct cip; [contradiction|discriminate].
    + rewrite Hun. split; assumption.
  - destruct (ip_unspecified ip) eqn:Eu; cbn [negb].
    + destruct (length cip =? 0)%nat eqn:Ec; cbn [orb].
      * apply Nat.eqb_eq in Ec. destruct cip; [contradiction|discriminate].
      * rewrite Hun. split; assumption.
    + split; [|exact Eu]. intros ->. discriminate.
Qed.

Lemma dispatch_listen srv e cmd ip port rest evs fin cip dip dport :
  dispatch srv e cmd ip port rest = (evs, fin) -> client_ip e = Some cip -> good_ip cip ->
  In (ListenUDP dip dport) evs -> good_ip dip.
Proof.
  unfold dispatch. intros H Hc Hg Hin.
  destruct (negb (allow (srule srv) cmd)); [inversion H; subst; in_cases Hin; discriminate|].
  destruct (cmd =? 1)%Z.
  { destruct (dial e ip port); inversion H; subst; in_cases Hin; discriminate. }
  destruct (cmd =? 2)%Z; [inversion H; subst; in_cases Hin; discriminate|].
  rewrite Hc in H.
  destruct (listen_udp e); inversion H; subst; in_cases Hin; try discriminate; inversion Hin; subst; apply pin_source_good; exact Hg.
Qed.

Lemma request_listen srv e inp evs fin cip dip dport :
  request srv e inp = (evs, fin) -> client_ip e = Some cip -> good_ip cip ->
  In (ListenUDP dip dport) evs -> good_ip dip.
Proof.
  unfold request. intros H Hc Hg Hin.
  destruct inp as [|ver [|cmdb r1]]; try (inversion H; subst; destruct Hin; fail).
  destruct (negb (zb ver =? 5)%Z); [inversion H; subst; destruct Hin|].
  destruct r1 as [|rsv [|atyp r2]]; try (inversion H; subst; destruct Hin; fail).
  destruct (zb atyp =? 1)%Z.
  { destruct (read_full 6 r2) as [[a r3]|]; [|inversion H; subst; destruct Hin].
    destruct (negb (known_cmd (zb cmdb))); [inversion H; subst; in_cases Hin; discriminate|].
    eapply dispatch_listen; eauto. }
  destruct (zb atyp =? 4)%Z.
  { destruct (read_full 18 r2) as [[a r3]|]; [|inversion H; subst; destruct Hin].
    destruct (negb (known_cmd (zb cmdb))); [inversion H; subst; in_cases Hin; discriminate|].
    eapply dispatch_listen; eauto. }
  destruct (zb atyp =? 3)%Z; [|inversion H; subst; in_cases Hin; discriminate].
  destruct r2 as [|dl r2']; [inversion H; subst; destruct Hin|].
  destruct (read_full (nat_of_byte dl + 2) r2') as [[a r3]|]; [|inversion H; subst; destruct Hin].
  destruct (negb (known_cmd (zb cmdb))); [inversion H; subst; in_cases Hin; discriminate|].
  destruct (firstn (nat_of_byte dl) a) as [|f0 fq] eqn:Ef.
  - eapply dispatch_listen; eauto.
  - destruct (resolve e (f0 :: fq)) as [ip|].
    + destruct (dispatch srv e (zb cmdb) ip (port_of (skipn (nat_of_byte dl) a)) r3) as [ev2 fin2] eqn:Ed.
      inversion H; subst. destruct Hin as [Hin|Hin]; [discriminate|]. eapply dispatch_listen; eauto.
    + inversion H; subst. in_cases Hin; discriminate.
Qed.

(* whenever the client's IP is known, a relay never accepts every source: a datagram is forwarded
   only if it comes from the one IP the association is pinned to (the client's own, or the one
   the authenticated client announced explicitly) *)
Lemma udp_relay_source_pinned srv e inp evs fin cip dip dport sip sport :
  client_ip e = Some cip -> cip <> [] -> ip_unspecified cip = false ->
  serve srv e inp = (evs, fin) -> In (ListenUDP dip dport) evs ->
  relay_accepts dip dport sip sport = true ->
  ip_unspecified dip = false /\ ip_equal dip sip = true.
Proof.
  intros Hc Hne Hun Hserve Hin Hacc. unfold serve in Hserve.
  destruct (negotiate srv inp) as [ev1 [rest|]] eqn:En.
  - destruct (request srv e rest) as [ev2 fin2] eqn:Er. injection Hserve as Hevs Hfin. subst evs.
    apply in_app_or in Hin. destruct Hin as [Hin|Hin].
    + destruct (negotiate_quiet _ _ _ _ En _ Hin) as [Ho _]. discriminate.
    + destruct (request_listen _ _ _ _ _ _ _ _ Er Hc (conj Hne Hun) Hin) as [_ Hd].
      split; [exact Hd|]. unfold relay_accepts in Hacc. rewrite Hd in Hacc. cbn [orb] in Hacc.
      apply andb_true_iff in Hacc. apply Hacc.
  - injection Hserve as Hevs Hfin. subst evs. destruct (negotiate_quiet _ _ _ _ En _ Hin) as [Ho _]. discriminate.
Qed.

(* an association that announces no address is pinned to the client's IP, whatever the zone of the
   client's address *)
Lemma zoned_client_is_pinned ip zone dst :
  ip <> [] -> ip_unspecified ip = false -> (dst = [] \/ ip_unspecified dst = true) ->
  rewrite (CTcp ip zone) 3 dst = ip.
Proof.
  intros Hne Hun Hd. unfold rewrite, client_ip_of, pin_source. cbn [Z.eqb Pos.eqb].
  assert (Hl : (length ip =? 0)%nat = false) by (destruct ip; [contradiction|reflexivity]).
  rewrite Hl, Hun. cbn [orb].
  destruct Hd as [->|Hd]; [reflexivity|]. rewrite Hd. destruct (length dst =? 0)%nat; reflexivity.
Qed.
