(* Proofs about model/CodecWinbox.v, part 1: FromBytes/FromChunks never panic, Match never panics,
   a No of Match is final for streams whose first chunk is not full. *)
From Coq Require Import List NArith ZArith Bool Arith Lia.
From Coq.Strings Require Import Byte.
From L4.gen Require Import Consts.
From L4.model Require Import GoBase CodecBase CodecWinbox.
From L4.proofs Require Import GoBaseProofs CodecBaseProofs.
Import ListNotations.
Local Open Scope nat_scope.

Lemma wb_consts_ok : wb_chunk_max = 255 /\ wb_chunk_min = 1 /\ wb_auth_min = 37 /\ wb_auth_max = 293 /\ wb_key_sz = 32 /\ wb_stride = 257
  /\ wb_auth_min = 2 + 1 + 1 + wb_key_sz + 1 /\ wb_auth_max = 2 * 2 + 255 + 1 + wb_key_sz + 1.
Proof. vm_compute. repeat split. Qed.

Lemma slice_ok' s a b : a <= b -> b <= length s -> exists r, slice s a b = Some r /\ length r = b - a.
Proof.
  intros H1 H2. unfold slice. destruct (Nat.leb_spec a b); [|lia]. destruct (Nat.leb_spec b (length s)); [|lia]. cbn [andb].
  eexists. split; [reflexivity|]. rewrite firstn_length, skipn_length. lia.
Qed.

Lemma index_ok s i : i < length s -> exists b, index s i = Some b.
Proof. intro H. unfold index. destruct (nth_error s i) eqn:E; [eexists; reflexivity|]. apply nth_error_None in E. lia. Qed.

Lemma index_byte_lt s c : forall i, index_byte s c = Some i -> i < length s.
Proof.
  induction s as [|x r IH]; intros i H; cbn [index_byte] in H; [discriminate|].
  destruct (Byte.eqb x c); [inversion H; cbn; lia|].
  destruct (index_byte r c) as [j|]; [|discriminate]. cbn [option_map] in H. inversion H; subst. specialize (IH j eq_refl). cbn [length]. lia.
Qed.

Lemma read_at_least_some cap min p a r :
  read_at_least cap min p = Some (a, r) -> a = firstn cap p /\ r = skipn cap p /\ min <= length p.
Proof.
  unfold read_at_least. destruct (Nat.ltb_spec (length p) min) as [Hlt|Hge]; [discriminate|]. intro Hs; inversion Hs; subst. repeat split. lia.
Qed.

(* ---- no panic ---- *)
Lemma chunks_from_no_panic fuel : forall first rest, rest <> [] -> chunks_from fuel first rest <> RPanic.
Proof.
  induction fuel as [|f IH]; intros first rest Hne; cbn [chunks_from]; [discriminate|].
  destruct (index_ok rest 0) as [lb Elb]; [destruct rest; [contradiction|cbn; lia]|]. rewrite Elb. cbv beta iota zeta.
  set (len := N.to_nat (bN lb)).
  match goal with |- context [if ?c then Err else _] => destruct c eqn:Ec end. discriminate.
  apply orb_false_iff in Ec; destruct Ec as [Ec E4]; apply orb_false_iff in Ec; destruct Ec as [Ec E3]; apply orb_false_iff in Ec; destruct Ec as [E1 E2].
  apply Nat.ltb_ge in E2.
  destruct (index_ok rest 1) as [ty Ety]; [lia|]. rewrite Ety. cbv beta iota.
  match goal with |- context [if negb ?e then Err else _] => destruct (negb e); cbv beta iota; [discriminate|] end.
  destruct (slice_ok' rest 2 (2 + len)) as (bs & Ebs & _); [lia|lia|]. rewrite Ebs. cbv beta iota.
  destruct (Nat.leb_spec (length rest) wb_stride) as [Hlast|Hnl]; [discriminate|].
  assert (Hsk : skipn wb_stride rest <> []).
  { intro Hnil. apply (f_equal (@length byte)) in Hnil. rewrite skipn_length in Hnil. cbn [length] in Hnil. lia. }
  specialize (IH false (skipn wb_stride rest) Hsk). destruct (chunks_from f false (skipn wb_stride rest)); [discriminate|discriminate|congruence].
Qed.

Lemma auth_of_payload_no_panic src : auth_of_payload src <> RPanic.
Proof.
  unfold auth_of_payload. destruct (index_byte src wb_delim) as [i|] eqn:Ei; [|discriminate].
  apply index_byte_lt in Ei. destruct (Nat.eqb_spec i (length src - 1)) as [E|E]; [discriminate|].
  destruct (slice_ok' src (i + 1) (length src - 1)) as (key & Ek & _); [lia|lia|]. rewrite Ek.
  destruct (index_ok src (length src - 1)) as [par Ep]; [lia|]. rewrite Ep.
  destruct (_ || _ || _ || _); discriminate.
Qed.

Lemma auth_from_chunks_no_panic cs : auth_from_chunks cs <> RPanic.
Proof. unfold auth_from_chunks. destruct (negb _); [discriminate|apply auth_of_payload_no_panic]. Qed.

Lemma auth_from_bytes_no_panic src : auth_from_bytes src <> RPanic.
Proof.
  unfold auth_from_bytes. destruct (Nat.ltb_spec (length src) wb_auth_min) as [H|H]; [discriminate|].
  assert (Hne : src <> []) by (intro E; subst; cbn in H; change wb_auth_min with 37 in H; lia).
  pose proof (chunks_from_no_panic (length src) true src Hne).
  destruct (chunks_from (length src) true src); [apply auth_from_chunks_no_panic|discriminate|congruence].
Qed.

Lemma wb_filters_no_panic c m : wb_filters c m <> Panic.
Proof. unfold wb_filters. repeat match goal with |- context [if ?e then _ else _] => destruct e end; discriminate. Qed.

Theorem wb_match_no_panic c : never_panics (wb_match c).
Proof.
  intro p. unfold wb_match. destruct (read_full 2 p) as [[hdr r1]|]; [|discriminate].
  set (h0 := N.to_nat (bN (nth 0 hdr x00))).
  destruct (_ || _); [discriminate|].
  destruct (Nat.eqb_spec h0 wb_chunk_max) as [E0|E0].
  - destruct (read_at_least (wb_auth_max - 2 + 1) h0 r1) as [[got r2]|] eqn:Era; [|discriminate].
    destruct (wb_auth_max - 2 <? length got); [discriminate|].
    pose proof (auth_from_bytes_no_panic (hdr ++ got)) as Hnp.
    destruct (auth_from_bytes (hdr ++ got)) as [m| |]; [apply wb_filters_no_panic| |congruence].
    destruct (Nat.eqb_spec (length got) wb_chunk_max) as [E1|E1]; [discriminate|].
    apply read_at_least_some in Era. destruct Era as (Eg & _ & Hge). subst got.
    assert (Hn : wb_chunk_max < length (firstn (wb_auth_max - 2 + 1) r1)).
    { rewrite firstn_length in *. change wb_auth_max with 293 in *. change wb_chunk_max with 255 in *. lia. }
    destruct (index_ok (firstn (wb_auth_max - 2 + 1) r1) wb_chunk_max Hn) as [l2 El2]. rewrite El2.
    destruct (_ && _ && _); discriminate.
  - destruct (read_at_least (h0 + 1) h0 r1) as [[got r2]|] eqn:Era; [|discriminate].
    destruct (h0 <? length got); [discriminate|].
    pose proof (auth_from_bytes_no_panic (hdr ++ got)) as Hnp.
    destruct (auth_from_bytes (hdr ++ got)) as [m| |]; [apply wb_filters_no_panic|discriminate|congruence].
Qed.

Lemma wb_alloc_bounded p : (wb_alloc p <= 16 * Z.to_N layer4_MaxMatchingBytes)%N.
Proof. vm_compute. discriminate. Qed.

(* ---- C06, first chunk not full: at most h0 bytes follow the header, anything more is a No ---- *)
Definition wb_first_len (p : list byte) : nat := N.to_nat (bN (nth 0 p x00)).

Theorem wb_no_stable_single c p s : wb_first_len p <> wb_chunk_max -> wb_match c p = No -> wb_match c (p ++ s) = No.
Proof.
  intros Hh. unfold wb_match. destruct (read_full 2 p) as [[hdr r1]|] eqn:E1; [|discriminate].
  rewrite (read_full_app _ _ s _ _ E1).
  assert (Hh0 : nth 0 hdr x00 = nth 0 p x00).
  { apply read_full_some in E1. destruct E1 as [Ep Lh]. subst p. destruct hdr as [|a hdr']; [cbn in Lh; lia|reflexivity]. }
  rewrite Hh0. fold (wb_first_len p). set (h0 := wb_first_len p) in *.
  destruct (_ || _); [reflexivity|].
  destruct (Nat.eqb_spec h0 wb_chunk_max) as [E0|E0]; [contradiction|].
  unfold read_at_least. rewrite app_length.
  destruct (Nat.ltb_spec (length r1) h0) as [Hlt|Hge]; [discriminate|].
  destruct (Nat.ltb_spec (length r1 + length s) h0) as [Hlt2|Hge2]; [lia|].
  rewrite !firstn_length.
  destruct (Nat.ltb_spec h0 (Nat.min (h0 + 1) (length r1))) as [Hn|Hn].
  - intros _. rewrite app_length. destruct (Nat.ltb_spec h0 (Nat.min (h0 + 1) (length r1 + length s))); [reflexivity|lia].
  - assert (Hl : length r1 = h0) by lia.
    destruct s as [|b s'].
    + rewrite !app_nil_r. destruct (Nat.ltb_spec h0 (Nat.min (h0 + 1) (length r1))); [lia|]. tauto.
    + intros _. rewrite app_length. cbn [length]. destruct (Nat.ltb_spec h0 (Nat.min (h0 + 1) (length r1 + S (length s')))); [reflexivity|lia].
Qed.
