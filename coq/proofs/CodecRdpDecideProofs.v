(* MatchRDP.Match against the wire definition, payload part 1: the payload decision splits at the first
   CR LF into a decision on the routing element (cookie / token / custom info, with the filters) and a
   decision on what follows it (negotiation request, correlation info); the latter is characterised
   against an independent reference for every byte string. *)
From Coq Require Import List NArith ZArith Bool Arith Lia.
From Coq.Strings Require Import Byte.
From L4.gen Require Import Consts.
From L4.model Require Import GoBase CodecBase CodecRdp.
From L4.proofs Require Import GoBaseProofs CodecBaseProofs CodecRdpCodecProofs CodecRdpMatchProofs CodecRdpRefProofs.
Import ListNotations.
Local Open Scope nat_scope.

(* ---- the two halves of rdp_decide, copied from the model ---- *)
Definition rdp_routing (c : rdp_cfg) (x : x224) (payload : list byte) (start : nat) : result bool :=
  let cookieHash := firstn (zn l4rdp_RDPCookieHashBytesMax) (rc_hash c) in
  let customInfo := firstn (zn l4rdp_RDPCustomInfoBytesMax) (rc_info c) in
  match cookie_valid c cookieHash payload start with RPanic => RPanic | Err => RPanic | Ok hasCookie =>
  if negb hasCookie && ((0 <? length cookieHash) || is_some (rc_hash_rx c)) then Ok false else
  match (if hasCookie then Ok false else token_valid c x payload start) with RPanic => RPanic | Err => RPanic | Ok hasToken =>
  if negb hasToken && (match rc_ips c with [] => false | _ => true end || match rc_ports c with [] => false | _ => true end) then Ok false else
  match (if hasCookie || hasToken then Ok false else custom_valid c customInfo payload start) with RPanic => RPanic | Err => RPanic | Ok hasCustom =>
  if negb hasCustom && ((0 <? length customInfo) || is_some (rc_info_rx c)) then Ok false else
  if (0 <? start) && negb hasCookie && negb hasToken && negb hasCustom then Ok false else Ok true
  end end end.

Definition rdp_tail (payload : list byte) (start : nat) : verdict :=
  let plen := length payload in
  if start =? plen then Yes else
  if plen <? start + negreq_total then No else
  match slice payload start (start + negreq_total) with None => Panic | Some nb_ =>
  match negreq_from_bytes nb_ with RPanic => Panic | Err => No | Ok r =>
  if negb (negreq_ok r) then No else
  if (N.land (nr_flags r) (Z.to_N l4rdp_RDPNegReqFlagCorrInfo) =? 0)%N then
    (if start + negreq_total <? plen then No else Yes)
  else
  let cstart := start + negreq_total in
  if negb (plen =? cstart + corr_total) then No else
  match slice payload cstart (cstart + corr_total) with None => Panic | Some cb =>
  match corr_from_bytes cb with RPanic => Panic | Err => No | Ok i =>
  match corr_ok i with RPanic => Panic | Err => Panic | Ok true => Yes | Ok false => No end
  end end end end.

Lemma rdp_decide_split c x payload :
  rdp_decide c x payload =
    match rdp_routing c x payload (find_crlf 0 payload) with
    | Ok true => rdp_tail payload (find_crlf 0 payload) | Ok false => No | _ => Panic end.
Proof.
  unfold rdp_decide, rdp_routing. cbv zeta.
  destruct (cookie_valid _ _ _ _) as [hc| |]; try reflexivity.
  destruct (negb hc && _); [reflexivity|].
  destruct (if hc then Ok false else token_valid _ _ _ _) as [ht| |]; try reflexivity.
  destruct (negb ht && _); [reflexivity|].
  destruct (if hc || ht then Ok false else custom_valid _ _ _ _) as [hu| |]; try reflexivity.
  destruct (negb hu && _); [reflexivity|].
  destruct (_ && negb hc && negb ht && negb hu); reflexivity.
Qed.

(* ---- locality: the routing half looks at payload[0:start] only, the other half at payload[start:] ---- *)
Lemma slice_prefix s n : n <= length s -> slice s 0 n = Some (firstn n s).
Proof. intro H. unfold slice. cbn [Nat.leb andb skipn]. destruct (Nat.leb_spec n (length s)); [|lia]. rewrite Nat.sub_0_r. reflexivity. Qed.

Lemma slice_prefix_firstn s n : n <= length s -> slice s 0 n = slice (firstn n s) 0 n.
Proof.
  intro H. rewrite slice_prefix by exact H. rewrite slice_prefix by (rewrite firstn_length; lia).
  rewrite firstn_firstn, Nat.min_id. reflexivity.
Qed.

Lemma rdp_routing_local c x payload start : start <= length payload ->
  rdp_routing c x payload start = rdp_routing c x (firstn start payload) start.
Proof.
  intro H. unfold rdp_routing, cookie_valid, token_valid, custom_valid. rewrite <- (slice_prefix_firstn payload start H). reflexivity.
Qed.

Definition tail_decide (tail : list byte) : verdict := rdp_tail tail 0.

Lemma slice_skip (s : list byte) a b : a <= length s -> slice s a (a + b) = slice (skipn a s) 0 b.
Proof.
  intro H. unfold slice. rewrite skipn_length. cbn [skipn Nat.leb andb].
  replace (a + b - a) with b by lia. rewrite Nat.sub_0_r.
  destruct (Nat.leb_spec a (a + b)); [|lia]. cbn [andb].
  destruct (Nat.leb_spec (a + b) (length s)); destruct (Nat.leb_spec b (length s - a)); try lia; reflexivity.
Qed.

Lemma rdp_tail_local payload start : start <= length payload -> rdp_tail payload start = tail_decide (skipn start payload).
Proof.
  intro H. unfold tail_decide, rdp_tail. cbv zeta. rewrite skipn_length.
  replace (start =? length payload) with (0 =? length payload - start) by (destruct (Nat.eqb_spec start (length payload)); destruct (Nat.eqb_spec 0 (length payload - start)); try lia; reflexivity).
  destruct (0 =? length payload - start); [reflexivity|].
  replace (length payload <? start + negreq_total) with (length payload - start <? 0 + negreq_total)
    by (destruct (Nat.ltb_spec (length payload) (start + negreq_total)); destruct (Nat.ltb_spec (length payload - start) (0 + negreq_total)); try lia; reflexivity).
  destruct (length payload - start <? 0 + negreq_total); [reflexivity|].
  rewrite (slice_skip payload start negreq_total H). change (0 + negreq_total) with negreq_total.
  destruct (slice (skipn start payload) 0 negreq_total) as [nbs|]; [|reflexivity].
  destruct (negreq_from_bytes nbs) as [r| |]; try reflexivity.
  destruct (negb (negreq_ok r)); [reflexivity|].
  replace (start + negreq_total <? length payload) with (negreq_total <? length payload - start)
    by (destruct (Nat.ltb_spec (start + negreq_total) (length payload)); destruct (Nat.ltb_spec negreq_total (length payload - start)); try lia; reflexivity).
  destruct (N.land _ _ =? 0)%N; [reflexivity|].
  replace (length payload =? start + negreq_total + corr_total) with (length payload - start =? negreq_total + corr_total).
  2:{ destruct (Nat.eqb_spec (length payload) (start + negreq_total + corr_total)); destruct (Nat.eqb_spec (length payload - start) (negreq_total + corr_total)); try lia; reflexivity. }
  destruct (Nat.eqb_spec (length payload - start) (negreq_total + corr_total)) as [E|E]; cbn [negb]; [|reflexivity].
  assert (Hs : slice payload (start + negreq_total) (start + negreq_total + corr_total) = slice (skipn start payload) negreq_total (negreq_total + corr_total)).
  { rewrite (slice_skip payload (start + negreq_total) corr_total) by lia.
    rewrite (slice_skip (skipn start payload) negreq_total corr_total) by (rewrite skipn_length; lia).
    rewrite skipn_add. replace (negreq_total + start) with (start + negreq_total) by lia. reflexivity. }
  rewrite Hs. reflexivity.
Qed.

Definition routing_accepts (c : rdp_cfg) (x : x224) (R : list byte) : bool :=
  match rdp_routing c x R (length R) with Ok true => true | _ => false end.

Lemma find_crlf_le0 s : find_crlf 0 s <= length s.
Proof. pose proof (find_crlf_le s 0). lia. Qed.

(* the decision on any payload: routing element up to the first CR LF, then the rest *)
Theorem rdp_decide_iff c x payload :
  rdp_decide c x payload = Yes <->
  routing_accepts c x (firstn (find_crlf 0 payload) payload) = true /\ tail_decide (skipn (find_crlf 0 payload) payload) = Yes.
Proof.
  pose proof (find_crlf_le0 payload) as Hs. set (start := find_crlf 0 payload) in *.
  rewrite rdp_decide_split. fold start. rewrite (rdp_routing_local c x payload start Hs).
  unfold routing_accepts. rewrite firstn_length, Nat.min_l by exact Hs. rewrite (rdp_tail_local payload start Hs).
  destruct (rdp_routing c x (firstn start payload) start) as [[|]| |]; split; try discriminate; try tauto; intros [H _]; discriminate.
Qed.

(* ---- the reference for what follows the routing element ---- *)
Inductive tailmsg :=
| TNone
| TNeg (flags protocols : N)                            (* rdpNegReq *)
| TNegCorr (flags protocols : N) (identity : list byte). (* rdpNegReq with CORRELATION_INFO_PRESENT + rdpCorrelationInfo *)

Definition enc_neg (flags protocols : N) : list byte := [x01; nb flags; x08; x00] ++ N_to_le 4 protocols.
Definition enc_corr (identity : list byte) : list byte := [x06; x00; x24; x00] ++ identity ++ repeat x00 16.
Definition enc_tail (t : tailmsg) : list byte :=
  match t with TNone => [] | TNeg f p => enc_neg f p | TNegCorr f p id => enc_neg f p ++ enc_corr id end.

(* flags: a subset of RESTRICTED_ADMIN (1), REDIRECTED_AUTH (2), CORRELATION_INFO_PRESENT (8);
   protocols: a subset of SSL (1), HYBRID (2), RDSTLS (4), HYBRID_EX (8), RDSAAD (16) where HYBRID needs SSL and
   HYBRID_EX needs HYBRID *)
Definition flags_ok (f : N) : bool := existsb (N.eqb f) [0; 1; 2; 3; 8; 9; 10; 11]%N.
Definition protos_ok (p : N) : bool :=
  (p <? 32)%N && (negb (N.testbit p 3) || N.testbit p 1) && (negb (N.testbit p 1) || N.testbit p 0).
Definition identity_ok (id : list byte) : bool :=
  (length id =? 16) && negb (Byte.eqb (nth 0 id x00) x00) && negb (Byte.eqb (nth 0 id x00) xf4) &&
  forallb (fun b => negb (Byte.eqb b x0d)) id.
Definition wf_tail (t : tailmsg) : Prop :=
  match t with
  | TNone => True
  | TNeg f p => flags_ok f = true /\ N.testbit f 3 = false /\ (p < two32)%N /\ protos_ok p = true
  | TNegCorr f p id => flags_ok f = true /\ N.testbit f 3 = true /\ (p < two32)%N /\ protos_ok p = true /\ identity_ok id = true
  end.

(* the code's formulas are the reference's, on every value a field can hold *)
Fixpoint N_upto (n : nat) : list N := match n with O => [] | S k => N_upto k ++ [N.of_nat k] end.
Lemma N_upto_in n : forall v, (v < N.of_nat n)%N -> In v (N_upto n).
Proof.
  induction n as [|k IH]; intros v Hv; [lia|]. cbn [N_upto]. apply in_or_app.
  destruct (N.eq_dec v (N.of_nat k)) as [E|E]; [right; left; symmetry; exact E|left; apply IH; lia].
Qed.

Definition code_flags_ok (f : N) : bool := (N.lor f (Z.to_N l4rdp_RDPNegReqFlagsAll) =? Z.to_N l4rdp_RDPNegReqFlagsAll)%N.
Definition code_protos_ok (p : N) : bool :=
  (N.lor p (Z.to_N l4rdp_RDPNegReqProtocolsAll) =? Z.to_N l4rdp_RDPNegReqProtocolsAll)%N &&
  negb (N_has p (Z.to_N l4rdp_RDPNegReqProtoHybridEx) && (N.land p (Z.to_N l4rdp_RDPNegReqProtoHybrid) =? 0)%N) &&
  negb (N_has p (Z.to_N l4rdp_RDPNegReqProtoHybrid) && (N.land p (Z.to_N l4rdp_RDPNegReqProtoSSL) =? 0)%N).

Lemma flags_table : forallb (fun f => Bool.eqb (code_flags_ok f) (flags_ok f) &&
                                        Bool.eqb (N.land f (Z.to_N l4rdp_RDPNegReqFlagCorrInfo) =? 0)%N (negb (N.testbit f 3))) (N_upto 256) = true.
Proof. vm_compute. reflexivity. Qed.
Lemma flags_ok_code f : (f < 256)%N -> code_flags_ok f = flags_ok f /\ (N.land f (Z.to_N l4rdp_RDPNegReqFlagCorrInfo) =? 0)%N = negb (N.testbit f 3).
Proof.
  intro H. pose proof flags_table as T. rewrite forallb_forall in T. specialize (T f (N_upto_in 256 f H)).
  apply andb_true_iff in T. destruct T as [T1 T2]. apply eqb_prop in T1. apply eqb_prop in T2. split; assumption.
Qed.

Lemma protos_table : forallb (fun p => Bool.eqb (code_protos_ok p) (protos_ok p)) (N_upto 32) = true.
Proof. vm_compute. reflexivity. Qed.
Lemma lor_31_small p : N.lor p 31 = 31%N -> (p < 32)%N.
Proof.
  intro H. destruct (N.lt_ge_cases p 32) as [|Hge]; [assumption|exfalso].
  assert (Hs : N.shiftr (N.lor p 31) 5 = N.shiftr p 5) by (rewrite N.shiftr_lor; change (N.shiftr 31 5) with 0%N; apply N.lor_0_r).
  rewrite H in Hs. change (N.shiftr 31 5) with 0%N in Hs. rewrite N.shiftr_div_pow2 in Hs. change (2 ^ 5)%N with 32%N in Hs.
  assert (1 <= p / 32)%N by (apply N.div_le_lower_bound; lia). lia.
Qed.
Lemma protos_ok_code p : code_protos_ok p = protos_ok p.
Proof.
  destruct (N.lt_ge_cases p 32) as [Hlt|Hge].
  - pose proof protos_table as T. rewrite forallb_forall in T. specialize (T p (N_upto_in 32 p Hlt)). apply eqb_prop in T. exact T.
  - unfold code_protos_ok, protos_ok. change (Z.to_N l4rdp_RDPNegReqProtocolsAll) with 31%N.
    destruct (N.eqb_spec (N.lor p 31) 31) as [E|E]; [apply lor_31_small in E; lia|].
    destruct (N.ltb_spec p 32); [lia|]. reflexivity.
Qed.

Lemma negreq_ok_ref r : (nr_flags r < 256)%N ->
  negreq_ok r = (nr_type r =? 1)%N && (nr_length r =? 8)%N && flags_ok (nr_flags r) && protos_ok (nr_protocols r).
Proof.
  intro Hf. destruct (flags_ok_code (nr_flags r) Hf) as [F _]. rewrite <- F, <- protos_ok_code.
  unfold negreq_ok, code_flags_ok, code_protos_ok.
  change (Z.to_N l4rdp_RDPNegReqType) with 1%N. change (Z.to_N l4rdp_RDPNegReqLength) with 8%N.
  rewrite <- !andb_assoc. reflexivity.
Qed.

(* ---- tail_decide against the reference, for every byte string ---- *)
Lemma flags_ok_small f : flags_ok f = true -> (f < 256)%N.
Proof.
  unfold flags_ok. cbn [existsb]. intro H. repeat (apply orb_true_iff in H; destruct H as [H|H]; [apply N.eqb_eq in H; subst; reflexivity|]). discriminate.
Qed.

Lemma N_to_le_1 f : (f < 256)%N -> N_to_le 1 f = [nb f].
Proof. intro H. cbn [N_to_le]. rewrite N.mod_small by exact H. reflexivity. Qed.

Lemma enc_neg_codec f p : (f < 256)%N ->
  enc_neg f p = negreq_to_bytes {| nr_type := 1; nr_flags := f; nr_length := 8; nr_protocols := p |}.
Proof. intro H. unfold enc_neg, negreq_to_bytes. cbn [nr_type nr_flags nr_length nr_protocols]. rewrite (N_to_le_1 f H). reflexivity. Qed.

Lemma enc_corr_codec id :
  enc_corr id = corr_to_bytes {| ci_type := 6; ci_flags := 0; ci_length := 36; ci_identity := id; ci_reserved := repeat x00 16 |}.
Proof. reflexivity. Qed.

Lemma enc_neg_length f p : length (enc_neg f p) = 8.
Proof. unfold enc_neg. rewrite app_length, N_to_le_length. reflexivity. Qed.
Lemma enc_corr_length id : length id = 16 -> length (enc_corr id) = 36.
Proof. intro H. unfold enc_corr. rewrite !app_length, H. reflexivity. Qed.

Lemma negreq_from_bytes_wf b r : negreq_from_bytes b = Ok r -> negreq_wf r.
Proof.
  unfold negreq_from_bytes. destruct (negb _); [discriminate|]. destruct (negreq_read b) as [[m t]|] eqn:E; [|discriminate].
  intro H; inversion H; subst. apply negreq_read_spec in E. tauto.
Qed.

Lemma all_zero_repeat (l : list byte) : forallb (fun b => Byte.eqb b x00) l = true -> l = repeat x00 (length l).
Proof.
  induction l as [|a l IH]; [reflexivity|]. cbn [forallb length repeat]. intro H. apply andb_true_iff in H. destruct H as [H1 H2].
  apply byte_eqb_eq in H1. subst a. f_equal. exact (IH H2).
Qed.

Lemma identity_ok_length id : identity_ok id = true -> length id = 16.
Proof. unfold identity_ok. intro H. repeat (apply andb_true_iff in H; destruct H as [H ?]). apply Nat.eqb_eq in H. exact H. Qed.

Lemma corr_ok_ref i : corr_wf i ->
  corr_ok i = Ok ((ci_type i =? 6)%N && (ci_flags i =? 0)%N && (ci_length i =? 36)%N && identity_ok (ci_identity i) &&
                  forallb (fun b => Byte.eqb b x00) (ci_reserved i)).
Proof.
  intros (_ & _ & _ & H4 & _). unfold corr_ok, identity_ok. destruct (ci_identity i) as [|id0 r] eqn:E; [cbn in H4; lia|].
  cbn [index nth_error nth]. rewrite H4, Nat.eqb_refl. f_equal.
  change (Z.to_N l4rdp_RDPCorrInfoType) with 6%N. change (Z.to_N l4rdp_RDPCorrInfoFlags) with 0%N. change (Z.to_N l4rdp_RDPCorrInfoLength) with 36%N.
  change (zb l4rdp_RDPCorrInfoReserved) with x00. change (zb l4rdp_RDPCorrInfoIdentityF4) with xf4. change CR with x0d.
  cbn [andb]. repeat rewrite <- andb_assoc. reflexivity.
Qed.

Lemma tail_decide_unfold tail :
  tail_decide tail =
    if 0 =? length tail then Yes else
    if length tail <? negreq_total then No else
    match slice tail 0 negreq_total with None => Panic | Some nb_ =>
    match negreq_from_bytes nb_ with RPanic => Panic | Err => No | Ok r =>
    if negb (negreq_ok r) then No else
    if (N.land (nr_flags r) (Z.to_N l4rdp_RDPNegReqFlagCorrInfo) =? 0)%N then (if negreq_total <? length tail then No else Yes) else
    if negb (length tail =? negreq_total + corr_total) then No else
    match slice tail negreq_total (negreq_total + corr_total) with None => Panic | Some cb =>
    match corr_from_bytes cb with RPanic => Panic | Err => No | Ok i =>
    match corr_ok i with RPanic => Panic | Err => Panic | Ok true => Yes | Ok false => No end
    end end end end.
Proof. reflexivity. Qed.

Lemma tail_decide_complete t : wf_tail t -> tail_decide (enc_tail t) = Yes.
Proof.
  destruct t as [|f p|f p id]; intro Hwf; [reflexivity| |].
  - destruct Hwf as (Hf & Hb & Hp & Hpo). pose proof (flags_ok_small f Hf) as Hf8.
    rewrite tail_decide_unfold. cbn [enc_tail]. rewrite enc_neg_length. change negreq_total with 8. cbn [Nat.eqb Nat.ltb Nat.leb].
    rewrite slice_prefix by (rewrite enc_neg_length; lia). rewrite <- (enc_neg_length f p) at 1. rewrite firstn_all.
    rewrite (enc_neg_codec f p Hf8). rewrite negreq_from_to by (unfold negreq_wf; cbn; unfold two8, two16; repeat split; try lia; exact Hp).
    rewrite negreq_ok_ref by exact Hf8. cbn [nr_type nr_flags nr_length nr_protocols]. rewrite Hf, Hpo. cbn [N.eqb Pos.eqb andb negb].
    destruct (flags_ok_code f Hf8) as [_ Hc]. rewrite Hc, Hb. reflexivity.
  - destruct Hwf as (Hf & Hb & Hp & Hpo & Hid). pose proof (flags_ok_small f Hf) as Hf8. pose proof (identity_ok_length id Hid) as Lid.
    rewrite tail_decide_unfold. cbn [enc_tail]. rewrite app_length, enc_neg_length, (enc_corr_length id Lid).
    change negreq_total with 8. change corr_total with 36. cbn [Nat.eqb Nat.ltb Nat.leb Nat.add].
    rewrite slice_prefix by (rewrite app_length, enc_neg_length; lia).
    rewrite firstn_app_le by (rewrite enc_neg_length; lia). rewrite <- (enc_neg_length f p) at 1. rewrite firstn_all.
    rewrite (enc_neg_codec f p Hf8). rewrite negreq_from_to by (unfold negreq_wf; cbn; unfold two8, two16; repeat split; try lia; exact Hp).
    rewrite negreq_ok_ref by exact Hf8. cbn [nr_type nr_flags nr_length nr_protocols]. rewrite Hf, Hpo. cbn [N.eqb Pos.eqb andb negb].
    destruct (flags_ok_code f Hf8) as [_ Hc]. rewrite Hc, Hb. cbn [negb].
    rewrite <- (enc_neg_codec f p Hf8).
    assert (Es : slice (enc_neg f p ++ enc_corr id) 8 44 = Some (enc_corr id)).
    { change 44 with (8 + 36). rewrite slice_skip by (rewrite app_length, enc_neg_length; lia).
      rewrite skipn_app_le by (rewrite enc_neg_length; lia). rewrite <- (enc_neg_length f p) at 1. rewrite skipn_all. cbn [app].
      rewrite slice_prefix by (rewrite (enc_corr_length id Lid); lia). rewrite <- (enc_corr_length id Lid) at 1. rewrite firstn_all. reflexivity. }
    rewrite Es. rewrite enc_corr_codec.
    assert (Hcw : corr_wf {| ci_type := 6; ci_flags := 0; ci_length := 36; ci_identity := id; ci_reserved := repeat x00 16 |}).
    { unfold corr_wf. cbn. unfold two8, two16. repeat split; try lia; exact Lid. }
    rewrite (corr_from_to _ Hcw). rewrite (corr_ok_ref _ Hcw). cbn [ci_type ci_flags ci_length ci_identity ci_reserved]. rewrite Hid. reflexivity.
Qed.

Lemma tail_decide_sound tail : tail_decide tail = Yes -> exists t, wf_tail t /\ tail = enc_tail t.
Proof.
  rewrite tail_decide_unfold. destruct (Nat.eqb_spec 0 (length tail)) as [E0|E0].
  { intros _. exists TNone. split; [exact I|]. destruct tail; [reflexivity|cbn in E0; lia]. }
  change negreq_total with 8. change corr_total with 36.
  destruct (Nat.ltb_spec (length tail) 8) as [|H8]; [discriminate|].
  rewrite slice_prefix by exact H8.
  destruct (negreq_from_bytes (firstn 8 tail)) as [r| |] eqn:Er; try discriminate.
  pose proof (negreq_from_bytes_wf _ _ Er) as (Wt & Wf & Wl & Wp). apply negreq_to_from in Er.
  unfold two8 in Wf. rewrite (negreq_ok_ref r Wf). destruct (flags_ok_code (nr_flags r) Wf) as [_ Hc]. rewrite Hc.
  destruct ((nr_type r =? 1)%N && (nr_length r =? 8)%N && flags_ok (nr_flags r) && protos_ok (nr_protocols r)) eqn:Eok; cbn [negb]; [|discriminate].
  apply andb_true_iff in Eok; destruct Eok as [Eok Hpo]; apply andb_true_iff in Eok; destruct Eok as [Eok Hfo]; apply andb_true_iff in Eok; destruct Eok as [Ety Eln].
  apply N.eqb_eq in Ety. apply N.eqb_eq in Eln.
  assert (Eenc : firstn 8 tail = enc_neg (nr_flags r) (nr_protocols r)).
  { rewrite (enc_neg_codec _ _ Wf). rewrite <- Er. destruct r as [ty fl ln pr]. cbn [nr_type nr_length nr_flags nr_protocols] in *. subst. reflexivity. }
  destruct (N.testbit (nr_flags r) 3) eqn:Eb; cbn [negb].
  - destruct (Nat.eqb_spec (length tail) (8 + 36)) as [E44|]; cbn [negb]; [|discriminate].
    change (8 + 36) with 44 in *. change 44 with (8 + 36). rewrite slice_skip by lia.
    rewrite slice_prefix by (rewrite skipn_length; lia).
    replace (firstn 36 (skipn 8 tail)) with (skipn 8 tail) by (symmetry; apply firstn_all2; rewrite skipn_length; lia).
    destruct (corr_from_bytes (skipn 8 tail)) as [i| |] eqn:Ei; try discriminate.
    pose proof (corr_from_bytes_wf _ _ Ei) as Wi. apply corr_to_from in Ei. rewrite (corr_ok_ref i Wi).
    destruct ((ci_type i =? 6)%N && (ci_flags i =? 0)%N && (ci_length i =? 36)%N && identity_ok (ci_identity i) && forallb (fun b => Byte.eqb b x00) (ci_reserved i)) eqn:Eci; [|discriminate]. intros _.
    apply andb_true_iff in Eci; destruct Eci as [Eci Hrs]; apply andb_true_iff in Eci; destruct Eci as [Eci Hid];
    apply andb_true_iff in Eci; destruct Eci as [Eci El]; apply andb_true_iff in Eci; destruct Eci as [Et Ef].
    apply N.eqb_eq in Et. apply N.eqb_eq in Ef. apply N.eqb_eq in El.
    exists (TNegCorr (nr_flags r) (nr_protocols r) (ci_identity i)). split.
    + cbn [wf_tail]. repeat split; assumption.
    + cbn [enc_tail]. rewrite <- Eenc. rewrite enc_corr_codec.
      destruct Wi as (_ & _ & _ & _ & Lr). apply all_zero_repeat in Hrs. rewrite Lr in Hrs.
      replace {| ci_type := 6; ci_flags := 0; ci_length := 36; ci_identity := ci_identity i; ci_reserved := repeat x00 16 |} with i
        by (destruct i as [a b c d e]; cbn [ci_type ci_flags ci_length ci_identity ci_reserved] in *; subst; reflexivity).
      rewrite Ei. symmetry. apply firstn_skipn.
  - destruct (Nat.ltb_spec 8 (length tail)) as [|Hle]; [discriminate|]. intros _.
    exists (TNeg (nr_flags r) (nr_protocols r)). split.
    + cbn [wf_tail]. repeat split; assumption.
    + cbn [enc_tail]. rewrite <- Eenc. symmetry. apply firstn_all2. lia.
Qed.

Theorem tail_decide_iff tail : tail_decide tail = Yes <-> exists t, wf_tail t /\ tail = enc_tail t.
Proof. split; [apply tail_decide_sound|]. intros (t & Hw & E). subst. apply tail_decide_complete. exact Hw. Qed.

(* ---- nothing follows the correlation info (for all configurations and payloads) ---- *)
Lemma enc_tail_length t : wf_tail t -> length (enc_tail t) = match t with TNone => 0 | TNeg _ _ => 8 | TNegCorr _ _ _ => 44 end.
Proof.
  destruct t as [|f p|f p id]; intro H; [reflexivity|apply enc_neg_length|].
  destruct H as (_ & _ & _ & _ & Hid). cbn [enc_tail]. rewrite app_length, enc_neg_length, (enc_corr_length id (identity_ok_length id Hid)). reflexivity.
Qed.

Theorem rdp_decide_yes_tail c x payload : rdp_decide c x payload = Yes ->
  exists t, wf_tail t /\ skipn (find_crlf 0 payload) payload = enc_tail t.
Proof. intro H. apply rdp_decide_iff in H. destruct H as [_ H]. apply tail_decide_sound. exact H. Qed.

Theorem rdp_trailing_after_corrinfo_rejected c x R f p id junk :
  wf_tail (TNegCorr f p id) -> junk <> [] -> find_crlf 0 (R ++ enc_tail (TNegCorr f p id) ++ junk) = length R ->
  rdp_decide c x (R ++ enc_tail (TNegCorr f p id) ++ junk) <> Yes.
Proof.
  intros Hw Hj Hs H. apply rdp_decide_yes_tail in H. destruct H as (t & Hwt & Ht).
  rewrite Hs, skipn_app_le, skipn_all in Ht by lia. cbn [app] in Ht.
  apply (f_equal (@length byte)) in Ht. rewrite app_length, (enc_tail_length _ Hw), (enc_tail_length _ Hwt) in Ht.
  destruct junk; [contradiction|]. cbn [length] in Ht. destruct t; lia.
Qed.

Theorem rdp_trailing_after_negreq_rejected c x R f p junk :
  wf_tail (TNeg f p) -> junk <> [] -> find_crlf 0 (R ++ enc_tail (TNeg f p) ++ junk) = length R ->
  rdp_decide c x (R ++ enc_tail (TNeg f p) ++ junk) <> Yes.
Proof.
  intros Hw Hj Hs H. apply rdp_decide_yes_tail in H. destruct H as (t & Hwt & Ht).
  rewrite Hs, skipn_app_le, skipn_all in Ht by lia. cbn [app] in Ht.
  pose proof Ht as Hl. apply (f_equal (@length byte)) in Hl. rewrite app_length, (enc_tail_length _ Hw), (enc_tail_length _ Hwt) in Hl.
  destruct junk as [|j0 junk']; [contradiction|]. cbn [length] in Hl. destruct t as [|f' p'|f' p' id']; try lia.
  (* 44 bytes starting with this negotiation request: its flags announce no correlation info *)
  cbn [enc_tail] in Ht. destruct Hw as (Hf & Hb & _). destruct Hwt as (Hf' & Hb' & _).
  apply (f_equal (firstn 2)) in Ht. rewrite !firstn_app_le in Ht by (rewrite enc_neg_length; lia). unfold enc_neg in Ht. cbn [app firstn] in Ht.
  inversion Ht as [Hnb]. assert (f = f').
  { rewrite <- (bN_nb f), <- (bN_nb f'), Hnb; [reflexivity|apply flags_ok_small; exact Hf'|apply flags_ok_small; exact Hf]. }
  subst f'. congruence.
Qed.

(* ---- the framing, converse direction: the reference header of a request of 12..259 bytes is accepted ---- *)
Definition hdr_res_eqb (a b : hdr_res) : bool :=
  match a, b with
  | HNo, HNo | HPanic, HPanic => true
  | HOk x p, HOk y q =>
      (x_length x =? x_length y)%N && (x_typecredit x =? x_typecredit y)%N && (x_dstref x =? x_dstref y)%N &&
      (x_srcref x =? x_srcref y)%N && (x_classopts x =? x_classopts y)%N && (p =? q)
  | _, _ => false
  end.

Lemma hdr_res_eqb_ok a x p : hdr_res_eqb a (HOk x p) = true -> a = HOk x p.
Proof.
  destruct a as [| |y q]; cbn [hdr_res_eqb]; try discriminate. intro H.
  repeat (apply andb_true_iff in H; destruct H as [H ?]).
  repeat match goal with Hh : (_ =? _)%N = true |- _ => apply N.eqb_eq in Hh end.
  match goal with Hh : (_ =? _) = true |- _ => apply Nat.eqb_eq in Hh end.
  destruct x, y; cbn in *; subst; reflexivity.
Qed.

Lemma ref_header_table :
  forallb (fun plen => hdr_res_eqb (rdp_header (ref_header (11 + plen))) (HOk (ref_x224 (11 + plen)) plen)) (seq 1 248) = true.
Proof. vm_compute. reflexivity. Qed.

Lemma rdp_header_ref plen : 1 <= plen <= 248 -> rdp_header (ref_header (11 + plen)) = HOk (ref_x224 (11 + plen)) plen.
Proof.
  intro H. pose proof ref_header_table as T. rewrite forallb_forall in T. apply hdr_res_eqb_ok. apply T. apply in_seq. lia.
Qed.

Lemma ref_header_length n : length (ref_header n) = 11.
Proof. unfold ref_header. rewrite app_length, tpkt_to_bytes_length, x224_to_bytes_length. reflexivity. Qed.

Definition rdp_frame (payload : list byte) : list byte := ref_header (11 + length payload) ++ payload.

Lemma rdp_match_framed c payload : 1 <= length payload <= 248 ->
  rdp_match c (rdp_frame payload) = rdp_decide c (ref_x224 (11 + length payload)) payload.
Proof.
  intro H. unfold rdp_match, rdp_frame. rewrite read_full_exact by (rewrite ref_header_length; reflexivity).
  rewrite (rdp_header_ref _ H). rewrite <- (app_nil_r payload) at 2. rewrite read_full_exact by reflexivity. reflexivity.
Qed.

(* ---- MatchRDP.Match = Yes, for every configuration and every byte string ---- *)
Theorem rdp_match_iff_ref c b :
  rdp_match c b = Yes <->
  exists payload, 1 <= length payload <= 248 /\ b = rdp_frame payload /\
    routing_accepts c (ref_x224 (length b)) (firstn (find_crlf 0 payload) payload) = true /\
    exists t, wf_tail t /\ skipn (find_crlf 0 payload) payload = enc_tail t.
Proof.
  split.
  - intro H. destruct (rdp_match_yes_framing c b H) as (payload & Hl & Hb & Hd). exists payload.
    assert (Lb : length b = 11 + length payload) by (rewrite Hb at 1; rewrite app_length, ref_header_length; reflexivity).
    split; [exact Hl|]. split; [unfold rdp_frame; rewrite <- Lb; exact Hb|].
    apply rdp_decide_iff in Hd. destruct Hd as [Hr Ht]. split; [exact Hr|apply tail_decide_sound; exact Ht].
  - intros (payload & Hl & Hb & Hr & t & Hw & Ht). subst b. rewrite (rdp_match_framed c payload Hl).
    unfold rdp_frame in Hr. rewrite app_length, ref_header_length in Hr.
    apply rdp_decide_iff. split; [exact Hr|]. rewrite Ht. apply tail_decide_complete. exact Hw.
Qed.
