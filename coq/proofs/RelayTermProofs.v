(* Lemmas about model/Relay.v (C03), third part: every step decreases a measure, so every
   execution is finite (bounded by the measure of the initial state). *)
From Coq Require Import List Bool Arith Lia.
From Coq.Strings Require Import Byte.
From L4.gen Require Import Shape.
From L4.model Require Import Relay.
From L4.proofs Require Import RelayProofs RelayFinalProofs.
Import ListNotations.

Fixpoint sumn (n : nat) (f : nat -> nat) : nat := match n with O => 0 | S m => sumn m f + f m end.

Lemma sumn_le : forall n f g, (forall i, i < n -> f i <= g i) -> sumn n f <= sumn n g.
Proof.
  induction n as [|n IH]; intros f g H; cbn; [lia|].
  specialize (IH f g (fun i Hi => H i (Nat.lt_lt_succ_r _ _ Hi))). specialize (H n (Nat.lt_succ_diag_r n)). lia.
Qed.

Lemma sumn_lt_at : forall n f g j, j < n -> (forall i, i < n -> f i <= g i) -> f j < g j -> sumn n f < sumn n g.
Proof.
  induction n as [|n IH]; intros f g j Hj H Hlt; [lia|]. cbn.
  assert (Hle : sumn n f <= sumn n g) by (apply sumn_le; intros; apply H; lia).
  destruct (Nat.eq_dec j n) as [->|Hne].
  - lia.
  - assert (sumn n f < sumn n g) by (apply (IH f g j); [lia|intros; apply H; lia|assumption]).
    specialize (H n (Nat.lt_succ_diag_r n)). lia.
Qed.

Lemma sumn_plus_at : forall n f g j d, j < n -> (forall i, i < n -> i <> j -> f i <= g i) -> f j + d <= g j -> sumn n f + d <= sumn n g.
Proof.
  induction n as [|n IH]; intros f g j d Hj H Hd; [lia|]. cbn.
  destruct (Nat.eq_dec j n) as [->|Hne].
  - assert (sumn n f <= sumn n g) by (apply sumn_le; intros; apply H; lia). lia.
  - assert (sumn n f + d <= sumn n g) by (apply (IH f g j d); [lia|intros; apply H; lia|assumption]).
    specialize (H n (Nat.lt_succ_diag_r n) (fun e => Hne (eq_sym e))). lia.
Qed.

Definition b2n (b : bool) : nat := if b then 0 else 1.
Definition pump_pot (n : nat) (pm : pumpst) : nat :=
  match pm with PRead => n + 2 | PWrite _ j => n + 3 + (n - j) | PClose j => 1 + (n - j) | PDone => 0 end.
Definition main_pot (n : nat) (mn : mainst) : nat :=
  match mn with MWait => n + 5 | MCw => n + 4 | MRecv => n + 3 | MDefer j => 2 + (n - j) | MReturned => 1 end.
Definition sock_pot (x : sock) : nat := match x with SClosed => 0 | _ => 1 end.
Definition cp_pot (x : copyst) : nat := match x with CRead => 1 | CHold chk => 2 + 2 * length chk | CDone => 0 end.

Definition upot (s : st) (i : nat) : nat :=
  let u := ups s i in
  5 * length (u_tosend u) + 4 * length (u2p u) + cp_pot (cp u) +
  2 * (length (c_tosend (cl s)) + length (c2p (cl s)) + length (pend (pump (px s)) i)) + length (p2u u) +
  b2n (u_finned u) + b2n (u_eof u) + b2n (u_rst u).

Definition measure (c : cfg) (s : st) : nat :=
  let n := n_up c in
  (n + 3) * length (c_tosend (cl s)) + (n + 2) * length (c2p (cl s)) + length (p2c (cl s)) +
  b2n (c_finned (cl s)) + b2n (c_eof (cl s)) + b2n (c_rst (cl s)) +
  pump_pot n (pump (px s)) + main_pot n (mainp (px s)) + sock_pot (d_sock (cl s)) + sumn n (upot s).

Ltac simp3 := cbn [cl px ups c_tosend c_finned c2p c2p_fin c_rst p2c p2c_fin c_log c_eof d_sock pump chan mainp lossy
                   u_tosend u_finned u2p u2p_fin u_rst p2u p2u_fin u_log u_eof u_sock cp
                   pump_pot main_pot sock_pot cp_pot b2n pend] in *.
Ltac lens := unfold tag in *; rewrite ?app_length, ?map_length, ?firstn_length, ?skipn_length in *.
Ltac updc q i := destruct (Nat.eq_dec q i) as [->|?]; [rewrite ?upd_same in *|rewrite ?upd_other in * by assumption]; simp3.

Lemma leb_S_pend : forall j q (chk : list byte), q <> j ->
  length (if S j <=? q then chk else []) = length (if j <=? q then chk else []).
Proof.
  intros j q chk H. destruct (Nat.leb_spec (S j) q); destruct (Nat.leb_spec j q); try reflexivity; lia.
Qed.

Ltac pointwise := intros q Hq; unfold upot; simp3;
  try (match goal with |- context [upd _ ?i _ q] => updc q i end); lens;
  repeat match goal with H : u_rst _ = _ |- _ => rewrite H end;
  repeat match goal with H : u_finned _ = _ |- _ => rewrite H end;
  repeat match goal with H : u_eof _ = _ |- _ => rewrite H end;
  repeat match goal with H : cp _ = _ |- _ => rewrite H end;
  repeat match goal with H : u2p _ = _ |- _ => rewrite H end; simp3;
  try (rewrite leb_S_pend by assumption); try lia;
  repeat match goal with |- context [?a <=? ?b] => destruct (Nat.leb_spec a b) end; lens; cbn [length] in *; try lia.

Ltac strict_at := unfold upot; simp3; rewrite ?upd_same; simp3;
  repeat match goal with H : _ = false |- _ => rewrite H end;
  repeat match goal with H : cp _ = _ |- _ => rewrite H end;
  repeat match goal with H : u2p _ = _ |- _ => rewrite H end; simp3; lens; cbn [length] in *; try lia.

Ltac sum_le :=
  match goal with |- context [sumn ?n (upot ?s1)] =>
    match goal with |- context [_ < _ + sumn n (upot ?s2)] =>
      assert (Hs : sumn n (upot s1) <= sumn n (upot s2)) by (apply sumn_le; pointwise)
    end
  end.
Ltac sum_lt i :=
  match goal with |- context [sumn ?n (upot ?s1)] =>
    match goal with |- context [_ < _ + sumn n (upot ?s2)] =>
      assert (Hs : sumn n (upot s1) < sumn n (upot s2)) by (apply (sumn_lt_at n _ _ i); [assumption|pointwise|strict_at])
    end
  end.

Lemma step_decreases : forall c s l s', step c s l = Some s' -> measure c s' < measure c s.
Proof.
  intros c s l s' H. destr_st s. unfold measure.
  destruct l; step_cases H; subst; simp3.
  all: try (sum_le; lens; nia).
  all: try match goal with |- context [upd _ ?i _] => sum_lt i; lens; nia end.
  all: try (sum_le; destruct ds; simp3; cbn [is_closed wr_close] in *; try discriminate; lens; nia).
  - (* CopyWrite: the chunk moves from Copy_i to the client's socket *)
    match goal with |- _ + sumn _ (upot ?s1) < _ + sumn _ (upot ?s2) =>
      assert (Hs : sumn (n_up c) (upot s1) + (length ch0 + 1) <= sumn (n_up c) (upot s2)) end.
    { apply (sumn_plus_at _ _ _ i); [assumption| |].
      - intros q Hq Hne. unfold upot. simp3. rewrite !upd_other by assumption. simp3. lia.
      - unfold upot. simp3. rewrite upd_same. simp3. rewrite E0. simp3. lia. }
    lens. nia.
  - (* MainCloseWrite *) sum_le. assert (sock_pot (wr_close ds) = sock_pot ds) by (destruct ds; reflexivity). lia.
Qed.

(* every execution is finite: its length is bounded by the measure of the state it starts from *)
Theorem exec_bounded : forall c ls s s', exec c s ls = Some s' -> length ls + measure c s' <= measure c s.
Proof.
  intros c ls. induction ls as [|l r IH]; intros s s' H; cbn in H.
  - inversion H; subst. cbn. lia.
  - destruct (step c s l) as [s1|] eqn:E; [|discriminate].
    apply step_decreases in E. apply IH in H. cbn [length]. lia.
Qed.


Lemma forallb_false_ex : forall {A} (f : A -> bool) l, forallb f l = false -> exists x, In x l /\ f x = false.
Proof.
  induction l as [|a l IH]; intros H; cbn in H; [discriminate|].
  destruct (f a) eqn:E.
  - destruct (IH H) as [x [Hin Hx]]. exists x. split; [right; assumption|assumption].
  - exists a. split; [left; reflexivity|assumption].
Qed.

(* no deadlock: a state reached without faults either is final or can take a non-fault step *)
Theorem progress_or_final : forall c s,
  compatible c -> reachable_ff c s ->
  final c s \/ exists l s', is_fault l = false /\ step c s l = Some s'.
Proof.
  intros c s Hc Hr. destruct (terminalb c s) eqn:E.
  - left. apply relay_final; try assumption. apply terminalb_sound; assumption.
  - right. unfold terminalb in E. apply forallb_false_ex in E. destruct E as [l [Hin Hl]].
    apply negb_false_iff in Hl. unfold enabled in Hl. destruct (step c s l) as [s'|] eqn:Es; [|discriminate].
    exists l, s'. split; [eapply candidates_no_fault; eassumption|assumption].
Qed.

(* every fault-free execution can be continued, in at most [measure] steps, to one that ends in the
   final state; and it cannot be continued for ever *)
Theorem relay_completes : forall c, compatible c ->
  forall fuel s, reachable_ff c s -> measure c s <= fuel ->
  exists ls s', fault_free ls /\ exec c s ls = Some s' /\ final c s'.
Proof.
  intros c Hc. induction fuel as [|f IH]; intros s Hr Hm.
  - destruct (progress_or_final c s Hc Hr) as [Hf|[l [s' [Hl Hs]]]].
    + exists [], s. split; [constructor|split; [reflexivity|assumption]].
    + apply step_decreases in Hs. lia.
  - destruct (progress_or_final c s Hc Hr) as [Hf|[l [s1 [Hl Hs]]]].
    + exists [], s. split; [constructor|split; [reflexivity|assumption]].
    + assert (Hr1 : reachable_ff c s1) by (eapply reachable_ff_step; eassumption).
      pose proof (step_decreases _ _ _ _ Hs) as Hd.
      destruct (IH s1 Hr1 ltac:(lia)) as [ls [s' [Hff [He Hfin]]]].
      exists (l :: ls), s'. split; [constructor; assumption|]. split; [cbn; rewrite Hs; assumption|assumption].
Qed.
