(* Correspondence checker for C10: each case carries the input, the oracle values and what the
   implementation answered; [check] recomputes the answer with model/Select.v. *)
From Coq Require Import List ZArith NArith Bool String.
From Coq.Strings Require Import Byte.
From L4 Require Import Hex.
From L4.model Require Import Select.
Import ListNotations.
Open Scope Z_scope.

Definition U (ps : list (Z * Z * Z)) (mc mf : Z) (name : string) : upstream :=
  {| peers := map (fun t => match t with (c, u, f) => {| numConns := c; unhealthy := u; fails := f |} end) ps;
     maxConns := mc; maxFails := mf; uname := unhex name |}.

Definition sel_eqb (a b : sel) : bool :=
  match a, b with
  | Sel i, Sel j => Nat.eqb i j
  | Nil, Nil => true
  | Panic, Panic => true
  | _, _ => false
  end.

Inductive c10case :=
| CAvail (u : upstream) (h f a : bool) (t : Z)
| CFirst (pool : list upstream) (obs : sel)
| CRandom (pool : list upstream) (ints : list Z) (obs : sel)
| CLeast (pool : list upstream) (ints : list Z) (obs : sel)
| CRR (pool : list upstream) (robin : Z) (obs : sel) (robin' : Z)
| CIpHash (pool : list upstream) (ip : string) (obs : sel)
| CRChoose (choose : Z) (pool : list upstream) (draws final : list Z) (obs : sel).

Definition check (c : c10case) : bool :=
  match c with
  | CAvail u h f a t =>
      Bool.eqb (healthy u) h && Bool.eqb (full u) f && Bool.eqb (available u) a && (totalConns u =? t)
  | CFirst pool obs => sel_eqb (first pool) obs
  | CRandom pool ints obs => sel_eqb (random pool ints) obs
  | CLeast pool ints obs => sel_eqb (least_conn pool ints) obs
  | CRR pool robin obs robin' =>
      let '(s, r') := round_robin pool robin in sel_eqb s obs && (r' =? robin')
  | CIpHash pool ip obs => sel_eqb (ip_hash pool (unhex ip)) obs
  | CRChoose choose pool draws final obs => sel_eqb (random_choose choose pool draws final) obs
  end.
