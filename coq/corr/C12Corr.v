(* Correspondence checker for C12: each case carries the input and what the implementation
   (library codec, allow list, end-to-end handler, sender) answered; [check] recomputes the answer
   with model/ProxyProto.v. *)
From Coq Require Import String List ZArith NArith Bool.
From Coq.Strings Require Import Byte.
From L4 Require Import Hex.
From L4.model Require Import GoBase ProxyProto.
Import ListNotations.
Open Scope N_scope.

Definition mkNet (bits base ones : N) : ipnet := {| n_bits := bits; n_base := base; n_ones := ones |}.
Definition mkV2 (loc : bool) (proto : N) (b : v2block) (t : list (N * list byte)) : v2spec :=
  {| s_local := loc; s_proto := proto; s_block := b; s_tlvs := t |}.
Definition rules_of (timeout : Z) (nets : list ipnet) : list rule :=
  map (fun n => {| r_net := n; r_timeout := timeout |}) nets.

Inductive obs_parse := OOk (ver cmd : N) (src dst : option addr) (rest : string) | OShort | OBad.
Inductive obs_handle :=
| HOPass (remote local repl_remote repl_local : addr) (data : string)
| HONext (remote local repl_remote repl_local : addr) (data : string)
| HOError.

Inductive c12case :=
| CParse (input : string) (o : obs_parse)
| CSpecV1 (h : v1spec) (out : string)
| CSpecV2 (h : v2spec) (out : string)
| CWriteV1 (src : ip) (sp : N) (dst : ip) (dp : N) (out : string)
| CWriteV2 (cmd : N) (src dst : option addr) (out : option string)
| CTidy (timeout : Z) (nets : list ipnet) (obs : list ipnet)
| CNewConn (timeout : Z) (nets : list ipnet) (remote : addr) (parsed : bool)
| CHandle (timeout : Z) (nets : list ipnet) (remote local : addr) (stream : string) (o : obs_handle)
| CSend (version : N) (recv : bool) (remote local : addr) (stream : string) (o : option string).

Definition subset_nets (a b : list ipnet) : bool :=
  forallb (fun x => existsb (ipnet_eqb x) b) a.
Definition same_nets (a b : list ipnet) : bool := subset_nets a b && subset_nets b a.

Definition view_eqb (v : cview) (remote local rr rl : addr) (data : list byte) : bool :=
  addr_eqb (c_remote v) remote && addr_eqb (c_local v) local &&
  addr_eqb (c_repl_remote v) rr && addr_eqb (c_repl_local v) rl && bytes_eqb (c_stream v) data.

Definition check (c : c12case) : bool :=
  match c with
  | CParse input o =>
      match parse (unhex input), o with
      | POk h rest, OOk ver cmd src dst orest =>
          (h_version h =? ver) && (h_cmd h =? cmd) && oaddr_eqb (h_src h) src && oaddr_eqb (h_dst h) dst
          && bytes_eqb rest (unhex orest)
      | PShort, OShort => true
      | PBad, OBad => true
      | _, _ => false
      end
  | CSpecV1 h out => bytes_eqb (encode_v1 h) (unhex out)
  | CSpecV2 h out => bytes_eqb (encode_v2 h) (unhex out)
  | CWriteV1 src sp dst dp out => bytes_eqb (lib_write_v1 src sp dst dp) (unhex out)
  | CWriteV2 cmd src dst out =>
      match lib_write_v2 cmd src dst, out with
      | Some b, Some o => bytes_eqb b (unhex o)
      | None, None => true
      | _, _ => false
      end
  | CTidy timeout nets obs =>
      (* sort.Slice leaves the order of equal keys open: the rule SET is the observable *)
      same_nets (map r_net (tidy_rules (rules_of timeout nets))) obs && same_nets nets obs
      && Nat.eqb (length (tidy_rules (rules_of timeout nets))) (length obs)
  | CNewConn timeout nets remote parsed =>
      Bool.eqb (match new_conn timeout (tidy_rules (rules_of timeout nets)) remote with Some _ => true | None => false end) parsed
  | CHandle timeout nets remote local stream o =>
      match handle timeout (tidy_rules (rules_of timeout nets)) (wrap_connection remote local (unhex stream)), o with
      | HPass v, HOPass r l rr rl d => view_eqb v r l rr rl (unhex d)
      | HNext v, HONext r l rr rl d => view_eqb v r l rr rl (unhex d)
      | HError, HOError => true
      | _, _ => false
      end
  | CSend version recv remote local stream o =>
      (* recv: the proxy_protocol handler (no allow list) runs in front of the proxy handler *)
      let cv0 := wrap_connection remote local (unhex stream) in
      let down := if recv then match handle 0%Z [] cv0 with HNext v => Some v | HPass v => Some v | HError => None end
                  else Some cv0 in
      match match down with Some v => upstream_bytes version v | None => None end, o with
      | Some b, Some ob => bytes_eqb b (unhex ob)
      | None, None => true
      | _, _ => false
      end
  end.
