(* Correspondence checker for the OpenVPN codecs + matcher, the DNS matcher and the QUIC gate
   (engines movpn / mdns / mquic).  Each case carries the input, what the delegated primitives
   (HMAC, AES-CTR, dns.Msg.Unpack, regexp) answered on the values the implementation passed them,
   and what the implementation answered; [check] recomputes the answer with the models. *)
From Coq Require Import List ZArith NArith Bool String Arith.
From Coq.Strings Require Import Byte.
From L4 Require Import Hex.
From L4.gen Require Import Consts.
From L4.model Require Import GoBase CodecOpenVpn MatchOpenVpn MatchDns.
Import ListNotations.
Open Scope Z_scope.

Definition hx (s : string) : list byte := unhex s.
Definition zN (z : Z) : N := Z.to_N z.
Definition znat (z : Z) : nat := Z.to_nat z.

(* ---- flattened results of FromBytes* ---- *)
Inductive fres := FOk (ints : list Z) (blobs : list string) | FErr (code : Z) | FPanic.

Definition err_code (e : oerr) : Z :=
  match e with ErrInvalidSourceLength => 0 | ErrInvalidHeaderOpcode => 1 | ErrInvalidHMACLength => 2 end.

Fixpoint zs_eqb (a b : list Z) : bool :=
  match a, b with
  | [], [] => true
  | x :: a', y :: b' => (x =? y) && zs_eqb a' b'
  | _, _ => false
  end.
Fixpoint blobs_eqb (a : list (list byte)) (b : list string) : bool :=
  match a, b with
  | [], [] => true
  | x :: a', y :: b' => bytes_eqb x (hx y) && blobs_eqb a' b'
  | _, _ => false
  end.

Definition flat := (list Z * list (list byte))%type.
Definition nz (n : N) : Z := Z.of_N n.
Definition flat_header (h : header) : flat := ([nz (opcode h); nz (keyid h)], []).
Definition flat_plain (m : plain) : flat :=
  ([nz (opcode (p_hdr m)); nz (keyid (p_hdr m)); nz (p_sid m); nz (p_prev m); nz (p_pid m)], []).
Definition flat_auth (m : auth) : flat :=
  ([nz (opcode (a_hdr m)); nz (keyid (a_hdr m)); nz (a_sid m); nz (a_rpid m); nz (a_rts m); nz (a_prev m); nz (a_pid m)], [a_hmac m]).
Definition flat_crypt (m : crypt) : flat :=
  ([nz (opcode (c_hdr m)); nz (keyid (c_hdr m)); nz (c_sid m); nz (c_rpid m); nz (c_rts m); nz (c_prev m); nz (c_pid m)], [c_hmac m; c_enc m]).
Definition flat_wkey (k : wkey) : flat := ([], [w_hmac k; w_enc k]).
Definition flat_crypt2 (m : crypt2) : flat :=
  (fst (flat_crypt (r_crypt m)), snd (flat_crypt (r_crypt m)) ++ snd (flat_wkey (r_wk m))).

Definition res_matches {A} (fl : A -> flat) (r : res A) (obs : fres) : bool :=
  match r, obs with
  | ROk a, FOk i b => zs_eqb (fst (fl a)) i && blobs_eqb (snd (fl a)) b
  | RErr e, FErr c => err_code e =? c
  | RPanic, FPanic => true
  | _, _ => false
  end.
Definition tobytes_matches {A} (tb : A -> list byte) (r : res A) (obs : string) : bool :=
  match r with ROk a => bytes_eqb (tb a) (hx obs) | _ => true end.

Definition hdr_of (b : Z) : header :=
  {| keyid := N.land (zN b) keyid_mask; opcode := N.shiftr (zN b) op_shift |}.

(* builders from flattened field lists (ToBytes cases) *)
Definition nthz (l : list Z) (i : nat) : N := zN (nth i l 0).
Definition nthb (l : list string) (i : nat) : list byte := hx (nth i l EmptyString).
Definition mk_header (i : list Z) : header := {| opcode := nthz i 0; keyid := nthz i 1 |}.
Definition mk_plain (i : list Z) : plain :=
  {| p_hdr := mk_header i; p_sid := nthz i 2; p_prev := nthz i 3; p_pid := nthz i 4 |}.
Definition mk_auth (i : list Z) (b : list string) : auth :=
  {| a_hdr := mk_header i; a_sid := nthz i 2; a_hmac := nthb b 0; a_rpid := nthz i 3; a_rts := nthz i 4;
     a_prev := nthz i 5; a_pid := nthz i 6 |}.
Definition mk_crypt (i : list Z) (b : list string) : crypt :=
  {| c_hdr := mk_header i; c_sid := nthz i 2; c_rpid := nthz i 3; c_rts := nthz i 4; c_hmac := nthb b 0; c_enc := nthb b 1;
     c_prev := nthz i 5; c_pid := nthz i 6 |}.
Definition mk_wkey (b : list string) (o : nat) : wkey := {| w_hmac := nthb b o; w_enc := nthb b (S o) |}.
Definition mk_crypt2 (i : list Z) (b : list string) : crypt2 := {| r_crypt := mk_crypt i b; r_wk := mk_wkey b 2 |}.

(* ---- crypto answers observed on the implementation ---- *)
Definition hm_entry := (Z * string * string * string)%type.      (* digest, key, plain, HMAC *)
Definition ae_entry := (string * string * string * string)%type. (* key, iv, data, output *)
Fixpoint hm_lookup (t : list hm_entry) (d : nat) (k p : list byte) : list byte :=
  match t with
  | [] => []
  | (d', k', p', o) :: r =>
      if (Z.of_nat d =? d') && bytes_eqb k (hx k') && bytes_eqb p (hx p') then hx o else hm_lookup r d k p
  end.
Fixpoint ae_lookup (t : list ae_entry) (k iv e : list byte) : list byte :=
  match t with
  | [] => []
  | (k', iv', e', o) :: r =>
      if bytes_eqb k (hx k') && bytes_eqb iv (hx iv') && bytes_eqb e (hx e') then hx o else ae_lookup r k iv e
  end.

Definition mk_skey (t : bool * bool * string) : skey :=
  match t with (bi, inv, kb) => {| k_bidi := bi; k_inverse := inv; k_bytes := hx kb |} end.
Definition optz (z : Z) : option nat := if z <? 0 then None else Some (znat z).
Definition zopt (o : option nat) : Z := match o with Some n => Z.of_nat n | None => -1 end.

(* OC modes(plain auth crypt crypt2) ignore_crypto ignore_timestamp groupkey(bidi,inverse,bytes) auth_digest
      client_keys(static, hmac, enc) server_key *)
Inductive ocfg := OC (pl au cr c2 igc igt : bool) (gk : option (bool * bool * string)) (ad : Z)
                     (cks : list (string * string * string)) (sk : option string).
Definition mk_cfg (o : ocfg) : cfg :=
  match o with
  | OC pl au cr c2 igc igt gk ad cks sk =>
      {| acc_plain := pl; acc_auth := au; acc_crypt := cr; acc_crypt2 := c2; ign_crypto := igc; ign_ts := igt;
         gk_auth := option_map mk_skey gk;
         gk_crypt := option_map (fun t => match t with (_, _, kb) => mk_skey (false, false, kb) end) gk;
         auth_digest := optz ad;
         client_keys := map (fun t => match t with (st, hm, en) =>
                                {| ck_static := mk_skey (false, false, st); ck_wk := {| w_hmac := hx hm; w_enc := hx en |} |} end) cks;
         server_key := option_map (fun kb => mk_skey (false, false, kb)) sk |}
  end.

Definition vcode (v : verdict) : Z := match v with Yes => 0 | No => 1 | More => 2 | Fail => 3 | Panic => 4 end.

(* ---- DNS ---- *)
Definition drule := (string * string * string * string * string * string)%type. (* class class_re name name_re type type_re *)
Definition mk_rule (t : drule) : rule :=
  match t with (c, cr, n, nr, ty, tr) =>
    {| r_class := hx c; r_class_re := hx cr; r_name := hx n; r_name_re := hx nr; r_type := hx ty; r_type_re := hx tr |} end.
Definition dq := (string * option string * option string)%type.
Definition mk_q (t : dq) : question :=
  match t with (n, c, ty) => {| q_name := hx n; q_class := option_map hx c; q_type := option_map hx ty |} end.
(* UOk len questions response rcode zero *)
Inductive dunpack := UErr | UOk (len : Z) (qs : list dq) (resp : bool) (rcode : Z) (zero : bool).
Definition mk_unpack (u : dunpack) : option dnsmsg :=
  match u with
  | UErr => None
  | UOk l qs r rc z => Some {| d_len := znat l; d_questions := map mk_q qs; d_response := r; d_rcode := zN rc; d_zero := z |}
  end.
Definition re_entry := (string * string * bool)%type.
Fixpoint re_lookup (t : list re_entry) (pat s : list byte) : bool :=
  match t with
  | [] => false
  | (p', s', o) :: r => if bytes_eqb pat (hx p') && bytes_eqb s (hx s') then o else re_lookup r pat s
  end.

(* ---- cases ---- *)
Inductive ocase :=
(* the constants the models write out, as the Go compiler evaluates them *)
| KConsts (ovpn : list Z) (digests : list Z) (sizes : list Z) (dns : list Z)
(* FromBytes (headless=false) or FromBytesHeadless (header byte [hb]) of type [ty] on [src]; ToBytes of the parsed value *)
| KFrom (ty : Z) (headless : bool) (hb : Z) (src : string) (obs : fres) (tobytes : string)
(* ToBytes of a value built from field values *)
| KTo (ty : Z) (ints : list Z) (blobs : list string) (obs : string)
(* ToBytesAuth *)
| KToAuth (ty : Z) (ints : list Z) (blobs : list string) (obs : string)
(* MatchOpenVPN.Match *)
| KMatch (c : ocfg) (ld : Z) (tcp : bool) (now : Z) (hm : list hm_entry) (ae : list ae_entry) (input : string) (obs : Z) (ld' : Z)
(* key selectors of crypto.go: which (0 client auth, 1 client encrypt, 2 client decrypt, 3 server auth), size, result (None = panic) *)
| KKey (k : bool * bool * string) (which : Z) (size : Z) (obs : option string)
(* MatchDNS.Match: [mb] is the message buffer handed to Unpack and [u] what it returned *)
| KDns (al dn : list drule) (dd pa : bool) (tcp : bool) (input : string) (mb : string) (u : dunpack) (re : list re_entry) (obs : Z)
| KQuic (udp : bool) (input : string) (obs : Z).

Definition from_check (ty : Z) (headless : bool) (hb : Z) (src : list byte) (obs : fres) (tb : string) : bool :=
  let h := hdr_of hb in
  match ty with
  | 0 => let r := header_from_bytes src in res_matches flat_header r obs && tobytes_matches header_to_bytes r tb
  | 1 => let r := if headless then plain_from_headless src h else plain_from_bytes src in
         res_matches flat_plain r obs && tobytes_matches plain_to_bytes r tb
  | 2 => let r := if headless then auth_from_headless src h else auth_from_bytes src in
         res_matches flat_auth r obs && tobytes_matches auth_to_bytes r tb
  | 3 => let r := if headless then crypt_from_headless src h else crypt_from_bytes src in
         res_matches flat_crypt r obs && tobytes_matches crypt_to_bytes r tb
  | 4 => let r := wkey_from_bytes src in res_matches flat_wkey r obs && tobytes_matches wkey_to_bytes r tb
  | 5 => let r := if headless then crypt2_from_headless src h else crypt2_from_bytes src in
         res_matches flat_crypt2 r obs && tobytes_matches crypt2_to_bytes r tb
  | _ => false
  end.

Definition to_check (ty : Z) (i : list Z) (b : list string) (obs : list byte) : bool :=
  match ty with
  | 0 => bytes_eqb (header_to_bytes (mk_header i)) obs
  | 1 => bytes_eqb (plain_to_bytes (mk_plain i)) obs
  | 2 => bytes_eqb (auth_to_bytes (mk_auth i b)) obs
  | 3 => bytes_eqb (crypt_to_bytes (mk_crypt i b)) obs
  | 4 => bytes_eqb (wkey_to_bytes (mk_wkey b 0)) obs
  | 5 => bytes_eqb (crypt2_to_bytes (mk_crypt2 i b)) obs
  | _ => false
  end.

Definition optb_eqb (a : option (list byte)) (b : option string) : bool :=
  match a, b with
  | Some x, Some y => bytes_eqb x (hx y)
  | None, None => true
  | _, _ => false
  end.

Definition consts_model : list Z :=
  map Z.of_nat [plain_hl; plain_total; auth_min_hl; auth_min; auth_max_hl; auth_max; crypt_hl; crypt_total;
                crypt2_min_hl; crypt2_min; crypt2_max_hl; crypt2_max; wk_min; wk_max; md_payload_max;
                auth_hmac_min; auth_hmac_max; crypt_hmac; digest_default; cipher_block; cipher_key]%nat.

Definition check (c : ocase) : bool :=
  match c with
  | KConsts ov dg szs dn =>
      (* each engine reports the constants of its own package; an empty list = not reported by this engine *)
      match ov with [] => true | _ =>
        zs_eqb consts_model ov && zs_eqb (map Z.of_nat auth_digests) dg && zs_eqb (map Z.of_nat auth_digest_sizes) szs end &&
      match dn with [] => true | _ => zs_eqb (map Z.of_nat [dns_hdr; dns_max_msg; dns_min_msg; quic_min; quic_max]%nat) dn end
  | KFrom ty hl hb src obs tb => from_check ty hl hb (hx src) obs tb
  | KTo ty i b obs => to_check ty i b (hx obs)
  | KToAuth ty i b obs =>
      match ty with
      | 2 => bytes_eqb (auth_to_bytes_auth (mk_auth i b)) (hx obs)
      | 3 => bytes_eqb (crypt_to_bytes_auth (mk_crypt i b)) (hx obs)
      | _ => false
      end
  | KMatch oc ld tcp now hm ae input obs ld' =>
      let '(v, l') := ovpn_match (hm_lookup hm) (ae_lookup ae) now (mk_cfg oc) (optz ld) tcp (hx input) in
      (vcode v =? obs) && (zopt l' =? ld')
  | KKey k which size obs =>
      let sk := mk_skey k in
      let r := match which with
               | 0 => client_auth_key sk (znat size)
               | 1 => client_encrypt_key sk (znat size)
               | 2 => client_decrypt_key sk (znat size)
               | _ => server_auth_key sk (znat size)
               end in
      optb_eqb r obs
  | KDns al dn dd pa tcp input mb u re obs =>
      let cfg := {| allow := map mk_rule al; deny := map mk_rule dn; default_deny := dd; prefer_allow := pa |} in
      let unpack := fun buf => if bytes_eqb buf (hx mb) then mk_unpack u else None in
      vcode (dns_match unpack (re_lookup re) cfg tcp (hx input)) =? obs
  | KQuic udp input obs =>
      match quic_gate udp (hx input) with
      | GNo => obs =? 1
      | GMore => obs =? 2
      | GPass _ => (obs =? 0) || (obs =? 1)     (* behind the gate: quic-go decides *)
      end
  end.
