(* Correspondence checker for the OpenVPN codecs + matcher, the DNS matcher and the QUIC gate
   (engines movpn / mdns / mquic).  Each case carries the input, what the delegated primitives
   (HMAC, AES-CTR, dns.Msg.Unpack, regexp) answered on the values the implementation passed them,
   and what the implementation answered; [check] recomputes the answer with the models. *)
From Coq Require Import List ZArith NArith Bool String Arith.
From Coq.Strings Require Import Byte.
From L4 Require Import Hex.
From L4.gen Require Import Consts.
From L4.model Require Import GoBase CodecOpenVpn MatchOpenVpn MatchDns.
Import ListNotations.
Open Scope Z_scope.

Definition hx (s : string) : list byte := unhex s.
Definition zN (z : Z) : N := Z.to_N z.
Definition znat (z : Z) : nat := Z.to_nat z.

(* ---- flattened results of FromBytes* ---- *)
Inductive fres := FOk (ints : list Z) (blobs : list string) | FErr (code : Z) | FPanic.

Definition err_code (e : oerr) : Z :=
  match e with ErrInvalidSourceLength => 0 | ErrInvalidHeaderOpcode => 1 | ErrInvalidHMACLength => 2 end.

Fixpoint zs_eqb (a b : list Z) : bool :=
  match a, b with
  | [], [] => true
  | x :: a', y :: b' => (x =? y) && zs_eqb a' b'
  | _, _ => false
  end.
Fixpoint blobs_eqb (a : list (list byte)) (b : list string) : bool :=
  match a, b with
  | [], [] => true
  | x :: a', y :: b' => bytes_eqb x (hx y) && blobs_eqb a' b'
  | _, _ => false
  end.

Definition flat := (list Z * list (list byte))%type.
Definition nz (n : N) : Z := Z.of_N n.
Definition flat_header (h : header) : flat := ([nz (opcode h); nz (keyid h)], []).
Definition flat_plain (m : plain) : flat :=
  ([nz (opcode (p_hdr m)); nz (keyid (p_hdr m)); nz (p_sid m); nz (p_prev m); nz (p_pid m)], []).
Definition flat_auth (m : auth) : flat :=
  ([nz (opcode (a_hdr m)); nz (keyid (a_hdr m)); nz (a_sid m); nz (a_rpid m); nz (a_rts m); nz (a_prev m); nz (a_pid m)], [a_hmac m]).
Definition flat_crypt (m : crypt) : flat :=
  ([nz (opcode (c_hdr m)); nz (keyid (c_hdr m)); nz (c_sid m); nz (c_rpid m); nz (c_rts m); nz (c_prev m); nz (c_pid m)], [c_hmac m; c_enc m]).
Definition flat_wkey (k : wkey) : flat := ([], [w_hmac k; w_enc k]).
Definition flat_crypt2 (m : crypt2) : flat :=
  (fst (flat_crypt (r_crypt m)), snd (flat_crypt (r_crypt m)) ++ snd (flat_wkey (r_wk m))).

Definition res_matches {A} (fl : A -> flat) (r : res A) (obs : fres) : bool :=
  match r, obs with
  | ROk a, FOk i b => zs_eqb (fst (fl a)) i && blobs_eqb (snd (fl a)) b
  | RErr e, FErr c => err_code e =? c
  | RPanic, FPanic => true
  | _, _ => false
  end.
Definition tobytes_matches {A} (tb : A -> list byte) (r : res A) (obs : string) : bool :=
  match r with ROk a => bytes_eqb (tb a) (hx obs) | _ => true end.

Definition hdr_of (b : Z) : header :=
  {| keyid := N.land (zN b) keyid_mask; opcode := N.shiftr (zN b) op_shift |}.

(* builders from flattened field lists (ToBytes cases) *)
Definition nthz (l : list Z) (i : nat) : N := zN (nth i l 0).
Definition nthb (l : list string) (i : nat) : list byte := hx (nth i l EmptyString).
Definition mk_header (i : list Z) : header := {| opcode := nthz i 0; keyid := nthz i 1 |}.
Definition mk_plain (i : list Z) : plain :=
  {| p_hdr := mk_header i; p_sid := nthz i 2; p_prev := nthz i 3; p_pid := nthz i 4 |}.
Definition mk_auth (i : list Z) (b : list string) : auth :=
  {| a_hdr := mk_header i; a_sid := nthz i 2; a_hmac := nthb b 0; a_rpid := nthz i 3; a_rts := nthz i 4;
     a_prev := nthz i 5; a_pid := nthz i 6 |}.
Definition mk_crypt (i : list Z) (b : list string) : crypt :=
  {| c_hdr := mk_header i; c_sid := nthz i 2; c_rpid := nthz i 3; c_rts := nthz i 4; c_hmac := nthb b 0; c_enc := nthb b 1;
     c_prev := nthz i 5; c_pid := nthz i 6 |}.
Definition mk_wkey (b : list string) (o : nat) : wkey := {| w_hmac := nthb b o; w_enc := nthb b (S o) |}.
Definition mk_crypt2 (i : list Z) (b : list string) : crypt2 := {| r_crypt := mk_crypt i b; r_wk := mk_wkey b 2 |}.

(* ---- crypto answers observed on the implementation ---- *)
Definition hm_entry := (Z * string * string * string)%type.      (* digest, key, plain, HMAC *)
Definition ae_entry := (string * string * string * string)%type. (* key, iv, data, output *)
Fixpoint hm_lookup (t : list hm_entry) (d : nat) (k p : list byte) : list byte :=
  match t with
  | [] => []
  | (d', k', p', o) :: r =>
      if (Z.of_nat d =? d') && bytes_eqb k (hx k') && bytes_eqb p (hx p') then hx o else hm_lookup r d k p
  end.
Fixpoint ae_lookup (t : list ae_entry) (k iv e : list byte) : list byte :=
  match t with
  | [] => []
  | (k', iv', e', o) :: r =>
      if bytes_eqb k (hx k') && bytes_eqb iv (hx iv') && bytes_eqb e (hx e') then hx o else ae_lookup r k iv e
  end.

(* the keys the engine provisions (generated from a fixed seed, independent of VERIF_SEED); cases refer to them
   by index, and the KKeyTab case checks on every run that the engine still uses exactly these *)
Definition key_tab : list (list byte) := map hx ([
  "d7b4a45941466bff31bce7fd03fe6dc72b4d6d853f6f2ec0c28ff64eaaa762b6607147113c95edd91bd194b27a5a929a8582a99ba2b8bd31e1e507b7e6811d50b122a81edff7775b58fdfd671dc6a37cc8e72813f2069ee5e657463be123b07f0a1956d50cd2abb292b10762f470dfab44a0cbe36031477edc3230231f754ac71f608017efe191e92ec3d4ea5e78b79731995275ef5b5610573c71bedca99e44739f68600c712a714108f716908adc8944160349fb5989f1f193c30946a05ec33963acd058a6a8cd8768123f5bdef2131268adadc85099ae5b95d305586a52d3a3b579baee03a0aed95c305b6a4bf3069253e78338c28a9a576ccbdcb65389da";
  "b92b86e427525844d7d7e06438ee3a7e1957b50d33163e45c620e6c5e04c056be21b2e03687f0f4c1250a31d26664cfd580c54f1828a4429a01824054a968c21bef5420b85759911264e92df7d69a37b73990ecea39bf0f362b03b7cbc695c8dea581a0c39675aa265c62c6d703a3bace476eba65c9914dddd5f0efd6f795e5c";
  "c2667d69bf82b1d1740fef6b21b209e1ad82baaf667006666a218de08c824c9dab55d5fecde0472d276b8c25667510ce882e26b20118bd6bde62de4ab94c49146aa2a814ac69f7e44f5ae0db0792c54dc76b9ed93d8557a31acf28ae9bd83535cd294c25ce1e6ef7cd22def24cdab195de55ce1940d4c57e8052f9f02bfb9620d401f3f25490716ea3cfb470a4a65c8a3325f2d981c777d406f7c65198fde67692689e66a0e7b732f96514515199a92888e2e738a3f2d28d16b85f82cfbee7a7cc77e61ec86c6621e8e16bce1f1e3d461b72ff367a0de650df83916d262fcad7ae23bb52991b8a37d73d7572411a00f485910d0dc1220dd1504a526d335a4cb6";
  "195759f2c1057f65805f07503e78ae48875b40eb9b77ae97d8d8efaaeabac4d4c66993ef2e2babd3818459f34746b6a3fe1f0dd2b5dbf6360acbf1661de08abaa1798d4fb882906e721785c24d67405a02424fa4c613278e44e133e24293df82b808b971304980789bc6ab0666db840b1c6ded5f4ba4306dfb37df454b337f769d5a3153629589fbd82af3aeab13dacdfbc4e08adc358bdcc8e8152bb113ccc41785999a60ee4fa795fbab7117901ac060c53e0783e337b5cb992529524681af8253b29fa84366eb0b12c27aec0bea276bd2fb5692c3f5d1ca088ff8a771ae43745ff5b5587d04ea0ab283e6675fff3e34990c07772c061d6fe5c1337503a8b04fa794e116e890e6381a2ad6a1b5e9bca909065503f910096d8b985576da7a110122";
  "3504285972d915ca1183058215f9f59da8e1fb430bd8d445588ac700cd37283a55fe934657eb868c3504c6b4a991d2d9a3f71b14bd0c0598ca3c125c6fa70e1816dcbbada5c059e3a8e09825663930980440fa975a84e772f8a506c86ba2553563f859ca924eb64c4784d50735a0883273c424109b168ec2530d9f518d02fa8422d6a52c91261c31b1eaa8223a7ead919ccb36a9209b4732689af5dffa40513f40a6383bc3d93ed11b0ef43cecec61cefdda8355362cab1a78cdf389d7a0674f4b73dae015ed0047b979a17a91f1f963a3897c929dc55cc730ab96b5c3884577029569203965115036e6429d239aae18830f89200521d7f72cd91e066efc7426";
  "c1bc7cf1d82fa33d8ef238bf41a22137d0328a15ca25ea1f35f94dd3567c20ef56173782e5a1d459981aaf7b34acba0e827d0ecf704c021214fb24de7c26a69676332a9c3c20fdd9c00a711d0ab40d5a553cfe9d0918020c967d37bd6cca70092440ad26e6d983f1ef37e3f85340a19cd5d98fa61374f6016c5c636d4f84bb23a400450d1f7f0b4ababe25d2daa51eb7d27fb483102c2fd7839541a77468f46285ab75d09fc670d46a0a4de1e3b5f7426d51a154d63c553b3f6a5d0174909d2a676a12b702b15e14be410babc5b4c5675ba52c1e23b923cd237b23c198cceb83d5d254b63b20aa7ff275389f0a1c9548eadc752147fa1c92d9fd0979f4dbc791ecdf41d04665beac5875d91e86cc94ad8368735d318fd64d2a417f7e51ea2edba1c6182db13872f3ed012b";
  "ee38cf0fc2e91bff52b0d8b5e1ccc069d45e536ffab5f0a5f25333119773e73ebb0cb0289536983321ae354916347a3b2a17e993449bf769bf507555df70c24de7538ce45bbf361a35bf20e1e9d635a77a8926f1a0ddd77e2ece9815842e6135a4ae2bc603c46b26fc958b3c3b3cee44974485d2a86dfcc7db097ad2d311195c50a58eb4d1d9ece54f58b27974fddee4f056436d1637fe6271179d2e289941b68f373cf2672323a6258e5b3fd0ff213820ca3bc48738f38fd70aaed7b4c29d2a6ae0631a9127bff051162e797ae9b0e78dee87c459c03e75bd67d3a7992d7a583069fcba3cc44692b3f8c426a8bc971755839819b17cfa553c19960ffce18c18";
  "c1efdcbec233ab3a2994c03f5d6c544569592bc2948a68fb44d46612659d3175f10f354b4737c3173691dc86fdb596f23ca3f00e9d34825eedb1626f4fdfba28c56c23d41ee9bd543f17d8763decd601002673e31cc769031db1ff835e247b9b6f129dab9b374c3f618f68add5ff54905f6ed9fb2d4c6d20d758e36cf91f413dc04f5d1480b04f7a2e3b16c94e6011d2c86f03f8ff10e6f856db8d08b89fc56262a92cf513432dd6d2a7ce87959705b0fd8d3625e162fe41facd88ce1864ac5862deba555b9f0f86e40f71f05d43ee4e984394b3d29ff6fa815cd06c16d474ab74a0fed7b979669286803b1dfa0ffbdfa131e173fd818cf5e414d4889cfa7d2dd7b10988f1aafbb6d370d59e19e3eb469d5d7e19d7046dafa9c8ceefa42a9d57f1b01a86692b4c0129"]%string).
Definition key_at (z : Z) : list byte := nth (znat z) key_tab [].

Definition mk_skey (t : bool * bool * list byte) : skey :=
  match t with (bi, inv, kb) => {| k_bidi := bi; k_inverse := inv; k_bytes := kb |} end.
Definition optz (z : Z) : option nat := if z <? 0 then None else Some (znat z).
Definition zopt (o : option nat) : Z := match o with Some n => Z.of_nat n | None => -1 end.

(* OC modes(plain auth crypt crypt2) ignore_crypto ignore_timestamp groupkey(bidi,inverse,key index) auth_digest
      client_keys(static key index, wrapped key index) server_key index *)
Inductive ocfg := OC (pl au cr c2 igc igt : bool) (gk : option (bool * bool * Z)) (ad : Z)
                     (cks : list (Z * Z)) (sk : option Z).
Definition mk_ck (t : Z * Z) : ckey :=
  let w := key_at (snd t) in
  {| ck_static := mk_skey (false, false, key_at (fst t));
     ck_wk := {| w_hmac := firstn crypt_hmac w; w_enc := firstn (List.length w - crypt_hmac - sz_len) (skipn crypt_hmac w) |} |}.
Definition mk_cfg (o : ocfg) : cfg :=
  match o with
  | OC pl au cr c2 igc igt gk ad cks sk =>
      {| acc_plain := pl; acc_auth := au; acc_crypt := cr; acc_crypt2 := c2; ign_crypto := igc; ign_ts := igt;
         gk_auth := option_map (fun t => match t with (bi, inv, k) => mk_skey (bi, inv, key_at k) end) gk;
         gk_crypt := option_map (fun t => match t with (_, _, k) => mk_skey (false, false, key_at k) end) gk;
         auth_digest := optz ad;
         client_keys := map mk_ck cks;
         server_key := option_map (fun k => mk_skey (false, false, key_at k)) sk |}
  end.

Definition vcode (v : verdict) : Z := match v with Yes => 0 | No => 1 | More => 2 | Fail => 3 | Panic => 4 end.

(* ---- DNS ---- *)
Definition drule := (string * string * string * string * string * string)%type. (* class class_re name name_re type type_re *)
Definition mk_rule (t : drule) : rule :=
  match t with (c, cr, n, nr, ty, tr) =>
    {| r_class := hx c; r_class_re := hx cr; r_name := hx n; r_name_re := hx nr; r_type := hx ty; r_type_re := hx tr |} end.
Definition dq := (string * option string * option string)%type.
Definition mk_q (t : dq) : question :=
  match t with (n, c, ty) => {| q_name := hx n; q_class := option_map hx c; q_type := option_map hx ty |} end.
(* UOk len questions response rcode zero *)
Inductive dunpack := UErr | UOk (len : Z) (qs : list dq) (resp : bool) (rcode : Z) (zero : bool).
Definition mk_unpack (u : dunpack) : option dnsmsg :=
  match u with
  | UErr => None
  | UOk l qs r rc z => Some {| d_len := znat l; d_questions := map mk_q qs; d_response := r; d_rcode := zN rc; d_zero := z |}
  end.
Definition re_entry := (string * string * bool)%type.
Fixpoint re_lookup (t : list re_entry) (pat s : list byte) : bool :=
  match t with
  | [] => false
  | (p', s', o) :: r => if bytes_eqb pat (hx p') && bytes_eqb s (hx s') then o else re_lookup r pat s
  end.

(* ---- cases ---- *)
Inductive ocase :=
(* the constants the models write out, as the Go compiler evaluates them *)
| KConsts (ovpn : list Z) (digests : list Z) (sizes : list Z) (dns : list Z)
(* FromBytes (headless=false) or FromBytesHeadless (header byte [hb]) of type [ty] on [src]; ToBytes of the parsed value *)
| KFrom (ty : Z) (headless : bool) (hb : Z) (src : string) (obs : fres) (tobytes : string)
(* the same on a receiver that is not fresh: [st] = what the receiver held before in the fields FromBytes* does not assign
   (auth: [digest index or -1]; crypt, crypt2: [PrevPacketIDsCount; ThisPacketID]; others: []), [st'] = the digest index the
   receiver holds afterwards (auth) *)
| KFromSt (ty : Z) (headless : bool) (hb : Z) (st : list Z) (src : string) (obs : fres) (tobytes : string) (st' : list Z)
(* ToBytes of a value built from field values *)
| KTo (ty : Z) (ints : list Z) (blobs : list string) (obs : string)
(* ToBytesAuth *)
| KToAuth (ty : Z) (ints : list Z) (blobs : list string) (obs : string)
(* MatchOpenVPN.Match *)
| KMatch (c : ocfg) (ld : Z) (tcp : bool) (now : Z) (hm : list hm_entry) (ae : list ae_entry) (input : string) (obs : Z) (ld' : Z)
(* key selectors of crypto.go: which (0 client auth, 1 client encrypt, 2 client decrypt, 3 server auth), size, result (None = panic) *)
| KKeyTab (ks : list string)
| KKey (k : bool * bool * string) (which : Z) (size : Z) (obs : option string)
(* MatchDNS.Match: [mb] is the message buffer handed to Unpack and [u] what it returned *)
| KDns (al dn : list drule) (dd pa : bool) (tcp : bool) (input : string) (mb : string) (u : dunpack) (re : list re_entry) (obs : Z)
| KQuic (udp : bool) (input : string) (obs : Z).

Definition from_check (ty : Z) (headless : bool) (hb : Z) (src : list byte) (obs : fres) (tb : string) : bool :=
  let h := hdr_of hb in
  match ty with
  | 0 => let r := header_from_bytes src in res_matches flat_header r obs && tobytes_matches header_to_bytes r tb
  | 1 => let r := if headless then plain_from_headless src h else plain_from_bytes src in
         res_matches flat_plain r obs && tobytes_matches plain_to_bytes r tb
  | 2 => let r := if headless then auth_from_headless src h else auth_from_bytes src in
         res_matches flat_auth r obs && tobytes_matches auth_to_bytes r tb
  | 3 => let r := if headless then crypt_from_headless src h else crypt_from_bytes src in
         res_matches flat_crypt r obs && tobytes_matches crypt_to_bytes r tb
  | 4 => let r := wkey_from_bytes src in res_matches flat_wkey r obs && tobytes_matches wkey_to_bytes r tb
  | 5 => let r := if headless then crypt2_from_headless src h else crypt2_from_bytes src in
         res_matches flat_crypt2 r obs && tobytes_matches crypt2_to_bytes r tb
  | _ => false
  end.

Definition to_check (ty : Z) (i : list Z) (b : list string) (obs : list byte) : bool :=
  match ty with
  | 0 => bytes_eqb (header_to_bytes (mk_header i)) obs
  | 1 => bytes_eqb (plain_to_bytes (mk_plain i)) obs
  | 2 => bytes_eqb (auth_to_bytes (mk_auth i b)) obs
  | 3 => bytes_eqb (crypt_to_bytes (mk_crypt i b)) obs
  | 4 => bytes_eqb (wkey_to_bytes (mk_wkey b 0)) obs
  | 5 => bytes_eqb (crypt2_to_bytes (mk_crypt2 i b)) obs
  | _ => false
  end.

Definition optb_eqb (a : option (list byte)) (b : option string) : bool :=
  match a, b with
  | Some x, Some y => bytes_eqb x (hx y)
  | None, None => true
  | _, _ => false
  end.

Definition consts_model : list Z :=
  map Z.of_nat [plain_hl; plain_total; auth_min_hl; auth_min; auth_max_hl; auth_max; crypt_hl; crypt_total;
                crypt2_min_hl; crypt2_min; crypt2_max_hl; crypt2_max; wk_min; wk_max; md_payload_max;
                auth_hmac_min; auth_hmac_max; crypt_hmac; digest_default; cipher_block; cipher_key]%nat.

Definition check (c : ocase) : bool :=
  match c with
  | KConsts ov dg szs dn =>
      (* each engine reports the constants of its own package; an empty list = not reported by this engine *)
      match ov with [] => true | _ =>
        zs_eqb consts_model ov && zs_eqb (map Z.of_nat auth_digests) dg && zs_eqb (map Z.of_nat auth_digest_sizes) szs end &&
      match dn with [] => true | _ => zs_eqb (map Z.of_nat [dns_hdr; dns_max_msg; dns_min_msg; quic_min; quic_max]%nat) dn end
  | KFrom ty hl hb src obs tb => from_check ty hl hb (hx src) obs tb
  | KFromSt ty hl hb st src obs tb st' =>
      let h := hdr_of hb in
      let p0 := nthz st 0 in let q0 := nthz st 1 in
      match ty with
      | 2 => let r := if hl then auth_from_headless_st (optz (nth 0 st (-1))) (hx src) h else auth_from_bytes_st (optz (nth 0 st (-1))) (hx src) in
             match r with
             | ROk (m, d) => res_matches flat_auth (ROk m) obs && tobytes_matches auth_to_bytes (ROk m) tb && (zopt d =? nth 0 st' (-1))
             | RErr e => res_matches flat_auth (RErr e) obs
             | RPanic => res_matches flat_auth RPanic obs
             end
      | 3 => let r := if hl then crypt_from_headless_st p0 q0 (hx src) h else crypt_from_bytes_st p0 q0 (hx src) in
             res_matches flat_crypt r obs && tobytes_matches crypt_to_bytes r tb
      | 5 => let r := if hl then crypt2_from_headless_st p0 q0 (hx src) h else crypt2_from_bytes_st p0 q0 (hx src) in
             res_matches flat_crypt2 r obs && tobytes_matches crypt2_to_bytes r tb
      | _ => from_check ty hl hb (hx src) obs tb
      end
  | KTo ty i b obs => to_check ty i b (hx obs)
  | KToAuth ty i b obs =>
      match ty with
      | 2 => bytes_eqb (auth_to_bytes_auth (mk_auth i b)) (hx obs)
      | 3 => bytes_eqb (crypt_to_bytes_auth (mk_crypt i b)) (hx obs)
      | _ => false
      end
  | KMatch oc ld tcp now hm ae input obs ld' =>
      let '(v, l') := ovpn_match (hm_lookup hm) (ae_lookup ae) now (mk_cfg oc) (optz ld) tcp (hx input) in
      (vcode v =? obs) && (zopt l' =? ld')
  | KKeyTab ks => blobs_eqb key_tab ks
  | KKey k which size obs =>
      let sk := mk_skey (match k with (bi, inv, kb) => (bi, inv, hx kb) end) in
      let r := match which with
               | 0 => client_auth_key sk (znat size)
               | 1 => client_encrypt_key sk (znat size)
               | 2 => client_decrypt_key sk (znat size)
               | _ => server_auth_key sk (znat size)
               end in
      optb_eqb r obs
  | KDns al dn dd pa tcp input mb u re obs =>
      let cfg := {| allow := map mk_rule al; deny := map mk_rule dn; default_deny := dd; prefer_allow := pa |} in
      let unpack := fun buf => if bytes_eqb buf (hx mb) then mk_unpack u else None in
      vcode (dns_match unpack (re_lookup re) cfg tcp (hx input)) =? obs
  | KQuic udp input obs =>
      match quic_gate udp (hx input) with
      | GNo => obs =? 1
      | GMore => obs =? 2
      | GPass _ => (obs =? 0) || (obs =? 1)     (* behind the gate: quic-go decides *)
      end
  end.
