(* Correspondence checker for C07: every case carries the bytes the implementation was given and
   what it answered; [check] recomputes the answer with model/TlsHello.v. *)
From Coq Require Import List ZArith NArith Bool String.
From Coq.Strings Require Import Byte.
From L4 Require Import Hex.
From L4.model Require Import GoBase TlsHello.
Import ListNotations.
Open Scope Z_scope.

Definition zs (l : list Z) : list N := map Z.to_N l.
(* the observed ClientHelloInfo, field order as in the engine's printer; byte strings are printed
   as lists of byte constructors ([x16; x03; ...]), which Coq reads several times faster than
   string literals *)
Definition O (version : Z) (random sid : list byte) (ciphers : list Z) (reneg_supported : bool)
  (comp : list byte) (exts : list Z) (server_name : list byte) (ocsp : bool) (curves : list Z)
  (points : list byte) (ticket_supported : bool) (ticket : list byte) (sigs sigs_cert : list Z)
  (secure_reneg : list byte) (protos : list (list byte)) (scts : bool) (versions : list Z) (cookie : list byte)
  (keyshares : list (Z * list byte)) (early : bool) (pskmodes : list byte)
  (psk_ids : list (list byte * Z)) (binders : list (list byte)) : info :=
  {| i_version := Z.to_N version; i_random := random; i_session_id := sid;
     i_ciphers := zs ciphers; i_reneg_supported := reneg_supported; i_compression := comp;
     i_extensions := zs exts; i_server_name := server_name; i_ocsp := ocsp; i_curves := zs curves;
     i_points := points; i_ticket_supported := ticket_supported; i_session_ticket := ticket;
     i_sigschemes := zs sigs; i_sigschemes_cert := zs sigs_cert; i_secure_reneg := secure_reneg;
     i_protos := protos; i_scts := scts; i_versions := zs versions; i_cookie := cookie;
     i_keyshares := map (fun e => (Z.to_N (fst e), snd e)) keyshares; i_early := early;
     i_pskmodes := pskmodes;
     i_psk_ids := map (fun e => (fst e, Z.to_N (snd e))) psk_ids;
     i_psk_binders := binders |}.

Fixpoint list_eqb {A} (eq : A -> A -> bool) (a b : list A) : bool :=
  match a, b with
  | [], [] => true
  | x :: a', y :: b' => eq x y && list_eqb eq a' b'
  | _, _ => false
  end.
Definition ns_eqb := list_eqb N.eqb.
Definition bss_eqb := list_eqb bytes_eqb.

Definition info_eqb (a b : info) : bool :=
  N.eqb (i_version a) (i_version b) && bytes_eqb (i_random a) (i_random b) &&
  bytes_eqb (i_session_id a) (i_session_id b) && ns_eqb (i_ciphers a) (i_ciphers b) &&
  Bool.eqb (i_reneg_supported a) (i_reneg_supported b) && bytes_eqb (i_compression a) (i_compression b) &&
  ns_eqb (i_extensions a) (i_extensions b) && bytes_eqb (i_server_name a) (i_server_name b) &&
  Bool.eqb (i_ocsp a) (i_ocsp b) && ns_eqb (i_curves a) (i_curves b) && bytes_eqb (i_points a) (i_points b) &&
  Bool.eqb (i_ticket_supported a) (i_ticket_supported b) && bytes_eqb (i_session_ticket a) (i_session_ticket b) &&
  ns_eqb (i_sigschemes a) (i_sigschemes b) && ns_eqb (i_sigschemes_cert a) (i_sigschemes_cert b) &&
  bytes_eqb (i_secure_reneg a) (i_secure_reneg b) && bss_eqb (i_protos a) (i_protos b) &&
  Bool.eqb (i_scts a) (i_scts b) && ns_eqb (i_versions a) (i_versions b) && bytes_eqb (i_cookie a) (i_cookie b) &&
  list_eqb (fun x y => N.eqb (fst x) (fst y) && bytes_eqb (snd x) (snd y)) (i_keyshares a) (i_keyshares b) &&
  Bool.eqb (i_early a) (i_early b) && bytes_eqb (i_pskmodes a) (i_pskmodes b) &&
  list_eqb (fun x y => bytes_eqb (fst x) (fst y) && N.eqb (snd x) (snd y)) (i_psk_ids a) (i_psk_ids b) &&
  bss_eqb (i_psk_binders a) (i_psk_binders b).

Inductive c07case :=
(* parseRawClientHello(raw) = obs *)
| CParse (raw : list byte) (obs : info)
(* supportedVersionsFromMax(maxv) = obs *)
| CVersMax (maxv : Z) (obs : list Z)
(* (MatchALPN cfg).Match(hello with SupportedProtos = protos) = obs *)
| CAlpn (cfg protos : list (list byte)) (obs : bool)
(* MatchTLS{alpn: cfg (when use_alpn)}.Match on a connection holding exactly [p] prefetched bytes:
   verdict, whether the placeholders were set, and their values *)
| CGate (p : list byte) (use_alpn : bool) (cfg : list (list byte)) (v : verdict) (set : bool)
        (server_name : list byte) (version : Z)
(* two evaluations on one connection lineage (shared variable table and replacer): first on pA with
   no sub-matcher, then on pB; observed: the SECOND verdict and the placeholders after it *)
| CRematch (pA pB : list byte) (use_alpn : bool) (cfg : list (list byte)) (v : verdict) (set : bool)
        (server_name : list byte) (version : Z).

Definition opt_bytes_eqb (a : option (list byte)) (set : bool) (b : list byte) : bool :=
  match a with Some x => set && bytes_eqb x b | None => negb set end.
Definition opt_N_eqb (a : option N) (set : bool) (b : N) : bool :=
  match a with Some x => set && N.eqb x b | None => negb set end.

Definition check (c : c07case) : bool :=
  match c with
  | CParse raw obs => info_eqb (parse_hello raw) obs
  | CVersMax m obs => ns_eqb (supported_versions_from_max (Z.to_N m)) (zs obs)
  | CAlpn cfg protos obs => Bool.eqb (alpn_match cfg protos) obs
  | CGate p use_alpn cfg v set sn ver =>
      let subs := fun i => if use_alpn then alpn_match cfg (i_protos i) else true in
      let r := tls_match subs p in
      verdict_eqb (r_verdict r) v && opt_bytes_eqb (r_server_name r) set sn &&
      opt_N_eqb (r_version r) set (Z.to_N ver)
  | CRematch pA pB use_alpn cfg v set sn ver =>
      let subs := fun i => if use_alpn then alpn_match cfg (i_protos i) else true in
      let st := snd (tls_rematch (fun _ => true) None pA) in
      let r := tls_rematch subs st pB in
      verdict_eqb (fst r) v &&
      match snd r with
      | Some (n, x) => set && bytes_eqb n sn && N.eqb x (Z.to_N ver)
      | None => negb set
      end
  end.
