(* Correspondence checker for C09: a case is the event log of one scenario run against the real
   Server.servePacket (harness/overlay/layer4/c09_udp_test.go); [check] decides whether
   model/Udp.v accepts it (for the configuration read from the source). *)
From Coq Require Import List ZArith NArith Bool String.
From L4.model Require Import Udp.
Import ListNotations.
Open Scope Z_scope.

Inductive oev :=
| OArr (a id size : Z)                         (* ReadFrom returned datagram id (size bytes) from client address a *)
| ONew (c a : Z)                               (* handler of association c started; its RemoteAddr is a *)
| ORead (c id : Z) (fresh : bool) (off len : Z) (* Read returned bytes [off, off+len) of datagram id; id = -1: unrecognisable bytes *)
| OEof (c : Z)
| OIdle (c : Z)                                (* the harness made c's idle timer fire during the Read that returns next *)
| ODeadline (c : Z)
| OWrite (c w a : Z)                           (* association c wrote reply w; WriteTo was given address a *)
| ORet (c : Z)
| OClosed (c : Z).                             (* the handler called Close itself and Close returned *)

Inductive c09case :=
| CTrace (tr : list oev)
| CSeq (tr : list oev)                         (* a sequential scenario: the log is also replayed step by step *)
| CBack (sent taken : Z).

Definition n (z : Z) : nat := Z.to_nat z.

Fixpoint find_arr (id : Z) (tr : list oev) : option pkt :=
  match tr with
  | [] => None
  | OArr a i sz :: r => if i =? id then Some {| src := n a; pid := n i; size := Z.to_N sz |} else find_arr id r
  | _ :: r => find_arr id r
  end.

Fixpoint conv (all : list oev) (tr : list oev) : option (list ev) :=
  match tr with
  | [] => Some []
  | e :: r =>
      match conv all r with
      | None => None
      | Some r' =>
          match e with
          | OArr a i sz => if (0 <=? a) && (0 <=? i) then Some (EArr {| src := n a; pid := n i; size := Z.to_N sz |} :: r') else None
          | ONew c a => if (0 <=? a) && (0 <=? c) then Some (ENew (n c) (n a) :: r') else None
          | ORead c id fresh off len =>
              match find_arr id all with
              | Some p => if (0 <=? c) && (0 <=? off) && (0 <=? len) then Some (ERead (n c) p fresh (Z.to_N off) (Z.to_N len) :: r') else None
              | None => None
              end
          | OEof c => Some (EEof (n c) :: r')
          | OIdle c => Some (EIdle (n c) :: r')
          | ODeadline c => Some (EDeadline (n c) :: r')
          | OWrite c w a => if (0 <=? a) && (0 <=? c) then Some (EWrite (n c) (n w) (n a) :: r') else None
          | ORet c => Some (ERet (n c) :: r')
          | OClosed c => Some (EClosed (n c) :: r')
          end
      end
  end.

Definition check (c : c09case) : bool :=
  match c with
  | CTrace tr => match conv tr tr with Some tr' => accepts src_cfg tr' | None => false end
  | CSeq tr => match conv tr tr with Some tr' => accepts src_cfg tr' && replay src_cfg init 0 tr' | None => false end
  | CBack sent taken => Z.of_nat (back_model src_cfg (n sent)) =? taken
  end.
