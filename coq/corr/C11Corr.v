(* Correspondence checker for C11: event histories observed on the real handler (time stamps in
   milliseconds since the start of the scenario) with white-box reads of the peer counters;
   [check] recomputes the counters, the availability and the retry decisions with model/Health.v. *)
From Coq Require Import List ZArith Bool String.
From L4.model Require Import Select Health.
Import ListNotations.
Open Scope Z_scope.

Definition zn (z : Z) : nat := Z.to_nat z.

(* events as the harness prints them *)
Definition EFail (t p : Z) : tev := (t, DialFail (zn p)).
Definition EOpen (t u : Z) : tev := (t, Open (zn u)).
Definition EClose (t u : Z) : tev := (t, Close (zn u)).
Definition EProbe (t p : Z) (ok : bool) : tev := (t, Probe (zn p) ok).

(* mc: max_connections as configured per upstream; ucc: the passive unhealthy_connection_count *)
Definition H (passive : bool) (fd mf : Z) (topo : list (list Z)) (mc : list Z) (ucc : Z) : hcfg :=
  mkH passive fd mf (map (map zn) topo) (map (effective_max_conns passive ucc) mc).

Definition A (kind e d j : Z) : att :=
  ((if kind =? 0 then ADialOk else if kind =? 1 then ADialErr e else ANoUpstream), d, j).

Definition outcome_eqb (a b : outcome) : bool :=
  match a, b with
  | Proxied, Proxied => true
  | Failed x, Failed y => x =? y
  | _, _ => false
  end.
Fixpoint zlist_eqb (a b : list Z) : bool :=
  match a, b with
  | [], [] => true
  | x :: a', y :: b' => (x =? y) && zlist_eqb a' b'
  | _, _ => false
  end.
Fixpoint blist_eqb (a b : list bool) : bool :=
  match a, b with
  | [], [] => true
  | x :: a', y :: b' => Bool.eqb x y && blist_eqb a' b'
  | _, _ => false
  end.

Definition counters_eqb (s : hst) (np : Z) (obs : list (Z * Z * Z)) : bool :=
  (Z.of_nat (List.length obs) =? np) &&
  forallb (fun x => match x with (p, (f, u, n)) => (h_fails s p =? f) && (h_unhealthy s p =? u) && (h_conns s p =? n) end)
          (combine (seq 0 (List.length obs)) obs).

Inductive c11case :=
(* counters of every peer (fails, unhealthy, numConns) and availability of every upstream at time t *)
| HCounters (c : hcfg) (h : list tev) (t : Z) (npeers : Z) (obs : list (Z * Z * Z)) (avail_obs : list bool)
(* one Handle call: the oracle values (outcome, time to the clock read, sleep overshoot per attempt),
   the observed attempt times relative to the start, the result (-2 = proxied, else the error id) *)
| HRetry (try_duration try_interval : Z) (atts : list att) (times : list Z) (result : Z)
(* peer.setHealthy *)
| HSet (old : Z) (healthy : bool) (nw : Z) (swapped : bool)
(* Provision's default for max_fails *)
| HMaxFails (c : hcfg) (obs : Z)
(* Upstream.provision: the effective MaxConnections of every upstream *)
| HLimits (c : hcfg) (obs : list Z)
(* an attempt of Handle for which the selection policy returned no upstream at time t: no upstream may be
   available then (the policies return an available upstream iff one exists: C10) *)
| HNoUp (c : hcfg) (h : list tev) (t : Z).

Definition check (c : c11case) : bool :=
  match c with
  | HCounters cf h t np obs av =>
      let s := state_at cf h t in
      sortedb h 0 && forallb (fun te => fst te <=? t) h &&
      counters_eqb s np obs && blist_eqb (map (fun u => avail cf s u) (seq 0 (List.length (topo cf)))) av
  | HRetry td ti atts times result =>
      let '(ts, o) := handle td ti 0 atts in
      zlist_eqb ts times &&
      outcome_eqb o (if result =? -2 then Proxied else Failed result)
  | HSet old healthy nw swapped =>
      (set_healthy old healthy =? nw) && Bool.eqb swapped (negb (set_healthy old healthy =? old))
  | HMaxFails cf obs => max_fails cf =? obs
  | HLimits cf obs => zlist_eqb (max_conns cf) obs
  | HNoUp cf h t =>
      sortedb h 0 && forallb (fun te => fst te <=? t) h &&
      negb (existsb (fun u => avail cf (state_at cf h t) u) (seq 0 (List.length (topo cf))))
  end.
