(* Correspondence checker for C16: one case = one configuration + one scripted client session
   against the real handler; [check] recomputes everything with model/Socks5.v.

   CPin client cmd announced returned
     the handler's associateSourceRewriter.Rewrite called directly: client = RemoteAddr of the request
     (Tcp ip zone / Other "host:port"), cmd the command code, announced the IP of RawDestAddr,
     returned the IP of the address it hands to the library's relay
   CSess client cmds creds envt resolved dialr listenr script  prov_ok out dialled target_bytes listened
     client             RemoteAddr the client connection reports
     cmds, creds        Commands / Credentials of the handler (hex strings; creds in insertion order)
     envt               environment variables the harness set, as replacer keys (env.NAME) -> value
     resolved           what DNSResolver answered for the name in the script: hex IP, "" = error
     dialr              what dialling the script's destination does: 0 ok (IPv4 local end), 1 ok (IPv6), 2 refused
     listenr            net.ListenUDP("udp", nil): 0 IPv4 local address, 1 IPv6, 2 error
     script             every byte the client sends
     prov_ok            Provision returned nil
     out                every byte the server wrote (BND.ADDR/BND.PORT of successful replies zeroed)
     dialled            the loopback target accepted a connection from the handler
     target_bytes       bytes the target received on it
     listened           a successful reply to UDP ASSOCIATE announced a port
     probes             datagrams sent to that port: (source IP, source port, was it forwarded) *)
From Coq Require Import List ZArith NArith Bool String.
From Coq.Strings Require Import Byte.
From L4 Require Import Hex.
From L4.model Require Import GoBase Socks5.
Import ListNotations.
Open Scope Z_scope.

Inductive c16case :=
| CPin (client : caddr) (cmd : Z) (announced : string) (returned : string)
| CSess (client : caddr) (cmds : list string) (creds : list (string * string)) (envt : list (string * string))
        (resolved : string) (dialr listenr : Z) (script : string)
        (prov_ok : bool) (out : string) (dialled : bool) (target_bytes : string) (listened : bool)
        (probes : list (string * Z * bool)).

Definition Tcp (ip zone : string) : caddr := CTcp (unhex ip) (unhex zone).
Definition Other (s : string) : caddr := COther (unhex s).

Definition hexpair (p : string * string) : bytes * bytes := (unhex (fst p), unhex (snd p)).

Definition check (c : c16case) : bool :=
  match c with
  | CPin client cmd announced returned => bytes_eqb (rewrite client cmd (unhex announced)) (unhex returned)
  | CSess client cmds creds envt resolved dialr listenr script prov_ok out dialled tbytes listened probes =>
      let table := map hexpair envt in
      let cfg := {| commands := map unhex cmds; credentials := map hexpair creds |} in
      match provision (replace_all (fun k => assoc k table)) ascii_upper cfg with
      | None => negb prov_ok
      | Some srv =>
          let e := {| resolve := fun _ => match unhex resolved with [] => None | ip => Some ip end;
                      dial := fun _ _ => if dialr =? 0 then DialOK false else if dialr =? 1 then DialOK true else DialRefused;
                      listen_udp := if listenr =? 0 then Some false else if listenr =? 1 then Some true else None;
                      client_ip := client_ip_of client |} in
          let '(evs, fin) := serve srv e (unhex script) in
          prov_ok
          && bytes_eqb (written evs) (unhex out)
          && Bool.eqb (existsb outbound_dial evs && (dialr <? 2)) dialled
          && bytes_eqb (match fin with EProxy rest => rest | _ => [] end) (unhex tbytes)
          && Bool.eqb (existsb is_listen evs && (listenr <? 2)) listened
          && forallb (fun p => match p with (sip, sport, relayed) =>
                 existsb (fun ev => match ev with
                                    | ListenUDP dip dport => Bool.eqb (relay_accepts dip dport (unhex sip) sport) relayed
                                    | _ => false end) evs end) probes
      end
  end.
