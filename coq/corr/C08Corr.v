(* Correspondence checker for C08.

   CPool   a single-goroutine schedule executed on the real bufPool / WrapConnection / prefetch /
           Read / MatchingBytes (white-box, package layer4) with the pool choices and append
           capacities it observed; [check] replays it on model/Pool.v and compares, per
           connection, every byte the connection saw.  kind: 0 = Put only when the connection
           does not live on (Server.handle, listener.handle since f83061f), 1 = Put always (the
           old listener.handle, emulated by the engine to validate the model of the defect).
   CUdp    a schedule of datagrams, reads and closes executed on the real servePacket loop and
           packetConn (scripted net.PacketConn), arrays identified by base pointer, replayed on
           model/UdpPool.v.
   CStress concurrent runs with self-identifying streams: the number of connections that saw a
           foreign byte must be what the model predicts for the life cycle read from gen/Shape.v
           (zero when that life cycle is a good discipline).
   CLoc    the engine's evaluation of the access discipline on gen/Access.v, per location.
   CSharedPool  a package-level sync.Pool variable the engine found in gen/Access.v and whether it is one of the modelled ones.
   CRace   a location the Go race detector complained about: it must be a location the table
           knows and the discipline flags. *)
From Coq Require Import List ZArith NArith Bool Arith String.
From Coq.Strings Require Import Byte.
From L4 Require Import Hex.
From L4.gen Require Import Shape Access.
From L4.model Require Import Pool Discipline UdpPool.
Import ListNotations.

Inductive zev :=
| ZGet (c : Z) (k : option Z)
| ZPrefetch (c : Z) (data : list (Z * Z)) (k : option Z) (newcap : Z)
| ZPeek (c : Z)
| ZRead (c n : Z)
| ZReturn (c : Z) (hij : bool)
| ZFork (p c : Z)
| ZEnd (c : Z).

(* byte strings are printed run-length encoded: [(byte value, count); ...] (long string literals are slow to parse) *)
Definition rle (l : list (Z * Z)) : list Byte.byte :=
  flat_map (fun p => repeat (byte_of_N (Z.to_N (fst p))) (Z.to_nat (snd p))) l.

Definition zn (z : Z) : nat := Z.to_nat z.
Definition zk (k : option Z) : option nat := match k with Some z => Some (zn z) | None => None end.

Definition ev_of (e : zev) : pevent :=
  match e with
  | ZGet c k => PGet (zn c) (zk k)
  | ZPrefetch c d k nc => PPrefetch (zn c) (rle d) (zk k) (zn nc)
  | ZPeek c => PPeek (zn c)
  | ZRead c n => PRead (zn c) (zn n)
  | ZReturn c h => PReturn (zn c) h
  | ZFork p c => PFork (zn p) (zn c)
  | ZEnd c => PEnd (zn c)
  end.

Inductive zuev :=
| ZURecv (cl : Z) (data : list (Z * Z)) (b : Z)
| ZUDispatch
| ZUSend
| ZURead (a m : Z)
| ZUIdle (a : Z)
| ZUClose (a : Z)
| ZUForget (a : Z).

Definition uev_of (e : zuev) : uevent :=
  match e with
  | ZURecv cl d b => URecv (zn cl) (rle d) (zn b)
  | ZUDispatch => UDispatch
  | ZUSend => USend
  | ZURead a m => URead (zn a) (zn m)
  | ZUIdle a => UIdle (zn a)
  | ZUClose a => UClose (zn a)
  | ZUForget a => UForget (zn a)
  end.

Inductive c08case :=
| CPool (kind : Z) (evs : list zev) (seen : list (Z * list (Z * Z)))
| CUdp (evs : list zuev) (seen : list (Z * list (Z * Z)))
| CStress (life : string) (procs nconn checked bad : Z)
| CLoc (loc : string) (ok : bool)
| CRace (loc : string)
| CSharedPool (name : string) (known : bool).

Fixpoint beq (a b : list Byte.byte) : bool :=
  match a, b with
  | [], [] => true
  | x :: a', y :: b' => Byte.eqb x y && beq a' b'
  | _, _ => false
  end.

Definition good_discb (d : disc) : bool :=
  negb (put_on_hijack d) && negb (put_early d) && negb (fork_alias d) && negb (adopt_tmp d).

Definition life_disc (l : string) : option disc :=
  if String.eqb l "server" then Some server_disc
  else if String.eqb l "listener" then Some listener_disc
  else if String.eqb l "tee" then Some tee_disc
  else None.

Definition check (c : c08case) : bool :=
  match c with
  | CPool kind evs seen =>
      let d := if Z.eqb kind 1 then unconditional_put_disc else clean_disc in
      let s := prun d pinit (map ev_of evs) in
      forallb (fun p => beq (got_of s (zn (fst p))) (rle (snd p))) seen
  | CUdp evs seen =>
      (* the real servePacket / packetConn driven datagram by datagram: the arrays the real pool
         handed out must be arrays the model considers free (or new), and every association must
         have read what the model says *)
      let s := urun udp_disc uinit (map uev_of evs) in
      negb (ubadget s) && forallb (fun p => beq (ugot s (zn (fst p))) (rle (snd p))) seen
  | CStress life procs nconn checked bad =>
      if String.eqb life "udp" || String.eqb life "verdict" then Z.eqb bad 0 else
      match life_disc life with
      | Some d => if good_discb d then Z.eqb bad 0 else true
      | None => false
      end
  | CLoc loc ok => in_table table loc && Bool.eqb (loc_ok table loc) ok
  | CRace loc => in_table table loc && negb (loc_ok table loc)
  | CSharedPool name known =>
      existsb (String.eqb name) shared_pools &&
      Bool.eqb known (existsb (String.eqb name) ["layer4.bufPool"; "layer4.udpBufPool"])
  end.
