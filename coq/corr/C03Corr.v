(* Correspondence checker for C03: each case carries a relay scenario and the final observables
   of the real Handler.proxy over loopback sockets; [check] recomputes them with model/Relay.v
   ([predict] = the terminal state the model's scheduler reaches; when the scenario is
   [compatible] this must also be the state [final] prescribes). *)
From Coq Require Import List ZArith Bool String.
From Coq.Strings Require Import Byte.
From L4 Require Import Hex.
From L4.model Require Import Relay.
Import ListNotations.
Open Scope Z_scope.

Definition pol (after : bool) : finpol := if after then FinAfterEof else FinFree.

Definition mk_cfg (n pre : Z) (ctot : list byte) (utots : list (list byte)) (cafter : bool) (uafter : list bool) (ch : chain) : cfg :=
  mkCfg (Z.to_nat n) ctot (Z.to_nat pre) (fun i => nth i utots []) (pol cafter) (fun i => pol (nth i uafter false))
        (fun _ => true) ch.

Fixpoint bytes_eqb (a b : list byte) : bool :=
  match a, b with
  | [], [] => true
  | x :: a', y :: b' => Byte.eqb x y && bytes_eqb a' b'
  | _, _ => false
  end.
Fixpoint list_eqb {A} (e : A -> A -> bool) (a b : list A) : bool :=
  match a, b with
  | [], [] => true
  | x :: a', y :: b' => e x y && list_eqb e a' b'
  | _, _ => false
  end.

Fixpoint list_rel {A B} (e : A -> B -> bool) (a : list A) (b : list B) : bool :=
  match a, b with
  | [], [] => true
  | x :: a', y :: b' => e x y && list_rel e a' b'
  | _, _ => false
  end.

Definition obs_eqb (a b : obs) : bool :=
  list_eqb bytes_eqb (o_up a) (o_up b) && list_eqb bytes_eqb (o_cli a) (o_cli b) &&
  Bool.eqb (o_ceof a) (o_ceof b) && list_eqb Bool.eqb (o_ueof a) (o_ueof b) &&
  Bool.eqb (o_returned a) (o_returned b) && list_eqb Bool.eqb (o_closed a) (o_closed b).

Definition compatibleb (c : cfg) : bool :=
  let idx := seq 0 (n_up c) in
  (negb (after_eof (cfin c)) || forallb (fun i => negb (after_eof (ufin c i))) idx) &&
  (negb (after_eof (cfin c)) || cw_effect (down c)) &&
  forallb (fun i => up_cw c i) idx.

Fixpoint is_prefixb (a b : list byte) : bool :=
  match a, b with
  | [], _ => true
  | x :: a', y :: b' => Byte.eqb x y && is_prefixb a' b'
  | _, _ => false
  end.

Definition dial_of (z : Z) : dial_result := if z =? 0 then DialOk else if z =? 1 then DialErr else DialOkHeaderErr.

Inductive c03case :=
(* exact comparison of every byte (small payloads) *)
| RExact (n pre : Z) (ctot : string) (utots : list string) (cafter : bool) (uafter : list bool) (ch : chain)
         (oup ocli : list string) (oceof : bool) (oueof : list bool) (oret : bool) (oclosed : list bool)
(* large payloads of a compatible scenario: the harness compared the bytes and reports, per
   endpoint, the length received and whether it equals the stream sent *)
| RBig (n : Z) (clen : Z) (ulens : list Z) (cafter : bool) (uafter : list bool) (ch : chain)
       (oup : list (Z * bool)) (ocli : list (Z * bool)) (oceof : bool) (oueof : list bool) (oret : bool) (oclosed : list bool)
(* abrupt close: only the safety part (prefixes) and the cleanup are predicted *)
| RAbort (n : Z) (ctot : string) (utots : list string) (oup ocli : list string) (oret : bool) (oclosed : list bool)
(* method sets: what `down.Conn.(closeWriter)` answered for the chain a wrapper handler built *)
| RMethod (ch : chain) (asserted : bool)
(* dialPeers: dial results per peer (0 ok, 1 refused, 2 connected but header write failed), whether it
   succeeded, how many of the opened connections were closed by it *)
| RDial (rs : list Z) (ok : bool) (opened closed : Z).

Definition check (c : c03case) : bool :=
  match c with
  | RExact n pre ctot utots cafter uafter ch oup ocli oceof oueof oret oclosed =>
      let cf := mk_cfg n pre (unhex ctot) (map unhex utots) cafter uafter ch in
      let o := mkObs (map unhex oup) (map unhex ocli) oceof oueof oret oclosed in
      obs_eqb (predict cf) o && (if compatibleb cf then obs_eqb (final_obs cf) o else true)
  | RBig n clen ulens cafter uafter ch oup ocli oceof oueof oret oclosed =>
      (* the model does not depend on the contents: run it on streams cut down to at most 3 bytes
         and compare "everything delivered" flags, EOFs, return and closes *)
      let small (z : Z) (b : byte) := repeat b (Z.to_nat (Z.min z 3)) in
      let cf := mk_cfg n 0 (small clen x00) (map (fun z => small z x01) ulens) cafter uafter ch in
      let p := predict cf in
      let idx := seq 0 (Z.to_nat n) in
      list_rel (fun a b => Bool.eqb (snd a) b && (if snd a then fst a =? clen else true)) oup
               (map (fun l => bytes_eqb l (c_total cf)) (o_up p)) &&
      list_rel (fun a ib => Bool.eqb (snd a) (snd ib) && (if snd a then fst a =? nth (fst ib) ulens 0 else true)) ocli
               (combine idx (map (fun il => bytes_eqb (snd il) (u_total cf (fst il))) (combine idx (o_cli p)))) &&
      Bool.eqb oceof (o_ceof p) && list_eqb Bool.eqb oueof (o_ueof p) && Bool.eqb oret (o_returned p) &&
      list_eqb Bool.eqb oclosed (o_closed p) &&
      (if compatibleb cf then obs_eqb (final_obs cf) p else true)
  | RAbort n ctot utots oup ocli oret oclosed =>
      forallb (fun u => is_prefixb (unhex u) (unhex ctot)) oup &&
      list_eqb (fun a b => is_prefixb (unhex a) (unhex b)) ocli (firstn (List.length ocli) utots) &&
      (Z.of_nat (List.length ocli) =? n) && oret && forallb (fun b => b) oclosed
  | RMethod ch asserted => Bool.eqb (has_cw_method (hd LUdp ch)) asserted
  | RDial rs ok opened closed =>
      let '(op, cl, okm) := dial_peers (map dial_of rs) 0 [] in
      Bool.eqb ok okm && (Z.of_nat (List.length op) =? opened) && (Z.of_nat (List.length cl) =? closed)
  end.
