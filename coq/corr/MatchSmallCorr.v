(* Correspondence checker for the small matchers (C04/C06/C14): each case carries the matcher,
   its provisioned configuration, the prefetched bytes and what the real Match answered in
   matching mode (verdict + "allocated more than the bound"); [check] recomputes both with
   model/MatchSmall.v. *)
From Coq Require Import String.
From Coq Require Import List ZArith NArith Bool.
From Coq.Strings Require Import Byte.
From L4 Require Import Hex.
From L4.model Require Import GoBase MatchSmall.
Import ListNotations.
Open Scope Z_scope.

Definition mk_cidr (t : bool * Z * Z) : cidr :=
  match t with (is6, a, b) => {| c_is6 := is6; c_addr := Z.to_N a; c_bits := Z.to_N b |} end.
Definition mk_addr (t : bool * Z * bool) : addr :=
  match t with (is6, a, z) => {| a_is6 := is6; a_val := Z.to_N a; a_zone := z |} end.

(* matcher + configuration as provisioned (what Match reads from its receiver) *)
Inductive mcfg :=
| MSsh | MXmpp | MPg | MPP | MTls | MHttp
| MS4 (cmds ports : list Z) (cidrs : list (bool * Z * Z))
| MS5 (auth : list Z)
| MRe (count : Z) (reval : bool)        (* reval: what the compiled regexp answered on the bytes it was given *)
| MNot (sets : list (list mcfg))
| MAny (sets : list (list mcfg)).      (* MatcherSets.AnyMatch *)

Fixpoint run_cfg (c : mcfg) (p : list byte) : res :=
  match c with
  | MSsh => ssh_run p
  | MXmpp => xmpp_run p
  | MPg => pg_run p
  | MPP => pp_run p
  | MTls => tls_run (fun _ => true) p
  | MHttp => (http_gate p, 0%N)
  | MS4 cmds ports cidrs =>
      socks4_run {| s4_commands := map Z.to_N cmds; s4_ports := map Z.to_N ports; s4_cidrs := map mk_cidr cidrs |} p
  | MS5 auth => socks5_run (map Z.to_N auth) p
  | MRe count reval => regexp_run (fun _ => reval) (Z.to_N count) p
  | MNot sets =>
      (not_match (map (fun ms => map (fun c q => fst (run_cfg c q)) ms) sets) p, 0%N)
  | MAny sets =>
      (any_match (map (fun ms => map (fun c q => fst (run_cfg c q)) ms) sets) p, 0%N)
  end.

Inductive mscase :=
| MS (c : mcfg) (inp : string) (obs : verdict) (big : bool)
| KClock (after before offset unix : Z) (obs : verdict)       (* raw seconds as parsed, before normalisation *)
| KIp (cidrs : list (bool * Z * Z)) (a : option (bool * Z * bool)) (obs : verdict)
| KNotIp (cidrs : list (bool * Z * Z)) (a : option (bool * Z * bool)) (obs : verdict)   (* not { remote_ip ... } *)
| KNotIpSets (sets : list (list (bool * Z * Z))) (a : option (bool * Z * bool)) (obs : verdict)   (* not [{remote_ip A},{remote_ip B},...] *)
| KRefS4 (cmds ports : list Z) (cidrs : list (bool * Z * Z)) (vn cd : Z) (port ip : Z) (user : string) (inp : string) (ref : bool)
| KRefS5 (auth : list Z) (ver : Z) (methods : string) (inp : string) (ref : bool)
| KRefPg (ssl : bool) (major minor : Z) (params : list (string * string)) (inp : string) (ref : bool).

(* the http matcher goes on to net/http after the gate; with no inner matcher sets its verdict
   is Yes, More or an error once the gate is passed, and exactly the gate's verdict otherwise *)
Definition http_obs_ok (g obs : verdict) : bool :=
  match g with
  | Yes => match obs with Yes | More | Fail => true | _ => false end
  | _ => verdict_eqb g obs
  end.


(* boolean versions of the reference predicates, used to check that the engine's Go reference
   (computed from the abstract message) is the model's reference *)
Definition byte_ofZ (z : Z) : byte := byte_of_N (Z.to_N z).

Definition check (c : mscase) : bool :=
  match c with
  | MS MHttp inp obs big => http_obs_ok (http_gate (unhex inp)) obs && negb big
  | MS cfg inp obs big =>
      let r := run_cfg cfg (unhex inp) in
      verdict_eqb (fst r) obs && Bool.eqb (alloc_bound <? snd r)%N big
  | KClock a b off unix obs => verdict_eqb (clock_match (clock_provision a b) (clock_now unix off)) obs
  | KIp cidrs a obs => verdict_eqb (ip_match (map mk_cidr cidrs) (option_map mk_addr a)) obs
  | KNotIpSets sets a obs =>
      verdict_eqb (not_match (map (fun cs => [fun _ : list byte => ip_match (map mk_cidr cs) (option_map mk_addr a)]) sets) []) obs
  | KNotIp cidrs a obs =>
      verdict_eqb (not_match [[fun _ => ip_match (map mk_cidr cidrs) (option_map mk_addr a)]] []) obs
  | KRefS4 cmds ports cidrs vn cd port ip user inp ref =>
      let m := {| s4_vn := byte_ofZ vn; s4_cd := byte_ofZ cd; s4_port := Z.to_N port; s4_ip := Z.to_N ip; s4_user := unhex user |} in
      let cfg := {| s4_commands := map Z.to_N cmds; s4_ports := map Z.to_N ports; s4_cidrs := map mk_cidr cidrs |} in
      bytes_eqb (socks4_encode m) (unhex inp) && Bool.eqb (socks4_ref_b cfg m) ref
  | KRefS5 auth ver methods inp ref =>
      let m := {| s5_ver := byte_ofZ ver; s5_methods := unhex methods |} in
      bytes_eqb (socks5_encode m) (unhex inp) && Bool.eqb (socks5_ref_b (map Z.to_N auth) m) ref
  | KRefPg ssl maj min params inp ref =>
      let m := if ssl then PgSSLRequest
               else PgStartup (Z.to_N maj) (Z.to_N min) (map (fun kv => (unhex (fst kv), unhex (snd kv))) params) in
      bytes_eqb (pg_encode m) (unhex inp) && Bool.eqb (pg_ref_b m) ref
  end.
