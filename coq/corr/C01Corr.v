(* Correspondence checker for the lock-step engine harness/overlay/layer4/c01_conn_test.go:
   a case is one operation sequence on a real *layer4.Connection with the observable state after
   every operation; [check] replays the sequence on model/Conn.v and compares every step. *)
From Coq Require Import List ZArith NArith Bool String Arith.
From Coq.Strings Require Import Byte.
From L4 Require Import Hex.
From L4.model Require Import Conn.
Import ListNotations.
Open Scope Z_scope.

(* position-coded stream: byte i = (i + (i/251)*7 + seed) mod 256, as vC01Stream in the engine *)
(* [x] = value of the current byte, [col] = bytes left before the next multiple of 251 *)
Fixpoint gen_from (x : N) (col : nat) (n : nat) : list byte :=
  match n with
  | O => []
  | S n' =>
      byte_of_N x ::
      match col with
      | O => gen_from ((x + 8) mod 256)%N 250 n'
      | S col' => gen_from ((x + 1) mod 256)%N col' n'
      end
  end.
Definition gen_stream (seed len : Z) : list byte := gen_from (Z.to_N seed mod 256)%N 250 (Z.to_nat len).

(* a byte string returned by the implementation: a concatenation of slices of the stream, or raw bytes *)
Inductive data := DS (parts : list (Z * Z)) | DH (hex : string).
Definition data_bytes (stream : list byte) (d : data) : list byte :=
  match d with
  | DS ps => flat_map (fun p => firstn (Z.to_nat (snd p)) (skipn (Z.to_nat (fst p)) stream)) ps
  | DH h => unhex h
  end.

Fixpoint bytes_eqb (a b : list byte) : bool :=
  match a, b with
  | [], [] => true
  | x :: a', y :: b' => Byte.eqb x y && bytes_eqb a' b'
  | _, _ => false
  end.

Definition err_of_Z (z : Z) : option err :=
  match z with
  | 0 => Some ENil | 1 => Some EEOF | 2 => Some EConsumed | 3 => Some EFull | 4 => Some ETimeout
  | _ => None
  end.
Definition err_is (e : err) (z : Z) : bool :=
  match err_of_Z z with Some e' => err_eqb e e' | None => false end.

(* what a scripted matcher observed: Read result / MatchingBytes result *)
Inductive kobs := KRd (d : data) (e : Z) | KPk (panicked : bool) (d : data).

Inductive cop :=
| KRead (n : Z) (d : data) (e : Z)
| KPrefetch (e : Z) (newcap : Z)
| KFreeze
| KUnfreeze
| KBytes (panicked : bool) (d : data)
| KWrapId
| KWrapBufio (sz n1 : Z) (d : data) (e : Z)
| KThrottle (burst : Z)
| KTee
| KMatchSet (ms : mset) (os : list kobs)   (* real MatcherSet.Match; ms = the matchers that ran *)
| KDrain (bsz : Z) (d : data)
| KSinks (ds : list data).

(* (len(buf), cap(buf), offset, frozenOffset, matching, bytes pulled from the socket) *)
Definition snap := (Z * Z * Z * Z * bool * Z)%type.

Definition oracle_of (script : list Z) : oracle :=
  map (fun k => if k <? 0 then Timeout else Take (Z.to_nat k)) script.

Definition snap_ok (total : nat) (r : rd) (s : snap) : bool :=
  match r, s with
  | L4 c _, (l, cp, off, fr, m, pulled) =>
      (Z.of_nat (List.length (buf c)) =? l) && (Z.of_nat (bcap c) =? cp) && (Z.of_nat (offset c) =? off) &&
      (Z.of_nat (frozen c) =? fr) && Bool.eqb (matching c) m &&
      (Z.of_nat (total - List.length (net_pending r)) =? pulled)
  | _, _ => false
  end.

(* read until EOF (errors other than a deadline stop the loop; the engine retries deadlines) *)
Fixpoint drain (fuel : nat) (r : rd) (n : nat) (orc : oracle) (zeros : nat) : list byte * rd * oracle :=
  match fuel with
  | O => ([], r, orc)
  | S f =>
      let '((d, e), r', o') := read r n orc in
      match e with
      | ENil =>
          match d, zeros with
          | [], O => ([], r', o')
          | [], S z => drain f r' n o' z
          | _, _ => let '(ds, r'', o'') := drain f r' n o' zeros in (d ++ ds, r'', o'')
          end
      | ETimeout => drain f r' n o' zeros
      | _ => (d, r', o')
      end
  end.

Fixpoint sinks (r : rd) : list (list byte) :=
  match r with
  | Net _ => []
  | TeeW i s => s :: sinks i
  | L4 _ i | Bufio _ _ i | Thr _ i | Xf _ _ _ _ i => sinks i
  end.

Fixpoint all2 {A B} (f : A -> B -> bool) (a : list A) (b : list B) : bool :=
  match a, b with
  | [], [] => true
  | x :: a', y :: b' => f x y && all2 f a' b'
  | _, _ => false
  end.

Definition wrap_impl := wrap.

(* one step: returns None on disagreement *)
Definition step (stream : list byte) (r : rd) (orc : oracle) (op : cop) : option (rd * oracle) :=
  match op with
  | KRead n d e =>
      let '((d', e'), r', o') := read r (Z.to_nat n) orc in
      if bytes_eqb d' (data_bytes stream d) && err_is e' e then Some (r', o') else None
  | KPrefetch e newcap =>
      let '(e', r', o') := prefetch r (Z.to_nat newcap) orc in
      if err_is e' e then Some (r', o') else None
  | KFreeze => Some (freeze r, orc)
  | KUnfreeze => Some (unfreeze r, orc)
  | KBytes p d =>
      match matching_bytes r with
      | None => if p then Some (r, orc) else None
      | Some b => if negb p && bytes_eqb b (data_bytes stream d) then Some (r, orc) else None
      end
  | KWrapId => match r with L4 c _ => Some (wrap_impl c r, orc) | _ => None end
  | KWrapBufio sz n1 d e =>
      match r with
      | L4 _ _ =>
          let '((d', e'), b', o') := read (Bufio [] (Z.to_nat sz) r) (Z.to_nat n1) orc in
          match b' with
          | Bufio _ _ (L4 c1 _) =>
              if bytes_eqb d' (data_bytes stream d) && err_is e' e then Some (wrap_impl c1 b', o') else None
          | _ => None
          end
      | _ => None
      end
  | KThrottle burst => match r with L4 c i => Some (L4 c (Thr (Z.to_nat burst) i), orc) | _ => None end
  | KTee => match r with L4 c _ => Some (wrap_impl c (TeeW r []), orc) | _ => None end
  | KMatchSet ms os =>
      let '(seen, r', o') := run_set ms r orc in
      if all2 (fun (o : obs) (k : kobs) =>
                 match o, k with
                 | ORead d e, KRd d' e' => bytes_eqb d (data_bytes stream d') && err_is e e'
                 | OPeek None, KPk p _ => p
                 | OPeek (Some b), KPk p d' => negb p && bytes_eqb b (data_bytes stream d')
                 | _, _ => false
                 end) seen os
      then Some (r', o') else None
  | KDrain bsz d =>
      let '(ds, r', o') := drain (List.length (stream_of r) + List.length orc + 1002) r (Z.to_nat bsz) orc 1000 in
      if bytes_eqb ds (data_bytes stream d) then Some (r', o') else None
  | KSinks ds =>
      if all2 (fun s d => bytes_eqb s (data_bytes stream d)) (sinks r) ds then Some (r, orc) else None
  end.

Fixpoint replay (stream : list byte) (total : nat) (r : rd) (orc : oracle) (steps : list (cop * snap)) : bool :=
  match steps with
  | [] => true
  | (op, s) :: rest =>
      match step stream r orc op with
      | None => false
      | Some (r', o') => snap_ok total r' s && replay stream total r' o' rest
      end
  end.

Inductive c01case :=
| CSeq (seed len pre cap0 : Z) (script : list Z) (steps : list (cop * snap)).

Definition check (c : c01case) : bool :=
  match c with
  | CSeq seed len pre cap0 script steps =>
      let stream := gen_stream seed len in
      let p := Z.to_nat pre in
      let sock := skipn p stream in
      let r := wrap_connection (Net sock) (firstn p stream) (Z.to_nat cap0) in
      replay stream (List.length sock) r (oracle_of script) steps
  end.

(* diagnostics: index of the first step on which model and implementation disagree *)
Fixpoint first_bad (stream : list byte) (total : nat) (r : rd) (orc : oracle) (steps : list (cop * snap)) (i : N) : option N :=
  match steps with
  | [] => None
  | (op, s) :: rest =>
      match step stream r orc op with
      | None => Some i
      | Some (r', o') => if snap_ok total r' s then first_bad stream total r' o' rest (i + 1)%N else Some (i + 1000)%N
      end
  end.
Definition where_bad (c : c01case) : option N :=
  match c with
  | CSeq seed len pre cap0 script steps =>
      let stream := gen_stream seed len in
      let p := Z.to_nat pre in
      let sock := skipn p stream in
      first_bad stream (List.length sock) (wrap_connection (Net sock) (firstn p stream) (Z.to_nat cap0)) (oracle_of script) steps 0%N
  end.
