(* Correspondence checker for the real-time engine of C05: each case carries the transport, the
   kind of route list, the timeout, the actual start instant (UnixNano) and the actual instants
   and sizes of the client's sends, and what the implementation did (how matching ended, when
   the compiled route returned, bytes buffered, whether the late read of a handler succeeded).
   [check] runs model/Timing.v on the same schedule and compares within the stated tolerance. *)
From Coq Require Import List ZArith NArith Bool String.
From Coq.Strings Require Import Byte.
From L4 Require Import Hex.
From L4.model Require Import GoBase Router RouterSpec Timing.
From L4.gen Require Import Consts.
Import ListNotations.
Open Scope Z_scope.

Inductive transport := TPipe | TTcp | TUdp.
Inductive kind := KUndecided | KMatchRead | KEmptyFbRead | KNonTermUndecided | KNonTermReadUndecided | KLateSubroute.
Inductive oclass := OTimeout | OFull | ONetErr | ORan | OFallback | ONone.
Inductive hres := RdNone | RdOk | RdFail.

Inductive c05case :=
| TC (tr : transport) (k : kind) (timeout t0 : Z) (sends : list (Z * Z))
     (cls : oclass) (elapsed bytes : Z) (h : hres) (trickle : bool).

Definition oclass_eqb (a b : oclass) : bool :=
  match a, b with
  | OTimeout, OTimeout | OFull, OFull | ONetErr, ONetErr | ORan, ORan | OFallback, OFallback | ONone, ONone => true
  | _, _ => false
  end.
Definition hres_eqb (a b : hres) : bool :=
  match a, b with RdNone, RdNone | RdOk, RdOk | RdFail, RdFail => true | _, _ => false end.

Definition blob (n : Z) : list byte := repeat "a"%byte (Z.to_nat n).

(* a UDP client's write of n bytes travels as datagrams of at most 1200 bytes (what the engine's client does) *)
Fixpoint dgrams (fuel : nat) (at_ : Z) (n : Z) : list (Z * list byte) :=
  match fuel with
  | O => []
  | S f => if n <=? 0 then [] else if n <=? 1200 then [(at_, blob n)] else (at_, blob 1200) :: dgrams f at_ (n - 1200)
  end.

Definition arrivals (tr : transport) (sends : list (Z * Z)) : list (Z * list byte) :=
  match tr with
  | TUdp => flat_map (fun s => dgrams 64 (fst s) (snd s)) sends
  | _ => map (fun s => (fst s, blob (snd s))) sends
  end.

Definition undecided_routes : list route := [Route [[MPrim (thr (Z.to_nat 1048576) Yes)]] [HTerm]].
(* a route without matchers that passes the connection on, then one that never decides *)
Definition nonterm_undecided_routes : list route := [Route [] []; Route [[MPrim (thr (Z.to_nat 1048576) Yes)]] [HTerm]].
(* ... whose non-terminal handler first reads two bytes *)
Definition nonterm_read_undecided_routes : list route := [Route [] [HCons 2]; Route [[MPrim (thr (Z.to_nat 1048576) Yes)]] [HTerm]].
Definition matchread_routes : list route := [Route [[MPrim (thr 1 Yes)]] [HCons 2; HTerm]].

Definition run_model (tr : transport) (k : kind) (timeout : Z) (n : tnet) : res tnet :=
  let sd := match tr with TUdp => udp_set_dl | _ => tcp_set_dl end in
  let rd := match tr with TUdp => udp_read | _ => tcp_read end in
  match k with
  | KUndecided => serve tnet tnow sd rd tpush (need_rs undecided_routes) undecided_routes timeout (st_init n)
  | KMatchRead => serve tnet tnow sd rd tpush (need_rs matchread_routes) matchread_routes timeout (st_init n)
  | KNonTermUndecided => serve tnet tnow sd rd tpush (need_rs nonterm_undecided_routes) nonterm_undecided_routes timeout (st_init n)
  | KLateSubroute =>
      (* the outer route reads two bytes (blocking until the client's second message), then enters a subroute whose
         route never decides; the subroute's deadline is ITS start + timeout *)
      let rs := [Route [] [HCons 2; HSub undecided_routes timeout]] in
      serve tnet tnow sd rd tpush (need_rs rs) rs timeout (st_init n)
  | KNonTermReadUndecided => serve tnet tnow sd rd tpush (need_rs nonterm_read_undecided_routes) nonterm_read_undecided_routes timeout (st_init n)
  | KEmptyFbRead =>
      compile tnet tnow sd rd tpush (need_rs []) 0 [] timeout
        (chain tnet tnow rd tpush (compile tnet tnow sd rd tpush (need_rs [])) 0 0 [HCons 2] (fun s => Cont s)) (st_init n)
  end.

Fixpoint has_run (l : list ev) : bool := match l with [] => false | ERun _ _ _ :: _ => true | _ :: r => has_run r end.
Fixpoint has_fb (l : list ev) : bool := match l with [] => false | EFallback _ _ :: _ => true | _ :: r => has_fb r end.
Fixpoint read_res (l : list ev) : hres :=
  match l with [] => RdNone | ERead _ _ _ :: _ => RdOk | EHErr _ _ :: _ => RdFail | _ :: r => read_res r end.
Definition last_time (t0 : Z) (l : list (Z * ev)) : Z := fold_left (fun _ te => fst te) l t0.

Definition ms : Z := 1000000.

Definition check (c : c05case) : bool :=
  match c with
  | TC trp k timeout t0 sends cls elapsed bytes h trickle =>
      let n := t_init t0 (arrivals trp sends) (t0 + timeout + 20000 * ms) in
      let r := run_model trp k timeout n in
      let trc := tr (res_st r) in
      let es := map snd trc in
      let '(mcls, mend) :=
        match first_drop trc with
        | Some (tm, DTimeout) => (OTimeout, tm)
        | Some (tm, DFull) => (OFull, tm)
        | Some (tm, _) => (ONetErr, tm)
        | None => ((if has_run es then ORan else if has_fb es then OFallback else ONone), last_time t0 trc)
        end in
      let slack := if trickle then timeout / 6 + 5 * ms else 0 in
      oclass_eqb mcls cls
      && (mend - t0 - 5 * ms - slack <=? elapsed) && (elapsed <=? mend - t0 + 400 * ms + slack)
      && hres_eqb (read_res es) h
      && (bytes <=? layer4_MaxMatchingBytes - 1 + layer4_prefetchChunkSize)%Z
      && (match cls with OFull => layer4_MaxMatchingBytes <=? bytes | _ => true end)
      && (match r with Exhausted _ => false | _ => true end)
  end.
