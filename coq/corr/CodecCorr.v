(* Correspondence checker for the WireGuard / Winbox / RDP codecs and matchers (C04 C06 C14 C18):
   each case carries the input and what the real FromBytes / ToBytes / FromChunks / ToChunks /
   Match answered; [check] recomputes it with model/Codec*.v. *)
From Coq Require Import List ZArith NArith Bool String.
From Coq.Strings Require Import Byte.
From L4 Require Import Hex.
From L4.model Require Import GoBase CodecBase CodecWireGuard CodecWinbox CodecRdp.
Import ListNotations.
Open Scope Z_scope.

Inductive ctype := TWgInit | TWgTransport | TWbAuth | TTpkt | TX224 | TNegReq | TCorr | TToken.
(* parsed value as integers + byte strings (field order of the Go struct), and its re-serialisation *)
Inductive cres := ROk (ints : list Z) (blobs : list string) (reser : string) | RErr | RPan.
Inductive crx := XNone | XPrefix (s : string) | XSuffix (s : string) | XExact (s : string) | XContains (s : string).
Inductive mcfg :=
| MWg (zero : Z)
| MWb (std romon : bool) (user : string) (r : crx)
| MRdp (hash : string) (hr : crx) (ips : list (Z * Z)) (ports : list Z) (info : string) (ir : crx).

Inductive ccase :=
| CFrom (t : ctype) (input : string) (r : cres)
| CFromZeros (t : ctype) (n : Z) (r : cres)          (* FromBytes of n zero bytes: long inputs without long literals *)
| CTo (t : ctype) (ints : list Z) (blobs : list string) (out : string)
| CFromChunks (chunks : list (Z * Z * string)) (r : cres)
| CToChunks (ints : list Z) (blobs : list string) (chunks : list (Z * Z * string))
| CMatch (m : mcfg) (input : string) (v : verdict).

Definition rx_of (r : crx) : rx :=
  match r with
  | XNone => RxNone | XPrefix s => RxPrefix (unhex s) | XSuffix s => RxSuffix (unhex s)
  | XExact s => RxExact (unhex s) | XContains s => RxContains (unhex s)
  end.

Definition zi (l : list Z) (i : nat) : N := Z.to_N (nth i l 0).
Definition bl (l : list (list byte)) (i : nat) : list byte := nth i l [].

Definition Zs_eqb (a b : list Z) : bool :=
  (Nat.eqb (List.length a) (List.length b)) && forallb (fun p => fst p =? snd p) (combine a b).
Definition blobs_eqb (a b : list (list byte)) : bool :=
  (Nat.eqb (List.length a) (List.length b)) && forallb (fun p => bytes_eqb (fst p) (snd p)) (combine a b).

(* generic view of a parse: Some (ints, blobs, reserialised) / None None = Err / panic flag *)
Definition view := result (list Z * list (list byte) * list byte).
Definition vmap {A} (r : result A) (f : A -> list Z * list (list byte) * list byte) : view :=
  match r with Ok x => Ok (f x) | Err => Err | RPanic => RPanic end.

Definition nz (n : N) : Z := Z.of_N n.

Definition auth_view (m : msg_auth) := ([bZ (ma_parity m)], [ma_key m; ma_user m], auth_to_bytes m).

Definition model_from (t : ctype) (b : list byte) : view :=
  match t with
  | TWgInit => vmap (init_from_bytes b) (fun m =>
      ([nz (mi_type m); nz (mi_sender m)], [mi_eph m; mi_static m; mi_ts m; mi_mac1 m; mi_mac2 m], init_to_bytes m))
  | TWgTransport => vmap (transport_from_bytes b) (fun m =>
      ([nz (mt_type m); nz (mt_receiver m); nz (mt_counter m)], [mt_content m], transport_to_bytes m))
  | TWbAuth => vmap (auth_from_bytes b) auth_view
  | TTpkt => vmap (tpkt_from_bytes b) (fun h => ([nz (tp_version h); nz (tp_reserved h); nz (tp_length h)], [], tpkt_to_bytes h))
  | TX224 => vmap (x224_from_bytes b) (fun x =>
      ([nz (x_length x); nz (x_typecredit x); nz (x_dstref x); nz (x_srcref x); nz (x_classopts x)], [], x224_to_bytes x))
  | TNegReq => vmap (negreq_from_bytes b) (fun r =>
      ([nz (nr_type r); nz (nr_flags r); nz (nr_length r); nz (nr_protocols r)], [], negreq_to_bytes r))
  | TCorr => vmap (corr_from_bytes b) (fun i =>
      ([nz (ci_type i); nz (ci_flags i); nz (ci_length i)], [ci_identity i; ci_reserved i], corr_to_bytes i))
  | TToken => vmap (token_from_bytes b) (fun t =>
      ([nz (tk_version t); nz (tk_reserved t); nz (tk_length t); nz (tk_li t); nz (tk_typecredit t);
        nz (tk_dstref t); nz (tk_srcref t); nz (tk_classopts t)], [tk_optional t], token_to_bytes t))
  end.

Definition mk_auth (i : list Z) (b : list (list byte)) : msg_auth :=
  {| ma_parity := nb (zi i 0); ma_key := bl b 0; ma_user := bl b 1 |}.

Definition model_to (t : ctype) (i : list Z) (b : list (list byte)) : list byte :=
  match t with
  | TWgInit => init_to_bytes {| mi_type := zi i 0; mi_sender := zi i 1; mi_eph := bl b 0; mi_static := bl b 1;
                                mi_ts := bl b 2; mi_mac1 := bl b 3; mi_mac2 := bl b 4 |}
  | TWgTransport => transport_to_bytes {| mt_type := zi i 0; mt_receiver := zi i 1; mt_counter := zi i 2; mt_content := bl b 0 |}
  | TWbAuth => auth_to_bytes (mk_auth i b)
  | TTpkt => tpkt_to_bytes {| tp_version := zi i 0; tp_reserved := zi i 1; tp_length := zi i 2 |}
  | TX224 => x224_to_bytes {| x_length := zi i 0; x_typecredit := zi i 1; x_dstref := zi i 2; x_srcref := zi i 3; x_classopts := zi i 4 |}
  | TNegReq => negreq_to_bytes {| nr_type := zi i 0; nr_flags := zi i 1; nr_length := zi i 2; nr_protocols := zi i 3 |}
  | TCorr => corr_to_bytes {| ci_type := zi i 0; ci_flags := zi i 1; ci_length := zi i 2; ci_identity := bl b 0; ci_reserved := bl b 1 |}
  | TToken => token_to_bytes {| tk_version := zi i 0; tk_reserved := zi i 1; tk_length := zi i 2; tk_li := zi i 3; tk_typecredit := zi i 4;
                                tk_dstref := zi i 5; tk_srcref := zi i 6; tk_classopts := zi i 7; tk_optional := bl b 0 |}
  end.

Definition view_eqb (v : view) (r : cres) : bool :=
  match v, r with
  | Ok (i, b, s), ROk i' b' s' => Zs_eqb i i' && blobs_eqb b (map unhex b') && bytes_eqb s (unhex s')
  | Err, RErr => true
  | RPanic, RPan => true
  | _, _ => false
  end.

Definition mk_chunk (c : Z * Z * string) : chunk :=
  match c with (l, t, bs) => {| ch_bytes := unhex bs; ch_len := Z.to_N l; ch_type := nb (Z.to_N t) |} end.
Definition chunk_eqb (a b : chunk) : bool :=
  bytes_eqb (ch_bytes a) (ch_bytes b) && (ch_len a =? ch_len b)%N && Byte.eqb (ch_type a) (ch_type b).
Fixpoint chunks_eqb (a b : list chunk) : bool :=
  match a, b with
  | [], [] => true
  | x :: a', y :: b' => chunk_eqb x y && chunks_eqb a' b'
  | _, _ => false
  end.

Definition mk_pfx (p : Z * Z) : pfx := if snd p <? 0 then P6 else P4 (Z.to_N (fst p)) (Z.to_N (snd p)).

Definition model_match (m : mcfg) (p : list byte) : verdict :=
  match m with
  | MWg zero => wg_match zero p
  | MWb std romon user r => wb_match {| wc_std := std; wc_romon := romon; wc_user := unhex user; wc_rx := rx_fun (rx_of r) |} p
  | MRdp hash hr ips ports info ir =>
      rdp_match {| rc_hash := unhex hash; rc_hash_rx := rx_fun (rx_of hr); rc_ips := map mk_pfx ips;
                   rc_ports := map Z.to_N ports; rc_info := unhex info; rc_info_rx := rx_fun (rx_of ir) |} p
  end.

Definition check (c : ccase) : bool :=
  match c with
  | CFrom t input r => view_eqb (model_from t (unhex input)) r
  | CFromZeros t n r => view_eqb (model_from t (repeat x00 (Z.to_nat n))) r
  | CTo t i b out => bytes_eqb (model_to t i (map unhex b)) (unhex out)
  | CFromChunks cs r => view_eqb (vmap (auth_from_chunks (map mk_chunk cs)) auth_view) r
  | CToChunks i b cs => chunks_eqb (auth_to_chunks (mk_auth i (map unhex b))) (map mk_chunk cs)
  | CMatch m input v => verdict_eqb (model_match m (unhex input)) v
  end.
