(* Correspondence checker for C02 (and the untimed part of C05): each case carries a route list
   built from scripted matchers/handlers, the script of the scripted net.Conn, and what the real
   RouteList.Compile (run by Server.handle) did: the ordered trace, how often the connection was
   closed, whether a matcher panic escaped.  [check] re-runs model/Router.v on the same input. *)
From Coq Require Import List ZArith NArith Bool String.
From Coq.Strings Require Import Byte.
From L4 Require Import Hex.
From L4.model Require Import GoBase Router RouterSpec.
Import ListNotations.
Open Scope Z_scope.

(* concrete syntax printed by the engine (numbers are Z in case files) *)
Definition T (k : Z) (v : verdict) : matcher := MPrim (thr (Z.to_nat k) v).
Definition A (k c : Z) (y n : verdict) : matcher := MPrim (at_byte (Z.to_nat k) (byte_of_N (Z.to_N c)) y n).
Definition Nt (sets : list (list matcher)) : matcher := MNot sets.
Definition hC (k : Z) : handler := HCons (Z.to_nat k).
Definition hS (rs : list route) : handler := HSub rs 0.
Definition R (mss : list (list matcher)) (hs : list handler) : route := Route mss hs.
Definition ch (hex : string) : arrival := Chunk (unhex hex).
Definition eRun (d i : Z) (hex : string) := ERun (Z.to_nat d) (Z.to_nat i) (unhex hex).
Definition eRead (d i : Z) (hex : string) := ERead (Z.to_nat d) (Z.to_nat i) (unhex hex).
Definition eFb (d : Z) (hex : string) := EFallback (Z.to_nat d) (unhex hex).
Definition eDrop (d : Z) (w : dropwhy) := EDrop (Z.to_nat d) w.
Definition eHErr (d i : Z) := EHErr (Z.to_nat d) (Z.to_nat i).
Definition ePanic (d i : Z) := EPanic (Z.to_nat d) (Z.to_nat i).

Definition why_eqb (a b : dropwhy) : bool :=
  match a, b with
  | DTimeout, DTimeout | DFull, DFull | DNetErr, DNetErr | DMatchErr, DMatchErr => true
  | _, _ => false
  end.

Definition ev_eqb (a b : ev) : bool :=
  match a, b with
  | EArm, EArm | EClear, EClear => true
  | ERun d i x, ERun d' i' x' => Nat.eqb d d' && Nat.eqb i i' && bytes_eqb x x'
  | ERead d i x, ERead d' i' x' => Nat.eqb d d' && Nat.eqb i i' && bytes_eqb x x'
  | EFallback d x, EFallback d' x' => Nat.eqb d d' && bytes_eqb x x'
  | EDrop d w, EDrop d' w' => Nat.eqb d d' && why_eqb w w'
  | EHErr d i, EHErr d' i' => Nat.eqb d d' && Nat.eqb i i'
  | EPanic d i, EPanic d' i' => Nat.eqb d d' && Nat.eqb i i'
  | _, _ => false
  end.

Fixpoint evs_eqb (a b : list ev) : bool :=
  match a, b with
  | [], [] => true
  | x :: a', y :: b' => ev_eqb x y && evs_eqb a' b'
  | _, _ => false
  end.

(* ESkip and ENext are ghost events of the model (a cached verdict was used; a handler chain handed the
   connection on); the implementation cannot show them *)
Definition visible (e : ev) : bool := match e with ESkip _ _ _ | ENext _ _ _ => false | _ => true end.

(* what can be seen of a run through the REAL subroute module from outside it: fallbacks and drops of
   nested route lists are internal to the module (its own logger, its own next) *)
Definition visible_outside (e : ev) : bool :=
  match e with
  | ESkip _ _ _ | ENext _ _ _ => false
  | EFallback (S _) _ => false
  | EDrop (S _) _ => false
  | _ => true
  end.
Definition is_herr (e : ev) : bool := match e with EHErr _ _ => true | _ => false end.

Inductive c02case :=
| RC (rs : list route) (script : list arrival) (obs : list ev) (closed : Z) (panicked : bool)
(* one connection through a provisioned route list containing real subroute handlers (any connection
   of a sequence: the model is the same for the first and for every later one) *)
| RS (rs : list route) (script : list arrival) (obs : list ev) (returned_error : bool).

(* fuel: [need_rs rs] — with it the model provably never returns Exhausted on the engine's scripts
   (proofs/RouterTotal.v: s_serve_total; the scripts have no empty chunk) *)
Definition corr_fuel (rs : list route) : nat := need_rs rs.

Definition check (c : c02case) : bool :=
  match c with
  | RC rs script obs closed panicked =>
      let r := s_serve (corr_fuel rs) rs [] script in
      evs_eqb (filter visible (evs (res_st r))) obs
      && (closed =? 1)     (* Server.handle closes the connection exactly once whatever the outcome *)
      && match r with
         | Crash _ => panicked
         | Exhausted _ => false
         | _ => negb panicked
         end
  | RS rs script obs reterr =>
      let r := s_serve (corr_fuel rs) rs [] script in
      evs_eqb (filter visible_outside (evs (res_st r))) obs
      && Bool.eqb (existsb is_herr (evs (res_st r))) reterr
      && match r with Crash _ | Exhausted _ => false | _ => true end
  end.
