(* Shared by all correspondence case files: run a boolean checker over the observed cases and
   list the indices that disagree. *)
From Coq Require Import List NArith.
Import ListNotations.

Fixpoint mismatches_from {A} (chk : A -> bool) (i : N) (l : list A) : list N :=
  match l with
  | [] => []
  | c :: r => if chk c then mismatches_from chk (i + 1)%N r else i :: mismatches_from chk (i + 1)%N r
  end.
Definition mismatches {A} (chk : A -> bool) (l : list A) : list N := mismatches_from chk 0%N l.
