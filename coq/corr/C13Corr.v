(* Correspondence checker for C13: the history observed on the real ListenerWrapper
   (loop accepted c / Accept returned c / the wrapper closed c / Accept returned ErrClosed /
   Close was called) is replayed on model/Listener.v.  The hidden steps (handler progress, the
   send, wg.Done, loop break, close(done), waiter) are inserted by a fixed strategy: a hijacked
   connection is sent immediately before it is received (by Accept or by the drain), so the
   channel never holds more than one element during the replay and the strategy succeeds for every
   history the model can produce with the same observables.  [check] demands that every step is
   enabled in the model, that the observed receiver got exactly the connection the model's FIFO
   channel yields, and that, at the end, the model can finish: loop exited, all handlers
   returned, every accepted connection delivered xor closed. *)
From Coq Require Import List ZArith NArith Bool Arith.
From L4.model Require Import Listener.
Import ListNotations.

Inductive obs := OArr (c : Z) | ODel (c : Z) | OCls (c : Z) | OAErr | OClose.

Inductive c13case := CHist (cap : Z) (cs : list (Z * outcome)) (es : list obs) (quiesced : bool).

Definition zc (c : Z) : conn := Z.to_nat c.

Fixpoint lookup (c : Z) (cs : list (Z * outcome)) : option outcome :=
  match cs with
  | [] => None
  | (k, o) :: r => if Z.eqb k c then Some o else lookup c r
  end.

(* steps that bring handler c to the point where it has sent *)
Definition pre_send (s : state) (c : conn) : list event :=
  match hs s c with
  | Some (HStart _) => [ERun c; ESend c]
  | Some HSending => [ESend c]
  | _ => []
  end.

(* steps that bring the loop into its drain phase; only after Close *)
Definition to_drain (s : state) : option (list event) :=
  match loop s with
  | LAccept => if closed_flag s then Some [EAcceptFail; ECloseDone] else None
  | LBroke => Some [ECloseDone]
  | LDrain => Some []
  | LExit => None
  end.

Definition head_is (l : list conn) (c : conn) : bool :=
  match l with x :: _ => Nat.eqb x c | [] => false end.

Definition replay1 (cap : nat) (cs : list (Z * outcome)) (s : state) (o : obs) : option state :=
  match o with
  | OArr c =>
      match lookup c cs with
      | Some oc => step cap s (EArrive (zc c) oc)
      | None => None
      end
  | ODel c =>
      match run cap s (pre_send s (zc c) ++ [EAcceptRecv]) with
      | Some s' => if head_is (delivered s') (zc c) && Nat.eqb (length (delivered s')) (S (length (delivered s))) then Some s' else None
      | None => None
      end
  | OCls c =>
      match lookup c cs with
      | Some Hijack =>
          match to_drain s with
          | Some pre =>
              match run cap s (pre ++ pre_send s (zc c) ++ [EDrainRecv]) with
              | Some s' => if head_is (closedc s') (zc c) then Some s' else None
              | None => None
              end
          | None => None
          end
      | Some _ =>
          run cap s (match hs s (zc c) with Some (HStart _) => [ERun (zc c)] | _ => [] end
                     ++ [EWgDone (zc c); EConnClose (zc c)])
      | None => None
      end
  | OAErr =>
      if done s then step cap s EAcceptDone
      else match to_drain s with
           | Some pre => run cap s (pre ++ [EAcceptDone])
           | None => None
           end
  | OClose => step cap s EClose
  end.

Fixpoint replay (cap : nat) (cs : list (Z * outcome)) (s : state) (es : list obs) : option state :=
  match es with
  | [] => Some s
  | o :: r => match replay1 cap cs s o with Some s' => replay cap cs s' r | None => None end
  end.

(* let every handler that has sent return, then let the loop and the waiter finish *)
Definition finish (cap : nat) (s : state) : option state :=
  let dones := flat_map (fun c => match hs s c with Some HSent => [EWgDone c] | _ => [] end) (conns s) in
  match run cap s dones with
  | Some s1 =>
      match to_drain s1 with
      | Some pre => run cap s1 (pre ++ [EWaiter; EDrainExit])
      | None => None
      end
  | None => None
  end.

Definition is_final (s : state) : bool :=
  lstate_eqb (loop s) LExit && chan_closed s &&
  match chan s with [] => true | _ => false end &&
  forallb (fun c => match hs s c with None => true | Some _ => false end) (conns s).

Definition accounted (s : state) : bool :=
  forallb (fun p =>
    let c := fst p in
    let d := count_occ Nat.eq_dec (delivered s) c in
    let k := count_occ Nat.eq_dec (closedc s) c in
    if is_hijack (snd p) then Nat.eqb (d + k) 1 else Nat.eqb d 0 && Nat.eqb k 1) (arrived s).

Definition check (c : c13case) : bool :=
  match c with
  | CHist cap cs es q =>
      match replay (Z.to_nat cap) cs init es with
      | Some s =>
          match finish (Z.to_nat cap) s with
          | Some f => q && is_final f && accounted f && negb (panicked f)
          | None => false
          end
      | None => false
      end
  end.
