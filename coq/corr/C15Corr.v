(* Correspondence checker for C15.  A case carries the abstract configuration the engine
   generated, the tokens Caddy's lexer produced for the Caddyfile text that was fed to the real
   adapter, and the adapter's JSON (parsed, keys sorted).  [check] recomputes, inside Coq:
   - the hypotheses of the structural theorem hold for the configuration ([config_ok], leaf domains);
   - for canonical layouts the model's printer yields exactly the lexed tokens;
   - the model of layer4/caddyfile.go + leaves ([adapt_l4]) on those tokens yields the adapter's JSON;
   - the configuration's stated JSON ([to_json_l4]) is the adapter's JSON. *)
From Coq Require Import List ZArith NArith Bool String.
From L4.model Require Import Caddyfile CaddyfileLeaves.
Import ListNotations.

Definition tok_eqb (a b : tok) : bool :=
  match a, b with
  | W x, W y => String.eqb x y
  | LB, LB | RB, RB | NL, NL => true
  | _, _ => false
  end.
Fixpoint toks_eqb (a b : list tok) : bool :=
  match a, b with
  | [], [] => true
  | x :: a', y :: b' => tok_eqb x y && toks_eqb a' b'
  | _, _ => false
  end.

Definition jeq (a b : json) : bool := json_eqb (canon a) (canon b).
Definition ojeq (a : option json) (b : json) : bool :=
  match a with Some j => jeq j b | None => false end.

Inductive c15case :=
| CGlob (canonical : bool) (cfg : configT) (toks : list tok) (obs : json)
| CLw (canonical : bool) (rb : rblockT) (toks : list tok) (obs : json)
| CTokG (toks : list tok) (obs : json)
| CTokL (toks : list tok) (obs : json).

Fixpoint seg_eqb (a b : seg) {struct a} : bool :=
  match a, b with
  | Seg w1 h1 b1, Seg w2 h2 b2 =>
      (if list_eq_dec string_dec w1 w2 then true else false) && Bool.eqb h1 h2 &&
      (fix go (x y : list seg) : bool :=
         match x, y with
         | [], [] => true
         | s :: x', t :: y' => seg_eqb s t && go x' y'
         | _, _ => false
         end) b1 b2
  end.

Definition lw_seg_of (toks : list tok) : option seg :=
  match parse_file toks with
  | Some (Seg [] true [Seg ["servers"%string] true [Seg ["listener_wrappers"%string] true lws]] :: _) =>
      match filter is_layer4 lws with s :: _ => Some s | [] => None end
  | _ => None
  end.

Definition check (c : c15case) : bool :=
  match c with
  | CGlob canonical cfg toks obs =>
      config_ok_l4 cfg &&
      (if canonical then toks_eqb (print_l4 cfg) toks else true) &&
      ojeq (adapt_l4 toks) obs &&
      jeq (to_json_l4 cfg) obs
  | CLw canonical rb toks obs =>
      rblock_ok_l4 rb &&
      (if canonical then
         match lw_seg_of toks with
         | Some s => seg_eqb s (Seg ["layer4"%string] true (rblock_segs_l4 rb))
         | None => false
         end
       else true) &&
      ojeq (option_map JArr (adapt_lw_l4 toks)) obs &&
      jeq (JArr [lw_json_l4 rb]) obs
  | CTokG toks obs => ojeq (adapt_l4 toks) obs
  | CTokL toks obs => ojeq (option_map JArr (adapt_lw_l4 toks)) obs
  end.
