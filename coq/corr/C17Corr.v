(* Correspondence checker for C17: each case carries the input and what the implementation
   answered; [check] recomputes the answer with model/TokenBucket.v.
   CReserve   rate.NewLimiter(lp/lq, burst) driven by ReserveN(t, n) at the given instants:
              observed (DelayFrom(t) in ns, TokensAt(t) in units of 1/(lq*10^9) token; -1 = not compared)
   CReserveApprox the same with arbitrary rates and instants: float64 rounding allowed for, the
              delays must agree within tol nanoseconds (InfDuration exactly); tokens not compared
   CProvision Handler.Provision on a configuration: error?, the two burst sizes afterwards, totalLimiter != nil
   CChain     several provisioned throttle handlers in one chain (cfgs in the order the handlers run,
              i.e. the last one wraps outermost) over a scripted socket: observed (len of the slice
              the socket's Read was given, count returned) for every Read(p) of the next handler
   CRead      Handler.Handle on a layer4.Connection that still holds [pre] prefetched bytes, then
              throttledConn.Read over a scripted inner connection holding [avail]
              bytes and handing over at most [chunk] per Read: observed (len of the slice the inner
              Read was given, n returned) for every Read(p) of the given lengths *)
From Coq Require Import List ZArith NArith Bool String.
From Coq.Strings Require Import Byte.
From L4 Require Import Hex.
From L4.model Require Import TokenBucket.
Import ListNotations.
Open Scope Z_scope.

Definition T (rp rq : Z) (rmax : bool) (rburst trp trq : Z) (trmax : bool) (tburst lat : Z) : tconfig :=
  {| rp := rp; rq := rq; rmax := rmax; rburst := rburst; trp := trp; trq := trq; trmax := trmax; tburst := tburst; latency := lat |}.

Inductive c17case :=
| CReserve (lp lq burst : Z) (inf : bool) (reqs : list (Z * Z)) (obs : list (Z * Z))
| CReserveApprox (lp lq burst tol : Z) (reqs : list (Z * Z)) (obs : list (Z * Z))
| CProvision (cfg : tconfig) (ok : bool) (rb tb : Z) (hast : bool)
| CChain (cfgs : list tconfig) (avail chunk : Z) (lens : list Z) (obs : list (Z * Z))
| CRead (cfg : tconfig) (pre avail chunk : Z) (lens errs : list Z) (obs ret : list (Z * Z)) (consT consL : Z).

Fixpoint res_seq (L : limiter) (st : lstate) (reqs : list (Z * Z)) : list (Z * Z) :=
  match reqs with
  | [] => []
  | (t, n) :: r =>
      let '(st', d) := reserve_delay L st t n in
      (d, if linf L then -1 else tokens_at L st' t) :: res_seq L st' r
  end.

Fixpoint zz_eqb (a b : list (Z * Z)) : bool :=
  match a, b with
  | [], [] => true
  | (x1, y1) :: a', (x2, y2) :: b' => (x1 =? x2) && ((y1 =? y2) || (y2 =? -1)) && zz_eqb a' b'
  | _, _ => false
  end.

Fixpoint zz_near (tol : Z) (a b : list (Z * Z)) : bool :=
  match a, b with
  | [], [] => true
  | (x1, _) :: a', (x2, _) :: b' =>
      (if (x1 =? inf_duration) || (x2 =? inf_duration) then x1 =? x2 else Z.abs (x1 - x2) <=? tol) && zz_near tol a' b'
  | _, _ => false
  end.

Fixpoint provision_all (cfgs : list tconfig) : option (list handler) :=
  match cfgs with
  | [] => Some []
  | c :: r => match provision c, provision_all r with Some h, Some hs => Some (h :: hs) | _, _ => None end
  end.

Definition rets_of (tr : list ev) : list (Z * Z) :=
  flat_map (fun e => match e with EPull _ _ _ bs er => [(Z.of_nat (List.length bs), er)] | _ => [] end) tr.

(* what every Read returned: buffer reads (n, nil), the others what the throttled conn returned *)
Fixpoint merge_rets (plan : list (Z + Z)) (rs : list (Z * Z)) : list (Z * Z) :=
  match plan with
  | [] => []
  | inl n :: p => (n, 0) :: merge_rets p rs
  | inr _ :: p => match rs with r :: rs' => r :: merge_rets p rs' | [] => [] end
  end.

Definition consumed (L : limiter) (st : lstate) : Z := (lburst L * unit L - tok st) / unit L.

Definition pulls_of (tr : list ev) : list (Z * Z) :=
  flat_map (fun e => match e with EPull _ _ b bs _ => [(b, Z.of_nat (List.length bs))] | _ => [] end) tr.

Definition check (c : c17case) : bool :=
  match c with
  | CReserve lp lq burst inf reqs obs =>
      let L := {| lp := lp; lq := lq; lburst := burst; linf := inf |} in
      zz_eqb (res_seq L (new_limiter L) reqs) obs
  | CReserveApprox lp lq burst tol reqs obs =>
      let L := {| lp := lp; lq := lq; lburst := burst; linf := false |} in
      zz_near tol (res_seq L (new_limiter L) reqs) obs
  | CProvision cfg ok rb tb hast =>
      match provision cfg with
      | None => negb ok
      | Some h =>
          ok && (match hlocal h with Some L => lburst L | None => 0 end =? rb)
             && (match htotal h with Some L => lburst L | None => 0 end =? tb)
             && Bool.eqb (match htotal h with Some _ => true | None => false end) hast
      end
  | CChain cfgs avail chunk lens obs =>
      match provision_all cfgs with
      | None => false
      | Some hs =>
          let sess := [{| sstart := 0; sjit := 0; scancel := false; sdata := repeat x00 (Z.to_nat avail) |}] in
          let reads := map (fun l => (0, {| oc := 0; olen := l; odelay := 0; oj2 := 0; oj3 := 0; oavail := chunk; oerr := 0 |}, 0)) lens in
          match rev (chain_run (chain_init (rev hs) sess) reads) with
          | (_, _, tr) :: _ => zz_eqb (pulls_of tr) obs
          | [] => match obs with [] => true | _ => false end
          end
      end
  | CRead cfg pre avail chunk lens0 errs obs ret consT consL =>
      match provision cfg with
      | None => false
      | Some h =>
          let ss := [{| sstart := 0; sjit := 0; scancel := false; sdata := repeat x00 (Z.to_nat avail) |}] in
          let plan := cx_plan pre lens0 in
          let lens := flat_map (fun x => match x with inr l => [l] | inl _ => [] end) plan in
          let ops := map (fun le => {| oc := 0; olen := fst le; odelay := 0; oj2 := 0; oj3 := 0; oavail := chunk; oerr := snd le |}) (combine lens errs) in
          let '(w, tr) := run h ss ops in
          zz_eqb (pulls_of tr) obs && (List.length lens =? List.length errs)%nat
          && zz_eqb (merge_rets plan (rets_of tr)) ret
          && ((consT =? -1) || (match htotal h with Some L => consumed L (wtotal w) | None => 0 end =? consT))
          && ((consL =? -1) || (match hlocal h with Some L => consumed L (wlocal w 0%nat) | None => 0 end =? consL))
      end
  end.
