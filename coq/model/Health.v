(* Model of the health / retry / limit accounting of modules/l4proxy:
     proxy.go        Handle's retry loop, countFailure (increment now, decrement after fail_duration
                     in a forgetter goroutine), where proxied connections are counted
     loadbalancing.go  LoadBalancing.tryAgain
     healthchecks.go doActiveHealthCheck -> peer.setHealthy (compare-and-swap of the flag)
     upstream.go     peer counters; available/healthy/full are taken from model/Select.v
   over time-stamped event histories.  Times are integers (the engine uses milliseconds).
   No proofs here. *)
From Coq Require Import List ZArith Bool.
From Coq.Strings Require Import Byte.
From L4.gen Require Import Shape.
From L4.model Require Import Select.
Import ListNotations.
Open Scope Z_scope.

(* ---- what the generated shape facts say about the code ---- *)

(* a proxied connection is counted up and down on its peers (peer.countConn has call sites) *)
Definition conns_counted : bool :=
  (1 <=? l4proxy_countConn_up_calls) && (1 <=? l4proxy_countConn_down_calls).
(* countFailure = countFail(1) now, countFail(-1) after exactly fail_duration *)
Definition forgetter_exact : bool :=
  l4proxy_forgetter_sleeps_fail_duration && l4proxy_countFailure_up_down.
Definition try_again_exact : bool :=
  l4proxy_tryAgain_compares_try_duration && l4proxy_tryAgain_sleeps_try_interval.

(* ---- configuration ---- *)

Record hcfg := mkH {
  passive : bool;            (* HealthChecks.Passive != nil *)
  fail_duration : Z;         (* Passive.FailDuration; 0 disables failure counting *)
  max_fails_raw : Z;         (* Passive.MaxFails as configured *)
  topo : list (list nat);    (* upstream -> its peers (indices into the global peer table) *)
  max_conns : list Z         (* Upstream.MaxConnections after provision: [effective_max_conns] of the configured values *)
}.

(* Provision: fail_duration > 0 and max_fails = 0 means max_fails = 1 *)
Definition max_fails (c : hcfg) : Z :=
  if negb (passive c) then 0
  else if (0 <? fail_duration c) && (max_fails_raw c =? 0) then 1 else max_fails_raw c.

Definition counting (c : hcfg) : bool := passive c && negb (fail_duration c =? 0).

(* Upstream.provision: the passive unhealthy_connection_count is the default for upstreams without
   max_connections of their own; neither fail_duration nor max_fails has a say in it *)
Definition effective_max_conns (passive_on : bool) (unhealthy_conn_count raw : Z) : Z :=
  if raw =? 0 then (if passive_on && (0 <? unhealthy_conn_count) then unhealthy_conn_count else 0) else raw.

(* ---- events ---- *)

Inductive ev :=
| DialFail (p : nat)              (* dialPeers failed on peer p: countFailure(p) *)
| Open (u : nat)                  (* dialPeers succeeded for upstream u: the connection is proxied from now on *)
| Close (u : nat)                 (* that connection ended *)
| Probe (p : nat) (ok : bool).    (* doActiveHealthCheck(p) finished *)

Definition tev := (Z * ev)%type.

Record hst := mkHS {
  h_fails : nat -> Z;
  h_unhealthy : nat -> Z;
  h_conns : nat -> Z;             (* peer.numConns *)
  h_pending : list (Z * nat);     (* sleeping forgetters: (wake-up time, peer) *)
  h_open : nat -> Z               (* ghost: proxied connections currently open per upstream *)
}.

Definition hinit : hst := mkHS (fun _ => 0) (fun _ => 0) (fun _ => 0) [] (fun _ => 0).

Definition updz (f : nat -> Z) (i : nat) (v : Z) : nat -> Z := fun j => if Nat.eqb j i then v else f j.
Definition addz (f : nat -> Z) (i : nat) (d : Z) : nat -> Z := updz f i (f i + d).

(* wake every forgetter whose sleep has ended by time t *)
Fixpoint fire (t : Z) (pend : list (Z * nat)) (fails : nat -> Z) : list (Z * nat) * (nat -> Z) :=
  match pend with
  | [] => ([], fails)
  | (d, p) :: r =>
      let '(r', f') := fire t r fails in
      if d <=? t then (r', addz f' p (-1)) else ((d, p) :: r', f')
  end.

Definition advance (t : Z) (s : hst) : hst :=
  let '(pend, f) := fire t (h_pending s) (h_fails s) in
  mkHS f (h_unhealthy s) (h_conns s) pend (h_open s).

Definition peers_of (c : hcfg) (u : nat) : list nat := nth u (topo c) [].

Definition count_all (f : nat -> Z) (ps : list nat) (d : Z) : nat -> Z :=
  fold_left (fun g p => addz g p d) ps f.

(* setHealthy: CompareAndSwap(&unhealthy, compare, new) *)
Definition set_healthy (old : Z) (healthy : bool) : Z :=
  let '(nw, cmp) := if healthy then (0, 1) else (1, 0) in
  if old =? cmp then nw else old.

Definition apply_ev (c : hcfg) (s0 : hst) (te : tev) : hst :=
  let '(t, e) := te in
  let s := advance t s0 in
  match e with
  | DialFail p =>
      if counting c
      then mkHS (addz (h_fails s) p 1) (h_unhealthy s) (h_conns s) (h_pending s ++ [(t + fail_duration c, p)]) (h_open s)
      else s
  | Open u =>
      mkHS (h_fails s) (h_unhealthy s)
           (if conns_counted then count_all (h_conns s) (peers_of c u) 1 else h_conns s)
           (h_pending s) (addz (h_open s) u 1)
  | Close u =>
      mkHS (h_fails s) (h_unhealthy s)
           (if conns_counted then count_all (h_conns s) (peers_of c u) (-1) else h_conns s)
           (h_pending s) (addz (h_open s) u (-1))
  | Probe p ok =>
      mkHS (h_fails s) (updz (h_unhealthy s) p (set_healthy (h_unhealthy s p) ok)) (h_conns s) (h_pending s) (h_open s)
  end.

Definition run_hist (c : hcfg) (h : list tev) : hst := fold_left (apply_ev c) h hinit.

(* the state an observer sees at time t after the history h (all of whose events are <= t) *)
Definition state_at (c : hcfg) (h : list tev) (t : Z) : hst := advance t (run_hist c h).

(* ---- the upstream as the selection policies see it (model/Select.v) ---- *)

Definition to_upstream (c : hcfg) (s : hst) (u : nat) : upstream :=
  {| peers := map (fun p => {| numConns := h_conns s p; unhealthy := h_unhealthy s p; fails := h_fails s p |}) (peers_of c u);
     maxConns := nth u (max_conns c) 0;
     maxFails := max_fails c;
     uname := [] |}.

Definition avail (c : hcfg) (s : hst) (u : nat) : bool := available (to_upstream c s u).

(* ---- specification side: the failure window ---- *)

(* failures of peer p remembered at time t: those with time stamp in (t - D, t] *)
Definition window_count (c : hcfg) (h : list tev) (t : Z) (p : nat) : Z :=
  if counting c then
    Z.of_nat (length (filter (fun te => match te with
                                        | (t', DialFail q) => Nat.eqb q p && (t - fail_duration c <? t') && (t' <=? t)
                                        | _ => false end) h))
  else 0.

(* time stamps are non-decreasing from [lo] on ([sortedb]) and none is later than the observation time *)
Definition times_le (h : list tev) (t : Z) : Prop := Forall (fun te => fst te <= t) h.

Fixpoint sortedb (h : list tev) (lo : Z) : bool :=
  match h with
  | [] => true
  | (t, _) :: r => (lo <=? t) && sortedb r t
  end.

(* histories in which connections are admitted one at a time: an Open happens only while the
   upstream is available and a Close only for an open connection *)
Fixpoint admitted (c : hcfg) (s : hst) (h : list tev) : Prop :=
  match h with
  | [] => True
  | (t, e) :: r =>
      (match e with
       | Open u => avail c (advance t s) u = true /\ (u < length (topo c))%nat /\ peers_of c u <> []
       | Close u => 0 < h_open s u
       | _ => True
       end) /\ admitted c (apply_ev c s (t, e)) r
  end.

Fixpoint admittedb (c : hcfg) (s : hst) (h : list tev) : bool :=
  match h with
  | [] => true
  | (t, e) :: r =>
      (match e with
       | Open u => avail c (advance t s) u && (Nat.ltb u (length (topo c))) && negb (match peers_of c u with [] => true | _ => false end)
       | Close u => 0 <? h_open s u
       | _ => true
       end) && admittedb c (apply_ev c s (t, e)) r
  end.

(* ---- Handle's retry loop ---- *)

Inductive attempt :=
| ANoUpstream            (* Select returned nil *)
| ADialErr (e : Z)       (* dialPeers failed with error e *)
| ADialOk.

Definition err_no_upstreams : Z := -1.   (* "no upstreams available" *)

Inductive outcome := Proxied | Failed (e : Z) | OracleExhausted.

(* each oracle entry: the attempt's outcome, how long the attempt took until tryAgain read the
   clock, and by how much the following sleep overshot try_interval *)
Definition att := (attempt * Z * Z)%type.

Fixpoint handle_loop (try_duration try_interval start now : Z) (proxyErr : option Z) (atts : list att)
  : list Z * outcome :=
  match atts with
  | [] => ([], OracleExhausted)
  | (a, d, j) :: r =>
      let err' := match a with
                  | ANoUpstream => match proxyErr with None => Some err_no_upstreams | s => s end
                  | ADialErr e => Some e
                  | ADialOk => proxyErr
                  end in
      match a with
      | ADialOk => ([now], Proxied)
      | _ =>
          (* tryAgain: time.Since(start) >= try_duration ? stop : sleep try_interval *)
          if (now + d - start) >=? try_duration
          then ([now], Failed (match err' with Some e => e | None => err_no_upstreams end))
          else let '(ts, o) := handle_loop try_duration try_interval start (now + d + try_interval + j) err' r in
               (now :: ts, o)
      end
  end.

Definition handle (try_duration try_interval start : Z) (atts : list att) : list Z * outcome :=
  handle_loop try_duration try_interval start start None atts.

(* the last error among the attempts made *)
Fixpoint last_error (atts : list attempt) (cur : option Z) : option Z :=
  match atts with
  | [] => cur
  | ANoUpstream :: r => last_error r (match cur with None => Some err_no_upstreams | s => s end)
  | ADialErr e :: r => last_error r (Some e)
  | ADialOk :: r => last_error r cur
  end.

(* ---- active checks: what the flag should be ---- *)
Fixpoint last_probe (h : list tev) (p : nat) (cur : option bool) : option bool :=
  match h with
  | [] => cur
  | (_, Probe q ok) :: r => last_probe r p (if Nat.eqb q p then Some ok else cur)
  | _ :: r => last_probe r p cur
  end.
