(* Models of the "small" connection matchers, transcribed from /repo:

     ssh             modules/l4ssh/matcher.go            MatchSSH.Match
     xmpp            modules/l4xmpp/matcher.go           MatchXMPP.Match
     postgres        modules/l4postgres/matcher.go       MatchPostgres.Match, message.ReadUint32/ReadString
     proxy_protocol  modules/l4proxyprotocol/matcher.go  MatchProxyProtocol.Match
     socks4, socks5  modules/l4socks/socks{4,5}_matcher.go
     regexp          modules/l4regexp/matcher.go         byte-count gate; the regex engine is a function argument
     clock           modules/l4clock/matcher.go          Provision's normalisation + Match on a time value
     remote_ip, local_ip, not   layer4/matchers.go
     http gate       modules/l4http/httpmatcher.go       MatchHTTP.isHttp + the need-more branch of Match
     tls gate        modules/l4tls/matcher.go            record header / exact read of MatchTLS.Match

   A stream matcher is  cfg -> list byte -> verdict * N : the verdict of Match in matching mode on a
   connection whose prefetched bytes are the list, and the number of bytes it asked make() for
   (fixed sizes and sizes taken from length fields; constant-size bookkeeping is not counted).
   Go partiality is explicit: slice/index give Panic, uint32 arithmetic wraps.  No proofs here. *)
From Coq Require Import String.
From Coq Require Import List NArith ZArith Bool Arith.
From Coq.Strings Require Import Byte.
From L4 Require Import Hex.
From L4.gen Require Import Consts Shape.
From L4.model Require Import GoBase.
Import ListNotations.

Definition res := (verdict * N)%type.
Definition matcher := list byte -> verdict.

Definition maxMatching : N := Z.to_N layer4_MaxMatchingBytes.
Definition alloc_bound : N := 16 * maxMatching.

(* ---- Go integer arithmetic ---- *)
Definition two32 : N := 4294967296.
Definition sub32 (a b : N) : N := ((a + two32 - b) mod two32)%N.
Definition add32 (a b : N) : N := ((a + b) mod two32)%N.

(* io.ReadFull(cx, make([]byte, n)) for a length n computed from the input: the comparison is done
   in N so that a 4 GiB request never becomes a unary number *)
Definition read_fullN (n : N) (p : list byte) : option (list byte * list byte) :=
  if (N.of_nat (length p) <? n)%N then None else Some (firstn (N.to_nat n) p, skipn (N.to_nat n) p).

(* strings.Contains / bytes.Contains *)
Fixpoint contains (s w : list byte) : bool :=
  has_prefix s w || match s with [] => false | _ :: r => contains r w end.

(* ------------------------------------------------------------------ ssh *)
Definition ssh_prefix : list byte := l4ssh_sshPrefix.

Definition ssh_run (p : list byte) : res :=
  let n := length ssh_prefix in                       (* p := make([]byte, len(sshPrefix)) *)
  match read_full n p with
  | None => (More, N.of_nat n)                        (* io.ReadFull error *)
  | Some (b, _) => (if bytes_eqb b ssh_prefix then Yes else No, N.of_nat n)
  end.

(* ------------------------------------------------------------------ xmpp *)
Definition xmpp_word : list byte := N_to_be (Z.to_nat l4xmpp_xmppWord_len) (Z.to_N l4xmpp_xmppWord_be).
Definition xmpp_min : nat := Z.to_nat l4xmpp_minXmppLength.

Definition xmpp_run (p : list byte) : res :=
  match read_full xmpp_min p with
  | None => (More, N.of_nat xmpp_min)
  | Some (b, _) => (if contains b xmpp_word then Yes else No, N.of_nat xmpp_min)
  end.

(* ------------------------------------------------------------------ postgres *)
Definition pg_lenlen : N := Z.to_N l4postgres_initMessageSizeLength.
Definition pg_sslcode : N := Z.to_N l4postgres_sslRequestCode.

(* Which bounds checks the source has (tools/l4gen reads them from the working tree):
     pg_chk_len   Match rejects a length field below initMessageSizeLength or one whose payload
                  exceeds layer4.MaxMatchingBytes before make()
     pg_chk_code  Match rejects a payload shorter than the 4-byte request code
     pg_chk_str   ReadString reports an offset that is already past the end of the message *)
Definition pg_chk_len : bool := l4postgres_match_checks_length.
Definition pg_chk_code : bool := l4postgres_match_checks_code.
Definition pg_chk_str : bool := l4postgres_readstring_checks_offset.

(* position of a message reader: [Some rest] when offset <= len(data) with rest = data[offset:],
   [None] when offset = len(data)+1 (one past the end, after a string without terminator) *)
Definition pg_state := option (list byte).

(* message.ReadString.  Outer None: data[end] indexes out of range (or, with the check, ok=false) *)
Definition pg_read_string (st : pg_state) : option (list byte * pg_state) :=
  match st with
  | None => None
  | Some rest =>
      match index_byte rest x00 with
      | Some k => Some (firstn k rest, Some (skipn (S k) rest))
      | None => Some (rest, None)
      end
  end.

Inductive pg_out := PgCount (n : N) | PgPast | PgFuel.

(* the parameter loop of Match; n counts the map insertions (the map is non-empty iff n > 0) *)
Fixpoint pg_params (fuel : nat) (st : pg_state) (n : N) : pg_out :=
  match fuel with
  | O => PgFuel
  | S f =>
      match pg_read_string st with
      | None => PgPast
      | Some (k, st1) =>
          match k with
          | [] => PgCount n
          | _ :: _ =>
              match pg_read_string st1 with
              | None => PgPast
              | Some (_, st2) => pg_params f st2 (n + 1)
              end
          end
      end
  end.

(* Match, parameterised by the three checks so that the unrepaired code is the instance
   (false,false,false) *)
Definition pg_run_gen (chk_len chk_code chk_str : bool) (p : list byte) : res :=
  match read_full (N.to_nat pg_lenlen) p with
  | None => (More, pg_lenlen)
  | Some (head, rest) =>
      let len := be_N head in                                   (* binary.BigEndian.Uint32(head) *)
      if chk_len && ((len <? pg_lenlen) || (maxMatching <? sub32 len pg_lenlen))%N then (No, pg_lenlen) else
      let n := sub32 len pg_lenlen in                           (* uint32 subtraction wraps *)
      let alloc := (pg_lenlen + n)%N in                         (* make([]byte, n) *)
      match read_fullN n rest with
      | None => (More, alloc)
      | Some (data, _) =>
          if chk_code && (length data <? 4)%nat then (No, alloc) else
          match slice data 0 4 with                             (* ReadUint32: b.data[0:4] *)
          | None => (Panic, alloc)
          | Some c4 =>
              let code := be_N c4 in
              if (code =? pg_sslcode)%N then (Yes, alloc) else
              if (code / 65536 <? 3)%N then (Fail, alloc) else
              match pg_params (S (length data)) (Some (skipn 4 data)) 0 with
              | PgFuel => (Panic, alloc)
              | PgPast => (if chk_str then No else Panic, alloc)
              | PgCount c => (if (0 <? c)%N then Yes else No, alloc)
              end
          end
      end
  end.

Definition pg_run : list byte -> res := pg_run_gen pg_chk_len pg_chk_code pg_chk_str.
Definition pg_run_v0 : list byte -> res := pg_run_gen false false false.   (* tree before the repairs *)

(* ------------------------------------------------------------------ proxy_protocol *)
Definition pp_v1 : list byte := l4proxyprotocol_headerV1Prefix.
Definition pp_v2 : list byte := l4proxyprotocol_headerV2Prefix.

Definition pp_run (p : list byte) : res :=
  let n := length pp_v2 in
  match read_full n p with
  | None => (More, N.of_nat n)
  | Some (buf, _) =>
      (if has_prefix buf pp_v1 then Yes else if bytes_eqb buf pp_v2 then Yes else No, N.of_nat n)
  end.

(* ------------------------------------------------------------------ netip.Prefix.Contains *)
Record cidr := { c_is6 : bool; c_addr : N; c_bits : N }.
Record addr := { a_is6 : bool; a_val : N; a_zone : bool }.

Definition mask6 (bits : N) : N := N.shiftl (N.ones bits) (128 - bits).

Definition prefix_contains (c : cidr) (a : addr) : bool :=
  if a_zone a then false else
  if negb (Bool.eqb (c_is6 c) (a_is6 a)) then false else
  if c_is6 c then
    (c_bits c <=? 128)%N && (N.land (N.lxor (a_val a) (c_addr c)) (mask6 (c_bits c)) =? 0)%N
  else
    (c_bits c <=? 32)%N && (N.shiftr (N.lxor (a_val a) (c_addr c)) (32 - c_bits c) =? 0)%N.

(* ------------------------------------------------------------------ socks4 *)
Record socks4_cfg := { s4_commands : list N; s4_ports : list N; s4_cidrs : list cidr }.

(* Provision: no commands configured means CONNECT and BIND *)
Definition s4_provision_commands (cmds : list N) : list N :=
  match cmds with [] => [1%N; 2%N] | _ => cmds end.

Definition nonempty {A} (l : list A) : bool := match l with [] => false | _ => true end.

Definition socks4_run (cfg : socks4_cfg) (p : list byte) : res :=
  match read_full 8 p with
  | None => (More, 8%N)
  | Some (buf, _) =>
      match index buf 0, index buf 1, slice buf 2 4, slice buf 4 8 with
      | Some b0, Some b1, Some pb, Some ipb =>
          (if negb (bN b0 =? 4)%N then No
           else if negb (existsb (N.eqb (bN b1)) (s4_commands cfg)) then No
           else if nonempty (s4_ports cfg) && negb (existsb (N.eqb (be_N pb)) (s4_ports cfg)) then No
           else if nonempty (s4_cidrs cfg) &&
                   negb (existsb (fun c => prefix_contains c {| a_is6 := false; a_val := be_N ipb; a_zone := false |}) (s4_cidrs cfg))
                then No
           else Yes, 8%N)
      | _, _, _, _ => (Panic, 8%N)
      end
  end.

(* ------------------------------------------------------------------ socks5 *)
Definition s5_provision (auth : list N) : list N :=
  match auth with [] => [0%N; 1%N; 2%N] | _ => auth end.

Definition s5_chk_zero : bool := l4socks_socks5_rejects_zero_methods.

Definition socks5_run_gen (chk_zero : bool) (auth : list N) (p : list byte) : res :=
  match read_full 1 p with
  | None => (More, 1%N)
  | Some (b0, r1) =>
      if negb (be_N b0 =? 5)%N then (No, 1%N) else
      match read_full 1 r1 with
      | None => (More, 1%N)
      | Some (b1, r2) =>
          let n := be_N b1 in
          if chk_zero && (n =? 0)%N then (No, 1%N) else
          match read_fullN n r2 with                       (* methods := make([]byte, buf[0]) *)
          | None => (More, (1 + n)%N)
          | Some (methods, _) =>
              (if forallb (fun m => existsb (N.eqb (bN m)) auth) methods then Yes else No, (1 + n)%N)
          end
      end
  end.
Definition socks5_run : list N -> list byte -> res := socks5_run_gen s5_chk_zero.

(* ------------------------------------------------------------------ regexp (count gate) *)
Definition re_min : N := Z.to_N l4regexp_minCount.
Definition re_provision (count : N) : N := if (count =? 0)%N then re_min else count.

Definition regexp_run (re : list byte -> bool) (count : N) (p : list byte) : res :=
  match read_fullN count p with
  | None => (More, count)
  | Some (buf, _) => (if re buf then Yes else No, count)
  end.

(* ------------------------------------------------------------------ clock *)
Definition clock_provision (after before : Z) : Z * Z :=
  let b1 := if (before =? 0)%Z then 86400%Z else before in
  if (b1 <? after)%Z then (b1, after) else (after, b1).

(* timeToSeconds(t.In(loc)) for a fixed-offset zone *)
Definition clock_now (unix offset : Z) : Z := ((unix + offset) mod 86400)%Z.

Definition clock_match (ab : Z * Z) (now : Z) : verdict :=
  if ((fst ab <=? now) && (now <? snd ab))%Z then Yes else No.

(* ------------------------------------------------------------------ remote_ip / local_ip *)
(* the address is what netip.ParseAddr made of the host part; None = it did not parse *)
Definition ip_match (cidrs : list cidr) (a : option addr) : verdict :=
  match a with
  | None => Fail
  | Some a => if existsb (fun c => prefix_contains c a) cidrs then Yes else No
  end.

(* ------------------------------------------------------------------ MatcherSet.Match / MatchNot.Match *)
Fixpoint mset_match (ms : list matcher) (p : list byte) : verdict :=
  match ms with
  | [] => Yes
  | m :: r => match m p with Yes => mset_match r p | v => v end
  end.

Fixpoint not_match (sets : list (list matcher)) (p : list byte) : verdict :=
  match sets with
  | [] => Yes
  | ms :: r => match mset_match ms p with Yes => No | No => not_match r p | v => v end
  end.

(* MatcherSets.AnyMatch: the OR over a route's matcher sets.  The first set that matches wins, a set
   that needs more data or fails stops the evaluation with that answer, no sets at all match. *)
Fixpoint any_match_go (sets : list (list matcher)) (p : list byte) : verdict :=
  match sets with
  | [] => No                                   (* after a non-empty loop the result is "no set matched" *)
  | ms :: r => match mset_match ms p with No => any_match_go r p | v => v end
  end.
Definition any_match (sets : list (list matcher)) (p : list byte) : verdict :=
  match sets with [] => Yes | _ => any_match_go sets p end.

(* ------------------------------------------------------------------ http request-line gate *)
Definition http_word : list byte := unhex "20485454502f".   (* " HTTP/" *)

(* Yes = isHttp says (needMore=false, matched=true): Match goes on to http.ReadRequest *)
Definition http_gate (data : list byte) : verdict :=
  let needmore := if (maxMatching <=? N.of_nat (length data))%N then Fail else More in
  match index_byte data x0a with
  | None => needmore                                     (* i = -1 *)
  | Some i =>
      if (i <? 10)%nat then needmore else
      match index data (i - 1) with
      | None => Panic
      | Some c =>
          let se := if Byte.eqb c x0d then (i - 9 - 1, i - 3 - 1)%nat else (i - 9, i - 3)%nat in
          match slice data (fst se) (snd se) with
          | None => Panic
          | Some w => if bytes_eqb w http_word then Yes else No
          end
      end
  end.

(* ------------------------------------------------------------------ tls record gate *)
Definition tls_run (inner : list byte -> bool) (p : list byte) : res :=
  match read_full 5 p with
  | None => (More, 5%N)
  | Some (hdr, rest) =>
      match index hdr 0, index hdr 3, index hdr 4 with
      | Some t, Some h3, Some h4 =>
          if negb (bN t =? 22)%N then (No, 5%N) else
          let len := (bN h3 * 256 + bN h4)%N in
          match read_fullN len rest with
          | None => (More, (5 + len)%N)
          | Some (raw, _) => (if inner raw then Yes else No, (5 + len)%N)
          end
      | _, _, _ => (Panic, 5%N)
      end
  end.

(* ------------------------------------------------------------------ verdict projections *)
Definition ssh_match p := fst (ssh_run p).
Definition xmpp_match p := fst (xmpp_run p).
Definition pg_match p := fst (pg_run p).
Definition pp_match p := fst (pp_run p).
Definition socks4_match cfg p := fst (socks4_run cfg p).
Definition socks5_match auth p := fst (socks5_run auth p).
Definition regexp_match re count p := fst (regexp_run re count p).
Definition tls_match inner p := fst (tls_run inner p).

(* ====================================================================== references (C14)
   Abstract first messages, written from the wire definitions, with every field over its full
   range, an encoder, the mandatory-field predicate [wf] and the filter predicate [passes].
   Nothing below mentions a matcher. *)

(* RFC 4253 4.2: identification string  SSH-protoversion-softwareversion SP comments CR LF.
   [si_lead] are the four characters that must be "SSH-". *)
Record ssh_ident := { si_lead : list byte; si_proto : list byte; si_soft : list byte;
                      si_comment : option (list byte) }.
Definition ssh_typed (m : ssh_ident) : Prop := length (si_lead m) = 4%nat.
Definition ssh_encode (m : ssh_ident) : list byte :=
  si_lead m ++ si_proto m ++ unhex "2d" ++ si_soft m ++
  match si_comment m with Some c => unhex "20" ++ c | None => [] end ++ unhex "0d0a".
Definition ssh_wf (m : ssh_ident) : Prop := si_lead m = unhex "5353482d".

(* PROXY protocol (haproxy proxy-protocol.txt 2.1/2.2): a v1 line "PROXY ..." CRLF or a v2 block
   with the 12-byte signature; [PPOther] is any other first flight *)
Inductive pp_msg :=
| PPv1 (rest_of_line : list byte)
| PPv2 (vercmd fam : byte) (payload : list byte)
| PPOther (bs : list byte).
Definition pp_sig2 : list byte := unhex "0d0a0d0a000d0a515549540a".
Definition pp_encode (m : pp_msg) : list byte :=
  match m with
  | PPv1 r => unhex "50524f5859" ++ r ++ unhex "0d0a"
  | PPv2 vc fam pl => pp_sig2 ++ [vc; fam] ++ N_to_be 2 (N.of_nat (length pl)) ++ pl
  | PPOther bs => bs
  end.
Definition starts_with (s pre : list byte) : Prop := exists t, s = pre ++ t.
Definition pp_typed (m : pp_msg) : Prop :=
  match m with
  | PPv1 r => (5 <= length r)%nat                (* " UNKNOWN" is the shortest v1 remainder *)
  | PPv2 _ _ _ => True
  | PPOther bs => ~ starts_with bs (unhex "50524f5859") /\ ~ starts_with bs pp_sig2
  end.
Definition pp_wf (m : pp_msg) : Prop := match m with PPOther _ => False | _ => True end.

(* SOCKS4 (socks4.protocol): VN CD DSTPORT DSTIP USERID NUL *)
Record socks4_msg := { s4_vn : byte; s4_cd : byte; s4_port : N; s4_ip : N; s4_user : list byte }.
Definition socks4_typed (m : socks4_msg) : Prop := (s4_port m < 65536 /\ s4_ip m < two32)%N.
Definition socks4_encode (m : socks4_msg) : list byte :=
  [s4_vn m; s4_cd m] ++ N_to_be 2 (s4_port m) ++ N_to_be 4 (s4_ip m) ++ s4_user m ++ [x00].
Definition socks4_wf (m : socks4_msg) : Prop := bN (s4_vn m) = 4%N.
(* a CIDR contains an address when both are of the same family and agree on the leading bits *)
Definition same_top_bits (width bits a b : N) : Prop :=
  forall i, (width - bits <= i < width)%N -> N.testbit a i = N.testbit b i.
Definition cidr_contains4 (c : cidr) (ip : N) : Prop :=
  c_is6 c = false /\ (c_bits c <= 32)%N /\ same_top_bits 32 (c_bits c) ip (c_addr c).
Definition socks4_passes (cfg : socks4_cfg) (m : socks4_msg) : Prop :=
  In (bN (s4_cd m)) (s4_commands cfg) /\
  (s4_ports cfg = [] \/ In (s4_port m) (s4_ports cfg)) /\
  (s4_cidrs cfg = [] \/ exists c, In c (s4_cidrs cfg) /\ cidr_contains4 c (s4_ip m)).

(* SOCKS5 (RFC 1928 3): VER NMETHODS METHODS, 1 to 255 methods *)
Record socks5_msg := { s5_ver : byte; s5_methods : list byte }.
Definition socks5_typed (m : socks5_msg) : Prop := (length (s5_methods m) < 256)%nat.
Definition socks5_encode (m : socks5_msg) : list byte :=
  [s5_ver m] ++ N_to_be 1 (N.of_nat (length (s5_methods m))) ++ s5_methods m.
Definition socks5_wf (m : socks5_msg) : Prop := bN (s5_ver m) = 5%N /\ (1 <= length (s5_methods m))%nat.
Definition socks5_passes (auth : list N) (m : socks5_msg) : Prop :=
  forall x, In x (s5_methods m) -> In (bN x) auth.

(* PostgreSQL frontend/backend protocol, message formats: SSLRequest = Int32(8) Int32(80877103);
   StartupMessage = Int32 len, Int32 version (major<<16|minor), (name NUL value NUL)*, NUL *)
Inductive pg_msg :=
| PgSSLRequest
| PgStartup (major minor : N) (params : list (list byte * list byte)).
Fixpoint pg_enc_params (ps : list (list byte * list byte)) : list byte :=
  match ps with
  | [] => []
  | (k, v) :: r => k ++ [x00] ++ v ++ [x00] ++ pg_enc_params r
  end.
Definition pg_body (m : pg_msg) : list byte :=
  match m with
  | PgSSLRequest => N_to_be 4 80877103
  | PgStartup maj min ps => N_to_be 2 maj ++ N_to_be 2 min ++ pg_enc_params ps ++ [x00]
  end.
Definition pg_encode (m : pg_msg) : list byte :=
  N_to_be 4 (N.of_nat (4 + length (pg_body m))) ++ pg_body m.
Definition no_nul (s : list byte) : Prop := ~ In x00 s.
Definition pg_typed (m : pg_msg) : Prop :=
  match m with
  | PgSSLRequest => True
  | PgStartup maj min ps =>
      (maj < 65536 /\ min < 65536)%N /\
      (N.of_nat (length (pg_body m)) <= maxMatching)%N /\
      Forall (fun kv => fst kv <> [] /\ no_nul (fst kv) /\ no_nul (snd kv)) ps /\
      (maj * 65536 + min <> 80877103)%N
  end.
Definition pg_wf (m : pg_msg) : Prop :=
  match m with
  | PgSSLRequest => True
  | PgStartup maj _ ps => (3 <= maj)%N /\ ps <> []
  end.

(* TLS record (RFC 8446 5.1): ContentType, legacy_record_version, uint16 length, fragment *)
Record tls_rec := { tr_type : byte; tr_ver : list byte; tr_body : list byte }.
Definition tls_typed (m : tls_rec) : Prop := length (tr_ver m) = 2%nat /\ (N.of_nat (length (tr_body m)) < 65536)%N.
Definition tls_encode (m : tls_rec) : list byte :=
  [tr_type m] ++ tr_ver m ++ N_to_be 2 (N.of_nat (length (tr_body m))) ++ tr_body m.
Definition tls_wf (m : tls_rec) : Prop := bN (tr_type m) = 22%N.

(* HTTP/1.x request line (RFC 9112 3): method SP target SP "HTTP/" DIGIT "." DIGIT CRLF (bare LF
   tolerated); [hr_word] are the five characters that must be "HTTP/" *)
Record http_req := { hr_method : list byte; hr_target : list byte; hr_word : list byte;
                     hr_maj : byte; hr_min : byte; hr_crlf : bool; hr_rest : list byte }.
Definition x0a_free (s : list byte) : Prop := ~ In x0a s.
Definition http_typed (m : http_req) : Prop :=
  x0a_free (hr_method m) /\ x0a_free (hr_target m) /\ x0a_free (hr_word m) /\ length (hr_word m) = 5%nat /\
  hr_maj m <> x0a /\ hr_min m <> x0a /\ (hr_crlf m = false -> hr_min m <> x0d).
Definition http_encode (m : http_req) : list byte :=
  hr_method m ++ unhex "20" ++ hr_target m ++ unhex "20" ++ hr_word m ++ [hr_maj m] ++ unhex "2e" ++ [hr_min m] ++
  (if hr_crlf m then unhex "0d0a" else unhex "0a") ++ hr_rest m.
Definition http_wf (m : http_req) : Prop := hr_word m = unhex "485454502f".

(* clock: the documented window.  After = lowest valid second of the day, Before = highest valid
   second plus one, Before 00:00:00 means 24:00:00, and the two are swapped when Before < After *)
Definition clock_ref (after before now : Z) : Prop :=
  let b1 := if (before =? 0)%Z then 86400%Z else before in
  (Z.min after b1 <= now < Z.max after b1)%Z.

(* remote_ip / local_ip: some configured range contains the address (same family, leading bits) *)
Definition cidr_contains (c : cidr) (a : addr) : Prop :=
  a_zone a = false /\ c_is6 c = a_is6 a /\
  let w := if c_is6 c then 128%N else 32%N in
  (c_bits c <= w)%N /\ same_top_bits w (c_bits c) (a_val a) (c_addr c).
Definition ip_ref (cidrs : list cidr) (a : addr) : Prop := exists c, In c cidrs /\ cidr_contains c a.

(* occurrence of a word at an offset, for the declarative reading of the xmpp sniff *)
Definition occurs_at (s w : list byte) (i : nat) : Prop :=
  exists a b, s = a ++ w ++ b /\ length a = i.

(* XMPP stream header (RFC 6120 4.7): optional XML declaration, "<stream:stream", attributes in any
   order among which the default namespace jabber:client or jabber:server.  [xh_pre] is everything
   before the default-namespace attribute, [xh_post] everything after it. *)
Record xmpp_hdr := { xh_pre : list byte; xh_server : bool; xh_post : list byte }.
Definition xmpp_encode (h : xmpp_hdr) : list byte :=
  xh_pre h ++ unhex "20786d6c6e733d27" ++ unhex "6a6162626572" ++
  (if xh_server h then unhex "3a73657276657227" else unhex "3a636c69656e7427") ++ xh_post h.

(* ---- boolean forms of the references (what the engine's Go reference computes; proved equivalent
   to the predicates above in proofs/MatchSmallProofs.v) ---- *)
Definition socks4_ref_b (cfg : socks4_cfg) (m : socks4_msg) : bool :=
  (bN (s4_vn m) =? 4)%N &&
  existsb (N.eqb (bN (s4_cd m))) (s4_commands cfg) &&
  (negb (nonempty (s4_ports cfg)) || existsb (N.eqb (s4_port m)) (s4_ports cfg)) &&
  (negb (nonempty (s4_cidrs cfg)) ||
   existsb (fun c => negb (c_is6 c) && (c_bits c <=? 32)%N &&
                     (N.shiftr (s4_ip m) (32 - c_bits c) =? N.shiftr (c_addr c) (32 - c_bits c))%N) (s4_cidrs cfg)).

Definition socks5_ref_b (auth : list N) (m : socks5_msg) : bool :=
  (bN (s5_ver m) =? 5)%N && (1 <=? length (s5_methods m))%nat &&
  forallb (fun x => existsb (N.eqb (bN x)) auth) (s5_methods m).

Definition pg_ref_b (m : pg_msg) : bool :=
  match m with
  | PgSSLRequest => true
  | PgStartup maj _ ps => (3 <=? maj)%N && nonempty ps
  end.
