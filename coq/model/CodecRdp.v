(* modules/l4rdp/matcher.go: TPKTHeader, X224Crq, RDPToken, RDPNegReq, RDPCorrInfo
   FromBytes+ToBytes and MatchRDP.Match with its cookie / token / custom-info filters.
   Definitions only (lemmas: proofs/CodecRdpProofs.v).

   The fixed-size types are read with one binary.Read of the whole struct (io.ReadFull of the
   struct size, the rest of the buffer is left unread); the length test in front makes them exact.
   RDPCookie and RDPCustom are not Go types: Match handles them as strings (cookie_valid /
   custom_valid below). *)
From Coq Require Import List NArith ZArith Bool Arith.
From Coq.Strings Require Import Byte.
From L4.gen Require Import Consts.
From L4.model Require Import GoBase CodecBase.
Import ListNotations.
Local Open Scope nat_scope.

Definition CR : byte := zb l4rdp_ASCIIByteCR.
Definition LF : byte := zb l4rdp_ASCIIByteLF.
Definition tpkt_total : nat := zn l4rdp_TPKTHeaderBytesTotal.          (* 4 *)
Definition x224_total : nat := zn l4rdp_X224CrqBytesTotal.             (* 7 *)
Definition negreq_total : nat := zn l4rdp_RDPNegReqBytesTotal.         (* 8 *)
Definition corr_total : nat := zn l4rdp_RDPCorrInfoBytesTotal.         (* 36 *)
Definition token_min : nat := zn l4rdp_RDPTokenBytesMin.               (* 11 *)
Definition connreq_min : nat := zn l4rdp_RDPConnReqBytesMin.           (* 11 *)
Definition cookie_prefix : list byte := l4rdp_RDPCookiePrefix.
Definition token_prefix : list byte := l4rdp_RDPTokenOptionalCookiePrefix.

(* ---- codecs ---- *)
(* binary.Read(buf, order, &struct) is io.ReadFull of the struct size followed by decoding the fields in
   order; written as one read per field (the same bytes are consumed); the unread tail is returned *)
Record tpkt := { tp_version : N; tp_reserved : N; tp_length : N }.
Definition tpkt_read (b : list byte) : option (tpkt * list byte) :=
  match read_full 1 b with None => None | Some (v, r1) =>
  match read_full 1 r1 with None => None | Some (rs, r2) =>
  match read_full 2 r2 with None => None | Some (ln, r3) =>
    Some ({| tp_version := be_N v; tp_reserved := be_N rs; tp_length := be_N ln |}, r3)
  end end end.
Definition tpkt_from_bytes (b : list byte) : result tpkt :=
  if negb (length b =? tpkt_total) then Err
  else match tpkt_read b with None => Err | Some (h, _) => Ok h end.
Definition tpkt_to_bytes (h : tpkt) : list byte :=
  N_to_be 1 (tp_version h) ++ N_to_be 1 (tp_reserved h) ++ N_to_be 2 (tp_length h).
Definition tpkt_wf (h : tpkt) : Prop := (tp_version h < two8)%N /\ (tp_reserved h < two8)%N /\ (tp_length h < two16)%N.

Record x224 := { x_length : N; x_typecredit : N; x_dstref : N; x_srcref : N; x_classopts : N }.
Definition x224_read (b : list byte) : option (x224 * list byte) :=
  match read_full 1 b with None => None | Some (l, r1) =>
  match read_full 1 r1 with None => None | Some (tc, r2) =>
  match read_full 2 r2 with None => None | Some (dr, r3) =>
  match read_full 2 r3 with None => None | Some (sr, r4) =>
  match read_full 1 r4 with None => None | Some (co, r5) =>
    Some ({| x_length := be_N l; x_typecredit := be_N tc; x_dstref := be_N dr; x_srcref := be_N sr; x_classopts := be_N co |}, r5)
  end end end end end.
Definition x224_from_bytes (b : list byte) : result x224 :=
  if negb (length b =? x224_total) then Err
  else match x224_read b with None => Err | Some (x, _) => Ok x end.
Definition x224_to_bytes (x : x224) : list byte :=
  N_to_be 1 (x_length x) ++ N_to_be 1 (x_typecredit x) ++ N_to_be 2 (x_dstref x) ++ N_to_be 2 (x_srcref x) ++ N_to_be 1 (x_classopts x).
Definition x224_wf (x : x224) : Prop :=
  (x_length x < two8)%N /\ (x_typecredit x < two8)%N /\ (x_dstref x < two16)%N /\ (x_srcref x < two16)%N /\ (x_classopts x < two8)%N.

Record negreq := { nr_type : N; nr_flags : N; nr_length : N; nr_protocols : N }.
Definition negreq_read (b : list byte) : option (negreq * list byte) :=
  match read_full 1 b with None => None | Some (t, r1) =>
  match read_full 1 r1 with None => None | Some (f, r2) =>
  match read_full 2 r2 with None => None | Some (l, r3) =>
  match read_full 4 r3 with None => None | Some (p, r4) =>
    Some ({| nr_type := le_N t; nr_flags := le_N f; nr_length := le_N l; nr_protocols := le_N p |}, r4)
  end end end end.
Definition negreq_from_bytes (b : list byte) : result negreq :=
  if negb (length b =? negreq_total) then Err
  else match negreq_read b with None => Err | Some (r, _) => Ok r end.
Definition negreq_to_bytes (r : negreq) : list byte :=
  N_to_le 1 (nr_type r) ++ N_to_le 1 (nr_flags r) ++ N_to_le 2 (nr_length r) ++ N_to_le 4 (nr_protocols r).
Definition negreq_wf (r : negreq) : Prop :=
  (nr_type r < two8)%N /\ (nr_flags r < two8)%N /\ (nr_length r < two16)%N /\ (nr_protocols r < two32)%N.

Record corrinfo := { ci_type : N; ci_flags : N; ci_length : N; ci_identity : list byte; ci_reserved : list byte }.
Definition corr_read (b : list byte) : option (corrinfo * list byte) :=
  match read_full 1 b with None => None | Some (t, r1) =>
  match read_full 1 r1 with None => None | Some (f, r2) =>
  match read_full 2 r2 with None => None | Some (l, r3) =>
  match read_full 16 r3 with None => None | Some (id, r4) =>
  match read_full 16 r4 with None => None | Some (rs, r5) =>
    Some ({| ci_type := le_N t; ci_flags := le_N f; ci_length := le_N l; ci_identity := id; ci_reserved := rs |}, r5)
  end end end end end.
Definition corr_from_bytes (b : list byte) : result corrinfo :=
  if negb (length b =? corr_total) then Err
  else match corr_read b with None => Err | Some (i, _) => Ok i end.
Definition corr_to_bytes (i : corrinfo) : list byte :=
  N_to_le 1 (ci_type i) ++ N_to_le 1 (ci_flags i) ++ N_to_le 2 (ci_length i) ++ ci_identity i ++ ci_reserved i.
Definition corr_wf (i : corrinfo) : Prop :=
  (ci_type i < two8)%N /\ (ci_flags i < two8)%N /\ (ci_length i < two16)%N /\ length (ci_identity i) = 16 /\ length (ci_reserved i) = 16.

(* RDPToken: eight binary.Read calls, then Optional takes the rest: every length >= 11 is valid *)
Record token := { tk_version : N; tk_reserved : N; tk_length : N; tk_li : N; tk_typecredit : N;
                  tk_dstref : N; tk_srcref : N; tk_classopts : N; tk_optional : list byte }.
Definition token_from_bytes (b : list byte) : result token :=
  match read_full 1 b with None => Err | Some (v, r1) =>
  match read_full 1 r1 with None => Err | Some (rs, r2) =>
  match read_full 2 r2 with None => Err | Some (ln, r3) =>
  match read_full 1 r3 with None => Err | Some (li, r4) =>
  match read_full 1 r4 with None => Err | Some (tc, r5) =>
  match read_full 2 r5 with None => Err | Some (dr, r6) =>
  match read_full 2 r6 with None => Err | Some (sr, r7) =>
  match read_full 1 r7 with None => Err | Some (co, r8) =>
    Ok {| tk_version := be_N v; tk_reserved := be_N rs; tk_length := be_N ln; tk_li := be_N li; tk_typecredit := be_N tc;
          tk_dstref := be_N dr; tk_srcref := be_N sr; tk_classopts := be_N co; tk_optional := r8 |}
  end end end end end end end end.
Definition token_to_bytes (t : token) : list byte :=
  N_to_be 1 (tk_version t) ++ N_to_be 1 (tk_reserved t) ++ N_to_be 2 (tk_length t) ++ N_to_be 1 (tk_li t) ++
  N_to_be 1 (tk_typecredit t) ++ N_to_be 2 (tk_dstref t) ++ N_to_be 2 (tk_srcref t) ++ N_to_be 1 (tk_classopts t) ++ tk_optional t.
Definition token_wf (t : token) : Prop :=
  (tk_version t < two8)%N /\ (tk_reserved t < two8)%N /\ (tk_length t < two16)%N /\ (tk_li t < two8)%N /\
  (tk_typecredit t < two8)%N /\ (tk_dstref t < two16)%N /\ (tk_srcref t < two16)%N /\ (tk_classopts t < two8)%N.

(* ---- MatchRDP.Match ---- *)
Inductive pfx := P4 (addr bits : N) | P6.       (* netip.Prefix of the cookie_ips option; an IPv6 prefix never contains an IPv4 address *)
Record rdp_cfg := {
  rc_hash : list byte; rc_hash_rx : option (list byte -> bool);
  rc_ips : list pfx; rc_ports : list N;
  rc_info : list byte; rc_info_rx : option (list byte -> bool) }.

Definition pfx_contains (a : N) (p : pfx) : bool :=
  match p with P4 base bits => (N.shiftr (N.lxor a base) (32 - bits) =? 0)%N | P6 => false end.

(* strings.Split(s, ".") *)
Fixpoint split_on (sep : byte) (s : list byte) : list (list byte) :=
  match s with
  | [] => [[]]
  | b :: r => match split_on sep r with
              | [] => [[]]      (* unreachable *)
              | h :: t => if Byte.eqb b sep then [] :: h :: t else (b :: h) :: t
              end
  end.

(* strconv.ParseUint(s, 10, bits): decimal digits only, non-empty, value below 2^bits *)
Definition is_digit (b : byte) : bool := ((48 <=? bN b) && (bN b <=? 57))%N.
Definition dec_value (s : list byte) : N := fold_left (fun a b => (a * 10 + (bN b - 48))%N) s 0%N.
Definition parse_uint (s : list byte) (limit : N) : option N :=
  match s with
  | [] => None
  | _ => if forallb is_digit s then (if (dec_value s <? limit)%N then Some (dec_value s) else None) else None
  end.

(* index just past the first CR LF of the payload (0: none); a CR in the last position is skipped *)
Fixpoint find_crlf (i : nat) (s : list byte) : nat :=
  match s with
  | [] => 0
  | b :: r =>
      if Byte.eqb b CR then
        match r with
        | [] => 0
        | n :: _ => if Byte.eqb n LF then i + 2 else find_crlf (S i) r
        end
      else find_crlf (S i) r
  end.

Definition opt_rx (o : option (list byte -> bool)) (s : list byte) : bool :=
  match o with Some f => f s | None => true end.
Definition is_some {A} (o : option A) : bool := match o with Some _ => true | None => false end.

(* the "for ... { ...; break }" blocks; Ok b = the has-valid flag *)
Definition cookie_valid (c : rdp_cfg) (cookieHash payload : list byte) (start : nat) : result bool :=
  if start <? zn l4rdp_RDPCookieBytesMin then Ok false else
  match slice payload 0 start with None => RPanic | Some ck =>
  if (zn l4rdp_RDPCookieBytesMax <? start) || negb (has_prefix ck cookie_prefix) then Ok false else
  let hs := length cookie_prefix in
  let ht := start - hs - 2 in
  match slice ck hs (hs + ht) with None => RPanic | Some hash =>
  if (0 <? length cookieHash) && negb (bytes_eqb cookieHash hash) then Ok false
  else if negb (opt_rx (rc_hash_rx c) hash) then Ok false
  else Ok true
  end end.

Definition token_valid (c : rdp_cfg) (x : x224) (payload : list byte) (start : nat) : result bool :=
  if start <? token_min then Ok false else
  match slice payload 0 start with None => RPanic | Some tb =>
  match token_from_bytes tb with RPanic => RPanic | Err => Ok false | Ok t =>
  if negb (tk_version t =? Z.to_N l4rdp_RDPTokenVersion)%N || negb (tk_reserved t =? Z.to_N l4rdp_RDPTokenReserved)%N ||
     negb (tk_length t =? N.of_nat start)%N || negb (tk_li t =? (sub16 (tk_length t) 5) mod two8)%N ||
     negb (tk_typecredit t =? x_typecredit x)%N || negb (tk_dstref t =? x_dstref x)%N ||
     negb (tk_srcref t =? x_srcref x)%N || negb (tk_classopts t =? x_classopts x)%N
  then Ok false else
  let l := sub16 (tk_length t) (N.of_nat token_min) in
  if (l =? 0)%N then Ok (match rc_ips c, rc_ports c with [], [] => true | _, _ => false end) else
  let ctot := sub16 l 2 in
  if (ctot <? Z.to_N l4rdp_RDPTokenOptionalCookieBytesMin)%N || (Z.to_N l4rdp_RDPTokenOptionalCookieBytesMax <? ctot)%N then Ok false else
  match slice (tk_optional t) 0 (N.to_nat ctot) with None => RPanic | Some ck =>
  if negb (has_prefix ck token_prefix) then Ok false else
  match slice ck (length token_prefix) (length ck) with None => RPanic | Some rest =>
  match split_on (zb l4rdp_RDPTokenOptionalCookieSeparator) rest with
  | [ipStr; portStr; rsv] =>
      if negb (bytes_eqb rsv l4rdp_RDPTokenOptionalCookieReserved) then Ok false else
      match parse_uint ipStr two32 with None => Ok false | Some ipNum =>
      match parse_uint portStr two16 with None => Ok false | Some portNum =>
      let ipVal := be_N (N_to_le 4 ipNum) in
      let portVal := be_N (N_to_le 2 portNum) in
      if negb (match rc_ips c with [] => true | ps => existsb (pfx_contains ipVal) ps end) then Ok false
      else if negb (match rc_ports c with [] => true | ps => existsb (N.eqb portVal) ps end) then Ok false
      else Ok true
      end end
  | _ => Ok false
  end end end end end.

Definition custom_valid (c : rdp_cfg) (customInfo payload : list byte) (start : nat) : result bool :=
  if start <? zn l4rdp_RDPCustomBytesMin then Ok false else
  match slice payload 0 start with None => RPanic | Some cu =>
  if zn l4rdp_RDPCustomBytesMax <? start then Ok false else
  match slice cu 0 (start - 2) with None => RPanic | Some info =>
  if (0 <? length customInfo) && negb (bytes_eqb customInfo info) then Ok false
  else if negb (opt_rx (rc_info_rx c) info) then Ok false
  else Ok true
  end end.

Definition N_has (v mask : N) : bool := (N.land v mask =? mask)%N.

Definition negreq_ok (r : negreq) : bool :=
  (nr_type r =? Z.to_N l4rdp_RDPNegReqType)%N && (nr_length r =? Z.to_N l4rdp_RDPNegReqLength)%N &&
  (N.lor (nr_flags r) (Z.to_N l4rdp_RDPNegReqFlagsAll) =? Z.to_N l4rdp_RDPNegReqFlagsAll)%N &&
  (N.lor (nr_protocols r) (Z.to_N l4rdp_RDPNegReqProtocolsAll) =? Z.to_N l4rdp_RDPNegReqProtocolsAll)%N &&
  negb (N_has (nr_protocols r) (Z.to_N l4rdp_RDPNegReqProtoHybridEx) && (N.land (nr_protocols r) (Z.to_N l4rdp_RDPNegReqProtoHybrid) =? 0)%N) &&
  negb (N_has (nr_protocols r) (Z.to_N l4rdp_RDPNegReqProtoHybrid) && (N.land (nr_protocols r) (Z.to_N l4rdp_RDPNegReqProtoSSL) =? 0)%N).

Definition corr_ok (i : corrinfo) : result bool :=
  match index (ci_identity i) 0 with None => RPanic | Some id0 =>
  Ok ((ci_type i =? Z.to_N l4rdp_RDPCorrInfoType)%N && (ci_flags i =? Z.to_N l4rdp_RDPCorrInfoFlags)%N &&
      (ci_length i =? Z.to_N l4rdp_RDPCorrInfoLength)%N &&
      negb (Byte.eqb id0 (zb l4rdp_RDPCorrInfoReserved)) && negb (Byte.eqb id0 (zb l4rdp_RDPCorrInfoIdentityF4)) &&
      forallb (fun b => negb (Byte.eqb b CR)) (ci_identity i) &&
      forallb (fun b => Byte.eqb b (zb l4rdp_RDPCorrInfoReserved)) (ci_reserved i))
  end.

(* everything after the three reads: decided on the complete payload *)
Definition rdp_decide (c : rdp_cfg) (x : x224) (payload : list byte) : verdict :=
  let cookieHash := firstn (zn l4rdp_RDPCookieHashBytesMax) (rc_hash c) in
  let customInfo := firstn (zn l4rdp_RDPCustomInfoBytesMax) (rc_info c) in
  let plen := length payload in
  let start := find_crlf 0 payload in
  match cookie_valid c cookieHash payload start with RPanic => Panic | Err => Panic | Ok hasCookie =>
  if negb hasCookie && ((0 <? length cookieHash) || is_some (rc_hash_rx c)) then No else
  match (if hasCookie then Ok false else token_valid c x payload start) with RPanic => Panic | Err => Panic | Ok hasToken =>
  if negb hasToken && (match rc_ips c with [] => false | _ => true end || match rc_ports c with [] => false | _ => true end) then No else
  match (if hasCookie || hasToken then Ok false else custom_valid c customInfo payload start) with RPanic => Panic | Err => Panic | Ok hasCustom =>
  if negb hasCustom && ((0 <? length customInfo) || is_some (rc_info_rx c)) then No else
  if (0 <? start) && negb hasCookie && negb hasToken && negb hasCustom then No else
  if start =? plen then Yes else
  if plen <? start + negreq_total then No else
  match slice payload start (start + negreq_total) with None => Panic | Some nb_ =>
  match negreq_from_bytes nb_ with RPanic => Panic | Err => No | Ok r =>
  if negb (negreq_ok r) then No else
  if (N.land (nr_flags r) (Z.to_N l4rdp_RDPNegReqFlagCorrInfo) =? 0)%N then
    (if start + negreq_total <? plen then No else Yes)
  else
  let cstart := start + negreq_total in
  if negb (plen =? cstart + corr_total) then No else      (* the correlation info is the last element *)
  match slice payload cstart (cstart + corr_total) with None => Panic | Some cb =>
  match corr_from_bytes cb with RPanic => Panic | Err => No | Ok i =>
  match corr_ok i with RPanic => Panic | Err => Panic | Ok true => Yes | Ok false => No end
  end end end end end end end.

(* the decisions taken on the 11 header bytes: TPKTHeader and X224Crq, payload length *)
Inductive hdr_res := HNo | HPanic | HOk (x : x224) (plen : nat).
Definition rdp_header (hdr : list byte) : hdr_res :=
  match slice hdr 0 tpkt_total with None => HPanic | Some hb =>
  match tpkt_from_bytes hb with RPanic => HPanic | Err => HNo | Ok h =>
  if negb (tp_version h =? Z.to_N l4rdp_TPKTHeaderVersion)%N || negb (tp_reserved h =? Z.to_N l4rdp_TPKTHeaderReserved)%N ||
     (tp_length h <? Z.to_N l4rdp_RDPConnReqBytesMin)%N || (Z.to_N l4rdp_RDPConnReqBytesMax <? tp_length h)%N then HNo else
  match slice hdr tpkt_total (tpkt_total + x224_total) with None => HPanic | Some xb =>
  match x224_from_bytes xb with RPanic => HPanic | Err => HNo | Ok x =>
  if negb (x_typecredit x =? Z.to_N l4rdp_X224CrqTypeCredit)%N || negb (x_dstref x =? Z.to_N l4rdp_X224CrqDstRef)%N ||
     negb (x_srcref x =? Z.to_N l4rdp_X224CrqSrcRef)%N || negb (x_classopts x =? Z.to_N l4rdp_X224CrqClassOptions)%N ||
     negb (x_length x =? sub16 (sub16 (tp_length h) (N.of_nat tpkt_total)) 1)%N then HNo else
  let plen := sub16 (x_length x) (N.of_nat (x224_total - 1)) in
  if (plen =? 0)%N then HNo else HOk x (N.to_nat plen)
  end end end end.

Definition rdp_match (c : rdp_cfg) (p : list byte) : verdict :=
  match read_full connreq_min p with None => More | Some (hdr, r1) =>
  match rdp_header hdr with
  | HNo => No
  | HPanic => Panic
  | HOk x plen =>
      match read_full plen r1 with None => More | Some (payload, r2) =>
      match read_full 1 r2 with Some _ => No | None => rdp_decide c x payload end
      end
  end end.

(* make() sizes of one Match call: header, payload, extra byte, token Optional copy, small buffers *)
Definition rdp_alloc (p : list byte) : N := N.of_nat connreq_min + two8 + 1 + two8 + 16.
