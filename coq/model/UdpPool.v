(* The UDP datagram buffers (layer4/server.go: udpBufPool, servePacket's reader goroutine and
   dispatch loop, the packet struct handed over through packetConn.readCh, packetConn.Read with
   lastPacket/lastBuf, packetConn.Close).  Definitions only (lemmas: proofs/UdpPoolProofs.v).

   heap    array id -> bytes stored in the 9000-byte array (from index 0)
   free    udpBufPool as the list of arrays in it (a list, not a set: an array Put twice is in it
           twice, which is exactly the defect to be excluded)
   pk      the packet structs by address: (array, n).  Associations queue ADDRESSES of packet
           structs (readCh is a chan *packet), so a struct that is overwritten changes what every
           queue entry pointing to it says
   events of the reader goroutine, the dispatch loop and any number of handlers interleave
   arbitrarily: the event list is the schedule oracle.

   Discipline facts, read from the source by tools/l4gen (gen/Shape.v):
     clears_last   packetConn.Read resets lastPacket to nil when the remainder is consumed, and tests
                   lastPacket (not lastBuf) for "a partial datagram is pending"
     fresh_pkt     the dispatch loop declares pkt in the select case (a new struct per datagram)
                   and enqueues its address *)
From Coq Require Import List Arith Bool ZArith.
From Coq.Strings Require Import Byte.
From L4.gen Require Import Consts Shape.
Import ListNotations.
Local Open Scope nat_scope.

Definition byte := Byte.byte.
Definition bid := nat.      (* datagram array *)
Definition pid := nat.      (* address of a packet struct *)
Definition aid := nat.      (* association = one packetConn *)
Definition client := nat.   (* downstream address *)

Definition dgram_cap : nat := Z.to_nat layer4_udp_buf_size.

Record udisc := mkUdisc { clears_last : bool; fresh_pkt : bool }.
Definition good_udisc (d : udisc) : Prop := clears_last d = true /\ fresh_pkt d = true.

Definition udp_disc : udisc := mkUdisc layer4_udp_read_clears_lastpacket layer4_udp_loop_fresh_packet_var.
Definition clean_udisc : udisc := mkUdisc true true.
Definition put_twice_udisc : udisc := mkUdisc false true.
Definition shared_pkt_udisc : udisc := mkUdisc true false.

(* ghost: the datagram a queue entry stands for *)
Record dg := mkDg { g_from : client; g_data : list byte }.

Record assoc := mkA {
  a_addr   : client;
  a_q      : list (pid * dg);          (* readCh *)
  a_last   : option (pid * dg);        (* lastPacket *)
  a_off    : option nat;               (* lastBuf: Some off = bytes.Reader at offset off; None = nil *)
  a_closed : bool;                     (* Close() was called *)
  a_idle   : bool;                     (* Read returned EOF after the idle timeout and notified the loop *)
  a_exp    : list byte;                (* ghost: what its reads must return, from the datagrams dispatched to it *)
  a_got    : list byte                 (* what its reads did return (from the heap) *)
}.

Record ustate := mkU {
  uheap  : bid -> list byte;
  ufree  : list bid;
  unext  : bid;
  upk    : pid -> bid * nat;           (* packet structs: pooledBuf, n *)
  unpk   : pid;                        (* next fresh struct address (address 0 is the shared variable of the mutant) *)
  uchan  : list (bid * nat * dg);      (* the packets channel: structs by value *)
  upend  : option (pid * dg * aid);    (* the loop holds a packet and the association it goes to *)
  uas    : aid -> option assoc;
  unas   : aid;
  ucur   : client -> option aid;       (* udpConns *)
  ubadget : bool                       (* an event asked Get for an array that is neither free nor new *)
}.

Definition uinit : ustate :=
  mkU (fun _ => []) [] 0 (fun _ => (0, 0)) 1 [] None (fun _ => None) 0 (fun _ => None) false.

Inductive uevent :=
| URecv (cl : client) (data : list byte) (b : bid)
    (* reader: buf := udpBufPool.Get() returned array b (one of the pool, or the next new one);
       n, addr := pc.ReadFrom(buf); packets <- packet{buf, n, addr} *)
| UDispatch
    (* loop: pkt := <-packets; look up / create the association *)
| USend
    (* loop: conn.readCh <- &pkt, or udpBufPool.Put(pkt.pooledBuf) when conn.closed is closed *)
| URead (a : aid) (m : nat)
    (* handler of a: conn.Read(b) with len(b) = m *)
| UIdle (a : aid)
    (* handler of a: Read hit the idle timeout: pc.closeCh <- pc; EOF *)
| UClose (a : aid)
    (* handler of a: conn.Close() *)
| UForget (a : aid).
    (* loop: conn := <-closeCh; delete(udpConns, addr) if it is still the current one *)

Definition upda (f : aid -> option assoc) (a : aid) (v : assoc) : aid -> option assoc :=
  fun x => if Nat.eqb x a then Some v else f x.
Definition updp (f : pid -> bid * nat) (p : pid) (v : bid * nat) : pid -> bid * nat :=
  fun x => if Nat.eqb x p then v else f x.
Definition updb (h : bid -> list byte) (b : bid) (v : list byte) : bid -> list byte :=
  fun x => if Nat.eqb x b then v else h x.
Definition updcur (f : client -> option aid) (c : client) (v : option aid) : client -> option aid :=
  fun x => if Nat.eqb x c then v else f x.

Fixpoint remove1 (b : bid) (l : list bid) : list bid :=
  match l with
  | [] => []
  | x :: r => if Nat.eqb x b then r else x :: remove1 b r
  end.

Definition mem (b : bid) (l : list bid) : bool := existsb (Nat.eqb b) l.

(* ReadFrom(buf) stores the datagram at the start of the array *)
Definition store (data old : list byte) : list byte := data ++ skipn (length data) old.

(* the bytes a packet struct denotes *)
Definition pbytes (s : ustate) (p : pid) : list byte :=
  firstn (snd (upk s p)) (uheap s (fst (upk s p))).

Definition set_as (s : ustate) (f : aid -> option assoc) : ustate :=
  mkU (uheap s) (ufree s) (unext s) (upk s) (unpk s) (uchan s) (upend s) f (unas s) (ucur s) (ubadget s).
Definition set_as_free (s : ustate) (f : aid -> option assoc) (fr : list bid) : ustate :=
  mkU (uheap s) fr (unext s) (upk s) (unpk s) (uchan s) (upend s) f (unas s) (ucur s) (ubadget s).

Definition alive (s : ustate) (a : aid) : bool :=
  match uas s a with Some st => negb (a_closed st) | None => false end.

Definition ustep (d : udisc) (s : ustate) (e : uevent) : ustate :=
  match e with
  | URecv cl data b =>
      let dat := firstn dgram_cap data in
      let g := mkDg cl dat in
      if mem b (ufree s) then
        mkU (updb (uheap s) b (store dat (uheap s b))) (remove1 b (ufree s)) (unext s) (upk s) (unpk s)
            (uchan s ++ [(b, length dat, g)]) (upend s) (uas s) (unas s) (ucur s) (ubadget s)
      else if Nat.eqb b (unext s) then
        mkU (updb (uheap s) b (store dat (uheap s b))) (ufree s) (S (unext s)) (upk s) (unpk s)
            (uchan s ++ [(b, length dat, g)]) (upend s) (uas s) (unas s) (ucur s) (ubadget s)
      else
        mkU (uheap s) (ufree s) (unext s) (upk s) (unpk s) (uchan s) (upend s) (uas s) (unas s) (ucur s) true
  | UDispatch =>
      match upend s, uchan s with
      | None, (b, n, g) :: rest =>
          (* where the struct lives: a new one per datagram, or the one shared variable *)
          let p := if fresh_pkt d then unpk s else 0 in
          let np := if fresh_pkt d then S (unpk s) else unpk s in
          let pk' := updp (upk s) p (b, n) in
          match (match ucur s (g_from g) with
                 | Some a => if alive s a then Some a else None
                 | None => None
                 end) with
          | Some a =>
              mkU (uheap s) (ufree s) (unext s) pk' np rest (Some (p, g, a)) (uas s) (unas s) (ucur s) (ubadget s)
          | None =>
              let a := unas s in
              mkU (uheap s) (ufree s) (unext s) pk' np rest (Some (p, g, a))
                  (upda (uas s) a (mkA (g_from g) [] None None false false [] []))
                  (S (unas s)) (updcur (ucur s) (g_from g) (Some a)) (ubadget s)
          end
      | _, _ => s
      end
  | USend =>
      match upend s with
      | Some (p, g, a) =>
          match uas s a with
          | Some st =>
              if a_closed st
              then mkU (uheap s) (fst (upk s p) :: ufree s) (unext s) (upk s) (unpk s) (uchan s) None
                       (upda (uas s) a st) (unas s) (ucur s) (ubadget s)
              else mkU (uheap s) (ufree s) (unext s) (upk s) (unpk s) (uchan s) None
                       (upda (uas s) a (mkA (a_addr st) (a_q st ++ [(p, g)]) (a_last st) (a_off st) (a_closed st)
                                            (a_idle st) (a_exp st) (a_got st)))
                       (unas s) (ucur s) (ubadget s)
          | None => s
          end
      | None => s
      end
  | URead a m =>
      match uas s a with
      | Some st =>
          let pending := if clears_last d
                         then match a_last st with Some _ => true | None => false end
                         else match a_off st with Some _ => true | None => false end in
          if pending then
            match a_last st, a_off st with
            | Some (p, g), Some off =>
                let avail := skipn off (pbytes s p) in
                let got := firstn m avail in
                let off' := off + length got in
                let e' := a_exp st ++ firstn m (skipn off (g_data g)) in
                if Nat.leb (snd (upk s p)) off'
                then (* drained: Put, lastBuf = nil, and (today) lastPacket = nil *)
                     set_as_free s
                       (upda (uas s) a (mkA (a_addr st) (a_q st) (if clears_last d then None else a_last st) None
                                            (a_closed st) (a_idle st) e' (a_got st ++ got)))
                       (fst (upk s p) :: ufree s)
                else set_as s
                       (upda (uas s) a (mkA (a_addr st) (a_q st) (a_last st) (Some off') (a_closed st) (a_idle st)
                                            e' (a_got st ++ got)))
            | _, _ => s
            end
          else if a_closed st then s
          else
            match a_q st with
            | (p, g) :: rest =>
                let got := firstn m (pbytes s p) in
                let e' := a_exp st ++ firstn m (g_data g) in
                if Nat.leb (snd (upk s p)) (length got)
                then set_as_free s
                       (upda (uas s) a (mkA (a_addr st) rest (a_last st) (a_off st) (a_closed st) (a_idle st)
                                            e' (a_got st ++ got)))
                       (fst (upk s p) :: ufree s)
                else set_as s
                       (upda (uas s) a (mkA (a_addr st) rest (Some (p, g)) (Some (length got)) (a_closed st)
                                            (a_idle st) e' (a_got st ++ got)))
            | [] => s
            end
      | None => s
      end
  | UIdle a =>
      match uas s a with
      | Some st => set_as s (upda (uas s) a (mkA (a_addr st) (a_q st) (a_last st) (a_off st) (a_closed st) true
                                                 (a_exp st) (a_got st)))
      | None => s
      end
  | UClose a =>
      match uas s a with
      | Some st =>
          let fr1 := match a_last st with Some (p, _) => fst (upk s p) :: ufree s | None => ufree s end in
          let fr2 := map (fun e => fst (upk s (fst e))) (a_q st) ++ fr1 in
          set_as_free s
            (upda (uas s) a (mkA (a_addr st) [] None (a_off st) true (a_idle st) (a_exp st) (a_got st)))
            fr2
      | None => s
      end
  | UForget a =>
      match uas s a with
      | Some st =>
          if a_closed st || a_idle st
          then match ucur s (a_addr st) with
               | Some a' => if Nat.eqb a' a
                            then mkU (uheap s) (ufree s) (unext s) (upk s) (unpk s) (uchan s) (upend s) (uas s) (unas s)
                                     (updcur (ucur s) (a_addr st) None) (ubadget s)
                            else s
               | None => s
               end
          else s
      | None => s
      end
  end.

Definition urun (d : udisc) (s : ustate) (es : list uevent) : ustate := fold_left (ustep d) es s.

Definition ugot (s : ustate) (a : aid) : list byte := match uas s a with Some st => a_got st | None => [] end.
Definition uexp (s : ustate) (a : aid) : list byte := match uas s a with Some st => a_exp st | None => [] end.

(* the arrays an association can still touch: its queued packets and the partially read one *)
Definition arefs (s : ustate) (st : assoc) : list bid :=
  match a_last st with Some (p, _) => [fst (upk s p)] | None => [] end ++
  map (fun e => fst (upk s (fst e))) (a_q st).

(* the datagrams an association still holds *)
Definition aghosts (st : assoc) : list dg :=
  match a_last st with Some (_, g) => [g] | None => [] end ++ map snd (a_q st).
