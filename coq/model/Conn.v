(* Model of /repo/layer4/connection.go: the Connection as one layer of a stack of readers.
   Definitions only (lemmas: proofs/ConnProofs.v).

   A reader stack [rd] is what a handler or matcher holds as its net.Conn:
     Net pending            the socket: [pending] = bytes the client has sent / will send, then EOF
     L4 c inner             *layer4.Connection with fields c = (buf, cap(buf), offset, frozenOffset,
                            matching) whose embedded Conn is [inner]
     Bufio held sz inner    bufio.Reader of size sz holding [held] (proxyprotocol.Conn)
     TeeW inner sink        io.TeeReader: everything it returns is also appended to [sink] (the pipe)
     Thr burst inner        l4throttle.throttledConn: reads at most [burst] bytes per call
     Xf emit hist out xsz inner
                            a causal stream transformer (TLS record layer): after consuming the
                            byte string [hist] it holds decoded bytes [out]; consuming one more byte b
                            releases [emit hist b]

   The socket is driven by a schedule oracle: each Read of the socket consumes one [choice];
   [Take k] delivers min(max(k,1), len p, |pending|) bytes, [Timeout] fails the read with a
   deadline error and delivers nothing.  An exhausted oracle delivers as much as fits.

   Go partiality: slices are lists, cap(buf) is carried as [bcap] because prefetch chooses its
   branch from it; the capacity chosen by append when it reallocates is an oracle argument
   ([newcap], clamped to be at least the new length).  MatchingBytes is [None] where the slice
   expression buf[offset:] would panic. *)
From Coq Require Import List ZArith NArith Bool Arith.
From Coq.Strings Require Import Byte.
From L4.gen Require Import Consts.
Import ListNotations.

Definition byte := Byte.byte.

(* error values that matter to the callers of Read/prefetch *)
Inductive err :=
| ENil         (* nil *)
| EEOF         (* io.EOF *)
| EConsumed    (* ErrConsumedAllPrefetchedBytes *)
| EFull        (* ErrMatchingBufferFull *)
| ETimeout.    (* os.ErrDeadlineExceeded from the socket *)

Definition err_eqb (a b : err) : bool :=
  match a, b with
  | ENil, ENil | EEOF, EEOF | EConsumed, EConsumed | EFull, EFull | ETimeout, ETimeout => true
  | _, _ => false
  end.

Inductive choice := Take (k : nat) | Timeout.
Definition oracle := list choice.

Record cstate := mkC {
  buf      : list byte;   (* cx.buf[0:len] *)
  bcap     : nat;         (* cap(cx.buf) *)
  offset   : nat;         (* cx.offset *)
  frozen   : nat;         (* cx.frozenOffset *)
  matching : bool         (* cx.matching *)
}.

Inductive rd :=
| Net (pending : list byte)
| L4 (c : cstate) (inner : rd)
| Bufio (held : list byte) (sz : nat) (inner : rd)
| TeeW (inner : rd) (sink : list byte)
| Thr (burst : nat) (inner : rd)
| Xf (emit : list byte -> byte -> list byte) (hist out : list byte) (xsz : nat) (inner : rd).

(* constants of connection.go, regenerated from the source *)
Definition MAXn : nat := Z.to_nat layer4_MaxMatchingBytes.
Definition CHUNKn : nat := Z.to_nat layer4_prefetchChunkSize.

(* ---- the socket ---- *)
Definition net_read (pending : list byte) (n : nat) (orc : oracle)
  : (list byte * err) * list byte * oracle :=
  match orc with
  | Timeout :: o' => (([], ETimeout), pending, o')
  | _ =>
    match pending with
    | [] => (([], EEOF), [], orc)
    | _ =>
      let m := Nat.min n (length pending) in
      if (m =? 0)%nat then (([], ENil), pending, orc)
      else
        let '(k, o') := match orc with Take k :: o' => (Nat.min (Nat.max 1 k) m, o') | _ => (m, []) end in
        ((firstn k pending, ENil), skipn k pending, o')
    end
  end.

(* the transformer's output on a further chunk of input *)
Fixpoint xf_run (emit : list byte -> byte -> list byte) (hist : list byte) (s : list byte) : list byte :=
  match s with
  | [] => []
  | b :: s' => emit hist b ++ xf_run emit (hist ++ [b]) s'
  end.

(* ---- Read of every layer ---- *)
Fixpoint read (r : rd) (n : nat) (orc : oracle) {struct r} : (list byte * err) * rd * oracle :=
  match r with
  | Net pending =>
      let '(res, p', o') := net_read pending n orc in (res, Net p', o')

  | L4 c inner =>
      (* func (cx *Connection) Read(p []byte) *)
      let len := length (buf c) in
      if matching c && ((len =? 0)%nat || (len =? offset c)%nat) then
        (([], EConsumed), r, orc)
      else if (0 <? len)%nat && (offset c <? len)%nat then
        let d := firstn n (skipn (offset c) (buf c)) in           (* n := copy(p, cx.buf[cx.offset:]) *)
        let off' := (offset c + length d)%nat in                  (* cx.offset += n *)
        if negb (matching c) && (off' =? len)%nat then
          ((d, ENil), L4 (mkC [] (bcap c) 0 (frozen c) (matching c)) inner, orc)   (* offset = 0; buf = buf[:0] *)
        else
          ((d, ENil), L4 (mkC (buf c) (bcap c) off' (frozen c) (matching c)) inner, orc)
      else
        let '(res, inner', o') := read inner n orc in               (* cx.Conn.Read(p) *)
        (res, L4 c inner', o')

  | Bufio held sz inner =>
      (* func (b *bufio.Reader) Read(p []byte); no error is ever pending because every reader
         below returns either data or an error (lemma read_data_xor_err) *)
      if (n =? 0)%nat then (([], ENil), r, orc)
      else match held with
      | [] =>
          if (sz <=? n)%nat then
            let '(res, inner', o') := read inner n orc in           (* large read, empty buffer *)
            (res, Bufio [] sz inner', o')
          else
            let '((d, e), inner', o') := read inner sz orc in       (* one read into b.buf *)
            match d with
            | [] => (([], e), Bufio [] sz inner', o')
            | _ => ((firstn n d, ENil), Bufio (skipn n d) sz inner', o')
            end
      | _ => ((firstn n held, ENil), Bufio (skipn n held) sz inner, orc)
      end

  | TeeW inner sink =>
      (* io.TeeReader: n, err = t.r.Read(p); if n > 0 { t.w.Write(p[:n]) } *)
      let '((d, e), inner', o') := read inner n orc in
      ((d, e), TeeW inner' (sink ++ d), o')

  | Thr burst inner =>
      (* throttledConn.Read: tc.Conn.Read(p[:batchSize]) *)
      let '(res, inner', o') := read inner (Nat.min n burst) orc in
      (res, Thr burst inner', o')

  | Xf emit hist out xsz inner =>
      match out with
      | _ :: _ => ((firstn n out, ENil), Xf emit hist (skipn n out) xsz inner, orc)
      | [] =>
          let '((d, e), inner', o') := read inner xsz orc in
          match d with
          | [] => (([], e), Xf emit hist [] xsz inner', o')
          | _ =>
              let o2 := xf_run emit hist d in
              ((firstn n o2, ENil), Xf emit (hist ++ d) (skipn n o2) xsz inner', o')
          end
      end
  end.

(* ---- the other methods of Connection (defined on an L4 layer; identity elsewhere) ---- *)

(* func (cx *Connection) prefetch() error
   [newcap] is the capacity append picks if it has to reallocate *)
Definition prefetch (r : rd) (newcap : nat) (orc : oracle) : err * rd * oracle :=
  match r with
  | L4 c inner =>
      let len := length (buf c) in
      if (len <? MAXn)%nat then
        let free := (bcap c - len)%nat in
        if (CHUNKn <=? free)%nat then
          (* n, err = cx.Conn.Read(cx.buf[len : len+chunk]); cx.buf = cx.buf[:len+n] *)
          let '((d, e), inner', o') := read inner CHUNKn orc in
          (e, L4 (mkC (buf c ++ d) (bcap c) (offset c) (frozen c) (matching c)) inner', o')
        else
          (* tmp = bufPool.Get()[:chunk]; n, err = cx.Conn.Read(tmp); cx.buf = append(cx.buf, tmp[:n]...) *)
          let '((d, e), inner', o') := read inner CHUNKn orc in
          let len' := (len + length d)%nat in
          let cap' := if (len' <=? bcap c)%nat then bcap c else Nat.max newcap len' in
          (e, L4 (mkC (buf c ++ d) cap' (offset c) (frozen c) (matching c)) inner', o')
      else (EFull, r, orc)
  | _ => (ENil, r, orc)
  end.

Definition freeze_c (c : cstate) : cstate := mkC (buf c) (bcap c) (offset c) (offset c) true.
Definition unfreeze_c (c : cstate) : cstate := mkC (buf c) (bcap c) (frozen c) (frozen c) false.

Definition freeze (r : rd) : rd := match r with L4 c inner => L4 (freeze_c c) inner | _ => r end.
Definition unfreeze (r : rd) : rd := match r with L4 c inner => L4 (unfreeze_c c) inner | _ => r end.

(* func (cx *Connection) MatchingBytes() []byte { return cx.buf[cx.offset:] } *)
Definition matching_bytes (r : rd) : option (list byte) :=
  match r with
  | L4 c _ => if (offset c <=? length (buf c))%nat then Some (skipn (offset c) (buf c)) else None
  | _ => None
  end.

(* func (cx *Connection) Wrap(conn net.Conn) *Connection
   [conn] is the reader that was built on top of cx (it reads through cx).
   The new Connection starts with an empty buffer: bytes still buffered in cx are delivered by
   cx itself, in order, when [conn] reads through it. *)
Definition wrap_c (c : cstate) : cstate := mkC [] 0 0 0 (matching c).
Definition wrap (c : cstate) (conn : rd) : rd := L4 (wrap_c c) conn.

(* Wrap as it was before the repair (and the struct copy `nextc := *cx` of the tee handler):
   buf/offset are carried over into the new Connection *)
Definition wrap_old_c (c : cstate) : cstate := mkC (buf c) (bcap c) (offset c) 0 (matching c).
Definition wrap_old (c : cstate) (conn : rd) : rd := L4 (wrap_old_c c) conn.
Definition copy_c (c : cstate) : cstate := c.     (* nextc := *cx *)

(* WrapConnection(underlying, buf, logger) *)
Definition wrap_connection (underlying : rd) (b : list byte) (cap0 : nat) : rd :=
  L4 (mkC b cap0 0 0 false) underlying.

(* ---- what reading to EOF will deliver ---- *)
Fixpoint stream_of (r : rd) : list byte :=
  match r with
  | Net p => p
  | L4 c inner => skipn (offset c) (buf c) ++ stream_of inner
  | Bufio held _ inner => held ++ stream_of inner
  | TeeW inner _ => stream_of inner
  | Thr _ inner => stream_of inner
  | Xf emit hist out _ inner => out ++ xf_run emit hist (stream_of inner)
  end.

(* bytes still in the socket (observable: how much has been pulled from it) *)
Fixpoint net_pending (r : rd) : list byte :=
  match r with
  | Net p => p
  | L4 _ i | Bufio _ _ i | TeeW i _ | Thr _ i | Xf _ _ _ _ i => net_pending i
  end.

(* ---- handlers and matchers as programs over a reader ---- *)

(* a consumer performing reads with the given buffer sizes; returns the bytes obtained, in
   order, and the last error seen (reading stops at the first error) *)
Fixpoint reads (r : rd) (ns : list nat) (orc : oracle) : list byte * err * rd * oracle :=
  match ns with
  | [] => ([], ENil, r, orc)
  | n :: ns' =>
      let '((d, e), r', o') := read r n orc in
      match e with
      | ENil => let '(ds, e', r'', o'') := reads r' ns' o' in (d ++ ds, e', r'', o'')
      | _ => (d, e, r', o')
      end
  end.

(* matchers: plain ones read and peek; `not` only delegates to matcher sets (MatchNot.Match).
   The trees list the matchers that actually ran (short-circuiting picks a prefix). *)
Inductive mop := MRead (n : nat) | MPeek.
Inductive matcher :=
| MPlain (ops : list mop)
| MNot (sets : msets)
with msets := SNil | SCons (s : mset) (ss : msets)
with mset := MNil | MCons (m : matcher) (ms : mset).

Inductive obs := ORead (d : list byte) (e : err) | OPeek (b : option (list byte)).

Fixpoint run_ops (ops : list mop) (r : rd) (orc : oracle) : list obs * rd * oracle :=
  match ops with
  | [] => ([], r, orc)
  | MRead n :: ops' =>
      let '((d, e), r', o') := read r n orc in
      let '(os, r'', o'') := run_ops ops' r' o' in (ORead d e :: os, r'', o'')
  | MPeek :: ops' =>
      let '(os, r'', o'') := run_ops ops' r orc in (OPeek (matching_bytes r) :: os, r'', o'')
  end.

(* m.Match(cx) / MatchNot.Match: for each set { set.Match(cx) } /
   MatcherSet.Match: for each matcher { cx.freeze(); m.Match(cx); cx.unfreeze() } *)
Fixpoint run_matcher (m : matcher) (r : rd) (orc : oracle) {struct m} : list obs * rd * oracle :=
  match m with
  | MPlain ops => run_ops ops r orc
  | MNot sets => run_sets sets r orc
  end
with run_sets (ss : msets) (r : rd) (orc : oracle) {struct ss} : list obs * rd * oracle :=
  match ss with
  | SNil => ([], r, orc)
  | SCons s ss' =>
      let '(o1, r1, orc1) := run_set s r orc in
      let '(o2, r2, orc2) := run_sets ss' r1 orc1 in
      (o1 ++ o2, r2, orc2)
  end
with run_set (ms : mset) (r : rd) (orc : oracle) {struct ms} : list obs * rd * oracle :=
  match ms with
  | MNil => ([], r, orc)
  | MCons m ms' =>
      let '(oa, ra, orca) := run_matcher m (freeze r) orc in
      let '(ob, rb, orcb) := run_set ms' (unfreeze ra) orca in
      (oa ++ ob, rb, orcb)
  end.
