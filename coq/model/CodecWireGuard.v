(* modules/l4wireguard/matcher.go: MessageInitiation / MessageTransport FromBytes+ToBytes and
   MatchWireGuard.Match.  Definitions only (lemmas: proofs/CodecWireGuardProofs.v).

   binary.Read(buf, order, &field) over a bytes.Buffer is io.ReadFull of exactly the field's size:
   it fails when fewer bytes are left and leaves whatever follows the last field unread - so a
   FromBytes made of binary.Read calls alone accepts over-long input and drops the tail.  The
   length test in front of it is what makes the codec exact. *)
From Coq Require Import List NArith ZArith Bool Arith.
From Coq.Strings Require Import Byte.
From L4.gen Require Import Consts.
From L4.model Require Import GoBase CodecBase.
Import ListNotations.
Local Open Scope nat_scope.

Definition wg_tag : nat := zn l4wireguard_Poly1305TagSize.
Definition wg_init_total : nat := zn l4wireguard_MessageInitiationBytesTotal.
Definition wg_transport_min : nat := zn l4wireguard_MessageTransportBytesMin.
(* array sizes written in the struct declarations *)
Definition wg_eph_sz : nat := 32.
Definition wg_static_sz : nat := 32 + wg_tag.
Definition wg_ts_sz : nat := 12 + wg_tag.
Definition wg_mac_sz : nat := 16.
Definition wg_transport_hdr : nat := 16.   (* Type 4 + Receiver 4 + Counter 8 *)

Record msg_init := {
  mi_type : N; mi_sender : N;
  mi_eph : list byte; mi_static : list byte; mi_ts : list byte; mi_mac1 : list byte; mi_mac2 : list byte }.

(* the binary.Read sequence of MessageInitiation.FromBytes; the unread tail is returned *)
Definition init_read (b : list byte) : option (msg_init * list byte) :=
  match read_full 4 b with None => None | Some (t, r1) =>
  match read_full 4 r1 with None => None | Some (s, r2) =>
  match read_full wg_eph_sz r2 with None => None | Some (e, r3) =>
  match read_full wg_static_sz r3 with None => None | Some (st, r4) =>
  match read_full wg_ts_sz r4 with None => None | Some (ts, r5) =>
  match read_full wg_mac_sz r5 with None => None | Some (m1, r6) =>
  match read_full wg_mac_sz r6 with None => None | Some (m2, r7) =>
    Some ({| mi_type := le_N t; mi_sender := le_N s; mi_eph := e; mi_static := st; mi_ts := ts;
             mi_mac1 := m1; mi_mac2 := m2 |}, r7)
  end end end end end end end.

Definition init_from_bytes (b : list byte) : result msg_init :=
  if negb (length b =? wg_init_total)%nat then Err
  else match init_read b with None => Err | Some (m, _) => Ok m end.

Definition init_to_bytes (m : msg_init) : list byte :=
  N_to_le 4 (mi_type m) ++ N_to_le 4 (mi_sender m) ++ mi_eph m ++ mi_static m ++ mi_ts m ++ mi_mac1 m ++ mi_mac2 m.

(* what a Go value of the struct type can hold *)
Definition init_wf (m : msg_init) : Prop :=
  (mi_type m < two32)%N /\ (mi_sender m < two32)%N /\ length (mi_eph m) = wg_eph_sz /\
  length (mi_static m) = wg_static_sz /\ length (mi_ts m) = wg_ts_sz /\
  length (mi_mac1 m) = wg_mac_sz /\ length (mi_mac2 m) = wg_mac_sz.

Record msg_transport := { mt_type : N; mt_receiver : N; mt_counter : N; mt_content : list byte }.

(* Content takes whatever follows the three header fields: every length >= 16 is a valid encoding *)
Definition transport_from_bytes (b : list byte) : result msg_transport :=
  match read_full 4 b with None => Err | Some (t, r1) =>
  match read_full 4 r1 with None => Err | Some (rc, r2) =>
  match read_full 8 r2 with None => Err | Some (c, r3) =>
    Ok {| mt_type := le_N t; mt_receiver := le_N rc; mt_counter := le_N c; mt_content := r3 |}
  end end end.

Definition transport_to_bytes (m : msg_transport) : list byte :=
  N_to_le 4 (mt_type m) ++ N_to_le 4 (mt_receiver m) ++ N_to_le 8 (mt_counter m) ++ mt_content m.

Definition transport_wf (m : msg_transport) : Prop :=
  (mt_type m < two32)%N /\ (mt_receiver m < two32)%N /\ (mt_counter m < two64)%N.

(* (m.Zero & ReservedZeroFilter) | msgType, on uint32 *)
Definition wg_expected_type (zero : Z) (ty : Z) : Z :=
  Z.lor (Z.land zero (Z.land l4wireguard_ReservedZeroFilter 4294967295)) ty.

(* MatchWireGuard.Match on the prefetched bytes p (one datagram) *)
Definition wg_match (zero : Z) (p : list byte) : verdict :=
  match read_at_least (wg_init_total + 1) 1 p with
  | None => More
  | Some (buf, _) =>
      let n := length buf in
      if (n =? wg_init_total)%nat then
        match slice buf 0 wg_init_total with None => Panic | Some b =>
        match init_from_bytes b with
        | RPanic => Panic
        | Err => No
        | Ok m => if (Z.of_N (mi_type m) =? wg_expected_type zero l4wireguard_MessageTypeInitiation)%Z then Yes else No
        end end
      else if (n =? wg_transport_min)%nat then
        match slice buf 0 wg_transport_min with None => Panic | Some b =>
        match transport_from_bytes b with
        | RPanic => Panic
        | Err => No
        | Ok m => if (Z.of_N (mt_type m) =? wg_expected_type zero l4wireguard_MessageTypeTransport)%Z then Yes else No
        end end
      else No
  end.

(* bytes requested from make()/append by one Match call: the read buffer, the bytes.Buffer
   wrappers share it; Content is copied for a transport message *)
Definition wg_alloc (p : list byte) : N :=
  N.of_nat (wg_init_total + 1) + N.of_nat (Nat.min (length p) (wg_init_total + 1)).
