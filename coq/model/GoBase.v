(* Shared vocabulary for matcher / codec models: Go-shaped byte parsing with the partiality of
   Go written out.  Definitions only (lemmas: proofs/GoBaseProofs.v).

   A matcher model is a function  list byte -> verdict  of the bytes prefetched so far:
     Yes   Match returned (true, nil)
     No    Match returned (false, nil)
     More  Match returned (false, ErrConsumedAllPrefetchedBytes): the router prefetches and retries
     Fail  Match returned another error (the router drops the connection)
     Panic Go would panic (index/slice out of range, nil dereference, makeslice: len out of range)
   Allocation sizes are reported separately by models that need them (C04). *)
From Coq Require Import List NArith ZArith Bool Arith.
From Coq.Strings Require Import Byte.
Import ListNotations.

Definition byte := Byte.byte.
Inductive verdict := Yes | No | More | Fail | Panic.

Definition verdict_eqb (a b : verdict) : bool :=
  match a, b with
  | Yes, Yes | No, No | More, More | Fail, Fail | Panic, Panic => true
  | _, _ => false
  end.

Definition byte_eqb (a b : byte) : bool := Byte.eqb a b.
Definition bN (b : byte) : N := Byte.to_N b.
Definition bZ (b : byte) : Z := Z.of_N (Byte.to_N b).

Fixpoint bytes_eqb (a b : list byte) : bool :=
  match a, b with
  | [], [] => true
  | x :: a', y :: b' => Byte.eqb x y && bytes_eqb a' b'
  | _, _ => false
  end.

(* bytes.HasPrefix(s, pre) *)
Fixpoint has_prefix (s pre : list byte) {struct pre} : bool :=
  match pre, s with
  | [], _ => true
  | x :: pre', y :: s' => Byte.eqb x y && has_prefix s' pre'
  | _ :: _, [] => false
  end.

(* io.ReadFull(cx, buf[:n]) while matching: all n bytes or "consumed all prefetched bytes" *)
Definition read_full (n : nat) (p : list byte) : option (list byte * list byte) :=
  if (length p <? n)%nat then None else Some (firstn n p, skipn n p).

(* io.ReadAtLeast(cx, buf[:cap], min): returns min(cap, available) bytes when at least min are there *)
Definition read_at_least (cap min : nat) (p : list byte) : option (list byte * list byte) :=
  if (length p <? min)%nat then None else Some (firstn cap p, skipn cap p).

(* big/little endian unsigned integers over exactly the given bytes *)
Definition be_N (l : list byte) : N :=
  fold_left (fun a b => (a * 256 + bN b)%N) l 0%N.
Fixpoint le_N (l : list byte) : N :=
  match l with [] => 0%N | b :: r => (bN b + 256 * le_N r)%N end.

Fixpoint N_to_be (width : nat) (v : N) : list byte :=
  match width with
  | O => []
  | S w => N_to_be w (v / 256)%N ++ [match Byte.of_N (v mod 256)%N with Some b => b | None => x00 end]
  end.
Fixpoint N_to_le (width : nat) (v : N) : list byte :=
  match width with
  | O => []
  | S w => (match Byte.of_N (v mod 256)%N with Some b => b | None => x00 end) :: N_to_le w (v / 256)%N
  end.

(* Go slice expression s[a:b] and index s[i]: None = runtime panic *)
Definition slice (s : list byte) (a b : nat) : option (list byte) :=
  if ((a <=? b) && (b <=? length s))%nat then Some (firstn (b - a) (skipn a s)) else None.
Definition index (s : list byte) (i : nat) : option byte := nth_error s i.

(* bytes.IndexByte *)
Fixpoint index_byte (s : list byte) (c : byte) : option nat :=
  match s with
  | [] => None
  | x :: r => if Byte.eqb x c then Some O else option_map S (index_byte r c)
  end.

(* properties every stream matcher model is checked against (C06) *)
Definition no_stable (m : list byte -> verdict) : Prop :=
  forall p s, m p = No -> m (p ++ s) = No.
Definition yes_not_rejected_on_prefix (m : list byte -> verdict) : Prop :=
  forall w p s, w = p ++ s -> m w = Yes -> m p <> No.
Definition never_panics (m : list byte -> verdict) : Prop := forall p, m p <> Panic.
