(* modules/l4winbox/matcher.go: MessageAuth FromBytes / FromChunks / ToChunks / ToBytes and
   MatchWinbox.Match.  Definitions only (lemmas: proofs/CodecWinboxProofs.v).

   A message is a sequence of chunks  <len:1> <type:1> <len bytes>;  every chunk but the last is
   full (255 bytes), the first has type 0x06, the others 0xFF.  The concatenated chunk bodies are
   username 0x00 publickey[32] parity. *)
From Coq Require Import List NArith ZArith Bool Arith.
From Coq.Strings Require Import Byte.
From L4.gen Require Import Consts.
From L4.model Require Import GoBase CodecBase.
Import ListNotations.
Local Open Scope nat_scope.

Definition wb_chunk_max : nat := zn l4winbox_MessageChunkBytesMax.       (* 255 *)
Definition wb_chunk_min : nat := zn l4winbox_MessageChunkBytesMin.       (* 1 *)
Definition wb_auth_min : nat := zn l4winbox_MessageAuthBytesMin.         (* 37 *)
Definition wb_auth_max : nat := zn l4winbox_MessageAuthBytesMax.         (* 293 *)
Definition wb_key_sz : nat := zn l4winbox_MessageAuthPublicKeyBytesTotal.
Definition wb_type_auth : byte := zb l4winbox_MessageChunkTypeAuth.
Definition wb_type_prev : byte := zb l4winbox_MessageChunkTypePrev.
Definition wb_delim : byte := zb l4winbox_MessageChunkBytesDelimiter.
Definition wb_romon_suffix : list byte := l4winbox_MessageAuthUsernameRoMONSuffix.
Definition wb_stride : nat := wb_chunk_max + 2.

Record chunk := { ch_bytes : list byte; ch_len : N; ch_type : byte }.
Record msg_auth := { ma_parity : byte; ma_key : list byte; ma_user : list byte }.

(* MessageAuthUsernameRegexp  ^[0-9A-Za-z](?:[-#.0-9@A-Z_a-z]*[0-9A-Za-z])?$  on bytes: one
   alphanumeric, or alphanumeric + inner characters (possibly none) + alphanumeric *)
Definition in_range (lo hi : N) (b : byte) : bool := ((lo <=? bN b) && (bN b <=? hi))%N.
Definition is_alnum (b : byte) : bool := in_range 48 57 b || in_range 65 90 b || in_range 97 122 b.
Definition is_inner (b : byte) : bool :=
  is_alnum b || (bN b =? 45)%N || (bN b =? 35)%N || (bN b =? 46)%N || (bN b =? 64)%N || (bN b =? 95)%N.
Definition username_ok (u : list byte) : bool :=
  match u with
  | [] => false
  | [a] => is_alnum a
  | a :: r => is_alnum a && forallb is_inner (removelast r) && is_alnum (last r x00)
  end.

Definition get_romon (m : msg_auth) : bool := has_suffix (ma_user m) wb_romon_suffix.
Definition get_username (m : msg_auth) : list byte :=
  if get_romon m then firstn (length (ma_user m) - length wb_romon_suffix) (ma_user m) else ma_user m.

(* the chunk loop of FromBytes at position p, [rest] = src[p:]; [first] = (i == 0).  The chunk is
   the last one (i == q-1, q = ceil(l/257)) iff at most one stride is left. *)
Fixpoint chunks_from (fuel : nat) (first : bool) (rest : list byte) : result (list chunk) :=
  match fuel with
  | O => Ok []
  | S f =>
      match index rest 0 with
      | None => RPanic                                   (* src[p] *)
      | Some lb =>
          let len := N.to_nat (bN lb) in
          let last := (length rest <=? wb_stride)%nat in
          if (negb last && negb (len =? wb_chunk_max)%nat) || (length rest <? 2 + len)%nat || (len <? wb_chunk_min)%nat
             || (last && negb (length rest =? 2 + len)%nat)
          then Err
          else match index rest 1 with
               | None => RPanic                          (* src[p+1] *)
               | Some ty =>
                   if negb (Byte.eqb ty (if first then wb_type_auth else wb_type_prev)) then Err
                   else match slice rest 2 (2 + len) with
                        | None => RPanic                 (* src[p+2 : p+2+Length] *)
                        | Some bs =>
                            let c := {| ch_bytes := bs; ch_len := bN lb; ch_type := ty |} in
                            if last then Ok [c]
                            else match chunks_from f false (skipn wb_stride rest) with
                                 | Ok cs => Ok (c :: cs)
                                 | Err => Err
                                 | RPanic => RPanic
                                 end
                        end
               end
      end
  end.

(* chunk.Bytes[:min(int(chunk.Length), len(chunk.Bytes))] appended for every chunk *)
Definition chunks_payload (cs : list chunk) : list byte :=
  flat_map (fun c => firstn (Nat.min (N.to_nat (ch_len c)) (length (ch_bytes c))) (ch_bytes c)) cs.

Definition chunk_type_ok (c : chunk) : bool := Byte.eqb (ch_type c) wb_type_auth || Byte.eqb (ch_type c) wb_type_prev.

(* the tail of FromChunks: split at the first delimiter *)
Definition auth_of_payload (src : list byte) : result msg_auth :=
  match index_byte src wb_delim with
  | None => Err                                          (* !foundDelimiter *)
  | Some i =>
      if (i =? length src - 1)%nat then Err              (* the delimiter is the last byte: no key, no parity *)
      else match slice src (i + 1) (length src - 1), index src (length src - 1) with
           | Some key, Some par =>
               let m := {| ma_parity := par; ma_key := key; ma_user := firstn i src |} in
               if (length (ma_user m) =? 0)%nat || negb (length key =? wb_key_sz)%nat || (1 <? bN par)%N
                  || negb (username_ok (get_username m))
               then Err else Ok m
           | _, _ => RPanic
           end
  end.

Definition auth_from_chunks (cs : list chunk) : result msg_auth :=
  if negb (forallb chunk_type_ok cs) then Err else auth_of_payload (chunks_payload cs).

Definition auth_from_bytes (src : list byte) : result msg_auth :=
  if (length src <? wb_auth_min)%nat then Err
  else match chunks_from (length src) true src with
       | Ok cs => auth_from_chunks cs
       | Err => Err
       | RPanic => RPanic
       end.

(* ToChunks: the payload cut into 255-byte pieces *)
Definition auth_payload (m : msg_auth) : list byte := ma_user m ++ [wb_delim] ++ ma_key m ++ [ma_parity m].

Fixpoint cut (fuel : nat) (first : bool) (d : list byte) : list chunk :=
  match fuel with
  | O => []
  | S f =>
      let ll := Nat.min wb_chunk_max (length d) in
      if (ll =? 0)%nat then []
      else {| ch_bytes := firstn ll d; ch_len := N.of_nat ll; ch_type := if first then wb_type_auth else wb_type_prev |}
           :: cut f false (skipn wb_chunk_max d)
  end.

Definition auth_to_chunks (m : msg_auth) : list chunk :=
  let d := auth_payload m in cut (length d / wb_chunk_max + 1) true d.

Definition chunks_to_bytes (cs : list chunk) : list byte :=
  flat_map (fun c => nb (ch_len c) :: ch_type c :: ch_bytes c) cs.

Definition auth_to_bytes (m : msg_auth) : list byte := chunks_to_bytes (auth_to_chunks m).

Definition auth_wf (m : msg_auth) : Prop :=
  (bN (ma_parity m) <= 1)%N /\ length (ma_key m) = wb_key_sz /\ ma_user m <> [] /\ username_ok (get_username m) = true.

(* ---- MatchWinbox.Match ---- *)
Record wb_cfg := { wc_std : bool; wc_romon : bool; wc_user : list byte; wc_rx : option (list byte -> bool) }.

Definition wb_filters (c : wb_cfg) (m : msg_auth) : verdict :=
  if (if get_romon m then negb (wc_romon c) else negb (wc_std c)) then No
  else if (0 <? length (wc_user c))%nat && negb (bytes_eqb (wc_user c) (get_username m)) then No
  else if (length (wc_user c) =? 0)%nat && match wc_rx c with Some f => negb (f (get_username m)) | None => false end then No
  else Yes.

Definition wb_match (c : wb_cfg) (p : list byte) : verdict :=
  match read_full 2 p with
  | None => More
  | Some (hdr, r1) =>
      let h0 := N.to_nat (bN (nth 0 hdr x00)) in
      if (h0 <? wb_auth_min - 2)%nat || negb (Byte.eqb (nth 1 hdr x00) wb_type_auth) then No
      else
        let l := if (h0 =? wb_chunk_max)%nat then wb_auth_max - 2 else h0 in
        match read_at_least (l + 1) h0 r1 with
        | None => More
        | Some (got, _) =>
            let n := length got in
            if (l <? n)%nat then No
            else
              match auth_from_bytes (hdr ++ got) with
              | RPanic => Panic
              | Ok m => wb_filters c m
              | Err =>
                  (* a full first chunk may be followed by a second one that has not arrived
                     completely: ask for more data instead of answering No *)
                  if (h0 =? wb_chunk_max)%nat then
                    if (n =? wb_chunk_max)%nat then More
                    else match index got wb_chunk_max with
                         | None => Panic                 (* buf[257]: n >= 256 here *)
                         | Some l2 =>
                             let need := wb_stride + N.to_nat (bN l2) in
                             if (n <? need)%nat && (need <=? l)%nat &&
                                match auth_from_bytes (firstn wb_stride (hdr ++ got)) with Ok _ => false | _ => true end
                             then More else No
                         end
                  else No
              end
        end
  end.

Definition wb_alloc (p : list byte) : N := N.of_nat (2 + (wb_auth_max + 1) + 2 * (wb_auth_max + 1)).
