(* C12 - PROXY protocol: header codec, allow list, receiving handler, sending side.
   Definitions only (lemmas: proofs/ProxyProtoProofs.v).

   Three layers are kept apart:
   (S) the HAProxy PROXY protocol SPECIFICATION: [encode_v1], [encode_v2] over abstract headers
       (addresses as N, ports as N, optional TLVs) - written from proxy-protocol.txt, not from code;
   (L) the LIBRARY github.com/mastercactapus/proxyprotocol v0.0.4 as caddy-l4 uses it:
       [parse] mirrors proxyprotocol.Parse (v1: line of at most 108 bytes up to CRLF, then
       fmt.Sscanf "PROXY %s %s %s %d %d\r\n" and net.ParseIP; v2: length must be exactly
       0/12/36/216), [lib_write_v1]/[lib_write_v2] mirror HeaderV1/HeaderV2.WriteTo;
   (H) caddy-l4's own code: [tidy_rules] / [new_conn] / [handle] (modules/l4proxyprotocol/handler.go),
       [wrap_connection] (layer4/connection.go), [effective] / [dial_header]
       (modules/l4proxy/proxy.go dialPeers).
   The byte stream after the header is a plain byte list here (segmentation, bufio and
   Connection.Wrap are C01's model). *)
From Coq Require Import String List NArith ZArith Bool Arith.
From Coq.Strings Require Import Byte.
From L4 Require Import Hex.
From L4.gen Require Import Consts Shape.
From L4.model Require Import GoBase.
Import ListNotations.
Open Scope N_scope.

(* ------------------------------------------------------------------ characters, numbers as text *)
Definition cSP : byte := x20.
Definition cCR : byte := x0d.
Definition cLF : byte := x0a.
Definition cDOT : byte := x2e.
Definition cCOLON : byte := x3a.
Definition cPLUS : byte := x2b.
Definition cMINUS : byte := x2d.
Definition cUNDER : byte := x5f.
Definition cZERO : byte := x30.
Definition crlf : list byte := [cCR; cLF].
Definition txt (s : string) : list byte := list_byte_of_string s.

Definition digit (d : N) : byte := byte_of_N (48 + d).
Definition hexdigit (d : N) : byte := if d <? 10 then byte_of_N (48 + d) else byte_of_N (87 + d).
Definition is_digit (b : byte) : bool := (48 <=? bN b) && (bN b <=? 57).
Definition is_hex (b : byte) : bool :=
  is_digit b || ((97 <=? bN b) && (bN b <=? 102)) || ((65 <=? bN b) && (bN b <=? 70)).
Definition hex_val (b : byte) : N :=
  if is_digit b then bN b - 48 else if 97 <=? bN b then bN b - 87 else bN b - 55.

(* positional rendering without leading zeros; fuel = number of binary digits is always enough *)
Fixpoint num_f (base : N) (dig : N -> byte) (fuel : nat) (n : N) : list byte :=
  match fuel with
  | O => [dig (n mod base)]
  | S f => if n <? base then [dig n] else num_f base dig f (n / base) ++ [dig (n mod base)]
  end.
Definition dec (n : N) : list byte := num_f 10 digit (N.to_nat (N.size n)) n.
Definition hexs (n : N) : list byte := num_f 16 hexdigit (N.to_nat (N.size n)) n.

Definition dec_val (l : list byte) : N := fold_left (fun a b => a * 10 + (bN b - 48)) l 0.
Definition hexs_val (l : list byte) : N := fold_left (fun a b => a * 16 + hex_val b) l 0.

Fixpoint span (p : byte -> bool) (l : list byte) : list byte * list byte :=
  match l with
  | [] => ([], [])
  | x :: r => if p x then let '(a, b) := span p r in (x :: a, b) else ([], l)
  end.

Fixpoint join (sep : list byte) (l : list (list byte)) : list byte :=
  match l with
  | [] => []
  | [x] => x
  | x :: r => x ++ sep ++ join sep r
  end.

(* ------------------------------------------------------------------ addresses *)
Definition two16 : N := 65536.
Definition two32 : N := 4294967296.
Definition two128 : N := 340282366920938463463374607431768211456.
Definition mapped_prefix : N := 281470681743360.   (* ::ffff:0:0 *)

(* net.IP projected: nil, or an address that To4() converts (4 bytes, or 16 bytes in ::ffff:0:0/96),
   or any other 16-byte address *)
Inductive ip := IPnil | IP4 (a : N) | IP6 (a : N).
Definition norm_ip (i : ip) : ip :=
  match i with
  | IP6 a => if a / two32 =? 65535 then IP4 (a mod two32) else IP6 a
  | _ => i
  end.
Definition ip_eqb (a b : ip) : bool :=
  match norm_ip a, norm_ip b with
  | IPnil, IPnil => true
  | IP4 x, IP4 y => x =? y
  | IP6 x, IP6 y => x =? y
  | _, _ => false
  end.
Definition ip_wf (i : ip) : Prop :=
  match i with IPnil => True | IP4 a => a < two32 | IP6 a => a < two128 /\ a / two32 <> 65535 end.

(* net.Addr projected: *net.TCPAddr, *net.UDPAddr, *net.UnixAddr (Net "unix" / "unixgram"), other *)
Inductive addr :=
| ATcp (i : ip) (p : N)
| AUdp (i : ip) (p : N)
| AUnix (dgram : bool) (name : list byte)
| AOther.
Definition addr_eqb (a b : addr) : bool :=
  match a, b with
  | ATcp i p, ATcp j q => ip_eqb i j && (p =? q)
  | AUdp i p, AUdp j q => ip_eqb i j && (p =? q)
  | AUnix d n, AUnix e m => Bool.eqb d e && bytes_eqb n m
  | AOther, AOther => true
  | _, _ => false
  end.
Definition oaddr_eqb (a b : option addr) : bool :=
  match a, b with Some x, Some y => addr_eqb x y | None, None => true | _, _ => false end.

(* ------------------------------------------------------------------ IP text forms *)
Definition render_ip4 (a : N) : list byte :=
  dec (a / 16777216 mod 256) ++ [cDOT] ++ dec (a / 65536 mod 256) ++ [cDOT] ++
  dec (a / 256 mod 256) ++ [cDOT] ++ dec (a mod 256).

(* one octet as net/netip.parseIPv4Fields accepts it: 1-3 digits, no leading zero, <= 255 *)
Definition p4_octet (s : list byte) : option (N * list byte) :=
  let '(ds, r) := span is_digit s in
  match ds with
  | [] => None
  | d :: more =>
      if (Byte.eqb d cZERO && negb (Nat.eqb (length more) 0)) then None
      else if (3 <? length ds)%nat then None
      else if 255 <? dec_val ds then None
      else Some (dec_val ds, r)
  end.
Definition expect (c : byte) (s : list byte) : option (list byte) :=
  match s with x :: r => if Byte.eqb x c then Some r else None | [] => None end.
Definition parse_ip4 (s : list byte) : option N :=
  match p4_octet s with None => None | Some (a, s) =>
  match expect cDOT s with None => None | Some s =>
  match p4_octet s with None => None | Some (b, s) =>
  match expect cDOT s with None => None | Some s =>
  match p4_octet s with None => None | Some (c, s) =>
  match expect cDOT s with None => None | Some s =>
  match p4_octet s with None => None | Some (d, s) =>
  match s with [] => Some (((a * 256 + b) * 256 + c) * 256 + d) | _ => None end
  end end end end end end end.

(* IPv6: RFC 5952 text as net/netip.Addr.String writes it (lower-case groups without leading
   zeros, the left-most longest run of >= 2 zero groups replaced by "::") *)
Definition groups6 (a : N) : list N :=
  map (fun k => a / 2 ^ (16 * k) mod two16) [7; 6; 5; 4; 3; 2; 1; 0].
Fixpoint zero_run (gs : list N) : nat :=
  match gs with 0 :: r => S (zero_run r) | _ => O end.
Fixpoint best_run (gs : list N) (i : nat) (best : nat * nat) : nat * nat :=
  match gs with
  | [] => best
  | _ :: r =>
      let l := zero_run gs in
      best_run r (S i) (if ((2 <=? l) && (snd best <? l))%nat then (i, l) else best)
  end.
Definition render_ip6 (a : N) : list byte :=
  let gs := groups6 a in
  let '(zs, zl) := best_run gs 0%nat (0%nat, 0%nat) in
  if (zl =? 0)%nat then join [cCOLON] (map hexs gs)
  else join [cCOLON] (map hexs (firstn zs gs)) ++ [cCOLON; cCOLON] ++ join [cCOLON] (map hexs (skipn (zs + zl) gs)).

(* net/netip.parseIPv6 (zones make net.ParseIP return nil: the '%' simply fails here) *)
Definition groups_val (gs : list N) : N := fold_left (fun a g => a * two16 + g) gs 0.
Fixpoint p6_loop (fuel : nat) (s : list byte) (gs : list N) (ell : option nat)
  : option (list byte * list N * option nat) :=
  match fuel with
  | O => Some (s, gs, ell)
  | S f =>
      let '(hs, rest) := span is_hex s in
      if (length hs =? 0)%nat then None
      else if (4 <? length hs)%nat then None
      else match rest with
      | x :: _ =>
          if Byte.eqb x cDOT then
            (* embedded IPv4 must replace the last two groups *)
            if (match ell with None => negb (length gs =? 6)%nat | Some _ => false end) then None
            else if (8 <? length gs + 2)%nat then None
            else match parse_ip4 s with
                 | None => None
                 | Some v => Some ([], gs ++ [v / two16; v mod two16], ell)
                 end
          else if negb (Byte.eqb x cCOLON) then None
          else match rest with
          | [_] => None
          | _ :: y :: rest2 =>
              let gs' := gs ++ [hexs_val hs] in
              if Byte.eqb y cCOLON then
                match ell with
                | Some _ => None
                | None =>
                    match rest2 with
                    | [] => Some ([], gs', Some (length gs'))
                    | _ => if (length gs' =? 8)%nat then Some (rest2, gs', Some (length gs'))
                           else p6_loop f rest2 gs' (Some (length gs'))
                    end
                end
              else if (length gs' =? 8)%nat then Some (y :: rest2, gs', ell)
              else p6_loop f (y :: rest2) gs' ell
          | [] => None
          end
      | [] => Some ([], gs ++ [hexs_val hs], ell)
      end
  end.
Definition parse_ip6 (s : list byte) : option N :=
  let '(s1, ell0) :=
    match s with
    | a :: b :: r => if Byte.eqb a cCOLON && Byte.eqb b cCOLON then (r, Some 0%nat) else (s, None)
    | _ => (s, None)
    end in
  match s1, ell0 with
  | [], Some _ => Some 0
  | _, _ =>
      match p6_loop 8 s1 [] ell0 with
      | None => None
      | Some (_ :: _, _, _) => None
      | Some ([], gs, ell) =>
          if (length gs <? 8)%nat then
            match ell with
            | None => None
            | Some e => Some (groups_val (firstn e gs ++ repeat 0 (8 - length gs) ++ skipn e gs))
            end
          else match ell with Some _ => None | None => Some (groups_val gs) end
      end
  end.

(* net.IP.String of a non-nil address; net.ParseIP (netip.ParseAddr dispatches on the first of . : %) *)
Definition render_ip (i : ip) : list byte :=
  match norm_ip i with
  | IPnil => txt "<nil>"
  | IP4 a => render_ip4 a
  | IP6 a => render_ip6 a
  end.
Fixpoint ip_kind (s : list byte) : N :=   (* 4, 6, or 0 *)
  match s with
  | [] => 0
  | x :: r => if Byte.eqb x cDOT then 4 else if Byte.eqb x cCOLON then 6
              else if Byte.eqb x x25 then 0 else ip_kind r
  end.
Definition parse_ip (s : list byte) : option ip :=
  match ip_kind s with
  | 4 => option_map IP4 (parse_ip4 s)
  | 6 => option_map (fun a => norm_ip (IP6 a)) (parse_ip6 s)
  | _ => None
  end.

(* ------------------------------------------------------------------ (S) specification: version 1 *)
Inductive v1spec :=
| V1Unknown
| V1Tcp4 (src dst sport dport : N)     (* 32-bit addresses *)
| V1Tcp6 (src dst sport dport : N).    (* 128-bit addresses *)

Section V1.
(* the IPv6 text form used by the encoder (instantiated with [render_ip6] below) *)
Variable render6 : N -> list byte.

Definition encode_v1_with (h : v1spec) : list byte :=
  match h with
  | V1Unknown => txt "PROXY UNKNOWN" ++ crlf
  | V1Tcp4 s d sp dp =>
      txt "PROXY TCP4 " ++ render_ip4 s ++ [cSP] ++ render_ip4 d ++ [cSP] ++ dec sp ++ [cSP] ++ dec dp ++ crlf
  | V1Tcp6 s d sp dp =>
      txt "PROXY TCP6 " ++ render6 s ++ [cSP] ++ render6 d ++ [cSP] ++ dec sp ++ [cSP] ++ dec dp ++ crlf
  end.
End V1.
Definition encode_v1 : v1spec -> list byte := encode_v1_with render_ip6.

(* ------------------------------------------------------------------ (S) specification: version 2 *)
Definition sig_v2 : list byte := [x0d; x0a; x0d; x0a; x00; x0d; x0a; x51; x55; x49; x54; x0a].

(* transport: 0 UNSPEC, 1 STREAM, 2 DGRAM *)
Inductive v2block :=
| V2Unspec
| V2Inet (src dst sport dport : N)
| V2Inet6 (src dst sport dport : N)
| V2Unix (src dst : list byte).         (* path names, at most 108 bytes, no trailing NUL *)
Record v2spec := { s_local : bool; s_proto : N; s_block : v2block; s_tlvs : list (N * list byte) }.

Definition pad_to (n : nat) (l : list byte) : list byte := l ++ repeat x00 (n - length l).
Definition block_bytes (b : v2block) : list byte :=
  match b with
  | V2Unspec => []
  | V2Inet s d sp dp => N_to_be 4 s ++ N_to_be 4 d ++ N_to_be 2 sp ++ N_to_be 2 dp
  | V2Inet6 s d sp dp => N_to_be 16 s ++ N_to_be 16 d ++ N_to_be 2 sp ++ N_to_be 2 dp
  | V2Unix s d => pad_to 108 s ++ pad_to 108 d
  end.
Definition block_fam (b : v2block) : N :=
  match b with V2Unspec => 0 | V2Inet _ _ _ _ => 1 | V2Inet6 _ _ _ _ => 2 | V2Unix _ _ => 3 end.
Definition tlv_bytes (t : N * list byte) : list byte :=
  N_to_be 1 (fst t) ++ N_to_be 2 (N.of_nat (length (snd t))) ++ snd t.
Definition tlvs_bytes (l : list (N * list byte)) : list byte := flat_map tlv_bytes l.
Definition encode_v2 (h : v2spec) : list byte :=
  let body := block_bytes (s_block h) ++ tlvs_bytes (s_tlvs h) in
  sig_v2 ++ [byte_of_N (32 + (if s_local h then 0 else 1))]
         ++ [byte_of_N (block_fam (s_block h) * 16 + (match s_block h with V2Unspec => 0 | _ => s_proto h end))]
         ++ N_to_be 2 (N.of_nat (length body)) ++ body.

(* ------------------------------------------------------------------ (L) what the library parses *)
Inductive pres (A : Type) := POk (h : A) (rest : list byte) | PShort | PBad.
Arguments POk {A} h rest.
Arguments PShort {A}.
Arguments PBad {A}.

(* the parsed header, projected on what Header exposes: version, command, SrcAddr(), DestAddr()
   (None = a nil net.Addr) *)
Record hdr := { h_version : N; h_cmd : N; h_src : option addr; h_dst : option addr }.

(* -- v1: the line *)
Definition v1_max_line : nat := 108.
Inductive lres := LOk (line rest : list byte) | LShort | LTooLong.
Fixpoint line_scan (fuel : nat) (last : byte) (acc : list byte) (s : list byte) : lres :=
  match s with
  | [] => LShort
  | b :: r =>
      if Byte.eqb last cCR && Byte.eqb b cLF then LOk (acc ++ [b]) r
      else match fuel with
           | O => LTooLong
           | S f => line_scan f b (acc ++ [b]) r
           end
  end.

(* -- v1: fmt.Sscanf(line, "PROXY %s %s %s %d %d\r\n") on ASCII input.
   Spaces other than newline: SP HT VT FF CR.  A blank in the format needs one or more of them and
   no newline; %s is the maximal run of non-space bytes; %d is an optional sign, a run of
   [0-9_] handed to strconv.ParseInt(.., 10, 64); the trailing "\r\n" of the format matches zero
   or more spaces and then a newline. *)
Definition is_sp (b : byte) : bool :=
  Byte.eqb b x20 || Byte.eqb b x09 || Byte.eqb b x0b || Byte.eqb b x0c || Byte.eqb b x0d.
Definition is_space (b : byte) : bool := is_sp b || Byte.eqb b cLF.
Definition sep (s : list byte) : option (list byte) :=
  match s with
  | x :: _ =>
      if is_sp x then
        match snd (span is_sp s) with
        | y :: r => if Byte.eqb y cLF then None else Some (y :: r)
        | [] => None
        end
      else None
  | [] => None
  end.
Definition tok (s : list byte) : list byte * list byte := span (fun b => negb (is_space b)) s.
Definition is_numch (b : byte) : bool := is_digit b || Byte.eqb b cUNDER.
(* result: Some (value, rest); the value is what the range check 0..65535 then looks at *)
Definition scan_port (s : list byte) : option (N * list byte) :=
  let '(neg, s1) :=
    match s with
    | x :: r => if Byte.eqb x cMINUS then (true, r) else if Byte.eqb x cPLUS then (false, r) else (false, s)
    | [] => (false, s)
    end in
  let '(ds, r) := span is_numch s1 in
  match ds with
  | [] => None
  | _ =>
      if existsb (fun b => Byte.eqb b cUNDER) ds then None
      else let v := dec_val ds in
           if 65535 <? v then None
           else if neg && negb (v =? 0) then None
           else Some (v, r)
  end.
Definition is4 (i : ip) : bool := match norm_ip i with IP4 _ => true | _ => false end.

Definition parse_v1_line (line : list byte) : option hdr :=
  if has_prefix line (txt "PROXY UNKNOWN") then
    (* HeaderV1{}: SrcAddr() / DestAddr() are non-nil *net.TCPAddr with a nil IP and port 0 *)
    Some {| h_version := 1; h_cmd := 1; h_src := Some (ATcp IPnil 0); h_dst := Some (ATcp IPnil 0) |}
  else if negb (has_prefix line (txt "PROXY")) then None
  else
    match sep (skipn 5 line) with None => None | Some s =>
    let '(fam, s) := tok s in
    match sep s with None => None | Some s =>
    let '(srcs, s) := tok s in
    match sep s with None => None | Some s =>
    let '(dsts, s) := tok s in
    match sep s with None => None | Some s =>
    match scan_port s with None => None | Some (sp, s) =>
    match sep s with None => None | Some s =>
    match scan_port s with None => None | Some (dp, s) =>
    match snd (span is_sp s) with
    | y :: _ =>
        if negb (Byte.eqb y cLF) then None
        else
          let tcp4 := bytes_eqb fam (txt "TCP4") in
          let tcp6 := bytes_eqb fam (txt "TCP6") in
          if negb (tcp4 || tcp6) then None
          else match parse_ip srcs, parse_ip dsts with
               | Some a, Some b =>
                   if tcp4 && negb (is4 a && is4 b) then None
                   else Some {| h_version := 1; h_cmd := 1; h_src := Some (ATcp a sp); h_dst := Some (ATcp b dp) |}
               | _, _ => None
               end
    | [] => None
    end end end end end end end end.

Definition parse_v1 (s : list byte) : pres hdr :=
  match line_scan (v1_max_line - 1) x00 [] s with
  | LShort => PShort
  | LTooLong => PBad
  | LOk line rest => match parse_v1_line line with Some h => POk h rest | None => PBad end
  end.

(* -- v2 *)
Definition v2_block_len (fam : N) : option nat :=
  match fam with 0 => Some 0%nat | 1 => Some 12%nat | 2 => Some 36%nat | 3 => Some 216%nat | _ => None end.
Fixpoint trim_right_zeros (l : list byte) : list byte :=
  match l with
  | [] => []
  | x :: r => match trim_right_zeros r with
              | [] => if Byte.eqb x x00 then [] else [x]
              | r' => x :: r'
              end
  end.
Definition v2_addrs (cmd famproto : N) (blk : list byte) : option addr * option addr :=
  if cmd =? 0 then (None, None)
  else
    let inet (mk : ip -> N -> addr) (w : nat) (v : N -> ip) :=
      (Some (mk (v (be_N (firstn w blk))) (be_N (firstn 2 (skipn (2 * w) blk)))),
       Some (mk (v (be_N (firstn w (skipn w blk)))) (be_N (firstn 2 (skipn (2 * w + 2) blk))))) in
    let unix (d : bool) :=
      (Some (AUnix d (trim_right_zeros (firstn 108 blk))), Some (AUnix d (trim_right_zeros (firstn 108 (skipn 108 blk))))) in
    match famproto with
    | 17 => inet ATcp 4%nat IP4
    | 18 => inet AUdp 4%nat IP4
    | 33 => inet ATcp 16%nat IP6
    | 34 => inet AUdp 16%nat IP6
    | 49 => unix false
    | 50 => unix true
    | _ => (None, None)
    end.
Definition parse_v2 (s : list byte) : pres hdr :=
  match read_full 16 s with
  | None => PShort
  | Some (h16, r) =>
      let vercmd := be_N (firstn 1 (skipn 12 h16)) in
      let famproto := be_N (firstn 1 (skipn 13 h16)) in
      let len := be_N (firstn 2 (skipn 14 h16)) in
      if negb (bytes_eqb (firstn 12 h16) sig_v2) then PBad
      else if negb (vercmd / 16 =? 2) then PBad
      else if 1 <? vercmd mod 16 then PBad
      else match v2_block_len (famproto / 16) with
           | None => PBad
           | Some bl =>
               if negb (len =? N.of_nat bl) then PBad
               else if 2 <? famproto mod 16 then PBad
               else match read_full bl r with
                    | None => PShort
                    | Some (blk, rest) =>
                        let '(a, b) := v2_addrs (vercmd mod 16) famproto blk in
                        POk {| h_version := 2; h_cmd := vercmd mod 16; h_src := a; h_dst := b |} rest
                    end
           end
  end.

(* proxyprotocol.Parse: dispatch on the first byte *)
Definition parse (s : list byte) : pres hdr :=
  match s with
  | [] => PShort
  | b :: _ =>
      if Byte.eqb b x50 then parse_v1 s
      else if Byte.eqb b x0d then parse_v2 s
      else PBad
  end.

(* ------------------------------------------------------------------ (L) what the library writes *)
Definition is16 (i : ip) : bool := match i with IPnil => false | _ => true end.
Definition as4 (i : ip) : N := match norm_ip i with IP4 a => a | _ => 0 end.
Definition as16 (i : ip) : N := match i with IP6 a => a | IP4 a => mapped_prefix + a | IPnil => 0 end.
(* HeaderV1.protoFam / WriteTo, fields SrcIP SrcPort DestIP DestPort *)
Definition lib_write_v1 (src : ip) (sp : N) (dst : ip) (dp : N) : list byte :=
  if (sp <=? 65535) && (dp <=? 65535) then
    if is4 src && is4 dst then
      txt "PROXY TCP4 " ++ render_ip src ++ [cSP] ++ render_ip dst ++ [cSP] ++ dec sp ++ [cSP] ++ dec dp ++ crlf
    else if negb (is4 src) && negb (is4 dst) && is16 src && is16 dst then
      txt "PROXY TCP6 " ++ render_ip src ++ [cSP] ++ render_ip dst ++ [cSP] ++ dec sp ++ [cSP] ++ dec dp ++ crlf
    else txt "PROXY UNKNOWN" ++ crlf
  else txt "PROXY UNKNOWN" ++ crlf.
(* HeaderV1.FromConn(c, false): only *net.TCPAddr is looked at *)
Definition v1_from_addr (a : addr) : ip * N := match a with ATcp i p => (i, p) | _ => (IPnil, 0) end.

(* HeaderV2.WriteTo, fields Command Src Dest; None = Command > CmdProxy (an error, nothing written) *)
Definition v2_empty (cmd : N) : list byte := sig_v2 ++ [byte_of_N (32 + cmd); x00; x00; x00].
Definition lib_write_v2 (cmd : N) (src dst : option addr) : option (list byte) :=
  if 1 <? cmd then None
  else if cmd =? 0 then Some (v2_empty cmd)
  else
    let inet (proto : N) (si : ip) (sp : N) (di : ip) (dp : N) : list byte :=
      if is4 si && is4 di then
        sig_v2 ++ [byte_of_N (32 + cmd); byte_of_N (16 + proto)] ++ N_to_be 2 12
               ++ N_to_be 4 (as4 si) ++ N_to_be 4 (as4 di) ++ N_to_be 2 (sp mod two16) ++ N_to_be 2 (dp mod two16)
      else if negb (is4 si) && negb (is4 di) && is16 si && is16 di then
        sig_v2 ++ [byte_of_N (32 + cmd); byte_of_N (32 + proto)] ++ N_to_be 2 36
               ++ N_to_be 16 (as16 si) ++ N_to_be 16 (as16 di) ++ N_to_be 2 (sp mod two16) ++ N_to_be 2 (dp mod two16)
      else v2_empty cmd in
    match src, dst with
    | Some (ATcp si sp), Some (ATcp di dp) => Some (inet 1 si sp di dp)
    | Some (AUdp si sp), Some (AUdp di dp) => Some (inet 2 si sp di dp)
    | Some (AUnix d1 n1), Some (AUnix d2 n2) =>
        if negb (Bool.eqb d1 d2) then Some (v2_empty cmd)
        else if ((108 <? length n1) || (108 <? length n2))%nat then Some (v2_empty cmd)
        else Some (sig_v2 ++ [byte_of_N (32 + cmd); byte_of_N (48 + (if d1 then 2 else 1))] ++ N_to_be 2 216
                          ++ pad_to 108 n1 ++ pad_to 108 n2)
    | Some (ATcp _ _), _ | Some (AUdp _ _), _ | Some (AUnix _ _), _ => Some (v2_empty cmd)
    | _, _ => Some (v2_empty cmd)
    end.

(* ------------------------------------------------------------------ (H) allow list *)
(* *net.IPNet after net.ParseCIDR: bits = 32 (4-byte IP and mask) or 128, base already masked *)
Record ipnet := { n_bits : N; n_base : N; n_ones : N }.
Record rule := { r_net : ipnet; r_timeout : Z }.
Definition ipnet_eqb (a b : ipnet) : bool :=
  (n_bits a =? n_bits b) && (n_base a =? n_base b) && (n_ones a =? n_ones b).

Definition prefix_eq (bits ones a b : N) : bool := (a / 2 ^ (bits - ones) =? b / 2 ^ (bits - ones)).
(* net.IPNet.Contains: a 16-byte network whose (masked) base is IPv4-mapped is compared as the
   4-byte network with the last 32 mask bits; IPv4 and IPv4-mapped candidates are compared as
   4 bytes; different lengths never match *)
Definition net4 (n : ipnet) : option (N * N) :=   (* base, ones of the 4-byte view *)
  if n_bits n =? 32 then Some (n_base n, n_ones n)
  else if (n_base n / two32 =? 65535) && (96 <=? n_ones n) then Some (n_base n mod two32, n_ones n - 96)
  else None.
Definition contains (n : ipnet) (x : ip) : bool :=
  match norm_ip x with
  | IPnil => false
  | IP4 a => match net4 n with Some (b, o) => prefix_eq 32 o b a | None => false end
  | IP6 a => match net4 n with Some _ => false | None => prefix_eq 128 (n_ones n) (n_base n) a end
  end.

(* the comparison function handed to sort.Slice by tidyRules *)
Definition rule_less (a b : rule) : bool :=
  let io := n_ones (r_net a) in let jo := n_ones (r_net b) in
  let ib := n_bits (r_net a) in let jb := n_bits (r_net b) in
  if negb (io =? jo) then jo <? io
  else if negb (ib =? jb) then jb <? ib
  else if negb (r_timeout a =? r_timeout b)%Z then
    (if (r_timeout b =? 0)%Z then true else (r_timeout a <? r_timeout b)%Z)
  else (r_timeout a <? r_timeout b)%Z.
Fixpoint insert_rule (x : rule) (l : list rule) : list rule :=
  match l with
  | [] => [x]
  | y :: r => if rule_less y x then y :: insert_rule x r else x :: l
  end.
(* sort.Slice is not stable and its permutation of equal keys is unspecified: [isort] is one
   admissible result; the theorems hold for every permutation-producing sort *)
Definition isort (l : list rule) : list rule := fold_right insert_rule [] l.

(* the in-place compaction loop of tidyRules, on the array [arr] (= the sorted rules):
     last := rules[0]; nf := rules[1:1]
     for _, f := range rules[1:] { if last.Subnet.String() == f.Subnet.String() { continue }; last = f; nf = append(nf, f) }
   append(nf, f) writes f at index 1+len(nf) of the same backing array; h.rules keeps its length *)
Definition set_nth (arr : list rule) (i : nat) (x : rule) : list rule :=
  firstn i arr ++ match skipn i arr with [] => [] | _ :: r => x :: r end.
Fixpoint compact_loop (k : nat) (steps : nat) (arr : list rule) (last : rule) (nlen : nat) : list rule * nat :=
  match steps with
  | O => (arr, nlen)
  | S st =>
      match nth_error arr k with
      | None => (arr, nlen)
      | Some f =>
          if ipnet_eqb (r_net last) (r_net f) then compact_loop (S k) st arr last nlen
          else compact_loop (S k) st (set_nth arr (S nlen) f) f (S nlen)
      end
  end.
Section Tidy.
Variable sort : list rule -> list rule.
Definition tidy_rules_with (rules : list rule) : list rule :=
  let sorted := sort rules in
  match sorted with
  | [] => []
  | r0 :: _ => fst (compact_loop 1 (length sorted - 1) sorted r0 0)
  end.
End Tidy.
Definition tidy_rules : list rule -> list rule := tidy_rules_with isort.

(* newConn: None = nil (not PROXY-parsed); Some t = wrapped, header awaited with timeout t *)
Definition remote_ip_of (a : addr) : option ip :=
  match a with ATcp i _ => Some i | AUdp i _ => Some i | _ => None end.
Fixpoint first_containing (rules : list rule) (x : ip) : option Z :=
  match rules with
  | [] => None
  | r :: rest => if contains (r_net r) x then Some (r_timeout r) else first_containing rest x
  end.
Definition new_conn (timeout : Z) (rules : list rule) (remote : addr) : option Z :=
  match rules with
  | [] => Some timeout
  | _ => match remote_ip_of remote with
         | None => None
         | Some x => first_containing rules x
         end
  end.

(* ------------------------------------------------------------------ (H) the receiving handler *)
(* what a later handler can observe of the connection: addresses, the replacer table entries
   l4.conn.remote_addr / l4.conn.local_addr, the bytes still to be read, and the addresses held by
   the l4.proxy_protocol.conn variable (None = variable not set) *)
Record cview := {
  c_remote : addr; c_local : addr;
  c_repl_remote : addr; c_repl_local : addr;
  c_stream : list byte;
  c_ppvar : option (addr * addr)
}.
(* layer4.WrapConnection *)
Definition wrap_connection (remote local : addr) (stream : list byte) : cview :=
  {| c_remote := remote; c_local := local; c_repl_remote := remote; c_repl_local := local;
     c_stream := stream; c_ppvar := None |}.

Inductive hres := HPass (v : cview) | HNext (v : cview) | HError.
Definition override (o : option addr) (a : addr) : addr := match o with Some x => x | None => a end.

(* an address the header really declares: after v1 UNKNOWN the library reports a *net.TCPAddr
   with a nil IP, which declares nothing *)
Definition declares (o : option addr) : option addr :=
  match o with
  | Some (ATcp IPnil _) => None
  | Some (AUdp IPnil _) => None
  | _ => o
  end.
Definition hdr_addr (real : bool) (o : option addr) : option addr := if real then declares o else o.

(* Handler.Handle; [sets] = whether Handle stores the new addresses in the replacer; [real] =
   whether the connection it hands on answers an undeclared address with the real one
   (the proxyConn wrapper) *)
Definition handle_with (sets real : bool) (timeout : Z) (rules : list rule) (cv : cview) : hres :=
  match new_conn timeout rules (c_remote cv) with
  | None => HPass cv
  | Some _ =>
      match parse (c_stream cv) with
      | POk h rest =>
          let r := override (hdr_addr real (h_src h)) (c_remote cv) in
          let l := override (hdr_addr real (h_dst h)) (c_local cv) in
          HNext {| c_remote := r; c_local := l;
                   c_repl_remote := if sets then r else c_repl_remote cv;
                   c_repl_local := if sets then l else c_repl_local cv;
                   c_stream := rest; c_ppvar := Some (r, l) |}
      | _ => HError
      end
  end.
(* the handler as the source has it today (facts read from handler.go by tools/l4gen) *)
Definition handle : Z -> list rule -> cview -> hres :=
  handle_with l4proxyprotocol_handle_sets_placeholders l4proxyprotocol_undeclared_addr_falls_back.

(* ------------------------------------------------------------------ (H) the sending side *)
(* l4proxyprotocol.GetConn(down): the connection stored by the receiving handler if any, else
   the downstream connection itself *)
Definition effective (cv : cview) : addr * addr :=
  match c_ppvar cv with Some p => p | None => (c_remote cv, c_local cv) end.
(* dialPeers: version 0 = none configured; None = WriteTo failed *)
Definition dial_header (version : N) (cv : cview) : option (list byte) :=
  let '(r, l) := effective cv in
  match version with
  | 1 => let '(si, sp) := v1_from_addr r in let '(di, dp) := v1_from_addr l in Some (lib_write_v1 si sp di dp)
  | 2 => lib_write_v2 1 (Some r) (Some l)
  | _ => Some []
  end.
(* what one upstream receives: the header, then the client's stream *)
Definition upstream_bytes (version : N) (cv : cview) : option (list byte) :=
  option_map (fun h => h ++ c_stream cv) (dial_header version cv).
