(* OpenVPN matcher: modules/l4openvpn/matcher.go Match + the Match / Authenticate / Decrypt methods of
   messages.go + the key-quarter selection of crypto.go.  Definitions only.

   HMAC and AES-CTR are abstract [Section] functions; everything around them (framing, length and
   opcode gates, parsing, field rules, which key bytes / which plain text go into the primitives,
   the digest search order with the mutable lastDigest) is written out.  time.Now() is the
   argument [now] (nanoseconds since the epoch). *)
From Coq Require Import List NArith ZArith Bool Arith.
From Coq.Strings Require Import Byte.
From L4.gen Require Import Consts.
From L4.model Require Import GoBase CodecOpenVpn.
Import ListNotations.

Record skey := { k_bidi : bool; k_inverse : bool; k_bytes : list byte }.
(* a configured client key: decrypted StaticKey + the wrapped (wire) form *)
Record ckey := { ck_static : skey; ck_wk : wkey }.

Record cfg := {
  acc_plain : bool; acc_auth : bool; acc_crypt : bool; acc_crypt2 : bool;
  ign_crypto : bool; ign_ts : bool;
  gk_auth : option skey; gk_crypt : option skey;
  auth_digest : option nat;           (* index into AuthDigests *)
  client_keys : list ckey; server_key : option skey }.

(* what Provision guarantees *)
Definition key_len_ok (n : nat) (k : option skey) : Prop :=
  match k with Some s => length (k_bytes s) = n | None => True end.
Definition cfg_wf (c : cfg) : Prop :=
  key_len_ok sz_key (gk_auth c) /\ key_len_ok sz_key (gk_crypt c) /\ key_len_ok sz_key_half (server_key c) /\
  Forall (fun ck => length (k_bytes (ck_static ck)) = sz_key) (client_keys c) /\
  match auth_digest c with Some d => (d < length auth_digests)%nat | None => True end.
Definition ld_ok (ld : option nat) : Prop :=
  match ld with Some d => (d < length auth_digests)%nat | None => True end.

(* ---- crypto.go: GetQuarterBytes and the eight key selectors (None = slice panic) ---- *)
Definition quarter (sk : skey) (q : nat) : option (list byte) :=
  let kb := k_bytes sk in
  let q := (q mod 4)%nat in
  let q := if (length kb <? sz_key)%nat then (q mod 2)%nat else q in
  let q := if (length kb <? sz_key_half)%nat then 0%nat else q in
  if (length kb <? sz_key_quarter)%nat then Some kb
  else slice kb (q * sz_key_quarter) ((q + 1) * sz_key_quarter).
Definition key_of (bs : option (list byte)) (size : nat) : option (list byte) :=
  match bs with Some b => slice b 0 (Nat.min size sz_key_quarter) | None => None end.
Definition client_auth_key sk size :=
  key_of (if k_inverse sk || k_bidi sk then quarter sk 1 else quarter sk 3) size.
Definition client_encrypt_key sk size := key_of (if k_inverse sk then quarter sk 0 else quarter sk 2) size.
Definition client_decrypt_key sk size := key_of (if k_inverse sk then quarter sk 2 else quarter sk 0) size.
Definition server_auth_key sk size :=
  key_of (if k_inverse sk && negb (k_bidi sk) then quarter sk 3 else quarter sk 1) size.
Definition server_decrypt_key sk size := client_encrypt_key sk size.

Definition cipher_block : nat := 16.  (* CryptCipherDefault.SizeBlock *)
Definition cipher_key : nat := 32.    (* CryptCipherDefault.SizeKey *)

(* result of a boolean method that may panic *)
Inductive bres := BTrue | BFalse | BPanic.
Definition band (a : bres) (b : bool) : bres := match a with BTrue => if b then BTrue else BFalse | x => x end.

Section Ovpn.
  (* AuthDigest.Generator / HMACCreateAndGenerate for digest index d *)
  Variable hmac : nat -> list byte -> list byte -> list byte.
  (* CryptCipherDefault.Decryptor (key, iv, data) *)
  Variable aes_ctr : list byte -> list byte -> list byte -> list byte.
  Variable now : Z.

  (* MessageTraitReplay.ValidateReplayTimestamp(time.Now()) *)
  Definition ts_valid (ts : N) : bool :=
    let t := (Z.of_N ts * 1000000000)%Z in
    ((now - l4openvpn_TimestampValidationInterval <? t) && (t <? now + l4openvpn_TimestampValidationInterval))%Z.

  (* HMACValidateOnServer: HMACGenerateOnClient with GetClientAuthKey(ad.Size), hmac.Equal *)
  Definition validate_on_server (d : nat) (sk : skey) (pl expected : list byte) : bres :=
    match client_auth_key sk (digest_size d) with
    | None => BPanic
    | Some key => if bytes_eqb (hmac d key pl) expected then BTrue else BFalse
    end.
  Definition validate_on_client (d : nat) (sk : skey) (pl expected : list byte) : bres :=
    match server_auth_key sk (digest_size d) with
    | None => BPanic
    | Some key => if bytes_eqb (hmac d key pl) expected then BTrue else BFalse
    end.

  (* the "try all other supported digests one by one" loop *)
  Fixpoint try_digests (val : nat -> bres) (skip : option nat) (hl : nat) (ds : list nat) : bres * option nat :=
    match ds with
    | [] => (BFalse, skip)
    | d :: r =>
        if negb (match skip with Some s => Nat.eqb d s | None => false end) && (hl =? digest_size d)%nat then
          match val d with
          | BTrue => (BTrue, Some d)
          | BPanic => (BPanic, skip)
          | BFalse => try_digests val skip hl r
          end
        else try_digests val skip hl r
    end.

  (* MessageTraitAuth.AuthenticateOnServer / OnClient: (result, msg.Digest afterwards).
     [keylen_ok]: the StaticKey length gate of the respective method. *)
  Definition authenticate (val : nat -> bres) (keylen_ok : bool) (ad dg : option nat) (hm : list byte) : bres * option nat :=
    if (length hm =? 0)%nat then (BFalse, dg) else
    if negb keylen_ok then (BFalse, dg) else
    match ad with
    | Some d =>
        if (length hm =? digest_size d)%nat then
          match val d with BTrue => (BTrue, Some d) | BFalse => (BFalse, dg) | BPanic => (BPanic, dg) end
        else (BFalse, dg)
    | None =>
        let first :=
          match dg with
          | Some d0 => if (length hm =? digest_size d0)%nat then val d0 else BFalse
          | None => BFalse
          end in
        match first with
        | BTrue => (BTrue, dg)
        | BPanic => (BPanic, dg)
        | BFalse => try_digests val dg (length hm) (seq 0 (length auth_digests))
        end
    end.

  Definition plain_match (sid prev pid : N) : bool := (0 <? sid)%N && (prev =? 0)%N && (pid =? 0)%N.

  (* MessageAuth.Match with the Go evaluation order (&& short-circuits before Authenticate) *)
  Definition auth_match (c : cfg) (ld : option nat) (m : auth) : bres * option nat :=
    if plain_match (a_sid m) (a_prev m) (a_pid m) && (a_rpid m =? 1)%N && (ign_ts c || ts_valid (a_rts m)) &&
       (match auth_digest c with Some d => (digest_size d =? length (a_hmac m))%nat | None => true end)
    then
      if ign_crypto c then (BTrue, ld) else
      match gk_auth c with
      | None => (BTrue, ld)
      | Some sk =>
          authenticate (fun d => validate_on_server d sk (auth_to_bytes_auth m) (a_hmac m))
                       (length (k_bytes sk) =? sz_key)%nat (auth_digest c) ld (a_hmac m)
      end
    else (BFalse, ld).

  (* MessageCrypt.DecryptAndAuthenticate(nil, sk) followed by the PrevPacketIDsCount/ThisPacketID test *)
  Definition crypt_decrypt_auth (m : crypt) (sk : skey) : bres :=
    if negb (length (c_enc m) =? sz_hdr + sz_pid)%nat then BFalse else
    (* DecryptOnServer: Cipher and Digest are the defaults after FromBytesHeadless *)
    if negb (length (c_hmac m) =? digest_size digest_default)%nat then BFalse else
    match server_decrypt_key sk cipher_key, slice (c_hmac m) 0 (Nat.min cipher_block (digest_size digest_default)) with
    | Some key, Some iv =>
        match crypt_from_bytes_crypt m (aes_ctr key iv (c_enc m)) with
        | RPanic => BPanic
        | RErr _ => BFalse
        | ROk m' =>
            band (fst (authenticate (fun d => validate_on_server d sk (crypt_to_bytes_auth m') (c_hmac m'))
                                    (length (k_bytes sk) =? sz_key)%nat None (Some digest_default) (c_hmac m')))
                 ((c_prev m' =? 0)%N && (c_pid m' =? 0)%N)
        end
    | _, _ => BPanic
    end.

  Definition crypt_match (c : cfg) (m : crypt) : bres :=
    if (0 <? c_sid m)%N && (c_rpid m =? 1)%N && (ign_ts c || ts_valid (c_rts m)) then
      if ign_crypto c then BTrue else
      match gk_crypt c with None => BTrue | Some sk => crypt_decrypt_auth m sk end
    else BFalse.

  (* WrappedKey.ToBytesAuth after FromBytesCrypt(plain) *)
  Definition wk_to_bytes_auth (pl : list byte) : list byte :=
    let kb := firstn sz_key pl in
    let payload := skipn (sz_key + sz_mdtype) pl in
    if (0 <? length payload)%nat then
      N_to_be 2 (N.of_nat (sz_len + length kb + sz_mdtype + length payload + crypt_hmac) mod 65536) ++ kb ++
      firstn 1 (skipn sz_key pl) ++ payload
    else N_to_be 2 (N.of_nat (sz_len + length kb + crypt_hmac) mod 65536) ++ kb.

  (* WrappedKey.DecryptAndAuthenticate(nil, serverKey): result and the unwrapped client key *)
  Definition wk_decrypt_auth (w : wkey) (sk : skey) : bres * list byte :=
    if (length (w_enc w) <? sz_key)%nat || (wk_max - sz_len - crypt_hmac <? length (w_enc w))%nat then (BFalse, []) else
    if negb (length (w_hmac w) =? digest_size digest_default)%nat then (BFalse, []) else
    match client_decrypt_key sk cipher_key, slice (w_hmac w) 0 (Nat.min cipher_block (digest_size digest_default)) with
    | Some key, Some iv =>
        let pl := aes_ctr key iv (w_enc w) in
        if negb (length pl =? length (w_enc w))%nat then (BFalse, []) else
        match slice pl 0 sz_key with
        | None => (BPanic, [])
        | Some kb =>
            (fst (authenticate (fun d => validate_on_client d sk (wk_to_bytes_auth pl) (w_hmac w))
                               ((length (k_bytes sk) =? sz_key)%nat || (length (k_bytes sk) =? sz_key_half)%nat)
                               None (Some digest_default) (w_hmac w)), kb)
        end
    | _, _ => (BPanic, [])
    end.

  Fixpoint find_ck (cks : list ckey) (w : wkey) : option ckey :=
    match cks with
    | [] => None
    | ck :: r => if bytes_eqb (w_hmac (ck_wk ck)) (w_hmac w) && bytes_eqb (w_enc (ck_wk ck)) (w_enc w) then Some ck else find_ck r w
    end.

  Definition crypt2_match (c : cfg) (m : crypt2) : bres :=
    let cm := r_crypt m in
    if negb ((0 <? c_sid cm)%N && ((c_rpid cm =? 1)%N || (c_rpid cm =? 251658241)%N) && (ign_ts c || ts_valid (c_rts cm))) then BFalse else
    if ign_crypto c then BTrue else
    match client_keys c with
    | _ :: _ =>
        match find_ck (client_keys c) (r_wk m) with
        | Some ck => crypt_decrypt_auth cm (ck_static ck)
        | None => BFalse
        end
    | [] =>
        match server_key c with
        | None => BTrue
        | Some sk =>
            match wk_decrypt_auth (r_wk m) sk with
            | (BTrue, kb) => crypt_decrypt_auth cm {| k_bidi := false; k_inverse := false; k_bytes := kb |}
            | (r, _) => r
            end
        end
    end.

  (* ---- Match ---- *)
  Definition lN (n : nat) : N := N.of_nat n.

  (* the three attempts on a V2 body, in source order; returns verdict and new lastDigest *)
  Definition try_v2 (c : cfg) (ld : option nat) (body : list byte) (h : header) : verdict * option nat :=
    let r_plain :=
      if acc_plain c then
        match plain_from_headless body h with
        | ROk m => if plain_match (p_sid m) (p_prev m) (p_pid m) then BTrue else BFalse
        | RErr _ => BFalse
        | RPanic => BPanic
        end
      else BFalse in
    match r_plain with
    | BTrue => (Yes, ld)
    | BPanic => (Panic, ld)
    | BFalse =>
        let r_auth :=
          if acc_auth c then
            match auth_from_headless body h with
            | ROk m => auth_match c ld m
            | RErr _ => (BFalse, ld)
            | RPanic => (BPanic, ld)
            end
          else (BFalse, ld) in
        match r_auth with
        | (BTrue, dg) => (Yes, dg)
        | (BPanic, _) => (Panic, ld)
        | (BFalse, _) =>
            let r_crypt :=
              if acc_crypt c then
                match crypt_from_headless body h with
                | ROk m => crypt_match c m
                | RErr _ => BFalse
                | RPanic => BPanic
                end
              else BFalse in
            match r_crypt with BTrue => (Yes, ld) | BPanic => (Panic, ld) | BFalse => (No, ld) end
        end
    end.

  Definition try_v3 (c : cfg) (ld : option nat) (body : list byte) (h : header) : verdict * option nat :=
    match crypt2_from_headless body h with
    | ROk m => match crypt2_match c m with BTrue => (Yes, ld) | BPanic => (Panic, ld) | BFalse => (No, ld) end
    | RErr _ => (No, ld)
    | RPanic => (Panic, ld)
    end.

  (* [tcp]: cx.LocalAddr() is a *net.TCPAddr.  [p]: the bytes prefetched so far. *)
  Definition ovpn_match (c : cfg) (ld : option nat) (tcp : bool) (p : list byte) : verdict * option nat :=
    let framing : option (option (nat * list byte)) :=   (* None: need more; Some None: rejected *)
      if tcp then
        match read_full sz_len p with
        | None => None
        | Some (lb, r1) =>
            let l := N.to_nat (be_N lb) in
            if (l <? plain_total)%nat || (crypt2_max <? l)%nat then Some None else Some (Some (l, r1))
        end
      else Some (Some (0%nat, p)) in
    match framing with
    | None => (More, ld)
    | Some None => (No, ld)
    | Some (Some (l, r1)) =>
        match read_full sz_hdr r1 with
        | None => (More, ld)
        | Some (hb, r2) =>
            match header_from_bytes hb with
            | RPanic => (Panic, ld)
            | RErr _ => (No, ld)
            | ROk h =>
                if (0 <? keyid h)%N then (No, ld) else
                if (opcode h =? op_v2)%N && (acc_plain c || acc_auth c || acc_crypt c) then
                  if tcp then
                    if (auth_max <? l)%nat then (No, ld) else
                    match read_at_least (l - sz_hdr + 1) (l - sz_hdr) r2 with
                    | None => (More, ld)
                    | Some (buf, _) =>
                        if (l - sz_hdr <? length buf)%nat then (No, ld) else
                        try_v2 c ld buf h
                    end
                  else
                    match read_at_least (auth_max_hl + 1) 1 r2 with
                    | None => (More, ld)
                    | Some (buf, _) =>
                        if (length buf <? plain_hl)%nat || (auth_max_hl <? length buf)%nat then (No, ld) else
                        try_v2 c ld buf h
                    end
                else if (opcode h =? op_v3)%N && acc_crypt2 c then
                  if tcp then
                    if (l <? crypt2_min)%nat then (No, ld) else
                    match read_at_least (l - sz_hdr + 1) (l - sz_hdr) r2 with
                    | None => (More, ld)
                    | Some (buf, _) =>
                        if (l - sz_hdr <? length buf)%nat then (No, ld) else try_v3 c ld buf h
                    end
                  else
                    match read_at_least (crypt2_max_hl + 1) 1 r2 with
                    | None => (More, ld)
                    | Some (buf, _) =>
                        if (length buf <? crypt2_min_hl)%nat || (crypt2_max_hl <? length buf)%nat then (No, ld) else
                        try_v3 c ld buf h
                    end
                else (No, ld)
            end
        end
    end.

  (* bytes requested from make() on the way (matcher.go: buf (3), the message buffer; messages.go: ToBytesAuth,
     decrypt output) - an upper bound independent of the input *)
  Definition ovpn_alloc (tcp : bool) (p : list byte) : N :=
    let l := if tcp then match read_full sz_len p with Some (lb, _) => N.to_nat (be_N lb) | None => 0%nat end else 0%nat in
    lN (sz_len + sz_hdr) +
    (if tcp then (if (crypt2_max <? l)%nat then 0 else lN (l + 1)) else lN (crypt2_max_hl + 1) + lN (auth_max_hl + 1)) +
    lN (4 * wk_max).
End Ovpn.
