(* C09 - channel-level model of layer4/server.go: Server.servePacket and packetConn
   (Read / Write / Close), as a state machine whose steps are chosen by an oracle (the step
   list): socket arrivals, the loop's select branches, the handlers' calls, idle and deadline
   expiry, shutdown. No proofs here (proofs/UdpProofs.v).

   What comes from the source on every run (gen/Shape.v, written by tools/l4gen):
     - the three channel capacities of servePacket,
     - packetConn.Close statement by statement (layer4_pc_close_ops) - the program order of
       "close(readCh)" / "signal closed" / "drain" / "notify the loop" decides whether the loop
       can send on a closed channel,
     - whether the loop's send is a select next to <-conn.closed, whether the loop ignores an
       association that has already ended, whether a close notification identifies the
       association (so that a stale one cannot remove a newer association's entry),
     - whether Read selects on pc.closed and notifies before returning io.EOF.

   Go partiality made explicit: a send on a closed channel sets [panicked] (the process dies:
   no step is enabled afterwards); a blocking operation is a step that is not enabled ([None]). *)
From Coq Require Import List Arith ZArith NArith Lia Bool.
From L4.gen Require Import Shape.
Import ListNotations.
Close Scope Z_scope.
Open Scope nat_scope.

Definition addr := nat.
Definition cid := nat.

(* a datagram: source address, identity (arrival number given by the environment), byte length *)
Record pkt := { src : addr; pid : nat; size : N }.

Definition pkt_eqb (p q : pkt) : bool :=
  if Nat.eqb (pid p) (pid q) then if Nat.eqb (src p) (src q) then N.eqb (size p) (size q) else false else false.

(* ---- configuration read from the source ---- *)

(* statements of packetConn.Close *)
Inductive cop :=
| CRelease      (* if pc.lastPacket != nil { Put; pc.lastPacket = nil } *)
| CCloseRead    (* close(pc.readCh) *)
| CDrainRange   (* for pkt := range pc.readCh { Put }   -- ends only on a closed channel *)
| CNotify       (* pc.closeCh <- ... *)
| CReturn       (* return nil *)
| CSignal       (* close(pc.closed) under a sync.Once *)
| CDrainNB      (* for { select { case pkt := <-pc.readCh: Put; default: leave } } *)
| COther.       (* anything the translator does not recognise *)

Definition cop_of_code (z : Z) : cop :=
  match z with
  | 0%Z => CRelease | 1%Z => CCloseRead | 2%Z => CDrainRange | 3%Z => CNotify
  | 4%Z => CReturn | 5%Z => CSignal | 6%Z => CDrainNB | _ => COther
  end.

Record cfg := {
  cap_packets : nat;           (* make(chan packet, _) *)
  cap_close : nat;             (* make(chan ..., _) for closeCh *)
  cap_read : nat;              (* make(chan *packet, _) for readCh *)
  close_ops : list cop;        (* body of packetConn.Close *)
  send_guarded : bool;         (* loop: select { case conn.readCh <- &pkt: case <-conn.closed: drop } *)
  skips_closed : bool;         (* loop: an entry whose association has signalled closure counts as absent *)
  notify_identity : bool;      (* loop: delete only if the table entry is the notifying association *)
  read_selects_closed : bool;  (* Read: case <-pc.closed => EOF path *)
  read_eof_notifies : bool;    (* Read: pc.closeCh <- ... before returning io.EOF *)
  read_notify_blocking : bool  (* ... as a plain send; false: select with default, dropped when closeCh is full *)
}.

Definition src_cfg : cfg := {|
  cap_packets := Z.to_nat layer4_udp_cap_packets;
  cap_close := Z.to_nat layer4_udp_cap_closeCh;
  cap_read := Z.to_nat layer4_udp_cap_readCh;
  close_ops := map cop_of_code layer4_pc_close_ops;
  send_guarded := layer4_udp_loop_send_guarded;
  skips_closed := layer4_udp_loop_skips_closed;
  notify_identity := layer4_udp_close_notify_identity && layer4_udp_loop_delete_checked;
  read_selects_closed := layer4_pc_read_selects_closed;
  read_eof_notifies := layer4_pc_read_eof_notifies;
  read_notify_blocking := layer4_pc_read_notify_blocking
|}.

(* the code as it was before the repair (Close: release, close(readCh), drain, notify, return;
   plain send; notification by address): kept as a literal so that the refutations stay checkable *)
Definition legacy_cfg : cfg := {|
  cap_packets := 10; cap_close := 10; cap_read := 5;
  close_ops := [CRelease; CCloseRead; CDrainRange; CNotify; CReturn];
  send_guarded := false; skips_closed := false; notify_identity := false;
  read_selects_closed := false; read_eof_notifies := true; read_notify_blocking := true
|}.

(* the repaired code, except that Read's notification is a select with a default branch *)
Definition lossy_cfg : cfg := {|
  cap_packets := 10; cap_close := 10; cap_read := 5;
  close_ops := [CRelease; CSignal; CDrainNB; CNotify; CReturn];
  send_guarded := true; skips_closed := true; notify_identity := true;
  read_selects_closed := true; read_eof_notifies := true; read_notify_blocking := false
|}.

(* ---- state ---- *)

Inductive phase := Running | Closing (k : nat) | Done.

Record conn := {
  caddr : addr;
  readq : list pkt;            (* readCh contents *)
  rclosed : bool;              (* readCh closed *)
  sclosed : bool;              (* pc.closed closed *)
  last : option (pkt * N);     (* lastPacket and the number of its bytes already served *)
  cphase : phase               (* handler running / program counter inside Close / finished *)
}.

Inductive qitem := QPkt (p : pkt) | QErr.

(* observable events (plus ERoute/EDrop/EForget, which only the model sees) *)
Inductive ev :=
| EArr (p : pkt)                          (* the socket reader handed p to the packets channel *)
| ENew (c : cid) (a : addr)               (* association c created for address a, handler spawned *)
| ERoute (p : pkt) (c : cid)              (* loop put p into c's readCh *)
| EDrop (p : pkt) (c : cid)               (* loop dropped p because c had signalled closure *)
| EForget (a : addr) (c : cid) (hit : bool) (* loop processed a close notification; hit: an entry was removed *)
| ERead (c : cid) (p : pkt) (fresh : bool) (off len : N) (* Read returned bytes [off, off+len) of p; fresh: p was taken from readCh by this call *)
| EEof (c : cid)                          (* Read notified the loop and returned io.EOF *)
| EIdle (c : cid)                         (* the idle timer of c fired (always followed by EEof c) *)
| EDeadline (c : cid)                     (* Read returned os.ErrDeadlineExceeded *)
| EWrite (c : cid) (w : nat) (a : addr)   (* Write sent payload w to address a *)
| ERet (c : cid)                          (* the handler returned (Close starts) *)
| EClosed (c : cid)                       (* Close has returned *)
| EStop                                   (* the loop returned the socket error *)
| EPanic.                                 (* send on closed channel *)

Record state := {
  conns : list conn;                 (* association c is the c-th element *)
  table : list (addr * cid);         (* udpConns *)
  packets : list qitem;
  closeCh : list (addr * cid);       (* a notification: the address (and who sent it) *)
  pending : option (pkt * cid);      (* the loop has taken a datagram and is at the send *)
  sockdone : bool;                   (* the reader goroutine has returned *)
  stopped : bool;                    (* servePacket has returned *)
  panicked : bool;
  trace : list ev
}.

Definition init : state := {|
  conns := []; table := []; packets := []; closeCh := []; pending := None;
  sockdone := false; stopped := false; panicked := false; trace := [] |}.

(* ---- helpers ---- *)

Definition lookup (a : addr) (t : list (addr * cid)) : option cid :=
  match find (fun x => Nat.eqb (fst x) a) t with Some x => Some (snd x) | None => None end.
Definition remove (a : addr) (t : list (addr * cid)) : list (addr * cid) :=
  filter (fun x => negb (Nat.eqb (fst x) a)) t.

Fixpoint upd {A} (l : list A) (i : nat) (x : A) : list A :=
  match l, i with
  | [], _ => []
  | _ :: r, O => x :: r
  | y :: r, S j => y :: upd r j x
  end.

Definition get (s : state) (c : cid) : option conn := nth_error (conns s) c.

Definition with_conn (s : state) (c : cid) (k : conn) (e : list ev) : state :=
  {| conns := upd (conns s) c k; table := table s; packets := packets s; closeCh := closeCh s;
     pending := pending s; sockdone := sockdone s; stopped := stopped s; panicked := panicked s;
     trace := trace s ++ e |}.

Definition with_conn_note (s : state) (c : cid) (k : conn) (e : list ev) : state :=
  {| conns := upd (conns s) c k; table := table s; packets := packets s;
     closeCh := closeCh s ++ [(caddr k, c)];
     pending := pending s; sockdone := sockdone s; stopped := stopped s; panicked := panicked s;
     trace := trace s ++ e |}.

Definition set_readq (k : conn) (q : list pkt) : conn :=
  {| caddr := caddr k; readq := q; rclosed := rclosed k; sclosed := sclosed k; last := last k; cphase := cphase k |}.
Definition set_last (k : conn) (q : list pkt) (l : option (pkt * N)) : conn :=
  {| caddr := caddr k; readq := q; rclosed := rclosed k; sclosed := sclosed k; last := l; cphase := cphase k |}.
Definition set_phase (k : conn) (ph : phase) : conn :=
  {| caddr := caddr k; readq := readq k; rclosed := rclosed k; sclosed := sclosed k; last := last k; cphase := ph |}.
Definition set_rclosed (k : conn) (ph : phase) : conn :=
  {| caddr := caddr k; readq := readq k; rclosed := true; sclosed := sclosed k; last := last k; cphase := ph |}.
Definition set_sclosed (k : conn) (ph : phase) : conn :=
  {| caddr := caddr k; readq := readq k; rclosed := rclosed k; sclosed := true; last := last k; cphase := ph |}.
Definition new_conn (a : addr) : conn :=
  {| caddr := a; readq := []; rclosed := false; sclosed := false; last := None; cphase := Running |}.

(* the entry of udpConns the loop will use for address a: none if absent, or if the loop looks at
   conn.closed first and the association has ended *)
Definition usable (g : cfg) (s : state) (a : addr) : option cid :=
  match lookup a (table s) with
  | Some c =>
      match get s c with
      | Some k => if skips_closed g && sclosed k then None else Some c
      | None => None
      end
  | None => None
  end.

(* ---- steps ---- *)

Inductive step :=
| SockRecv (p : pkt)          (* reader goroutine: ReadFrom returned p, `packets <- p` completed *)
| SockErr                     (* ReadFrom failed (socket closed at shutdown): `packets <- err`, reader returns *)
| LoopClose                   (* the select takes closeCh *)
| LoopRecv                    (* the select takes packets: error => return, else look up / create *)
| LoopSend                    (* `conn.readCh <- &pkt` completes (or panics) *)
| LoopDrop                    (* guarded send only: the `<-conn.closed` case is taken *)
| ConnRead (c : cid) (n : N)   (* Read(b) with len(b) = n returns data *)
| ConnEof (c : cid)           (* Read sees the closed channel / closed signal: notify, io.EOF *)
| ConnIdle (c : cid)          (* Read's idle timer fires: notify, io.EOF *)
| ConnDeadline (c : cid)      (* Read returns os.ErrDeadlineExceeded *)
| ConnWrite (c : cid) (w : nat)
| HandlerReturn (c : cid)     (* Server.handle's deferred conn.Close() begins *)
| CloseStep (c : cid).        (* next statement of packetConn.Close *)

Definition next_phase (g : cfg) (i : nat) : phase := Closing (S i).

Definition exec (g : cfg) (s : state) (t : step) : option state :=
  if panicked s then None else
  match t with
  | SockRecv p =>
      if sockdone s then None else
      if length (packets s) <? cap_packets g then
        Some {| conns := conns s; table := table s; packets := packets s ++ [QPkt p]; closeCh := closeCh s;
                pending := pending s; sockdone := false; stopped := stopped s; panicked := false;
                trace := trace s ++ [EArr p] |}
      else None
  | SockErr =>
      if sockdone s then None else
      if length (packets s) <? cap_packets g then
        Some {| conns := conns s; table := table s; packets := packets s ++ [QErr]; closeCh := closeCh s;
                pending := pending s; sockdone := true; stopped := stopped s; panicked := false;
                trace := trace s |}
      else None
  | LoopClose =>
      if stopped s then None else
      match pending s, closeCh s with
      | None, (a, c) :: r =>
          let hit := match lookup a (table s) with
                     | Some c' => if notify_identity g then Nat.eqb c' c else true
                     | None => false end in
          Some {| conns := conns s; table := if hit then remove a (table s) else table s;
                  packets := packets s; closeCh := r; pending := None; sockdone := sockdone s;
                  stopped := false; panicked := false; trace := trace s ++ [EForget a c hit] |}
      | _, _ => None
      end
  | LoopRecv =>
      if stopped s then None else
      match pending s, packets s with
      | None, QErr :: r =>
          Some {| conns := conns s; table := table s; packets := r; closeCh := closeCh s; pending := None;
                  sockdone := sockdone s; stopped := true; panicked := false; trace := trace s ++ [EStop] |}
      | None, QPkt p :: r =>
          match usable g s (src p) with
          | Some c =>
              Some {| conns := conns s; table := table s; packets := r; closeCh := closeCh s;
                      pending := Some (p, c); sockdone := sockdone s; stopped := false; panicked := false;
                      trace := trace s |}
          | None =>
              let c := length (conns s) in
              Some {| conns := conns s ++ [new_conn (src p)];
                      table := (src p, c) :: remove (src p) (table s);
                      packets := r; closeCh := closeCh s; pending := Some (p, c);
                      sockdone := sockdone s; stopped := false; panicked := false;
                      trace := trace s ++ [ENew c (src p)] |}
          end
      | _, _ => None
      end
  | LoopSend =>
      match pending s with
      | Some (p, c) =>
          match get s c with
          | Some k =>
              if rclosed k then
                Some {| conns := conns s; table := table s; packets := packets s; closeCh := closeCh s;
                        pending := None; sockdone := sockdone s; stopped := stopped s; panicked := true;
                        trace := trace s ++ [EPanic] |}
              else if length (readq k) <? cap_read g then
                Some {| conns := upd (conns s) c (set_readq k (readq k ++ [p])); table := table s;
                        packets := packets s; closeCh := closeCh s; pending := None; sockdone := sockdone s;
                        stopped := stopped s; panicked := false; trace := trace s ++ [ERoute p c] |}
              else None
          | None => None
          end
      | None => None
      end
  | LoopDrop =>
      match pending s with
      | Some (p, c) =>
          match get s c with
          | Some k =>
              if send_guarded g && sclosed k then
                Some {| conns := conns s; table := table s; packets := packets s; closeCh := closeCh s;
                        pending := None; sockdone := sockdone s; stopped := stopped s; panicked := false;
                        trace := trace s ++ [EDrop p c] |}
              else None
          | None => None
          end
      | None => None
      end
  | ConnRead c n =>
      match get s c with
      | Some k =>
          match last k with
          | Some (p, off) =>
              let take := N.min n (size p - off) in
              Some (with_conn s c (set_last k (readq k) (if (off + take <? size p)%N then Some (p, (off + take)%N) else None))
                              [ERead c p false off take])
          | None =>
              match readq k with
              | p :: q =>
                  let take := N.min n (size p) in
                  Some (with_conn s c (set_last k q (if (take <? size p)%N then Some (p, take) else None))
                                  [ERead c p true 0%N take])
              | [] => None
              end
          end
      | None => None
      end
  | ConnEof c =>
      match get s c with
      | Some k =>
          match last k with
          | Some _ => None
          | None =>
              if (rclosed k && match readq k with [] => true | _ => false end) || (read_selects_closed g && sclosed k) then
                if read_eof_notifies g then
                  if length (closeCh s) <? cap_close g then Some (with_conn_note s c k [EEof c])
                  else if read_notify_blocking g then None else Some (with_conn s c k [EEof c])
                else Some (with_conn s c k [EEof c])
              else None
          end
      | None => None
      end
  | ConnIdle c =>
      match get s c with
      | Some k =>
          match last k with
          | Some _ => None
          | None =>
              if read_eof_notifies g then
                if length (closeCh s) <? cap_close g then Some (with_conn_note s c k [EIdle c; EEof c])
                else if read_notify_blocking g then None else Some (with_conn s c k [EIdle c; EEof c])
              else Some (with_conn s c k [EIdle c; EEof c])
          end
      | None => None
      end
  | ConnDeadline c =>
      match get s c with
      | Some k => match last k with Some _ => None | None => Some (with_conn s c k [EDeadline c]) end
      | None => None
      end
  | ConnWrite c w =>
      match get s c with
      | Some k => Some (with_conn s c k [EWrite c w (caddr k)])
      | None => None
      end
  | HandlerReturn c =>
      match get s c with
      | Some k => match cphase k with
                  | Running => Some (with_conn s c (set_phase k (Closing 0)) [ERet c])
                  | _ => None end
      | None => None
      end
  | CloseStep c =>
      match get s c with
      | Some k =>
          match cphase k with
          | Closing i =>
              match nth_error (close_ops g) i with
              | None => Some (with_conn s c (set_phase k Done) [EClosed c])
              | Some CReturn => Some (with_conn s c (set_phase k Done) [EClosed c])
              | Some CRelease => Some (with_conn s c (set_last (set_phase k (Closing (S i))) (readq k) None) [])
              | Some CCloseRead => Some (with_conn s c (set_rclosed k (Closing (S i))) [])
              | Some CSignal => Some (with_conn s c (set_sclosed k (Closing (S i))) [])
              | Some CDrainRange =>
                  if rclosed k then Some (with_conn s c (set_readq (set_phase k (Closing (S i))) []) [])
                  else match readq k with
                       | _ :: q => Some (with_conn s c (set_readq k q) [])
                       | [] => None     (* range over an open, empty channel blocks *)
                       end
              | Some CDrainNB => Some (with_conn s c (set_readq (set_phase k (Closing (S i))) []) [])
              | Some CNotify =>
                  if length (closeCh s) <? cap_close g
                  then Some (with_conn_note s c (set_phase k (Closing (S i))) [])
                  else None
              | Some COther => Some (with_conn s c (set_phase k (Closing (S i))) [])
              end
          | _ => None
          end
      | None => None
      end
  end.

Fixpoint run (g : cfg) (s : state) (ts : list step) : option state :=
  match ts with
  | [] => Some s
  | t :: r => match exec g s t with Some s' => run g s' r | None => None end
  end.

(* ---- projections of the trace ---- *)

Definition arrivals (tr : list ev) : list pkt :=
  flat_map (fun e => match e with EArr p => [p] | _ => [] end) tr.
(* datagrams association c took from its readCh, in order *)
Definition reads_of (c : cid) (tr : list ev) : list pkt :=
  flat_map (fun e => match e with ERead c' p true _ _ => if Nat.eqb c' c then [p] else [] | _ => [] end) tr.
Definition routed_to (c : cid) (tr : list ev) : list pkt :=
  flat_map (fun e => match e with ERoute p c' => if Nat.eqb c' c then [p] else [] | _ => [] end) tr.
Definition routed (tr : list ev) : list pkt :=
  flat_map (fun e => match e with ERoute p _ => [p] | _ => [] end) tr.
Definition from (a : addr) (l : list pkt) : list pkt := filter (fun p => Nat.eqb (src p) a) l.
Definition writes (tr : list ev) : list (cid * nat * addr) :=
  flat_map (fun e => match e with EWrite c w a => [(c, w, a)] | _ => [] end) tr.
Definition news (tr : list ev) : list (cid * addr) :=
  flat_map (fun e => match e with ENew c a => [(c, a)] | _ => [] end) tr.

(* l1 is a subsequence of l2 (order kept, elements possibly skipped) *)
Inductive subseq {A} : list A -> list A -> Prop :=
| sub_nil : forall l, subseq [] l
| sub_take : forall x l1 l2, subseq l1 l2 -> subseq (x :: l1) (x :: l2)
| sub_skip : forall x l1 l2, subseq l1 l2 -> subseq l1 (x :: l2).

(* an association is live while it has neither told the loop that it ended nor begun Close *)
Definition ended (c : cid) (tr : list ev) : bool :=
  existsb (fun e => match e with EEof c' => Nat.eqb c' c | ERet c' => Nat.eqb c' c | _ => false end) tr.

(* ---- acceptance of an observed event log ----
   Boolean conditions that every trace of the model satisfies (proofs/UdpProofs.v proves this for
   [own_ok], [order_ok] and [fresh_ok]); corr/C09Corr.v evaluates them on the event logs recorded
   from the real servePacket. The unobservable events (ERoute, EDrop, EForget) are not used. *)

Definition addr_in (nw : list (cid * addr)) (c : cid) : option addr :=
  match find (fun x => Nat.eqb (fst x) c) nw with Some x => Some (snd x) | None => None end.
Definition addr_of (tr : list ev) (c : cid) : option addr := addr_in (news tr) c.

Fixpoint subseqb (l1 l2 : list pkt) : bool :=
  match l1, l2 with
  | [], _ => true
  | _ :: _, [] => false
  | x :: r1, y :: r2 => if pkt_eqb x y then subseqb r1 r2 else subseqb l1 r2
  end.

(* ownership: an association only reads datagrams from its own address and only writes to it *)
Definition own_ev (nw : list (cid * addr)) (e : ev) : bool :=
  match e with
  | ERead c p _ _ _ => match addr_in nw c with Some a => Nat.eqb (src p) a | None => false end
  | EWrite c _ a => match addr_in nw c with Some a' => Nat.eqb a a' | None => false end
  | _ => true
  end.
Definition own_ok (tr : list ev) : bool := let nw := news tr in forallb (own_ev nw) tr.

(* order: what an association takes is a subsequence of the arrivals from its address *)
Definition order_ok (tr : list ev) : bool :=
  forallb (fun x => subseqb (reads_of (fst x) tr) (from (snd x) (arrivals tr))) (news tr).

Definition nat_in (x : nat) (l : list nat) : bool := existsb (Nat.eqb x) l.
Fixpoint nodupb (l : list nat) : bool :=
  match l with [] => true | x :: r => negb (nat_in x r) && nodupb r end.

Definition all_reads (tr : list ev) : list pkt :=
  flat_map (fun e => match e with ERead _ p true _ _ => [p] | _ => [] end) tr.
(* no datagram is delivered twice (given distinct arrivals) *)
Definition nodup_ok (tr : list ev) : bool :=
  nodupb (map pid (arrivals tr)) && nodupb (map pid (all_reads tr)).

(* the associations of one address are used one after the other: in arrival order, the readers
   of an address's datagrams never return to an earlier association *)
Definition reader_of (tr : list ev) (p : pkt) : option cid :=
  match find (fun e => match e with ERead _ q true _ _ => pkt_eqb p q | _ => false end) tr with
  | Some (ERead c _ _ _ _) => Some c
  | _ => None
  end.
Fixpoint groupedb (seen : list cid) (cur : option cid) (l : list cid) : bool :=
  match l with
  | [] => true
  | c :: r =>
      match cur with
      | Some c0 => if Nat.eqb c0 c then groupedb seen cur r
                   else if nat_in c seen then false else groupedb (c0 :: seen) (Some c) r
      | None => groupedb seen (Some c) r
      end
  end.
Definition addrs_of (tr : list ev) : list addr := map snd (news tr).
Definition grouped_ok (tr : list ev) : bool :=
  forallb (fun a => groupedb [] None
             (flat_map (fun p => match reader_of tr p with Some c => [c] | None => [] end) (from a (arrivals tr))))
          (addrs_of tr).

(* causality: an association exists before it does anything, a datagram arrives before it is read *)
Fixpoint causal_go (cs : list cid) (ps : list pkt) (tr : list ev) : bool :=
  match tr with
  | [] => true
  | e :: r =>
      match e with
      | ERead c p _ _ _ => nat_in c cs && existsb (pkt_eqb p) ps && causal_go cs ps r
      | EEof c | EIdle c | EDeadline c | ERet c | EClosed c | EWrite c _ _ => nat_in c cs && causal_go cs ps r
      | ENew c _ => negb (nat_in c cs) && causal_go (c :: cs) ps r
      | EArr p => causal_go cs (p :: ps) r
      | _ => causal_go cs ps r
      end
  end.
Definition causal_ok (tr : list ev) : bool := causal_go [] [] tr.

(* byte ranges: a datagram is served from offset 0 in consecutive pieces; a new datagram is only
   begun when the previous one is exhausted (or Close has released it) *)
Definition chunk_st := list (cid * (option (pkt * N) * bool)).
Fixpoint chunk_lookup (c : cid) (st : chunk_st) : option (pkt * N) * bool :=
  match st with
  | [] => (None, false)
  | (c', v) :: r => if Nat.eqb c' c then v else chunk_lookup c r
  end.
Fixpoint chunk_set (c : cid) (v : option (pkt * N) * bool) (st : chunk_st) : chunk_st :=
  match st with
  | [] => [(c, v)]
  | (c', v') :: r => if Nat.eqb c' c then (c, v) :: r else (c', v') :: chunk_set c v r
  end.
Fixpoint chunks_go (st : chunk_st) (tr : list ev) : bool :=
  match tr with
  | [] => true
  | e :: r =>
      match e with
      | ERead c p fresh off len =>
          let '(cur, ret) := chunk_lookup c st in
          let nxt := if (off + len <? size p)%N then Some (p, (off + len)%N) else None in
          if fresh then
            N.eqb off 0 && (len <=? size p)%N && (match cur with None => true | Some _ => ret end)
            && chunks_go (chunk_set c (nxt, ret) st) r
          else
            match cur with
            | Some (q, o) => pkt_eqb p q && N.eqb o off && (off + len <=? size p)%N && chunks_go (chunk_set c (nxt, ret) st) r
            | None => false
            end
      | ERet c => let '(cur, _) := chunk_lookup c st in chunks_go (chunk_set c (cur, true) st) r
      | EClosed c => chunks_go (chunk_set c (None, true) st) r   (* Close has released what was held *)
      | _ => chunks_go st r
      end
  end.
Definition chunks_ok (tr : list ev) : bool := chunks_go [] tr.

(* one live association per address: when an association is created for address a, every earlier
   association for a has seen EOF or has returned. Holds when a close notification identifies
   the association; the code before the repair violates it (stale notification).
   nw: associations created so far, es: those that have seen EOF or returned *)
Fixpoint fresh_go (nw : list (cid * addr)) (es : list cid) (tr : list ev) : bool :=
  match tr with
  | [] => true
  | e :: r =>
      match e with
      | ENew c a => forallb (fun x => negb (Nat.eqb (snd x) a) || nat_in (fst x) es) nw && fresh_go ((c, a) :: nw) es r
      | EEof c | ERet c => fresh_go nw (c :: es) r
      | _ => fresh_go nw es r
      end
  end.
Definition fresh_ok (tr : list ev) : bool := fresh_go [] [] tr.

(* no end of stream without a cause: Read returns io.EOF only when the idle timer fired in that
   very call or after Close has begun (rs: associations whose handler has returned / called Close) *)
Fixpoint eofc_go (rs : list cid) (idle : option cid) (tr : list ev) : bool :=
  match tr with
  | [] => true
  | e :: r =>
      match e with
      | EEof c => ((match idle with Some c' => Nat.eqb c' c | None => false end) || nat_in c rs) && eofc_go rs None r
      | EIdle c => eofc_go rs (Some c) r
      | ERet c => eofc_go (c :: rs) None r
      | _ => eofc_go rs None r
      end
  end.
Definition eofc_ok (tr : list ev) : bool := eofc_go [] None tr.

Definition accepts (g : cfg) (tr : list ev) : bool :=
  own_ok tr && order_ok tr && nodup_ok tr && grouped_ok tr && causal_ok tr && chunks_ok tr && eofc_ok tr &&
  (if notify_identity g then fresh_ok tr else true) &&
  negb (existsb (fun e => match e with EPanic => true | _ => false end) tr).

(* how many datagrams the server takes from the socket while no handler reads: feed datagrams
   from one address, let the loop run after each, stop when the packets channel refuses one *)
Fixpoint loop_quiesce (g : cfg) (fuel : nat) (s : state) : state :=
  match fuel with
  | O => s
  | S f =>
      match exec g s LoopSend with
      | Some s' => loop_quiesce g f s'
      | None => match exec g s LoopRecv with
                | Some s' => loop_quiesce g f s'
                | None => match exec g s LoopClose with
                          | Some s' => loop_quiesce g f s'
                          | None => s
                          end
                end
      end
  end.
Fixpoint feed (g : cfg) (n i : nat) (s : state) (taken : nat) : nat :=
  match n with
  | O => taken
  | S m => match exec g s (SockRecv {| src := 0; pid := i; size := 48%N |}) with
           | Some s' => feed g m (S i) (loop_quiesce g 4 s') (S taken)
           | None => taken
           end
  end.
(* the reader goroutine holds one more datagram while it is blocked on the full channel *)
Definition back_model (g : cfg) (sent : nat) : nat :=
  let k := feed g sent 0 init 0 in if k <? sent then S k else k.

(* ---- replay of a sequential scenario ----
   For scenarios in which the harness waits for the visible effect of each action before the
   next one (so the server loop is idle in between), the recorded log determines the schedule:
   every observed event is turned into the corresponding step, the loop runs until it has
   nothing to do, and the event the model emits must be the observed one. *)
Fixpoint close_all (g : cfg) (fuel : nat) (s : state) (c : cid) : state :=
  match fuel with
  | O => s
  | S f => match exec g s (CloseStep c) with Some s' => close_all g f s' c | None => s end
  end.

Definition ev_matches (obs : ev) (s : state) : bool :=
  match obs, List.last (trace s) EStop with
  | ERead c p f o l, ERead c' p' f' o' l' =>
      Nat.eqb c c' && pkt_eqb p p' && Bool.eqb f f' && N.eqb o o' && N.eqb l l'
  | EWrite c w a, EWrite c' w' a' => Nat.eqb c c' && Nat.eqb w w' && Nat.eqb a a'
  | EEof c, EEof c' => Nat.eqb c c'
  | EDeadline c, EDeadline c' => Nat.eqb c c'
  | ERet c, ERet c' => Nat.eqb c c'
  | _, _ => false
  end.

Fixpoint replay (g : cfg) (s : state) (nnew : nat) (tr : list ev) : bool :=
  match tr with
  | [] => Nat.eqb nnew (length (conns s)) && negb (panicked s)
  | e :: r =>
      match e with
      | EArr p =>
          match exec g s (SockRecv p) with
          | Some s' => replay g (loop_quiesce g 6 s') nnew r
          | None => false
          end
      | ENew c a =>
          match get s c with
          | Some k => Nat.eqb c nnew && Nat.eqb (caddr k) a && replay g s (S nnew) r
          | None => false
          end
      | ERead c p _ _ len =>
          match exec g s (ConnRead c len) with
          | Some s' => ev_matches e s' && replay g (loop_quiesce g 6 s') nnew r
          | None => false
          end
      | EWrite c w _ =>
          match exec g s (ConnWrite c w) with
          | Some s' => ev_matches e s' && replay g s' nnew r
          | None => false
          end
      | EIdle c =>
          match r with
          | EEof c' :: r' =>
              match exec g s (ConnIdle c) with
              | Some s' => Nat.eqb c c' && ev_matches (EEof c') s' && replay g (loop_quiesce g 6 s') nnew r'
              | None => false
              end
          | _ => false
          end
      | EEof c =>
          match exec g s (ConnEof c) with
          | Some s' => ev_matches e s' && replay g (loop_quiesce g 6 s') nnew r
          | None => false
          end
      | EDeadline c =>
          match exec g s (ConnDeadline c) with
          | Some s' => replay g s' nnew r
          | None => false
          end
      | ERet c =>
          match exec g s (HandlerReturn c) with
          | Some s' => replay g (loop_quiesce g 6 (close_all g 8 s' c)) nnew r
          | None => false
          end
      | EClosed c =>
          match get s c with
          | Some k => match cphase k with Done => replay g s nnew r | _ => false end
          | None => false
          end
      | _ => false
      end
  end.
