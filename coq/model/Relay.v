(* Model of Handler.proxy (modules/l4proxy/proxy.go) as a small-step concurrent system, of the
   method sets of the connection values a handler chain can put into down.Conn, and of the
   cleanup loop of dialPeers.  No proofs here.

   Processes
     Pump     io.Copy(io.Discard, downTee): read a chunk from down, write it to up_0 .. up_{n-1}
              in that order (the chained io.TeeReader), on EOF/error send on downConnClosedCh and
              CloseWrite (or Close) every upstream;
     Copy_i   io.Copy(down, up_i): read a chunk from up_i, write it to down; wg.Done on EOF/error;
     Main     wg.Wait; CloseWrite on down.Conn if that value offers it; <-downConnClosedCh;
              return to Handle, whose deferred loop closes every upstream conn; the server then
              closes the client connection;
     the client and upstream applications (environment): send what they still have to send in
     chunks, half-close when done (at once, or only after having seen EOF: [finpol]), receive,
     observe EOF, or abort (RST).
   Chunk sizes are carried by the labels and the schedule is the list of labels: both are oracles.
   Data that can no longer be delivered (after an abort) stays where it is and is never read, so
   that the conservation laws of proofs/RelayProofs.v need no bookkeeping of losses. *)
From Coq Require Import List Bool Arith.
From Coq.Strings Require Import Byte.
From L4.gen Require Import Shape.
Import ListNotations.

(* ------------------------------------------------------------------------------------------ *)
(* connection layers and their method sets                                                     *)

Inductive layer :=
| LTcp | LUnix           (* *net.TCPConn, *net.UnixConn: CloseWrite = shutdown(SHUT_WR) *)
| LUdp                   (* layer4 packetConn / *net.UDPConn: no CloseWrite *)
| LTls                   (* *tls.Conn (l4tls handler, cx.Wrap(tls.Server(cx))): CloseWrite = close_notify *)
| LL4Conn                (* *layer4.Connection: embeds the net.Conn interface *)
| LThrottle              (* l4throttle.throttledConn{Conn: cx.Conn} *)
| LProxyProtocol         (* what l4proxyprotocol passes to cx.Wrap: the third-party *proxyprotocol.Conn, wrapped
                            in a local type that forwards CloseWrite to the *layer4.Connection below (gen/Shape.v) *)
| LTeeNext               (* l4tee.nextConn{Conn: cx} *)
| LHiding.               (* any wrapper that embeds net.Conn and declares no CloseWrite, e.g. a bare third-party
                            *proxyprotocol.Conn handed on as it is *)

Definition is_wrapper (l : layer) : bool :=
  match l with LL4Conn | LThrottle | LProxyProtocol | LTeeNext | LHiding => true | _ => false end.

(* is CloseWrite in the method set of the Go value (what `v.(closeWriter)` tests): an embedded
   interface value of type net.Conn promotes only net.Conn's methods *)
Definition has_cw_method (l : layer) : bool :=
  match l with
  | LTcp | LUnix | LTls => true
  | LUdp => false
  | LL4Conn => layer4_Connection_has_CloseWrite
  | LThrottle => l4throttle_throttledConn_has_CloseWrite
  | LTeeNext => l4tee_nextConn_has_CloseWrite
  | LProxyProtocol => l4proxyprotocol_conn_has_CloseWrite
  | LHiding => false
  end.

(* a chain lists the layers of down.Conn from the outermost value to the transport *)
Definition chain := list layer.

(* does `if cw, ok := down.Conn.(closeWriter); ok { cw.CloseWrite() }` make the client see EOF:
   the outermost value must have the method and every wrapper on the way must forward it *)
Fixpoint cw_effect (c : chain) : bool :=
  match c with
  | [] => false
  | l :: r => has_cw_method l && (if is_wrapper l then cw_effect r else true)
  end.

(* does the protocol endpoint below the wrappers offer half-close at all *)
Fixpoint transport_offers (c : chain) : bool :=
  match c with
  | [] => false
  | l :: r => if is_wrapper l then transport_offers r else has_cw_method l
  end.

(* the chains the shipped handlers build in front of the proxy handler *)
Definition chain_direct : chain := [LTcp].
Definition chain_throttle : chain := [LThrottle; LTcp].
Definition chain_proxy_protocol : chain := [LProxyProtocol; LL4Conn; LTcp].
Definition chain_tee : chain := [LTeeNext; LL4Conn; LTcp].
Definition chain_tls : chain := [LTls; LL4Conn; LTcp].
Definition chain_udp : chain := [LUdp].
Definition chain_hiding : chain := [LHiding; LL4Conn; LTcp].

(* ------------------------------------------------------------------------------------------ *)
(* the relay                                                                                   *)

Inductive sock := SOpen | SWrClosed | SClosed.
Inductive finpol := FinFree | FinAfterEof.

Inductive copyst := CRead | CHold (ch : list byte) | CDone.
Inductive pumpst := PRead | PWrite (ch : list byte) (j : nat) | PClose (j : nat) | PDone.
Inductive mainst := MWait | MCw | MRecv | MDefer (j : nat) | MReturned.

Record cfg := mkCfg {
  n_up : nat;                    (* peers of the selected upstream *)
  c_total : list byte;           (* the client's stream from its first unconsumed byte *)
  c_pre : nat;                   (* how much of it is already in the matching buffer *)
  u_total : nat -> list byte;    (* what upstream i sends *)
  cfin : finpol;                 (* when the client half-closes *)
  ufin : nat -> finpol;
  up_cw : nat -> bool;           (* upstream conn i offers CloseWrite (TCP/unix/TLS) *)
  down : chain
}.

Record ust := mkU {
  u_tosend : list byte; u_finned : bool;     (* upstream application *)
  u2p : list byte; u2p_fin : bool;           (* in flight upstream -> proxy, FIN queued behind *)
  u_rst : bool;                              (* aborted *)
  p2u : list byte; p2u_fin : bool;           (* in flight proxy -> upstream *)
  u_log : list byte; u_eof : bool;           (* received by the upstream application *)
  u_sock : sock;                             (* the proxy's end *)
  cp : copyst                                (* Copy_i *)
}.

Record cst := mkC {
  c_tosend : list byte; c_finned : bool;
  c2p : list byte; c2p_fin : bool;
  c_rst : bool;
  p2c : list (nat * byte); p2c_fin : bool;   (* bytes tagged (ghost) with the upstream they come from *)
  c_log : list (nat * byte); c_eof : bool;
  d_sock : sock
}.

Record pst := mkP { pump : pumpst; chan : bool; mainp : mainst; lossy : bool }.

Record st := mkS { cl : cst; px : pst; ups : nat -> ust }.

Definition upd (f : nat -> ust) (i : nat) (u : ust) : nat -> ust :=
  fun j => if Nat.eqb j i then u else f j.

Definition init_u (c : cfg) (i : nat) : ust :=
  mkU (u_total c i) false [] false false [] false [] false SOpen CRead.

Definition init (c : cfg) : st :=
  mkS (mkC (skipn (c_pre c) (c_total c)) false (firstn (c_pre c) (c_total c)) false false [] false [] false SOpen)
      (mkP PRead false MWait false)
      (init_u c).

Inductive label :=
| CSend (k : nat) | CFin | CRecv (k : nat) | CEof | CAbort
| USend (i k : nat) | UFin (i : nat) | URecv (i k : nat) | UEof (i : nat) | UAbort (i : nat)
| PumpRead (k : nat) | PumpWrite | PumpClose
| CopyRead (i k : nat) | CopyWrite (i : nat)
| MainWait | MainCloseWrite | MainRecv | MainDeferClose | ServerClose.

Definition okk {A} (k : nat) (l : list A) : bool := (1 <=? k) && (k <=? length l).

Definition all_done (n : nat) (f : nat -> ust) : bool :=
  forallb (fun i => match cp (f i) with CDone => true | _ => false end) (seq 0 n).

Definition wr_close (s : sock) : sock := match s with SClosed => SClosed | _ => SWrClosed end.
Definition is_closed (s : sock) : bool := match s with SClosed => true | _ => false end.
Definition after_eof (p : finpol) : bool := match p with FinAfterEof => true | FinFree => false end.

Definition tag (i : nat) (l : list byte) : list (nat * byte) := map (pair i) l.
Definition proj (i : nat) (l : list (nat * byte)) : list byte :=
  map snd (filter (fun x => Nat.eqb (fst x) i) l).

Definition step (c : cfg) (s : st) (l : label) : option st :=
  let '(mkS (mkC ts cf c2 c2f crst pc pcf clog ceof ds) (mkP pm ch mn ls) us) := s in
  let C := mkC ts cf c2 c2f crst pc pcf clog ceof ds in
  let P := mkP pm ch mn ls in
  match l with
  (* ---- client application ---- *)
  | CSend k =>
      if negb cf && negb crst && okk k ts
      then Some (mkS (mkC (skipn k ts) cf (c2 ++ firstn k ts) c2f crst pc pcf clog ceof ds) P us) else None
  | CFin =>
      if negb cf && negb crst && (match ts with [] => true | _ => false end) && (negb (after_eof (cfin c)) || ceof)
      then Some (mkS (mkC ts true c2 true crst pc pcf clog ceof ds) P us) else None
  | CRecv k =>
      if negb crst && okk k pc
      then Some (mkS (mkC ts cf c2 c2f crst (skipn k pc) pcf (clog ++ firstn k pc) ceof ds) P us) else None
  | CEof =>
      if negb crst && negb ceof && pcf && (match pc with [] => true | _ => false end)
      then Some (mkS (mkC ts cf c2 c2f crst pc pcf clog true ds) P us) else None
  | CAbort =>
      if negb crst then Some (mkS (mkC ts cf c2 c2f true pc pcf clog ceof ds) (mkP pm ch mn true) us) else None
  (* ---- upstream applications ---- *)
  | USend i k =>
      let u := us i in
      if (i <? n_up c) && negb (u_finned u) && negb (u_rst u) && okk k (u_tosend u)
      then Some (mkS C P (upd us i (mkU (skipn k (u_tosend u)) (u_finned u) (u2p u ++ firstn k (u_tosend u)) (u2p_fin u)
                                        (u_rst u) (p2u u) (p2u_fin u) (u_log u) (u_eof u) (u_sock u) (cp u))))
      else None
  | UFin i =>
      let u := us i in
      if (i <? n_up c) && negb (u_finned u) && negb (u_rst u) && (match u_tosend u with [] => true | _ => false end)
         && (negb (after_eof (ufin c i)) || u_eof u)
      then Some (mkS C P (upd us i (mkU (u_tosend u) true (u2p u) true (u_rst u) (p2u u) (p2u_fin u) (u_log u) (u_eof u) (u_sock u) (cp u))))
      else None
  | URecv i k =>
      let u := us i in
      if (i <? n_up c) && negb (u_rst u) && okk k (p2u u)
      then Some (mkS C P (upd us i (mkU (u_tosend u) (u_finned u) (u2p u) (u2p_fin u) (u_rst u) (skipn k (p2u u)) (p2u_fin u)
                                        (u_log u ++ firstn k (p2u u)) (u_eof u) (u_sock u) (cp u))))
      else None
  | UEof i =>
      let u := us i in
      if (i <? n_up c) && negb (u_rst u) && negb (u_eof u) && p2u_fin u && (match p2u u with [] => true | _ => false end)
      then Some (mkS C P (upd us i (mkU (u_tosend u) (u_finned u) (u2p u) (u2p_fin u) (u_rst u) (p2u u) (p2u_fin u) (u_log u) true (u_sock u) (cp u))))
      else None
  | UAbort i =>
      let u := us i in
      if (i <? n_up c) && negb (u_rst u)
      then Some (mkS C (mkP pm ch mn true)
                     (upd us i (mkU (u_tosend u) (u_finned u) (u2p u) (u2p_fin u) true (p2u u) (p2u_fin u) (u_log u) (u_eof u) (u_sock u) (cp u))))
      else None
  (* ---- Pump ---- *)
  | PumpRead k =>
      match pm with
      | PRead =>
          if crst then Some (mkS C (mkP (PClose 0) true mn ls) us)               (* read error *)
          else match c2 with
               | [] => if c2f then Some (mkS C (mkP (PClose 0) true mn ls) us)   (* EOF *)
                       else None                                                   (* blocked *)
               | _ => if okk k c2
                      then Some (mkS (mkC ts cf (skipn k c2) c2f crst pc pcf clog ceof ds) (mkP (PWrite (firstn k c2) 0) ch mn ls) us)
                      else None
               end
      | _ => None
      end
  | PumpWrite =>
      match pm with
      | PWrite chk j =>
          if j <? n_up c then
            let u := us j in
            if u_rst u then Some (mkS C (mkP (PClose 0) true mn ls) us)            (* write error: stop pumping *)
            else Some (mkS C (mkP (PWrite chk (S j)) ch mn ls)
                           (upd us j (mkU (u_tosend u) (u_finned u) (u2p u) (u2p_fin u) (u_rst u) (p2u u ++ chk) (p2u_fin u)
                                          (u_log u) (u_eof u) (u_sock u) (cp u))))
          else Some (mkS C (mkP PRead ch mn ls) us)
      | _ => None
      end
  | PumpClose =>
      match pm with
      | PClose j =>
          if j <? n_up c then
            let u := us j in
            if up_cw c j
            then Some (mkS C (mkP (PClose (S j)) ch mn ls)
                           (upd us j (mkU (u_tosend u) (u_finned u) (u2p u) (u2p_fin u) (u_rst u) (p2u u) true
                                          (u_log u) (u_eof u) (wr_close (u_sock u)) (cp u))))
            else Some (mkS C (mkP (PClose (S j)) ch mn true)
                           (upd us j (mkU (u_tosend u) (u_finned u) (u2p u) (u2p_fin u) (u_rst u) (p2u u) true
                                          (u_log u) (u_eof u) SClosed (cp u))))
          else Some (mkS C (mkP PDone ch mn ls) us)
      | _ => None
      end
  (* ---- Copy_i ---- *)
  | CopyRead i k =>
      let u := us i in
      if i <? n_up c then
        match cp u with
        | CRead =>
            let setcp v r := Some (mkS C P (upd us i (mkU (u_tosend u) (u_finned u) r (u2p_fin u) (u_rst u) (p2u u) (p2u_fin u)
                                                          (u_log u) (u_eof u) (u_sock u) v))) in
            if u_rst u || is_closed (u_sock u) then setcp CDone (u2p u)           (* read error *)
            else match u2p u with
                 | [] => if u2p_fin u then setcp CDone (u2p u) else None          (* EOF / blocked *)
                 | _ => if okk k (u2p u) then setcp (CHold (firstn k (u2p u))) (skipn k (u2p u)) else None
                 end
        | _ => None
        end
      else None
  | CopyWrite i =>
      let u := us i in
      if i <? n_up c then
        match cp u with
        | CHold chk =>
            let setcp v := upd us i (mkU (u_tosend u) (u_finned u) (u2p u) (u2p_fin u) (u_rst u) (p2u u) (p2u_fin u)
                                         (u_log u) (u_eof u) (u_sock u) v) in
            if crst then Some (mkS C P (setcp CDone))                              (* write error *)
            else Some (mkS (mkC ts cf c2 c2f crst (pc ++ tag i chk) pcf clog ceof ds) P (setcp CRead))
        | _ => None
        end
      else None
  (* ---- Main (proxy(), then Handle's deferred closes, then the server) ---- *)
  | MainWait =>
      match mn with
      | MWait => if all_done (n_up c) us then Some (mkS C (mkP pm ch MCw ls) us) else None
      | _ => None
      end
  | MainCloseWrite =>
      match mn with
      | MCw =>
          if cw_effect (down c)
          then Some (mkS (mkC ts cf c2 c2f crst pc true clog ceof (wr_close ds)) (mkP pm ch MRecv ls) us)
          else Some (mkS C (mkP pm ch MRecv ls) us)
      | _ => None
      end
  | MainRecv =>
      match mn with
      | MRecv => if ch then Some (mkS C (mkP pm false (MDefer 0) ls) us) else None
      | _ => None
      end
  | MainDeferClose =>
      match mn with
      | MDefer j =>
          if j <? n_up c then
            let u := us j in
            Some (mkS C (mkP pm ch (MDefer (S j)) ls)
                      (upd us j (mkU (u_tosend u) (u_finned u) (u2p u) (u2p_fin u) (u_rst u) (p2u u) true
                                     (u_log u) (u_eof u) SClosed (cp u))))
          else Some (mkS C (mkP pm ch MReturned ls) us)
      | _ => None
      end
  | ServerClose =>
      match mn with
      | MReturned =>
          if is_closed ds then None
          else Some (mkS (mkC ts cf c2 c2f crst pc true clog ceof SClosed) P us)
      | _ => None
      end
  end.

(* executions *)
Fixpoint exec (c : cfg) (s : st) (ls : list label) : option st :=
  match ls with
  | [] => Some s
  | l :: r => match step c s l with Some s' => exec c s' r | None => None end
  end.

Definition reachable (c : cfg) (s : st) : Prop := exists ls, exec c (init c) ls = Some s.
(* abrupt closes are faults of the environment; a state is terminal when nothing but a fault can happen *)
Definition is_fault (l : label) : bool := match l with CAbort | UAbort _ => true | _ => false end.
Definition terminal (c : cfg) (s : st) : Prop := forall l, is_fault l = false -> step c s l = None.
Definition fault_free (ls : list label) : Prop := Forall (fun l => is_fault l = false) ls.

(* the final state the property asks for *)
Definition final (c : cfg) (s : st) : Prop :=
  mainp (px s) = MReturned /\ d_sock (cl s) = SClosed /\ c_eof (cl s) = true /\
  Forall (fun x => fst x < n_up c) (c_log (cl s)) /\
  forall i, i < n_up c ->
    u_log (ups s i) = c_total c /\ u_eof (ups s i) = true /\ u_sock (ups s i) = SClosed /\
    proj i (c_log (cl s)) = u_total c i.

(* no circular wait between the applications, and a client that waits for EOF can get one *)
Definition compatible (c : cfg) : Prop :=
  (cfin c = FinFree \/ forall i, i < n_up c -> ufin c i = FinFree) /\
  (cfin c = FinAfterEof -> cw_effect (down c) = true) /\
  (forall i, i < n_up c -> up_cw c i = true).

(* ------------------------------------------------------------------------------------------ *)
(* an executable scheduler (used for examples and by the correspondence checker): repeatedly    *)
(* take the first enabled label of a fixed list, with maximal chunks                            *)

Definition candidates (c : cfg) (s : st) : list label :=
  let n := n_up c in
  [CSend (length (c_tosend (cl s))); PumpRead (length (c2p (cl s))); PumpWrite; PumpClose] ++
  flat_map (fun i => [URecv i (length (p2u (ups s i))); UEof i; USend i (length (u_tosend (ups s i)));
                      CopyRead i (length (u2p (ups s i))); CopyWrite i; UFin i]) (seq 0 n) ++
  [CRecv (length (p2c (cl s))); CEof; CFin; MainWait; MainCloseWrite; MainRecv; MainDeferClose; ServerClose].

Fixpoint first_enabled (c : cfg) (s : st) (ls : list label) : option st :=
  match ls with
  | [] => None
  | l :: r => match step c s l with Some s' => Some s' | None => first_enabled c s r end
  end.

Fixpoint run (fuel : nat) (c : cfg) (s : st) : st :=
  match fuel with
  | O => s
  | S f => match first_enabled c s (candidates c s) with Some s' => run f c s' | None => s end
  end.

(* observables of a state, in the form the harness reports them *)
Record obs := mkObs {
  o_up : list (list byte);       (* bytes received by each upstream *)
  o_cli : list (list byte);      (* bytes received by the client, per originating upstream *)
  o_ceof : bool; o_ueof : list bool;
  o_returned : bool; o_closed : list bool
}.

Definition observe (c : cfg) (s : st) : obs :=
  let idx := seq 0 (n_up c) in
  mkObs (map (fun i => u_log (ups s i)) idx)
        (map (fun i => proj i (c_log (cl s))) idx)
        (c_eof (cl s)) (map (fun i => u_eof (ups s i)) idx)
        (match mainp (px s) with MReturned => true | _ => false end)
        (map (fun i => is_closed (u_sock (ups s i))) idx).

(* what [final] prescribes *)
Definition final_obs (c : cfg) : obs :=
  let idx := seq 0 (n_up c) in
  mkObs (map (fun _ => c_total c) idx) (map (fun i => u_total c i) idx) true (map (fun _ => true) idx) true (map (fun _ => true) idx).

Definition run_fuel (c : cfg) : nat := 40 + 16 * n_up c.
Definition predict (c : cfg) : obs := observe c (run (run_fuel c) c (init c)).

(* ------------------------------------------------------------------------------------------ *)
(* dialPeers: dial the peers in order; on the first failure close what was opened and stop      *)

Inductive dial_result := DialOk | DialErr | DialOkHeaderErr.   (* the last: connected, PROXY header write failed *)

(* returns (connections opened, connections closed by dialPeers, success) as peer indices *)
Fixpoint dial_peers (rs : list dial_result) (idx : nat) (opened : list nat) : list nat * list nat * bool :=
  match rs with
  | [] => (opened, [], true)
  | DialOk :: r => dial_peers r (S idx) (opened ++ [idx])
  | DialErr :: _ => (opened, opened, false)
  | DialOkHeaderErr :: _ => (opened ++ [idx], opened, false)
  end.
