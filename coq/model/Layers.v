(* The shipped wrapping constructions as operations on reader stacks (model/Conn.v), as the code
   does them today (after the repairs of Connection.Wrap and of the tee handler), plus the
   constructions as they were before the repairs ([_old]) for the refutation witnesses.
   Definitions only (lemmas: proofs/LayersProofs.v).

   modules/l4proxyprotocol/handler.go  conn := proxyprotocol.NewConn(cx) (a bufio.Reader of 4096
                                        bytes over the OLD *Connection); conn.ProxyHeader() parses the
                                        header through it; next.Handle(cx.Wrap(conn))
   modules/l4tee/tee.go                 nextc := cx.Wrap(nextConn{io.TeeReader(cx, pw)});
                                        branchc := cx.Wrap(teeConn{pr})
   modules/l4throttle/throttle.go       cx.Conn = throttledConn{cx.Conn}  (in place)
   modules/l4subroute/handler.go        compiles its routes and handles the same cx: matching rounds
                                        (prefetch, MatcherSets.AnyMatch) on the connection it was given
   modules/l4tls/handler.go             tlsConn := tls.Server(cx); Handshake(); cx.Wrap(tlsConn) -- the
                                        record layer is an abstract causal transformer (Xf) *)
From Coq Require Import List ZArith NArith Bool Arith.
From Coq.Strings Require Import Byte.
From L4.model Require Import Conn.
Import ListNotations.
Local Open Scope nat_scope.

(* ---- what a client of a bufio.Reader does (proxyprotocol.Parse: ReadByte/Peek loops fill, ReadFull reads) ---- *)
Inductive bop := BFill | BRead (n : nat).

(* func (b *Reader) fill(): one Read of the free space, appended *)
Definition bufio_fill (r : rd) (orc : oracle) : rd * oracle :=
  match r with
  | Bufio held sz inner =>
      if length held <? sz then
        let '((d, _), inner', o') := read inner (sz - length held) orc in
        (Bufio (held ++ d) sz inner', o')
      else (r, orc)
  | _ => (r, orc)
  end.

(* returns the bytes the program consumed (the PROXY header) *)
Fixpoint run_bops (ops : list bop) (r : rd) (orc : oracle) : list byte * rd * oracle :=
  match ops with
  | [] => ([], r, orc)
  | BFill :: ops' => let '(r1, o1) := bufio_fill r orc in run_bops ops' r1 o1
  | BRead n :: ops' =>
      let '((d, _), r1, o1) := read r n orc in
      let '(ds, r2, o2) := run_bops ops' r1 o1 in (d ++ ds, r2, o2)
  end.

Definition bufio_default_size : nat := 4096.

Definition proxy_protocol_with (w : cstate -> rd -> rd) (prog : list bop) (r : rd) (orc : oracle)
  : list byte * rd * oracle :=
  match r with
  | L4 _ _ =>
      let '(hdr, b, o') := run_bops prog (Bufio [] bufio_default_size r) orc in
      match b with
      | Bufio _ _ (L4 c1 _) => (hdr, w c1 b, o')
      | _ => (hdr, b, o')
      end
  | _ => ([], r, orc)
  end.
Definition proxy_protocol := proxy_protocol_with wrap.
Definition proxy_protocol_old := proxy_protocol_with wrap_old.

(* ---- tee ---- *)
Definition tee_next (r : rd) : rd := match r with L4 c _ => wrap c (TeeW r []) | _ => r end.
(* the branch reads the pipe: whatever the TeeReader has written, in order *)
Definition tee_branch (r : rd) (piped : list byte) : rd := match r with L4 c _ => wrap c (Net piped) | _ => r end.
Definition tee_next_old (r : rd) : rd := match r with L4 c _ => L4 (copy_c c) (TeeW r []) | _ => r end.
Definition tee_branch_old (r : rd) (piped : list byte) : rd := match r with L4 c _ => L4 (copy_c c) (Net piped) | _ => r end.

(* ---- throttle ---- *)
Definition throttle (burst : nat) (r : rd) : rd := match r with L4 c i => L4 c (Thr burst i) | _ => r end.

(* ---- routing rounds on a connection (RouteList.Compile; subroute) ---- *)
Inductive round := RPrefetch (newcap : nat) | RMatch (ss : msets).

Fixpoint run_rounds (rs : list round) (r : rd) (orc : oracle) : rd * oracle :=
  match rs with
  | [] => (r, orc)
  | RPrefetch nc :: rs' => let '(_, r1, o1) := prefetch r nc orc in run_rounds rs' r1 o1
  | RMatch ss :: rs' => let '(_, r1, o1) := run_sets ss r orc in run_rounds rs' r1 o1
  end.

(* ---- tls: handshake = k reads that pull records through the transformer without delivering ---- *)
Fixpoint pulls (k : nat) (r : rd) (orc : oracle) : rd * oracle :=
  match k with
  | O => (r, orc)
  | S k' => let '(_, r1, o1) := read r 0 orc in pulls k' r1 o1
  end.

Definition tls_terminate (emit : list byte -> byte -> list byte) (xsz k : nat) (r : rd) (orc : oracle) : rd * oracle :=
  match r with
  | L4 c _ =>
      let '(x, o') := pulls k (Xf emit [] [] xsz r) orc in
      match x with
      | Xf _ _ _ _ (L4 c1 _) => (wrap c1 x, o')
      | _ => (x, o')
      end
  | _ => (r, orc)
  end.

(* ---- handler chains ---- *)
Inductive handler :=
| HProxyProtocol (prog : list bop)
| HTee
| HThrottle (burst : nat)
| HRoute (rounds : list round)          (* subroute / the router moving on to later routes *)
| HTls (emit : list byte -> byte -> list byte) (xsz k : nat)
| HConsume (ns : list nat).             (* a handler that reads with these buffer sizes, then calls next *)

(* bytes the handler itself consumed, the connection it hands to next *)
Definition apply_handler (h : handler) (r : rd) (orc : oracle) : list byte * rd * oracle :=
  match h with
  | HProxyProtocol prog => proxy_protocol prog r orc
  | HTee => ([], tee_next r, orc)
  | HThrottle b => ([], throttle b r, orc)
  | HRoute rs => let '(r', o') := run_rounds rs r orc in ([], r', o')
  | HTls emit xsz k => let '(r', o') := tls_terminate emit xsz k r orc in ([], r', o')
  | HConsume ns => let '(ds, _, r', o') := reads r ns orc in (ds, r', o')
  end.

Fixpoint run_chain (hs : list handler) (r : rd) (orc : oracle) : list (list byte) * rd * oracle :=
  match hs with
  | [] => ([], r, orc)
  | h :: hs' =>
      let '(c, r1, o1) := apply_handler h r orc in
      let '(cs, r2, o2) := run_chain hs' r1 o1 in (c :: cs, r2, o2)
  end.

(* the stream the next handler must see, given what this one consumed *)
Definition expected_after (h : handler) (consumed : list byte) (s : list byte) : list byte :=
  match h with
  | HTls emit _ _ => xf_run emit [] s
  | _ => skipn (length consumed) s
  end.

Fixpoint expected_chain (hs : list handler) (consumed : list (list byte)) (s : list byte) : list byte :=
  match hs, consumed with
  | h :: hs', c :: cs => expected_chain hs' cs (expected_after h c s)
  | _, _ => s
  end.
