(* Shared by the WireGuard / Winbox / RDP codec and matcher models (definitions only; lemmas:
   proofs/CodecBaseProofs.v).

   result A    what a Go FromBytes does: Ok x (nil error), Err (an error is returned), RPanic (Go
               would panic: index or slice expression out of range)
   rx          the handful of regular-expression shapes the correspondence engine configures the
               matchers with; matcher models take the compiled expression as a function
               list byte -> bool, so theorems hold for every expression. *)
From Coq Require Import List NArith ZArith Bool Arith.
From Coq.Strings Require Import Byte.
From L4.model Require Import GoBase.
Import ListNotations.

Inductive result (A : Type) := Ok (a : A) | Err | RPanic.
Arguments Ok {A} a.
Arguments Err {A}.
Arguments RPanic {A}.

Definition nb (n : N) : byte := match Byte.of_N n with Some b => b | None => x00 end.
Definition zb (z : Z) : byte := nb (Z.to_N z).
Definition zn (z : Z) : nat := Z.to_nat z.

Definition two8 : N := 256.
Definition two16 : N := 65536.
Definition two32 : N := 4294967296.
Definition two64 : N := 18446744073709551616.

(* uint16 subtraction as Go computes it *)
Definition sub16 (a b : N) : N := ((a + two16 - b) mod two16)%N.

(* strings.HasSuffix *)
Definition has_suffix (s suf : list byte) : bool :=
  (length suf <=? length s)%nat && bytes_eqb (skipn (length s - length suf) s) suf.

(* is sub a contiguous sub-string of s (regexp.QuoteMeta(sub) used as an unanchored pattern) *)
Fixpoint contains (s sub : list byte) : bool :=
  has_prefix s sub || match s with [] => false | _ :: r => contains r sub end.

Inductive rx := RxNone | RxPrefix (s : list byte) | RxSuffix (s : list byte) | RxExact (s : list byte) | RxContains (s : list byte).

(* None = the option is not configured (empty pattern string) *)
Definition rx_fun (r : rx) : option (list byte -> bool) :=
  match r with
  | RxNone => None
  | RxPrefix p => Some (fun s => has_prefix s p)
  | RxSuffix p => Some (fun s => has_suffix s p)
  | RxExact p => Some (fun s => bytes_eqb s p)
  | RxContains p => Some (fun s => contains s p)
  end.

Definition all_bytes (f : byte -> bool) (s : list byte) : bool := forallb f s.
