(* Timed networks below model/Router.v (property C05).  Time is in nanoseconds (Z).

   A timed network holds the clock, the instant last given to SetReadDeadline, the bytes that have
   arrived and are unread, the future arrivals (absolute times) and the instant at which the client
   closes.  A blocked read returns at min(arrival, deadline).  Two instances of [Router.compile]'s
   network:

   * TCP (net.TCPConn, net.Pipe): a Read fails at once when the deadline has passed, otherwise
     returns data as soon as some is there, and fails at the deadline if none arrives before.
   * UDP: layer4.packetConn (layer4/server.go).  SetReadDeadline keeps the instant ROUNDED DOWN to
     the granularity found in the source (generated: layer4_udp_deadline_granularity_ns; Go's
     t.Unix() would be Z.div by 10^9, t.UnixNano() is granularity 1) and (re)sets deadlineTimer to
     the exact instant.  Read serves the rest of the last datagram first, then tests the stored
     deadline (strictly before now), then waits for a datagram, the deadline timer (re-testing the
     stored deadline) or the idle timer (udpAssociationIdleTimeout, generated).

   Definitions only; lemmas are in proofs/TimingProofs.v. *)
From Coq Require Import List NArith ZArith Bool Arith Lia.
From Coq.Strings Require Import Byte.
From L4.model Require Import GoBase Router.
From L4.gen Require Import Consts Shape.
Import ListNotations.
Open Scope Z_scope.

Definition udp_granularity : Z := layer4_udp_deadline_granularity_ns.
Definition udp_idle : Z := layer4_udpAssociationIdleTimeout.

Record tnet := {
  clock : Z;
  dl : option Z;                    (* the instant last given to SetReadDeadline (None: the zero time) *)
  unread : list byte;               (* arrived, not yet read (kernel buffer / rest of the last datagram) *)
  pend : list (Z * list byte);      (* future arrivals: (absolute time, bytes) in order *)
  fin : Z;                          (* the client closes at this instant *)
  stale : bool                      (* UDP: a tick of packetConn.deadlineTimer that belongs to an EARLIER SetReadDeadline is
                                       still in the timer's channel (capacity 1; Reset does not drain it) *)
}.

Definition tnow (n : tnet) : Z := clock n.
Definition with_clock (c : Z) (n : tnet) : tnet :=
  {| clock := c; dl := dl n; unread := unread n; pend := pend n; fin := fin n; stale := stale n |}.
Definition take (max : nat) (d : list byte) (rest : list (Z * list byte)) (c : Z) (n : tnet) : rres * tnet :=
  (RData (firstn max d),
   {| clock := c; dl := dl n; unread := skipn max d; pend := rest; fin := fin n; stale := stale n |}).

(* ---------------------------------------------------------------- TCP *)
Definition tcp_set_dl (v : option Z) (n : tnet) : tnet :=
  {| clock := clock n; dl := v; unread := unread n; pend := pend n; fin := fin n; stale := stale n |}.

Definition passed (o : option Z) (t : Z) : bool := match o with Some D => D <=? t | None => false end.

Definition tcp_read (max : nat) (n : tnet) : rres * tnet :=
  if passed (dl n) (clock n) then (RTimeout, n)
  else match unread n with
  | _ :: _ => take max (unread n) (pend n) (clock n) n
  | [] =>
    match pend n with
    | (ta, d) :: rest =>
        let ta' := Z.max ta (clock n) in
        if passed (dl n) ta' then (RTimeout, with_clock (match dl n with Some D => D | None => ta' end) n)
        else take max d rest ta' n
    | [] =>
        let tf := Z.max (fin n) (clock n) in
        if passed (dl n) tf then (RTimeout, with_clock (match dl n with Some D => D | None => tf end) n)
        else (RErr, with_clock tf n)          (* EOF *)
    end
  end.

(* ---------------------------------------------------------------- UDP: packetConn *)
(* what SetReadDeadline keeps of the instant t: pc.deadline.Store(t.Unix()) is granularity 10^9 *)
Definition udp_store (g : Z) (t : Z) : Z := (t / g) * g.

(* SetReadDeadline: pc.deadline keeps [udp_store g t]; deadlineTimer is set to fire at t itself.
   Both derive from the one instant kept in [dl]. *)
Definition udp_stored (g : Z) (n : tnet) : option Z := option_map (udp_store g) (dl n).

(* isDeadlineExceeded(stored): !zero && stored.Before(now) *)
Definition exceeded (o : option Z) (t : Z) : bool := match o with Some D => D <? t | None => false end.

Definition udp_read_g (g : Z) (max : nat) (n : tnet) : rres * tnet :=
  match unread n with
  | _ :: _ => take max (unread n) (pend n) (clock n) n        (* rest of the last datagram: no deadline test *)
  | [] =>
    if exceeded (udp_stored g n) (clock n) then (RTimeout, n)  (* test of the stored deadline at entry *)
    else
      let idle := clock n + udp_idle in
      (* the deadline timer ends the wait only when the stored deadline is set; it fires at the exact instant *)
      let fire := match dl n with Some T => Some (Z.max T (clock n)) | None => None end in
      let arrival := match pend n with (ta, _) :: _ => Z.max ta (clock n) | [] => Z.max (fin n) (clock n) end in
      let first_other := match fire with Some f => Z.min f idle | None => idle end in
      if arrival <? first_other then
        match pend n with
        | (_, d) :: rest => take max d rest arrival n
        | [] => (RErr, with_clock arrival n)                  (* closed: EOF *)
        end
      else match fire with
        | Some f => if f <=? idle then (RTimeout, with_clock f n) else (RErr, with_clock idle n)
        | None => (RErr, with_clock idle n)                   (* idle timeout simulates closure: EOF *)
        end
  end.

(* ---- the deadline timer of packetConn: a time.Timer whose channel holds at most one tick and is not drained by
   Reset (the semantics /repo's go.mod selects, and the code relies on: "deadline may change during the wait,
   recheck").  SetReadDeadline(t) Resets the timer to fire at t; with the zero time, or with an instant that
   has passed, it fires at once.  A tick that nobody received stays in the channel: [stale].  The tick of the
   CURRENT deadline needs no state: it exists from max(t, now) on, which is what [udp_read_g] waits for. *)
Definition udp_set_dl_m (v : option Z) (n : tnet) : tnet :=
  {| clock := clock n; dl := v; unread := unread n; pend := pend n; fin := fin n;
     stale := stale n
              || match v with None => true | Some _ => false end                      (* Reset(<0): fires at once *)
              || match dl n with Some T => T <=? clock n | None => false end |}.     (* the old timer had fired, unreceived *)
Definition unstale (n : tnet) : tnet :=
  {| clock := clock n; dl := dl n; unread := unread n; pend := pend n; fin := fin n; stale := false |}.

(* does packetConn.Read compare the stored deadline with the clock again when the timer ticks? (generated) *)
Definition udp_rechecks : bool := layer4_pc_read_timer_tick_rechecks_deadline.

(* packetConn.Read as a machine over that timer.  When a stale tick is in the channel the select may receive it
   first (the model lets it): with the recheck the stored deadline is found not exceeded (the entry test has
   just passed) and the wait goes on; WITHOUT the recheck a tick means "timeout" whenever a deadline is set. *)
Definition udp_read_m (rechk : bool) (g : Z) (max : nat) (n : tnet) : rres * tnet :=
  match unread n with
  | _ :: _ => udp_read_g g max n
  | [] =>
    if exceeded (udp_stored g n) (clock n) then (RTimeout, n)
    else if stale n then
      if negb rechk && match dl n with Some _ => true | None => false end then (RTimeout, unstale n)
      else udp_read_g g max (unstale n)
    else udp_read_g g max n
  end.

Definition udp_set_dl := udp_set_dl_m.
Definition udp_read := udp_read_m udp_rechecks udp_granularity.

(* Connection.Wrap: the old Connection below delivers its buffered bytes first *)
Definition tpush (b : list byte) (n : tnet) : tnet :=
  {| clock := clock n; dl := dl n; unread := b ++ unread n; pend := pend n; fin := fin n; stale := stale n |}.

(* ---------------------------------------------------------------- running the router over them *)
Definition t_init (t0 : Z) (arrivals : list (Z * list byte)) (close_at : Z) : tnet :=
  {| clock := t0; dl := None; unread := []; pend := arrivals; fin := close_at; stale := false |}.

Definition st_init (n : tnet) : st tnet := {| off := 0%nat; avail := []; nt := n; tr := [] |}.

Definition tcp_serve (fuel : nat) (rs : list route) (timeout : Z) (n : tnet) : res tnet :=
  serve tnet tnow tcp_set_dl tcp_read tpush fuel rs timeout (st_init n).
Definition udp_serve_m (rechk : bool) (g : Z) (fuel : nat) (rs : list route) (timeout : Z) (n : tnet) : res tnet :=
  serve tnet tnow udp_set_dl_m (udp_read_m rechk g) tpush fuel rs timeout (st_init n).
Definition udp_serve_g (g : Z) := udp_serve_m true g.
Definition udp_serve := udp_serve_m udp_rechecks udp_granularity.

(* the instant and reason of the first drop in a timed trace *)
Fixpoint first_drop (l : list (Z * ev)) : option (Z * dropwhy) :=
  match l with
  | [] => None
  | (t, EDrop _ w) :: _ => Some (t, w)
  | _ :: r => first_drop r
  end.
