(* The access discipline checked over the regenerated table gen/Access.v, and the abstract thread
   model it is sound for.  Definitions only (lemmas: proofs/DisciplineProofs.v).

   Table entries: (location, site, kind, many).  Two entries can run at the same time on the same
   instance of the location when they belong to different sites, or to one site that several
   threads execute at once (many).  Go's memory model: two such accesses to one location race
   unless both are atomic or both are reads. *)
From Coq Require Import String List Bool Arith.
From L4.gen Require Import Access.
Import ListNotations.

Definition akind_compat (a b : akind) : bool :=
  match a, b with
  | AAtomic, AAtomic => true
  | ARead, ARead => true
  | _, _ => false
  end.

Definition concurrent (a b : access) : bool :=
  if String.eqb (a_fn a) (a_fn b) then a_many a || a_many b else true.

Definition pair_ok (a b : access) : bool :=
  negb (String.eqb (a_loc a) (a_loc b)) || negb (concurrent a b) || akind_compat (a_kind a) (a_kind b).

Definition check (t : list access) : bool := forallb (fun a => forallb (pair_ok a) t) t.

Definition at_loc (t : list access) (l : string) : list access :=
  filter (fun a => String.eqb (a_loc a) l) t.
Definition loc_ok (t : list access) (l : string) : bool := check (at_loc t l).
Definition in_table (t : list access) (l : string) : bool := existsb (fun a => String.eqb (a_loc a) l) t.

Definition minus (ex : list string) (t : list access) : list access :=
  filter (fun a => negb (existsb (String.eqb (a_loc a)) ex)) t.

Fixpoint dedup (l : list string) : list string :=
  match l with
  | [] => []
  | x :: r => if existsb (String.eqb x) r then dedup r else x :: dedup r
  end.
Definition locs (t : list access) : list string := dedup (map a_loc t).
Definition flagged (t : list access) : list string := filter (fun l => negb (loc_ok t l)) (locs t).

Definition only_reads (t : list access) (l : string) : bool :=
  forallb (fun a => match a_kind a with ARead => true | _ => false end) (at_loc t l).

(* ---- abstract thread model ---- *)

(* one access performed by thread [e_tid] on instance [e_obj] of the entry's location *)
Record tevent := mkEv { e_tid : nat; e_obj : nat; e_acc : access }.

(* executions the table describes: every access is a table entry; a site that is not marked many
   is executed by at most one thread per instance.  Nothing orders accesses of different threads
   (no happens-before between handler threads is assumed), so the order of the list is irrelevant. *)
Definition wf (t : list access) (tr : list tevent) : Prop :=
  (forall e, In e tr -> In (e_acc e) t) /\
  (forall e1 e2, In e1 tr -> In e2 tr ->
     a_fn (e_acc e1) = a_fn (e_acc e2) -> e_obj e1 = e_obj e2 ->
     a_many (e_acc e1) = false -> a_many (e_acc e2) = false -> e_tid e1 = e_tid e2).

Definition race (tr : list tevent) : Prop :=
  exists e1 e2, In e1 tr /\ In e2 tr /\ e_tid e1 <> e_tid e2 /\ e_obj e1 = e_obj e2 /\
    a_loc (e_acc e1) = a_loc (e_acc e2) /\ akind_compat (a_kind (e_acc e1)) (a_kind (e_acc e2)) = false.
