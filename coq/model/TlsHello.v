(* Model of modules/l4tls: parsehello.go (parseRawClientHello over x/crypto/cryptobyte),
   clienthello.go (supportedVersionsFromMax), matcher.go (MatchTLS.Match framing), alpn_matcher.go,
   and an independent RFC 8446 / 6066 / 7301 ClientHello encoder.  Definitions only
   (lemmas: proofs/TlsHelloProofs.v, property theorems: props/C07.v).

   Integers are N, byte strings are list byte.  nil and empty slices are identified (the engine
   canonicalises both sides the same way). *)
From Coq Require Import List NArith ZArith Bool Arith.
From Coq.Strings Require Import Byte.
From L4.model Require Import GoBase.
From L4.gen Require Import Consts.
Import ListNotations.

(* ------------------------------------------------------------------ cryptobyte.String *)
(* s.read(n): all n bytes or failure (the String is then left as it was) *)
Definition cb_read (n : nat) (s : list byte) : option (list byte * list byte) := read_full n s.
(* s.Skip(n) *)
Definition cb_skip (n : nat) (s : list byte) : option (list byte) :=
  match cb_read n s with Some (_, r) => Some r | None => None end.
(* s.ReadUint8/16/24/32: big endian over exactly w bytes *)
Definition cb_uint (w : nat) (s : list byte) : option (N * list byte) :=
  match cb_read w s with Some (v, r) => Some (be_N v, r) | None => None end.
Definition cb_u8 := cb_uint 1.
Definition cb_u16 := cb_uint 2.
Definition cb_u24 := cb_uint 3.
Definition cb_u32 := cb_uint 4.
(* s.ReadUint8/16/24LengthPrefixed(&out): w length bytes, then that many bytes *)
Definition cb_lp (w : nat) (s : list byte) : option (list byte * list byte) :=
  match cb_read w s with
  | None => None
  | Some (l, r) => cb_read (N.to_nat (be_N l)) r
  end.
(* s.Empty() *)
Definition cb_empty (s : list byte) : bool := match s with [] => true | _ => false end.

(* for !s.Empty() { if !step(&s, &x) { return }; out = append(out, x) }
   returns what was appended and whether the loop ran to the end; every step consumes at least
   one byte, so fuel = length s is never exhausted (TlsHelloProofs.cb_many_fuel) *)
Fixpoint cb_many {A} (fuel : nat) (step : list byte -> option (A * list byte)) (s : list byte)
  : list A * bool :=
  match s with
  | [] => ([], true)
  | _ :: _ =>
      match fuel with
      | O => ([], false)
      | S f =>
          match step s with
          | None => ([], false)
          | Some (a, r) => let (l, ok) := cb_many f step r in (a :: l, ok)
          end
      end
  end.
Definition cb_all {A} (step : list byte -> option (A * list byte)) (s : list byte) : list A * bool :=
  cb_many (length s) step s.

(* ------------------------------------------------------------------ ClientHelloInfo *)
Record info := mk_info {
  i_version : N;
  i_random : list byte;
  i_session_id : list byte;
  i_ciphers : list N;
  i_reneg_supported : bool;
  i_compression : list byte;
  i_extensions : list N;
  i_server_name : list byte;
  i_ocsp : bool;
  i_curves : list N;
  i_points : list byte;
  i_ticket_supported : bool;
  i_session_ticket : list byte;
  i_sigschemes : list N;
  i_sigschemes_cert : list N;
  i_secure_reneg : list byte;
  i_protos : list (list byte);
  i_scts : bool;
  i_versions : list N;
  i_cookie : list byte;
  i_keyshares : list (N * list byte);
  i_early : bool;
  i_pskmodes : list byte;
  i_psk_ids : list (list byte * N);
  i_psk_binders : list (list byte)
}.
Definition set_version (i : info) (v : N) : info :=
  {| i_version := v; i_random := i_random i; i_session_id := i_session_id i; i_ciphers := i_ciphers i; i_reneg_supported := i_reneg_supported i; i_compression := i_compression i; i_extensions := i_extensions i; i_server_name := i_server_name i; i_ocsp := i_ocsp i; i_curves := i_curves i; i_points := i_points i; i_ticket_supported := i_ticket_supported i; i_session_ticket := i_session_ticket i; i_sigschemes := i_sigschemes i; i_sigschemes_cert := i_sigschemes_cert i; i_secure_reneg := i_secure_reneg i; i_protos := i_protos i; i_scts := i_scts i; i_versions := i_versions i; i_cookie := i_cookie i; i_keyshares := i_keyshares i; i_early := i_early i; i_pskmodes := i_pskmodes i; i_psk_ids := i_psk_ids i; i_psk_binders := i_psk_binders i |}.
Definition set_random (i : info) (v : list byte) : info :=
  {| i_version := i_version i; i_random := v; i_session_id := i_session_id i; i_ciphers := i_ciphers i; i_reneg_supported := i_reneg_supported i; i_compression := i_compression i; i_extensions := i_extensions i; i_server_name := i_server_name i; i_ocsp := i_ocsp i; i_curves := i_curves i; i_points := i_points i; i_ticket_supported := i_ticket_supported i; i_session_ticket := i_session_ticket i; i_sigschemes := i_sigschemes i; i_sigschemes_cert := i_sigschemes_cert i; i_secure_reneg := i_secure_reneg i; i_protos := i_protos i; i_scts := i_scts i; i_versions := i_versions i; i_cookie := i_cookie i; i_keyshares := i_keyshares i; i_early := i_early i; i_pskmodes := i_pskmodes i; i_psk_ids := i_psk_ids i; i_psk_binders := i_psk_binders i |}.
Definition set_session_id (i : info) (v : list byte) : info :=
  {| i_version := i_version i; i_random := i_random i; i_session_id := v; i_ciphers := i_ciphers i; i_reneg_supported := i_reneg_supported i; i_compression := i_compression i; i_extensions := i_extensions i; i_server_name := i_server_name i; i_ocsp := i_ocsp i; i_curves := i_curves i; i_points := i_points i; i_ticket_supported := i_ticket_supported i; i_session_ticket := i_session_ticket i; i_sigschemes := i_sigschemes i; i_sigschemes_cert := i_sigschemes_cert i; i_secure_reneg := i_secure_reneg i; i_protos := i_protos i; i_scts := i_scts i; i_versions := i_versions i; i_cookie := i_cookie i; i_keyshares := i_keyshares i; i_early := i_early i; i_pskmodes := i_pskmodes i; i_psk_ids := i_psk_ids i; i_psk_binders := i_psk_binders i |}.
Definition set_ciphers (i : info) (v : list N) : info :=
  {| i_version := i_version i; i_random := i_random i; i_session_id := i_session_id i; i_ciphers := v; i_reneg_supported := i_reneg_supported i; i_compression := i_compression i; i_extensions := i_extensions i; i_server_name := i_server_name i; i_ocsp := i_ocsp i; i_curves := i_curves i; i_points := i_points i; i_ticket_supported := i_ticket_supported i; i_session_ticket := i_session_ticket i; i_sigschemes := i_sigschemes i; i_sigschemes_cert := i_sigschemes_cert i; i_secure_reneg := i_secure_reneg i; i_protos := i_protos i; i_scts := i_scts i; i_versions := i_versions i; i_cookie := i_cookie i; i_keyshares := i_keyshares i; i_early := i_early i; i_pskmodes := i_pskmodes i; i_psk_ids := i_psk_ids i; i_psk_binders := i_psk_binders i |}.
Definition set_reneg_supported (i : info) (v : bool) : info :=
  {| i_version := i_version i; i_random := i_random i; i_session_id := i_session_id i; i_ciphers := i_ciphers i; i_reneg_supported := v; i_compression := i_compression i; i_extensions := i_extensions i; i_server_name := i_server_name i; i_ocsp := i_ocsp i; i_curves := i_curves i; i_points := i_points i; i_ticket_supported := i_ticket_supported i; i_session_ticket := i_session_ticket i; i_sigschemes := i_sigschemes i; i_sigschemes_cert := i_sigschemes_cert i; i_secure_reneg := i_secure_reneg i; i_protos := i_protos i; i_scts := i_scts i; i_versions := i_versions i; i_cookie := i_cookie i; i_keyshares := i_keyshares i; i_early := i_early i; i_pskmodes := i_pskmodes i; i_psk_ids := i_psk_ids i; i_psk_binders := i_psk_binders i |}.
Definition set_compression (i : info) (v : list byte) : info :=
  {| i_version := i_version i; i_random := i_random i; i_session_id := i_session_id i; i_ciphers := i_ciphers i; i_reneg_supported := i_reneg_supported i; i_compression := v; i_extensions := i_extensions i; i_server_name := i_server_name i; i_ocsp := i_ocsp i; i_curves := i_curves i; i_points := i_points i; i_ticket_supported := i_ticket_supported i; i_session_ticket := i_session_ticket i; i_sigschemes := i_sigschemes i; i_sigschemes_cert := i_sigschemes_cert i; i_secure_reneg := i_secure_reneg i; i_protos := i_protos i; i_scts := i_scts i; i_versions := i_versions i; i_cookie := i_cookie i; i_keyshares := i_keyshares i; i_early := i_early i; i_pskmodes := i_pskmodes i; i_psk_ids := i_psk_ids i; i_psk_binders := i_psk_binders i |}.
Definition set_extensions (i : info) (v : list N) : info :=
  {| i_version := i_version i; i_random := i_random i; i_session_id := i_session_id i; i_ciphers := i_ciphers i; i_reneg_supported := i_reneg_supported i; i_compression := i_compression i; i_extensions := v; i_server_name := i_server_name i; i_ocsp := i_ocsp i; i_curves := i_curves i; i_points := i_points i; i_ticket_supported := i_ticket_supported i; i_session_ticket := i_session_ticket i; i_sigschemes := i_sigschemes i; i_sigschemes_cert := i_sigschemes_cert i; i_secure_reneg := i_secure_reneg i; i_protos := i_protos i; i_scts := i_scts i; i_versions := i_versions i; i_cookie := i_cookie i; i_keyshares := i_keyshares i; i_early := i_early i; i_pskmodes := i_pskmodes i; i_psk_ids := i_psk_ids i; i_psk_binders := i_psk_binders i |}.
Definition set_server_name (i : info) (v : list byte) : info :=
  {| i_version := i_version i; i_random := i_random i; i_session_id := i_session_id i; i_ciphers := i_ciphers i; i_reneg_supported := i_reneg_supported i; i_compression := i_compression i; i_extensions := i_extensions i; i_server_name := v; i_ocsp := i_ocsp i; i_curves := i_curves i; i_points := i_points i; i_ticket_supported := i_ticket_supported i; i_session_ticket := i_session_ticket i; i_sigschemes := i_sigschemes i; i_sigschemes_cert := i_sigschemes_cert i; i_secure_reneg := i_secure_reneg i; i_protos := i_protos i; i_scts := i_scts i; i_versions := i_versions i; i_cookie := i_cookie i; i_keyshares := i_keyshares i; i_early := i_early i; i_pskmodes := i_pskmodes i; i_psk_ids := i_psk_ids i; i_psk_binders := i_psk_binders i |}.
Definition set_ocsp (i : info) (v : bool) : info :=
  {| i_version := i_version i; i_random := i_random i; i_session_id := i_session_id i; i_ciphers := i_ciphers i; i_reneg_supported := i_reneg_supported i; i_compression := i_compression i; i_extensions := i_extensions i; i_server_name := i_server_name i; i_ocsp := v; i_curves := i_curves i; i_points := i_points i; i_ticket_supported := i_ticket_supported i; i_session_ticket := i_session_ticket i; i_sigschemes := i_sigschemes i; i_sigschemes_cert := i_sigschemes_cert i; i_secure_reneg := i_secure_reneg i; i_protos := i_protos i; i_scts := i_scts i; i_versions := i_versions i; i_cookie := i_cookie i; i_keyshares := i_keyshares i; i_early := i_early i; i_pskmodes := i_pskmodes i; i_psk_ids := i_psk_ids i; i_psk_binders := i_psk_binders i |}.
Definition set_curves (i : info) (v : list N) : info :=
  {| i_version := i_version i; i_random := i_random i; i_session_id := i_session_id i; i_ciphers := i_ciphers i; i_reneg_supported := i_reneg_supported i; i_compression := i_compression i; i_extensions := i_extensions i; i_server_name := i_server_name i; i_ocsp := i_ocsp i; i_curves := v; i_points := i_points i; i_ticket_supported := i_ticket_supported i; i_session_ticket := i_session_ticket i; i_sigschemes := i_sigschemes i; i_sigschemes_cert := i_sigschemes_cert i; i_secure_reneg := i_secure_reneg i; i_protos := i_protos i; i_scts := i_scts i; i_versions := i_versions i; i_cookie := i_cookie i; i_keyshares := i_keyshares i; i_early := i_early i; i_pskmodes := i_pskmodes i; i_psk_ids := i_psk_ids i; i_psk_binders := i_psk_binders i |}.
Definition set_points (i : info) (v : list byte) : info :=
  {| i_version := i_version i; i_random := i_random i; i_session_id := i_session_id i; i_ciphers := i_ciphers i; i_reneg_supported := i_reneg_supported i; i_compression := i_compression i; i_extensions := i_extensions i; i_server_name := i_server_name i; i_ocsp := i_ocsp i; i_curves := i_curves i; i_points := v; i_ticket_supported := i_ticket_supported i; i_session_ticket := i_session_ticket i; i_sigschemes := i_sigschemes i; i_sigschemes_cert := i_sigschemes_cert i; i_secure_reneg := i_secure_reneg i; i_protos := i_protos i; i_scts := i_scts i; i_versions := i_versions i; i_cookie := i_cookie i; i_keyshares := i_keyshares i; i_early := i_early i; i_pskmodes := i_pskmodes i; i_psk_ids := i_psk_ids i; i_psk_binders := i_psk_binders i |}.
Definition set_ticket_supported (i : info) (v : bool) : info :=
  {| i_version := i_version i; i_random := i_random i; i_session_id := i_session_id i; i_ciphers := i_ciphers i; i_reneg_supported := i_reneg_supported i; i_compression := i_compression i; i_extensions := i_extensions i; i_server_name := i_server_name i; i_ocsp := i_ocsp i; i_curves := i_curves i; i_points := i_points i; i_ticket_supported := v; i_session_ticket := i_session_ticket i; i_sigschemes := i_sigschemes i; i_sigschemes_cert := i_sigschemes_cert i; i_secure_reneg := i_secure_reneg i; i_protos := i_protos i; i_scts := i_scts i; i_versions := i_versions i; i_cookie := i_cookie i; i_keyshares := i_keyshares i; i_early := i_early i; i_pskmodes := i_pskmodes i; i_psk_ids := i_psk_ids i; i_psk_binders := i_psk_binders i |}.
Definition set_session_ticket (i : info) (v : list byte) : info :=
  {| i_version := i_version i; i_random := i_random i; i_session_id := i_session_id i; i_ciphers := i_ciphers i; i_reneg_supported := i_reneg_supported i; i_compression := i_compression i; i_extensions := i_extensions i; i_server_name := i_server_name i; i_ocsp := i_ocsp i; i_curves := i_curves i; i_points := i_points i; i_ticket_supported := i_ticket_supported i; i_session_ticket := v; i_sigschemes := i_sigschemes i; i_sigschemes_cert := i_sigschemes_cert i; i_secure_reneg := i_secure_reneg i; i_protos := i_protos i; i_scts := i_scts i; i_versions := i_versions i; i_cookie := i_cookie i; i_keyshares := i_keyshares i; i_early := i_early i; i_pskmodes := i_pskmodes i; i_psk_ids := i_psk_ids i; i_psk_binders := i_psk_binders i |}.
Definition set_sigschemes (i : info) (v : list N) : info :=
  {| i_version := i_version i; i_random := i_random i; i_session_id := i_session_id i; i_ciphers := i_ciphers i; i_reneg_supported := i_reneg_supported i; i_compression := i_compression i; i_extensions := i_extensions i; i_server_name := i_server_name i; i_ocsp := i_ocsp i; i_curves := i_curves i; i_points := i_points i; i_ticket_supported := i_ticket_supported i; i_session_ticket := i_session_ticket i; i_sigschemes := v; i_sigschemes_cert := i_sigschemes_cert i; i_secure_reneg := i_secure_reneg i; i_protos := i_protos i; i_scts := i_scts i; i_versions := i_versions i; i_cookie := i_cookie i; i_keyshares := i_keyshares i; i_early := i_early i; i_pskmodes := i_pskmodes i; i_psk_ids := i_psk_ids i; i_psk_binders := i_psk_binders i |}.
Definition set_sigschemes_cert (i : info) (v : list N) : info :=
  {| i_version := i_version i; i_random := i_random i; i_session_id := i_session_id i; i_ciphers := i_ciphers i; i_reneg_supported := i_reneg_supported i; i_compression := i_compression i; i_extensions := i_extensions i; i_server_name := i_server_name i; i_ocsp := i_ocsp i; i_curves := i_curves i; i_points := i_points i; i_ticket_supported := i_ticket_supported i; i_session_ticket := i_session_ticket i; i_sigschemes := i_sigschemes i; i_sigschemes_cert := v; i_secure_reneg := i_secure_reneg i; i_protos := i_protos i; i_scts := i_scts i; i_versions := i_versions i; i_cookie := i_cookie i; i_keyshares := i_keyshares i; i_early := i_early i; i_pskmodes := i_pskmodes i; i_psk_ids := i_psk_ids i; i_psk_binders := i_psk_binders i |}.
Definition set_secure_reneg (i : info) (v : list byte) : info :=
  {| i_version := i_version i; i_random := i_random i; i_session_id := i_session_id i; i_ciphers := i_ciphers i; i_reneg_supported := i_reneg_supported i; i_compression := i_compression i; i_extensions := i_extensions i; i_server_name := i_server_name i; i_ocsp := i_ocsp i; i_curves := i_curves i; i_points := i_points i; i_ticket_supported := i_ticket_supported i; i_session_ticket := i_session_ticket i; i_sigschemes := i_sigschemes i; i_sigschemes_cert := i_sigschemes_cert i; i_secure_reneg := v; i_protos := i_protos i; i_scts := i_scts i; i_versions := i_versions i; i_cookie := i_cookie i; i_keyshares := i_keyshares i; i_early := i_early i; i_pskmodes := i_pskmodes i; i_psk_ids := i_psk_ids i; i_psk_binders := i_psk_binders i |}.
Definition set_protos (i : info) (v : list (list byte)) : info :=
  {| i_version := i_version i; i_random := i_random i; i_session_id := i_session_id i; i_ciphers := i_ciphers i; i_reneg_supported := i_reneg_supported i; i_compression := i_compression i; i_extensions := i_extensions i; i_server_name := i_server_name i; i_ocsp := i_ocsp i; i_curves := i_curves i; i_points := i_points i; i_ticket_supported := i_ticket_supported i; i_session_ticket := i_session_ticket i; i_sigschemes := i_sigschemes i; i_sigschemes_cert := i_sigschemes_cert i; i_secure_reneg := i_secure_reneg i; i_protos := v; i_scts := i_scts i; i_versions := i_versions i; i_cookie := i_cookie i; i_keyshares := i_keyshares i; i_early := i_early i; i_pskmodes := i_pskmodes i; i_psk_ids := i_psk_ids i; i_psk_binders := i_psk_binders i |}.
Definition set_scts (i : info) (v : bool) : info :=
  {| i_version := i_version i; i_random := i_random i; i_session_id := i_session_id i; i_ciphers := i_ciphers i; i_reneg_supported := i_reneg_supported i; i_compression := i_compression i; i_extensions := i_extensions i; i_server_name := i_server_name i; i_ocsp := i_ocsp i; i_curves := i_curves i; i_points := i_points i; i_ticket_supported := i_ticket_supported i; i_session_ticket := i_session_ticket i; i_sigschemes := i_sigschemes i; i_sigschemes_cert := i_sigschemes_cert i; i_secure_reneg := i_secure_reneg i; i_protos := i_protos i; i_scts := v; i_versions := i_versions i; i_cookie := i_cookie i; i_keyshares := i_keyshares i; i_early := i_early i; i_pskmodes := i_pskmodes i; i_psk_ids := i_psk_ids i; i_psk_binders := i_psk_binders i |}.
Definition set_versions (i : info) (v : list N) : info :=
  {| i_version := i_version i; i_random := i_random i; i_session_id := i_session_id i; i_ciphers := i_ciphers i; i_reneg_supported := i_reneg_supported i; i_compression := i_compression i; i_extensions := i_extensions i; i_server_name := i_server_name i; i_ocsp := i_ocsp i; i_curves := i_curves i; i_points := i_points i; i_ticket_supported := i_ticket_supported i; i_session_ticket := i_session_ticket i; i_sigschemes := i_sigschemes i; i_sigschemes_cert := i_sigschemes_cert i; i_secure_reneg := i_secure_reneg i; i_protos := i_protos i; i_scts := i_scts i; i_versions := v; i_cookie := i_cookie i; i_keyshares := i_keyshares i; i_early := i_early i; i_pskmodes := i_pskmodes i; i_psk_ids := i_psk_ids i; i_psk_binders := i_psk_binders i |}.
Definition set_cookie (i : info) (v : list byte) : info :=
  {| i_version := i_version i; i_random := i_random i; i_session_id := i_session_id i; i_ciphers := i_ciphers i; i_reneg_supported := i_reneg_supported i; i_compression := i_compression i; i_extensions := i_extensions i; i_server_name := i_server_name i; i_ocsp := i_ocsp i; i_curves := i_curves i; i_points := i_points i; i_ticket_supported := i_ticket_supported i; i_session_ticket := i_session_ticket i; i_sigschemes := i_sigschemes i; i_sigschemes_cert := i_sigschemes_cert i; i_secure_reneg := i_secure_reneg i; i_protos := i_protos i; i_scts := i_scts i; i_versions := i_versions i; i_cookie := v; i_keyshares := i_keyshares i; i_early := i_early i; i_pskmodes := i_pskmodes i; i_psk_ids := i_psk_ids i; i_psk_binders := i_psk_binders i |}.
Definition set_keyshares (i : info) (v : list (N * list byte)) : info :=
  {| i_version := i_version i; i_random := i_random i; i_session_id := i_session_id i; i_ciphers := i_ciphers i; i_reneg_supported := i_reneg_supported i; i_compression := i_compression i; i_extensions := i_extensions i; i_server_name := i_server_name i; i_ocsp := i_ocsp i; i_curves := i_curves i; i_points := i_points i; i_ticket_supported := i_ticket_supported i; i_session_ticket := i_session_ticket i; i_sigschemes := i_sigschemes i; i_sigschemes_cert := i_sigschemes_cert i; i_secure_reneg := i_secure_reneg i; i_protos := i_protos i; i_scts := i_scts i; i_versions := i_versions i; i_cookie := i_cookie i; i_keyshares := v; i_early := i_early i; i_pskmodes := i_pskmodes i; i_psk_ids := i_psk_ids i; i_psk_binders := i_psk_binders i |}.
Definition set_early (i : info) (v : bool) : info :=
  {| i_version := i_version i; i_random := i_random i; i_session_id := i_session_id i; i_ciphers := i_ciphers i; i_reneg_supported := i_reneg_supported i; i_compression := i_compression i; i_extensions := i_extensions i; i_server_name := i_server_name i; i_ocsp := i_ocsp i; i_curves := i_curves i; i_points := i_points i; i_ticket_supported := i_ticket_supported i; i_session_ticket := i_session_ticket i; i_sigschemes := i_sigschemes i; i_sigschemes_cert := i_sigschemes_cert i; i_secure_reneg := i_secure_reneg i; i_protos := i_protos i; i_scts := i_scts i; i_versions := i_versions i; i_cookie := i_cookie i; i_keyshares := i_keyshares i; i_early := v; i_pskmodes := i_pskmodes i; i_psk_ids := i_psk_ids i; i_psk_binders := i_psk_binders i |}.
Definition set_pskmodes (i : info) (v : list byte) : info :=
  {| i_version := i_version i; i_random := i_random i; i_session_id := i_session_id i; i_ciphers := i_ciphers i; i_reneg_supported := i_reneg_supported i; i_compression := i_compression i; i_extensions := i_extensions i; i_server_name := i_server_name i; i_ocsp := i_ocsp i; i_curves := i_curves i; i_points := i_points i; i_ticket_supported := i_ticket_supported i; i_session_ticket := i_session_ticket i; i_sigschemes := i_sigschemes i; i_sigschemes_cert := i_sigschemes_cert i; i_secure_reneg := i_secure_reneg i; i_protos := i_protos i; i_scts := i_scts i; i_versions := i_versions i; i_cookie := i_cookie i; i_keyshares := i_keyshares i; i_early := i_early i; i_pskmodes := v; i_psk_ids := i_psk_ids i; i_psk_binders := i_psk_binders i |}.
Definition set_psk_ids (i : info) (v : list (list byte * N)) : info :=
  {| i_version := i_version i; i_random := i_random i; i_session_id := i_session_id i; i_ciphers := i_ciphers i; i_reneg_supported := i_reneg_supported i; i_compression := i_compression i; i_extensions := i_extensions i; i_server_name := i_server_name i; i_ocsp := i_ocsp i; i_curves := i_curves i; i_points := i_points i; i_ticket_supported := i_ticket_supported i; i_session_ticket := i_session_ticket i; i_sigschemes := i_sigschemes i; i_sigschemes_cert := i_sigschemes_cert i; i_secure_reneg := i_secure_reneg i; i_protos := i_protos i; i_scts := i_scts i; i_versions := i_versions i; i_cookie := i_cookie i; i_keyshares := i_keyshares i; i_early := i_early i; i_pskmodes := i_pskmodes i; i_psk_ids := v; i_psk_binders := i_psk_binders i |}.
Definition set_psk_binders (i : info) (v : list (list byte)) : info :=
  {| i_version := i_version i; i_random := i_random i; i_session_id := i_session_id i; i_ciphers := i_ciphers i; i_reneg_supported := i_reneg_supported i; i_compression := i_compression i; i_extensions := i_extensions i; i_server_name := i_server_name i; i_ocsp := i_ocsp i; i_curves := i_curves i; i_points := i_points i; i_ticket_supported := i_ticket_supported i; i_session_ticket := i_session_ticket i; i_sigschemes := i_sigschemes i; i_sigschemes_cert := i_sigschemes_cert i; i_secure_reneg := i_secure_reneg i; i_protos := i_protos i; i_scts := i_scts i; i_versions := i_versions i; i_cookie := i_cookie i; i_keyshares := i_keyshares i; i_early := i_early i; i_pskmodes := i_pskmodes i; i_psk_ids := i_psk_ids i; i_psk_binders := v |}.

Definition empty_info : info :=
  {| i_version := 0; i_random := []; i_session_id := []; i_ciphers := []; i_reneg_supported := false;
     i_compression := []; i_extensions := []; i_server_name := []; i_ocsp := false; i_curves := [];
     i_points := []; i_ticket_supported := false; i_session_ticket := []; i_sigschemes := [];
     i_sigschemes_cert := []; i_secure_reneg := []; i_protos := []; i_scts := false; i_versions := [];
     i_cookie := []; i_keyshares := []; i_early := false; i_pskmodes := []; i_psk_ids := [];
     i_psk_binders := [] |}.

(* ------------------------------------------------------------------ constants *)
Definition K (z : Z) : N := Z.to_N z.
Definition ext_server_name := K l4tls_extensionServerName.
Definition ext_status_request := K l4tls_extensionStatusRequest.
Definition ext_supported_curves := K l4tls_extensionSupportedCurves.
Definition ext_supported_points := K l4tls_extensionSupportedPoints.
Definition ext_signature_algorithms := K l4tls_extensionSignatureAlgorithms.
Definition ext_alpn := K l4tls_extensionALPN.
Definition ext_sct := K l4tls_extensionSCT.
Definition ext_session_ticket := K l4tls_extensionSessionTicket.
Definition ext_pre_shared_key := K l4tls_extensionPreSharedKey.
Definition ext_early_data := K l4tls_extensionEarlyData.
Definition ext_supported_versions := K l4tls_extensionSupportedVersions.
Definition ext_cookie := K l4tls_extensionCookie.
Definition ext_psk_modes := K l4tls_extensionPSKModes.
Definition ext_signature_algorithms_cert := K l4tls_extensionSignatureAlgorithmsCert.
Definition ext_key_share := K l4tls_extensionKeyShare.
Definition ext_renegotiation_info := K l4tls_extensionRenegotiationInfo.
Definition scsv_renegotiation := K l4tls_scsvRenegotiation.
Definition status_type_ocsp := K l4tls_statusTypeOCSP.

(* var allKnownVersions = []uint16{tls.VersionTLS13, tls.VersionTLS12, tls.VersionTLS11, tls.VersionTLS10}
   (values of crypto/tls constants; checked against the implementation by the engine's
   CVersMax cases) *)
Definition all_known_versions : list N := [772; 771; 770; 769]%N.

(* supportedVersionsFromMax *)
Definition supported_versions_from_max (maxv : N) : list N :=
  filter (fun v => negb (maxv <? v)%N) all_known_versions.

(* ------------------------------------------------------------------ parseRawClientHello *)
Open Scope N_scope.

(* result of one extension case: the info so far and Some rest-of-extData when control reaches the
   end of the switch, None when the case executed `return` *)
Definition case_res := (info * option (list byte))%type.

(* strings.HasSuffix(name, ".") *)
Definition has_suffix_dot (name : list byte) : bool :=
  match rev name with b :: _ => Byte.eqb b x2e | [] => false end.

(* the name loop of the server_name case; true = loop ended normally *)
Fixpoint sni_loop (fuel : nat) (nl : list byte) (i : info) : info * bool :=
  match nl with
  | [] => (i, true)
  | _ :: _ =>
      match fuel with
      | O => (i, false)
      | S f =>
          match cb_u8 nl with
          | None => (i, false)
          | Some (name_type, r1) =>
              match cb_lp 2 r1 with
              | None => (i, false)
              | Some (name, r2) =>
                  if cb_empty name then (i, false)
                  else if negb (name_type =? 0) then sni_loop f r2 i
                  else if negb (cb_empty (i_server_name i)) then (i, false)
                  else let i' := set_server_name i name in
                       if has_suffix_dot name then (i', false) else sni_loop f r2 i'
              end
          end
      end
  end.

Definition case_sni (d : list byte) (i : info) : case_res :=
  match cb_lp 2 d with
  | None => (i, None)
  | Some (nl, rest) =>
      if cb_empty nl then (i, None)
      else let (i', ok) := sni_loop (length nl) nl i in
           (i', if ok then Some rest else None)
  end.

Definition case_status_request (d : list byte) (i : info) : case_res :=
  match cb_u8 d with
  | None => (i, None)
  | Some (status_type, r1) =>
      match cb_lp 2 r1 with
      | None => (i, None)
      | Some (_, r2) =>
          match cb_lp 2 r2 with
          | None => (i, None)
          | Some (_, r3) => (set_ocsp i (status_type =? status_type_ocsp), Some r3)
          end
      end
  end.

(* the shape shared by supported_groups, signature_algorithms(_cert), supported_versions:
   a w-byte length-prefixed non-empty vector of uint16, each appended as it is read *)
Definition case_u16_vector (w : nat) (get : info -> list N) (set : info -> list N -> info)
  (d : list byte) (i : info) : case_res :=
  match cb_lp w d with
  | None => (i, None)
  | Some (v, rest) =>
      if cb_empty v then (i, None)
      else let (l, ok) := cb_all cb_u16 v in
           (set i (get i ++ l), if ok then Some rest else None)
  end.

(* readUintNLengthPrefixed(&extData, &info.Field) [ || len(info.Field) == 0 ] *)
Definition case_bytes (w : nat) (set : info -> list byte -> info) (nonempty : bool)
  (d : list byte) (i : info) : case_res :=
  match cb_lp w d with
  | None => (i, None)
  | Some (v, rest) =>
      (set i v, if nonempty && cb_empty v then None else Some rest)
  end.

Definition nonempty_lp (w : nat) (s : list byte) : option (list byte * list byte) :=
  match cb_lp w s with
  | Some (v, r) => if cb_empty v then None else Some (v, r)
  | None => None
  end.

Definition case_alpn (d : list byte) (i : info) : case_res :=
  match cb_lp 2 d with
  | None => (i, None)
  | Some (pl, rest) =>
      if cb_empty pl then (i, None)
      else let (l, ok) := cb_all (nonempty_lp 1) pl in
           (set_protos i (i_protos i ++ l), if ok then Some rest else None)
  end.

Definition key_share_step (s : list byte) : option ((N * list byte) * list byte) :=
  match cb_u16 s with
  | None => None
  | Some (g, r1) =>
      match cb_lp 2 r1 with
      | None => None
      | Some (k, r2) => if cb_empty k then None else Some ((g, k), r2)
      end
  end.

Definition case_key_share (d : list byte) (i : info) : case_res :=
  match cb_lp 2 d with
  | None => (i, None)
  | Some (cs, rest) =>
      let (l, ok) := cb_all key_share_step cs in
      (set_keyshares i (i_keyshares i ++ l), if ok then Some rest else None)
  end.

Definition psk_identity_step (s : list byte) : option ((list byte * N) * list byte) :=
  match cb_lp 2 s with
  | None => None
  | Some (label, r1) =>
      match cb_u32 r1 with
      | None => None
      | Some (age, r2) => if cb_empty label then None else Some ((label, age), r2)
      end
  end.

Definition case_pre_shared_key (last : bool) (d : list byte) (i : info) : case_res :=
  if negb last then (i, None) (* pre_shared_key must be the last extension *)
  else
  match cb_lp 2 d with
  | None => (i, None)
  | Some (ids, r1) =>
      if cb_empty ids then (i, None)
      else let (l, ok) := cb_all psk_identity_step ids in
           let i1 := set_psk_ids i (i_psk_ids i ++ l) in
           if negb ok then (i1, None)
           else match cb_lp 2 r1 with
                | None => (i1, None)
                | Some (bs, r2) =>
                    if cb_empty bs then (i1, None)
                    else let (lb, okb) := cb_all (nonempty_lp 1) bs in
                         (set_psk_binders i1 (i_psk_binders i1 ++ lb), if okb then Some r2 else None)
                end
  end.

Inductive step_res := Continue (i : info) | Return (i : info).

(* the tail of the loop body: `if !extData.Empty() { return }` *)
Definition after_switch (r : case_res) : step_res :=
  match r with
  | (i, None) => Return i
  | (i, Some rest) => if cb_empty rest then Continue i else Return i
  end.

(* the switch; [last] = extensions.Empty() after this extension was read *)
Definition parse_ext (ext : N) (d : list byte) (last : bool) (i : info) : step_res :=
  if ext =? ext_server_name then after_switch (case_sni d i)
  else if ext =? ext_status_request then after_switch (case_status_request d i)
  else if ext =? ext_supported_curves then after_switch (case_u16_vector 2 i_curves set_curves d i)
  else if ext =? ext_supported_points then after_switch (case_bytes 1 set_points true d i)
  else if ext =? ext_session_ticket then
    after_switch (set_session_ticket (set_ticket_supported i true) d, Some [])
  else if ext =? ext_signature_algorithms then after_switch (case_u16_vector 2 i_sigschemes set_sigschemes d i)
  else if ext =? ext_signature_algorithms_cert then
    after_switch (case_u16_vector 2 i_sigschemes_cert set_sigschemes_cert d i)
  else if ext =? ext_renegotiation_info then
    after_switch (match case_bytes 1 set_secure_reneg false d i with
                  | (i', Some r) => (set_reneg_supported i' true, Some r)
                  | (_, None) => (i, None)
                  end)
  else if ext =? ext_alpn then after_switch (case_alpn d i)
  else if ext =? ext_sct then after_switch (set_scts i true, Some d)
  else if ext =? ext_supported_versions then after_switch (case_u16_vector 1 i_versions set_versions d i)
  else if ext =? ext_cookie then after_switch (case_bytes 2 set_cookie true d i)
  else if ext =? ext_key_share then after_switch (case_key_share d i)
  else if ext =? ext_early_data then after_switch (set_early i true, Some d)
  else if ext =? ext_psk_modes then after_switch (case_bytes 1 set_pskmodes false d i)
  else if ext =? ext_pre_shared_key then after_switch (case_pre_shared_key last d i)
  else Continue i. (* default: continue *)

Fixpoint parse_exts (fuel : nat) (exts : list byte) (i : info) : info :=
  match exts with
  | [] => i
  | _ :: _ =>
      match fuel with
      | O => i
      | S f =>
          match cb_u16 exts with
          | None => i
          | Some (ext, r1) =>
              match cb_lp 2 r1 with
              | None => i
              | Some (d, r2) =>
                  match parse_ext ext d (cb_empty r2) (set_extensions i (i_extensions i ++ [ext])) with
                  | Return i' => i'
                  | Continue i' => parse_exts f r2 i'
                  end
              end
          end
      end
  end.

(* everything before the deferred function runs *)
Definition parse_body (data : list byte) : info :=
  let i := empty_info in
  match cb_skip 4 data with (* message type and uint24 length field *)
  | None => i
  | Some s =>
  match cb_u16 s with
  | None => i
  | Some (vers, s) =>
  let i := set_version i vers in
  match cb_read 32 s with
  | None => i
  | Some (rnd, s) =>
  let i := set_random i rnd in
  match cb_lp 1 s with
  | None => i
  | Some (sid, s) =>
  let i := set_session_id i sid in
  match cb_lp 2 s with
  | None => i
  | Some (cs, s) =>
  let (suites, ok) := cb_all cb_u16 cs in
  let i := set_ciphers i suites in
  let i := if existsb (fun x => x =? scsv_renegotiation) suites then set_reneg_supported i true else i in
  if negb ok then i else
  match cb_lp 1 s with
  | None => i
  | Some (comp, s) =>
  let i := set_compression i comp in
  if cb_empty s then i (* ClientHello is optionally followed by extension data *)
  else
  match cb_lp 2 s with
  | None => i
  | Some (exts, s) =>
  if negb (cb_empty s) then i else parse_exts (length exts) exts i
  end end end end end end end.

(* the deferred function *)
Definition parse_hello (data : list byte) : info :=
  let i := parse_body data in
  match i_versions i with
  | [] => set_versions i (supported_versions_from_max (i_version i))
  | _ :: _ => i
  end.
Close Scope N_scope.

(* ------------------------------------------------------------------ MatchALPN.Match *)
(* for each configured value, for each client protocol: equal => true
   (configured values without placeholders: repl.ReplaceAll is the identity on them) *)
Definition alpn_match (cfg protos : list (list byte)) : bool :=
  existsb (fun a => existsb (fun p => bytes_eqb a p) protos) cfg.

(* ------------------------------------------------------------------ MatchTLS.Match *)
Inductive tlsh_gate :=
| TGNo                      (* (false, nil) before parsing *)
| TGMore                    (* (false, ErrConsumedAllPrefetchedBytes) *)
| TGHello (raw : list byte) (* the hello handed to parseRawClientHello *).

Definition tlsh_record_type_handshake : byte := x16.

Definition tls_gate (p : list byte) : tlsh_gate :=
  match read_full 5 p with
  | None => TGMore
  | Some (hdr, r) =>
      match hdr with
      | t :: _ :: _ :: l1 :: l2 :: _ =>
          if negb (Byte.eqb t tlsh_record_type_handshake) then TGNo
          else match read_full (N.to_nat (be_N [l1; l2])) r with
               | None => TGMore
               | Some (raw, _) => TGHello raw
               end
      | _ => TGNo (* unreachable: hdr has 5 bytes *)
      end
  end.

(* the whole matcher with handshake sub-matchers abstracted as a predicate on the parsed info;
   the observable placeholders are returned with the verdict *)
Record tls_result := { r_verdict : verdict; r_server_name : option (list byte); r_version : option N }.

Definition tls_match (subs : info -> bool) (p : list byte) : tls_result :=
  match tls_gate p with
  | TGNo => {| r_verdict := No; r_server_name := None; r_version := None |}
  | TGMore => {| r_verdict := More; r_server_name := None; r_version := None |}
  | TGHello raw =>
      let i := parse_hello raw in
      {| r_verdict := if subs i then Yes else No;
         r_server_name := Some (i_server_name i); r_version := Some (i_version i) |}
  end.

(* ------------------------------------------------------------------ RFC encoder *)
(* Independent of the parser: written from RFC 8446 section 4.1.2 (ClientHello), 4.2 (Extension),
   4.2.1 (supported_versions), 4.2.3 (signature_algorithms[_cert]), 4.2.7 (supported_groups),
   4.2.8 (key_share), 4.2.9 (psk_key_exchange_modes), 4.2.10 (early_data), 4.2.11 (pre_shared_key),
   4.2.2 (cookie); RFC 6066 section 3 (server_name), 8 (status_request); RFC 7301 section 3.1
   (ALPN); RFC 8422 5.1.2 (ec_point_formats); RFC 5077 3.2 (session_ticket); RFC 5746 3.2
   (renegotiation_info); RFC 6962 3.3.1 (signed_certificate_timestamp). *)

(* opaque v<..2^(8w)-1>: w-byte length, then the bytes *)
Definition vec (w : nat) (body : list byte) : list byte :=
  N_to_be w (N.of_nat (length body)) ++ body.
Definition u16s (l : list N) : list byte := flat_map (N_to_be 2) l.

Inductive ext :=
| EServerName (names : list (N * list byte)) (* ServerNameList: (name_type, opaque name) *)
| EStatusRequest (status_type : N) (responder_ids request_exts : list byte)
| ESupportedGroups (groups : list N)
| EPointFormats (formats : list byte)
| ESessionTicket (ticket : list byte)
| ESigAlgs (schemes : list N)
| ESigAlgsCert (schemes : list N)
| ERenegotiationInfo (renegotiated_connection : list byte)
| EALPN (protos : list (list byte))
| ESCT
| ESupportedVersions (versions : list N)
| ECookie (cookie : list byte)
| EKeyShare (shares : list (N * list byte))
| EEarlyData
| EPskModes (modes : list byte)
| EPreSharedKey (identities : list (list byte * N)) (binders : list (list byte))
| EOpaque (typ : N) (data : list byte) (* any extension type the matcher has no case for *).

(* IANA TLS ExtensionType values, written out independently of the implementation's constants *)
Definition ext_type (e : ext) : N :=
  match e with
  | EServerName _ => 0 | EStatusRequest _ _ _ => 5 | ESupportedGroups _ => 10 | EPointFormats _ => 11
  | ESigAlgs _ => 13 | EALPN _ => 16 | ESCT => 18 | ESessionTicket _ => 35 | EPreSharedKey _ _ => 41
  | EEarlyData => 42 | ESupportedVersions _ => 43 | ECookie _ => 44 | EPskModes _ => 45
  | ESigAlgsCert _ => 50 | EKeyShare _ => 51 | ERenegotiationInfo _ => 65281
  | EOpaque t _ => t
  end%N.

Definition encode_server_name (e : N * list byte) : list byte := N_to_be 1 (fst e) ++ vec 2 (snd e).
Definition encode_key_share (e : N * list byte) : list byte := N_to_be 2 (fst e) ++ vec 2 (snd e).
Definition encode_psk_identity (e : list byte * N) : list byte := vec 2 (fst e) ++ N_to_be 4 (snd e).

Definition ext_data (e : ext) : list byte :=
  match e with
  | EServerName names => vec 2 (flat_map encode_server_name names)
  | EStatusRequest t r x => N_to_be 1 t ++ vec 2 r ++ vec 2 x
  | ESupportedGroups gs => vec 2 (u16s gs)
  | EPointFormats fs => vec 1 fs
  | ESessionTicket t => t
  | ESigAlgs l => vec 2 (u16s l)
  | ESigAlgsCert l => vec 2 (u16s l)
  | ERenegotiationInfo d => vec 1 d
  | EALPN ps => vec 2 (flat_map (vec 1) ps)
  | ESCT => []
  | ESupportedVersions vs => vec 1 (u16s vs)
  | ECookie c => vec 2 c
  | EKeyShare ks => vec 2 (flat_map encode_key_share ks)
  | EEarlyData => []
  | EPskModes ms => vec 1 ms
  | EPreSharedKey ids bs => vec 2 (flat_map encode_psk_identity ids) ++ vec 2 (flat_map (vec 1) bs)
  | EOpaque _ d => d
  end.

Definition encode_ext (e : ext) : list byte := N_to_be 2 (ext_type e) ++ vec 2 (ext_data e).

Record hello := {
  h_legacy_version : N;
  h_random : list byte;
  h_session_id : list byte;
  h_ciphers : list N;
  h_compression : list byte;
  h_extensions : option (list ext) (* None: a hello that ends after the compression methods *)
}.

Definition encode_extensions (es : list ext) : list byte := vec 2 (flat_map encode_ext es).

(* struct ClientHello (RFC 8446 4.1.2) *)
Definition encode_hello (h : hello) : list byte :=
  N_to_be 2 (h_legacy_version h) ++ h_random h ++ vec 1 (h_session_id h) ++
  vec 2 (u16s (h_ciphers h)) ++ vec 1 (h_compression h) ++
  match h_extensions h with None => [] | Some es => encode_extensions es end.

(* struct Handshake: msg_type client_hello(1), uint24 length *)
Definition hs_header (body : list byte) : list byte := x01 :: N_to_be 3 (N.of_nat (length body)).
(* struct TLSPlaintext: type handshake(22), legacy_record_version, uint16 length *)
Definition tls_record (record_version : N) (fragment : list byte) : list byte :=
  x16 :: N_to_be 2 record_version ++ vec 2 fragment.
Definition encode_record (record_version : N) (h : hello) : list byte :=
  tls_record record_version (hs_header (encode_hello h) ++ encode_hello h).

(* ---- well-formedness: every value fits its field, every vector its length prefix, minimum
   lengths as the RFCs state them ---- *)
Definition fits (w : nat) (n : N) : Prop := (n < 256 ^ N.of_nat w)%N.
Definition vfits (w : nat) (body : list byte) : Prop := fits w (N.of_nat (length body)).

Definition known_ext_types : list N := [0; 5; 10; 11; 13; 16; 18; 35; 41; 42; 43; 44; 45; 50; 51; 65281]%N.

Definition wf_server_name (e : N * list byte) : Prop :=
  fits 1 (fst e) /\ snd e <> [] /\ vfits 2 (snd e) /\
  (fst e = 0%N -> has_suffix_dot (snd e) = false). (* RFC 6066: host_name "without a trailing dot" *)

Definition wf_ext (e : ext) : Prop :=
  fits 2 (ext_type e) /\ vfits 2 (ext_data e) /\
  match e with
  | EServerName names =>
      names <> [] /\ Forall wf_server_name names /\ vfits 2 (flat_map encode_server_name names) /\
      (* "MUST NOT contain more than one name of the same name_type" *)
      NoDup (map fst names)
  | EStatusRequest t r x => fits 1 t /\ vfits 2 r /\ vfits 2 x
  | ESupportedGroups l | ESigAlgs l | ESigAlgsCert l =>
      l <> [] /\ Forall (fits 2) l /\ vfits 2 (u16s l)
  | ESupportedVersions l => l <> [] /\ Forall (fits 2) l /\ vfits 1 (u16s l)
  | EPointFormats fs => fs <> [] /\ vfits 1 fs
  | ESessionTicket _ => True
  | ERenegotiationInfo d => vfits 1 d
  | EALPN ps => ps <> [] /\ Forall (fun p => p <> [] /\ vfits 1 p) ps /\ vfits 2 (flat_map (vec 1) ps)
  | ESCT | EEarlyData => True
  | ECookie c => c <> [] /\ vfits 2 c
  | EKeyShare ks =>
      Forall (fun e => fits 2 (fst e) /\ snd e <> [] /\ vfits 2 (snd e)) ks /\
      vfits 2 (flat_map encode_key_share ks)
  | EPskModes ms => vfits 1 ms
  | EPreSharedKey ids bs =>
      ids <> [] /\ Forall (fun e => fst e <> [] /\ vfits 2 (fst e) /\ fits 4 (snd e)) ids /\
      vfits 2 (flat_map encode_psk_identity ids) /\
      bs <> [] /\ Forall (fun b => b <> [] /\ vfits 1 b) bs /\ vfits 2 (flat_map (vec 1) bs)
  | EOpaque t _ => ~ In t known_ext_types
  end.

Definition is_psk (e : ext) : bool := match e with EPreSharedKey _ _ => true | _ => false end.

(* "There MUST NOT be more than one extension of the same type"; pre_shared_key "MUST be the last
   extension in the ClientHello" *)
Fixpoint psk_only_last (es : list ext) : Prop :=
  match es with
  | [] => True
  | e :: r => (is_psk e = true -> r = []) /\ psk_only_last r
  end.

Definition wf_extensions (es : list ext) : Prop :=
  Forall wf_ext es /\ NoDup (map ext_type es) /\ psk_only_last es /\
  vfits 2 (flat_map encode_ext es).

Definition wf_hello (h : hello) : Prop :=
  fits 2 (h_legacy_version h) /\ length (h_random h) = 32%nat /\
  vfits 1 (h_session_id h) /\
  Forall (fits 2) (h_ciphers h) /\ vfits 2 (u16s (h_ciphers h)) /\
  vfits 1 (h_compression h) /\
  match h_extensions h with None => True | Some es => wf_extensions es end.

(* ---- what the hello says, read off the abstract value ---- *)
Definition find_ext {A} (f : ext -> option A) (es : list ext) : option A :=
  fold_right (fun e acc => match f e with Some a => Some a | None => acc end) None es.
Definition exts_of (h : hello) : list ext := match h_extensions h with Some es => es | None => [] end.

(* the host_name entry (name_type 0) of a ServerNameList *)
Definition sni_sel (e : ext) : option (option (N * list byte)) :=
  match e with EServerName n => Some (find (fun e => (fst e =? 0)%N) n) | _ => None end.
Definition sni (h : hello) : list byte :=
  match find_ext sni_sel (exts_of h) with Some (Some e) => snd e | _ => [] end.
Definition alpn_sel (e : ext) := match e with EALPN p => Some p | _ => None end.
Definition curves_sel (e : ext) := match e with ESupportedGroups g => Some g | _ => None end.
Definition versions_sel (e : ext) := match e with ESupportedVersions v => Some v | _ => None end.
Definition sigs_sel (e : ext) := match e with ESigAlgs v => Some v | _ => None end.
Definition points_sel (e : ext) := match e with EPointFormats v => Some v | _ => None end.
Definition or_nil {A} (o : option (list A)) : list A := match o with Some l => l | None => [] end.

Definition alpn (h : hello) : list (list byte) := or_nil (find_ext alpn_sel (exts_of h)).
Definition curves (h : hello) : list N := or_nil (find_ext curves_sel (exts_of h)).
Definition versions (h : hello) : list N :=
  match find_ext versions_sel (exts_of h) with
  | Some v => v
  | None => supported_versions_from_max (h_legacy_version h)
  end.
Definition sig_schemes (h : hello) : list N := or_nil (find_ext sigs_sel (exts_of h)).
Definition point_formats (h : hello) : list byte := or_nil (find_ext points_sel (exts_of h)).

(* ---- the complete reading of a hello: what each extension contributes to the parsed info ---- *)
Definition ext_effect (e : ext) (i : info) : info :=
  match e with
  | EServerName names =>
      match find (fun e => (fst e =? 0)%N) names with Some e => set_server_name i (snd e) | None => i end
  | EStatusRequest t _ _ => set_ocsp i (t =? 1)%N (* CertificateStatusType ocsp(1) *)
  | ESupportedGroups l => set_curves i (i_curves i ++ l)
  | EPointFormats fs => set_points i fs
  | ESessionTicket t => set_session_ticket (set_ticket_supported i true) t
  | ESigAlgs l => set_sigschemes i (i_sigschemes i ++ l)
  | ESigAlgsCert l => set_sigschemes_cert i (i_sigschemes_cert i ++ l)
  | ERenegotiationInfo d => set_reneg_supported (set_secure_reneg i d) true
  | EALPN ps => set_protos i (i_protos i ++ ps)
  | ESCT => set_scts i true
  | ESupportedVersions l => set_versions i (i_versions i ++ l)
  | ECookie c => set_cookie i c
  | EKeyShare ks => set_keyshares i (i_keyshares i ++ ks)
  | EEarlyData => set_early i true
  | EPskModes ms => set_pskmodes i ms
  | EPreSharedKey ids bs =>
      let i1 := set_psk_ids i (i_psk_ids i ++ ids) in set_psk_binders i1 (i_psk_binders i1 ++ bs)
  | EOpaque _ _ => i
  end.
Definition ext_step (i : info) (e : ext) : info :=
  ext_effect e (set_extensions i (i_extensions i ++ [ext_type e])).

(* the info of the fixed part: TLS_EMPTY_RENEGOTIATION_INFO_SCSV {0x00,0xFF} (RFC 5746 3.3) *)
Definition info_of_fixed (h : hello) : info :=
  let i := set_ciphers (set_session_id (set_random (set_version empty_info (h_legacy_version h)) (h_random h))
                          (h_session_id h)) (h_ciphers h) in
  let i := if existsb (fun x => (x =? 255)%N) (h_ciphers h) then set_reneg_supported i true else i in
  set_compression i (h_compression h).

Definition info_of_hello (h : hello) : info :=
  let i := fold_left ext_step (exts_of h) (info_of_fixed h) in
  match i_versions i with
  | [] => set_versions i (supported_versions_from_max (h_legacy_version h))
  | _ :: _ => i
  end.

(* ---- successive evaluations on one connection lineage (tls matcher, tls handler, a later tls
   matcher on the inner stream): MatchTLS.Match keeps nothing between calls except the two
   replacer keys, which a later parsed hello overwrites; its verdict depends on the bytes in front
   of it only ---- *)
Definition tls_placeholders := option (list byte * N).
Definition tls_rematch (subs : info -> bool) (st : tls_placeholders) (p : list byte)
  : verdict * tls_placeholders :=
  let r := tls_match subs p in
  (r_verdict r,
   match r_server_name r, r_version r with
   | Some n, Some v => Some (n, v)
   | _, _ => st
   end).
