(* Trace specification for one invocation of RouteList.Compile (property C02), stated on the
   events of model/Router.v.  Definitions only.

   An invocation at nesting depth d over the route list rs emits a contiguous segment of the
   trace ("own": everything up to and including the call of its fallback; nested subroute
   invocations emit events of depth > d inside it).  [proj d own] keeps the events of depth d;
   [good rs d lm l] says that l is a legal continuation of such a projected segment when lm is
   the index of the last route that ran (None: none yet). *)
From Coq Require Import List NArith ZArith Bool Arith Lia.
From Coq.Strings Require Import Byte.
From L4.model Require Import GoBase Router.
Import ListNotations.
Close Scope Z_scope.
Open Scope nat_scope.

Definition ev_depth (e : ev) : option nat :=
  match e with
  | EArm | EClear => None
  | ERun d _ _ | ERead d _ _ | EFallback d _ | ESkip d _ _ | ENext d _ _ | EDrop d _ | EHErr d _ | EPanic d _ => Some d
  end.
Definition at_level (d : nat) (e : ev) : bool :=
  match ev_depth e with Some d' => d' =? d | None => false end.
Definition proj (d : nat) (l : list ev) : list ev := filter (at_level d) l.
(* every event with a depth is at depth >= d *)
Definition min_depth (d : nat) (l : list ev) : Prop :=
  Forall (fun e => match ev_depth e with Some d' => d <= d' | None => True end) l.

Definition is_fb (d : nat) (e : ev) : bool := match e with EFallback d' _ => d' =? d | _ => false end.
Definition count_fb (d : nat) (l : list ev) : nat := length (filter (is_fb d) l).
Definition is_drop (d : nat) (e : ev) : bool := match e with EDrop d' _ => d' =? d | _ => false end.
Definition is_run (d : nat) (e : ev) : bool := match e with ERun d' _ _ => d' =? d | _ => false end.
Definition run_idx (e : ev) : list nat := match e with ERun _ i _ => [i] | _ => [] end.
(* indices of the routes that ran at depth d, in trace order *)
Definition run_idxs (d : nat) (l : list ev) : list nat := flat_map run_idx (filter (is_run d) l).

Definition nth_mss (rs : list route) (i : nat) : option (list (list matcher)) :=
  option_map route_mss (nth_error rs i).

(* every route's matcher sets, as a function of the available bytes, never go back on a No (C06) *)
Definition stable_routes (rs : list route) : Prop :=
  forall r, In r rs -> no_stable (anymatch (route_mss r)).

Section Spec.
Variable stable : Prop.        (* conclusions that rely on cached verdicts are guarded by this *)
Variable rs : list route.
Variable d : nat.

Inductive good : option nat -> list ev -> Prop :=
| g_nil lm : good lm []
| g_skip lm i b l mss :
    lto lm i = true -> nth_mss rs i = Some mss ->
    (stable -> anymatch mss b = No) ->
    good lm l -> good lm (ESkip d i b :: l)
| g_run lm j b l mss :
    lto lm j = true -> nth_mss rs j = Some mss ->
    anymatch mss b = Yes ->
    (stable -> forall i mss', lto lm i = true -> i < j -> nth_mss rs i = Some mss' -> anymatch mss' b <> Yes) ->
    good (Some j) l -> good lm (ERun d j b :: l)
| g_read i x l : good (Some i) l -> good (Some i) (ERead d i x :: l)
| g_next i b l : good (Some i) l -> good (Some i) (ENext d i b :: l)
| g_herr i : good (Some i) [EHErr d i]
| g_panic lm i : lto lm i = true -> i < length rs -> good lm [EPanic d i]
| g_drop lm w : good lm [EDrop d w]
| g_fb lm b :
    (stable -> forall i mss, lto lm i = true -> nth_mss rs i = Some mss -> anymatch mss b = No) ->
    good lm [EFallback d b].
End Spec.

(* ---- how an invocation moves between its routes (nonterminal_continues / terminal_stops at trace level) ----
   [flow d m l]: l is a legal continuation of the depth-d events of an invocation in mode m:
   MOut lm p  between routes: lm = last route that ran, p = bytes that were available when the last handler
              chain handed the connection on (or at the start): later events see p extended by prefetches;
   MIn i      inside the handlers of route i. *)
Inductive mode := MOut (lm : option nat) (p : list byte) | MIn (i : nat).
Definition is_prefix (p b : list byte) : Prop := exists q, b = p ++ q.

Section Flow.
Variable d : nat.
Inductive flow : mode -> list ev -> Prop :=
| f_nil m : flow m []
| f_skip lm p i b l : lto lm i = true -> is_prefix p b -> flow (MOut lm p) l -> flow (MOut lm p) (ESkip d i b :: l)
| f_run lm p j b l : lto lm j = true -> is_prefix p b -> flow (MIn j) l -> flow (MOut lm p) (ERun d j b :: l)
| f_read i x l : flow (MIn i) l -> flow (MIn i) (ERead d i x :: l)
| f_herr i : flow (MIn i) [EHErr d i]
| f_next i b l : flow (MOut (Some i) b) l -> flow (MIn i) (ENext d i b :: l)
| f_panic lm p i : flow (MOut lm p) [EPanic d i]
| f_drop lm p w : flow (MOut lm p) [EDrop d w]
| f_fb lm p b : is_prefix p b -> flow (MOut lm p) [EFallback d b].
End Flow.

(* events a route's own handlers emit at their depth *)
Definition in_chain_ev (d i : nat) (e : ev) : Prop :=
  match e with ERead d' i' _ | EHErr d' i' => d' = d /\ i' = i | _ => False end.
(* what may come first after a route's handlers handed the connection on with bytes p: a later route (run or
   cached skip) or the fallback, on p extended by what was prefetched since; or a drop *)
Definition next_ok (d i : nat) (p : list byte) (e : ev) : Prop :=
  match e with
  | ESkip d' j b | ERun d' j b => d' = d /\ i < j /\ is_prefix p b
  | EFallback d' b => d' = d /\ is_prefix p b
  | EDrop d' _ => d' = d
  | EPanic d' j => d' = d
  | _ => False
  end.

(* index of the last route that ran at depth d in l (lm if none) *)
Definition last_run (d : nat) (lm : option nat) (l : list ev) : option nat :=
  fold_left (fun a e => match e with ERun d' i _ => if d' =? d then Some i else a | _ => a end) l lm.

(* what an invocation appended to the trace: the events of its result state after those of its start state *)
Definition own_evs {net} (s : st net) (r : res net) : list ev := skipn (length (evs s)) (evs (res_st r)).
Definition is_cont {net} (r : res net) : bool := match r with Cont _ => true | _ => false end.
(* sequencing of a result with the continuation: compile .. next s = bind (compile .. Cont s) next *)
Definition bind {net} (r : res net) (k : st net -> res net) : res net := match r with Cont s => k s | r => r end.
(* the answer is final on these bytes *)
Definition decided (v : verdict) : Prop := v = Yes \/ v = No.

(* deadline state after a trace: armed iff the last arm/clear event is EArm *)
Fixpoint armed_after (a : bool) (l : list ev) : bool :=
  match l with
  | [] => a
  | EArm :: r => armed_after true r
  | EClear :: r => armed_after false r
  | _ :: r => armed_after a r
  end.

(* timed traces: the events up to and including the first route run at depth d *)
Fixpoint until_run (d : nat) (X : list (Z * ev)) : list (Z * ev) :=
  match X with
  | [] => []
  | te :: r => if is_run d (snd te) then [te] else te :: until_run d r
  end.
Definition has_run_at (d : nat) (X : list (Z * ev)) : bool := existsb (fun te => is_run d (snd te)) X.
(* what an invocation appended to the timed trace *)
Definition own_tr {net} (s : st net) (r : res net) : list (Z * ev) := skipn (length (tr s)) (tr (res_st r)).

(* ---- deadline state and drops along a trace (C05) ---- *)
Definition is_hev (e : ev) : bool := match e with ERun _ _ _ | EFallback _ _ => true | _ => false end.
Definition is_anydrop (e : ev) : bool := match e with EDrop _ _ => true | _ => false end.
Definition armed_step (a : bool) (e : ev) : bool := match e with EArm => true | EClear => false | _ => a end.
(* every route run / fallback call in l happens with the deadline cleared (a: deadline state before l) *)
Fixpoint hu (a : bool) (l : list ev) : Prop :=
  match l with
  | [] => True
  | e :: r => (is_hev e = true -> a = false) /\ hu (armed_step a e) r
  end.
(* a drop can only be the last event *)
Fixpoint drop_last (l : list ev) : Prop :=
  match l with
  | [] => True
  | e :: r => (is_anydrop e = true -> r = []) /\ drop_last r
  end.
Definition nodrops (l : list ev) : Prop := forall e, In e l -> is_anydrop e = false.

(* ---- how much fuel an invocation needs (totality of the model's [compile]) ----
   One invocation makes at most (number of routes) * (MAXB + 1) + MAXB + 2 passes: every pass after the
   first either lets a further route match or has prefetched at least one more byte into a buffer that
   is refused beyond MAXB; a subroute handler needs one unit more than its route list. *)
Definition loop_bound (n : nat) : nat := n * (MAXB + 1) + MAXB + 2.
Fixpoint need_h (h : handler) : nat :=
  match h with
  | HSub rs _ =>
      S (Nat.max (loop_bound (length rs))
          ((fix nr (l : list route) : nat :=
              match l with
              | [] => 0
              | Route _ hs :: r =>
                  Nat.max ((fix nh (l' : list handler) : nat :=
                              match l' with [] => 0 | h' :: r' => Nat.max (need_h h') (nh r') end) hs) (nr r)
              end) rs))
  | _ => 0
  end.
Fixpoint need_hs (hs : list handler) : nat :=
  match hs with [] => 0 | h :: r => Nat.max (need_h h) (need_hs r) end.
Fixpoint need_routes (rs : list route) : nat :=
  match rs with [] => 0 | Route _ hs :: r => Nat.max (need_hs hs) (need_routes r) end.
Definition need_rs (rs : list route) : nat := Nat.max (loop_bound (length rs)) (need_routes rs).
Definition fuel_ok (rs : list route) (fuel : nat) : Prop := need_rs rs <= fuel.
Definition is_exh {net} (r : res net) : bool := match r with Exhausted _ => true | _ => false end.
