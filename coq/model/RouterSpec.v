(* Trace specification for one invocation of RouteList.Compile (property C02), stated on the
   events of model/Router.v.  Definitions only.

   An invocation at nesting depth d over the route list rs emits a contiguous segment of the
   trace ("own": everything up to and including the call of its fallback; nested subroute
   invocations emit events of depth > d inside it).  [proj d own] keeps the events of depth d;
   [good rs d lm l] says that l is a legal continuation of such a projected segment when lm is
   the index of the last route that ran (None: none yet). *)
From Coq Require Import List NArith ZArith Bool Arith Lia.
From Coq.Strings Require Import Byte.
From L4.model Require Import GoBase Router.
Import ListNotations.
Close Scope Z_scope.
Open Scope nat_scope.

Definition ev_depth (e : ev) : option nat :=
  match e with
  | EArm | EClear => None
  | ERun d _ _ | ERead d _ _ | EFallback d _ | ESkip d _ _ | EDrop d _ | EHErr d _ | EPanic d _ => Some d
  end.
Definition at_level (d : nat) (e : ev) : bool :=
  match ev_depth e with Some d' => d' =? d | None => false end.
Definition proj (d : nat) (l : list ev) : list ev := filter (at_level d) l.
(* every event with a depth is at depth >= d *)
Definition min_depth (d : nat) (l : list ev) : Prop :=
  Forall (fun e => match ev_depth e with Some d' => d <= d' | None => True end) l.

Definition is_fb (d : nat) (e : ev) : bool := match e with EFallback d' _ => d' =? d | _ => false end.
Definition count_fb (d : nat) (l : list ev) : nat := length (filter (is_fb d) l).
Definition is_drop (d : nat) (e : ev) : bool := match e with EDrop d' _ => d' =? d | _ => false end.
Definition is_run (d : nat) (e : ev) : bool := match e with ERun d' _ _ => d' =? d | _ => false end.
Definition run_idx (e : ev) : list nat := match e with ERun _ i _ => [i] | _ => [] end.
(* indices of the routes that ran at depth d, in trace order *)
Definition run_idxs (d : nat) (l : list ev) : list nat := flat_map run_idx (filter (is_run d) l).

Definition nth_mss (rs : list route) (i : nat) : option (list (list matcher)) :=
  option_map route_mss (nth_error rs i).

(* every route's matcher sets, as a function of the available bytes, never go back on a No (C06) *)
Definition stable_routes (rs : list route) : Prop :=
  forall r, In r rs -> no_stable (anymatch (route_mss r)).

Section Spec.
Variable stable : Prop.        (* conclusions that rely on cached verdicts are guarded by this *)
Variable rs : list route.
Variable d : nat.

Inductive good : option nat -> list ev -> Prop :=
| g_nil lm : good lm []
| g_skip lm i b l mss :
    lto lm i = true -> nth_mss rs i = Some mss ->
    (stable -> anymatch mss b = No) ->
    good lm l -> good lm (ESkip d i b :: l)
| g_run lm j b l mss :
    lto lm j = true -> nth_mss rs j = Some mss ->
    anymatch mss b = Yes ->
    (stable -> forall i mss', lto lm i = true -> i < j -> nth_mss rs i = Some mss' -> anymatch mss' b <> Yes) ->
    good (Some j) l -> good lm (ERun d j b :: l)
| g_read i x l : good (Some i) l -> good (Some i) (ERead d i x :: l)
| g_herr i : good (Some i) [EHErr d i]
| g_panic lm i : lto lm i = true -> i < length rs -> good lm [EPanic d i]
| g_drop lm w : good lm [EDrop d w]
| g_fb lm b :
    (stable -> forall i mss, lto lm i = true -> nth_mss rs i = Some mss -> anymatch mss b = No) ->
    good lm [EFallback d b].
End Spec.

(* index of the last route that ran at depth d in l (lm if none) *)
Definition last_run (d : nat) (lm : option nat) (l : list ev) : option nat :=
  fold_left (fun a e => match e with ERun d' i _ => if d' =? d then Some i else a | _ => a end) l lm.

(* what an invocation appended to the trace: the events of its result state after those of its start state *)
Definition own_evs {net} (s : st net) (r : res net) : list ev := skipn (length (evs s)) (evs (res_st r)).
Definition is_cont {net} (r : res net) : bool := match r with Cont _ => true | _ => false end.
(* sequencing of a result with the continuation: compile .. next s = bind (compile .. Cont s) next *)
Definition bind {net} (r : res net) (k : st net -> res net) : res net := match r with Cont s => k s | r => r end.
(* the answer is final on these bytes *)
Definition decided (v : verdict) : Prop := v = Yes \/ v = No.

(* deadline state after a trace: armed iff the last arm/clear event is EArm *)
Fixpoint armed_after (a : bool) (l : list ev) : bool :=
  match l with
  | [] => a
  | EArm :: r => armed_after true r
  | EClear :: r => armed_after false r
  | _ :: r => armed_after a r
  end.

(* timed traces: the events up to and including the first route run at depth d *)
Fixpoint until_run (d : nat) (X : list (Z * ev)) : list (Z * ev) :=
  match X with
  | [] => []
  | te :: r => if is_run d (snd te) then [te] else te :: until_run d r
  end.
Definition has_run_at (d : nat) (X : list (Z * ev)) : bool := existsb (fun te => is_run d (snd te)) X.
(* what an invocation appended to the timed trace *)
Definition own_tr {net} (s : st net) (r : res net) : list (Z * ev) := skipn (length (tr s)) (tr (res_st r)).

(* ---- deadline state and drops along a trace (C05) ---- *)
Definition is_hev (e : ev) : bool := match e with ERun _ _ _ | EFallback _ _ => true | _ => false end.
Definition is_anydrop (e : ev) : bool := match e with EDrop _ _ => true | _ => false end.
Definition armed_step (a : bool) (e : ev) : bool := match e with EArm => true | EClear => false | _ => a end.
(* every route run / fallback call in l happens with the deadline cleared (a: deadline state before l) *)
Fixpoint hu (a : bool) (l : list ev) : Prop :=
  match l with
  | [] => True
  | e :: r => (is_hev e = true -> a = false) /\ hu (armed_step a e) r
  end.
(* a drop can only be the last event *)
Fixpoint drop_last (l : list ev) : Prop :=
  match l with
  | [] => True
  | e :: r => (is_anydrop e = true -> r = []) /\ drop_last r
  end.
Definition nodrops (l : list ev) : Prop := forall e, In e l -> is_anydrop e = false.
